import Dmn.Lemmas.DecCmp
import Dmn.Lemmas.DecFinalize
import Dmn.Lemmas.DecDiv
import Dmn.Lemmas.DecIntegral
import Dmn.Lemmas.DecSqrt
import Dmn.Lemmas.DecParity
import Dmn.Lemmas.DecModulo
import Dmn.Lemmas.DecFeel
import Dmn.Lemmas.Transcend
import Dmn.Lemmas.DecCohort
import Dmn.Lemmas.DecCongr
import Dmn.Lemmas.DecModSign
import Dmn.Lemmas.DecModSmall

/-!
# C02 — FEEL numbers compute as IEEE 754-2008 decimal128 (34 digits, half-even)

Model: `Dmn.D128.*` (`Dmn/Model/D128.lean`), written algorithmically over `Nat`/`Int`.
Specification: `Dmn/Model/DecSpec.lean` — `scaled` (the value as an integer at a common
scale), `SameValue`, `RoundsHalfEven` and the per-operation specifications, all in scaled
integers.

`unproved_ops`: `exp`, `log` and inexact `**` are not modelled (decNumber's algorithms); the
harness only checks "finite number or null" for them.
-/

namespace Dmn.Props.C02
open Dmn Dmn.D128

/-! ## comparison -/

/-- `D128.cmp a b` is the comparison of the two values, taken as integers at any common scale `s`
below both exponents: `value = scaled · 10^s` -/
theorem cmp_correct (a b : D128) (s : Int) (ha : s ≤ a.exp) (hb : s ≤ b.exp) :
    D128.cmp a b = compare (scaled a s) (scaled b s) :=
  cmp_at_scale a b s ha hb

example : (-7 : Int) ≤ (⟨false, 15, -3⟩ : D128).exp ∧ (-7 : Int) ≤ (⟨true, 2, 5⟩ : D128).exp := by decide

/-- equal numbers compare equal whatever their number of trailing zeros -/
theorem cmp_trailing_zeros (n : Bool) (c k : Nat) (e : Int) :
    D128.cmp ⟨n, c * 10 ^ k, e⟩ ⟨n, c, e + k⟩ = .eq := by
  rw [cmp_at_scale _ _ e (by simp) (by simp), compare_int_eq]
  unfold scaled
  simp only []
  have h1 : (e - e).toNat = 0 := by omega
  have h2 : (e + (k : Int) - e).toNat = k := by omega
  rw [h1, h2]
  simp

/-- zeros of either sign and any exponent are equal -/
theorem cmp_zeros (n m : Bool) (e f : Int) : D128.cmp ⟨n, 0, e⟩ ⟨m, 0, f⟩ = .eq := by
  unfold D128.cmp
  simp [sint]

theorem cmp_antisymm (a b : D128) : D128.cmp a b = (D128.cmp b a).swap := by
  rw [cmp_at_scale a b (min a.exp b.exp) (by omega) (by omega),
    cmp_at_scale b a (min a.exp b.exp) (by omega) (by omega)]
  exact compare_int_swap _ _

/-- the order is transitive (each pair is compared at its own scale) -/
theorem cmp_trans (a b c : D128) (h1 : D128.cmp a b = .lt) (h2 : D128.cmp b c = .lt) : D128.cmp a c = .lt := by
  let s := min a.exp (min b.exp c.exp)
  rw [cmp_at_scale a b s (by omega) (by omega), compare_int_lt] at h1
  rw [cmp_at_scale b c s (by omega) (by omega), compare_int_lt] at h2
  rw [cmp_at_scale a c s (by omega) (by omega), compare_int_lt]
  omega

example : D128.cmp ⟨true, 5, 0⟩ ⟨false, 0, 3⟩ = .lt ∧ D128.cmp ⟨false, 0, 3⟩ ⟨false, 1, -60⟩ = .lt := by decide

/-- numeric equality is transitive -/
theorem cmp_eq_trans (a b c : D128) (h1 : D128.cmp a b = .eq) (h2 : D128.cmp b c = .eq) : D128.cmp a c = .eq := by
  let s := min a.exp (min b.exp c.exp)
  rw [cmp_at_scale a b s (by omega) (by omega), compare_int_eq] at h1
  rw [cmp_at_scale b c s (by omega) (by omega), compare_int_eq] at h2
  rw [cmp_at_scale a c s (by omega) (by omega), compare_int_eq]
  omega

example : D128.cmp ⟨false, 10, -1⟩ ⟨false, 1, 0⟩ = .eq ∧ D128.cmp ⟨false, 1, 0⟩ ⟨false, 100, -2⟩ = .eq := by decide

/-! ## negation, absolute value -/

/-- unary minus is exact: the value is negated (and `-0` is `+0`, `decQuadMinus`) -/
theorem neg_exact (a : D128) (s : Int) :
    scaled (negate a) s = - scaled a s ∧ (negate a).exp = a.exp ∧ (negate a).coeff = a.coeff := by
  unfold negate
  by_cases h : a.coeff = 0
  · rw [if_pos h]
    simp [scaled, sint, h]
  · rw [if_neg h]
    cases hn : a.neg <;> simp [scaled, sint, hn]

/-- `abs` is exact: the value is negated when negative, never negative afterwards -/
theorem abs_exact (a : D128) (s : Int) :
    scaled (D128.abs a) s = (if a.neg then - scaled a s else scaled a s) ∧ 0 ≤ scaled (D128.abs a) s ∧
      (D128.abs a).exp = a.exp ∧ (D128.abs a).coeff = a.coeff := by
  unfold D128.abs scaled sint
  cases hn : a.neg <;> simp <;> exact Int.natCast_nonneg _

/-! ## reduce -/

/-- `reduce` keeps the value and the sign, stays representable, and strips every trailing zero
(unless the exponent limit 6111 stops it); a zero becomes `0E+0` -/
theorem reduce_val (a : D128) (hwf : WF a) :
    SameValue (reduce a) a ∧ (reduce a).neg = a.neg ∧ WF (reduce a) ∧
      ((reduce a).coeff = 0 ∨ (reduce a).coeff % 10 ≠ 0 ∨ (reduce a).exp = eTop) := by
  obtain ⟨hc, hlo, hhi⟩ := hwf
  unfold reduce
  by_cases h0 : a.coeff = 0
  · rw [if_pos h0]
    refine ⟨?_, rfl, ⟨by show (0 : Nat) < 10 ^ 34; decide, by show (-6176 : Int) ≤ 0; decide,
      by show (0 : Int) ≤ 6111; decide⟩, Or.inl rfl⟩
    unfold SameValue scaled sint
    simp [h0]
  · rw [if_neg h0]
    obtain ⟨h1, h2, h3⟩ := stripZeros_spec (eTop - a.exp).toNat a.coeff
    have hdone := stripZeros_done (eTop - a.exp).toNat a.coeff
    generalize hsz : stripZeros (eTop - a.exp).toNat a.coeff = p at h1 h2 h3 hdone
    obtain ⟨m, k⟩ := p
    simp only [] at h1 h2 h3 hdone ⊢
    have hk : (k : Int) ≤ eTop - a.exp := by unfold eTop at *; omega
    refine ⟨?_, trivial, ⟨?_, ?_, ?_⟩, ?_⟩
    rotate_left
    · show m < 10 ^ 34
      have : m ≤ a.coeff := by
        rw [h1]
        exact Nat.le_mul_of_pos_right m (pow10_pos k)
      omega
    · show -6176 ≤ a.exp + (k : Int)
      omega
    · show a.exp + (k : Int) ≤ 6111
      unfold eTop at hk; omega
    · show m = 0 ∨ m % 10 ≠ 0 ∨ a.exp + (k : Int) = eTop
      rcases hdone with h | h | h
      · exact Or.inl h
      · exact Or.inr (Or.inl h)
      · refine Or.inr (Or.inr ?_)
        unfold eTop at *
        omega
    · unfold SameValue scaled
      simp only []
      have e1 : min (a.exp + (k : Int)) a.exp = a.exp := by omega
      rw [e1]
      have e2 : (a.exp + (k : Int) - a.exp).toNat = k := by omega
      have e3 : (a.exp - a.exp).toNat = 0 := by omega
      rw [e2, e3, ← h1]
      simp

example : WF ⟨true, 1200, -3⟩ := by decide

/-! ## addition, subtraction, multiplication -/

/-- `add` returns the correctly rounded sum: with `s` the exact sum of the two scaled integers
at the common exponent `min a.exp b.exp`, the result is `RoundsHalfEven` of `|s|·10^min`
(nearest at 34 digits, ties to even, subnormals at exponent −6176, ±Infinity exactly on
overflow), and an exact zero sum is a representable zero that is negative only when both operands are -/
theorem add_correct (a b : D128) : AddSpec a b (D128.add a b) := by
  unfold AddSpec D128.add exactSum scaled
  simp only []
  split
  · exact ⟨rfl, rfl, wf_zero _ _⟩
  · next h =>
    exact finalize_rounds _ _ _ false _ 1 (by decide) (by simp) (by omega) (by simp) (by simp) (by omega)

/-- the sign flip used by subtraction negates the value -/
theorem flip_exact (b : D128) (s : Int) : scaled (D128.flip b) s = - scaled b s := by
  unfold D128.flip scaled sint
  cases b.neg <;> simp

/-- `sub a b` is the correctly rounded sum of `a` and `-b` -/
theorem sub_correct (a b : D128) : AddSpec a (D128.flip b) (D128.sub a b) :=
  add_correct a (D128.flip b)

/-- `mul` returns the correctly rounded product `coeff·coeff · 10^(exp+exp)` with the xor of
the signs; a zero product is a representable zero -/
theorem mul_correct (a b : D128) : MulSpec a b (D128.mul a b) := by
  unfold MulSpec D128.mul
  split
  · next h =>
    rw [h, finalize_zero]
    exact ⟨rfl, rfl, wf_zero _ _⟩
  · next h =>
    exact finalize_rounds _ _ _ false _ 1 (by decide) (by simp) (by omega) (by simp) (by simp) (by omega)

/-- a tie at the 34th digit goes to the even coefficient: `9999999999999999999999999999999998.5 → …98`,
`…99.5 → 10^34` (carry), and both are what `add_correct` demands -/
example : D128.add ⟨false, 9999999999999999999999999999999998, 0⟩ ⟨false, 5, -1⟩
    = .fin ⟨false, 9999999999999999999999999999999998, 0⟩ := by decide
example : D128.add ⟨false, 9999999999999999999999999999999999, 0⟩ ⟨false, 5, -1⟩
    = .fin ⟨false, 1000000000000000000000000000000000, 1⟩ := by decide
example : D128.mul ⟨false, 9999999999999999999999999999999999, 6111⟩ ⟨false, 10, 0⟩ = .inf false := by decide

/-! ## division -/

/-- `div` returns the correctly rounded quotient `(a.coeff / b.coeff)·10^(a.exp − b.exp)`:
long division to 35 digits + sticky followed by the one rounding step; `0/0` is NaN, `x/0` is
±Infinity, `0/x` a representable zero -/
theorem div_correct (a b : D128) (hb : b.coeff < 10 ^ 34) : DivSpec a b (D128.div a b) := by
  unfold DivSpec D128.div
  simp only []
  by_cases hb0 : b.coeff = 0
  · rw [if_pos hb0, if_pos hb0]
    by_cases ha0 : a.coeff = 0
    · rw [if_pos ha0, if_pos ha0]
    · rw [if_neg ha0, if_neg ha0]
  · rw [if_neg hb0, if_neg hb0]
    by_cases ha0 : a.coeff = 0
    · rw [if_pos ha0, if_pos ha0]
      exact ⟨rfl, rfl, wf_zero _ _⟩
    · rw [if_neg ha0, if_neg ha0]
      obtain ⟨i1, i2, i3⟩ := divLoop_done a.coeff b.coeff (by omega) (by omega) hb
      generalize divLoop divFuel (a.coeff / b.coeff) (a.coeff % b.coeff) b.coeff 0 = res at *
      obtain ⟨q, r, k⟩ := res
      simp only [] at i1 i2 i3 ⊢
      rw [← roundsHalfEven_shift _ a.coeff b.coeff (a.exp - b.exp) k]
      have hS : (q + 1) * b.coeff = q * b.coeff + b.coeff := by ring
      have hpos : 0 < a.coeff * 10 ^ k := Nat.mul_pos (by omega) (pow10_pos k)
      refine finalize_rounds _ q _ (decide (r ≠ 0)) (a.coeff * 10 ^ k) b.coeff (by omega) (by omega)
        (by omega) ?_ ?_ hpos
      · simp only [decide_eq_true_eq]
        constructor <;> intro h <;> omega
      · intro h
        simp only [decide_eq_true_eq] at h
        exact i3 h

example : D128.div ⟨false, 1, 0⟩ ⟨false, 3, 0⟩ = .fin ⟨false, 3333333333333333333333333333333333, -34⟩ := by decide
example : D128.div ⟨false, 2, 0⟩ ⟨true, 3, 0⟩ = .fin ⟨true, 6666666666666666666666666666666667, -34⟩ := by decide
example : D128.div ⟨false, 20, 0⟩ ⟨false, 8, 0⟩ = .fin ⟨false, 25, -1⟩ := by decide

/-! ## floor, ceiling, decimal -/

/-- `floor a` is the largest integer not above `a` (as `dec_floor` returns it: exponent 0, or
`a` itself when its exponent is not negative) -/
theorem floor_correct (a : D128) : FloorSpec a (D128.floor a) := floor_spec a

/-- `ceiling a` is the smallest integer not below `a`; `ceiling(-0.5)` is `+0` -/
theorem ceil_correct (a : D128) : CeilSpec a (D128.ceiling a) := ceil_spec a

example : D128.floor ⟨true, 5, -1⟩ = ⟨true, 1, 0⟩ ∧ D128.ceiling ⟨true, 5, -1⟩ = ⟨false, 0, 0⟩ := by decide

/-- FEEL `decimal(a, scale)` for a scale in the range FEEL admits: the multiple of `10^(-scale)`
nearest to `a`, ties to the even multiple; `NaN` exactly when that needs more than 34 digits -/
theorem rescale_correct (a : D128) (scale : Int) (hlo : -6111 ≤ scale) (hhi : scale ≤ 6176) :
    RescaleSpec a scale (D128.rescale a scale) :=
  rescale_spec a scale (by unfold eTiny; omega) (by unfold eMax; omega)

example : D128.rescale ⟨false, 25, -1⟩ 0 = .fin ⟨false, 2, 0⟩ ∧ D128.rescale ⟨false, 35, -1⟩ 0 = .fin ⟨false, 4, 0⟩ := by
  decide

/-! ## square root -/

/-- `sqrt a` is the correctly rounded square root: `|√a − r| ≤ ulp(r)/2` (stated through
squares at a common scale), an exact root carries the ideal exponent `⌊e/2⌋`, any other result
has 34 digits; `√(±0) = ±0`, the root of a negative number is NaN (FEEL answers null) -/
theorem sqrt_correct (a : D128) (hwf : WF a) : SqrtSpec a (D128.sqrt a) := sqrt_spec a hwf

example : WF ⟨false, 2, 0⟩ ∧
    D128.sqrt ⟨false, 2, 0⟩ = .fin ⟨false, 1414213562373095048801688724209698, -33⟩ := by decide +kernel
example : D128.sqrt ⟨false, 4000, -3⟩ = .fin ⟨false, 200, -2⟩ := by decide +kernel

/-! ## modulo, odd, even -/

/-- what the code computes (`core.rs:687`, `number.rs:328`): `a − b·floor(a / b)` with *every* step
rounded to 34 digits (and reduced).  This is the shape of the model, not the specification: the
specification is `ModuloSpec` (`Model/DecSpec.lean`), the mathematical modulo rounded once. -/
theorem modulo_spec (a b : D128R) :
    FNum.modulo a b = FNum.sub a (FNum.mul b (FNum.floor (FNum.div a b))) := rfl

example : FNum.modulo (.fin ⟨true, 12, 0⟩) (.fin ⟨false, 5, 0⟩) = .fin ⟨false, 3, 0⟩ := by decide

-- FULL STATEMENT (not provable of the current code, finding F60-modulo):
--   theorem modulo_correct (a b : D128) (ha : WF a) (hb : WF b) (hb0 : b.coeff ≠ 0) :
--     ∃ r, ModuloSpec a b r ∧ FNum.modulo (.fin a) (.fin b) = r.reduce
-- (`modulo(a, b)` is the correctly rounded 34-digit value of the mathematical `a − b·⌊a/b⌋`.  The
-- code rounds the quotient before taking its floor and rounds the product: `modulo_counterexample`.)

/-- `modulo(a, b)` is the mathematical modulo `a − b·⌊a/b⌋`, computed exactly and rounded once
(some representation of the reduced answer meets `ModuloSpec`), **whenever** `modExact a b`: the
floor of the rounded quotient is the floor of the exact quotient and the product `b·⌊a/b⌋` needs
no rounding — the exact condition under which the code's formula loses nothing before its last
step.  Both hold, for instance, whenever `a / b` and `b·⌊a/b⌋` have at most 34 digits. -/
theorem modulo_correct_partial (a b : D128) (h : modExact a b = true) :
    ∃ r, ModuloSpec a b r ∧ FNum.modulo (.fin a) (.fin b) = r.reduce := by
  unfold modExact at h
  split at h
  · next f hf =>
    split at h
    · next p q hp hq =>
      simp only [Bool.and_eq_true, decide_eq_true_eq] at h
      obtain ⟨h1, h2⟩ := h
      subst h1
      refine ⟨D128.add a (D128.flip p), addSpec_to_modulo a b p _ h2 (add_correct a (D128.flip p)), ?_⟩
      unfold FNum.modulo
      rw [hf, hp]
      rfl
    · exact absurd h (by simp)
  · exact absurd h (by simp)

example : modExact ⟨true, 12, 0⟩ ⟨false, 5, 0⟩ = true ∧ modExact ⟨false, 105, -1⟩ ⟨true, 32, -1⟩ = true ∧
    modExact ⟨false, 1, 0⟩ ⟨false, 3, -1⟩ = true ∧ modExact ⟨false, 1234567890123456789, 3⟩ ⟨false, 7, -2⟩ = true := by
  decide +kernel

/-- F60-modulo witness: `modulo(9999999999999999999999999999999999, 2)` is `-1`; the mathematical
modulo is `1` (exactly representable), and no correctly rounded value of it reduces to `-1`.  The
quotient `4999999999999999999999999999999999.5` has 35 digits and rounds (half-even) to `5E+33`
before the floor is taken. -/
theorem modulo_counterexample :
    WF ⟨false, 9999999999999999999999999999999999, 0⟩ ∧ WF ⟨false, 2, 0⟩ ∧
    FNum.modulo (.fin ⟨false, 9999999999999999999999999999999999, 0⟩) (.fin ⟨false, 2, 0⟩) = .fin ⟨true, 1, 0⟩ ∧
    exactMod ⟨false, 9999999999999999999999999999999999, 0⟩ ⟨false, 2, 0⟩ = 1 ∧
    modExact ⟨false, 9999999999999999999999999999999999, 0⟩ ⟨false, 2, 0⟩ = false ∧
    ¬ ∃ r, ModuloSpec ⟨false, 9999999999999999999999999999999999, 0⟩ ⟨false, 2, 0⟩ r ∧
      FNum.modulo (.fin ⟨false, 9999999999999999999999999999999999, 0⟩) (.fin ⟨false, 2, 0⟩) = r.reduce := by
  have hm : FNum.modulo (.fin ⟨false, 9999999999999999999999999999999999, 0⟩) (.fin ⟨false, 2, 0⟩) = .fin ⟨true, 1, 0⟩ := by
    decide +kernel
  have he : exactMod ⟨false, 9999999999999999999999999999999999, 0⟩ ⟨false, 2, 0⟩ = 1 := by decide +kernel
  refine ⟨by decide, by decide, hm, he, by decide +kernel, ?_⟩
  rintro ⟨r, hs, hr⟩
  rw [hm] at hr
  unfold ModuloSpec at hs
  rw [he] at hs
  simp only [show ¬ ((1 : Int) = 0) by decide, if_false] at hs
  cases r with
  | nan => exact hs
  | inf s => exact absurd hs.2 (by decide +kernel)
  | fin d =>
    have hn : d.neg = false := by simpa using hs.1
    have : (D128.reduce d).neg = d.neg := by
      unfold D128.reduce
      split <;> rfl
    have h2 : (D128.reduce d).neg = true := by
      have := congrArg (fun x => match x with | D128R.fin y => y.neg | _ => false) hr
      simpa [D128R.reduce] using this.symm
    rw [this, hn] at h2
    exact absurd h2 (by decide)

/-- second witness (a non-integer divisor): `modulo(2999999999999999999999999999999999, 0.3)` is `0`;
the mathematical modulo is `0.2` -/
theorem modulo_counterexample_fraction :
    FNum.modulo (.fin ⟨false, 2999999999999999999999999999999999, 0⟩) (.fin ⟨false, 3, -1⟩) = .fin ⟨false, 0, 0⟩ ∧
    exactMod ⟨false, 2999999999999999999999999999999999, 0⟩ ⟨false, 3, -1⟩ = 2 ∧
    min (⟨false, 2999999999999999999999999999999999, 0⟩ : D128).exp (⟨false, 3, -1⟩ : D128).exp = -1 ∧
    ModuloSpec ⟨false, 2999999999999999999999999999999999, 0⟩ ⟨false, 3, -1⟩ (.fin ⟨false, 2, -1⟩) ∧
    ¬ ModuloSpec ⟨false, 2999999999999999999999999999999999, 0⟩ ⟨false, 3, -1⟩ (.fin ⟨false, 0, 0⟩) := by
  decide +kernel

/-- **a simple sufficient condition for `modExact`** (hence for `modulo_correct_partial` and
`modulo_sign_partial`): both operands, written at their common exponent `min a.exp b.exp`, have at
most 33 digits, and the exponent of the divisor is at most 6078.  Then the floor of the quotient
rounded to 34 digits is the floor of the exact quotient (the next integer above `A/B` is at least
`1/B` away — farther than half a unit of a 34-digit rounding when `A, B < 10^33`), and the product
`b·⌊a/b⌋` has at most 34 digits.  (33, not 34: `modulo_counterexample` has a 34-digit dividend.) -/
theorem modExact_of_small (a b : D128) (wb : WF b) (hb0 : b.coeff ≠ 0)
    (hA : a.coeff * 10 ^ (a.exp - min a.exp b.exp).toNat < 10 ^ 33)
    (hB : b.coeff * 10 ^ (b.exp - min a.exp b.exp).toNat < 10 ^ 33)
    (hbe : b.exp ≤ 6078) : modExact a b = true :=
  modExact_of_small_aux a b wb hb0 hA hB hbe (div_correct a b wb.1)

example : WF ⟨true, 32, -1⟩ ∧ (⟨true, 32, -1⟩ : D128).coeff ≠ 0 ∧
    (⟨false, 1234567890123456789, 3⟩ : D128).coeff
      * 10 ^ ((⟨false, 1234567890123456789, 3⟩ : D128).exp - min (3 : Int) (-1)).toNat < 10 ^ 33 ∧
    (⟨true, 32, -1⟩ : D128).coeff * 10 ^ ((⟨true, 32, -1⟩ : D128).exp - min (3 : Int) (-1)).toNat < 10 ^ 33 ∧
    (⟨true, 32, -1⟩ : D128).exp ≤ 6078 := by decide

/-- the mathematical modulo (the specification side, `exactMod`) has the sign of the divisor and
is smaller than the divisor in magnitude: `0 ≤ m < b` for `b > 0`, `b < m ≤ 0` for `b < 0` -/
theorem exactMod_sign (a b : D128) :
    (0 < scaled b (min a.exp b.exp) → 0 ≤ exactMod a b ∧ exactMod a b < scaled b (min a.exp b.exp)) ∧
    (scaled b (min a.exp b.exp) < 0 → scaled b (min a.exp b.exp) < exactMod a b ∧ exactMod a b ≤ 0) :=
  fmod_bounds _ _

example : 0 < scaled ⟨false, 5, 0⟩ (min (⟨true, 12, 0⟩ : D128).exp (⟨false, 5, 0⟩ : D128).exp) ∧
    scaled ⟨true, 32, -1⟩ (min (⟨false, 105, -1⟩ : D128).exp (⟨true, 32, -1⟩ : D128).exp) < 0 ∧
    exactMod ⟨true, 12, 0⟩ ⟨false, 5, 0⟩ = 3 ∧ exactMod ⟨false, 105, -1⟩ ⟨true, 32, -1⟩ = -23 := by decide

/-- **sign rule of `modulo` inside the exact region**: whenever `modExact a b`, a finite answer of
`modulo(a, b)` is a zero or has the sign of the divisor (outside the region it need not:
`modulo_counterexample` is `-1` for the divisor `2`) -/
theorem modulo_sign_partial (a b : D128) (h : modExact a b = true) (hb0 : b.coeff ≠ 0) (d : D128)
    (hd : FNum.modulo (.fin a) (.fin b) = .fin d) : d.coeff = 0 ∨ d.neg = b.neg := by
  obtain ⟨r, hs, hr⟩ := modulo_correct_partial a b h
  rw [hd] at hr
  cases r with
  | nan => exact absurd hr (by simp [D128R.reduce])
  | inf s => exact absurd hr (by simp [D128R.reduce])
  | fin d0 =>
    have hdd : d = D128.reduce d0 := by
      have := hr
      simp only [D128R.reduce, D128R.fin.injEq] at this
      exact this
    rw [hdd, reduce_neg, reduce_coeff_zero]
    unfold ModuloSpec at hs
    by_cases h0 : exactMod a b = 0
    · rw [if_pos h0] at hs
      rcases hs with x | x
      · exact Or.inl x.1
      · exact Or.inl x.1
    · rw [if_neg h0] at hs
      refine Or.inr ?_
      have hn : d0.neg = decide (exactMod a b < 0) := hs.1
      rw [hn]
      obtain ⟨s1, s2⟩ := exactMod_sign a b
      have hneg := sint_mul_neg_iff b.neg b.coeff (10 ^ (b.exp - min a.exp b.exp).toNat) (pow10_pos _)
      have hzero := sint_mul_zero_iff b.neg b.coeff (10 ^ (b.exp - min a.exp b.exp).toNat) (pow10_pos _)
      have hsc : scaled b (min a.exp b.exp) = sint b.neg (b.coeff * 10 ^ (b.exp - min a.exp b.exp).toNat) := rfl
      rw [← hsc] at hneg hzero
      cases hbn : b.neg
      · have : ¬ scaled b (min a.exp b.exp) < 0 := by
          rw [hneg, hbn]; simp
        have hpos : 0 < scaled b (min a.exp b.exp) := by
          have : scaled b (min a.exp b.exp) ≠ 0 := fun x => hb0 (hzero.mp x)
          omega
        have := (s1 hpos).1
        simp only [decide_eq_false_iff_not]
        omega
      · have hlt : scaled b (min a.exp b.exp) < 0 := hneg.mpr ⟨hbn, hb0⟩
        have := (s2 hlt).2
        simp only [decide_eq_true_eq]
        omega

example : modExact ⟨true, 12, 0⟩ ⟨false, 5, 0⟩ = true ∧ (⟨false, 5, 0⟩ : D128).coeff ≠ 0 ∧
    FNum.modulo (.fin ⟨true, 12, 0⟩) (.fin ⟨false, 5, 0⟩) = .fin ⟨false, 3, 0⟩ ∧
    modExact ⟨false, 105, -1⟩ ⟨true, 32, -1⟩ = true ∧
    FNum.modulo (.fin ⟨false, 105, -1⟩) (.fin ⟨true, 32, -1⟩) = .fin ⟨true, 23, -1⟩ := by decide +kernel

/-- `modulo(a, b)` **is** the mathematical modulo, correctly rounded, with the sign
of the divisor, for all operands of at most 33 digits at their common exponent -/
theorem modulo_correct_small (a b : D128) (wb : WF b) (hb0 : b.coeff ≠ 0)
    (hA : a.coeff * 10 ^ (a.exp - min a.exp b.exp).toNat < 10 ^ 33)
    (hB : b.coeff * 10 ^ (b.exp - min a.exp b.exp).toNat < 10 ^ 33)
    (hbe : b.exp ≤ 6078) :
    (∃ r, ModuloSpec a b r ∧ FNum.modulo (.fin a) (.fin b) = r.reduce) ∧
    (∀ d, FNum.modulo (.fin a) (.fin b) = .fin d → d.coeff = 0 ∨ d.neg = b.neg) :=
  ⟨modulo_correct_partial a b (modExact_of_small a b wb hb0 hA hB hbe),
    fun d hd => modulo_sign_partial a b (modExact_of_small a b wb hb0 hA hB hbe) hb0 d hd⟩

example : WF ⟨false, 5, 0⟩ ∧ (⟨false, 5, 0⟩ : D128).coeff ≠ 0 ∧
    (⟨true, 12, 0⟩ : D128).coeff * 10 ^ ((⟨true, 12, 0⟩ : D128).exp - min (0 : Int) 0).toNat < 10 ^ 33 ∧
    (⟨false, 5, 0⟩ : D128).coeff * 10 ^ ((⟨false, 5, 0⟩ : D128).exp - min (0 : Int) 0).toNat < 10 ^ 33 ∧
    (⟨false, 5, 0⟩ : D128).exp ≤ 6078 := by decide

/-- `odd` and `even` speak about the value, whatever the exponent (after fix 5501a2e, which
repaired F21 `even(1E+40) = false` and F22 `odd(1.0) = false`): `odd a` iff the value is an odd
integer, `even a` iff it is an even integer -/
theorem odd_even_spec (a : D128) (hwf : WF a) :
    FNum.odd (.fin a) = (match toInt? a with | some i => i % 2 == 1 | none => false) ∧
    FNum.even (.fin a) = (match toInt? a with | some i => i % 2 == 0 | none => false) :=
  odd_even_value a hwf

example : WF ⟨false, 10, -1⟩ ∧ FNum.odd (.fin ⟨false, 10, -1⟩) = true ∧
    FNum.even (.fin ⟨false, 1, 40⟩) = true ∧ FNum.odd (.fin ⟨true, 25, -1⟩) = false := by decide

/-- `is_integer` holds exactly when the value is an integer (`1.0` and `1E+2` are) -/
theorem is_integer_spec (a : D128) : FNum.isInteger (.fin a) = (toInt? a).isSome :=
  isInteger_spec a

/-! ## the operators and built-ins as FEEL sees them: null for an undefined operation

`FeelNum.*` (`Model/DecFeel.lean`) is the glue of builders.rs / core.rs around the `FeelNumber`
methods: the zero-divisor guards of `/` and `modulo`, the sign guard of `sqrt`, the truncation
and range test of the scale of `decimal`.  `none` is FEEL `null`. -/

/-- `a / b`: null exactly for a zero divisor (of either sign and any exponent); otherwise the
correctly rounded quotient (reduced) -/
theorem feel_div_spec (a b : D128) (hb : b.coeff < 10 ^ 34) :
    (b.coeff = 0 → FeelNum.div (.fin a) (.fin b) = none) ∧
    (b.coeff ≠ 0 → ∃ r, DivSpec a b r ∧ FeelNum.div (.fin a) (.fin b) = some r.reduce) := by
  unfold FeelNum.div
  rw [FeelNum.isZeroNum_fin]
  refine ⟨fun h => by simp [h], fun h => ⟨D128.div a b, div_correct a b hb, by simp [h]; rfl⟩⟩

example : FeelNum.div (.fin ⟨false, 1, 0⟩) (.fin ⟨true, 0, -3⟩) = none ∧
    FeelNum.div (.fin ⟨false, 1, 0⟩) (.fin ⟨false, 4, 0⟩) = some (.fin ⟨false, 25, -2⟩) := by decide

/-- `modulo(a, b)`: null exactly for a zero divisor; otherwise the formula of `modulo_spec`
(which is the mathematical modulo under `modExact`, `modulo_correct_partial`) -/
theorem feel_modulo_null (a b : D128) :
    (b.coeff = 0 → FeelNum.modulo (.fin a) (.fin b) = none) ∧
    (b.coeff ≠ 0 → FeelNum.modulo (.fin a) (.fin b) = some (D128.modulo a b)) := by
  unfold FeelNum.modulo
  rw [FeelNum.isZeroNum_fin]
  exact ⟨fun h => by simp [h], fun h => by simp [h]; rfl⟩

example : FeelNum.modulo (.fin ⟨false, 10, 0⟩) (.fin ⟨false, 0, 5⟩) = none := by decide

/-- `sqrt(a)`: null exactly for a negative number (`-0` is not one); otherwise the correctly
rounded root (reduced) -/
theorem feel_sqrt_spec (a : D128) (hwf : WF a) :
    (a.neg = true ∧ a.coeff ≠ 0 → FeelNum.sqrt (.fin a) = none) ∧
    (¬ (a.neg = true ∧ a.coeff ≠ 0) →
      ∃ d, SqrtSpec a (.fin d) ∧ FeelNum.sqrt (.fin a) = some (.fin (D128.reduce d))) := by
  unfold FeelNum.sqrt
  rw [FeelNum.geZero_fin]
  constructor
  · intro h; simp [h.1, h.2]
  · intro h
    have hs := sqrt_correct a hwf
    have hg : (!(a.neg && decide (a.coeff ≠ 0))) = true := by
      cases hn : a.neg
      · simp
      · simp only [Bool.true_and, Bool.not_eq_true', decide_eq_false_iff_not]
        intro hc; exact h ⟨hn, hc⟩
    rw [hg]
    simp only [if_true]
    cases hr : D128.sqrt a with
    | fin d =>
      refine ⟨d, hr ▸ hs, ?_⟩
      simp [FNum.sqrt, hr]
    | inf s =>
      exfalso
      rw [hr] at hs
      unfold SqrtSpec at hs
      by_cases h0 : a.coeff = 0
      · rw [if_pos h0] at hs; cases hs
      · rw [if_neg h0] at hs
        have hn : a.neg = false := by
          cases hn : a.neg
          · rfl
          · exact absurd ⟨hn, h0⟩ h
        simp [hn] at hs
    | nan =>
      exfalso
      rw [hr] at hs
      unfold SqrtSpec at hs
      by_cases h0 : a.coeff = 0
      · rw [if_pos h0] at hs; cases hs
      · rw [if_neg h0] at hs
        have hn : a.neg = false := by
          cases hn : a.neg
          · rfl
          · exact absurd ⟨hn, h0⟩ h
        simp [hn] at hs

example : WF ⟨true, 4, 0⟩ ∧ FeelNum.sqrt (.fin ⟨true, 4, 0⟩) = none ∧
    FeelNum.sqrt (.fin ⟨true, 0, 0⟩) = some (.fin ⟨true, 0, 0⟩) := by decide

/-- `decimal(a, s)`: with `k` the scale `s` truncated towards zero to an integer — null when `k`
lies outside `-6111 .. 6176`; inside, the multiple of `10^(-k)` nearest to `a`, ties to even
(`RescaleSpec`), or — not null, finding F20 — NaN when that needs more than 34 digits -/
theorem feel_decimal_spec (a s : D128) :
    ∃ k : Int, toInt? (D128.trunc s) = some k ∧
      ((-6111 ≤ k ∧ k ≤ 6176) → ∃ r, RescaleSpec a k r ∧ FeelNum.decimal (.fin a) (.fin s) = some r) ∧
      (¬ (-6111 ≤ k ∧ k ≤ 6176) → FeelNum.decimal (.fin a) (.fin s) = none) := by
  refine ⟨scaled (D128.trunc s) 0, FeelNum.toInt_trunc s, ?_, ?_⟩
  · intro h
    refine ⟨D128.rescale a (scaled (D128.trunc s) 0), rescale_correct a _ h.1 h.2, ?_⟩
    rw [FeelNum.decimal_fin, if_pos h]
  · intro h
    rw [FeelNum.decimal_fin, if_neg h]

example : FeelNum.decimal (.fin ⟨false, 25, -1⟩) (.fin ⟨false, 7, -1⟩) = some (.fin ⟨false, 2, 0⟩) ∧
    FeelNum.decimal (.fin ⟨false, 1, 0⟩) (.fin ⟨false, 61775, -1⟩) = none ∧
    FeelNum.decimal (.fin ⟨false, 1, 0⟩) (.fin ⟨true, 61119, -1⟩) = some (.fin ⟨false, 0, 6111⟩) := by decide +kernel

/-! ## no infinite / NaN results at the FEEL level -/

-- FULL STATEMENT (not provable of the current code, finding F7):
--   theorem feel_arith_finite (a b : D128) (ha : WF a) (hb : WF b) :
--     (FNum.add (.fin a) (.fin b)).isFinite ∧ (FNum.sub (.fin a) (.fin b)).isFinite ∧
--     (FNum.mul (.fin a) (.fin b)).isFinite ∧ (b.coeff ≠ 0 → (FNum.div (.fin a) (.fin b)).isFinite)
-- (FEEL must answer null instead; the operators of number.rs:264-326 do not check.)

/-- the FEEL operators give a finite number whenever the exact result does not round above
the largest decimal128 (`¬ Overflows`); in particular the only non-finite results are overflows -/
theorem feel_arith_finite_partial (a b : D128) (hb : b.coeff < 10 ^ 34) :
    (¬ Overflows (exactSum a b).natAbs 1 (min a.exp b.exp) → (FNum.add (.fin a) (.fin b)).isFinite = true) ∧
    (¬ Overflows (a.coeff * b.coeff) 1 (a.exp + b.exp) → (FNum.mul (.fin a) (.fin b)).isFinite = true) ∧
    (b.coeff ≠ 0 → ¬ Overflows a.coeff b.coeff (a.exp - b.exp) → (FNum.div (.fin a) (.fin b)).isFinite = true) := by
  refine ⟨?_, ?_, ?_⟩
  · intro hno
    have h := add_correct a b
    unfold AddSpec at h
    simp only [] at h
    unfold FNum.add D128R.add
    simp only []
    cases hr : D128.add a b with
    | fin d => rfl
    | inf s =>
      rw [hr] at h
      by_cases hs : exactSum a b = 0
      · rw [if_pos hs] at h; exact absurd h (by simp [IsZeroWith])
      · rw [if_neg hs] at h; exact absurd h.2 hno
    | nan =>
      rw [hr] at h
      by_cases hs : exactSum a b = 0
      · rw [if_pos hs] at h; exact absurd h (by simp [IsZeroWith])
      · rw [if_neg hs] at h; exact absurd h (by simp [RoundsHalfEven])
  · intro hno
    have h := mul_correct a b
    unfold MulSpec at h
    unfold FNum.mul D128R.mul
    simp only []
    cases hr : D128.mul a b with
    | fin d => rfl
    | inf s =>
      rw [hr] at h
      by_cases hs : a.coeff * b.coeff = 0
      · rw [if_pos hs] at h; exact absurd h (by simp [IsZeroWith])
      · rw [if_neg hs] at h; exact absurd h.2 hno
    | nan =>
      rw [hr] at h
      by_cases hs : a.coeff * b.coeff = 0
      · rw [if_pos hs] at h; exact absurd h (by simp [IsZeroWith])
      · rw [if_neg hs] at h; exact absurd h (by simp [RoundsHalfEven])
  · intro hb0 hno
    have h := div_correct a b hb
    unfold DivSpec at h
    rw [if_neg hb0] at h
    unfold FNum.div D128R.div
    simp only []
    cases hr : D128.div a b with
    | fin d => rfl
    | inf s =>
      rw [hr] at h
      by_cases hs : a.coeff = 0
      · rw [if_pos hs] at h; exact absurd h (by simp [IsZeroWith])
      · rw [if_neg hs] at h; exact absurd h.2 hno
    | nan =>
      rw [hr] at h
      by_cases hs : a.coeff = 0
      · rw [if_pos hs] at h; exact absurd h (by simp [IsZeroWith])
      · rw [if_neg hs] at h; exact absurd h (by simp [RoundsHalfEven])

example : ¬ Overflows (3 * 4) 1 ((0 : Int) + 0) := by decide +kernel

/-- F7 witness: `9999999999999999999999999999999999E+6111 * 10` is `Infinity`, not `null` -/
theorem feel_arith_finite_counterexample :
    WF ⟨false, 9999999999999999999999999999999999, 6111⟩ ∧ WF ⟨false, 10, 0⟩ ∧
    FNum.mul (.fin ⟨false, 9999999999999999999999999999999999, 6111⟩) (.fin ⟨false, 10, 0⟩) = .inf false := by
  decide

/-- F20 witness: `decimal(1234567890123456789012345678901234, 2)` is `NaN`, not `null` -/
theorem feel_decimal_finite_counterexample :
    FNum.round (.fin ⟨false, 1234567890123456789012345678901234, 0⟩) 2 = .nan := by decide

/-- F7b witness: `modulo(1E+6111, 3E-6176)` is `-Infinity` -/
theorem feel_modulo_finite_counterexample :
    FNum.modulo (.fin ⟨false, 1, 6111⟩) (.fin ⟨false, 3, -6176⟩) = .inf true := by decide +kernel

/-! ## representation independence: the result depends on the value only

A decimal128 value has up to 34 representations (`c·10^j` at exponent `e − j`); computed numbers
are reduced, literals are not.  `SameValue a a'` says that two triples denote the same value. -/

/-- two representations of one value are the same integer at every common scale -/
theorem sameValue_scaled (a a' : D128) (h : SameValue a a') (s : Int) (hs : s ≤ min a.exp a'.exp) :
    scaled a s = scaled a' s := by
  unfold SameValue at h
  rw [scaled_shift a s _ hs (by omega), scaled_shift a' s _ hs (by omega), h]

example : SameValue ⟨false, 1001, 1⟩ ⟨false, 10010, 0⟩ ∧ (-3 : Int) ≤ min (1 : Int) 0 := by decide

/-- comparison depends on the values only: any representation of either operand gives the same
answer (`1001E+1` against `10010`, `10.0` against `1E+1`) -/
theorem cmp_congr (a a' b b' : D128) (ha : SameValue a a') (hb : SameValue b b') :
    D128.cmp a b = D128.cmp a' b' := by
  have hs1 : min (min a.exp a'.exp) (min b.exp b'.exp) ≤ min a.exp a'.exp := by omega
  have hs2 : min (min a.exp a'.exp) (min b.exp b'.exp) ≤ min b.exp b'.exp := by omega
  rw [cmp_at_scale a b (min (min a.exp a'.exp) (min b.exp b'.exp)) (by omega) (by omega),
    cmp_at_scale a' b' (min (min a.exp a'.exp) (min b.exp b'.exp)) (by omega) (by omega),
    sameValue_scaled a a' ha _ hs1, sameValue_scaled b b' hb _ hs2]

example : SameValue ⟨false, 1001, 1⟩ ⟨false, 10010, 0⟩ ∧ SameValue ⟨true, 5, 0⟩ ⟨true, 500, -2⟩ := by decide

/-- `=`, `<`, `<=` of `FeelNumber` (`PartialEq` / `PartialOrd`) depend on the values only -/
theorem feel_cmp_congr (a a' b b' : D128) (ha : SameValue a a') (hb : SameValue b b') :
    FNum.eq (.fin a) (.fin b) = FNum.eq (.fin a') (.fin b') ∧
      FNum.cmp (.fin a) (.fin b) = FNum.cmp (.fin a') (.fin b') := by
  unfold FNum.eq FNum.cmp D128R.cmp?
  simp only []
  rw [cmp_congr a a' b b' ha hb]
  exact ⟨rfl, rfl⟩

example : SameValue ⟨false, 10, -1⟩ ⟨false, 1, 0⟩ ∧ SameValue ⟨false, 2, 0⟩ ⟨false, 2, 0⟩ := by decide

/-- a value equals each of its representations -/
theorem cmp_sameValue (a a' : D128) (h : SameValue a a') : D128.cmp a a' = .eq := by
  rw [cmp_at_scale a a' (min a.exp a'.exp) (by omega) (by omega), compare_int_eq]
  exact h

example : SameValue ⟨false, 1, 1⟩ ⟨false, 10, 0⟩ := by decide

/-- negation and `abs` keep the representation they are given, and map representations of one
value to representations of one value -/
theorem neg_abs_congr (a a' : D128) (h : SameValue a a') :
    SameValue (negate a) (negate a') ∧ SameValue (D128.abs a) (D128.abs a') := by
  unfold SameValue at *
  have e1 := (neg_exact a (min a.exp a'.exp))
  have e2 := (neg_exact a' (min a.exp a'.exp))
  have e3 := (abs_exact a (min a.exp a'.exp))
  have e4 := (abs_exact a' (min a.exp a'.exp))
  refine ⟨?_, ?_⟩
  · rw [e1.2.1, e2.2.1, e1.1, e2.1, h]
  · rw [e3.2.2.1, e4.2.2.1]
    obtain ⟨p1, p2, _⟩ := e3
    obtain ⟨q1, q2, _⟩ := e4
    rw [h] at p1
    split at p1 <;> split at q1 <;> omega

example : SameValue ⟨true, 1001, 1⟩ ⟨true, 10010, 0⟩ := by decide


/-- `reduce` — which `FeelNumber` applies to every result of `+ - * / floor ceiling sqrt ln **`
(`number.rs`) — maps all representations of one value (with one sign: `-0` and `+0` stay apart) to
one triple: computed numbers carry no trace of the representation of what they were computed to -/
theorem reduce_congr (a b : D128) (ha : WF a) (hb : WF b) (h : SameValue a b) (hn : a.neg = b.neg) :
    reduce a = reduce b :=
  D128.reduce_congr a b ha hb h hn

example : WF ⟨false, 10010, 0⟩ ∧ WF ⟨false, 1001, 1⟩ ∧ SameValue ⟨false, 10010, 0⟩ ⟨false, 1001, 1⟩ ∧
    reduce ⟨false, 10010, 0⟩ = ⟨false, 1001, 1⟩ := by decide

/-- two results of equal value and sign are one `FeelNumber` after the `reduce` of the operators
(`D128R.reduce`); infinities and NaN are untouched -/
theorem result_reduce_congr (a b : D128) (ha : WF a) (hb : WF b) (h : SameValue a b) (hn : a.neg = b.neg) :
    (D128R.fin a).reduce = (D128R.fin b).reduce := by
  show D128R.fin (D128.reduce a) = D128R.fin (D128.reduce b)
  rw [D128.reduce_congr a b ha hb h hn]

example : WF ⟨true, 250, -2⟩ ∧ WF ⟨true, 25, -1⟩ ∧ SameValue ⟨true, 250, -2⟩ ⟨true, 25, -1⟩ := by decide

/-! ## representation independence of the arithmetic: operands of equal value give equal results

`SameValue a a' ∧ a.neg = a'.neg`: two triples of one value and sign (the sign matters for the
zeros only: `-0` and `+0` have one value, but `1 / -0` and `1 / +0` differ).  The route: the
specification of every operation speaks about the exact value only (`roundsHalfEven_value_congr`),
and two correct roundings of one exact value have one value (`rounding_unique`): after the `reduce`
of `number.rs` they are one triple (`result_reduce_congr`). -/

/-- **uniqueness of the correctly rounded result**: two results that meet `RoundsHalfEven` for one
exact value `(-1)^neg·(N/D)·10^e` — nearest at 34 digits, ties to even, the finer spacing below a
power of ten, subnormals at exponent −6176, ±Infinity on overflow — are finite with one sign and
value, or the same infinity; reduced they are equal.  (A finite result excludes overflow: the tie at
`(10^34 − 1/2)·10^6111` cannot go to the odd `10^34 − 1`.) -/
theorem rounding_unique (neg : Bool) (N D : Nat) (e : Int) (hD : 0 < D) (r r' : D128R)
    (h : RoundsHalfEven neg N D e r) (h' : RoundsHalfEven neg N D e r') : r.reduce = r'.reduce :=
  roundsHalfEven_unique neg N D e hD r r' h h'

/-- non-vacuity, with two different triples: the exact value `10^34` is met by `1000…0E+1`
(34 digits) and by `1E+34`, which reduce to one triple -/
example : (0 : Nat) < 1 ∧ RoundsHalfEven false 1 1 34 (.fin ⟨false, 1000000000000000000000000000000000, 1⟩) ∧
    RoundsHalfEven false 1 1 34 (.fin ⟨false, 1, 34⟩) := by decide +kernel

/-- `RoundsHalfEven` depends on the exact value only, however it is written as a fraction times a
power of ten: `N/D·10^e = N'/D'·10^e'` (cross-multiplied at a scale `s` below both exponents) -/
theorem rounding_value_congr (neg : Bool) (N D N' D' : Nat) (e e' s : Int) (hD : 0 < D) (hD' : 0 < D')
    (hs : s ≤ e) (hs' : s ≤ e') (hv : N * D' * 10 ^ (e - s).toNat = N' * D * 10 ^ (e' - s).toNat) (r : D128R) :
    RoundsHalfEven neg N D e r ↔ RoundsHalfEven neg N' D' e' r :=
  roundsHalfEven_value_congr neg N D N' D' e e' s hD hD' hs hs' hv r

example : (0 : Nat) < 3 ∧ (0 : Nat) < 30 ∧ (-2 : Int) ≤ 0 ∧ (-2 : Int) ≤ -1 ∧
    1 * 30 * 10 ^ ((0 : Int) - (-2)).toNat = 100 * 3 * 10 ^ ((-1 : Int) - (-2)).toNat := by decide

/-- `a + b` depends on the values of its operands only (all 34 × 34 representations of the two
operands give one `FeelNumber`; overflow to ±Infinity included) -/
theorem add_congr (a a' b b' : D128) (ha : SameValue a a') (na : a.neg = a'.neg)
    (hb : SameValue b b') (nb : b.neg = b'.neg) :
    FNum.add (.fin a) (.fin b) = FNum.add (.fin a') (.fin b') :=
  addSpec_congr a a' b b' ha na hb nb _ _ (add_correct a b) (add_correct a' b')

example : SameValue ⟨false, 1001, 1⟩ ⟨false, 10010, 0⟩ ∧ SameValue ⟨true, 5, 0⟩ ⟨true, 500, -2⟩ ∧
    FNum.add (.fin ⟨false, 1001, 1⟩) (.fin ⟨true, 5, 0⟩) = .fin ⟨false, 10005, 0⟩ ∧
    FNum.add (.fin ⟨false, 10010, 0⟩) (.fin ⟨true, 500, -2⟩) = .fin ⟨false, 10005, 0⟩ := by decide

/-- `a - b` depends on the values only -/
theorem sub_congr (a a' b b' : D128) (ha : SameValue a a') (na : a.neg = a'.neg)
    (hb : SameValue b b') (nb : b.neg = b'.neg) :
    FNum.sub (.fin a) (.fin b) = FNum.sub (.fin a') (.fin b') :=
  addSpec_congr a a' (D128.flip b) (D128.flip b') ha na (flip_sameValue b b' hb)
    (by show (!b.neg) = (!b'.neg); rw [nb]) _ _ (add_correct a (D128.flip b)) (add_correct a' (D128.flip b'))

example : SameValue ⟨false, 1, 1⟩ ⟨false, 10, 0⟩ ∧ SameValue ⟨false, 10, 0⟩ ⟨false, 100, -1⟩ ∧
    FNum.sub (.fin ⟨false, 1, 1⟩) (.fin ⟨false, 10, 0⟩) = FNum.sub (.fin ⟨false, 10, 0⟩) (.fin ⟨false, 100, -1⟩) := by decide

/-- `a * b` depends on the values only -/
theorem mul_congr (a a' b b' : D128) (ha : SameValue a a') (na : a.neg = a'.neg)
    (hb : SameValue b b') (nb : b.neg = b'.neg) :
    FNum.mul (.fin a) (.fin b) = FNum.mul (.fin a') (.fin b') :=
  mulSpec_congr a a' b b' ha na hb nb _ _ (mul_correct a b) (mul_correct a' b')

example : SameValue ⟨false, 12, 0⟩ ⟨false, 1200, -2⟩ ∧ SameValue ⟨true, 5, -1⟩ ⟨true, 50, -2⟩ ∧
    FNum.mul (.fin ⟨false, 12, 0⟩) (.fin ⟨true, 5, -1⟩) = .fin ⟨true, 6, 0⟩ ∧
    FNum.mul (.fin ⟨false, 1200, -2⟩) (.fin ⟨true, 50, -2⟩) = .fin ⟨true, 6, 0⟩ := by decide

/-- `a / b` depends on the values only (and, for a zero operand, on its sign: `0/0` is NaN and `x/0`
an infinity for every representation) -/
theorem div_congr (a a' b b' : D128) (ha : SameValue a a') (na : a.neg = a'.neg)
    (hb : SameValue b b') (nb : b.neg = b'.neg) (wb : b.coeff < 10 ^ 34) (wb' : b'.coeff < 10 ^ 34) :
    FNum.div (.fin a) (.fin b) = FNum.div (.fin a') (.fin b') :=
  divSpec_congr a a' b b' ha na hb nb _ _ (div_correct a b wb) (div_correct a' b' wb')

example : SameValue ⟨false, 1, 0⟩ ⟨false, 1000, -3⟩ ∧ SameValue ⟨false, 3, 0⟩ ⟨false, 30, -1⟩ ∧
    FNum.div (.fin ⟨false, 1, 0⟩) (.fin ⟨false, 3, 0⟩) = .fin ⟨false, 3333333333333333333333333333333333, -34⟩ ∧
    FNum.div (.fin ⟨false, 1000, -3⟩) (.fin ⟨false, 30, -1⟩) = .fin ⟨false, 3333333333333333333333333333333333, -34⟩ := by
  decide

/-- `floor(a)` depends on the value only -/
theorem floor_congr (a a' : D128) (wa : WF a) (wa' : WF a') (ha : SameValue a a') (na : a.neg = a'.neg) :
    FNum.floor (.fin a) = FNum.floor (.fin a') := by
  show D128R.fin (D128.reduce (D128.floor a)) = D128R.fin (D128.reduce (D128.floor a'))
  rw [D128.reduce_congr _ _ (floor_wf a wa) (floor_wf a' wa') (floor_sameValue a a' ha)
    (by rw [floor_neg, floor_neg, na])]

example : WF ⟨true, 15, -1⟩ ∧ WF ⟨true, 1500, -3⟩ ∧ SameValue ⟨true, 15, -1⟩ ⟨true, 1500, -3⟩ ∧
    FNum.floor (.fin ⟨true, 1500, -3⟩) = .fin ⟨true, 2, 0⟩ := by decide

/-- `ceiling(a)` depends on the value only (the `+0` for arguments in `(-1, 0)` included) -/
theorem ceiling_congr (a a' : D128) (wa : WF a) (wa' : WF a') (ha : SameValue a a') (na : a.neg = a'.neg) :
    FNum.ceiling (.fin a) = FNum.ceiling (.fin a') := by
  show D128R.fin (D128.reduce (D128.ceiling a)) = D128R.fin (D128.reduce (D128.ceiling a'))
  rw [D128.reduce_congr _ _ (ceiling_wf a wa) (ceiling_wf a' wa') (ceiling_sameValue a a' ha)
    (ceiling_neg_congr a a' ha na)]

example : WF ⟨true, 5, -1⟩ ∧ WF ⟨true, 500, -3⟩ ∧ SameValue ⟨true, 5, -1⟩ ⟨true, 500, -3⟩ ∧
    FNum.ceiling (.fin ⟨true, 500, -3⟩) = .fin ⟨false, 0, 0⟩ := by decide

/-- `decimal(a, scale)` (`FeelNumber::round`, not reduced: the exponent is `−scale`) depends on the
value only, for every scale FEEL accepts: the very same triple, or NaN for every representation -/
theorem rescale_congr (a a' : D128) (ha : SameValue a a') (na : a.neg = a'.neg) (scale : Int)
    (hlo : -6111 ≤ scale) (hhi : scale ≤ 6176) :
    FNum.round (.fin a) scale = FNum.round (.fin a') scale :=
  rescaleSpec_congr a a' ha na scale _ _ (rescale_correct a scale hlo hhi) (rescale_correct a' scale hlo hhi)

example : SameValue ⟨false, 25, -1⟩ ⟨false, 2500, -3⟩ ∧ (-6111 : Int) ≤ 0 ∧ (0 : Int) ≤ 6176 ∧
    FNum.round (.fin ⟨false, 2500, -3⟩) 0 = .fin ⟨false, 2, 0⟩ := by decide

/-! ## the enclosures that judge `log` and `exp` (`Model/Transcend.lean`)

`Transcend.Encl lo hi x`: the fixed-point interval `[lo, hi]/10^130` contains the rational `x`.
Proved: every interval operation rounds outwards; the loops enclose the rational partial sums of
the two series; `twoAtanh` / `expSmall` enclose everything between the partial sum and the partial
sum plus the tail bound written in the code; the argument reductions are exact; `lnGe1` and
`lnEnclosure` add the enclosed multiples of `ln 2` and `ln 10`.  The remaining assumption is
analytic (the true value lies between the partial sum and the partial sum plus that tail bound;
the functional equations of `ln` and `exp`). -/

open Dmn.Transcend in
/-- the interval operations of the enclosure arithmetic round outwards: a fraction, a sum, a
product of non-negative quantities, a quotient by a positive natural, a difference, a multiple -/
theorem enclosure_ops_round_outwards :
    (∀ zn zd : Nat, 0 < zd → Encl (zn * S / zd) (cdiv (zn * S) zd) ((zn : ℚ) / (zd : ℚ))) ∧
    (∀ (a b c d : Nat) (x y : ℚ), Encl a b x → Encl c d y → Encl (a + c) (b + d) (x + y)) ∧
    (∀ (a b c d : Nat) (x y : ℚ), Encl a b x → Encl c d y → 0 ≤ x → 0 ≤ y →
      Encl (a * c / S) (cdiv (b * d) S) (x * y)) ∧
    (∀ (a b : Nat) (x : ℚ) (k : Nat), Encl a b x → 0 < k → Encl (a / k) (cdiv b k) (x / (k : ℚ))) ∧
    (∀ (a b c d : Nat) (x y : ℚ), Encl a b x → Encl c d y → y ≤ x → Encl (a - d) (b - c) (x - y)) ∧
    (∀ (a b : Nat) (x : ℚ) (j : Nat), Encl a b x → Encl (j * a) (j * b) ((j : ℚ) * x)) :=
  ⟨encl_ofFrac, fun _ _ _ _ _ _ hx hy => encl_add hx hy, fun _ _ _ _ _ _ hx hy x0 y0 => encl_mul hx hy x0 y0,
    fun _ _ _ k hx hk => encl_divNat hx k hk, fun _ _ _ _ _ _ hx hy h => encl_sub hx hy h,
    fun _ _ _ j hx => encl_nsmul hx j⟩

open Dmn.Transcend in
example : Encl 0 0 0 := by simp [Encl]

open Dmn.Transcend in
/-- the loop of `twoAtanh` encloses, for every rational `z ≥ 0` and every number of steps, the next
odd power of `z` and the partial sum `Σ_{i<n} z^(2i+1)/(2i+1)` -/
theorem atanh_series_enclosed (z : ℚ) (z0 : 0 ≤ z) (z2lo z2hi : Nat) (hz2 : Encl z2lo z2hi (z ^ 2))
    (steps n tlo thi slo shi : Nat) (ht : Encl tlo thi (z ^ (2 * n + 1))) (hs : Encl slo shi (atanhPartial z n)) :
    Encl (atanhLoop steps n z2lo z2hi tlo thi slo shi).1 (atanhLoop steps n z2lo z2hi tlo thi slo shi).2.1
        (z ^ (2 * (n + steps) + 1)) ∧
      Encl (atanhLoop steps n z2lo z2hi tlo thi slo shi).2.2.1 (atanhLoop steps n z2lo z2hi tlo thi slo shi).2.2.2
        (atanhPartial z (n + steps)) :=
  atanhLoop_sound z z0 z2lo z2hi hz2 steps n tlo thi slo shi ht hs

open Dmn.Transcend in
example : (0 : ℚ) ≤ 0 ∧ Encl 0 0 ((0 : ℚ) ^ 2) ∧ Encl 0 0 ((0 : ℚ) ^ (2 * 0 + 1)) ∧ Encl 0 0 (atanhPartial 0 0) := by
  simp [Encl, atanhPartial]

open Dmn.Transcend in
/-- `twoAtanh zn zd` contains every `x` between twice the 140-term partial sum at `z = zn/zd` and
that plus twice the tail bound `9/8·z^281` (for `0 ≤ z ≤ 1/3` the true `2·atanh z = ln((1+z)/(1−z))`
lies there: the assumption) -/
theorem twoAtanh_encloses_series (zn zd : Nat) (hd : 0 < zd) (x : ℚ)
    (hlo : 2 * atanhPartial ((zn : ℚ) / (zd : ℚ)) 140 ≤ x)
    (hhi : x ≤ 2 * (atanhPartial ((zn : ℚ) / (zd : ℚ)) 140 + ((zn : ℚ) / (zd : ℚ)) ^ 281 * (9 / 8))) :
    Encl (twoAtanh zn zd).1 (twoAtanh zn zd).2 x :=
  twoAtanh_encloses zn zd hd x hlo hhi

open Dmn.Transcend in
example : (0 : Nat) < 3 ∧ 2 * atanhPartial ((1 : ℚ) / 3) 140 ≤ 2 * atanhPartial ((1 : ℚ) / 3) 140 ∧
    2 * atanhPartial ((1 : ℚ) / 3) 140 ≤ 2 * (atanhPartial ((1 : ℚ) / 3) 140 + ((1 : ℚ) / 3) ^ 281 * (9 / 8)) := by
  refine ⟨by decide, le_refl _, ?_⟩
  have : (0 : ℚ) ≤ ((1 : ℚ) / 3) ^ 281 * (9 / 8) := by positivity
  linarith

open Dmn.Transcend in
/-- `expSmall rlo rhi` contains, for every rational `r ≥ 0` in `[rlo, rhi]`, every `x` between the
160-term partial sum of the exponential series at `r` and that plus the tail bound `2·r^160/160!`
(for `0 ≤ r ≤ 3` the true `exp r` lies there: the assumption) -/
theorem expSmall_encloses_series (rlo rhi : Nat) (r : ℚ) (r0 : 0 ≤ r) (hr : Encl rlo rhi r) (x : ℚ)
    (hlo : expPartial r 160 ≤ x) (hhi : x ≤ expPartial r 160 + 2 * expTerm r 160) :
    Encl (expSmall rlo rhi).1 (expSmall rlo rhi).2 x :=
  expSmall_encloses rlo rhi r r0 hr x hlo hhi

open Dmn.Transcend in
example : (0 : ℚ) ≤ 0 ∧ Encl 0 0 0 ∧ expPartial 0 160 ≤ expPartial 0 160 ∧
    expPartial 0 160 ≤ expPartial 0 160 + 2 * expTerm 0 160 := by
  refine ⟨le_refl _, by simp [Encl], le_refl _, ?_⟩
  have := expTerm_nonneg 0 (le_refl _) 160
  linarith

open Dmn.Transcend in
/-- the argument reduction of `lnEnclosure` is exact: `c·10^e = m·10^k` with
`m = c/10^(d−1) ∈ [1, 10)`, `k = e + d − 1`, `d` the digit count of `c` -/
theorem ln_argument_reduction_exact (c : Nat) (e : Int) (hc : c ≠ 0) :
    (c : ℚ) * (10 : ℚ) ^ e = ((c : ℚ) / (10 : ℚ) ^ (digits c - 1)) * (10 : ℚ) ^ (e + (digits c : Int) - 1) ∧
      1 ≤ (c : ℚ) / (10 : ℚ) ^ (digits c - 1) ∧ (c : ℚ) / (10 : ℚ) ^ (digits c - 1) < 10 :=
  lnReduce_exact c e hc

example : (10010 : Nat) ≠ 0 := by decide

open Dmn.Transcend in
/-- the halving of `lnGe1` is exact: the denominator becomes `den·2^i`, the quotient lands in
`[1, 2)`, and the argument `(num − d')/(num + d')` of the series lies in `[0, 1/3)` -/
theorem ln_halving_exact (num den : Nat) (h1 : den ≤ num) (h2 : num < den * 2 ^ 41) :
    (halve 40 num den 0).1 = den * 2 ^ (halve 40 num den 0).2 ∧ (halve 40 num den 0).1 ≤ num ∧
      num < 2 * (halve 40 num den 0).1 ∧
      3 * (num - (halve 40 num den 0).1) < num + (halve 40 num den 0).1 :=
  lnGe1_reduce num den h1 h2

example : (1 : Nat) ≤ 10 ∧ (10 : Nat) < 1 * 2 ^ 41 := by decide

open Dmn.Transcend in
/-- `lnEnclosure` is the enclosure of the series plus the enclosed multiples of `ln 2` and `ln 10`:
if `[twoAtanh …]` contains `y`, `ln2` contains `l2` and `ln10` contains `t`, then
`lnEnclosure c e` contains `y + j·l2 + k·t` (`j` halvings, `k = e + d − 1`) -/
theorem lnEnclosure_composes (c : Nat) (e : Int) (y l2 t : ℚ)
    (hy : Encl (twoAtanh (c - (halve 40 c (10 ^ (digits c - 1)) 0).1) (c + (halve 40 c (10 ^ (digits c - 1)) 0).1)).1
      (twoAtanh (c - (halve 40 c (10 ^ (digits c - 1)) 0).1) (c + (halve 40 c (10 ^ (digits c - 1)) 0).1)).2 y)
    (h2 : Encl ln2.1 ln2.2 l2) (ht : Encl ln10.1 ln10.2 t) :
    ((lnEnclosure c e).1 : ℚ) ≤
        (y + ((halve 40 c (10 ^ (digits c - 1)) 0).2 : ℚ) * l2 + ((e + (digits c : Int) - 1 : Int) : ℚ) * t) * (S : ℚ) ∧
      (y + ((halve 40 c (10 ^ (digits c - 1)) 0).2 : ℚ) * l2 + ((e + (digits c : Int) - 1 : Int) : ℚ) * t) * (S : ℚ) ≤
        ((lnEnclosure c e).2 : ℚ) :=
  lnEnclosure_encloses c e _ t (lnGe1_encloses c _ y l2 hy h2) ht

end Dmn.Props.C02
