import Dmn.Lemmas.LalrProgress
import Dmn.Lemmas.LalrStack
import Dmn.Lemmas.LexerProgress
import Dmn.Lemmas.LexerNextChar
import Dmn.Lemmas.EvalNoPanic
import Dmn.Lemmas.TemporalMachineIdeal
import Dmn.Model.ScopeCell
import Dmn.Lemmas.ScopeCell
import Dmn.Lemmas.StringIndex
import Dmn.Lemmas.LongestName
import Dmn.Lemmas.EvalBifs
import Dmn.Gen.ParserScope

/-!
# C05 (parser side) — FEEL parsing is total

Part (b) of DESIGN §4 C05: the lexer (`Dmn.Lexer`, model of `feel-parser/src/lexer.rs`) and the
LALR driver loop (`Dmn.Lalr`, model of `feel-parser/src/parser.rs:169-315`) over the tables
regenerated from the current `lalr.rs`.  All statements are for every input text, every cursor
position, every scope key set, every flag setting, every token sequence and every number of
loop iterations.

The depth of the *state* stack at a reduction (`yy_state_stack[len - 1]`, parser.rs:276) is proved
too (`lalr_stack_nonempty`): the LR invariant is decided on the tables with a predecessor witness
that `translate/lalr.py` computes from them (`lalr_stack_ok`), so `lalr_no_panic` leaves no panic
site of the loop open.

Not proved here (validated by the child-process runner of `harness/src/c05.rs` only): the depth of
the value and node stacks inside the reduce actions (`yy_value_stack[len - k]`, the `ok_or_else`
pops — these return `Err`, they do not panic), termination of the driver loop as a whole, stack
overflow, abort, allocation failure and wall-clock time.
-/

namespace Dmn.Lalr

/-- `lalr_tables_ok`: the regenerated tables satisfy the linear safety conditions `tablesOk`
(lengths agree; positive `YY_TABLE` entries are state numbers, negative ones are
`YY_TABLE_N_INF` or minus a rule number ≥ 1, zero entries are unselectable, negative entries
are unreachable by goto look-ups; `YY_DEF_ACT` entries are 0 or rule numbers; `YY_DEF_GOTO`
entries are state numbers; for rules ≥ 1 `YY_R1[r] − YY_N_TOKENS` indexes `YY_P_GOTO`;
`YY_TRANSLATE` entries are token symbol numbers; the additions fit `i16`). -/
theorem lalr_tables_ok : tablesOk gen = true := by decide +kernel

/-- Every discriminant of `enum TokenType` indexes `YY_TRANSLATE`. -/
theorem token_codes_ok : codesOk gen Dmn.Gen.Lalr.TOKEN_TYPE_CODES = true := by decide +kernel

/-- `lalr_index_safe`: for every sequence of lexer answers whose codes are `TokenType`
discriminants, every oracle for the reduce actions and every number of iterations, the driver
loop never makes an out-of-bounds access to `YY_PACT`, `YY_TRANSLATE`, `YY_CHECK`, `YY_TABLE`,
`YY_DEF_ACT`, `YY_R2`, `YY_R1`, `YY_P_GOTO`, `YY_DEF_GOTO`, never underflows
`YY_R1[n] - YY_N_TOKENS` and never overflows an `i16` addition.  The only panic the model can
still report is the empty state stack at parser.rs:276 — excluded by `lalr_stack_nonempty`. -/
theorem lalr_index_safe (act : Nat → Int → Bool) (fuel : Nat) (toks : List LexRes)
    (hcodes : ∀ c, LexRes.tok c ∈ toks → c ∈ Dmn.Gen.Lalr.TOKEN_TYPE_CODES) (s : Site)
    (h : parse gen act fuel toks = .panic s) : s = .stackTop := by
  have hT := tablesOK_of gen lalr_tables_ok
  have hc : ∀ c, LexRes.tok c ∈ toks → CharOk gen c := by
    intro c hc
    have := List.all_eq_true.mp token_codes_ok c (hcodes c hc)
    exact Or.inr (by simpa using this)
  have hne : 0 < nStates gen := by decide +kernel
  exact run_safe hT act fuel _ _ (inv_init hT toks hc hne) s h

-- non-vacuity: `1 + 1` (StartExpression Numeric Plus Numeric) is accepted by the model
example : parse gen (fun _ _ => true) 200 [.tok 258, .tok 287, .tok 304, .tok 287] = .accept := by
  decide +kernel

/-- `lalr_stack_ok`: the predecessor witness regenerated with the tables is closed under every
shift and every reduction the tables allow (`stackOk`, Dmn/Model/LalrStack.lean): walking back
the length of a rule from any state that can reduce it never reaches the bottom state early,
and the goto from every state so uncovered is a recorded edge. -/
theorem lalr_stack_ok : stackOk gen Dmn.Gen.Lalr.PREDS = true := by decide +kernel

/-- `lalr_stack_nonempty` (the LR invariant): for every sequence of lexer answers — tokens of any
code, errors —, every oracle for the reduce actions and every number of iterations, the state
stack is not empty when its top is read after the right-hand side of a rule has been popped
(parser.rs:276): the stack is at all times a path `0 → s₁ → … → s_k` of the automaton. -/
theorem lalr_stack_nonempty (act : Nat → Int → Bool) (fuel : Nat) (toks : List LexRes) :
    parse gen act fuel toks ≠ .panic .stackTop :=
  run_stack (tablesOK_of gen lalr_tables_ok) (stackOK_of gen _ lalr_stack_ok) act fuel _ _
    (sinv_init gen _ toks)

/-- `lalr_no_panic`: the driver loop has no panic left — no table access out of bounds, no
arithmetic overflow, no empty state stack — whatever the lexer answers (with `TokenType` codes)
and whatever the reduce actions do. -/
theorem lalr_no_panic (act : Nat → Int → Bool) (fuel : Nat) (toks : List LexRes)
    (hcodes : ∀ c, LexRes.tok c ∈ toks → c ∈ Dmn.Gen.Lalr.TOKEN_TYPE_CODES) (s : Site) :
    parse gen act fuel toks ≠ .panic s := by
  intro h
  have := lalr_index_safe act fuel toks hcodes s h
  subst this
  exact lalr_stack_nonempty act fuel toks h

-- non-vacuity: the witness has a row for every state, and the final state has predecessors
example : Dmn.Gen.Lalr.PREDS.length = Dmn.Gen.Lalr.YY_PACT.length ∧
    (predsOf Dmn.Gen.Lalr.PREDS Dmn.Gen.Lalr.YY_FINAL).length > 0 := by decide +kernel

/-- `lalr_step_progress`: from `Action::NewState`, within at most three iterations of the loop
the parser has stopped, or has completed exactly one shift or one reduction and is back at
`Action::NewState`. -/
theorem lalr_step_progress (act : Nat → Int → Bool) (p : P) :
    ∃ k, 1 ≤ k ∧ k ≤ 3 ∧ Progress p (stepN gen act k p .newState) :=
  macro_step_progress gen act p

end Dmn.Lalr

namespace Dmn.Lexer

/-- `lexer_no_panic`: no call of `next_token` panics, for any input, cursor, scope and flag
setting: every `consumed_positions[i]` of `consume_name` is in bounds (the vector is as long as
`parts`; the `till_in` tweak fires only for an index `> 0`, lexer.rs:655 — repaired by 6e5a011,
finding F5c; the prefix loop stays within `1..parts.len()`), and nothing else indexes or
subtracts. -/
theorem lexer_no_panic (l : Lx) (s : PanicSite) : nextToken l ≠ .panic s := by
  intro h
  unfold nextToken at h
  split at h
  · simp only at h
    split at h <;> cases h
  · split at h
    · cases h
    · cases h
    · rename_i s' hh
      exact readNextToken_no_panic l s' hh
    · cases h

-- non-vacuity: `till_in` mode, input `x y in [1]`: the token is the name `x y`
def exTillIn : Lx :=
  { input := [120, 32, 121, 32, 105, 110, 32, 91, 49, 93], pos := 0, start := none,
    unaryTests := false, between := false, typeName := false, tillIn := true, keys := [] }
example : nextToken exTillIn =
    .ok (⟨.name, .name [120, 32, 121]⟩, { exTillIn with pos := 3, tillIn := false }) := by decide

/-- The lexer state right after `for` in `for in+x in [1] return 1` (the witness of F5c). -/
def exF5 : Lx :=
  { input := [105, 110, 43, 120, 32, 105, 110, 32, 91, 49, 93], pos := 0, start := none,
    unaryTests := false, between := false, typeName := false, tillIn := true, keys := [] }

-- non-vacuity at the old witness: `in` as FIRST part is not the keyword before which the variable
-- name ends; the whole text `in+x in` is returned as one (unbound) name and `till_in` stays set
example : nextToken exF5 =
    .ok (⟨.name, .name [105, 110, 43, 120, 32, 105, 110]⟩, { exF5 with pos := 8 }) := by decide

/-- The model's iteration budgets are never exhausted: `fuelOut` is not an outcome of
`next_token`, for any input (the name state machine stops within `4·(len − pos) + 4`
iterations, the string loop within `len − pos + 1`). -/
theorem lexer_no_fuel_out (l : Lx) : nextToken l ≠ .fuelOut := nextToken_total l

/-- The white space / comment skipping loop of `read_input` (any number of comments between two
tokens, d0f16a2) stops within the model's budget: at the cursor `skipBlanks` returns, one more
round of `consume_whitespace; consume_comment` does not move. -/
theorem lexer_skip_settles (inp : List Nat) (pos : Nat) (h : pos ≤ inp.length) :
    consumeComment inp (consumeWhitespace inp (skipBlanks inp pos)) = skipBlanks inp pos :=
  skipBlanks_settled inp pos h

-- non-vacuity: `/*a*/ /*b*/ 1` — both comments are skipped, the cursor stands on `1`
example : skipBlanks [47, 42, 97, 42, 47, 32, 47, 42, 98, 42, 47, 32, 49] 0 = 12 := by decide

/-- The loop of `is_next_character` (which since the repair of F33 jumps over comments) stops
within the model's budget: any budget above `len − p` gives the same answer. -/
theorem lexer_next_character_settles (inp chars : List Nat) (p f : Nat) (h : inp.length - p < f) :
    nextCharLoop inp chars f p = nextCharLoop inp chars (inp.length - p + 1) p :=
  nextCharLoop_fuel inp chars f _ p h (by omega)

-- non-vacuity: `function /* c */ (`: after the keyword (offset 8) the next character is `(`
example : isNextCharacter [102, 117, 110, 99, 116, 105, 111, 110, 32, 47, 42, 32, 99, 32, 42, 47, 32, 40]
    0 [40, 60] 8 = true := by decide

/-- A type name is expected in the first name after the request only: the name arm of
`read_next_token` leaves `type_name` cleared whatever name it produced (finding L3, repaired:
before, the flag survived a name that is not a built-in type name and turned a later `date`,
`time`, `string`, `number` … into a type name). -/
theorem lexer_type_name_one_name (l : Lx) (t : Token) (l' : Lx) (h : nameArm l = .ok (t, l')) :
    l'.typeName = false := by
  unfold nameArm at h
  split at h
  · cases h; rfl
  · cases h
  · cases h
  · cases h

-- non-vacuity: `tFoo)` with `type_name` set: the name `tFoo`, flag cleared
def exTypeName : Lx :=
  { input := [116, 70, 111, 111, 41], pos := 0, start := none, unaryTests := false, between := false,
    typeName := true, tillIn := false, keys := [] }
example : nameArm exTypeName = .ok (⟨.name, .name [116, 70, 111, 111]⟩, { exTypeName with pos := 4, typeName := false }) := by
  decide

/-- `lexer_progress`: a successful call never moves the cursor backwards, and every token other
than `YyEof` and `YyUndef` moves it strictly forward (after the start token has been
delivered).  The parser stops at `YyEof`/`YyUndef`, hence tokenisation terminates. -/
theorem lexer_progress (l : Lx) (hstart : l.start = none) (t : Token) (l' : Lx)
    (h : nextToken l = .ok (t, l')) : Advances l t l' := by
  unfold nextToken at h
  rw [hstart] at h
  simp only at h
  split at h
  · rename_i t0 l0 hh
    simp only [LexOutcome.ok.injEq, Prod.mk.injEq] at h
    obtain ⟨h1, h2⟩ := h
    subst h1; subst h2
    exact readNextToken_progress l _ l0 hh
  · cases h
  · cases h
  · cases h

-- non-vacuity: `a+1` with `a` bound: the name token moves the cursor from 0 to 1
def exProg : Lx :=
  { input := [97, 43, 49], pos := 0, start := none, unaryTests := false, between := false,
    typeName := false, tillIn := false, keys := [[97]] }
example : nextToken exProg = .ok (⟨.name, .name [97]⟩, { exProg with pos := 1 }) := by decide

end Dmn.Lexer

/-! ## Part (a): the evaluator never panics

`Dmn.Eval.eval` is the model of the evaluator closures (`feel-evaluator/src/builders.rs`,
`iterations.rs`); every slice index, `unwrap` and checked integer operation of the modelled
code that could fail is an explicit `panic` outcome of the model.  The theorem says that no
expression, scope or fuel makes the model report one, provided the built-in functions it
delegates to do not (their own no-panic theorems are C08's `bif_no_panic`).  Process-level
failures (stack overflow on unbounded recursion, F9) are outside this statement: in the
model unbounded recursion is the outcome `diverge`. -/

namespace Dmn.Eval

theorem eval_no_panic (num : NumOps) (bp : String → List Value → Outcome Value)
    (bn : String → List (String × Value × Nat) → Outcome Value)
    (hbp : ∀ n a p, bp n a ≠ .panic p) (hbn : ∀ n a p, bn n a ≠ .panic p)
    (fuel : Nat) (a : Ast) (s : Scope) (p : String) :
    eval num bp bn fuel a s ≠ .panic p := by
  have h := p_eval noPanicPred num bp bn Variant.code
    (by intro α s p h; cases h)
    (by intro st p; exact run_no_panic _ p) hbp hbn fuel a
  exact h s p

/-- The iteration engine of `for` / `some` / `every` never panics (after the repair of the
`index + step` overflow, commit b754d3c) — for any states whatsoever. -/
theorem iterator_no_panic (states : List Iter.State) (p : String) : Iter.run states ≠ .panic p :=
  run_no_panic states p

end Dmn.Eval

/-! ## Part (a), temporal code: the machine-integer layer never panics

`Dmn.TemporalMachine` (Dmn/Model/TemporalMachine.lean) is the model of the integer arithmetic of
`feel/src/temporal/{mod,date,zone,dt_duration,ym_duration}.rs` and of the temporal arms of
`feel-evaluator/src/builders.rs` (`+`, `-`, unary `-`, the duration and date properties) and
`bifs/core.rs` (`time` with an offset, `years and months duration`, `duration`, `@"…"` literals)
with the integer types the Rust code uses (`i64` months, `i128` nanoseconds, `u64`/`usize`/`isize`/
`i32`/`u32` intermediates), in both integer modes.  `Op.wellTyped` says only that the operands are
values of those types: any `i64` months, any `i128` nanoseconds, any `i32` year.

FULL STATEMENT (not provable of the current code, finding F62-dtd-i128):

    theorem temporal_no_panic (m : IntMode) (op : Op) (hw : op.wellTyped = true) (s : String) :
        run m op ≠ .panic s

The sum, the difference and the negation of days and time durations are computed in `i128` with
plain `+`, `-`, unary `-` (`dt_duration.rs:107-129`) and `get_days` … `get_seconds`, `Display`
take `self.0.abs()`: with overflow checks they panic when the exact result does not fit (reachable
from FEEL text by doubling a duration of 2^64 − 1 days seventeen times), without checks they return
the wrapped value.  The repair needs a checked operation in the public interface of `dmntk-feel`
that `dmntk-feel-evaluator` (built against the published crate) cannot see. -/

namespace Dmn.TemporalMachine
open Dmn Dmn.Cal Dmn.Temporal

/-- `temporal_no_panic_wrapping`: in a build without overflow checks no temporal operation panics,
for any operands whatsoever. -/
theorem temporal_no_panic_wrapping (op : Op) (s : String) : run .wrapping op ≠ .panic s :=
  isOk_noPanic (run_wrapping_isOk op) s

/-- `temporal_no_panic_partial`: in both integer modes, for every operation and all operands of
the Rust types, the outcome is not a panic — provided the exact result of the unchecked `i128`
operations fits (`Op.i128Exact`: the sum / difference fits, the operand of negation, `abs` and
`Display` is not `i128::MIN`).  The years and months operations (`+`, `-`, unary `-`, `string`,
the literal), the literal of days and time durations, the offset of `time`, `years and months
duration` of two dates and the weekday of a date carry no such proviso (since the repairs
80fdaec, e101009). -/
theorem temporal_no_panic_partial (m : IntMode) (op : Op) (hw : op.wellTyped = true)
    (hx : op.i128Exact = true) (s : String) : run m op ≠ .panic s := by
  obtain ⟨r, hr⟩ := run_ok_of_exact m op hw hx
  rw [hr]
  intro h
  cases h

-- non-vacuity: i64::MAX + 1 months is null, not a panic; i64::MIN months are printed
example : run .checked (.ymAdd 9223372036854775807 1) = .ok .null := rfl
example : (Op.ymPrint (-9223372036854775808)).wellTyped = true ∧ (Op.ymPrint (-9223372036854775808)).i128Exact = true := by
  decide

/-- `temporal_no_panic_counterexample`: with overflow checks the sum of two days and time
durations that does not fit `i128` panics, and so do the negation, the `days` property and
`string()` of the duration of `i128::MIN` nanoseconds (all operands well typed). -/
theorem temporal_no_panic_counterexample :
    (Op.dtdAdd tI128.hi 1).wellTyped = true ∧ run .checked (.dtdAdd tI128.hi 1) = .panic sDt ∧
    (Op.dtdNeg tI128.lo).wellTyped = true ∧ run .checked (.dtdNeg tI128.lo) = .panic sDt ∧
    run .checked (.dtdSub tI128.lo 1) = .panic sDt ∧
    run .checked (.dtdDays tI128.lo) = .panic sDt ∧
    run .checked (.dtdPrint tI128.lo) = .panic sDt :=
  ⟨rfl, rfl, rfl, rfl, rfl, rfl, rfl⟩

/-- `temporal_machine_eq_ideal`: inside the representable range (`Op.inRange`: the exact result
fits the type it is computed in; for `days` also the count fits `usize`, for the offset of `time`
the whole seconds fit `isize`) the machine result, in both integer modes, is the value of the
unbounded-`Int` model of C14 / C15 (`Dmn.Temporal.feelAddYmd` …, `printYmDur`, `printDtDur`,
`Date.ymDuration`, `Cal.weekday ∘ daysFromCivil`, the components of `timeFromNumbers`): the
theorems of C14 / C15 about that model transfer to the machine layer there. -/
theorem temporal_machine_eq_ideal (m : IntMode) (op : Op) (hw : op.wellTyped = true)
    (hr : op.inRange = true) : run m op = .ok (ideal op) :=
  run_eq_ideal m op hw hr

-- non-vacuity: a difference of durations at the ends of `i64`
example : run .checked (.ymSub 9223372036854775807 9223372036854775806) = .ok (.int 1) := rfl

/-- `temporal_ym_out_of_range_null`: outside `i64` the sum, the difference and the negation of
years and months durations are null (not a wrapped value, not a panic), in both modes. -/
theorem temporal_ym_out_of_range_null (m : IntMode) (a b : Int) :
    (tI64.fits (a + b) = false → run m (.ymAdd a b) = .ok .null) ∧
    (tI64.fits (a - b) = false → run m (.ymSub a b) = .ok .null) ∧
    (tI64.fits (-a) = false → run m (.ymNeg a) = .ok .null) := by
  have key : ∀ x : Int, tI64.fits x = false → tI64.checkedOp x = none := by
    intro x hx
    unfold IntTy.fits at hx
    unfold IntTy.checkedOp
    rw [if_neg]
    intro hh
    simp only [hh.1, hh.2, decide_true, Bool.and_self] at hx
    cases hx
  refine ⟨fun h => ?_, fun h => ?_, fun h => ?_⟩
  · simp only [run, ymAdd, key _ h]; rfl
  · simp only [run, ymSub, key _ h]; rfl
  · simp only [run, ymNeg, key _ h]; rfl

-- non-vacuity
example : tI64.fits (9223372036854775807 + 1) = false := by decide

/-- `temporal_wrapped_counterexample` (breaks C14 / C15, not C05): where the code narrows with `as`
or computes without a check, a value outside the range comes back wrapped instead of null —
(1) the `days` of the duration of (2^64 + 5) days is 5; (2) `time(h, m, s, offset)` with an offset
of 2^64 seconds has the offset 0 (UTC), and of 2^64 + 1 seconds the offset 1 second, where the
unbounded model gives null; (3) without overflow checks `i128::MAX` ns + 1 ns is `i128::MIN` ns. -/
theorem temporal_wrapped_counterexample :
    run .checked (.dtdDays ((18446744073709551616 + 5) * 86400000000000)) = .ok (.int 5) ∧
    ideal (.dtdDays ((18446744073709551616 + 5) * 86400000000000)) = .int 18446744073709551621 ∧
    run .checked (.time4Offset (18446744073709551616 * 1000000000)) = .ok (.int 0) ∧
    ideal (.time4Offset (18446744073709551616 * 1000000000)) = .null ∧
    run .checked (.time4Offset (18446744073709551617 * 1000000000)) = .ok (.int 1) ∧
    run .wrapping (.dtdAdd tI128.hi 1) = .ok (.int tI128.lo) :=
  ⟨rfl, rfl, rfl, rfl, rfl, rfl⟩

/-- `temporal_aux_no_panic`: the remaining integer statements of the temporal code return, in both
modes, for every value their operands can take: the zone offset of a literal (two-digit fields,
`zone.rs:90-107`), the sign of a literal's year (at most nine digits, `date.rs:68`), `abs` of a
zone offset in `Display` (offsets are at most 14:59:59, `zone.rs:56-60`), `second(offset)` and
`nano(difference)` on the zero duration (`dt_duration.rs:68-76`), `fraction_to_nanoseconds`
(`mod.rs:641-648`: nine decimal digits stay below 10⁹), the `as u32` of such nanoseconds
(`mod.rs:299` …: the value is unchanged), and `FixedOffset::east` of such an offset (`mod.rs:584`). -/
theorem temporal_aux_no_panic (m : IntMode) :
    (∀ neg h mi s, (0 ≤ h ∧ h ≤ 99) → (0 ≤ mi ∧ mi ≤ 99) → (∀ v, s = some v → 0 ≤ v ∧ v ≤ 99) →
      ∃ r, zoneOffset m neg h mi s = .ok r) ∧
    (∀ y, (0 ≤ y ∧ y ≤ 999999999) → dateNegYear m y = .ok (-y)) ∧
    (∀ o, (-53999 ≤ o ∧ o ≤ 53999) → zoneAbs m o = .ok (o.natAbs : Int)) ∧
    (∀ sec, tI64.fits sec = true → dtdOfSeconds m sec = .ok (sec * nsPerSecond)) ∧
    (∀ a, tI64.fits a = true → dtdOfNanos m a = .ok a) ∧
    (∀ ds, (∀ d ∈ ds, d ≤ 9) → ∃ v, fractionToNanos m ds = .ok v ∧ 0 ≤ v ∧ v < 1000000000) ∧
    (∀ ns, (0 ≤ ns ∧ ns < 1000000000) → nanosAsU32 ns = ns) ∧
    (∀ o, (-53999 ≤ o ∧ o ≤ 53999) → eastOffset o = .ok o) :=
  ⟨fun neg h mi s => zoneOffset_ok m neg h mi s, dateNegYear_ok m, zoneAbs_ok m, dtdOfSeconds_ok m,
    dtdOfNanos_ok m, fractionToNanos_ok m, nanosAsU32_id, eastOffset_ok⟩

-- non-vacuity: the largest offset a literal can denote, negative
example : zoneOffset .checked true 14 59 (some 59) = .ok (some (-53999)) := rfl

end Dmn.TemporalMachine

/-! ## `Scope` (feel/src/scope.rs): the `RefCell` borrows are the only panic sites

Model: Dmn/Model/ScopeCell.lean — the stack of contexts behind a `RefCell`, every operation of
scope.rs:104-159 with its `borrow_mut()`; the panic of the model is `BorrowMutError`. -/

namespace Dmn.ScopeCell

/-- Every operation of `Scope`, called while no borrow of its cell is alive, returns — for every stack
of contexts, the empty one (`Scope::new()`) included, every name, every path — and leaves the cell
unborrowed. -/
theorem scope_op_no_panic (c : Cell) (h : c.borrowed = false) (op : Op) :
    ∃ a c', exec c op = .ok a c' ∧ c'.borrowed = false := by
  cases op <;> (simp only [exec]; exact ⟨_, _, withBorrow_ok c h _, rfl⟩)

/-- non-vacuity: the empty stack answers, and the qualified name `a.c` in `{a: {b: 1}}` (first
segment bound, tail unresolved — the input class of the seeded change C05-15) has no value -/
example : (match exec { contexts := [] } .pop with | .ok (.ctx none) c => c.contexts.length == 0 | _ => false) = true ∧
    (match exec { contexts := [] } (.setEntry "x" (.num 1)) with | .ok .unit c => c.contexts.length == 0 | _ => false) = true ∧
    (match exec { contexts := [[("a", .ctx [("b", .num 1)])]] } (.searchDeep ["a", "c"]) with
      | .ok (.val none) _ => true | _ => false) = true ∧
    (match exec { contexts := [[("a", .ctx [("b", .num 1)])]] } (.searchDeep ["a", "b"]) with
      | .ok (.val (some (.num 1))) _ => true | _ => false) = true := by
  decide

/-- Any sequence of operations, from any unborrowed cell, runs to its end without a panic. -/
theorem scope_ops_no_panic (ops : List Op) (c : Cell) (h : c.borrowed = false) :
    ∃ c', execAll c ops = some c' ∧ c'.borrowed = false := by
  induction ops generalizing c with
  | nil => exact ⟨c, rfl, h⟩
  | cons op ops ih =>
    obtain ⟨a, c1, h1, h2⟩ := scope_op_no_panic c h op
    obtain ⟨c', h3, h4⟩ := ih c1 h2
    exact ⟨c', by simp only [execAll, h1]; exact h3, h4⟩

/-- Sensitivity: an operation of the same scope called while the borrow of `search_deep` is alive
panics — for every inner operation, as soon as the path does not resolve (the seeded change C05-15:
`get_entry` as a fallback inside the loop; found by the family `qualified-names`). -/
theorem scope_reentrant_borrow_panics (c : Cell) (h : c.borrowed = false) (names : List String) (inner : Op)
    (hnone : searchDeepIn c.contexts names = none) :
    searchDeepThenInside c names inner = .panic := by
  cases inner <;> simp [searchDeepThenInside, h, hnone, exec, withBorrow]

example : searchDeepIn [[("a", .ctx [("b", .num 1)])]] ["a", "c"] = none := by decide

end Dmn.ScopeCell

/-! ## `Scope` at value level

The same model answers with values (the correspondence family `scope-ops` compares every answer of the
real `Scope` with it): what `get_entry` finds after `set_entry`, what `pop` returns after `push`, that a
path of one name is a plain lookup, that rebinding one name leaves the others alone. -/

namespace Dmn.ScopeCell

/-- `get_entry` right after `set_entry` of the same name returns the value set — on any stack that is
not empty (on the empty stack `set_entry` does nothing), whatever the top context held before. -/
theorem scope_get_after_set (c : Cell) (h : c.borrowed = false) (hne : c.contexts ≠ []) (k : String) (v : Val) :
    ∃ c1, exec c (.setEntry k v) = .ok .unit c1 ∧ ∃ c2, exec c1 (.getEntry k) = .ok (.val (some v)) c2 := by
  obtain ⟨top, below, hrev⟩ : ∃ top below, c.contexts.reverse = top :: below := by
    cases hr : c.contexts.reverse with
    | nil => exact absurd (List.reverse_eq_nil_iff.mp hr) hne
    | cons t b => exact ⟨t, b, rfl⟩
  refine ⟨{ contexts := modifyLast c.contexts (fun top => setIn top k v), borrowed := false },
    by rw [exec]; exact withBorrow_ok c h _,
    { contexts := modifyLast c.contexts (fun top => setIn top k v), borrowed := false }, ?_⟩
  rw [exec, withBorrow_ok _ rfl]
  simp only [modifyLast, hrev, getEntryIn, List.reverse_reverse, List.findSome?_cons, lookup_setIn]

example : ({ contexts := [[]] } : Cell).contexts ≠ [] := by decide

/-- `pop` right after `push` returns the context pushed and leaves the stack as it was. -/
theorem scope_pop_after_push (c : Cell) (h : c.borrowed = false) (ctx : Ctx) :
    ∃ c1, exec c (.push ctx) = .ok .unit c1 ∧
      exec c1 .pop = .ok (.ctx (some ctx)) { contexts := c.contexts, borrowed := false } := by
  refine ⟨_, by rw [exec]; exact withBorrow_ok c h _, ?_⟩
  rw [exec, withBorrow_ok _ rfl]
  simp only [List.getLast?_append, List.getLast?_singleton, Option.some_or, List.dropLast_concat]

/-- `search_deep` with a path of one name is `get_entry` of that name, on every stack. -/
theorem scope_search_deep_single (stack : List Ctx) (k : String) : searchDeepIn stack [k] = getEntryIn stack k := by
  unfold searchDeepIn getEntryIn
  exact find_then_lookup stack.reverse k

/-- The order of the entries of a context means nothing to a lookup once each name is bound once:
`set_entry` on a bound name replaces the value where it stands (`BTreeMap::insert`) and binds a new
name otherwise; in both cases the other names keep their values. -/
theorem scope_set_keeps_others (es : Ctx) (k k' : String) (v : Val) (hk : k' ≠ k) :
    lookup (setIn es k v) k' = lookup es k' := lookup_setIn_other es k k' v hk

example : ("b" : String) ≠ "a" := by decide

end Dmn.ScopeCell

/-! ## The string built-ins: machine-integer and byte index arithmetic

Model: Dmn/Model/StringIndex.lean — `substring`, `substring before`, `substring after`, `split`,
`replace` of `feel-evaluator/src/bifs/core.rs` with `usize` / `isize` as explicit ranges (every `+`, `-`,
`as`, `checked_add` a step, both integer modes) and strings as UTF-8 bytes (a slice that does not lie on
character boundaries is a panic, as in `core::str`).  `Op.wellTyped` says only that the operands are
values of the Rust types: any `isize` start position (or none), any `usize` length (or none), a string
of at most `isize::MAX` bytes; for the operations that take the matches as given, that the matches are as
the `regex` crate reports them (`matchesOk`). -/

namespace Dmn.StringIndex
open Dmn Dmn.TemporalMachine

/-- `string_index_no_panic`: in both integer modes, for every string, every needle / delimiter /
pattern / replacement, every start position and length of the machine types (and the `None` of the
conversions), no statement of the string built-ins panics: no integer overflow, no slice beyond the
end, no slice off a character boundary. -/
theorem string_index_no_panic (m : IntMode) (op : Op) (hw : op.wellTyped = true) (s : String) :
    run m op ≠ .panic s := by
  obtain ⟨r, hr⟩ := run_ok m op hw
  rw [hr]
  intro h
  cases h

-- non-vacuity: the ends of `isize` and `usize` are well typed and answer null; a needle of one 4-byte
-- character inside a string of 1-, 2-, 3- and 4-byte characters is found on a boundary
example : (Op.substring [97, 233, 8364, 128512] (some (-9223372036854775808)) (.count (some 18446744073709551615))).wellTyped = true ∧
    run .checked (.substring [97, 233, 8364, 128512] (some (-9223372036854775808)) (.count (some 18446744073709551615))) = .ok .null ∧
    run .checked (.substring [97, 233, 8364, 128512] (some 9223372036854775807) .toEnd) = .ok .null ∧
    run .checked (.substring [97, 233, 8364, 128512] (some (-3)) (.count (some 2))) = .ok (.chars [233, 8364]) ∧
    run .checked (.after [97, 233, 8364, 128512, 98] [128512]) = .ok (.utf8 [98]) ∧
    run .checked (.before [97, 233, 8364, 128512, 98] [8364]) = .ok (.utf8 [97, 195, 169]) ∧
    run .checked (.split [97, 233, 98, 233, 233] [233]) = .ok (.pieces [[97], [98], [], []]) := by
  refine ⟨?_, ?_, ?_, ?_, ?_, ?_, ?_⟩ <;> rfl

/-- `string_index_off_boundary_panics` (sensitivity): the model does have the panic sites — a match that
ends inside a character (here: after the first byte of `é`) makes the slices of `split` and `replace`
panic, and so does a match that starts before the previous one ended. -/
theorem string_index_off_boundary_panics (m : IntMode) :
    run m (.splitAt [233, 97] [(0, 1)]) = .panic site ∧
    run m (.replaceAt [233, 97] [(0, 1)] [[]]) = .panic site ∧
    run m (.splitAt [97, 98, 99] [(0, 2), (1, 3)]) = .panic site := by
  refine ⟨?_, ?_, ?_⟩ <;> rfl

/-- `string_index_substring_eq_spec`: for every string, every `isize` start position and every `usize`
length of at least 1 (a length below 1 is null before any index is computed), `substring` on the machine
types is, in both modes, the specification of C08 (`Spec.substringChars`: positions `1 … len` from the
start, `-1 … -len` from the end, null when fewer characters remain) — and so without a length. -/
theorem string_index_substring_eq_spec (m : IntMode) (cs : List Char) (st c : Int)
    (hst : tIsize.fits st = true) (hc : tUsize.fits c = true) (h1 : 1 ≤ c)
    (hn : (cs.length : Int) ≤ allocMax) :
    substring m cs (some st) (.count (some c)) = .ok (Spec.substringChars cs st (some c.toNat)) ∧
    substring m cs (some st) .toEnd = .ok (Spec.substringChars cs st none) := by
  constructor
  · simp only [substring]
    rw [substringAt_eq_ideal m cs st (some c) hst (by intro c' h; cases h; exact hc) hn,
      substringIdeal_eq_spec cs st (some c) (by intro c' h; cases h; exact h1)]
    rfl
  · simp only [substring]
    rw [substringAt_eq_ideal m cs st none hst (by intro c' h; cases h) hn,
      substringIdeal_eq_spec cs st none (by intro c' h; cases h)]
    rfl

-- non-vacuity
example : tIsize.fits (-2) = true ∧ tUsize.fits 2 = true ∧ ((['a', 'b', 'c'].length : Nat) : Int) ≤ allocMax := by decide

/-- `string_index_results_are_strings`: what `substring before` returns is the encoding of the
characters before some character index, what `substring after` returns of those after one: the byte
slices are well-formed strings again. -/
theorem string_index_results_are_strings (m : IntMode) (cs pat : List Nat)
    (hlen : ((bytes cs).length : Int) ≤ allocMax) :
    (∃ k, substringBefore cs pat = .ok (bytes (cs.take k))) ∧
    (∃ k, substringAfter m cs pat = .ok (bytes (cs.drop k))) :=
  ⟨substringBefore_ok cs pat, substringAfter_ok m cs pat hlen⟩

example : (([97, 233, 8364, 128512] : List Nat).length : Int) ≤ allocMax := by decide

/-- `string_index_literal_matches_ok`: the occurrences of a pattern that denotes itself — every place
where its bytes occur, taken from left to right without overlap — are matches as `matchesOk` demands:
they start and end on character boundaries of the string, whatever the string and the pattern (UTF-8 is
self-synchronising: proved here, not assumed). -/
theorem string_index_literal_matches_ok (cs pat : List Nat) (fuel : Nat) :
    matchesOk cs 0 (litMatches (bytes pat) fuel 0 (bytes cs)) = true := by
  have h := litMatches_ok pat cs fuel 0 (isOff_zero cs)
  rw [List.drop_zero] at h
  exact h

end Dmn.StringIndex

/-! ## `parse_longest_name` (parser.rs:73)

Model: Dmn/Model/LongestName.lean — the lexer over an empty name table with the start token
`StartTextualExpression`, its answers given to the driver loop over the regenerated tables; the reduce
actions are any oracle `act`, and whatever they do to the lexer's flags between two calls is any
function `fb`. -/

namespace Dmn.LongestName
open Dmn Dmn.Lexer Dmn.Lalr

/-- `parse_longest_name_no_panic`: for every input text, every behaviour of the reduce actions (their
verdicts `act`, the lexer flags `fb` they leave before each call of the lexer), every number of lexer
calls and loop iterations: no call of the lexer panics and the loop over its answers has no panic — no
`consumed_positions[i]` out of bounds, no table access out of bounds, no arithmetic overflow, no empty
state stack. -/
theorem parse_longest_name_no_panic (act : Nat → Int → Bool) (fb : Nat → Option Flags) (limit fuel : Nat)
    (input : List Nat) :
    parseLongestName act fb limit fuel input ≠ .lexerPanic ∧
    ∀ s, parseLongestName act fb limit fuel input ≠ .parsed (.panic s) := by
  obtain ⟨ts, hts, hmem⟩ := answers_some fb limit 0 (initLx input)
  unfold parseLongestName
  rw [hts]
  refine ⟨(by intro h; cases h), ?_⟩
  intro s h
  injection h with h
  exact Dmn.Lalr.lalr_no_panic act fuel ts hmem s h

-- non-vacuity: ` Full   Name ` is the name `Full Name`, `a+b` the name `a+b`; `1a` is not a name
example : loneName [32, 70, 117, 108, 108, 32, 32, 32, 78, 97, 109, 101, 32] = some [70, 117, 108, 108, 32, 78, 97, 109, 101] ∧
    loneName [97, 43, 98] = some [97, 43, 98] ∧ loneName [49, 97] = none := by
  decide

end Dmn.LongestName

/-! ## Evaluation with the modelled built-ins in place of the parameter (wave 9)

`eval_no_panic` takes the built-in functions as parameters (`bp`, `bn`).  `Dmn.Eval.bifPosModel` is the
positional invocation of the model: the regenerated dispatch table of `positional.rs` over the modelled `core::`
functions of property C08 (both integer modes).  `evaluate_total` instantiates the parameter with it.  What is
still a parameter, exactly: (1) `rest`, asked only where `Dmn.Bif.callPositional` has no answer — the name is no
built-in, or the arm calls one of the `core::` functions without a model in `Dmn.Bif.coreTable`
(`unmodelled_builtins_pinned` lists the built-ins concerned, computed from the regenerated table: the numeric
ones are modelled in `Dmn.DecFeel` (C06/C07) and the temporal constructors in `Dmn.TemporalMachine`
(`temporal_no_panic_*` above), but not joined to the dispatch); (2) `bn`, the invocation with named arguments
(`named.rs`: its index-safety is not proved; C08 proves it equal to the positional one on the signatures);
(3) `num`, the decimal arithmetic (total functions, no panic outcome).  A `Vec` / `String` argument longer than
`usize::MAX` (which cannot be allocated) makes the model give up (`diverge`). -/

namespace Dmn.Eval

/-- **Evaluation is total with the modelled built-ins.**  For every expression, scope, fuel, integer mode:
the evaluator model with the modelled positional built-ins returns a value (with the scope) or `diverge` —
never a panic. -/
theorem evaluate_total (m : IntMode) (num : NumOps) (rest : String → List Value → Outcome Value)
    (bn : String → List (String × Value × Nat) → Outcome Value)
    (hrest : ∀ n a p, rest n a ≠ .panic p) (hbn : ∀ n a p, bn n a ≠ .panic p)
    (fuel : Nat) (a : Ast) (s : Scope) :
    (∀ p, eval num (bifPosModel m rest) bn fuel a s ≠ .panic p) ∧
    ((∃ r, eval num (bifPosModel m rest) bn fuel a s = .ok r) ∨ eval num (bifPosModel m rest) bn fuel a s = .diverge) := by
  have h : ∀ p, eval num (bifPosModel m rest) bn fuel a s ≠ .panic p :=
    fun p => eval_no_panic num (bifPosModel m rest) bn (bifPosModel_no_panic m rest hrest) hbn fuel a s p
  refine ⟨h, ?_⟩
  cases hr : eval num (bifPosModel m rest) bn fuel a s with
  | ok r => exact Or.inl ⟨r, rfl⟩
  | panic p => exact absurd hr (h p)
  | diverge => exact Or.inr rfl

/-- non-vacuity: the hypotheses hold of the parameters that answer null; and the modelled built-ins are really
asked: `sublist([1,2,3], -5, 1)` (a panic before the repair df73e95) is answered by the model, not by `rest` -/
example : (∀ n a p, (fun (_ : String) (_ : List Value) => (Outcome.ok Value.null : Outcome Value)) n a ≠ .panic p) ∧
    Dmn.Bif.callPositional (Dmn.Bif.core .checked) "count" [.list [.null, .null]] ≠ none := by
  refine ⟨fun _ _ _ h => (by cases h), (by decide)⟩

/-- Which built-ins are still (partly) the parameter `rest`: those with an arm that calls a `core::` function
without a model — computed from the regenerated dispatch table; 21 of 73. -/
theorem unmodelled_builtins_pinned :
    unmodelledBuiltins = ["abs", "after", "before", "ceiling", "coincides", "date", "date and time", "decimal",
      "duration", "even", "exp", "floor", "log", "lower case", "modulo", "odd", "sort", "sqrt", "time", "upper case",
      "years and months duration"] ∧ Dmn.Gen.BifDispatch.bifNames.length = 73 := by
  decide +kernel

end Dmn.Eval

/-! ## The reduce actions that change the parsing scope are among the oracles of `lalr_no_panic`

`lalr_no_panic` quantifies over every oracle `act : rule number → look-ahead → ok / error` for the reduce
actions.  The actions that push / pop / write the parsing scope (table `Dmn.Gen.ParserScope`, regenerated by
C13's translate/parser_scope.py from feel.y and parser.rs) are reduce actions of the same rule numbering: the two
translators read the same `YY_R1` / `YY_R2`, and every rule of the driver has a row in C13's table.  Hence the
driver loop cannot panic whatever those actions do to the scope; that the scope stack is never popped empty by
them is C13's `rule_actions_balanced` and `parse_depth_balanced`.  Not proved: termination of the loop as a whole (`parse_total`; what is
proved is `lalr_step_progress` — every three iterations shift a token or reduce a rule — and
`lexer_progress`), and the depth of the value / node stacks inside the actions (they return `Err`). -/

namespace Dmn.Lalr

theorem reduce_actions_cover_scope_actions :
    Dmn.Gen.ParserScope.drvR1.map Int.ofNat = Dmn.Gen.Lalr.YY_R1 ∧
    Dmn.Gen.ParserScope.drvR2.map Int.ofNat = Dmn.Gen.Lalr.YY_R2 ∧
    Dmn.Gen.ParserScope.drvReduce.length = Dmn.Gen.Lalr.YY_R1.length ∧
    Dmn.Gen.ParserScope.grammar.length = Dmn.Gen.Lalr.YY_R1.length ∧
    Dmn.Gen.ParserScope.drvNTokens = Dmn.Gen.ParserScope.nTerminals := by
  decide +kernel

end Dmn.Lalr
