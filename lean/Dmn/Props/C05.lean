import Dmn.Lemmas.LalrProgress
import Dmn.Lemmas.LexerProgress

/-!
# C05 (parser side) — FEEL parsing is total

Part (b) of DESIGN §4 C05: the lexer (`Dmn.Lexer`, model of `feel-parser/src/lexer.rs`) and the
LALR driver loop (`Dmn.Lalr`, model of `feel-parser/src/parser.rs:169-315`) over the tables
regenerated from the current `lalr.rs`.  All statements are for every input text, every cursor
position, every scope key set, every flag setting, every token sequence and every number of
loop iterations.

Not proved here (validated by the child-process runner of `harness/src/c05.rs` only): the depth
of the parser's stacks at a reduction (`yy_state_stack[len - 1]`, `yy_value_stack[len - k]`,
the `ok_or_else` pops of the reduce actions) — it rests on the LR invariant, which needs the
automaton's item sets —, termination of the driver loop as a whole, stack overflow, abort,
allocation failure and wall-clock time.
-/

namespace Dmn.Lalr

/-- `lalr_tables_ok`: the regenerated tables satisfy the linear safety conditions `tablesOk`
(lengths agree; positive `YY_TABLE` entries are state numbers, negative ones are
`YY_TABLE_N_INF` or minus a rule number ≥ 1, zero entries are unselectable, negative entries
are unreachable by goto look-ups; `YY_DEF_ACT` entries are 0 or rule numbers; `YY_DEF_GOTO`
entries are state numbers; for rules ≥ 1 `YY_R1[r] − YY_N_TOKENS` indexes `YY_P_GOTO`;
`YY_TRANSLATE` entries are token symbol numbers; the additions fit `i16`). -/
theorem lalr_tables_ok : tablesOk gen = true := by decide +kernel

/-- Every discriminant of `enum TokenType` indexes `YY_TRANSLATE`. -/
theorem token_codes_ok : codesOk gen Dmn.Gen.Lalr.TOKEN_TYPE_CODES = true := by decide +kernel

/-- `lalr_index_safe`: for every sequence of lexer answers whose codes are `TokenType`
discriminants, every oracle for the reduce actions and every number of iterations, the driver
loop never makes an out-of-bounds access to `YY_PACT`, `YY_TRANSLATE`, `YY_CHECK`, `YY_TABLE`,
`YY_DEF_ACT`, `YY_R2`, `YY_R1`, `YY_P_GOTO`, `YY_DEF_GOTO`, never underflows
`YY_R1[n] - YY_N_TOKENS` and never overflows an `i16` addition.  The only panic the model can
still report is the empty state stack at parser.rs:276 (LR invariant, validated only). -/
theorem lalr_index_safe (act : Nat → Int → Bool) (fuel : Nat) (toks : List LexRes)
    (hcodes : ∀ c, LexRes.tok c ∈ toks → c ∈ Dmn.Gen.Lalr.TOKEN_TYPE_CODES) (s : Site)
    (h : parse gen act fuel toks = .panic s) : s = .stackTop := by
  have hT := tablesOK_of gen lalr_tables_ok
  have hc : ∀ c, LexRes.tok c ∈ toks → CharOk gen c := by
    intro c hc
    have := List.all_eq_true.mp token_codes_ok c (hcodes c hc)
    exact Or.inr (by simpa using this)
  have hne : 0 < nStates gen := by decide +kernel
  exact run_safe hT act fuel _ _ (inv_init hT toks hc hne) s h

-- non-vacuity: `1 + 1` (StartExpression Numeric Plus Numeric) is accepted by the model
example : parse gen (fun _ _ => true) 200 [.tok 258, .tok 287, .tok 304, .tok 287] = .accept := by
  decide +kernel

/-- `lalr_step_progress`: from `Action::NewState`, within at most three iterations of the loop
the parser has stopped, or has completed exactly one shift or one reduction and is back at
`Action::NewState`. -/
theorem lalr_step_progress (act : Nat → Int → Bool) (p : P) :
    ∃ k, 1 ≤ k ∧ k ≤ 3 ∧ Progress p (stepN gen act k p .newState) :=
  macro_step_progress gen act p

end Dmn.Lalr

namespace Dmn.Lexer

-- FULL STATEMENT (not provable of the current code, finding F5c):
--   theorem lexer_no_panic (l : Lx) (s : PanicSite) : nextToken l ≠ .panic s
-- It fails where `till_in` is set and the name at the cursor has `in` as its first part
-- (`lexer_no_panic_counterexample`).

/-- `lexer_no_panic_partial`: outside the hazard `tillInHazard` (the lexer is in `till_in` mode
and the first part of the name at the cursor is `in`) no call of `next_token` panics: every
`consumed_positions[i]` of `consume_name` is in bounds. -/
theorem lexer_no_panic_partial (l : Lx) (hz : tillInHazard l = false) (s : PanicSite) :
    nextToken l ≠ .panic s := by
  intro h
  unfold nextToken at h
  split at h
  · simp only at h
    split at h <;> cases h
  · split at h
    · cases h
    · cases h
    · rename_i s' hh
      have := (readNextToken_panic l s' hh).2
      rw [hz] at this
      cases this
    · cases h

-- non-vacuity: `till_in` mode, input `x y in [1]` — no hazard, the token is the name `x y`
def exTillIn : Lx :=
  { input := [120, 32, 121, 32, 105, 110, 32, 91, 49, 93], pos := 0, start := none,
    unaryTests := false, between := false, typeName := false, tillIn := true, keys := [] }
example : tillInHazard exTillIn = false ∧
    nextToken exTillIn = .ok (⟨.name, .name [120, 32, 121]⟩, { exTillIn with pos := 3, tillIn := false }) := by
  decide

/-- The lexer state right after `for` in `for in+x in [1] return 1`. -/
def exF5 : Lx :=
  { input := [105, 110, 43, 120, 32, 105, 110, 32, 91, 49, 93], pos := 0, start := none,
    unaryTests := false, between := false, typeName := false, tillIn := true, keys := [] }

/-- `lexer_no_panic_counterexample`: with `till_in` set, the input `in+x in [1]` makes
`consume_name` evaluate `consumed_positions[index - 1]` with `index = 0` (lexer.rs:645). -/
theorem lexer_no_panic_counterexample : nextToken exF5 = .panic .tillInIndexMinus1 := by decide

/-- The model's iteration budgets are never exhausted: `fuelOut` is not an outcome of
`next_token`, for any input (the name state machine stops within `4·(len − pos) + 4`
iterations, the string loop within `len − pos + 1`). -/
theorem lexer_no_fuel_out (l : Lx) : nextToken l ≠ .fuelOut := nextToken_total l

/-- `lexer_progress`: a successful call never moves the cursor backwards, and every token other
than `YyEof` and `YyUndef` moves it strictly forward (after the start token has been
delivered).  The parser stops at `YyEof`/`YyUndef`, hence tokenisation terminates. -/
theorem lexer_progress (l : Lx) (hstart : l.start = none) (t : Token) (l' : Lx)
    (h : nextToken l = .ok (t, l')) : Advances l t l' := by
  unfold nextToken at h
  rw [hstart] at h
  simp only at h
  split at h
  · rename_i t0 l0 hh
    simp only [LexOutcome.ok.injEq, Prod.mk.injEq] at h
    obtain ⟨h1, h2⟩ := h
    subst h1; subst h2
    exact readNextToken_progress l _ l0 hh
  · cases h
  · cases h
  · cases h

-- non-vacuity: `a+1` with `a` bound: the name token moves the cursor from 0 to 1
def exProg : Lx :=
  { input := [97, 43, 49], pos := 0, start := none, unaryTests := false, between := false,
    typeName := false, tillIn := false, keys := [[97]] }
example : nextToken exProg = .ok (⟨.name, .name [97]⟩, { exProg with pos := 1 }) := by decide

end Dmn.Lexer
