import Dmn.Lemmas.DecParse

/-!
# C07 — numbers print as plain decimal text that denotes exactly their value

Model: `Dmn.D128.toSci` (decQuadToString), `Dmn.D128.sciToPlain` (`scientific_to_plain`,
number.rs:453), `Dmn.D128.plain = sciToPlain ∘ toSci` (`Display`/`jsonify`), `Dmn.D128.ofString`
(decQuadFromString), `Dmn.D128.ofLiteral` (`build_numeric`).
Specification: `isPlain` (`-?[0-9]+(\.[0-9]+)?`), `plainValue` (sign, digits as one integer,
number of fraction digits), `isJsonNumber`, `SameValue`.

All statements are for every finite decimal128 (`WF d`: `coeff < 10^34`, `-6176 ≤ exp ≤ 6111`),
no bound on anything else.

Findings on the current code:
* F1 — a negative number that decQuadToString prints in `E-` form (adjusted exponent < −6) gets
  its sign *after* the leading `0.000…`: `-0.00000015` prints `0.000000-15`.  `f1Region d` is
  exactly that region; the `_partial` theorems exclude it, `plain_f1_region` says what is
  printed there (for *all* of the region), `plain_shape_counterexample` is the witness.
* F19 — a zero with positive exponent (`0E+3`, e.g. `decimal(0, -3)`) prints `0000`: plain
  shape and value are fine, but it is not a JSON number.
-/

namespace Dmn.Props.C07
open Dmn Dmn.D128

/-- `Display` never panics (no `unwrap()` fails, the `usize` subtraction never underflows):
it prints the expected plain text, or — in the F1 region — the text with the misplaced sign. -/
theorem plain_total (d : D128) (hwf : WF d) :
    plain d = some (if f1Region d then f1Text d else plainSpec d) := by
  obtain ⟨hc, hlo, hhi⟩ := hwf
  obtain ⟨c, rest, hcr⟩ := natDigits_cons d.coeff
  have hlen : (natDigits d.coeff).length ≤ 34 := natDigits_length_le _ 34 (by decide) hc
  rw [hcr] at hlen
  simp only [List.length_cons] at hlen
  have ite_f : f1Region d = false → (if f1Region d = true then f1Text d else plainSpec d) = plainSpec d := by
    intro h; rw [h]; rfl
  have ite_t : f1Region d = true → (if f1Region d = true then f1Text d else plainSpec d) = f1Text d := by
    intro h; rw [h]; rfl
  by_cases hs : d.exp > 0 ∨ ((rest.length + 1 : Nat) : Int) + d.exp < -5
  · rw [plain_sci d c rest hcr hlen hlo hhi hs]
    by_cases hpos : d.exp > 0
    · have hf1 : f1Region d = false := by
        unfold f1Region; rw [hcr]; simp only [List.length_cons]
        cases d.neg <;> simp <;> omega
      rw [if_pos hpos, ite_f hf1, plainSpec_eq d c rest hcr, if_pos (by omega)]
    · have hsm : ((rest.length + 1 : Nat) : Int) + d.exp < -5 := by omega
      rw [if_neg hpos]
      cases hn : d.neg with
      | true =>
        have hf1 : f1Region d = true := by
          unfold f1Region; rw [hcr, hn]; simp only [List.length_cons]; simp; omega
        rw [ite_t hf1]
        simp only [f1Text, hcr, signOf, List.length_cons, if_true]
      | false =>
        have hf1 : f1Region d = false := by
          unfold f1Region; rw [hn]; simp
        rw [ite_f hf1, plainSpec_eq d c rest hcr, if_neg (by omega), if_neg (by omega), hn]
        simp [signOf]
  · have hf1 : f1Region d = false := by
      unfold f1Region; rw [hcr]; simp only [List.length_cons]
      cases d.neg <;> simp <;> omega
    rw [plain_nosci d c rest hcr hs, ite_f hf1]

-- FULL STATEMENT (not provable of the current code, finding F1):
--   theorem plain_shape (d : D128) (hwf : WF d) : ∃ t, plain d = some t ∧ isPlain t = true

/-- outside the F1 region the printed text has the shape `-?[0-9]+(\.[0-9]+)?` -/
theorem plain_shape_partial (d : D128) (hwf : WF d) (h : f1Region d = false) :
    ∃ t, plain d = some t ∧ isPlain t = true := by
  refine ⟨plainSpec d, ?_, plainSpec_isPlain d⟩
  rw [plain_total d hwf, h]; rfl

example : WF ⟨true, 15, -3⟩ ∧ f1Region ⟨true, 15, -3⟩ = false := by decide
example : WF ⟨false, 15, -8⟩ ∧ f1Region ⟨false, 15, -8⟩ = false := by decide

/-- F1 witness: `-0.00000015` prints `0.000000-15`, which is not plain decimal text -/
theorem plain_shape_counterexample :
    WF ⟨true, 15, -8⟩ ∧ plain ⟨true, 15, -8⟩ = some "0.000000-15".toList ∧
      isPlain "0.000000-15".toList = false := by decide

/-- in the whole F1 region the sign is printed inside the digits and the text is not plain -/
theorem plain_f1_region (d : D128) (hwf : WF d) (h : f1Region d = true) :
    plain d = some (f1Text d) ∧ isPlain (f1Text d) = false := by
  constructor
  · rw [plain_total d hwf, h]; rfl
  · obtain ⟨c, rest, hcr⟩ := natDigits_cons d.coeff
    unfold f1Text isPlain
    have e1 : ['0', '.'] ++ zeros ((-d.exp).toNat - (natDigits d.coeff).length) ++ ['-'] ++ natDigits d.coeff
        = '0' :: ([] ++ '.' :: (zeros ((-d.exp).toNat - (natDigits d.coeff).length) ++ '-' :: natDigits d.coeff)) := by simp
    rw [e1]
    have hs : stripMinus ('0' :: ([] ++ '.' :: (zeros ((-d.exp).toNat - (natDigits d.coeff).length) ++ '-' :: natDigits d.coeff)))
        = (false, '0' :: ([] ++ '.' :: (zeros ((-d.exp).toNat - (natDigits d.coeff).length) ++ '-' :: natDigits d.coeff))) := rfl
    rw [hs]
    simp only []
    unfold isUnsignedPlain
    have h2 := spanDigits_append ['0'] '.' (zeros ((-d.exp).toNat - (natDigits d.coeff).length) ++ '-' :: natDigits d.coeff)
      (by intro x hx; simp at hx; subst hx; decide) isDigit_false_dot
    simp only [List.cons_append, List.nil_append] at h2 ⊢
    rw [h2]
    simp [List.all_append, isDigit_false_minus]

example : WF ⟨true, 1, -6176⟩ ∧ f1Region ⟨true, 1, -6176⟩ = true := by decide

-- FULL STATEMENT (not provable of the current code, finding F1):
--   theorem plain_value (d : D128) (hwf : WF d) :
--     ∃ t, plain d = some t ∧ plainValue t = some (d.neg, d.coeff * 10 ^ d.exp.toNat, (-d.exp).toNat)

/-- outside the F1 region the printed text denotes exactly the value: its sign is the number's,
its digits read as one integer are `coeff·10^exp` (`exp ≥ 0`) resp. `coeff`, and it has `-exp`
fraction digits (`exp < 0`) resp. none -/
theorem plain_value_partial (d : D128) (hwf : WF d) (h : f1Region d = false) :
    ∃ t, plain d = some t ∧
      plainValue t = some (d.neg, d.coeff * 10 ^ d.exp.toNat, (-d.exp).toNat) := by
  refine ⟨plainSpec d, ?_, plainSpec_value d⟩
  rw [plain_total d hwf, h]; rfl

/-- F1 witness for the value: the printed text denotes nothing -/
theorem plain_value_counterexample :
    plain ⟨true, 15, -8⟩ = some "0.000000-15".toList ∧ plainValue "0.000000-15".toList = none := by
  decide

-- FULL STATEMENT (not provable of the current code, finding F1):
--   theorem plain_reads_back (d : D128) (hwf : WF d) :
--     ∃ t d', plain d = some t ∧ ofString t = .fin d' ∧ SameValue d' d

/-- reading the printed text back (through the model of decQuadFromString) gives a finite
number of equal value, for every number outside the F1 region — including integers printed with
up to 6 145 digits, whose zeros beyond 34 digits go back into the exponent -/
theorem plain_reads_back_partial (d : D128) (hwf : WF d) (h : f1Region d = false) :
    ∃ t d', plain d = some t ∧ ofString t = .fin d' ∧ SameValue d' d := by
  have hp : plain d = some (plainSpec d) := by rw [plain_total d hwf, h]; rfl
  by_cases h0 : d.exp ≥ 0
  · obtain ⟨d', h1, h2⟩ := ofString_plainSpec_pos d hwf h0
    exact ⟨plainSpec d, d', hp, h1, h2⟩
  · have hz : d.exp.toNat = 0 := by omega
    have hfit : d.coeff * 10 ^ d.exp.toNat < 10 ^ 34 := by rw [hz]; simpa using hwf.1
    refine ⟨plainSpec d, ⟨d.neg, d.coeff * 10 ^ d.exp.toNat, min d.exp 0⟩, hp, ofString_plainSpec d hwf hfit, ?_⟩
    unfold SameValue scaled
    simp only []
    have e1 : min (min d.exp 0) d.exp = d.exp := by omega
    have e2 : min d.exp 0 = d.exp := by omega
    rw [e1, e2, hz]; simp

example : WF ⟨false, 123, 6111⟩ ∧ f1Region ⟨false, 123, 6111⟩ = false := by decide
example : WF ⟨true, 123, -2⟩ ∧ f1Region ⟨true, 123, -2⟩ = false := by decide

/-- the text in the F1 region does not read back at all (decQuadFromString gives NaN) -/
theorem plain_reads_back_counterexample :
    plain ⟨true, 15, -8⟩ = some "0.000000-15".toList ∧ ofString "0.000000-15".toList = .nan := by
  decide

/-- a literal token `(before, after)` with at most 34 significant digits (`readNat < 10^34`)
evaluates to exactly the number its digits denote: coefficient = the digits read as one integer,
exponent = minus the number of fraction digits -/
theorem literal_exact (before after : List Char) (hb : AllDigits before) (hbne : before ≠ [])
    (ha : AllDigits after) (hsig : readNat (before ++ after) < 10 ^ 34) (hlen : after.length ≤ 6176) :
    ofLiteral before after = some ⟨false, readNat (before ++ after), -(after.length : Int)⟩ := by
  obtain ⟨c, l, rfl⟩ := exists_cons_of_ne_nil before hbne
  unfold ofLiteral fromStr
  cases after with
  | nil =>
    -- "12." : digits, a dot, nothing after it
    have e1 : (c :: l) ++ ['.'] ++ [] = signOf false ++ c :: (l ++ ['.']) := by simp [signOf]
    rw [e1]
    unfold ofString
    rw [stripSign_sign false c _ (hb c (by simp))]
    simp only []
    have h2 := spanDigits_append (c :: l) '.' [] hb isDigit_false_dot
    simp only [List.cons_append] at h2
    rw [h2]
    simp only [fracPart, spanDigits]
    have := ofDigits_exact false (c :: l) [] hsig (by simp)
    simp [parseExp, this, D128R.toOption]
  | cons f fs =>
    have e1 : (c :: l) ++ ['.'] ++ (f :: fs) = signOf false ++ ((c :: l) ++ '.' :: (f :: fs)) := by simp [signOf]
    rw [e1, ofString_frac false c l f fs hb ha, ofDigits_exact false _ _ hsig hlen]
    rfl

example : AllDigits "0".toList ∧ AllDigits "00000015".toList ∧
    readNat ("0".toList ++ "00000015".toList) < 10 ^ 34 :=
  ⟨allDigits_of_all (by decide), allDigits_of_all (by decide), by decide⟩

-- FULL STATEMENT (not provable of the current code, findings F1 and F19):
--   theorem json_number (d : D128) (hwf : WF d) : ∃ t, plain d = some t ∧ isJsonNumber t = true

/-- outside the F1 region and except for a zero with positive exponent, the JSON rendering
(`jsonify` = `Display`) is a JSON number — and by `plain_value_partial` it has the same value -/
theorem json_number_partial (d : D128) (hwf : WF d) (h : f1Region d = false) (hz : zeroPosExp d = false) :
    ∃ t, plain d = some t ∧ isJsonNumber t = true := by
  refine ⟨plainSpec d, ?_, plainSpec_json d hz⟩
  rw [plain_total d hwf, h]; rfl

example : WF ⟨true, 0, 0⟩ ∧ f1Region ⟨true, 0, 0⟩ = false ∧ zeroPosExp ⟨true, 0, 0⟩ = false := by decide

/-- F1 witness for JSON -/
theorem json_number_counterexample_f1 :
    plain ⟨true, 15, -8⟩ = some "0.000000-15".toList ∧ isJsonNumber "0.000000-15".toList = false := by
  decide

/-- F19 witness: `0E+3` prints `0000`, which is not a JSON number (leading zeros) -/
theorem json_number_counterexample_zero :
    WF ⟨false, 0, 3⟩ ∧ plain ⟨false, 0, 3⟩ = some "0000".toList ∧ isJsonNumber "0000".toList = false := by
  decide

end Dmn.Props.C07
