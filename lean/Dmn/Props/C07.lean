import Dmn.Lemmas.DecParse
import Dmn.Lemmas.DecLex

/-!
# C07 — numbers print as plain decimal text that denotes exactly their value

Model: `Dmn.D128.toSci` (decQuadToString), `Dmn.D128.sciToPlain` (`scientific_to_plain`,
number.rs:462, sign kept aside, character by character, including where it would panic),
`Dmn.D128.plain = sciToPlain ∘ toSci` (`Display`/`jsonify`), `Dmn.D128.ofString`
(decQuadFromString), `Dmn.D128.ofLiteral` (`build_numeric`).
Specification: `isPlain` (`-?[0-9]+(\.[0-9]+)?`), `plainValue` (sign, digits as one integer,
number of fraction digits), `isJsonNumber`, `SameValue`.

All statements are for every finite decimal128 (`WF d`: `coeff < 10^34`, `-6176 ≤ exp ≤ 6111`),
no bound on anything else, and at full strength: the two defects the first version of this
file had to exclude are repaired in the code —
* F1 (`-0.00000015` printed `0.000000-15`), repaired by 4df4c0b,
* F19 (`0E+3` printed `0000`), repaired by de58a23 —
and the `f1Region` / `zeroPosExp` hypotheses and the counterexample theorems are gone.
-/

namespace Dmn.Props.C07
open Dmn Dmn.D128

/-- `Display` never panics (no `unwrap()` fails, the `usize` subtraction never underflows) and
prints exactly the expected plain rendering -/
theorem plain_total (d : D128) (hwf : WF d) : plain d = some (plainSpec d) := plain_eq d hwf

example : WF ⟨true, 15, -8⟩ ∧ plain ⟨true, 15, -8⟩ = some "-0.00000015".toList := by decide
example : WF ⟨true, 0, 3⟩ ∧ plain ⟨true, 0, 3⟩ = some "-0".toList := by decide

/-- the printed text has the shape `-?[0-9]+(\.[0-9]+)?`: optional minus, digits, optionally a
point followed by digits, never an exponent -/
theorem plain_shape (d : D128) (hwf : WF d) : ∃ t, plain d = some t ∧ isPlain t = true :=
  ⟨plainSpec d, plain_eq d hwf, plainSpec_isPlain d⟩

example : WF ⟨true, 1, -6176⟩ := by decide

/-- the printed text denotes exactly the value: its sign is the number's, its digits read as
one integer are `coeff·10^exp` (`exp ≥ 0`) resp. `coeff`, and it has `-exp` fraction digits
(`exp < 0`) resp. none -/
theorem plain_value (d : D128) (hwf : WF d) :
    ∃ t, plain d = some t ∧
      plainValue t = some (d.neg, d.coeff * 10 ^ d.exp.toNat, (-d.exp).toNat) :=
  ⟨plainSpec d, plain_eq d hwf, plainSpec_value d⟩

example : WF ⟨true, 15, -8⟩ := by decide

/-- reading the printed text back (through the model of decQuadFromString) gives a finite
number of equal value — including integers printed with up to 6 145 digits, whose zeros beyond
34 digits go back into the exponent -/
theorem plain_reads_back (d : D128) (hwf : WF d) :
    ∃ t d', plain d = some t ∧ ofString t = .fin d' ∧ SameValue d' d := by
  have hp : plain d = some (plainSpec d) := plain_eq d hwf
  by_cases h0 : d.exp ≥ 0
  · obtain ⟨d', h1, h2⟩ := ofString_plainSpec_pos d hwf h0
    exact ⟨plainSpec d, d', hp, h1, h2⟩
  · have hz : d.exp.toNat = 0 := by omega
    have hfit : d.coeff * 10 ^ d.exp.toNat < 10 ^ 34 := by rw [hz]; simpa using hwf.1
    refine ⟨plainSpec d, ⟨d.neg, d.coeff * 10 ^ d.exp.toNat, min d.exp 0⟩, hp, ofString_plainSpec d hwf hfit, ?_⟩
    unfold SameValue scaled
    simp only []
    have e1 : min (min d.exp 0) d.exp = d.exp := by omega
    have e2 : min d.exp 0 = d.exp := by omega
    rw [e1, e2, hz]; simp

example : WF ⟨false, 123, 6111⟩ ∧ WF ⟨true, 123, -20⟩ := by decide

/-- a literal token `(before, after)` with at most 34 significant digits (`readNat < 10^34`)
evaluates to exactly the number its digits denote: coefficient = the digits read as one integer,
exponent = minus the number of fraction digits -/
theorem literal_exact (before after : List Char) (hb : AllDigits before) (hbne : before ≠ [])
    (ha : AllDigits after) (hsig : readNat (before ++ after) < 10 ^ 34) (hlen : after.length ≤ 6176) :
    ofLiteral before after = some ⟨false, readNat (before ++ after), -(after.length : Int)⟩ := by
  obtain ⟨c, l, rfl⟩ := exists_cons_of_ne_nil before hbne
  unfold ofLiteral fromStr
  cases after with
  | nil =>
    -- "12." : digits, a dot, nothing after it
    have e1 : (c :: l) ++ ['.'] ++ [] = signOf false ++ c :: (l ++ ['.']) := by simp [signOf]
    rw [e1]
    unfold ofString
    rw [stripSign_sign false c _ (hb c (by simp))]
    simp only []
    have h2 := spanDigits_append (c :: l) '.' [] hb isDigit_false_dot
    simp only [List.cons_append] at h2
    rw [h2]
    simp only [fracPart, spanDigits]
    have := ofDigits_exact false (c :: l) [] hsig (by simp)
    simp [parseExp, this, D128R.toOption]
  | cons f fs =>
    have e1 : (c :: l) ++ ['.'] ++ (f :: fs) = signOf false ++ ((c :: l) ++ '.' :: (f :: fs)) := by simp [signOf]
    rw [e1, ofString_frac false c l f fs hb ha, ofDigits_exact false _ _ hsig hlen]
    rfl

example : AllDigits "0".toList ∧ AllDigits "00000015".toList ∧
    readNat ("0".toList ++ "00000015".toList) < 10 ^ 34 :=
  ⟨allDigits_of_all (by decide), allDigits_of_all (by decide), by decide⟩

/-- the JSON rendering (`jsonify` = `Display`) is a JSON number
(`-?(0|[1-9][0-9]*)(\.[0-9]+)?`; `-0` is one) — and by `plain_value` it has the same value -/
theorem json_number (d : D128) (hwf : WF d) : ∃ t, plain d = some t ∧ isJsonNumber t = true :=
  ⟨plainSpec d, plain_eq d hwf, plainSpec_json d⟩

example : WF ⟨false, 0, 3⟩ ∧ plain ⟨false, 0, 3⟩ = some "0".toList ∧ isJsonNumber "-0".toList = true := by
  decide

/-! ## The text → number direction

`ofString` is the model of `decQuadFromString`, which is what `FromStr for FeelNumber`
(number.rs:371), `Value::try_from_xsd_integer / _decimal / _double` (values.rs:396-408, the typed
input values of the service and of test cases), `build_numeric` (builders.rs:1344, FEEL literals)
and `core::number` (core.rs:738, after the separators are replaced) all call.  The specification
reader `lexValue` gives, for every text of the numeric lexical form
`[+-]? (digits ('.' digits?)? | '.' digits) ([eE] [+-]? digits)?` — leading `+`, leading and
trailing zeros, `.5`, `5.`, exponent forms included —, the exact rational the text denotes as
`(sign, N, e)`: `(-1)^sign · N · 10^e`. -/

/-- **Reading a number is correct rounding of the value the text denotes**, for every accepted
lexical form, any number of digits and any exponent: the result is the decimal128 value nearest
to `N·10^e` (ties to even, subnormals rounded once at exponent −6176, ±Infinity exactly when the
value rounds above the largest number — which `FromStr` then turns into an error). -/
theorem from_str_rounds (s : List Char) (neg : Bool) (N : Nat) (e : Int)
    (h : lexValue s = some (neg, N, e)) (hN : N ≠ 0) : RoundsHalfEven neg N 1 e (ofString s) := by
  obtain ⟨ip, fp, ex, hip, hfp, h1, h2, h3⟩ := ofString_of_lex s neg N e h
  rw [h1, h2, h3]
  exact ofDigits_rounds neg ip fp ex hip hfp (h2 ▸ hN)

example : lexValue "+007.2500E-3".toList = some (false, 72500, -7) ∧
    lexValue ".5".toList = some (false, 5, -1) ∧ lexValue "-5.".toList = some (true, 5, 0) ∧
    lexValue "1e3".toList = some (false, 1, 3) := by decide

/-- a text with at most 34 significant digits whose exponent lies in the range is read
**exactly**: sign, coefficient and exponent are the written ones (no digit is lost, nothing goes
through binary floating point), whatever the lexical form -/
theorem from_str_exact (s : List Char) (neg : Bool) (N : Nat) (e : Int)
    (h : lexValue s = some (neg, N, e)) (hN : N ≠ 0) (h34 : N < 10 ^ 34) (hlo : -6176 ≤ e)
    (hhi : e ≤ 6111) : fromStr s = some ⟨neg, N, e⟩ := by
  obtain ⟨ip, fp, ex, _, _, h1, h2, h3⟩ := ofString_of_lex s neg N e h
  unfold fromStr
  rw [h1, h2, h3, ofDigits_exact_exp neg ip fp ex (h2 ▸ h34) (h2 ▸ hN) (h3 ▸ hlo) (h3 ▸ hhi)]
  rfl

example : lexValue "-.25".toList = some (true, 25, -2) ∧ (25 : Nat) ≠ 0 ∧ (25 : Nat) < 10 ^ 34 := by decide
example : fromStr "+00120.E+1".toList = some ⟨false, 120, 1⟩ := by decide

/-- zero written in any form (`0`, `-0.00`, `+.0E5`) is a zero with the written sign -/
theorem from_str_zero (s : List Char) (neg : Bool) (e : Int) (h : lexValue s = some (neg, 0, e)) :
    IsZeroWith neg (ofString s) := by
  obtain ⟨ip, fp, ex, _, _, h1, h2, _⟩ := ofString_of_lex s neg 0 e h
  rw [h1]
  exact ofDigits_zero neg ip fp ex h2.symm

example : lexValue "-0.00".toList = some (true, 0, -2) := by decide

/-- nothing outside the grammar is read as a number: blanks, a second point, a bare sign or
point, an exponent without digits, digit separators, `Infinity`, `NaN` all give an error -/
theorem from_str_rejects (s : List Char) (h : lexValue s = none) : fromStr s = none :=
  ofString_not_lex s h

example : lexValue " 1".toList = none ∧ lexValue "1 ".toList = none ∧ lexValue "1.2.3".toList = none ∧
    lexValue ".".toList = none ∧ lexValue "1E".toList = none ∧ lexValue "1,5".toList = none ∧
    lexValue "Infinity".toList = none := by decide

/-- a FEEL literal `before.after` of **any** length evaluates to the correctly rounded value of
its digits (`literal_exact` is the case of at most 34 significant digits) -/
theorem literal_rounds (before after : List Char) (hb : AllDigits before) (hbne : before ≠ [])
    (ha : AllDigits after) (hN : readNat (before ++ after) ≠ 0) :
    ∃ r, ofLiteral before after = r.toOption ∧
      RoundsHalfEven false (readNat (before ++ after)) 1 (-(after.length : Int)) r := by
  obtain ⟨c, l, rfl⟩ := exists_cons_of_ne_nil before hbne
  refine ⟨ofString ((c :: l) ++ ['.'] ++ after), rfl, ?_⟩
  have e1 : (c :: l) ++ ['.'] ++ after = signOf false ++ ((c :: l) ++ '.' :: after) := by simp [signOf]
  have hl := lexValue_point false c l after hb ha
  rw [e1]
  exact from_str_rounds _ false _ _ hl hN

example : ofLiteral "1".toList "00000000000000000000000000000000050".toList
    = some ⟨false, 1000000000000000000000000000000000, -33⟩ := by decide +kernel

/-- the two directions meet: the text `Display` prints for a finite number is read by the
specification reader of the input direction as exactly that number's value — sign, the integer
`coeff·10^exp` resp. `coeff`, and `-exp` fraction digits -/
theorem plain_lex_value (d : D128) (hwf : WF d) :
    ∃ t, plain d = some t ∧
      lexValue t = some (d.neg, d.coeff * 10 ^ d.exp.toNat, -((-d.exp).toNat : Int)) :=
  ⟨plainSpec d, plain_eq d hwf, lexValue_of_plainValue _ _ _ _ (plainSpec_value d)⟩

example : WF ⟨true, 15, -8⟩ := by decide

end Dmn.Props.C07
