import Dmn.Lemmas.BifsPos
import Dmn.Model.BifEval
import Dmn.Lemmas.MergeSort
import Dmn.Lemmas.BifsStatsStddev
import Dmn.Lemmas.BifsStatsSort
import Dmn.Lemmas.BifsStatsExactStddev
import Dmn.Lemmas.BifsNumber
import Dmn.Lemmas.BifsNumberSep
import Dmn.Lemmas.BifsSignatures
import Dmn.Lemmas.BifsString
import Dmn.Lemmas.DecPlain

/-!
# C08 — built-in functions return their specified value for all arguments; named = positional
# C05(a), built-in part — no built-in function panics

Theorems about `Dmn.Bif.core_*` (model of `feel-evaluator/src/bifs/core.rs`), the dispatch
tables regenerated from `positional.rs` / `named.rs` / `bif.rs` (`Dmn/Gen/BifDispatch.lean`)
and the specification `Dmn.Spec` (`Dmn/Model/BifSpec.lean`).  `m` ranges over both integer
modes (a build with and without overflow checks).

Shape of the statements: `core_<f> args = .ok (Spec.<f>V [args…])` for ALL argument values
(the specification is null outside the domain).  Where the unchanged code violates this, the
full statement stays in a comment, the proved theorem is `…_partial` with the excluding
hypothesis, and `…_counterexample` exhibits the witness.
-/

namespace Dmn
namespace Bif

/-! ## 1. Positions: substring, sublist, insert before, remove -/

/-- The index arithmetic of `substring` computes the specified characters, in both integer
modes, for every start position and every length ≥ 1 (`checked_add`: a sum beyond `usize` is
"more characters than remain", null). -/
theorem substring_index_spec (m : IntMode) (cs : List Char) (st : Int) (count : Option Nat)
    (hL : cs.length < Usz.modulus) (h : ∀ c, count = some c → 1 ≤ c) :
    substringAt m cs st count = .ok (Spec.substringChars cs st count) :=
  substringAt_spec m cs st count hL h

example : ("a🙏c".toList).length < Usz.modulus ∧ ∀ c, (some 18446744073709551615 : Option Nat) = some c → 1 ≤ c := by
  refine ⟨by decide, ?_⟩
  intro c h; injection h with h; subst h; decide

/-- `sublist(list, position)` -/
theorem sublist2_index_spec (m : IntMode) (items : List Value) (b : Bool) (i : Nat)
    (hi : 1 ≤ i) (hi2 : i < Usz.modulus) (hL : items.length < Usz.modulus) :
    sublist2At m items (b, i) = .ok (Spec.sublistAt items (posInt (b, i)) none) :=
  sublist2At_spec m items b i hi hi2 hL

/-- `sublist(list, position, length)`: every position and every length (a negative position
before the first item, or a length beyond `usize`, is null) -/
theorem sublist3_index_spec (m : IntMode) (items : List Value) (b : Bool) (i n : Nat)
    (hi : 1 ≤ i) (hi2 : i < Usz.modulus) (hL : items.length < Usz.modulus) :
    sublist3At m items (b, i) n = .ok (Spec.sublistAt items (posInt (b, i)) (some n)) :=
  sublist3At_spec m items b i n hi hi2 hL

example : (1 : Nat) ≤ 5 ∧ 5 < Usz.modulus ∧ ([Value.null, .null, .null]).length < Usz.modulus := by decide

/-- `insert before(list, position, newItem)` -/
theorem insert_before_index_spec (m : IntMode) (items : List Value) (b : Bool) (i : Nat) (x : Value)
    (hi : 1 ≤ i) (hi2 : i < Usz.modulus) (hL : items.length < Usz.modulus) :
    insertBeforeAt m items (b, i) x = .ok (Spec.insertBeforeAt items (posInt (b, i)) x) :=
  insertBeforeAt_spec m items b i x hi hi2 hL

/-- `remove(list, position)` -/
theorem remove_index_spec (m : IntMode) (items : List Value) (b : Bool) (i : Nat)
    (hi : 1 ≤ i) (hi2 : i < Usz.modulus) (hL : items.length < Usz.modulus) :
    removeAt m items (b, i) = .ok (Spec.removeAt items (posInt (b, i))) :=
  removeAt_spec m items b i hi hi2 hL

/-- What the code reads as a position is the integer the number denotes, at least 1 in
magnitude and inside `usize`. -/
theorem position_decoding_sound {p : Dec} {pos : Bool × Nat} (h : decodePos p = some pos) :
    p.toInt? = some (posInt pos) ∧ 1 ≤ pos.2 ∧ pos.2 < Usz.modulus :=
  decodePos_sound h

/-- … and what it does not read as a position has a fraction, is zero, or is at least `2^64`
in magnitude — none of which is a position of a list or string. -/
theorem position_decoding_complete {p : Dec} (h : decodePos p = none) :
    p.toInt? = none ∨ ∃ v, p.toInt? = some v ∧ (v = 0 ∨ Usz.modulus ≤ v.natAbs) :=
  decodePos_none h

/-! ### on values: the whole argument space

A position or length may be written `2`, `2.0` or `2.00`: the conversions go through the
integral form of an integral value (`Dec.integralForm`, repair 6bf8324); a value with a
fraction is not a position, for the code and for the specification alike. -/

theorem core_sublist2_spec (m : IntMode) (a b : Value) (hL : lenOf a < Usz.modulus) :
    core_sublist2 m a b = .ok (Spec.sublistV [a, b]) := by
  cases a with
  | list items =>
    simp only [lenOf] at hL
    cases b with
    | num p =>
      simp only [core_sublist2, Spec.sublistV, Spec.intOf]
      cases hd : decodePos p with
      | some pos =>
        obtain ⟨h1, h2, h3⟩ := decodePos_sound hd
        obtain ⟨b, i⟩ := pos
        simp only [h1, sublist2At_spec m items b i h2 h3 hL, listResult_ok, Option.bind_some]
      | none =>
        rcases decodePos_none hd with hv | ⟨v, hv, hr⟩
        · simp only [hv, none_bind', Spec.optV]
        · simp only [hv, Option.bind_some, Spec.sublistAt, startIndex_out_of_range hL hr, Spec.optV]
    | _ => rfl
  | _ => rfl

theorem core_insert_before_spec (m : IntMode) (a b c : Value) (hL : lenOf a < Usz.modulus) :
    core_insert_before m a b c = .ok (Spec.insertBeforeV [a, b, c]) := by
  cases a with
  | list items =>
    simp only [lenOf] at hL
    cases b with
    | num p =>
      simp only [core_insert_before, Spec.insertBeforeV, Spec.intOf]
      cases hd : decodePos p with
      | some pos =>
        obtain ⟨h1, h2, h3⟩ := decodePos_sound hd
        obtain ⟨b, i⟩ := pos
        simp only [h1, insertBeforeAt_spec m items b i c h2 h3 hL, listResult_ok, Option.bind_some]
      | none =>
        rcases decodePos_none hd with hv | ⟨v, hv, hr⟩
        · simp only [hv, none_bind', Spec.optV]
        · simp only [hv, Option.bind_some, Spec.insertBeforeAt, startIndex_out_of_range hL hr, Spec.optV, Option.map_none]
    | _ => rfl
  | _ => rfl

theorem core_remove_spec (m : IntMode) (a b : Value) (hL : lenOf a < Usz.modulus) :
    core_remove m a b = .ok (Spec.removeV [a, b]) := by
  cases a with
  | list items =>
    simp only [lenOf] at hL
    cases b with
    | num p =>
      simp only [core_remove, Spec.removeV, Spec.intOf]
      cases hd : decodePos p with
      | some pos =>
        obtain ⟨h1, h2, h3⟩ := decodePos_sound hd
        obtain ⟨b, i⟩ := pos
        simp only [h1, removeAt_spec m items b i h2 h3 hL, listResult_ok, Option.bind_some]
      | none =>
        rcases decodePos_none hd with hv | ⟨v, hv, hr⟩
        · simp only [hv, none_bind', Spec.optV]
        · simp only [hv, Option.bind_some, Spec.removeAt, startIndex_out_of_range hL hr, Spec.optV, Option.map_none]
    | _ => rfl
  | _ => rfl

/-- `sublist(list, start position, length)` on the whole argument space.  `NotNegZero`: the
length is not the number `-0` (which `parse::<usize>` rejects although it is 0; FEEL text
produces it only through arithmetic such as `0 * -1`). -/
theorem core_sublist3_spec (m : IntMode) (a b c : Value) (hc : NotNegZero c)
    (hL : lenOf a < Usz.modulus) :
    core_sublist3 m a b c = .ok (Spec.sublistV [a, b, c]) := by
  cases a with
  | list items =>
    simp only [lenOf] at hL
    cases c with
    | num ln =>
      simp only [core_sublist3, Spec.sublistV, Spec.natOfInt]
      cases hn : ln.toUsizeV? with
      | none =>
        rcases toUsizeV_none hc hn with hv | ⟨v, hv, hr⟩
        · simp only [hv, none_bind', bind_none_right, Spec.optV]
        simp only [hv]
        rcases hr with hneg | hbig
        · rw [if_neg (by omega)]
          simp only [none_bind', bind_none_right, Spec.optV]
        · rw [if_pos (by unfold Usz.modulus at hbig; omega)]
          have hbig' : Usz.modulus ≤ v.toNat := by omega
          cases Spec.intOf b with
          | none => rfl
          | some p =>
            simp only [Option.bind_some, Spec.sublistAt]
            cases Spec.startIndex items.length p with
            | none => rfl
            | some st =>
              simp only
              rw [if_neg (by omega)]
              rfl
      | some n =>
        obtain ⟨hv, _⟩ := toUsizeV_some hn
        simp only [hv]
        rw [if_pos (by omega)]
        simp only [Int.toNat_natCast, Option.bind_some]
        cases b with
        | num p =>
          simp only [Spec.intOf]
          cases hd : decodePos p with
          | some pos =>
            obtain ⟨h1, h2, h3⟩ := decodePos_sound hd
            obtain ⟨b, i⟩ := pos
            simp only [h1, sublist3At_spec m items b i n h2 h3 hL, listResult_ok, Option.bind_some]
          | none =>
            rcases decodePos_none hd with hv | ⟨v, hv, hr⟩
            · simp only [hv, none_bind', Spec.optV]
            · simp only [hv, Option.bind_some, Spec.sublistAt, startIndex_out_of_range hL hr, Spec.optV]
        | _ => rfl
    | _ =>
      simp only [core_sublist3, Spec.sublistV, Spec.natOfInt, none_bind', bind_none_right, Spec.optV]
  | _ => rfl

example : NotNegZero (.num ⟨false, 200, -2⟩) := by unfold NotNegZero; decide

/-- `substring(string, start position, length)` for every string and every start position
(`2`, `2.0`, `1.5`, out of range, not a number).  `PlainNat c` restricts the *length* to numbers
written without fraction digits: the code has always read the length through `trunc()`, the
restriction only shortens the proof (fractional lengths are covered by the correspondence). -/
theorem core_substring_spec (m : IntMode) (a b c : Value) (hc : PlainNat c)
    (hL : (lenOf a : Int) < (2 : Int) ^ 63) :
    core_substring m a b c = .ok (Spec.substringV [a, b, c]) := by
  cases a with
  | str s =>
    simp only [lenOf] at hL
    have hLm : s.toList.length < Usz.modulus := by unfold Usz.modulus; omega
    cases b with
    | num sp =>
      cases hst : sp.toIsizeV? with
      | none =>
        rcases toIsizeV_none hst with hv | ⟨v, hv, hout⟩
        · cases c <;> simp only [core_substring, hst, Spec.substringV, Spec.intOf, hv, none_bind', Spec.optV]
        have hsi := startIndex_isize_out hL hout
        cases c with
        | null => simp only [core_substring, hst, Spec.substringV, Spec.intOf, hv, Option.bind_some,
            substringChars_none_start hsi, Spec.optV]
        | num len =>
          simp only [core_substring, hst, Spec.substringV, Spec.intOf, hv, Option.bind_some,
            substringChars_none_start hsi, bind_none_right, Spec.optV]
        | _ => simp only [core_substring, hst, Spec.substringV, Spec.intOf, hv, Option.bind_some,
            substringChars_none_start hsi, bind_none_right, Spec.optV]
      | some st =>
        have hv := toIsizeV_some hst
        cases c with
        | null =>
          simp only [core_substring, hst, Spec.substringV, Spec.intOf, hv, Option.bind_some]
          rw [substringAt_spec m s.toList st none hLm (by intro c h; cases h), strResult_ok]
        | num len =>
          simp only [PlainNat] at hc
          obtain ⟨hlow, hhigh⟩ := substringCount_plain hc.1 hc.2 _ rfl
          simp only [core_substring, hst, Spec.substringV, Spec.intOf, hv, Option.bind_some]
          by_cases hone : len.scoeff * 10 ^ len.exp.toNat < 1
          · obtain ⟨h1, h2⟩ := hlow hone
            rw [h1]
            rcases h2 with h2 | h2
            · rw [h2]; rfl
            · rw [h2]; simp only [Option.bind_some, substringChars_zero, Spec.optV]
          · obtain ⟨h1, h2⟩ := hhigh (by omega)
            rw [h1]
            simp only [Option.bind_some]
            rcases h2 with ⟨h2, _⟩ | ⟨h2, hbig⟩
            · rw [h2]
              simp only
              rw [substringAt_spec m s.toList st (some _) hLm ?_, strResult_ok]
              intro k hk
              injection hk with hk
              subst hk
              omega
            · rw [h2]
              have hbig' : s.toList.length < (len.scoeff * 10 ^ len.exp.toNat).toNat := by omega
              simp only [substringChars_big hbig', Spec.optV]
        | _ => simp only [core_substring, hst, Spec.substringV, Spec.intOf, hv, Option.bind_some, Spec.natOf,
            none_bind', Spec.optV]
    | _ =>
      cases c <;> simp only [core_substring, Spec.substringV, Spec.intOf, none_bind', Spec.optV]
  | _ => cases c <;> rfl

example : PlainNat (.num ⟨false, 2, 0⟩) := by unfold PlainNat; decide

/-! ## 2. Strings, lists, aggregates: the whole argument space -/

theorem core_string_length_spec (a : Value) : core_string_length a = .ok (Spec.stringLengthV [a]) := by
  cases a <;> rfl

theorem core_count_spec (a : Value) : core_count a = .ok (Spec.countV [a]) := by
  cases a <;> rfl

theorem core_reverse_spec (a : Value) : core_reverse a = .ok (Spec.reverseV [a]) := by
  cases a <;> rfl

theorem core_not_spec (a : Value) : core_not a = .ok (Spec.notV [a]) := by
  cases a <;> rfl

theorem core_get_entries_spec (a : Value) : core_get_entries a = .ok (Spec.getEntriesV [a]) := by
  cases a <;> rfl

/-- `append(list, item…)` with at least one item (the positional table calls `core::append`
only then). -/
theorem core_append_spec (a x : Value) (xs : List Value) :
    core_append a (x :: xs) = .ok (Spec.appendV (a :: x :: xs)) := by
  cases a <;> rfl

theorem core_list_contains_spec (a e : Value) : core_list_contains a e = .ok (Spec.listContainsV [a, e]) := by
  cases a <;> rfl

theorem core_flatten_spec (a : Value) : core_flatten a = .ok (Spec.flattenVV [a]) := by
  cases a <;> rfl

/-- `concatenate(list…)` with at least one argument -/
theorem core_concatenate_spec (v : Value) (vs : List Value) :
    core_concatenate (v :: vs) = .ok (Spec.concatenateV (v :: vs)) := by
  simp only [core_concatenate, Spec.concatenateV, concatLoop_spec, List.nil_append]
  generalize Spec.itemsOfLists (v :: vs) = o
  cases o <;> simp [Spec.optV]

theorem core_index_of_spec (a e : Value) : core_index_of a e = .ok (Spec.indexOfV [a, e]) := by
  cases a with
  | list xs =>
    simp only [core_index_of, Spec.indexOfV, indexOfLoop_spec, Spec.indexOf, List.map_filterMap]
    congr 3
    funext p
    by_cases h : Spec.feq p.1 e = true <;> simp [h]
  | _ => rfl

theorem core_distinct_values_spec (a : Value) : core_distinct_values a = .ok (Spec.distinctValuesV [a]) := by
  cases a with
  | list xs => simp [core_distinct_values, Spec.distinctValuesV, distinctInto_eq, dedup_eq]
  | _ => rfl

theorem core_contains_spec (a b : Value) : core_contains a b = .ok (Spec.containsV [a, b]) := by
  cases a with
  | str s =>
    cases b with
    | str p =>
      simp only [core_contains, Spec.containsV, findSub_spec, Spec.firstOccurrence, Spec.containsChars]
      congr 2
      rw [Bool.eq_iff_iff]
      simp [List.find?_isSome, List.any_eq_true]
    | _ => rfl
  | _ => rfl

theorem core_substring_before_spec (a b : Value) :
    core_substring_before a b = .ok (Spec.substringBeforeV [a, b]) := by
  cases a with
  | str s =>
    cases b with
    | str p =>
      simp only [core_substring_before, Spec.substringBeforeV, findSub_spec, Spec.substringBeforeChars, Spec.strV]
      cases Spec.firstOccurrence p.toList s.toList <;> simp
    | _ => rfl
  | _ => rfl

theorem core_substring_after_spec (a b : Value) :
    core_substring_after a b = .ok (Spec.substringAfterV [a, b]) := by
  cases a with
  | str s =>
    cases b with
    | str p =>
      simp only [core_substring_after, Spec.substringAfterV, findSub_spec, Spec.substringAfterChars, Spec.strV]
      cases Spec.firstOccurrence p.toList s.toList <;> simp [Nat.add_comm]
    | _ => rfl
  | _ => rfl

theorem core_starts_with_spec (a b : Value) : core_starts_with a b = .ok (Spec.startsWithV [a, b]) := by
  cases a with
  | str s =>
    cases b with
    | str p => simp [core_starts_with, Spec.startsWithV, Spec.occursAt]
    | _ => rfl
  | _ => rfl

theorem core_ends_with_spec (a b : Value) : core_ends_with a b = .ok (Spec.endsWithV [a, b]) := by
  cases a with
  | str s =>
    cases b with
    | str p => simp [core_ends_with, Spec.endsWithV, Spec.occursAt, isSuffixOf_eq]
    | _ => rfl
  | _ => rfl

-- FULL STATEMENT (not provable of the current code, finding F21):
--   ∀ xs, core_all xs = .ok (Spec.all3 xs)        (and likewise for `any`)
theorem core_all_spec_partial (xs : List Value) (h : AllBool xs) : core_all xs = .ok (Spec.all3 xs) := by
  unfold core_all
  cases xs with
  | nil => rfl
  | cons x xs => simp [allLoop_spec _ h]

example : AllBool [.bool true, .bool false] := by
  intro v hv; simp at hv; rcases hv with rfl | rfl <;> exact ⟨_, rfl⟩

theorem core_all_counterexample :
    core_all [.null, .bool false] = .ok .null ∧ Spec.all3 [.null, .bool false] = .bool false := by
  constructor <;> rfl

theorem core_any_spec_partial (xs : List Value) (h : AllBool xs) : core_any xs = .ok (Spec.any3 xs) := by
  unfold core_any
  cases xs with
  | nil => rfl
  | cons x xs =>
    simp only [List.isEmpty_cons, Bool.false_eq_true, if_false, anyLoop_spec _ h, Bool.false_or]
    unfold Spec.any3
    cases hany : (x :: xs).any Spec.isTrueV with
    | true => simp
    | false =>
      have := allBool_no_true _ h hany
      rw [if_neg (by simp), if_pos this]

theorem core_any_counterexample :
    core_any [.bool false, .null, .bool true] = .ok .null
      ∧ Spec.any3 [.bool false, .null, .bool true] = .bool true := by
  constructor <;> rfl

theorem core_min_spec (xs : List Value) : core_min xs = .ok (Spec.minV xs) := by
  cases xs with
  | nil => rfl
  | cons x xs =>
    cases x <;> simp [core_min, Spec.minV, Spec.extremum, Spec.allNums, Spec.allStrs, minNumLoop_spec, minStrLoop_spec]
    case num d => cases Spec.allNums xs <;> simp
    case str d => cases Spec.allStrs xs <;> simp

theorem core_max_spec (xs : List Value) : core_max xs = .ok (Spec.maxV xs) := by
  cases xs with
  | nil => rfl
  | cons x xs =>
    cases x <;> simp [core_max, Spec.maxV, Spec.extremum, Spec.allNums, Spec.allStrs, maxNumLoop_spec, maxStrLoop_spec]
    case num d => cases Spec.allNums xs <;> simp
    case str d => cases Spec.allStrs xs <;> simp

theorem core_sum_spec (xs : List Value) : core_sum xs = .ok (Spec.sumV xs) := by
  cases xs with
  | nil => rfl
  | cons x xs =>
    cases x <;> simp [core_sum, Spec.sumV, Spec.allNums, numbersOf_eq]
    case num d => cases Spec.allNums xs <;> simp

theorem core_mean_spec (xs : List Value) : core_mean xs = .ok (Spec.meanV xs) := by
  cases xs with
  | nil => rfl
  | cons x xs =>
    simp only [core_mean, Spec.meanV, numbersOf_eq]
    cases h : Spec.allNums (x :: xs) with
    | none => rfl
    | some ds =>
      cases ds with
      | nil => cases x <;> simp [Spec.allNums] at h
      | cons d ds => rfl

/-- `sort(list, precedes)` (the merge sort of `core.rs` since f38c8b6) returns a permutation of the
list **for every ordering function** — also one that is not a total order, on which the
library sort used before panicked: nothing is lost, nothing is duplicated. -/
theorem sort_perm {α : Type} (precedes : α → α → Bool) (xs : List α) : (mergeSort precedes xs).Perm xs :=
  mergeSortFuel_perm precedes xs.length xs

/-- For an ordering function that is asymmetric and whose complement is transitive (a strict
weak order, e.g. `function(x,y) x < y`) the result is ordered: no item precedes an earlier one. -/
theorem sort_sorted {α : Type} (precedes : α → α → Bool)
    (hasym : ∀ a b, precedes a b = true → precedes b a = false)
    (htrans : ∀ a b c, mayPrecede precedes a b → mayPrecede precedes b c → mayPrecede precedes a c)
    (xs : List α) : (mergeSort precedes xs).Pairwise (mayPrecede precedes) :=
  mergeSortFuel_sorted precedes hasym htrans xs.length xs (Nat.le_succ _)

example : mergeSort (fun (a b : Nat) => decide (a < b)) [3, 1, 2, 1] = [1, 1, 2, 3] := by
  simp [mergeSort, mergeSortFuel, merge]
example : mergeSort (fun (a b : Nat) => a != b) [3, 1, 2, 1] = [1, 1, 2, 3] := by
  simp [mergeSort, mergeSortFuel, merge]

/-- `sort_by` returns a permutation of its input -/
theorem sortBy_perm {α : Type} (cmp : α → α → Ordering) (xs : List α) : (sortBy cmp xs).Perm xs := by
  induction xs with
  | nil => exact List.Perm.refl _
  | cons x xs ih => exact (insertBy_perm cmp x _).trans (List.Perm.cons x ih)

/-- `sort_by` (the stable sort of `median` and `mode`) returns an ascending list, for every
comparator that is total and transitive. -/
theorem sortBy_sorted {α : Type} (cmp : α → α → Ordering)
    (htot : ∀ a b, cmp a b = .gt → cmp b a ≠ .gt)
    (htrans : ∀ a b c, cmp a b ≠ .gt → cmp b c ≠ .gt → cmp a c ≠ .gt) (xs : List α) :
    (sortBy cmp xs).Pairwise (fun a b => cmp a b ≠ .gt) := by
  induction xs with
  | nil => simp [sortBy]
  | cons x xs ih => exact insertBy_sorted cmp htot htrans x _ ih

example : ∀ a b : Nat, compare a b = .gt → compare b a ≠ .gt := by
  intro a b h; rw [Nat.compare_eq_gt] at h; intro h2; rw [Nat.compare_eq_gt] at h2; omega

theorem core_median_spec (xs : List Value) : core_median xs = .ok (Spec.medianV xs) :=
  core_median_eq xs


/-! ## 3. Duplicate removal, flatten, get value -/

/-- `union(list…)` is duplicate removal on the concatenation -/
theorem core_union_spec (v : Value) (vs : List Value) : core_union (v :: vs) = .ok (Spec.unionV (v :: vs)) := by
  simp only [core_union, Spec.unionV, unionLoop_spec]
  generalize Spec.itemsOfLists (v :: vs) = o
  cases o <;> simp [Spec.optV, dedup_eq]

/-- Duplicate removal (`distinct values`, `union`) keeps the order of the items: the result
is a sublist of the argument. -/
theorem distinct_values_sublist (xs : List Value) : (Spec.dedup xs).Sublist xs := by
  obtain ⟨ys, h1, h2⟩ := dedupFold_sublist [] xs
  rw [dedup_eq, h1]; simpa using h2

/-- … no kept item is equal (FEEL equality) to a later kept item … -/
theorem distinct_values_pairwise (xs : List Value) :
    (Spec.dedup xs).Pairwise (fun a b => Spec.feq a b = false) := by
  rw [dedup_eq]; exact dedupFold_pairwise [] xs List.Pairwise.nil

/-- … and every item of the argument is kept or equal to a kept item. -/
theorem distinct_values_covers (xs : List Value) :
    ∀ x ∈ xs, ∃ v ∈ Spec.dedup xs, v = x ∨ Spec.feq v x = true := by
  rw [dedup_eq]; exact (dedupFold_covers [] xs).2

/-- `flatten`: the result contains no list … -/
theorem flatten_no_lists (xs : List Value) : ∀ v ∈ flattenItems xs, isList v = false := by
  fun_induction flattenItems xs with
  | case1 => simp
  | case2 inner rest ih1 ih2 =>
    intro v hv
    rcases List.mem_append.mp hv with h | h
    · exact ih1 v h
    · exact ih2 v h
  | case3 item rest hnl ih =>
    intro v hv
    rcases List.mem_cons.mp hv with rfl | h
    · cases v <;> simp_all [isList]
    · exact ih v h

/-- … a list without nested lists is left as it is … -/
theorem flatten_of_flat (xs : List Value) (h : ∀ v ∈ xs, isList v = false) : flattenItems xs = xs := by
  induction xs with
  | nil => simp [flattenItems]
  | cons x xs ih =>
    have hx := h x (by simp)
    have ih := ih (fun v hv => h v (List.mem_cons_of_mem _ hv))
    cases x <;> simp_all [flattenItems, isList]

/-- … flattening distributes over concatenation … -/
theorem flatten_append (xs ys : List Value) : flattenItems (xs ++ ys) = flattenItems xs ++ flattenItems ys := by
  induction xs with
  | nil => simp [flattenItems]
  | cons x xs ih => cases x <;> simp [flattenItems, ih, List.append_assoc]

/-- … and a nested list contributes its flattened items. -/
theorem flatten_nested (inner rest : List Value) :
    flattenItems (.list inner :: rest) = flattenItems inner ++ flattenItems rest := by
  simp [flattenItems]

-- FULL STATEMENT (not provable of the current code, finding F24):
--   ∀ a b, core_get_value a b = .ok (Spec.getValueV [a, b])
/-- a key without leading / trailing white space -/
def TrimmedKey (v : Value) : Prop :=
  match v with
  | .str k => trimChars k.toList = k.toList
  | _ => True

theorem core_get_value_spec_partial (a b : Value) (h : TrimmedKey b) :
    core_get_value a b = .ok (Spec.getValueV [a, b]) := by
  cases a with
  | ctx es =>
    cases b with
    | str k =>
      simp only [TrimmedKey] at h
      simp only [core_get_value, Spec.getValueV, h, String.ofList_toList]
      cases Ctx.get es k <;> rfl
    | _ => rfl
  | _ => cases b <;> rfl

example : TrimmedKey (.str "a b") := by unfold TrimmedKey; decide

theorem core_get_value_counterexample :
    core_get_value (.ctx [("a", .bool true)]) (.str " a ") = .ok (.bool true)
      ∧ Spec.getValueV [.ctx [("a", .bool true)], .str " a "] = .null := by
  constructor <;> rfl

/-! ## 4. Named invocation = positional invocation (regenerated tables) -/

/-- If the two table rows agree syntactically for arguments of this shape, the named and
the positional invocation are the same `core::` call — whatever `core` does. -/
theorem named_eq_positional_sound (core : Core) (prow : PosRow) (nrow : NamedRow) (names : List String)
    (args : List Value) (hnd : names.Nodup) (hlen : args.length ≤ names.length)
    (hag : formAgrees prow nrow names (args.map isList) = true) :
    evalNamed core nrow (bindNames names args) = evalPositional core prow args := by
  unfold evalNamed evalPositional
  have hshape : (fun k => (NamedArgs.get (bindNames names args) k).map isList)
      = (fun k => (args.map isList)[names.idxOf k]?) := by
    funext k
    rw [namedGet_bind names args hnd hlen, List.getElem?_map]
  rw [hshape]
  unfold formAgrees at hag
  have hag := eq_of_beq hag
  cases hres : nrow.body.resolve (fun k => (args.map isList)[names.idxOf k]?) with
  | none =>
    rw [hres] at hag
    simp only [Option.map_none] at hag
    cases hp : prow.resolve (args.map isList) with
    | none => rfl
    | some pc => rw [hp] at hag; simp at hag
  | some c =>
    rw [hres] at hag
    simp only [Option.map_some] at hag
    cases hp : prow.resolve (args.map isList) with
    | none => rw [hp] at hag; simp at hag
    | some pc =>
      rw [hp] at hag
      simp only [Option.map_some, Option.some.injEq, List.length_map] at hag
      simp only
      have hfn : pc.fn = c.fn := (congrArg PCall.fn hag).symm
      have hargs : pc.args.map (PArg.norm args.length) = c.args.map (NArg.toPos names) :=
        (congrArg PCall.args hag).symm
      rw [← mapM_inst_norm args pc.args, hargs, mapM_inst_toPos names args hnd hlen, hfn]


/-- Named invocation = positional invocation, for every signature of the specification on
which the two regenerated tables agree, every argument tuple of an admissible length and
every behaviour of the `core::` functions. -/
theorem named_eq_positional_partial (core : Core) (sig : Signature)
    (hag : agrees sig = true) (args : List Value)
    (h1 : sig.required ≤ args.length) (h2 : args.length ≤ sig.params.length) :
    callNamed core sig.name (bindNames sig.params args) = callPositional core sig.name args := by
  unfold agrees at hag
  unfold callNamed callPositional
  cases hr : rowsOf sig.name with
  | none => rfl
  | some pn =>
    obtain ⟨p, n⟩ := pn
    rw [hr] at hag
    simp only at hag ⊢
    unfold rowAgrees at hag
    simp only [Bool.and_eq_true, decide_eq_true_eq, List.all_eq_true] at hag
    obtain ⟨hnd, hall⟩ := hag
    have hmem : args.length ∈ arities sig := by
      unfold arities
      simp only [List.mem_filter, List.mem_range, decide_eq_true_eq]
      exact ⟨by omega, h1⟩
    have hshape := hall _ hmem (args.map isList) (by simpa using mem_shapes (args.map isList))
    exact named_eq_positional_sound core p n sig.params args hnd h2 hshape

example : agrees ⟨"substring", ["string", "start position", "length"], 2⟩ = true := by decide

/-- The signatures on which the current tables differ (recomputed from the regenerated tables
on every run; an edited dispatch arm changes this list and breaks the obligation). -/
theorem offending_pinned :
    offending = [("list contains", ["list", "element"])] := by
  decide

theorem offending_everywhere_pinned :
    offendingEverywhere = [("list contains", ["list", "element"])] := by
  decide

def n1 (k : Nat) : Value := .num ⟨false, k, 0⟩

-- FULL STATEMENT (not provable of the current code, finding F2b, pinned by the repository
-- tests bif_list_contains::_0004 / _0010):
--   ∀ core sig args, sig ∈ Spec.signatures → sig.required ≤ args.length → args.length ≤ sig.params.length →
--     callNamed core sig.name (bindNames sig.params args) = callPositional core sig.name args
/-- F2b: `list contains(list: [1], element: 1)` is null (the code's parameter name is `match`). -/
theorem named_eq_positional_counterexample :
    callNamed (core .checked) "list contains" (bindNames ["list", "element"] [.list [n1 1], n1 1]) = some (.ok .null)
      ∧ callPositional (core .checked) "list contains" [.list [n1 1], n1 1] = some (.ok (.bool true)) := by
  refine ⟨?_, ?_⟩ <;> rfl

/-- A single item given to the parameter `list` of an aggregate is a list of one item, in
both invocation forms (repair 272f631). -/
theorem named_single_item :
    callNamed (core .checked) "all" (bindNames ["list"] [.bool true]) = some (.ok (.bool true))
      ∧ callPositional (core .checked) "all" [.bool true] = some (.ok (.bool true))
      ∧ callNamed (core .checked) "sum" (bindNames ["list"] [n1 1]) = some (.ok (n1 1)) := by
  refine ⟨?_, ?_, ?_⟩ <;> rfl

/-! ### the parameter names of the code (regenerated) and of the specification

`codeSignatures` (`Dmn/Model/BifEval.lean`) is read off the regenerated table `named`: one signature per `core::` call
of every arm of `named::evaluate_bif`, with the parameter names that arm looks up.  An edited name constant, a swapped
`get_param` or a changed arm of either table changes the lists below and breaks the obligations. -/

/-- Named invocation = positional invocation for EVERY named form the code has (84 forms of 57 built-ins today, `list
contains(list:, match:)` and the range functions included), every argument tuple and every behaviour of the `core::`
functions: the two 70-arm tables are the same function up to the parameter names. No exclusion. -/
theorem named_eq_positional_code_names (core : Core) (sig : Signature) (hsig : sig ∈ codeSignatures)
    (args : List Value) (h1 : sig.required ≤ args.length) (h2 : args.length ≤ sig.params.length) :
    callNamed core sig.name (bindNames sig.params args) = callPositional core sig.name args :=
  named_eq_positional_partial core sig (List.all_eq_true.mp codeSignatures_all_agree sig hsig) args h1 h2

example : (⟨"list contains", ["list", "match"], 2⟩ : Signature) ∈ codeSignatures := by decide
example : (⟨"substring", ["string", "start position"], 2⟩ : Signature) ∈ codeSignatures := by decide

/-- The names of the code against the names of the specification (DMN 1.3 tables 72-80, every signature read at each
admissible number of arguments): the specification's forms the code does not have are `list contains(list, element)`
(F2b) and `product(list)` (not implemented: null in both tables); outside the range functions, the only named form of
the code the specification does not have is `list contains(list, match)`. -/
theorem code_names_vs_specification :
    specFormsNotInCode = [("list contains", ["list", "element"]), ("product", ["list"])] ∧
    codeFormsNotInSpec.filter (fun s => !["after", "before", "coincides"].contains s.1)
      = [("list contains", ["list", "match"])] :=
  ⟨specFormsNotInCode_eq, codeFormsNotInSpec_eq⟩

/-- The second sentence of the property with the specification's parameter names, for every built-in but `list
contains` (F2b, `named_eq_positional_counterexample`): the named invocation with the names of the specification's table
equals the positional invocation, for every argument tuple of an admissible length. -/
theorem named_eq_positional (core : Core) (sig : Signature) (hsig : sig ∈ Spec.signatures)
    (hne : sig.name ≠ "list contains") (args : List Value)
    (h1 : sig.required ≤ args.length) (h2 : args.length ≤ sig.params.length) :
    callNamed core sig.name (bindNames sig.params args) = callPositional core sig.name args := by
  by_cases hag : agrees sig = true
  · exact named_eq_positional_partial core sig hag args h1 h2
  · exfalso
    have hmem : (sig.name, sig.params) ∈ offending := by
      unfold offending
      exact List.mem_map.mpr ⟨sig, List.mem_filter.mpr ⟨hsig, by simpa using hag⟩, rfl⟩
    rw [offending_pinned] at hmem
    simp only [List.mem_cons, List.mem_nil_iff, or_false, Prod.mk.injEq] at hmem
    exact hne hmem.1

example : (⟨"substring", ["string", "start position", "length"], 2⟩ : Signature) ∈ Spec.signatures ∧
    (2 : Nat) ≤ [Value.str "abc", n1 2].length ∧ [Value.str "abc", n1 2].length ≤ 3 := by decide

/-- `append`, `concatenate` and `union` take any number of arguments and have no named form: whatever names are
written, the named invocation is null. -/
theorem no_named_form (core : Core) (nargs : NamedArgs) :
    ∀ f ∈ ["append", "concatenate", "union"], callNamed core f nargs = nullR := by
  intro f hf
  simp only [List.mem_cons, List.mem_nil_iff, or_false] at hf
  rcases hf with rfl | rfl | rfl <;> rfl

theorem bif_resolution (scope : Scope) (name : String) :
    (scope.getEntry name = none → resolveName names scope name = (if names.contains name then .bif name else .null))
      ∧ (∀ v, scope.getEntry name = some v → resolveName names scope name = v) := by
  constructor
  · intro h; simp [resolveName, h]
  · intro v h; simp [resolveName, h]

/-! ## 5. No built-in function panics (C05 a) -/

/-- Every `&parameters[i]` / `&parameters[i..]` of the current `positional.rs` is guarded by
the arity test of its arm (recomputed on the regenerated table). -/
theorem positional_index_safe_pinned : Dmn.Gen.BifDispatch.positional.all PosRow.safe = true := by decide

/-- … hence a positional invocation is null or exactly one `core::` call: the dispatch itself
cannot panic. -/
theorem positional_dispatch_no_panic (core : Core) (row : PosRow) (hrow : row.safe = true) (args : List Value) :
    evalPositional core row args = nullR ∨ ∃ fn cargs, evalPositional core row args = core fn cargs := by
  unfold evalPositional
  cases hres : row.resolve (args.map isList) with
  | none => left; rfl
  | some c =>
    right
    unfold PosRow.resolve at hres
    simp only [List.length_map] at hres
    cases hfind : row.arms.find? (fun a => a.1.accepts args.length) with
    | none => simp [hfind] at hres
    | some arm =>
      obtain ⟨ar, body⟩ := arm
      simp only [hfind] at hres
      have hmem := List.mem_of_find?_eq_some hfind
      have hacc := List.find?_some hfind
      simp only at hacc
      unfold PosRow.safe at hrow
      simp only [List.all_eq_true] at hrow
      have hsafe := hrow _ hmem
      have := PBody.resolve_safe args ar.atLeastN (Arity.accepts_ge hacc) body [] (by simp) hsafe c hres
      cases hm : c.args.mapM (PArg.inst args) with
      | none => simp [hm] at this
      | some cargs => exact ⟨c.fn, cargs, by simp only [hm]⟩

/-- No modelled built-in function panics, in either integer mode, on any argument tuple
(`lenOk`: list and string lengths fit `usize`, as every Rust `Vec` / `String` does). -/
theorem bif_no_panic (m : IntMode) (fn : String) (args : List CoreArg)
    (hlen : ∀ a ∈ args, CoreArg.lenOk a) : NoPanic (core m fn args) := by
  unfold core
  cases h : coreTable.lookup fn with
  | none => exact noPanic_none
  | some f => exact coreTable_noPanic (fn, f) (lookup_mem _ _ _ h) m args hlen

example : ∀ a ∈ [CoreArg.v (.list [n1 1, n1 2, n1 3]), .v (.num ⟨true, 5, 0⟩), .v (n1 18446744073709551615)], CoreArg.lenOk a := by
  intro a ha
  simp only [List.mem_cons, List.mem_nil_iff, or_false] at ha
  rcases ha with rfl | rfl | rfl
  · show ([n1 1, n1 2, n1 3] : List Value).length < Usz.modulus
    decide
  · trivial
  · trivial

/-- The index computations that panicked before the repairs df73e95 / a0759b1 are null now, in
both modes: `sublist([1,2,3], -5, 1)`, `sublist([1,2,3], 2, 18446744073709551615)`,
`substring("abc", 2, 18446744073709551615)`. -/
theorem former_panics_are_null (m : IntMode) :
    sublist3At m [n1 1, n1 2, n1 3] (true, 5) 1 = .ok none
      ∧ sublist3At m [n1 1, n1 2, n1 3] (false, 2) 18446744073709551615 = .ok none
      ∧ substringAt m ['a', 'b', 'c'] 2 (some 18446744073709551615) = .ok none := by
  cases m <;> refine ⟨?_, ?_, ?_⟩ <;> rfl

/-! ## 6. Statistics and sort against declarative specifications

`mode`, `stddev`, `median` and `sort` stated without reference to the algorithm of `core.rs`:
`Spec.mode` (values whose number of occurrences is maximal, `List.countP` / `List.filter` over
numeric equality), `Spec.stddev` (`sqrt (Σ (xᵢ − mean)² / (n − 1))` over the rounded operations),
the middle of the stable ascending arrangement, and `Spec.StableSortOf` for every ordering
function that is a strict weak order on the items. -/

/-- `mode(list)` on the whole argument space: for a list of numbers exactly `Spec.mode` (sort,
run-length scan, second sort and selection of the maxima compute it), `[]` for `[]`, null as
soon as an item is not a number. -/
theorem core_mode_spec (xs : List Value) : core_mode xs = .ok (Spec.modeSpecV xs) := core_mode_eq xs

/-- … on lists of numbers -/
theorem core_mode_numbers (ds : List Dec) : core_mode (ds.map .num) = .ok (.list ((Spec.mode ds).map .num)) := by
  rw [core_mode_eq, Spec.modeSpecV, allNums_map_num]

/-- an item that is not a number makes `mode` null -/
theorem core_mode_non_number (xs : List Value) (h : Spec.allNums xs = none) : core_mode xs = .ok .null := by
  rw [core_mode_eq, Spec.modeSpecV, h]

example : Spec.allNums [.num ⟨false, 1, 0⟩, .null] = none := rfl

/-- `Spec.mode` is strictly ascending: no value is repeated, in any spelling. -/
theorem mode_ascending (ds : List Dec) : (Spec.mode ds).Pairwise (fun a b => Dec.cmp a b = .lt) :=
  mode_strictly_ascending ds

/-- The members of `Spec.mode ds`: `d` is the first item of `ds` with its value (`1.0` stands for
`[1.0, 1, 1.00]`) and no value of `ds` occurs more often. -/
theorem mem_mode_iff (ds : List Dec) (d : Dec) :
    d ∈ Spec.mode ds ↔ (ds.filter (fun x => Spec.numEq x d)).head? = some d ∧
      ∀ e ∈ ds, Spec.occurrences ds e ≤ Spec.occurrences ds d := by
  rw [mem_mode_iff', mem_firstSpellings_iff, occursMost_iff]
  rfl

/-- These two facts determine the list: `Spec.mode` does not depend on how "ascending" is
computed. -/
theorem mode_unique (ds r : List Dec) (hasc : r.Pairwise (fun a b => Dec.cmp a b = .lt))
    (hmem : ∀ d, d ∈ r ↔ (ds.filter (fun x => Spec.numEq x d)).head? = some d ∧
      ∀ e ∈ ds, Spec.occurrences ds e ≤ Spec.occurrences ds d) : r = Spec.mode ds :=
  eq_of_strictly_ascending hasc (mode_strictly_ascending ds) (fun d => by rw [hmem d, mem_mode_iff])

example : Spec.mode [⟨false, 10, -1⟩, ⟨false, 2, 0⟩, ⟨false, 1, 0⟩, ⟨true, 5, 0⟩, ⟨false, 20, -1⟩]
    = [⟨false, 10, -1⟩, ⟨false, 2, 0⟩] := by decide

/-- `median(list)` in closed form: with `s` the stable ascending arrangement of the numbers (a
permutation, ascending, every value's spellings in their original order — unique by
`stable_sort_unique`), the middle item for an odd count, the rounded mean of the two middle items for
an even count. (`core_median_spec` above is the equation on the whole argument space.) -/
theorem core_median_closed_form (ds : List Dec) (hne : ds ≠ []) :
    ∃ s : List Dec, s.Perm ds ∧ s.Pairwise (fun a b => Dec.cmp a b ≠ .gt) ∧
      (∀ d, s.filter (fun x => Spec.numEq x d) = ds.filter (fun x => Spec.numEq x d)) ∧
      (ds.length % 2 = 1 → ∃ m, s[ds.length / 2]? = some m ∧ core_median (ds.map .num) = .ok (.num m)) ∧
      (ds.length % 2 = 0 → ∃ a b, s[ds.length / 2 - 1]? = some a ∧ s[ds.length / 2]? = some b ∧
        core_median (ds.map .num) = .ok (.num (Dec.divR (Dec.addR a b) ⟨false, 2, 0⟩))) :=
  median_closed_form ds hne

example : ([⟨false, 1, 0⟩] : List Dec) ≠ [] := by simp

/-- `stddev(list)` on the whole argument space: the sample standard deviation
`sqrt (Σ (xᵢ − mean)² / (n − 1))`, `mean = Σ xᵢ / n`, every operation the rounded `FeelNumber`
operation and the sums taken from the left (`Spec.stddev`); null for fewer than two items or an
item that is not a number. -/
theorem core_stddev_spec (xs : List Value) : core_stddev xs = .ok (Spec.stddevV xs) := core_stddev_eq xs

/-- … on lists of at least two numbers -/
theorem core_stddev_numbers (ds : List Dec) (h : 2 ≤ ds.length) :
    core_stddev (ds.map .num) = .ok (.num (Spec.stddev ds)) := by
  rw [core_stddev_eq, Spec.stddevV, if_neg (by rw [List.length_map]; omega), allNums_map_num]

example : 2 ≤ ([⟨false, 1, 0⟩, ⟨false, 3, 0⟩] : List Dec).length := by decide

/-- … null for fewer than two items -/
theorem core_stddev_short (xs : List Value) (h : xs.length < 2) : core_stddev xs = .ok .null := by
  rw [core_stddev_eq, Spec.stddevV, if_pos h]

example : ([.num ⟨false, 1, 0⟩] : List Value).length < 2 := by decide

/-- Exactness: when every intermediate result is an integer below `10^34` no operation rounds.
Integer items of magnitude at most `M` (`1 ≤ M`, `n · 4M² < 10^34`) whose mean is an integer `m` and
whose sum of squared deviations is `r² · (n − 1)`: `stddev` returns the integer `r` (a number with
a non-negative exponent whose value is `r`; numerically equal to the literal `r`).  The rounded
sum, difference, product, quotient and square root of `FeelNumber` are exact on such operands
(`addR_rep`, `subR_rep`, `mulR_rep`, `divR_rep`, `sqrtR_rep` of `Lemmas/BifsStatsExact*.lean`). -/
theorem core_stddev_exact_integers (zs : List Int) (m : Int) (r M : Nat) (hn : 2 ≤ zs.length)
    (hM1 : 1 ≤ M) (hM : ∀ z ∈ zs, z.natAbs ≤ M) (hsize : zs.length * (4 * M * M) < 10 ^ 34)
    (hmean : zs.sum = m * zs.length)
    (hvar : (zs.map (fun z => (z - m) * (z - m))).sum = ((r * r : Nat) : Int) * ((zs.length : Int) - 1)) :
    ∃ d : Dec, core_stddev ((zs.map Dec.ofInt).map .num) = .ok (.num d) ∧
      0 ≤ d.exp ∧ d.scoeff * 10 ^ d.exp.toNat = (r : Int) ∧ Dec.cmp d (Dec.ofNat r) = .eq := by
  have h := stddev_exact_rep zs m r M hn hM1 hM hsize hmean hvar
  exact ⟨_, core_stddev_numbers _ (by rw [List.length_map]; exact hn), h.1, h.2, rep_cmp_eq h⟩

-- stddev(3, 5, 7) = 2
example : ∃ d : Dec, core_stddev (([3, 5, 7] : List Int).map Dec.ofInt |>.map .num) = .ok (.num d) ∧
    0 ≤ d.exp ∧ d.scoeff * 10 ^ d.exp.toNat = ((2 : Nat) : Int) ∧ Dec.cmp d (Dec.ofNat 2) = .eq :=
  core_stddev_exact_integers [3, 5, 7] 5 2 7 (by decide) (by decide) (by decide) (by norm_num) (by decide) (by decide)

/-- `sort(list, precedes)`: for EVERY ordering function `lt` (the evaluated function value, taken
as an oracle) that is a strict weak order on the items of the list — nothing is asked of it on
other values, where a FEEL comparison is null — the merge sort of `core::sort` returns a
permutation of the list in which no item precedes an earlier one and the items of equal rank
keep their order: the sort is stable. -/
theorem core_sort_stable_spec {α : Type} (lt : α → α → Bool) (xs : List α)
    (h : Spec.StrictWeakOrderOn lt xs) : Spec.StableSortOf lt xs (mergeSort lt xs) := by
  have hm := mergeSort_map Subtype.val lt xs.attach
  rw [List.attach_map_subtype_val] at hm
  rw [← hm]
  exact stableSortOf_of_attach _ (mergeSort_stable (ltOn lt xs) (ltOn_asym h) (ltOn_negtrans h) xs.attach)

example : Spec.StrictWeakOrderOn (fun (a b : Nat) => decide (a < b)) [3, 1, 2, 1] :=
  ⟨by decide, by decide, by decide, by decide⟩

/-- A list has only one stable arrangement: `core_sort_stable_spec` determines the result. -/
theorem stable_sort_unique {α : Type} (lt : α → α → Bool) (xs r r' : List α)
    (hirr : ∀ a ∈ xs, lt a a = false)
    (h : Spec.StableSortOf lt xs r) (h' : Spec.StableSortOf lt xs r') : r = r' :=
  stableSortOf_unique lt xs r r' hirr h h'

example : ∀ a ∈ [3, 1, 2, 1], (fun (a b : Nat) => decide (a < b)) a a = false := by decide

/-- The executable form of the two theorems above is the law `sort_law` of
`harness/src/c08.rs` ("the stable arrangement under the direct-invocation relation"): it tests the
four conditions of `Spec.StrictWeakOrderOn` on the table of the implementation's own answers
`f(i, j)` and builds `Spec.stableArrangement` (each item behind those placed before it, moved left
past the items it precedes).  Whenever the conditions hold, that list is what `core::sort`
returns. -/
theorem core_sort_eq_stable_arrangement {α : Type} (lt : α → α → Bool) (xs : List α)
    (h : Spec.StrictWeakOrderOn lt xs) : mergeSort lt xs = Spec.stableArrangement lt xs := by
  apply stableSortOf_unique lt xs _ _ h.irrefl (core_sort_stable_spec lt xs h)
  have hm := stableArrangement_map Subtype.val lt xs.attach
  rw [List.attach_map_subtype_val] at hm
  rw [← hm]
  exact stableSortOf_of_attach _ (stableArrangement_stable (ltOn lt xs) (ltOn_asym h) (ltOn_negtrans h) xs.attach)

example : mergeSort (fun (a b : Nat × Nat) => decide (a.1 < b.1)) [(3, 0), (1, 1), (2, 2), (1, 3)]
    = [(1, 1), (1, 3), (2, 2), (3, 0)] := by
  simp [mergeSort, mergeSortFuel, merge]


/-! ## 7. The built-ins that take any number of arguments (regenerated table `positional`)

What each of them hands to its `core::` function, for EVERY argument tuple — stated about the rows
`translate/dispatch.py` regenerates from `positional.rs` on every run, so a change of an arm breaks the statement.
Only the aggregates read a single list argument as the list of their items; `concatenate`, `union` and `append`
take every argument as it is (a single list of lists is ONE list: `concatenate([[1],[2]])` = `[[1],[2]]`). -/

/-- the aggregates: no argument is outside the domain, one list stands for its items, anything else (one item
that is not a list, several arguments — lists among them) is the list of the arguments themselves -/
def aggregateArgs (core : Core) (f : String) : List Value → Option (Outcome Value)
  | [] => nullR
  | [.list xs] => core f [.vs xs]
  | args => core f [.vs args]

/-- `concatenate`, `union`: the arguments as they are -/
def listsArgs (core : Core) (f : String) : List Value → Option (Outcome Value)
  | [] => nullR
  | args => core f [.vs args]

/-- `append`: the list, then the items (at least one) -/
def appendArgs (core : Core) : List Value → Option (Outcome Value)
  | a :: b :: rest => core "append" [.v a, .vs (b :: rest)]
  | _ => nullR

/-- `stddev`: as the aggregates, except that a single argument must be a list -/
def stddevArgs (core : Core) : List Value → Option (Outcome Value)
  | [] => nullR
  | [.list xs] => core "stddev" [.vs xs]
  | [_] => nullR
  | args => core "stddev" [.vs args]

theorem callPositional_of_row (core : Core) (name : String) (args : List Value) (p : PosRow)
    (h : (rowsOf name).map Prod.fst = some p) : callPositional core name args = evalPositional core p args := by
  unfold callPositional
  cases hr : rowsOf name with
  | none => simp [hr] at h
  | some pn =>
    obtain ⟨p', n⟩ := pn
    simp only [hr, Option.map_some, Option.some.injEq] at h
    subst h
    rfl

theorem aggregate_row_eval (core : Core) (variant f : String) (args : List Value) :
    evalPositional core ⟨variant, [(.exactly 0, .null),
      (.exactly 1, .ifList 0 (.call ⟨f, [.itemsOf 0]⟩) (.call ⟨f, [.slice 0]⟩)),
      (.atLeast 0, .call ⟨f, [.slice 0]⟩)]⟩ args = aggregateArgs core f args := by
  match args with
  | [] => rfl
  | [a] =>
    cases a <;> simp [evalPositional, PosRow.resolve, Arity.accepts, PBody.resolve, isList, PArg.inst, aggregateArgs]
  | a :: b :: rest =>
    simp [evalPositional, PosRow.resolve, Arity.accepts, PBody.resolve, PArg.inst, aggregateArgs]

theorem lists_row_eval (core : Core) (variant f : String) (args : List Value) :
    evalPositional core ⟨variant, [(.exactly 0, .null), (.atLeast 0, .call ⟨f, [.slice 0]⟩)]⟩ args
      = listsArgs core f args := by
  match args with
  | [] => rfl
  | a :: rest =>
    simp [evalPositional, PosRow.resolve, Arity.accepts, PBody.resolve, PArg.inst, listsArgs]

/-- For every argument tuple, `all any max mean median min mode sum` pass `aggregateArgs`, `stddev` passes
`stddevArgs`, `concatenate` and `union` pass the arguments as they are, `append` the list and then the items. -/
theorem variadic_dispatch (core : Core) (args : List Value) :
    (∀ f ∈ ["all", "any", "max", "mean", "median", "min", "mode", "sum"],
      callPositional core f args = aggregateArgs core f args) ∧
    (∀ f ∈ ["concatenate", "union"], callPositional core f args = listsArgs core f args) ∧
    callPositional core "append" args = appendArgs core args ∧
    callPositional core "stddev" args = stddevArgs core args := by
  refine ⟨?_, ?_, ?_, ?_⟩
  · intro f hf
    simp only [List.mem_cons, List.mem_nil_iff, or_false] at hf
    rcases hf with rfl | rfl | rfl | rfl | rfl | rfl | rfl | rfl <;>
      (rw [callPositional_of_row core _ args _ (by rfl)]; exact aggregate_row_eval core _ _ args)
  · intro f hf
    simp only [List.mem_cons, List.mem_nil_iff, or_false] at hf
    rcases hf with rfl | rfl <;>
      (rw [callPositional_of_row core _ args _ (by rfl)]; exact lists_row_eval core _ _ args)
  · rw [callPositional_of_row core _ args _ (by rfl)]
    match args with
    | [] => rfl
    | [a] => simp [evalPositional, PosRow.resolve, Arity.accepts, PBody.resolve, appendArgs, nullR]
    | a :: b :: rest =>
      simp [evalPositional, PosRow.resolve, Arity.accepts, PBody.resolve, PArg.inst, appendArgs]
  · rw [callPositional_of_row core _ args _ (by rfl)]
    match args with
    | [] => rfl
    | [a] =>
      cases a <;> simp [evalPositional, PosRow.resolve, Arity.accepts, PBody.resolve, isList, PArg.inst, stddevArgs, nullR]
    | a :: b :: rest =>
      simp [evalPositional, PosRow.resolve, Arity.accepts, PBody.resolve, PArg.inst, stddevArgs]

/-- A single argument that is a list of lists is one list for `concatenate` and `union` (and the list of its
items — which are lists — for an aggregate). -/
theorem single_list_of_lists (core : Core) (xss : List Value) :
    callPositional core "concatenate" [.list xss] = core "concatenate" [.vs [.list xss]] ∧
    callPositional core "union" [.list xss] = core "union" [.vs [.list xss]] ∧
    callPositional core "sum" [.list xss] = core "sum" [.vs xss] := by
  obtain ⟨h1, h2, _, _⟩ := variadic_dispatch core [.list xss]
  exact ⟨h2 _ (by simp), h2 _ (by simp), h1 _ (by simp)⟩

example : callPositional (core .checked) "concatenate" [.list [.list [n1 1], .list [n1 2]]]
    = some (.ok (.list [.list [n1 1], .list [n1 2]])) := by rfl

/-! ## `number`: the reader of the code on the FEEL numeric literals -/

/-- The reader behind `number` (`decQuadFromString`, lenient: exponents, a plus sign, a trailing point - finding
F25) gives EVERY text that is a FEEL numeric literal with an optional minus sign the number the specification gives
it: same sign, digits, exponent and rounding to 34 digits.  (The converse fails: `1e3` is read, F25.) -/
theorem parseNumber_of_feel_literal (cs : List Char) (d : Dec) (h : Spec.parseFeelNumber cs = some d) :
    parseNumber cs = some d := parseNumber_of_feel_literal' cs d h

/-- `number(text)` without separators: on every text that is a FEEL numeric literal the code returns the specified
number. -/
theorem core_number_literal_spec (text : String) (d : Dec) (h : Spec.parseFeelNumber text.toList = some d) :
    core_number (.str text) .null .null = .ok (Spec.numberV (.str text) .null .null) ∧
    core_number (.str text) .null .null = .ok (.num d) := by
  have h2 := parseNumber_of_feel_literal _ _ h
  constructor <;> simp [core_number, numberValue, Spec.numberV, h, h2]

example : ∃ d, Spec.parseFeelNumber ['-', '1', '.', '5'] = some d := ⟨_, rfl⟩

/-! ### `number` with grouping and decimal separators: the whole argument space

`core::number` checks the kinds of the separators, removes the grouping separator (`str::replace`), writes the decimal
separator as a period and hands the text to the reader.  Everything but the reader is the specification, for EVERY
argument triple; the reader accepts every FEEL literal with the specified value (`parseNumber_of_feel_literal`) and
more (finding F25). -/

/-- `text.replace(g, "")` / `text.replace(d, ".")` for a one-character separator, at character level: exactly the
characters equal to the separator are removed / rewritten, whatever the text. -/
theorem separator_replace_chars (g d : Char) (cs : List Char) :
    replaceAllChars [g] [] cs = cs.filter (fun c => c != g) ∧
    replaceAllChars [d] ['.'] cs = cs.map (fun c => if c = d then '.' else c) :=
  ⟨replaceAllChars_remove g cs, replaceAllChars_map d '.' cs⟩

/-- `number(from, grouping separator, decimal separator)` for ALL argument values: the code is the specification
`Spec.numberV` with its own reader in the place of the FEEL literal grammar (`Spec.numberV` is, by definition,
`Spec.numberWith Spec.parseFeelNumber`): same domain of the separators (a string among `" " . ,` / `. ,` or null,
not both the same), same removal and rewriting of characters, null for a text the reader rejects. -/
theorem core_number_reader_spec (a b c : Value) :
    core_number a b c = .ok (Spec.numberWith parseNumber a b c) ∧
    Spec.numberV a b c = Spec.numberWith Spec.parseFeelNumber a b c := by
  refine ⟨?_, rfl⟩
  simp only [core_number, numberValue_eq]

/-- Whenever the specification gives a number, the code gives that number - for every text, every grouping and
every decimal separator. -/
theorem core_number_spec_of_number (a b c : Value) (d : Dec) (h : Spec.numberV a b c = .num d) :
    core_number a b c = .ok (.num d) := by
  rw [(core_number_reader_spec a b c).1]
  exact congrArg Outcome.ok (numberWith_mono _ _ parseNumber_of_feel_literal a b c d h)

-- number("1 234,5", " ", ",") = 1234.5
example : Spec.numberV (.str "1 234,5") (.str " ") (.str ",") = .num ⟨false, 12345, -1⟩ := by rfl

/-- … and where the code gives null the specification gives null: a separator of the wrong kind, the same separator
twice, a text that is no number. -/
theorem core_number_null_spec (a b c : Value) (h : core_number a b c = .ok .null) : Spec.numberV a b c = .null := by
  cases hs : Spec.numberV a b c with
  | num d => rw [core_number_spec_of_number a b c d hs] at h; cases h
  | null => rfl
  | _ => exact absurd hs (by
      unfold Spec.numberV
      dsimp only
      split
      · split
        · simp
        · split <;> simp
      · simp)

example : core_number (.str "1.234,5") (.str ".") (.str ".") = .ok .null := by rfl

-- FULL STATEMENT (not provable of the current code, finding F25):
--   ∀ a b c, core_number a b c = .ok (Spec.numberV a b c)
/-- F25: the reader of the code accepts texts that are no FEEL numeric literal (an exponent, a plus sign, a trailing
period); `number("1e3", null, null)` is 1000, the specification says null. -/
theorem core_number_counterexample :
    core_number (.str "1e3") .null .null = .ok (.num ⟨false, 1, 3⟩) ∧ Spec.numberV (.str "1e3") .null .null = .null := by
  constructor <;> rfl

/-! ## `string`: the printed form of every value kind of the model

`core::string` returns null for null, the string itself for a string and `to_feel_string()` for everything else.
Numbers are written by `Display for FeelNumber`, the printer of property C07: the model takes `D128.plainSpec`, the
text that printer is PROVED to produce (`D128.plain_total`), so `string(n)` is tied to the C07 model by a theorem, not by
a second transcription.  Lists and contexts are written item by item (`feelString`), a string item quoted with its
quotation marks escaped, a null item as `null`; temporal values, ranges and functions stay outside (C14 prints the
temporal values; `core_string` is `none` on them and the correspondence skips them). -/

/-- null, strings and booleans -/
theorem core_string_scalars :
    core_string .null = some (.ok .null) ∧ (∀ s, core_string (.str s) = some (.ok (.str s))) ∧
    core_string (.bool true) = some (.ok (.str "true")) ∧ core_string (.bool false) = some (.ok (.str "false")) :=
  ⟨rfl, fun _ => rfl, by rfl, by rfl⟩

/-- `string(n)` for every number: what the C07 printer model `D128.plain` prints, which is the plain rendering
`D128.plainSpec` (sign, digits, period; never an exponent; trailing zeros kept). -/
theorem core_string_number (d : Dec) (hwf : D128.WF ⟨d.neg, d.coeff, d.exp⟩) :
    core_string (.num d) = (D128.plain ⟨d.neg, d.coeff, d.exp⟩).map (fun t => .ok (Spec.strV t)) ∧
    core_string (.num d) = some (.ok (Spec.strV (D128.plainSpec ⟨d.neg, d.coeff, d.exp⟩))) := by
  rw [D128.plain_eq _ hwf]
  constructor <;> rfl


/-- how an item of a list or an entry of a context is written -/
theorem feelString_item :
    feelString .null = some ['n', 'u', 'l', 'l'] ∧
    feelString (.bool true) = some ['t', 'r', 'u', 'e'] ∧ feelString (.bool false) = some ['f', 'a', 'l', 's', 'e'] ∧
    (∀ d, feelString (.num d) = some (D128.plainSpec ⟨d.neg, d.coeff, d.exp⟩)) ∧
    (∀ s, feelString (.str s) = some ('"' :: s.toList.flatMap (fun c => if c = '"' then ['\\', '"'] else [c]) ++ ['"'])) := by
  refine ⟨by rfl, by rfl, by rfl, fun _ => rfl, fun s => ?_⟩
  simp [feelString, quote]

/-- `string(list)`: the items as `feelString` writes them, separated by `, `, in brackets - for every list all of whose
items have a text (`List.Forall₂`: item by item, in order). -/
theorem core_string_list (vs : List Value) (xs : List (List Char))
    (h : List.Forall₂ (fun v x => feelString v = some x) vs xs) :
    core_string (.list vs) = some (.ok (Spec.strV ('[' :: List.intercalate [',', ' '] xs ++ [']']))) := by
  have := (feelStringItems_iff vs xs).mpr h
  simp [core_string, stringValue, feelString, this, joinSep_eq_intercalate, Spec.strV]

/-- `string(context)`: `key: value` for every entry in the order of the keys, separated by `, `, in braces. -/
theorem core_string_context (es : List (String × Value)) (xs : List (List Char))
    (h : List.Forall₂ (fun e x => ∃ t, feelString e.2 = some t ∧ x = feelKey e.1 ++ [':', ' '] ++ t) es xs) :
    core_string (.ctx es) = some (.ok (Spec.strV ('{' :: List.intercalate [',', ' '] xs ++ ['}']))) := by
  have := (feelStringEntries_iff es xs).mpr h
  simp [core_string, stringValue, feelString, this, joinSep_eq_intercalate, Spec.strV]

example : D128.WF ⟨true, 150, -2⟩ := by decide

example : List.Forall₂ (fun v x => feelString v = some x) [.num ⟨true, 150, -2⟩, .null] ["-1.50".toList, "null".toList] :=
  .cons rfl (.cons rfl .nil)

example : core_string (.list [.num ⟨true, 150, -2⟩, .str "a\"b", .null, .list [.bool true]])
    = some (.ok (.str "[-1.50, \"a\\\"b\", null, [true]]")) := by rfl

end Bif
end Dmn
