import Dmn.Lemmas.FType
import Dmn.Model.Coerce

/-!
# C16 — type conformance is a preorder; coercion yields a conforming value or null

Theorems about `Dmn.FType.equiv` / `Dmn.FType.conf` (the models of
`FeelType::is_equivalent` / `FeelType::is_conformant`).  All statements are for
every type of every depth and arity; `WF` is the `BTreeMap` invariant
(distinct keys in every context type), which every `FeelType` value satisfies.
-/

namespace Dmn.FType

/-! ## equivalence -/

theorem equiv_refl : ∀ a : FType, WF a → equiv a a = true := by
  intro a
  induction a using FType.ind with
  | list t ih => intro h; simpa [equiv] using ih h
  | range t ih => intro h; simpa [equiv] using ih h
  | ctx es ih =>
    intro h
    simp only [WF] at h
    simp only [equiv, beq_self_eq_true, Bool.true_and, equivEntries_iff]
    intro e he
    exact ⟨e.2, lookup_of_mem h.1 he, ih e he (WFEntries_mem h.2 e he)⟩
  | fn ps r ihp ihr =>
    intro h
    simp only [WF] at h
    simp only [equiv, beq_self_eq_true, Bool.true_and, Bool.and_eq_true]
    refine ⟨(equivParams_iff rfl).mpr ?_, ihr h.2⟩
    intro i h1 _
    exact ihp _ (List.getElem_mem h1) (WFList_mem h.1 _ (List.getElem_mem h1))
  | _ => intro _; simp [equiv]

theorem equiv_symm : ∀ a b : FType, WF a → WF b → equiv a b = true → equiv b a = true := by
  intro a
  induction a using FType.ind with
  | list t ih =>
    intro b wa wb h
    cases b <;> simp [equiv] at h ⊢
    exact ih _ wa wb h
  | range t ih =>
    intro b wa wb h
    cases b <;> simp [equiv] at h ⊢
    exact ih _ wa wb h
  | ctx es ih =>
    intro b wa wb h
    cases b with
    | ctx fs =>
      simp only [WF] at wa wb
      simp only [equiv, Bool.and_eq_true, beq_iff_eq, equivEntries_iff] at h ⊢
      obtain ⟨hl, he⟩ := h
      refine ⟨hl.symm, ?_⟩
      intro f hf
      -- the key of `f` occurs in `es` (pigeonhole)
      have sub : es.map Prod.fst ⊆ fs.map Prod.fst := by
        intro k hk
        obtain ⟨e, he1, rfl⟩ := List.mem_map.mp hk
        obtain ⟨u, hu, _⟩ := he e he1
        exact lookup_isSome_iff.mp ⟨u, hu⟩
      have sup := keys_subset_symm wa.1 (by simpa using hl) sub
      have hk : f.1 ∈ es.map Prod.fst := sup (List.mem_map.mpr ⟨f, hf, rfl⟩)
      obtain ⟨e, he1, hek⟩ := List.mem_map.mp hk
      obtain ⟨u, hu, heq⟩ := he e he1
      have hfu : lookup fs f.1 = some f.2 := lookup_of_mem wb.1 hf
      rw [← hek] at hfu
      rw [hu] at hfu
      cases hfu
      refine ⟨e.2, ?_, ?_⟩
      · rw [← hek]; exact lookup_of_mem wa.1 he1
      · exact ih e he1 _ (WFEntries_mem wa.2 e he1) (WFEntries_mem wb.2 f hf) heq
    | _ => simp [equiv] at h
  | fn ps r ihp ihr =>
    intro b wa wb h
    cases b with
    | fn qs s =>
      simp only [WF] at wa wb
      simp only [equiv, Bool.and_eq_true, beq_iff_eq] at h ⊢
      obtain ⟨hl, hp, hr⟩ := h
      refine ⟨hl.symm, (equivParams_iff hl.symm).mpr ?_, ihr _ wa.2 wb.2 hr⟩
      intro i h1 h2
      exact ihp _ (List.getElem_mem h2) _ (WFList_mem wa.1 _ (List.getElem_mem h2))
        (WFList_mem wb.1 _ (List.getElem_mem h1)) ((equivParams_iff hl).mp hp i h2 h1)
    | _ => simp [equiv] at h
  | _ => intro b _ _ h; cases b <;> simp [equiv] at h ⊢

theorem equiv_trans : ∀ a b c : FType, equiv a b = true → equiv b c = true → equiv a c = true := by
  intro a
  induction a using FType.ind with
  | list t ih =>
    intro b c h1 h2
    cases b <;> simp [equiv] at h1
    cases c <;> simp [equiv] at h2 ⊢
    exact ih _ _ h1 h2
  | range t ih =>
    intro b c h1 h2
    cases b <;> simp [equiv] at h1
    cases c <;> simp [equiv] at h2 ⊢
    exact ih _ _ h1 h2
  | ctx es ih =>
    intro b c h1 h2
    cases b with
    | ctx fs =>
      cases c with
      | ctx gs =>
        simp only [equiv, Bool.and_eq_true, beq_iff_eq, equivEntries_iff] at h1 h2 ⊢
        refine ⟨h1.1.trans h2.1, ?_⟩
        intro e he
        obtain ⟨u, hu, heu⟩ := h1.2 e he
        obtain ⟨w, hw, huw⟩ := h2.2 (e.1, u) (lookup_mem hu)
        exact ⟨w, hw, ih e he _ _ heu huw⟩
      | _ => simp [equiv] at h2
    | _ => simp [equiv] at h1
  | fn ps r ihp ihr =>
    intro b c h1 h2
    cases b with
    | fn qs s =>
      cases c with
      | fn rs t =>
        simp only [equiv, Bool.and_eq_true, beq_iff_eq] at h1 h2 ⊢
        obtain ⟨l1, p1, r1⟩ := h1
        obtain ⟨l2, p2, r2⟩ := h2
        refine ⟨l1.trans l2, (equivParams_iff (l1.trans l2)).mpr ?_, ihr _ _ r1 r2⟩
        intro i hi1 hi3
        have hi2 : i < qs.length := by omega
        exact ihp _ (List.getElem_mem hi1) _ _ ((equivParams_iff l1).mp p1 i hi1 hi2)
          ((equivParams_iff l2).mp p2 i hi2 hi3)
      | _ => simp [equiv] at h2
    | _ => simp [equiv] at h1
  | _ =>
    intro b c h1 h2
    cases b <;> simp [equiv] at h1
    cases c <;> simp [equiv] at h2 ⊢

/-! ## conformance: elementary facts -/

theorem equiv_conf (a b : FType) (h : equiv a b = true) : conf a b = true := by
  rw [conf.eq_def]; simp [h]

theorem conf_refl (a : FType) (wa : WF a) : conf a a = true :=
  equiv_conf a a (equiv_refl a wa)

theorem conf_any (a : FType) : conf a .any = true := by
  rw [conf.eq_def]; cases a <;> simp [equiv]

theorem null_conf (b : FType) : conf .null b = true := by
  rw [conf.eq_def]; cases b <;> simp [equiv]

/-- Equivalent types conform to each other in both directions. -/
theorem equiv_conf_both (a b : FType) (wa : WF a) (wb : WF b) (h : equiv a b = true) :
    conf a b = true ∧ conf b a = true :=
  ⟨equiv_conf a b h, equiv_conf b a (equiv_symm a b wa wb h)⟩

/-! ## conformance is structural (covariance / contravariance) -/

/-- `list<a>` conforms to `list<b>` exactly when `a` conforms to `b`. -/
theorem list_covariant (a b : FType) : conf (.list a) (.list b) = conf a b := by
  rw [conf.eq_def]
  by_cases h : equiv a b = true
  · simp [equiv, h, equiv_conf a b h]
  · simp [equiv, h]

/-- `range<a>` conforms to `range<b>` exactly when `a` conforms to `b`. -/
theorem range_covariant (a b : FType) : conf (.range a) (.range b) = conf a b := by
  rw [conf.eq_def]
  by_cases h : equiv a b = true
  · simp [equiv, h, equiv_conf a b h]
  · simp [equiv, h]

/-- A context type conforms to another exactly when it has every entry of the other,
at a conforming type (width and depth subtyping). -/
theorem context_covariant (ea eb : List (String × FType)) (wa : WF (.ctx ea)) (wb : WF (.ctx eb)) :
    conf (.ctx ea) (.ctx eb) = true ↔
      ∀ e ∈ eb, ∃ ta, lookup ea e.1 = some ta ∧ conf ta e.2 = true := by
  rw [conf.eq_def]
  by_cases h : equiv (.ctx ea) (.ctx eb) = true
  · simp only [h, if_true, true_iff]
    have h' := equiv_symm _ _ wa wb h
    simp only [equiv, Bool.and_eq_true, beq_iff_eq, equivEntries_iff] at h'
    simp only [WF] at wa wb
    intro e he
    obtain ⟨ta, hta, heq⟩ := h'.2 e he
    refine ⟨ta, hta, equiv_conf _ _ ?_⟩
    exact equiv_symm _ _ (WFEntries_mem wb.2 e he) (WFEntries_mem wa.2 _ (lookup_mem hta)) heq
  · simp only [h]
    simpa using confEntries_iff

/-- Function types: same arity, parameters contravariant, result covariant. -/
theorem fn_conf_iff (pa pb : List FType) (ra rb : FType) (wa : WF (.fn pa ra)) (wb : WF (.fn pb rb)) :
    conf (.fn pa ra) (.fn pb rb) = true ↔
      pa.length = pb.length ∧
      (∀ i (h1 : i < pa.length) (h2 : i < pb.length), conf pb[i] pa[i] = true) ∧
      conf ra rb = true := by
  rw [conf.eq_def]
  by_cases h : equiv (.fn pa ra) (.fn pb rb) = true
  · simp only [h, if_true, true_iff]
    simp only [WF] at wa wb
    simp only [equiv, Bool.and_eq_true, beq_iff_eq] at h
    obtain ⟨hl, hp, hr⟩ := h
    refine ⟨hl, ?_, equiv_conf _ _ hr⟩
    intro i h1 h2
    apply equiv_conf
    exact equiv_symm _ _ (WFList_mem wa.1 _ (List.getElem_mem h1))
      (WFList_mem wb.1 _ (List.getElem_mem h2)) ((equivParams_iff hl).mp hp i h1 h2)
  · simp only [h]
    by_cases hl : pa.length = pb.length
    · simp [hl, confParams_iff hl]
    · simp [hl]

theorem fn_result_covariant (ps : List FType) (ra rb : FType)
    (wa : WF (.fn ps ra)) (wb : WF (.fn ps rb)) :
    conf (.fn ps ra) (.fn ps rb) = conf ra rb := by
  have h := fn_conf_iff ps ps ra rb wa wb
  have hp : ∀ i (h1 : i < ps.length) (h2 : i < ps.length), conf ps[i] ps[i] = true := by
    intro i h1 _
    simp only [WF] at wa
    exact conf_refl _ (WFList_mem wa.1 _ (List.getElem_mem h1))
  cases hc : conf ra rb with
  | true => exact h.mpr ⟨rfl, hp, hc⟩
  | false =>
    cases hf : conf (.fn ps ra) (.fn ps rb) with
    | false => rfl
    | true => have := (h.mp hf).2.2; simp [hc] at this

theorem fn_param_contravariant (p q r : FType) (wp : WF p) (wq : WF q) (wr : WF r) :
    conf (.fn [p] r) (.fn [q] r) = conf q p := by
  have h := fn_conf_iff [p] [q] r r (by simp [WF, WFList, wp, wr]) (by simp [WF, WFList, wq, wr])
  cases hc : conf q p with
  | true =>
    apply h.mpr
    refine ⟨rfl, ?_, conf_refl r wr⟩
    intro i h1 h2
    have : i = 0 := by simpa using h1
    subst this; simpa using hc
  | false =>
    cases hf : conf (.fn [p] r) (.fn [q] r) with
    | false => rfl
    | true =>
      have := (h.mp hf).2.1 0 (by simp) (by simp)
      simp [hc] at this

/-- Function types whose result types are not equivalent are not equivalent — whatever
the number of parameters, including none. -/
theorem fn_result_distinguishes (ps qs : List FType) (r s : FType) (h : equiv r s = false) :
    equiv (.fn ps r) (.fn qs s) = false := by
  simp [equiv, h]

/-! ## inversion at `Any` and `Null` -/

theorem conf_null_right (a : FType) (h : conf a .null = true) : a = .null := by
  rw [conf.eq_def] at h; cases a <;> simp [equiv] at h ⊢

theorem any_conf_left (c : FType) (h : conf .any c = true) : c = .any := by
  rw [conf.eq_def] at h; cases c <;> simp [equiv] at h ⊢

/-! ## transitivity -/

theorem conf_trans : ∀ b a c : FType, WF a → WF b → WF c →
    conf a b = true → conf b c = true → conf a c = true := by
  intro b
  induction b using FType.ind with
  | any =>
    intro a c _ _ _ _ h2
    rw [any_conf_left c h2]; exact conf_any a
  | null =>
    intro a c _ _ _ h1 _
    rw [conf_null_right a h1]; exact null_conf c
  | list t ih =>
    intro a c wa wb wc h1 h2
    cases a with
    | null => exact null_conf c
    | list ta =>
      cases c with
      | any => exact conf_any _
      | list tc =>
        rw [list_covariant] at h1 h2 ⊢
        exact ih _ _ wa wb wc h1 h2
      | _ => rw [conf.eq_def] at h2; simp [equiv] at h2
    | _ => rw [conf.eq_def] at h1; simp [equiv] at h1
  | range t ih =>
    intro a c wa wb wc h1 h2
    cases a with
    | null => exact null_conf c
    | range ta =>
      cases c with
      | any => exact conf_any _
      | range tc =>
        rw [range_covariant] at h1 h2 ⊢
        exact ih _ _ wa wb wc h1 h2
      | _ => rw [conf.eq_def] at h2; simp [equiv] at h2
    | _ => rw [conf.eq_def] at h1; simp [equiv] at h1
  | ctx eb ih =>
    intro a c wa wb wc h1 h2
    cases a with
    | null => exact null_conf c
    | ctx ea =>
      cases c with
      | any => exact conf_any _
      | ctx ec =>
        rw [context_covariant _ _ wa wb] at h1
        rw [context_covariant _ _ wb wc] at h2
        rw [context_covariant _ _ wa wc]
        intro e he
        obtain ⟨tb, htb, hbc⟩ := h2 e he
        obtain ⟨ta, hta, hab⟩ := h1 (e.1, tb) (lookup_mem htb)
        simp only [WF] at wa wb wc
        exact ⟨ta, hta, ih (e.1, tb) (lookup_mem htb) ta e.2
          (WFEntries_mem wa.2 _ (lookup_mem hta)) (WFEntries_mem wb.2 _ (lookup_mem htb))
          (WFEntries_mem wc.2 e he) hab hbc⟩
      | _ => rw [conf.eq_def] at h2; simp [equiv] at h2
    | _ => rw [conf.eq_def] at h1; simp [equiv] at h1
  | fn pb rb ihp ihr =>
    intro a c wa wb wc h1 h2
    cases a with
    | null => exact null_conf c
    | fn pa ra =>
      cases c with
      | any => exact conf_any _
      | fn pc rc =>
        rw [fn_conf_iff _ _ _ _ wa wb] at h1
        rw [fn_conf_iff _ _ _ _ wb wc] at h2
        rw [fn_conf_iff _ _ _ _ wa wc]
        obtain ⟨l1, p1, r1⟩ := h1
        obtain ⟨l2, p2, r2⟩ := h2
        simp only [WF] at wa wb wc
        refine ⟨l1.trans l2, ?_, ihr _ _ wa.2 wb.2 wc.2 r1 r2⟩
        intro i hi1 hi3
        have hi2 : i < pb.length := by omega
        exact ihp _ (List.getElem_mem hi2) _ _ (WFList_mem wc.1 _ (List.getElem_mem hi3))
          (WFList_mem wb.1 _ (List.getElem_mem hi2)) (WFList_mem wa.1 _ (List.getElem_mem hi1))
          (p2 i hi2 hi3) (p1 i hi1 hi2)
      | _ => rw [conf.eq_def] at h2; simp [equiv] at h2
    | _ => rw [conf.eq_def] at h1; simp [equiv] at h1
  | _ =>
    intro a c _ _ _ h1 h2
    cases a <;> (try exact null_conf c) <;> (rw [conf.eq_def] at h1; simp [equiv] at h1) <;>
    cases c <;> (try exact conf_any _) <;> (rw [conf.eq_def] at h2; simp [equiv] at h2) <;>
    exact equiv_conf _ _ (by simp [equiv])

/-! ## non-vacuity: a well-formed three-level chain -/

example :
    WF (.ctx [("a", .list .number), ("b", .fn [.any] .string)]) ∧
    conf (.ctx [("a", .list .number), ("b", .fn [.any] .string)])
         (.ctx [("a", .list .any)]) = true ∧
    conf (.ctx [("a", .list .any)]) (.ctx []) = true := by
  refine ⟨by simp [WF, WFEntries, WFList], ?_, ?_⟩
  · rw [context_covariant _ _ (by simp [WF, WFEntries, WFList]) (by simp [WF, WFEntries])]
    intro e he
    simp at he; subst he
    exact ⟨.list .number, by simp [lookup], by rw [list_covariant]; exact conf_any _⟩
  · rw [context_covariant _ _ (by simp [WF, WFEntries]) (by simp [WF, WFEntries])]
    intro e he; cases he

end Dmn.FType

/-! ## coercion -/

namespace Dmn.ValOps
open Dmn.FType

variable {V : Type} (o : ValOps V)

theorem wrapOk_iff (t tv : FType) : wrapOk t tv = true ↔ ∃ tt, t = .list tt ∧ conf tv tt = true := by
  unfold wrapOk; cases t <;> simp

theorem unwrapOk_iff (t tv : FType) :
    unwrapOk t tv = true ↔ ∃ at', tv = .list at' ∧ conf at' t = true := by
  unfold unwrapOk; cases tv <;> simp

theorem single_iff (v x : V) : single o v = some x ↔ o.asList v = some [x] := by
  unfold single
  split
  · rename_i y hy; simp [hy]
  · rename_i h
    constructor
    · intro h'; cases h'
    · intro h'; exact absurd h' (h x)

/-- The result of a coercion is the value itself, its singleton wrap, the single item
of a singleton list, or null — each under the stated condition. -/
theorem coerced_cases (t : FType) (v : V) :
    (conf (o.typeOf v) t = true ∧ o.coerced t v = v) ∨
    (conf (o.typeOf v) t = false ∧ (∃ tt, t = .list tt ∧ conf (o.typeOf v) tt = true) ∧
        o.coerced t v = o.mkList [v]) ∨
    (conf (o.typeOf v) t = false ∧ (∃ at' x, o.typeOf v = .list at' ∧ conf at' t = true ∧
        o.asList v = some [x] ∧ o.coerced t v = x)) ∨
    o.coerced t v = o.null := by
  by_cases h1 : conf (o.typeOf v) t = true
  · left; exact ⟨h1, by unfold coerced; rw [if_pos h1]⟩
  · right
    have h1' : conf (o.typeOf v) t = false := by simpa using h1
    by_cases h2 : wrapOk t (o.typeOf v) = true
    · left
      exact ⟨h1', (wrapOk_iff _ _).mp h2, by unfold coerced; rw [if_neg h1, if_pos h2]⟩
    · right
      by_cases h3 : unwrapOk t (o.typeOf v) = true
      · obtain ⟨at', hat, hc⟩ := (unwrapOk_iff _ _).mp h3
        cases hs : single o v with
        | none => right; unfold coerced; rw [if_neg h1, if_neg h2, if_pos h3, hs]
        | some x =>
          left
          exact ⟨h1', at', x, hat, hc, (single_iff o v x).mp hs,
            by unfold coerced; rw [if_neg h1, if_neg h2, if_pos h3, hs]⟩
      · right; unfold coerced; rw [if_neg h1, if_neg h2, if_neg h3]

/-- The coerced value always conforms to the target type (null conforms to every type). -/
theorem coerced_conforms (l : Laws o) (t : FType) (v : V) :
    conf (o.typeOf (o.coerced t v)) t = true := by
  rcases coerced_cases o t v with ⟨h, e⟩ | ⟨_, ⟨tt, rfl, h⟩, e⟩ | ⟨_, at', x, hat, hc, hx, e⟩ | e
  · rw [e]; exact h
  · rw [e, l.typeOf_singleton, list_covariant]; exact h
  · rw [e]
    have := l.typeOf_asList_singleton v x hx
    rw [hat] at this
    cases this
    exact hc
  · rw [e, l.typeOf_null]; exact null_conf t

theorem coerced_conforms_or_null (l : Laws o) (t : FType) (v : V) :
    conf (o.typeOf (o.coerced t v)) t = true ∨ o.coerced t v = o.null :=
  Or.inl (coerced_conforms o l t v)

/-- Coercing twice changes nothing. -/
theorem coerced_idem (l : Laws o) (t : FType) (v : V) :
    o.coerced t (o.coerced t v) = o.coerced t v := by
  have h := coerced_conforms o l t v
  generalize o.coerced t v = w at h
  unfold coerced
  simp [h]

/-- The unwrap happens whenever it conforms — also when the target is itself a list type
(`[[1]]` coerced to `list<number>` is `[1]`). -/
theorem coerced_unwraps (t : FType) (v x : V) (at' : FType)
    (h1 : conf (o.typeOf v) t = false) (h2 : wrapOk t (o.typeOf v) = false)
    (ht : o.typeOf v = .list at') (hc : conf at' t = true) (hx : o.asList v = some [x]) :
    o.coerced t v = x := by
  unfold coerced
  have h3 : unwrapOk t (o.typeOf v) = true := (unwrapOk_iff _ _).mpr ⟨at', ht, hc⟩
  have h4 : single o v = some x := (single_iff o v x).mpr hx
  simp [h1, h2, h3, h4]

/-- A value whose type conforms to the target is returned as it is (the first clause of the property's last
sentence, as an equation). -/
theorem coerced_of_conforms (t : FType) (v : V) (h : conf (o.typeOf v) t = true) : o.coerced t v = v := by
  unfold coerced; rw [if_pos h]

example : conf (TV.ops.typeOf (.list [.atom .number])) (.list .any) = true := by
  simp [TV.ops, TV.typeOf, TV.allSame, list_covariant, conf_any]

/-- Coercion is monotone in the target: a value that conforms to `t` is left as it is by the coercion to every
type `t` conforms to (transitivity of conformance; the types are well-formed). -/
theorem coerced_of_conforms_wider (t t' : FType) (v : V) (wv : WF (o.typeOf v)) (wt : WF t) (wt' : WF t')
    (h : conf (o.typeOf v) t = true) (htt : conf t t' = true) : o.coerced t' v = v :=
  coerced_of_conforms o t' v (conf_trans t _ _ wv wt wt' h htt)

/-- … hence coercing to a wider type after coercing to a narrower one changes nothing: a parameter of type
`list<number>` handed on to a parameter of type `list<Any>` keeps the value the first coercion produced (a
singleton wrap included). -/
theorem coerced_then_wider (l : Laws o) (t t' : FType) (v : V) (wr : WF (o.typeOf (o.coerced t v)))
    (wt : WF t) (wt' : WF t') (htt : conf t t' = true) :
    o.coerced t' (o.coerced t v) = o.coerced t v :=
  coerced_of_conforms_wider o t t' _ wr wt wt' (coerced_conforms o l t v) htt

example : WF (TV.ops.typeOf (TV.ops.coerced (.list .number) (.atom .number))) ∧ WF (.list .number) ∧ WF (.list .any) ∧
    conf (.list .number) (.list .any) = true ∧
    TV.ops.coerced (.list .any) (TV.ops.coerced (.list .number) (.atom .number)) = .list [.atom .number] := by
  have h1 : conf .number (.list .number) = false := by simp [conf, equiv]
  have h2 : conf .number .number = true := conf_refl _ (by simp [FType.WF])
  have h3 : conf (.list .number) (.list .any) = true := by rw [list_covariant]; exact conf_any _
  simp [coerced, TV.ops, TV.typeOf, TV.allSame, wrapOk, FType.WF, h1, h2, h3]

/-- The model of `Value::type_of` (`TV.typeOf`) satisfies the three laws the coercion theorems assume, so they hold
of the modelled code without hypotheses: the result conforms, coercing twice changes nothing, and the result is one of
the four cases. -/
theorem coerced_model (t : FType) (v : TV) :
    conf (TV.typeOf (TV.ops.coerced t v)) t = true ∧
    TV.ops.coerced t (TV.ops.coerced t v) = TV.ops.coerced t v ∧
    (conf (TV.typeOf v) t = true → TV.ops.coerced t v = v) :=
  ⟨coerced_conforms TV.ops TV.ops_laws t v, coerced_idem TV.ops TV.ops_laws t v, coerced_of_conforms TV.ops t v⟩

end Dmn.ValOps

/-! ## structural equality of types (`==`, used by `instance of` and `type_of`) -/

namespace Dmn.FType

theorem beqEntries_eq {es : List (String × FType)}
    (ih : ∀ e ∈ es, ∀ b, beq e.2 b = true → e.2 = b) :
    ∀ fs, beqEntries es fs = true → es = fs := by
  induction es with
  | nil =>
    intro fs h
    cases fs with
    | nil => rfl
    | cons f fs => simp [beqEntries] at h
  | cons e es ihes =>
    intro fs h
    obtain ⟨k, t⟩ := e
    cases fs with
    | nil => simp [beqEntries] at h
    | cons f fs =>
      obtain ⟨k', u⟩ := f
      simp only [beqEntries, Bool.and_eq_true, beq_iff_eq] at h
      obtain ⟨⟨hk, ht⟩, hr⟩ := h
      have h1 : t = u := ih (k, t) List.mem_cons_self u ht
      have h2 := ihes (fun e he => ih e (List.mem_cons_of_mem _ he)) fs hr
      subst hk; subst h1; subst h2; rfl

theorem beqList_eq {ps : List FType} (ih : ∀ p ∈ ps, ∀ b, beq p b = true → p = b) :
    ∀ qs, beqList ps qs = true → ps = qs := by
  induction ps with
  | nil =>
    intro qs h
    cases qs with
    | nil => rfl
    | cons q qs => simp [beqList] at h
  | cons p ps ihps =>
    intro qs h
    cases qs with
    | nil => simp [beqList] at h
    | cons q qs =>
      simp only [beqList, Bool.and_eq_true] at h
      have h1 : p = q := ih p List.mem_cons_self q h.1
      have h2 := ihps (fun e he => ih e (List.mem_cons_of_mem _ he)) qs h.2
      subst h1; subst h2; rfl

/-- The derived `PartialEq` of `FeelType` as modelled by `beq` decides equality. -/
theorem beq_eq : ∀ a b : FType, beq a b = true → a = b := by
  intro a
  induction a using FType.ind with
  | list t ih => intro b h; cases b <;> simp [beq] at h; rw [ih _ h]
  | range t ih => intro b h; cases b <;> simp [beq] at h; rw [ih _ h]
  | ctx es ih =>
    intro b h
    cases b <;> simp [beq] at h
    rw [beqEntries_eq ih _ h]
  | fn ps r ihps ihr =>
    intro b h
    cases b <;> simp [beq] at h
    rw [beqList_eq ihps _ h.1, ihr _ h.2]
  | _ => intro b h; cases b <;> simp [beq] at h <;> rfl

theorem beq_refl : ∀ a : FType, beq a a = true := by
  intro a
  induction a using FType.ind with
  | list t ih => simpa [beq] using ih
  | range t ih => simpa [beq] using ih
  | ctx es ih =>
    simp only [beq]
    induction es with
    | nil => simp [beqEntries]
    | cons e es ihes =>
      obtain ⟨k, t⟩ := e
      simp only [beqEntries, Bool.and_eq_true, beq_iff_eq, true_and]
      exact ⟨ih (k, t) List.mem_cons_self, ihes (fun e he => ih e (List.mem_cons_of_mem _ he))⟩
  | fn ps r ihps ihr =>
    simp only [beq, Bool.and_eq_true]
    refine ⟨?_, ihr⟩
    induction ps with
    | nil => simp [beqList]
    | cons p ps ih =>
      simp only [beqList, Bool.and_eq_true]
      exact ⟨ihps p List.mem_cons_self, ih (fun e he => ihps e (List.mem_cons_of_mem _ he))⟩
  | _ => simp [beq]

theorem beq_iff (a b : FType) : beq a b = true ↔ a = b :=
  ⟨beq_eq a b, fun h => h ▸ beq_refl a⟩

end Dmn.FType

/-! ## `instance of` against the conformance relation -/

namespace Dmn.TV
open Dmn.FType

/-- `v instance of T` is never true for a value whose type does not conform to `T`. -/
theorem instanceOf_sound (v : TV) (t : FType) (wv : WF (typeOf v)) (h : instanceOf v t = true) :
    conf (typeOf v) t = true := by
  have key : ∀ u : FType, WF u → (beq t .any || beq u t) = true → conf u t = true := by
    intro u wu h
    rcases Bool.or_eq_true _ _ |>.mp h with h | h
    · rw [beq_eq _ _ h]; exact conf_any _
    · rw [← beq_eq _ _ h]; exact conf_refl _ wu
  cases v with
  | atom k =>
    have key' : (beq t .any || beq t k) = true → conf k t = true := by
      intro h
      rcases Bool.or_eq_true _ _ |>.mp h with h | h
      · rw [beq_eq _ _ h]; exact conf_any _
      · rw [beq_eq _ _ h]; exact conf_refl _ wv
    cases k
    case null =>
      simp only [instanceOf] at h
      rw [beq_eq _ _ h]
      exact null_conf _
    all_goals exact key' h
  | list vs => exact key _ wv h
  | ctx es => exact key _ wv h
  | range lo hi => exact key _ wv h
  | fn ps r => exact key _ wv h

/-- The converse fails: `instance of` compares the types structurally, so a value whose type conforms to `T`
without being equal to it is not an instance of `T` (`[1] instance of list<Any>` is false), and `null` is an
instance of `Null` only although `Null` conforms to every type. -/
theorem instanceOf_not_complete :
    (conf (typeOf (.list [.atom .number])) (.list .any) = true ∧
      instanceOf (.list [.atom .number]) (.list .any) = false) ∧
    (conf (typeOf (.atom .null)) .any = true ∧ instanceOf (.atom .null) .any = false) := by
  refine ⟨⟨?_, ?_⟩, ?_, ?_⟩
  · simp only [typeOf, allSame]; rw [if_pos trivial, list_covariant]; exact conf_any _
  · simp [instanceOf, typeOf, allSame, beq]
  · exact conf_any _
  · simp [instanceOf, beq]

/-- A function value is an instance of a function type exactly when the parameter types and the result type are
the same types, one by one (no contravariance, no covariance: stricter than conformance). -/
theorem instanceOf_fn (ps qs : List FType) (r s : FType) :
    instanceOf (.fn ps r) (.fn qs s) = true ↔ ps = qs ∧ r = s := by
  have : instanceOf (.fn ps r) (.fn qs s) = beq (.fn ps r) (.fn qs s) := by
    simp [instanceOf, typeOf, beq]
  rw [this, beq_iff]
  constructor
  · intro h; cases h; exact ⟨rfl, rfl⟩
  · rintro ⟨rfl, rfl⟩; rfl

example : WF (typeOf (.fn [.number, .list .number] .any)) ∧
    instanceOf (.fn [.number, .list .number] .any) (.fn [.number, .list .number] .any) = true ∧
    instanceOf (.fn [.number, .list .number] .any) (.fn [.list .number, .number] .any) = false := by
  refine ⟨by simp [typeOf, WF, WFList], (instanceOf_fn ..).mpr ⟨rfl, rfl⟩, ?_⟩
  rw [Bool.eq_false_iff]
  intro h
  have := (instanceOf_fn ..).mp h
  simp at this

end Dmn.TV

/-! ## where coercion is applied: every argument by the type of its own parameter -/

namespace Dmn.ValOps
open Dmn.FType

variable {V : Type} (o : ValOps V)

theorem bindLoop_eq_zip : ∀ (ps : List (String × FType)) (args : List V), ps.length ≤ args.length →
    bindLoop o ps args = some (List.zipWith (fun p a => (p.1, o.coerced p.2 a)) ps args)
  | [], _, _ => by simp [bindLoop]
  | _ :: _, [], h => by simp at h
  | (k, t) :: ps, a :: as, h => by
    have := bindLoop_eq_zip ps as (by simpa using h)
    simp [bindLoop, this]

theorem bindLoop_none : ∀ (ps : List (String × FType)) (args : List V), args.length < ps.length →
    bindLoop o ps args = none
  | [], _, h => by simp at h
  | _ :: _, [], _ => by simp [bindLoop]
  | (k, t) :: ps, a :: as, h => by
    have := bindLoop_none ps as (by simpa using h)
    simp [bindLoop, this]

/-- An invocation binds its arguments exactly when there are as many arguments as parameters (otherwise the
result is null), and then parameter `i` is bound to argument `i` coerced to the type of parameter `i` — whatever
the types of the other parameters are. -/
theorem bindPositional_spec (ps : List (String × FType)) (args : List V) :
    bindPositional o ps args =
      if args.length = ps.length then some (List.zipWith (fun p a => (p.1, o.coerced p.2 a)) ps args)
      else none := by
  unfold bindPositional
  by_cases h1 : args.length > ps.length
  · rw [if_pos h1, if_neg (by omega)]
  · rw [if_neg h1]
    by_cases h2 : args.length = ps.length
    · rw [if_pos h2]; exact bindLoop_eq_zip o ps args (by omega)
    · rw [if_neg h2]; exact bindLoop_none o ps args (by omega)

/-- Every bound argument conforms to the declared type of the parameter it is bound to (null conforms to every
type): the body of a function never sees a value outside the declared types. -/
theorem bindPositional_conforms (l : Laws o) (ps : List (String × FType)) (args : List V)
    (bs : List (String × V)) (h : bindPositional o ps args = some bs) :
    List.Forall₂ (fun p b => b.1 = p.1 ∧ conf (o.typeOf b.2) p.2 = true) ps bs := by
  rw [bindPositional_spec] at h
  split at h
  · rename_i hl
    cases h
    induction ps generalizing args with
    | nil => cases args <;> simp_all
    | cons p ps ih =>
      cases args with
      | nil => simp at hl
      | cons a as =>
        simp only [List.zipWith_cons_cons]
        exact List.Forall₂.cons ⟨rfl, coerced_conforms o l _ _⟩ (ih as (by simpa using hl))
  · cases h

/-- `sort` gives the two items under comparison to the ordering function as an invocation with these two
arguments does: the first coerced to the type of the first parameter, the second to the type of the SECOND. -/
theorem sort_binds_as_invocation (p q : String × FType) (x y : V) :
    bindPositional o [p, q] [x, y] = some (sortBindings o p q x y) := by
  rw [bindPositional_spec]; rfl

theorem sortBindings_conform (l : Laws o) (p q : String × FType) (x y : V) :
    List.Forall₂ (fun p b => b.1 = p.1 ∧ conf (o.typeOf b.2) p.2 = true) [p, q] (sortBindings o p q x y) :=
  bindPositional_conforms o l _ _ _ (sort_binds_as_invocation o p q x y)

/-- The value an invocation returns conforms to the declared result type or is null, and is the value of the
body when that conforms. -/
theorem invokeResult_conforms (l : Laws o) (rt : FType) (b : V) :
    conf (o.typeOf (invokeResult o rt b)) rt = true ∧
    (conf (o.typeOf b) rt = true → invokeResult o rt b = b) := by
  refine ⟨coerced_conforms o l rt b, fun h => ?_⟩
  unfold invokeResult coerced
  rw [if_pos h]

/-! ## named arguments of a function value (`eval_function_named`) -/

theorem namedLookup_none : ∀ (args : List (String × V)) (k : String), k ∉ args.map Prod.fst →
    namedLookup args k = none
  | [], _, _ => rfl
  | (n, v) :: rest, k, h => by
    simp only [List.map_cons, List.mem_cons, not_or] at h
    have hn : (n == k) = false := by simpa using fun e => h.1 e.symm
    simp [namedLookup, namedLookup_none rest k h.2, hn]

/-- Of the arguments written with one name the last one is the argument (`BTreeMap::insert` replaces). -/
theorem namedLookup_last_wins (args : List (String × V)) (k : String) (v : V) :
    namedLookup (args ++ [(k, v)]) k = some v := by
  induction args with
  | nil => simp [namedLookup]
  | cons a rest ih => obtain ⟨n, w⟩ := a; simp [namedLookup, ih]

theorem namedLookup_of_nodup : ∀ (args : List (String × V)) (k : String) (v : V),
    (args.map Prod.fst).Nodup → (k, v) ∈ args → namedLookup args k = some v
  | [], _, _, _, h => by simp at h
  | (n, w) :: rest, k, v, hn, h => by
    simp only [List.map_cons, List.nodup_cons] at hn
    rcases List.mem_cons.mp h with e | e
    · obtain ⟨rfl, rfl⟩ := Prod.mk.inj e
      simp [namedLookup, namedLookup_none rest k hn.1]
    · simp [namedLookup, namedLookup_of_nodup rest k v hn.2 e]

theorem namedLookup_mem : ∀ (args : List (String × V)) (k : String) (v : V),
    namedLookup args k = some v → (k, v) ∈ args
  | [], _, _, h => by simp [namedLookup] at h
  | (n, w) :: rest, k, v, h => by
    simp only [namedLookup] at h
    cases hr : namedLookup rest k with
    | some u =>
      rw [hr] at h
      cases h
      exact List.mem_cons_of_mem _ (namedLookup_mem rest k _ hr)
    | none =>
      rw [hr] at h
      by_cases e : (n == k) = true
      · simp only [e, if_true] at h
        cases h
        have : n = k := by simpa using e
        subst this
        exact List.mem_cons_self
      · simp [e] at h

/-- What the loop of `eval_function_named` binds: all parameters or nothing. -/
theorem bindNamedLoop_spec (m : String → Option V) : ∀ (ps : List (String × FType)) (bs : List (String × V)),
    bindNamedLoop o m ps = some bs ↔
      List.Forall₂ (fun p b => b.1 = p.1 ∧ ∃ a, m p.1 = some a ∧ b.2 = o.coerced p.2 a) ps bs
  | [], bs => by
    constructor
    · intro h; simp [bindNamedLoop] at h; subst h; exact List.Forall₂.nil
    · intro h; cases h; rfl
  | (k, t) :: ps, bs => by
    constructor
    · intro h
      simp only [bindNamedLoop] at h
      cases hm : m k with
      | none => rw [hm] at h; cases h
      | some a =>
        rw [hm] at h
        cases hr : bindNamedLoop o m ps with
        | none => rw [hr] at h; cases h
        | some cs =>
          rw [hr] at h
          cases h
          exact List.Forall₂.cons ⟨rfl, a, hm, rfl⟩ ((bindNamedLoop_spec m ps cs).mp hr)
    · intro h
      cases h with
      | cons hb hrest =>
        rename_i b cs
        obtain ⟨h1, a, ha, h2⟩ := hb
        have := (bindNamedLoop_spec m ps cs).mpr hrest
        obtain ⟨bk, bv⟩ := b
        simp only at h1 h2 ha
        subst h1 h2
        simp [bindNamedLoop, ha, this]

/-- A named invocation binds its arguments exactly when every argument carries the name of a parameter and every
parameter has an argument (otherwise the result is null); then every parameter is bound, in the order of the
declaration, to the argument of ITS name - the last one written with that name - coerced to ITS type. -/
theorem bindNamed_spec (ps : List (String × FType)) (args : List (String × V)) (bs : List (String × V)) :
    bindNamed o ps args = some bs ↔
      (∀ a ∈ args, a.1 ∈ ps.map Prod.fst) ∧
      List.Forall₂ (fun p b => b.1 = p.1 ∧ ∃ a, namedLookup args p.1 = some a ∧ b.2 = o.coerced p.2 a) ps bs := by
  unfold bindNamed
  by_cases hu : args.any (fun a => !(ps.any (fun p => p.1 == a.1))) = true
  · rw [if_pos hu]
    constructor
    · intro h; cases h
    · rintro ⟨hall, _⟩
      obtain ⟨a, ha, hna⟩ := List.any_eq_true.mp hu
      have := hall a ha
      obtain ⟨p, hp, hpe⟩ := List.mem_map.mp this
      have : ps.any (fun p => p.1 == a.1) = true := List.any_eq_true.mpr ⟨p, hp, by simp [hpe]⟩
      simp [this] at hna
  · rw [if_neg hu, bindNamedLoop_spec]
    constructor
    · intro h
      refine ⟨fun a ha => ?_, h⟩
      have hx : ¬ (!(ps.any (fun p => p.1 == a.1))) = true := fun hc => hu (List.any_eq_true.mpr ⟨a, ha, hc⟩)
      have : ps.any (fun p => p.1 == a.1) = true := by simpa using hx
      obtain ⟨p, hp, hpe⟩ := List.any_eq_true.mp this
      exact List.mem_map.mpr ⟨p, hp, by simpa using hpe⟩
    · exact fun h => h.2

/-- An argument whose name no parameter has makes the invocation null, whatever else is supplied. -/
theorem bindNamed_unknown_name (ps : List (String × FType)) (args : List (String × V)) (a : String × V)
    (ha : a ∈ args) (hn : a.1 ∉ ps.map Prod.fst) : bindNamed o ps args = none := by
  cases h : bindNamed o ps args with
  | none => rfl
  | some bs => exact absurd (((bindNamed_spec o ps args bs).mp h).1 a ha) hn

/-- A parameter without an argument of its name makes the invocation null. -/
theorem bindNamed_missing (ps : List (String × FType)) (args : List (String × V)) (p : String × FType)
    (hp : p ∈ ps) (hn : p.1 ∉ args.map Prod.fst) : bindNamed o ps args = none := by
  cases h : bindNamed o ps args with
  | none => rfl
  | some bs =>
    have h2 := ((bindNamed_spec o ps args bs).mp h).2
    have : ∀ (ps : List (String × FType)) (bs : List (String × V)),
        List.Forall₂ (fun p b => b.1 = p.1 ∧ ∃ a, namedLookup args p.1 = some a ∧ b.2 = o.coerced p.2 a) ps bs →
        p ∈ ps → False := by
      intro ps bs hf
      induction hf with
      | nil => intro hm; cases hm
      | cons hb _ ih =>
        intro hm
        rcases List.mem_cons.mp hm with e | e
        · subst e
          obtain ⟨_, a, ha, _⟩ := hb
          rw [namedLookup_none args _ hn] at ha
          cases ha
        · exact ih e
    exact (this ps bs h2 hp).elim

/-- **Named = positional for function values.**  When the parameters have distinct names and the arguments are
written with those names, each once, in ANY order, the invocation binds exactly what the positional invocation
with the arguments in the order of the declaration binds. -/
theorem bindNamed_eq_bindPositional (ps : List (String × FType)) (vs : List V) (args : List (String × V))
    (hd : (ps.map Prod.fst).Nodup) (hl : vs.length = ps.length)
    (hp : args.Perm (List.zip (ps.map Prod.fst) vs)) :
    bindNamed o ps args = bindPositional o ps vs := by
  rw [bindPositional_spec, if_pos hl]
  have hkeys : (args.map Prod.fst).Nodup := by
    have : (args.map Prod.fst).Perm ((List.zip (ps.map Prod.fst) vs).map Prod.fst) := hp.map _
    rw [List.map_fst_zip (by simp [hl])] at this
    exact this.nodup_iff.mpr hd
  apply (bindNamed_spec o ps args _).mpr
  refine ⟨fun a ha => ?_, ?_⟩
  · have : a ∈ List.zip (ps.map Prod.fst) vs := hp.mem_iff.mp ha
    obtain ⟨k, v⟩ := a
    exact (List.of_mem_zip this).1
  · -- every parameter finds the argument written with its name
    have key : ∀ (qs : List (String × FType)) (ws : List V), ws.length = qs.length →
        (∀ x ∈ List.zip (qs.map Prod.fst) ws, x ∈ args) →
        List.Forall₂ (fun p b => b.1 = p.1 ∧ ∃ a, namedLookup args p.1 = some a ∧ b.2 = o.coerced p.2 a) qs
          (List.zipWith (fun p a => (p.1, o.coerced p.2 a)) qs ws) := by
      intro qs
      induction qs with
      | nil => intro ws _ _; cases ws <;> exact List.Forall₂.nil
      | cons q qs ih =>
        intro ws hw hsub
        cases ws with
        | nil => simp at hw
        | cons w ws =>
          simp only [List.zipWith_cons_cons]
          refine List.Forall₂.cons ⟨rfl, w, ?_, rfl⟩ (ih ws (by simpa using hw) (fun x hx => hsub x ?_))
          · exact namedLookup_of_nodup args q.1 w hkeys (hsub (q.1, w) (by simp))
          · simp only [List.map_cons, List.zip_cons_cons]
            exact List.mem_cons_of_mem _ hx
    exact key ps vs hl (fun x hx => hp.mem_iff.mpr hx)

/-- Every argument bound by name conforms to the declared type of its parameter or is null. -/
theorem bindNamed_conforms (l : Laws o) (ps : List (String × FType)) (args : List (String × V))
    (bs : List (String × V)) (h : bindNamed o ps args = some bs) :
    List.Forall₂ (fun p b => b.1 = p.1 ∧ conf (o.typeOf b.2) p.2 = true) ps bs := by
  have h2 := ((bindNamed_spec o ps args bs).mp h).2
  clear h
  induction h2 with
  | nil => exact List.Forall₂.nil
  | cons hb _ ih =>
    obtain ⟨h1, a, _, h3⟩ := hb
    exact List.Forall₂.cons ⟨h1, by rw [h3]; exact coerced_conforms o l _ _⟩ ih

example : bindNamed TV.ops [("x", .list .number), ("y", .number)]
      [("y", .list [.atom .number]), ("x", .list [.atom .number])]
    = bindPositional TV.ops [("x", .list .number), ("y", .number)] [.list [.atom .number], .list [.atom .number]] :=
  bindNamed_eq_bindPositional TV.ops _ _ _ (by decide) rfl (List.Perm.swap _ _ _)

example : bindNamed TV.ops [("x", .number)] [("x", .atom .number), ("z", .atom .number)] = none :=
  bindNamed_unknown_name TV.ops _ _ ("z", .atom .number) (by simp) (by simp)

example : bindNamed TV.ops [("x", .number), ("y", .number)] [("x", .atom .number)] = none :=
  bindNamed_missing TV.ops _ _ ("y", .number) (by simp) (by simp)

example : bindPositional TV.ops [("x", .list .number), ("y", .number)] [.list [.atom .number], .list [.atom .number]]
    = some [("x", .list [.atom .number]), ("y", .atom .number)] := by
  rw [bindPositional_spec]
  have h1 : conf (.list .number) .number = false := by simp [conf, equiv]
  have h2 : conf .number .number = true := conf_refl _ (by simp [FType.WF])
  simp [coerced, TV.ops, TV.typeOf, TV.allSame, FType.beq, wrapOk, unwrapOk, single, list_covariant, h1, h2]

end Dmn.ValOps
