import Dmn.Lemmas.Ops

/-!
# C09 — three-valued logic, equality and ordering obey their laws on all values

Theorems about the pure operators of `Dmn/Model/Ops.lean` (the models of `build_and`,
`build_or`, `eval_ternary_equality`, `build_lt/le/gt/ge`, `build_between`,
`eval_in_range`), for all values of every kind, depth and size.
-/

namespace Dmn.Value

/-! ## the three-valued truth tables -/

/-- A value as an operand of `and` / `or`: booleans count, everything else is null. -/
def kleene : Value → Option Bool
  | .bool b => some b
  | _ => none

def kAnd : Option Bool → Option Bool → Option Bool
  | some false, _ => some false
  | _, some false => some false
  | some true, some true => some true
  | _, _ => none

def kOr : Option Bool → Option Bool → Option Bool
  | some true, _ => some true
  | _, some true => some true
  | some false, some false => some false
  | _, _ => none

theorem and_table (l r : Value) : and3 l r = optBool (kAnd (kleene l) (kleene r)) := by
  cases l with
  | bool lh =>
    cases r with
    | bool rh => cases lh <;> cases rh <;> rfl
    | _ => cases lh <;> rfl
  | _ =>
    cases r with
    | bool rh => cases rh <;> rfl
    | _ => rfl

theorem or_table (l r : Value) : or3 l r = optBool (kOr (kleene l) (kleene r)) := by
  cases l with
  | bool lh =>
    cases r with
    | bool rh => cases lh <;> cases rh <;> rfl
    | _ => cases lh <;> rfl
  | _ =>
    cases r with
    | bool rh => cases rh <;> rfl
    | _ => rfl

/-! ## equality is symmetric -/

theorem instantEq_comm (a b : Instant) :
    (instantCompare? a b).map (· == Ordering.eq) = (instantCompare? b a).map (· == Ordering.eq) := by
  unfold instantCompare?
  cases a.key <;> cases b.key <;> simp
  rename_i x y
  rw [Int.compare_swap' y x]
  cases compare y x <;> rfl

theorem eqPairs_nil_right (ls : List (String × Value)) : eqPairs ls [] = some true := by
  cases ls <;> simp [eqPairs]

mutual
theorem eq_symm : (a : Value) → (b : Value) → WF a → WF b → eqT a b = eqT b a
  | .null, b, _, _ => by cases b <;> simp [eqT]
  | .bool x, b, _, _ => by cases b <;> simp [eqT]; exact Bool.beq_comm
  | .num x, b, _, _ => by cases b <;> simp [eqT]; exact Dec.beq_comm _ _
  | .str x, b, _, _ => by cases b <;> simp [eqT]; exact BEq.comm
  | .date y m d, b, _, _ => by
      cases b <;> simp [eqT]
      rename_i y2 m2 d2
      rw [BEq.comm (a := y), BEq.comm (a := m), BEq.comm (a := d)]
  | .time x, b, _, _ => by cases b <;> simp [eqT]; exact instantEq_comm _ _
  | .dateTime x, b, _, _ => by cases b <;> simp [eqT]; exact instantEq_comm _ _
  | .dtDur x, b, _, _ => by cases b <;> simp [eqT]; exact BEq.comm
  | .ymDur x, b, _, _ => by cases b <;> simp [eqT]; exact BEq.comm
  | .list ls, b, wa, wb => by
      cases b with
      | list rs =>
        simp only [eqT, WF] at wa wb ⊢
        by_cases hl : ls.length = rs.length
        · simp only [hl, beq_self_eq_true, if_true, Option.some.injEq]
          exact eqList_symm ls rs wa wb
        · have hl' : ¬ rs.length = ls.length := fun h => hl h.symm
          simp [hl, hl']
      | _ => simp [eqT]
  | .ctx ls, b, wa, wb => by
      cases b with
      | ctx rs =>
        simp only [WF] at wa wb
        simp only [eqT]
        by_cases hl : ls.length = rs.length
        · simp only [hl, beq_self_eq_true, if_true]
          have nl := pairwise_lt_nodup wa.1
          have nr := pairwise_lt_nodup wb.1
          have hlen : (ls.map Prod.fst).length = (rs.map Prod.fst).length := by simpa using hl
          by_cases hm : ls.any (fun e => (Ctx.get rs e.1).isNone) = true
          · -- some key of `ls` is missing in `rs`; then some key of `rs` is missing in `ls`
            have hm' : rs.any (fun e => (Ctx.get ls e.1).isNone) = true := by
              cases h : rs.any (fun e => (Ctx.get ls e.1).isNone) with
              | true => rfl
              | false =>
                have sub := (anyMissing_iff rs ls).mp h
                have sup := FType.keys_subset_symm nr hlen.symm sub
                have := (anyMissing_iff ls rs).mpr sup
                rw [this] at hm; cases hm
            simp [hm, hm']
          · have hm0 : ls.any (fun e => (Ctx.get rs e.1).isNone) = false := by simpa using hm
            have sub := (anyMissing_iff ls rs).mp hm0
            have keq : ls.map Prod.fst = rs.map Prod.fst := keys_eq_of_sorted wa.1 wb.1 hlen sub
            have hm1 : rs.any (fun e => (Ctx.get ls e.1).isNone) = false :=
              (anyMissing_iff rs ls).mpr (by rw [keq]; exact fun _ h => h)
            simp only [hm0, hm1, Bool.false_eq_true, if_false]
            have e1 := eqEntries_eq_eqPairs ls rs [] keq (by simpa using nr)
            have e2 := eqEntries_eq_eqPairs rs ls [] keq.symm (by simpa using nl)
            simp only [List.nil_append] at e1 e2
            rw [e1, e2]
            exact eqPairs_symm ls rs wa.2 wb.2
        · have hl' : ¬ rs.length = ls.length := fun h => hl h.symm
          simp [hl, hl']
      | _ => simp [eqT]
  | .range .., b, _, _ => by cases b <;> simp [eqT]
  | .fn .., b, _, _ => by cases b <;> simp [eqT]
  | .bif _, b, _, _ => by cases b <;> simp [eqT]
  | .exprList _, b, _, _ => by cases b <;> simp [eqT]
  | .negList _, b, _, _ => by cases b <;> simp [eqT]
  | .ctxEntry .., b, _, _ => by cases b <;> simp [eqT]
  | .ctxEntryKey _, b, _, _ => by cases b <;> simp [eqT]
  | .ctxTypeEntry .., b, _, _ => by cases b <;> simp [eqT]
  | .ctxTypeEntryKey _, b, _, _ => by cases b <;> simp [eqT]
  | .feelType _, b, _, _ => by cases b <;> simp [eqT]
  | .formalParam .., b, _, _ => by cases b <;> simp [eqT]
  | .formalParams _, b, _, _ => by cases b <;> simp [eqT]
  | .fnBody _, b, _, _ => by cases b <;> simp [eqT]
  | .intervalStart .., b, _, _ => by cases b <;> simp [eqT]
  | .intervalEnd .., b, _, _ => by cases b <;> simp [eqT]
  | .irrelevant, b, _, _ => by cases b <;> simp [eqT]
  | .namedParam .., b, _, _ => by cases b <;> simp [eqT]
  | .namedParams _, b, _, _ => by cases b <;> simp [eqT]
  | .paramName _, b, _, _ => by cases b <;> simp [eqT]
  | .paramTypes _, b, _, _ => by cases b <;> simp [eqT]
  | .qnSegment _, b, _, _ => by cases b <;> simp [eqT]
  | .unaryLt _, b, _, _ => by cases b <;> simp [eqT]
  | .unaryLe _, b, _, _ => by cases b <;> simp [eqT]
  | .unaryGt _, b, _, _ => by cases b <;> simp [eqT]
  | .unaryGe _, b, _, _ => by cases b <;> simp [eqT]
theorem eqList_symm : (ls : List Value) → (rs : List Value) → WFList ls → WFList rs →
    eqList ls rs = eqList rs ls
  | [], rs, _, _ => by cases rs <;> simp [eqList]
  | l :: ls, [], _, _ => by simp [eqList]
  | l :: ls, r :: rs, wa, wb => by
      simp only [WFList] at wa wb
      simp only [eqList]
      rw [eq_symm l r wa.1 wb.1]
      cases eqT r l with
      | none => rfl
      | some x =>
        cases x with
        | false => rfl
        | true => exact eqList_symm ls rs wa.2 wb.2
theorem eqPairs_symm : (ls : List (String × Value)) → (rs : List (String × Value)) →
    WFEntries ls → WFEntries rs → eqPairs ls rs = eqPairs rs ls
  | [], rs, _, _ => by cases rs <;> simp [eqPairs]
  | (k, l) :: ls, [], _, _ => by simp [eqPairs]
  | (k, l) :: ls, (k2, r) :: rs, wa, wb => by
      simp only [WFEntries] at wa wb
      simp only [eqPairs]
      rw [eq_symm l r wa.1 wb.1]
      cases eqT r l with
      | none => rfl
      | some x =>
        cases x with
        | false => rfl
        | true => exact eqPairs_symm ls rs wa.2 wb.2
end

/-- `a = b` and `b = a` give the same result (true, false or null). -/
theorem eqV_symm (a b : Value) (wa : WF a) (wb : WF b) : eqV a b = eqV b a := by
  unfold eqV; rw [eq_symm a b wa wb]

/-- `a != b` is the negation of `a = b`. -/
theorem neq_is_not_eq (a b : Value) :
    nqV a b = (match eqV a b with
      | .bool x => .bool (!x)
      | _ => .null) := by
  unfold nqV eqV
  cases eqT a b <;> rfl

/-! ## mirrors -/

theorem instantCompare?_swap (a b : Instant) :
    instantCompare? b a = (instantCompare? a b).map Ordering.swap := by
  unfold instantCompare?
  cases a.key <;> cases b.key <;> simp
  exact Std.OrientedCmp.eq_swap

theorem int_cmp_cases (x y : Int) :
    (x < y ∧ compare x y = .lt) ∨ (x = y ∧ compare x y = .eq) ∨ (y < x ∧ compare x y = .gt) := by
  rcases Int.lt_trichotomy x y with h | h | h
  · exact .inl ⟨h, by simp [compare, compareOfLessAndEq, h]⟩
  · exact .inr (.inl ⟨h, by simp [compare, compareOfLessAndEq, h]⟩)
  · refine .inr (.inr ⟨h, ?_⟩)
    have h1 : ¬ x < y := by omega
    have h2 : ¬ x = y := by omega
    simp [compare, compareOfLessAndEq, h1, h2]

theorem lt_gt_mirror (a b : Value) : ltV a b = gtV b a := by
  cases a <;> cases b <;> simp [ltV, gtV]
  · rename_i x y; rw [Dec.cmp_swap x y]; cases Dec.cmp x y <;> rfl
  · rename_i x y; rw [String.compare_swap' x y]; cases compare x y <;> rfl
  · rename_i y1 m1 d1 y2 m2 d2
    rw [datePartialCmp_eq, datePartialCmp_eq, dateTupleCmp_swap y1 m1 d1 y2 m2 d2]
    cases dateTupleCmp y1 m1 d1 y2 m2 d2 <;> rfl
  · rename_i x y; rw [instantCompare?_swap x y]; cases instantCompare? x y <;> simp [optBool]
    rename_i o; cases o <;> rfl
  · rename_i x y; rw [instantCompare?_swap x y]; cases instantCompare? x y <;> simp [optBool]
    rename_i o; cases o <;> rfl

theorem le_ge_mirror (a b : Value) : leV a b = geV b a := by
  cases a <;> cases b <;> simp [leV, geV]
  · rename_i x y; rw [Dec.cmp_swap x y]; cases Dec.cmp x y <;> rfl
  · rename_i x y; rw [String.compare_swap' x y]; cases compare x y <;> rfl
  · rename_i y1 m1 d1 y2 m2 d2
    rw [datePartialCmp_eq, datePartialCmp_eq, dateTupleCmp_swap y1 m1 d1 y2 m2 d2]
    cases dateTupleCmp y1 m1 d1 y2 m2 d2 <;> rfl
  · rename_i x y; rw [instantCompare?_swap x y]; cases instantCompare? x y <;> simp [optBool]
    rename_i o; cases o <;> rfl
  · rename_i x y; rw [instantCompare?_swap x y]; cases instantCompare? x y <;> simp [optBool]
    rename_i o; cases o <;> rfl

/-! ## ordered kinds: numbers, strings, dates, durations, times and date-times -/

/-- Both values are numbers, both strings, both dates, both durations of one kind, or both
times / date-times with a position on the UTC line (`key`: absent when chrono cannot
represent the instant, see C15). -/
inductive SameOrderedKind : Value → Value → Prop
  | num (x y : Dec) : SameOrderedKind (.num x) (.num y)
  | str (x y : String) : SameOrderedKind (.str x) (.str y)
  | date (y1 : Int) (m1 d1 : Nat) (y2 : Int) (m2 d2 : Nat) : SameOrderedKind (.date y1 m1 d1) (.date y2 m2 d2)
  | dtDur (x y : Int) : SameOrderedKind (.dtDur x) (.dtDur y)
  | ymDur (x y : Int) : SameOrderedKind (.ymDur x) (.ymDur y)
  | time (x y : Instant) (kx ky : Int) (hx : x.key = some kx) (hy : y.key = some ky) : SameOrderedKind (.time x) (.time y)
  | dateTime (x y : Instant) (kx ky : Int) (hx : x.key = some kx) (hy : y.key = some ky) :
      SameOrderedKind (.dateTime x) (.dateTime y)

theorem int_ops (x y : Int) :
    decide (x < y) = (compare x y == .lt) ∧ (x == y) = (compare x y == .eq) ∧ decide (x > y) = (compare x y == .gt) ∧
    decide (x ≤ y) = (compare x y != .gt) ∧ decide (x ≥ y) = (compare x y != .lt) := by
  rcases int_cmp_cases x y with ⟨h, hc⟩ | ⟨h, hc⟩ | ⟨h, hc⟩ <;> rw [hc]
  · have h1 : ¬ x = y := by omega
    have h2 : ¬ x > y := by omega
    have h3 : x ≤ y := by omega
    have h4 : ¬ x ≥ y := by omega
    simp [h, h1, h2, h3, h4]
  · subst h; simp
  · have h1 : ¬ x = y := by omega
    have h2 : ¬ x < y := by omega
    have h3 : ¬ x ≤ y := by omega
    have h4 : x ≥ y := by omega
    have h5 : x > y := h
    simp [h1, h2, h3, h4, h5]

/-- The three comparisons of two values of one ordered kind, read off one `Ordering`. -/
theorem ordered_ops (a b : Value) (h : SameOrderedKind a b) :
    ∃ o : Ordering, ltV a b = .bool (o == .lt) ∧ eqV a b = .bool (o == .eq) ∧ gtV a b = .bool (o == .gt) ∧
      leV a b = .bool (o != .gt) ∧ geV a b = .bool (o != .lt) := by
  cases h with
  | num x y =>
    refine ⟨Dec.cmp x y, rfl, ?_, rfl, rfl, rfl⟩
    simp [eqV, eqT, Dec.beq]
  | str x y =>
    refine ⟨compare x y, rfl, ?_, rfl, rfl, rfl⟩
    simp only [eqV, eqT]
    by_cases hxy : x = y
    · subst hxy
      rw [(String.compare_eq_iff x x).mpr rfl]
      simp
    · have hne : compare x y ≠ .eq := fun hc => hxy ((String.compare_eq_iff x y).mp hc)
      have hb : (x == y) = false := by simpa using hxy
      rw [hb]
      cases hc : compare x y with
      | lt => rfl
      | gt => rfl
      | eq => exact absurd hc hne
  | date y1 m1 d1 y2 m2 d2 =>
    refine ⟨dateTupleCmp y1 m1 d1 y2 m2 d2, ?_, ?_, ?_, ?_, ?_⟩
    · simp only [ltV, datePartialCmp_eq]
      cases dateTupleCmp y1 m1 d1 y2 m2 d2 <;> rfl
    · simp only [eqV, eqT]
      by_cases hxy : y1 = y2 ∧ m1 = m2 ∧ d1 = d2
      · obtain ⟨rfl, rfl, rfl⟩ := hxy
        rw [(dateTupleCmp_eq_iff y1 m1 d1 y1 m1 d1).mpr ⟨rfl, rfl, rfl⟩]
        simp
      · have hne : dateTupleCmp y1 m1 d1 y2 m2 d2 ≠ .eq :=
          fun hc => hxy ((dateTupleCmp_eq_iff _ _ _ _ _ _).mp hc)
        have hb : (y1 == y2 && m1 == m2 && d1 == d2) = false := by
          cases hb : (y1 == y2 && m1 == m2 && d1 == d2) with
          | false => rfl
          | true =>
            simp only [Bool.and_eq_true, beq_iff_eq] at hb
            exact absurd ⟨hb.1.1, hb.1.2, hb.2⟩ hxy
        rw [hb]
        cases hc : dateTupleCmp y1 m1 d1 y2 m2 d2 with
        | lt => rfl
        | gt => rfl
        | eq => exact absurd hc hne
    · simp only [gtV, datePartialCmp_eq]
      cases dateTupleCmp y1 m1 d1 y2 m2 d2 <;> rfl
    · simp only [leV, datePartialCmp_eq]
      cases dateTupleCmp y1 m1 d1 y2 m2 d2 <;> rfl
    · simp only [geV, datePartialCmp_eq]
      cases dateTupleCmp y1 m1 d1 y2 m2 d2 <;> rfl
  | dtDur x y =>
    obtain ⟨h1, h2, h3, h4, h5⟩ := int_ops x y
    exact ⟨compare x y, by simp only [ltV, h1], by simp only [eqV, eqT, h2], by simp only [gtV, h3],
      by simp only [leV, h4], by simp only [geV, h5]⟩
  | ymDur x y =>
    obtain ⟨h1, h2, h3, h4, h5⟩ := int_ops x y
    exact ⟨compare x y, by simp only [ltV, h1], by simp only [eqV, eqT, h2], by simp only [gtV, h3],
      by simp only [leV, h4], by simp only [geV, h5]⟩
  | time x y kx ky hx hy =>
    exact ⟨compare kx ky, by simp [ltV, instantCompare?, hx, hy, optBool], by simp [eqV, eqT, instantCompare?, hx, hy],
      by simp [gtV, instantCompare?, hx, hy, optBool], by simp [leV, instantCompare?, hx, hy, optBool],
      by simp [geV, instantCompare?, hx, hy, optBool]⟩
  | dateTime x y kx ky hx hy =>
    exact ⟨compare kx ky, by simp [ltV, instantCompare?, hx, hy, optBool], by simp [eqV, eqT, instantCompare?, hx, hy],
      by simp [gtV, instantCompare?, hx, hy, optBool], by simp [leV, instantCompare?, hx, hy, optBool],
      by simp [geV, instantCompare?, hx, hy, optBool]⟩

/-- For two values of one ordered kind exactly one of `a < b`, `a = b`, `a > b` is true
(and the other two are false, never null). -/
theorem trichotomy (a b : Value) (h : SameOrderedKind a b) :
    (ltV a b = .bool true ∧ eqV a b = .bool false ∧ gtV a b = .bool false) ∨
    (ltV a b = .bool false ∧ eqV a b = .bool true ∧ gtV a b = .bool false) ∨
    (ltV a b = .bool false ∧ eqV a b = .bool false ∧ gtV a b = .bool true) := by
  obtain ⟨o, h1, h2, h3, _, _⟩ := ordered_ops a b h
  rw [h1, h2, h3]
  cases o <;> simp

/-- `a <= b` is `(a < b or a = b)`. -/
theorem le_iff_lt_or_eq (a b : Value) (h : SameOrderedKind a b) :
    leV a b = or3 (ltV a b) (eqV a b) := by
  obtain ⟨o, h1, h2, _, h4, _⟩ := ordered_ops a b h
  rw [h1, h2, h4]
  cases o <;> rfl

/-! ## between / in / conjunction -/

/-- `x in <a..b>` with brackets `lc`, `rc` is the conjunction of the two comparisons, a closed
end corresponding to `<=` and an open end to `<`. -/
theorem in_range_is_conjunction (x a b : Value) (lc rc : Bool)
    (h1 : SameOrderedKind x a) (h2 : SameOrderedKind x b) :
    inRangeV x (.range a lc b rc) =
      and3 (if lc then leV a x else ltV a x) (if rc then leV x b else ltV x b) := by
  cases h1 with
  | num v a' =>
    cases h2 with
    | num _ b' =>
      simp only [inRangeV, leV, ltV]
      rw [Dec.cmp_swap v a']
      cases lc <;> cases rc <;> cases Dec.cmp v a' <;> cases Dec.cmp v b' <;> rfl
  | str v a' =>
    cases h2 with
    | str _ b' =>
      simp only [inRangeV, leV, ltV]
      rw [String.compare_swap' v a']
      cases lc <;> cases rc <;> cases compare v a' <;> cases compare v b' <;> rfl
  | date y m d y1 m1 d1 =>
    cases h2 with
    | date _ _ _ y2 m2 d2 =>
      simp only [inRangeV, leV, ltV, datePartialCmp_eq, dateCompare?, betweenOrd?, optBool]
      rw [dateTupleCmp_swap y m d y1 m1 d1]
      cases lc <;> cases rc <;> cases dateTupleCmp y m d y1 m1 d1 <;>
        cases dateTupleCmp y m d y2 m2 d2 <;> rfl
  | dtDur v a' =>
    cases h2 with
    | dtDur _ b' =>
      cases lc <;> cases rc <;> simp [inRangeV, leV, ltV, and3, GE.ge, GT.gt]
  | ymDur v a' =>
    cases h2 with
    | ymDur _ b' =>
      cases lc <;> cases rc <;> simp [inRangeV, leV, ltV, and3, GE.ge, GT.gt]
  | time x a kx ka hx ha =>
    cases h2 with
    | time _ b kx' kb hx' hb =>
      have hk : kx' = kx := by rw [hx] at hx'; exact (Option.some.inj hx').symm
      subst hk
      simp only [inRangeV, leV, ltV, instantCompare?, hx, ha, hb, optBool, betweenOrd?, Option.map]
      rw [show compare ka kx' = (compare kx' ka).swap from Std.OrientedCmp.eq_swap]
      cases lc <;> cases rc <;> cases compare kx' ka <;> cases compare kx' kb <;> rfl
  | dateTime x a kx ka hx ha =>
    cases h2 with
    | dateTime _ b kx' kb hx' hb =>
      have hk : kx' = kx := by rw [hx] at hx'; exact (Option.some.inj hx').symm
      subst hk
      simp only [inRangeV, leV, ltV, instantCompare?, hx, ha, hb, optBool, betweenOrd?, Option.map]
      rw [show compare ka kx' = (compare kx' ka).swap from Std.OrientedCmp.eq_swap]
      cases lc <;> cases rc <;> cases compare kx' ka <;> cases compare kx' kb <;> rfl

/-- `x between a and b`, `x in [a..b]` and `a <= x and x <= b` agree. -/
theorem between_in_agree (x a b : Value) (h1 : SameOrderedKind x a) (h2 : SameOrderedKind x b) :
    betweenV x a b = inRangeV x (.range a true b true) ∧
    betweenV x a b = and3 (leV a x) (leV x b) := by
  have h := in_range_is_conjunction x a b true true h1 h2
  simp only [if_true] at h
  refine ⟨?_, ?_⟩
  · cases h1 with
    | num v a' =>
      cases h2 with
      | num _ b' =>
        simp only [betweenV, inRangeV]
        rw [Dec.cmp_swap v a']
        cases Dec.cmp v a' <;> cases Dec.cmp v b' <;> rfl
    | str v a' =>
      cases h2 with
      | str _ b' =>
        simp only [betweenV, inRangeV]
        rw [String.compare_swap' v a']
        cases compare v a' <;> cases compare v b' <;> rfl
    | date y m d y1 m1 d1 =>
      cases h2 with
      | date _ _ _ y2 m2 d2 => rfl
    | dtDur v a' =>
      cases h2 with
        | dtDur _ b' =>
        simp [betweenV, inRangeV, and3, GE.ge, GT.gt]
    | ymDur v a' =>
      cases h2 with
        | ymDur _ b' =>
        simp [betweenV, inRangeV, and3, GE.ge, GT.gt]
    | time x a kx ka hx ha =>
      cases h2 with
      | time _ b kx' kb hx' hb => rfl
    | dateTime x a kx ka hx ha =>
      cases h2 with
      | dateTime _ b kx' kb hx' hb => rfl
  · rw [← h]
    cases h1 with
    | num v a' =>
      cases h2 with
      | num _ b' =>
        simp only [betweenV, inRangeV]
        rw [Dec.cmp_swap v a']
        cases Dec.cmp v a' <;> cases Dec.cmp v b' <;> rfl
    | str v a' =>
      cases h2 with
      | str _ b' =>
        simp only [betweenV, inRangeV]
        rw [String.compare_swap' v a']
        cases compare v a' <;> cases compare v b' <;> rfl
    | date y m d y1 m1 d1 =>
      cases h2 with
      | date _ _ _ y2 m2 d2 => rfl
    | dtDur v a' =>
      cases h2 with
        | dtDur _ b' =>
        simp [betweenV, inRangeV, and3, GE.ge, GT.gt]
    | ymDur v a' =>
      cases h2 with
        | ymDur _ b' =>
        simp [betweenV, inRangeV, and3, GE.ge, GT.gt]
    | time x a kx ka hx ha =>
      cases h2 with
      | time _ b kx' kb hx' hb => rfl
    | dateTime x a kx ka hx ha =>
      cases h2 with
      | dateTime _ b kx' kb hx' hb => rfl

/-! ## non-vacuity -/

example : WF (.ctx [("a", .num ⟨false, 1, 0⟩), ("b", .str "x")]) ∧
    WF (.ctx [("b", .num ⟨false, 1, 0⟩), ("c", .num ⟨false, 1, 0⟩)]) := by
  simp [WF, WFEntries, Ctx.WF]

example : SameOrderedKind (.date 999999 1 1) (.date 999999 1 2) := .date ..
example : SameOrderedKind (.dtDur 86400000000000) (.dtDur (-1)) := .dtDur ..
example : SameOrderedKind (.dateTime ⟨"2021-01-01T00:00:00Z", some 0⟩) (.dateTime ⟨"2021-01-01T00:00:01Z", some 1000000000⟩) :=
  .dateTime _ _ 0 1000000000 rfl rfl

end Dmn.Value
