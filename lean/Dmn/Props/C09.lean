import Dmn.Lemmas.Ops

/-!
# C09 — three-valued logic, equality and ordering obey their laws on all values

Theorems about the pure operators of `Dmn/Model/Ops.lean` (the models of `build_and`,
`build_or`, `eval_ternary_equality`, `build_lt/le/gt/ge`, `build_between`,
`eval_in_range`), for all values of every kind, depth and size.
-/

namespace Dmn.Value

/-! ## the three-valued truth tables -/

/-- A value as an operand of `and` / `or`: booleans count, everything else is null. -/
def kleene : Value → Option Bool
  | .bool b => some b
  | _ => none

def kAnd : Option Bool → Option Bool → Option Bool
  | some false, _ => some false
  | _, some false => some false
  | some true, some true => some true
  | _, _ => none

def kOr : Option Bool → Option Bool → Option Bool
  | some true, _ => some true
  | _, some true => some true
  | some false, some false => some false
  | _, _ => none

theorem and_table (l r : Value) : and3 l r = optBool (kAnd (kleene l) (kleene r)) := by
  cases l with
  | bool lh =>
    cases r with
    | bool rh => cases lh <;> cases rh <;> rfl
    | _ => cases lh <;> rfl
  | _ =>
    cases r with
    | bool rh => cases rh <;> rfl
    | _ => rfl

theorem or_table (l r : Value) : or3 l r = optBool (kOr (kleene l) (kleene r)) := by
  cases l with
  | bool lh =>
    cases r with
    | bool rh => cases lh <;> cases rh <;> rfl
    | _ => cases lh <;> rfl
  | _ =>
    cases r with
    | bool rh => cases rh <;> rfl
    | _ => rfl

/-! ### negation, and the algebra of the three operators on ALL values

`not` (the built-in, `core::not`) is the third operator of the truth tables.  Every value that is not a
boolean — a list of one boolean included — counts as null in each operand position; the lattice laws of
the three-valued logic therefore hold for arbitrary values, not only for booleans and null. -/

def kNot : Option Bool → Option Bool
  | some b => some (!b)
  | none => none

theorem not_table (v : Value) : not3 v = optBool (kNot (kleene v)) := by
  cases v <;> rfl

/-- The result of a logical operator read back as an operand is itself. -/
theorem kleene_optBool (o : Option Bool) : kleene (optBool o) = o := by
  cases o <;> rfl

/-- A list is never a boolean operand, whatever it contains (`[true] and true` is null). -/
theorem list_operand_is_null (vs : List Value) (r : Value) :
    and3 (.list vs) r = and3 .null r ∧ and3 r (.list vs) = and3 r .null ∧
    or3 (.list vs) r = or3 .null r ∧ or3 r (.list vs) = or3 r .null ∧ not3 (.list vs) = .null := by
  simp only [and_table, or_table, not_table]
  exact ⟨rfl, rfl, rfl, rfl, rfl⟩

theorem and_comm3 (a b : Value) : and3 a b = and3 b a := by
  simp only [and_table]
  generalize kleene a = x; generalize kleene b = y
  rcases x with _ | (_ | _) <;> rcases y with _ | (_ | _) <;> rfl

theorem or_comm3 (a b : Value) : or3 a b = or3 b a := by
  simp only [or_table]
  generalize kleene a = x; generalize kleene b = y
  rcases x with _ | (_ | _) <;> rcases y with _ | (_ | _) <;> rfl

theorem and_assoc3 (a b c : Value) : and3 (and3 a b) c = and3 a (and3 b c) := by
  simp only [and_table, kleene_optBool]
  generalize kleene a = x; generalize kleene b = y; generalize kleene c = z
  rcases x with _ | (_ | _) <;> rcases y with _ | (_ | _) <;> rcases z with _ | (_ | _) <;> rfl

theorem or_assoc3 (a b c : Value) : or3 (or3 a b) c = or3 a (or3 b c) := by
  simp only [or_table, kleene_optBool]
  generalize kleene a = x; generalize kleene b = y; generalize kleene c = z
  rcases x with _ | (_ | _) <;> rcases y with _ | (_ | _) <;> rcases z with _ | (_ | _) <;> rfl

theorem and_or_distrib (a b c : Value) : and3 a (or3 b c) = or3 (and3 a b) (and3 a c) := by
  simp only [and_table, or_table, kleene_optBool]
  generalize kleene a = x; generalize kleene b = y; generalize kleene c = z
  rcases x with _ | (_ | _) <;> rcases y with _ | (_ | _) <;> rcases z with _ | (_ | _) <;> rfl

theorem or_and_distrib (a b c : Value) : or3 a (and3 b c) = and3 (or3 a b) (or3 a c) := by
  simp only [and_table, or_table, kleene_optBool]
  generalize kleene a = x; generalize kleene b = y; generalize kleene c = z
  rcases x with _ | (_ | _) <;> rcases y with _ | (_ | _) <;> rcases z with _ | (_ | _) <;> rfl

theorem de_morgan_and (a b : Value) : not3 (and3 a b) = or3 (not3 a) (not3 b) := by
  simp only [and_table, or_table, not_table, kleene_optBool]
  generalize kleene a = x; generalize kleene b = y
  rcases x with _ | (_ | _) <;> rcases y with _ | (_ | _) <;> rfl

theorem de_morgan_or (a b : Value) : not3 (or3 a b) = and3 (not3 a) (not3 b) := by
  simp only [and_table, or_table, not_table, kleene_optBool]
  generalize kleene a = x; generalize kleene b = y
  rcases x with _ | (_ | _) <;> rcases y with _ | (_ | _) <;> rfl

/-- Double negation gives back the operand as the logic sees it (null for a non-boolean). -/
theorem not_not3 (a : Value) : not3 (not3 a) = optBool (kleene a) := by
  simp only [not_table, kleene_optBool]
  generalize kleene a = x
  rcases x with _ | (_ | _) <;> rfl

/-- `if` (`build_if`): the branch is chosen by the condition alone. -/
theorem if_cases (c t e : Value) :
    (c = .bool true → if3 c t e = t) ∧
    ((c = .bool false ∨ c = .null) → if3 c t e = e) ∧
    ((∀ b, c ≠ .bool b) → c ≠ .null → if3 c t e = .null) := by
  refine ⟨fun h => by subst h; rfl, fun h => by rcases h with h | h <;> subst h <;> rfl, fun hb hn => ?_⟩
  cases c <;> first | rfl | exact absurd rfl hn | exact absurd rfl (hb _)

example : (∀ b, Value.list [.bool true] ≠ .bool b) ∧ Value.list [.bool true] ≠ .null :=
  ⟨fun _ h => Value.noConfusion h, fun h => Value.noConfusion h⟩

/-! ## equality is symmetric -/

theorem instantEq_comm (a b : Instant) :
    (instantCompare? a b).map (· == Ordering.eq) = (instantCompare? b a).map (· == Ordering.eq) := by
  unfold instantCompare?
  cases a.key <;> cases b.key <;> simp
  rename_i x y
  rw [Int.compare_swap' y x]
  cases compare y x <;> rfl

theorem eqPairs_nil_right (ls : List (String × Value)) : eqPairs ls [] = some true := by
  cases ls <;> simp [eqPairs]

mutual
theorem eq_symm : (a : Value) → (b : Value) → WF a → WF b → eqT a b = eqT b a
  | .null, b, _, _ => by cases b <;> simp [eqT]
  | .bool x, b, _, _ => by cases b <;> simp [eqT]; exact Bool.beq_comm
  | .num x, b, _, _ => by cases b <;> simp [eqT]; exact Dec.beq_comm _ _
  | .str x, b, _, _ => by cases b <;> simp [eqT]; exact BEq.comm
  | .date y m d, b, _, _ => by
      cases b <;> simp [eqT]
      rename_i y2 m2 d2
      rw [BEq.comm (a := y), BEq.comm (a := m), BEq.comm (a := d)]
  | .time x, b, _, _ => by cases b <;> simp [eqT]; exact instantEq_comm _ _
  | .dateTime x, b, _, _ => by cases b <;> simp [eqT]; exact instantEq_comm _ _
  | .dtDur x, b, _, _ => by cases b <;> simp [eqT]; exact BEq.comm
  | .ymDur x, b, _, _ => by cases b <;> simp [eqT]; exact BEq.comm
  | .list ls, b, wa, wb => by
      cases b with
      | list rs =>
        simp only [eqT, WF] at wa wb ⊢
        by_cases hl : ls.length = rs.length
        · simp only [hl, beq_self_eq_true, if_true, Option.some.injEq]
          exact eqList_symm ls rs wa wb
        · have hl' : ¬ rs.length = ls.length := fun h => hl h.symm
          simp [hl, hl']
      | _ => simp [eqT]
  | .ctx ls, b, wa, wb => by
      cases b with
      | ctx rs =>
        simp only [WF] at wa wb
        simp only [eqT]
        by_cases hl : ls.length = rs.length
        · simp only [hl, beq_self_eq_true, if_true]
          have nl := pairwise_lt_nodup wa.1
          have nr := pairwise_lt_nodup wb.1
          have hlen : (ls.map Prod.fst).length = (rs.map Prod.fst).length := by simpa using hl
          by_cases hm : ls.any (fun e => (Ctx.get rs e.1).isNone) = true
          · -- some key of `ls` is missing in `rs`; then some key of `rs` is missing in `ls`
            have hm' : rs.any (fun e => (Ctx.get ls e.1).isNone) = true := by
              cases h : rs.any (fun e => (Ctx.get ls e.1).isNone) with
              | true => rfl
              | false =>
                have sub := (anyMissing_iff rs ls).mp h
                have sup := FType.keys_subset_symm nr hlen.symm sub
                have := (anyMissing_iff ls rs).mpr sup
                rw [this] at hm; cases hm
            simp [hm, hm']
          · have hm0 : ls.any (fun e => (Ctx.get rs e.1).isNone) = false := by simpa using hm
            have sub := (anyMissing_iff ls rs).mp hm0
            have keq : ls.map Prod.fst = rs.map Prod.fst := keys_eq_of_sorted wa.1 wb.1 hlen sub
            have hm1 : rs.any (fun e => (Ctx.get ls e.1).isNone) = false :=
              (anyMissing_iff rs ls).mpr (by rw [keq]; exact fun _ h => h)
            simp only [hm0, hm1, Bool.false_eq_true, if_false]
            have e1 := eqEntries_eq_eqPairs ls rs [] keq (by simpa using nr)
            have e2 := eqEntries_eq_eqPairs rs ls [] keq.symm (by simpa using nl)
            simp only [List.nil_append] at e1 e2
            rw [e1, e2]
            exact eqPairs_symm ls rs wa.2 wb.2
        · have hl' : ¬ rs.length = ls.length := fun h => hl h.symm
          simp [hl, hl']
      | _ => simp [eqT]
  | .range .., b, _, _ => by cases b <;> simp [eqT]
  | .fn .., b, _, _ => by cases b <;> simp [eqT]
  | .bif _, b, _, _ => by cases b <;> simp [eqT]
  | .exprList _, b, _, _ => by cases b <;> simp [eqT]
  | .negList _, b, _, _ => by cases b <;> simp [eqT]
  | .ctxEntry .., b, _, _ => by cases b <;> simp [eqT]
  | .ctxEntryKey _, b, _, _ => by cases b <;> simp [eqT]
  | .ctxTypeEntry .., b, _, _ => by cases b <;> simp [eqT]
  | .ctxTypeEntryKey _, b, _, _ => by cases b <;> simp [eqT]
  | .feelType _, b, _, _ => by cases b <;> simp [eqT]
  | .formalParam .., b, _, _ => by cases b <;> simp [eqT]
  | .formalParams _, b, _, _ => by cases b <;> simp [eqT]
  | .fnBody _, b, _, _ => by cases b <;> simp [eqT]
  | .intervalStart .., b, _, _ => by cases b <;> simp [eqT]
  | .intervalEnd .., b, _, _ => by cases b <;> simp [eqT]
  | .irrelevant, b, _, _ => by cases b <;> simp [eqT]
  | .namedParam .., b, _, _ => by cases b <;> simp [eqT]
  | .namedParams _, b, _, _ => by cases b <;> simp [eqT]
  | .paramName _, b, _, _ => by cases b <;> simp [eqT]
  | .paramTypes _, b, _, _ => by cases b <;> simp [eqT]
  | .qnSegment _, b, _, _ => by cases b <;> simp [eqT]
  | .unaryLt _, b, _, _ => by cases b <;> simp [eqT]
  | .unaryLe _, b, _, _ => by cases b <;> simp [eqT]
  | .unaryGt _, b, _, _ => by cases b <;> simp [eqT]
  | .unaryGe _, b, _, _ => by cases b <;> simp [eqT]
theorem eqList_symm : (ls : List Value) → (rs : List Value) → WFList ls → WFList rs →
    eqList ls rs = eqList rs ls
  | [], rs, _, _ => by cases rs <;> simp [eqList]
  | l :: ls, [], _, _ => by simp [eqList]
  | l :: ls, r :: rs, wa, wb => by
      simp only [WFList] at wa wb
      simp only [eqList]
      rw [eq_symm l r wa.1 wb.1]
      cases eqT r l with
      | none => rfl
      | some x =>
        cases x with
        | false => rfl
        | true => exact eqList_symm ls rs wa.2 wb.2
theorem eqPairs_symm : (ls : List (String × Value)) → (rs : List (String × Value)) →
    WFEntries ls → WFEntries rs → eqPairs ls rs = eqPairs rs ls
  | [], rs, _, _ => by cases rs <;> simp [eqPairs]
  | (k, l) :: ls, [], _, _ => by simp [eqPairs]
  | (k, l) :: ls, (k2, r) :: rs, wa, wb => by
      simp only [WFEntries] at wa wb
      simp only [eqPairs]
      rw [eq_symm l r wa.1 wb.1]
      cases eqT r l with
      | none => rfl
      | some x =>
        cases x with
        | false => rfl
        | true => exact eqPairs_symm ls rs wa.2 wb.2
end

/-- `a = b` and `b = a` give the same result (true, false or null). -/
theorem eqV_symm (a b : Value) (wa : WF a) (wb : WF b) : eqV a b = eqV b a := by
  unfold eqV; rw [eq_symm a b wa wb]

/-- `a != b` is the negation of `a = b`. -/
theorem neq_is_not_eq (a b : Value) :
    nqV a b = (match eqV a b with
      | .bool x => .bool (!x)
      | _ => .null) := by
  unfold nqV eqV
  cases eqT a b <;> rfl

/-! ## equality is transitive (all values), and reflexive on every value that can be compared

`=` is a partial equivalence on ALL values — symmetric (`eq_symm`) and transitive (`eq_trans`, through lists and
contexts of any depth) — and reflexive on the values for which it is defined at all: everything built from
null, booleans, numbers, strings, dates, durations, times and date-times that have a position on the UTC line,
lists and contexts (`Comparable`; ranges and functions are never equal to anything, themselves included:
`eqT` is `none` = null for them). -/

theorem Ctx.get_mem {c : Ctx} {k : String} {v : Value} (h : Ctx.get c k = some v) : (k, v) ∈ c := by
  induction c with
  | nil => simp [Ctx.get] at h
  | cons e c ih =>
    obtain ⟨k', v'⟩ := e
    simp only [Ctx.get] at h
    split at h
    · rename_i hk; cases h; subst hk; exact List.mem_cons_self
    · exact List.mem_cons_of_mem _ (ih h)

theorem instantEq_trans (a b c : Instant)
    (h1 : (instantCompare? a b).map (· == Ordering.eq) = some true)
    (h2 : (instantCompare? b c).map (· == Ordering.eq) = some true) :
    (instantCompare? a c).map (· == Ordering.eq) = some true := by
  unfold instantCompare? at *
  cases ha : a.key <;> cases hb : b.key <;> cases hc : c.key <;>
    simp [ha, hb, hc, Int.compare_eq_iff'] at h1 h2 ⊢
  omega

theorem eqEntries_members : (rs : List (String × Value)) → (ts : Ctx) → eqEntries rs ts = some true →
    ∀ e ∈ rs, ∃ v3, Ctx.get ts e.1 = some v3 ∧ eqT e.2 v3 = some true
  | [], _, _ => by intro e he; cases he
  | (k, v) :: rs, ts, h => by
      simp only [eqEntries] at h
      cases hg : Ctx.get ts k with
      | none => simp [hg] at h
      | some v3 =>
        rw [hg] at h
        simp only at h
        cases he : eqT v v3 with
        | none => simp [he] at h
        | some b =>
          cases b with
          | false => simp [he] at h
          | true =>
            rw [he] at h
            simp only at h
            intro e hm
            rcases List.mem_cons.mp hm with rfl | hm
            · exact ⟨v3, hg, he⟩
            · exact eqEntries_members rs ts h e hm

mutual
theorem eq_trans : (a b c : Value) → eqT a b = some true → eqT b c = some true → eqT a c = some true
  | .null, b, c, h1, h2 => by
      cases b <;> simp [eqT] at h1
      exact h2
  | .bool x, b, c, h1, h2 => by
      cases b <;> simp [eqT] at h1
      cases c <;> simp [eqT] at h2 ⊢
      exact h1.trans h2
  | .num x, b, c, h1, h2 => by
      cases b <;> simp [eqT] at h1
      cases c <;> simp [eqT] at h2 ⊢
      simp only [Dec.beq, beq_iff_eq] at h1 h2 ⊢
      exact Dec.cmp_eq_trans _ _ _ h1 h2
  | .str x, b, c, h1, h2 => by
      cases b <;> simp [eqT] at h1
      cases c <;> simp [eqT] at h2 ⊢
      exact h1.trans h2
  | .date y m d, b, c, h1, h2 => by
      cases b <;> simp [eqT] at h1
      cases c <;> simp [eqT] at h2 ⊢
      obtain ⟨⟨a1, a2⟩, a3⟩ := h1
      obtain ⟨⟨b1, b2⟩, b3⟩ := h2
      exact ⟨⟨a1.trans b1, a2.trans b2⟩, a3.trans b3⟩
  | .time x, b, c, h1, h2 => by
      cases b <;> simp only [eqT] at h1 <;> try (simp at h1; done)
      cases c <;> simp only [eqT] at h2 ⊢ <;> try (simp at h2; done)
      exact instantEq_trans _ _ _ h1 h2
  | .dateTime x, b, c, h1, h2 => by
      cases b <;> simp only [eqT] at h1 <;> try (simp at h1; done)
      cases c <;> simp only [eqT] at h2 ⊢ <;> try (simp at h2; done)
      exact instantEq_trans _ _ _ h1 h2
  | .dtDur x, b, c, h1, h2 => by
      cases b <;> simp [eqT] at h1
      cases c <;> simp [eqT] at h2 ⊢
      exact h1.trans h2
  | .ymDur x, b, c, h1, h2 => by
      cases b <;> simp [eqT] at h1
      cases c <;> simp [eqT] at h2 ⊢
      exact h1.trans h2
  | .list ls, b, c, h1, h2 => by
      cases b <;> simp only [eqT] at h1 <;> try (simp at h1; done)
      cases c <;> simp only [eqT] at h2 ⊢ <;> try (simp at h2; done)
      rename_i rs ts
      by_cases l1 : ls.length = rs.length
      · by_cases l2 : rs.length = ts.length
        · simp only [l1, l2, beq_self_eq_true, if_true, Option.some.injEq] at h1 h2 ⊢
          exact eqList_trans ls rs ts l1 l2 h1 h2
        · simp [l2] at h2
      · simp [l1] at h1
  | .ctx ls, b, c, h1, h2 => by
      cases b <;> simp only [eqT] at h1 <;> try (simp at h1; done)
      cases c <;> simp only [eqT] at h2 ⊢ <;> try (simp at h2; done)
      rename_i rs ts
      by_cases l1 : ls.length = rs.length
      · by_cases l2 : rs.length = ts.length
        · simp only [l1, l2, beq_self_eq_true, if_true] at h1 h2 ⊢
          by_cases m1 : ls.any (fun e => (Ctx.get rs e.1).isNone) = true
          · simp [m1] at h1
          · by_cases m2 : rs.any (fun e => (Ctx.get ts e.1).isNone) = true
            · simp [m2] at h2
            · have m1' : ls.any (fun e => (Ctx.get rs e.1).isNone) = false := by simpa using m1
              have m2' : rs.any (fun e => (Ctx.get ts e.1).isNone) = false := by simpa using m2
              rw [m1'] at h1; rw [m2'] at h2
              simp only [Bool.false_eq_true, if_false] at h1 h2
              have s1 := (anyMissing_iff ls rs).mp m1'
              have s2 := (anyMissing_iff rs ts).mp m2'
              have m3 : ls.any (fun e => (Ctx.get ts e.1).isNone) = false :=
                (anyMissing_iff ls ts).mpr (fun k hk => s2 (s1 hk))
              rw [m3]
              simp only [Bool.false_eq_true, if_false]
              exact eqEntries_trans ls rs ts h1 (eqEntries_members rs ts h2)
        · simp [l2] at h2
      · simp [l1] at h1
  | .range .., b, _, h1, _ => by cases b <;> simp [eqT] at h1
  | .fn .., b, _, h1, _ => by cases b <;> simp [eqT] at h1
  | .bif _, b, _, h1, _ => by cases b <;> simp [eqT] at h1
  | .exprList _, b, _, h1, _ => by cases b <;> simp [eqT] at h1
  | .negList _, b, _, h1, _ => by cases b <;> simp [eqT] at h1
  | .ctxEntry .., b, _, h1, _ => by cases b <;> simp [eqT] at h1
  | .ctxEntryKey _, b, _, h1, _ => by cases b <;> simp [eqT] at h1
  | .ctxTypeEntry .., b, _, h1, _ => by cases b <;> simp [eqT] at h1
  | .ctxTypeEntryKey _, b, _, h1, _ => by cases b <;> simp [eqT] at h1
  | .feelType _, b, _, h1, _ => by cases b <;> simp [eqT] at h1
  | .formalParam .., b, _, h1, _ => by cases b <;> simp [eqT] at h1
  | .formalParams _, b, _, h1, _ => by cases b <;> simp [eqT] at h1
  | .fnBody _, b, _, h1, _ => by cases b <;> simp [eqT] at h1
  | .intervalStart .., b, _, h1, _ => by cases b <;> simp [eqT] at h1
  | .intervalEnd .., b, _, h1, _ => by cases b <;> simp [eqT] at h1
  | .irrelevant, b, _, h1, _ => by cases b <;> simp [eqT] at h1
  | .namedParam .., b, _, h1, _ => by cases b <;> simp [eqT] at h1
  | .namedParams _, b, _, h1, _ => by cases b <;> simp [eqT] at h1
  | .paramName _, b, _, h1, _ => by cases b <;> simp [eqT] at h1
  | .paramTypes _, b, _, h1, _ => by cases b <;> simp [eqT] at h1
  | .qnSegment _, b, _, h1, _ => by cases b <;> simp [eqT] at h1
  | .unaryLt _, b, _, h1, _ => by cases b <;> simp [eqT] at h1
  | .unaryLe _, b, _, h1, _ => by cases b <;> simp [eqT] at h1
  | .unaryGt _, b, _, h1, _ => by cases b <;> simp [eqT] at h1
  | .unaryGe _, b, _, h1, _ => by cases b <;> simp [eqT] at h1
theorem eqList_trans : (ls rs ts : List Value) → ls.length = rs.length → rs.length = ts.length →
    eqList ls rs = true → eqList rs ts = true → eqList ls ts = true
  | [], _, _, _, _, _, _ => by simp [eqList]
  | _ :: _, [], _, hl1, _, _, _ => by simp at hl1
  | _ :: _, _ :: _, [], _, hl2, _, _ => by simp at hl2
  | l :: ls, r :: rs, t :: ts, hl1, hl2, h1, h2 => by
      simp only [eqList] at h1 h2 ⊢
      cases e1 : eqT l r with
      | none => simp [e1] at h1
      | some b1 =>
        cases b1 with
        | false => simp [e1] at h1
        | true =>
          cases e2 : eqT r t with
          | none => simp [e2] at h2
          | some b2 =>
            cases b2 with
            | false => simp [e2] at h2
            | true =>
              rw [e1] at h1; rw [e2] at h2
              simp only at h1 h2
              rw [eq_trans l r t e1 e2]
              exact eqList_trans ls rs ts (by simpa using hl1) (by simpa using hl2) h1 h2
theorem eqEntries_trans : (ls : List (String × Value)) → (rs ts : Ctx) → eqEntries ls rs = some true →
    (∀ e ∈ rs, ∃ v3, Ctx.get ts e.1 = some v3 ∧ eqT e.2 v3 = some true) → eqEntries ls ts = some true
  | [], _, _, _, _ => by simp [eqEntries]
  | (k, v1) :: ls, rs, ts, h1, h2 => by
      simp only [eqEntries] at h1 ⊢
      cases hg : Ctx.get rs k with
      | none => simp [hg] at h1
      | some v2 =>
        rw [hg] at h1
        simp only at h1
        cases he : eqT v1 v2 with
        | none => simp [he] at h1
        | some b =>
          cases b with
          | false => simp [he] at h1
          | true =>
            rw [he] at h1
            simp only at h1
            obtain ⟨v3, hg3, he3⟩ := h2 (k, v2) (Ctx.get_mem hg)
            rw [hg3]
            simp only
            rw [eq_trans v1 v2 v3 he he3]
            exact eqEntries_trans ls rs ts h1 h2
end

/-- `a = b` and `b = c` true make `a = c` true — for ALL values, through lists and contexts of any depth. -/
theorem eqV_trans (a b c : Value) (h1 : eqV a b = .bool true) (h2 : eqV b c = .bool true) :
    eqV a c = .bool true := by
  unfold eqV at *
  cases e1 : eqT a b with
  | none => simp [e1] at h1
  | some x =>
    cases e2 : eqT b c with
    | none => simp [e2] at h2
    | some y =>
      simp only [e1, e2, Value.bool.injEq] at h1 h2
      subst h1; subst h2
      rw [eq_trans a b c e1 e2]

example : eqT (.list [.num ⟨false, 10, -1⟩, .ctx [("a", .null)]]) (.list [.num ⟨false, 1, 0⟩, .ctx [("a", .null)]])
    = some true := by decide

mutual
/-- The values `=` is defined on: no range, function or carrier value inside, and every time / date-time has a
position on the UTC line. -/
def Comparable : Value → Prop
  | .null | .bool _ | .num _ | .str _ | .date .. | .dtDur _ | .ymDur _ => True
  | .time t | .dateTime t => t.key.isSome = true
  | .list vs => ComparableList vs
  | .ctx es => ComparableEntries es
  | _ => False
def ComparableList : List Value → Prop
  | [] => True
  | v :: vs => Comparable v ∧ ComparableList vs
def ComparableEntries : List (String × Value) → Prop
  | [] => True
  | (_, v) :: es => Comparable v ∧ ComparableEntries es
end

theorem instantEq_refl (t : Instant) (h : t.key.isSome = true) :
    (instantCompare? t t).map (· == Ordering.eq) = some true := by
  unfold instantCompare?
  cases hk : t.key with
  | none => simp [hk] at h
  | some x => simp [Int.compare_eq_iff']

mutual
theorem eq_refl : (a : Value) → Comparable a → WF a → eqT a a = some true
  | .null, _, _ => by simp [eqT]
  | .bool _, _, _ => by simp [eqT]
  | .num x, _, _ => by simp [eqT, Dec.beq, Dec.cmp_eq_refl]
  | .str _, _, _ => by simp [eqT]
  | .date .., _, _ => by simp [eqT]
  | .dtDur _, _, _ => by simp [eqT]
  | .ymDur _, _, _ => by simp [eqT]
  | .time t, h, _ => by simp only [Comparable] at h; simp only [eqT]; exact instantEq_refl t h
  | .dateTime t, h, _ => by simp only [Comparable] at h; simp only [eqT]; exact instantEq_refl t h
  | .list ls, h, w => by
      simp only [Comparable] at h
      simp only [WF] at w
      simp only [eqT, beq_self_eq_true, if_true, Option.some.injEq]
      exact eqList_refl ls h w
  | .ctx ls, h, w => by
      simp only [Comparable] at h
      simp only [WF] at w
      simp only [eqT, beq_self_eq_true, if_true]
      have m : ls.any (fun e => (Ctx.get ls e.1).isNone) = false := (anyMissing_iff ls ls).mpr (fun _ h => h)
      rw [m]
      simp only [Bool.false_eq_true, if_false]
      have e1 := eqEntries_eq_eqPairs ls ls [] rfl (by simpa using pairwise_lt_nodup w.1)
      simp only [List.nil_append] at e1
      rw [e1]
      exact eqPairs_refl ls h w.2
  | .range .., h, _ => by simp [Comparable] at h
  | .fn .., h, _ => by simp [Comparable] at h
  | .bif _, h, _ => by simp [Comparable] at h
  | .exprList _, h, _ => by simp [Comparable] at h
  | .negList _, h, _ => by simp [Comparable] at h
  | .ctxEntry .., h, _ => by simp [Comparable] at h
  | .ctxEntryKey _, h, _ => by simp [Comparable] at h
  | .ctxTypeEntry .., h, _ => by simp [Comparable] at h
  | .ctxTypeEntryKey _, h, _ => by simp [Comparable] at h
  | .feelType _, h, _ => by simp [Comparable] at h
  | .formalParam .., h, _ => by simp [Comparable] at h
  | .formalParams _, h, _ => by simp [Comparable] at h
  | .fnBody _, h, _ => by simp [Comparable] at h
  | .intervalStart .., h, _ => by simp [Comparable] at h
  | .intervalEnd .., h, _ => by simp [Comparable] at h
  | .irrelevant, h, _ => by simp [Comparable] at h
  | .namedParam .., h, _ => by simp [Comparable] at h
  | .namedParams _, h, _ => by simp [Comparable] at h
  | .paramName _, h, _ => by simp [Comparable] at h
  | .paramTypes _, h, _ => by simp [Comparable] at h
  | .qnSegment _, h, _ => by simp [Comparable] at h
  | .unaryLt _, h, _ => by simp [Comparable] at h
  | .unaryLe _, h, _ => by simp [Comparable] at h
  | .unaryGt _, h, _ => by simp [Comparable] at h
  | .unaryGe _, h, _ => by simp [Comparable] at h
theorem eqList_refl : (ls : List Value) → ComparableList ls → WFList ls → eqList ls ls = true
  | [], _, _ => by simp [eqList]
  | l :: ls, h, w => by
      simp only [ComparableList] at h
      simp only [WFList] at w
      simp only [eqList]
      rw [eq_refl l h.1 w.1]
      exact eqList_refl ls h.2 w.2
theorem eqPairs_refl : (ls : List (String × Value)) → ComparableEntries ls → WFEntries ls →
    eqPairs ls ls = some true
  | [], _, _ => by simp [eqPairs]
  | (k, l) :: ls, h, w => by
      simp only [ComparableEntries] at h
      simp only [WFEntries] at w
      simp only [eqPairs]
      rw [eq_refl l h.1 w.1]
      exact eqPairs_refl ls h.2 w.2
end

/-- Every comparable value equals itself; a range or a function does not (`[1..2] = [1..2]` is null). -/
theorem eqV_refl (a : Value) (h : Comparable a) (w : WF a) : eqV a a = .bool true := by
  unfold eqV; rw [eq_refl a h w]

example : Comparable (.list [.num ⟨false, 1, 0⟩, .ctx [("a", .str "x"), ("b", .list [])]]) ∧
    WF (.list [.num ⟨false, 1, 0⟩, .ctx [("a", .str "x"), ("b", .list [])]]) := by
  refine ⟨by simp [Comparable, ComparableList, ComparableEntries], ?_⟩
  simp only [WF, WFList, WFEntries, Ctx.WF, and_true, true_and]
  decide

theorem eq_range_null (lo hi : Value) (lc hc : Bool) (b : Value) :
    eqV (.range lo lc hi hc) b = .null ∧ (b ≠ .null → eqV b (.range lo lc hi hc) = .null) := by
  refine ⟨by simp [eqV, eqT], fun hb => ?_⟩
  cases b <;> simp [eqV, eqT] at hb ⊢


/-! ## `<` is transitive -/

/-- `<` is transitive — on all values (it holds only between two values of one ordered kind). -/
theorem lt_trans (a b c : Value) (h1 : ltV a b = .bool true) (h2 : ltV b c = .bool true) :
    ltV a c = .bool true := by
  unfold ltV at h1
  split at h1
  · unfold ltV at h2; split at h2 <;> simp_all [ltV]
    exact Dec.cmp_lt_trans _ _ _ h1 h2
  · unfold ltV at h2; split at h2 <;> simp_all [ltV]
    exact String.compare_lt_trans _ _ _ h1 h2
  · unfold ltV at h2; split at h2 <;> simp_all [ltV]
    rw [datePartialCmp_lt_iff] at *
    omega
  · unfold ltV at h2; split at h2 <;> simp_all [ltV]
    rw [optBool_true_iff] at h1 h2 ⊢
    exact instantLt_trans _ _ _ h1 h2
  · unfold ltV at h2; split at h2 <;> simp_all [ltV]
    rw [optBool_true_iff] at h1 h2 ⊢
    exact instantLt_trans _ _ _ h1 h2
  · unfold ltV at h2; split at h2 <;> simp_all [ltV]
    omega
  · unfold ltV at h2; split at h2 <;> simp_all [ltV]
    omega
  · simp at h1

example : ltV (.num ⟨false, 1, 0⟩) (.num ⟨false, 15, -1⟩) = .bool true ∧
    ltV (.num ⟨false, 15, -1⟩) (.num ⟨false, 2, 0⟩) = .bool true := ⟨rfl, rfl⟩

/-! ## mirrors -/

theorem instantCompare?_swap (a b : Instant) :
    instantCompare? b a = (instantCompare? a b).map Ordering.swap := by
  unfold instantCompare?
  cases a.key <;> cases b.key <;> simp
  exact Std.OrientedCmp.eq_swap

theorem int_cmp_cases (x y : Int) :
    (x < y ∧ compare x y = .lt) ∨ (x = y ∧ compare x y = .eq) ∨ (y < x ∧ compare x y = .gt) := by
  rcases Int.lt_trichotomy x y with h | h | h
  · exact .inl ⟨h, by simp [compare, compareOfLessAndEq, h]⟩
  · exact .inr (.inl ⟨h, by simp [compare, compareOfLessAndEq, h]⟩)
  · refine .inr (.inr ⟨h, ?_⟩)
    have h1 : ¬ x < y := by omega
    have h2 : ¬ x = y := by omega
    simp [compare, compareOfLessAndEq, h1, h2]

theorem lt_gt_mirror (a b : Value) : ltV a b = gtV b a := by
  cases a <;> cases b <;> simp [ltV, gtV]
  · rename_i x y; rw [Dec.cmp_swap x y]; cases Dec.cmp x y <;> rfl
  · rename_i x y; rw [String.compare_swap' x y]; cases compare x y <;> rfl
  · rename_i y1 m1 d1 y2 m2 d2
    rw [datePartialCmp_eq, datePartialCmp_eq, dateTupleCmp_swap y1 m1 d1 y2 m2 d2]
    cases dateTupleCmp y1 m1 d1 y2 m2 d2 <;> rfl
  · rename_i x y; rw [instantCompare?_swap x y]; cases instantCompare? x y <;> simp [optBool]
    rename_i o; cases o <;> rfl
  · rename_i x y; rw [instantCompare?_swap x y]; cases instantCompare? x y <;> simp [optBool]
    rename_i o; cases o <;> rfl

theorem le_ge_mirror (a b : Value) : leV a b = geV b a := by
  cases a <;> cases b <;> simp [leV, geV]
  · rename_i x y; rw [Dec.cmp_swap x y]; cases Dec.cmp x y <;> rfl
  · rename_i x y; rw [String.compare_swap' x y]; cases compare x y <;> rfl
  · rename_i y1 m1 d1 y2 m2 d2
    rw [datePartialCmp_eq, datePartialCmp_eq, dateTupleCmp_swap y1 m1 d1 y2 m2 d2]
    cases dateTupleCmp y1 m1 d1 y2 m2 d2 <;> rfl
  · rename_i x y; rw [instantCompare?_swap x y]; cases instantCompare? x y <;> simp [optBool]
    rename_i o; cases o <;> rfl
  · rename_i x y; rw [instantCompare?_swap x y]; cases instantCompare? x y <;> simp [optBool]
    rename_i o; cases o <;> rfl

/-! ## ordered kinds: numbers, strings, dates, durations, times and date-times -/

/-- Both values are numbers, both strings, both dates, both durations of one kind, or both
times / date-times with a position on the UTC line (`key`: absent when chrono cannot
represent the instant, see C15). -/
inductive SameOrderedKind : Value → Value → Prop
  | num (x y : Dec) : SameOrderedKind (.num x) (.num y)
  | str (x y : String) : SameOrderedKind (.str x) (.str y)
  | date (y1 : Int) (m1 d1 : Nat) (y2 : Int) (m2 d2 : Nat) : SameOrderedKind (.date y1 m1 d1) (.date y2 m2 d2)
  | dtDur (x y : Int) : SameOrderedKind (.dtDur x) (.dtDur y)
  | ymDur (x y : Int) : SameOrderedKind (.ymDur x) (.ymDur y)
  | time (x y : Instant) (kx ky : Int) (hx : x.key = some kx) (hy : y.key = some ky) : SameOrderedKind (.time x) (.time y)
  | dateTime (x y : Instant) (kx ky : Int) (hx : x.key = some kx) (hy : y.key = some ky) :
      SameOrderedKind (.dateTime x) (.dateTime y)

theorem int_ops (x y : Int) :
    decide (x < y) = (compare x y == .lt) ∧ (x == y) = (compare x y == .eq) ∧ decide (x > y) = (compare x y == .gt) ∧
    decide (x ≤ y) = (compare x y != .gt) ∧ decide (x ≥ y) = (compare x y != .lt) := by
  rcases int_cmp_cases x y with ⟨h, hc⟩ | ⟨h, hc⟩ | ⟨h, hc⟩ <;> rw [hc]
  · have h1 : ¬ x = y := by omega
    have h2 : ¬ x > y := by omega
    have h3 : x ≤ y := by omega
    have h4 : ¬ x ≥ y := by omega
    simp [h, h1, h2, h3, h4]
  · subst h; simp
  · have h1 : ¬ x = y := by omega
    have h2 : ¬ x < y := by omega
    have h3 : ¬ x ≤ y := by omega
    have h4 : x ≥ y := by omega
    have h5 : x > y := h
    simp [h1, h2, h3, h4, h5]

/-- The three comparisons of two values of one ordered kind, read off one `Ordering`. -/
theorem ordered_ops (a b : Value) (h : SameOrderedKind a b) :
    ∃ o : Ordering, ltV a b = .bool (o == .lt) ∧ eqV a b = .bool (o == .eq) ∧ gtV a b = .bool (o == .gt) ∧
      leV a b = .bool (o != .gt) ∧ geV a b = .bool (o != .lt) := by
  cases h with
  | num x y =>
    refine ⟨Dec.cmp x y, rfl, ?_, rfl, rfl, rfl⟩
    simp [eqV, eqT, Dec.beq]
  | str x y =>
    refine ⟨compare x y, rfl, ?_, rfl, rfl, rfl⟩
    simp only [eqV, eqT]
    by_cases hxy : x = y
    · subst hxy
      rw [(String.compare_eq_iff x x).mpr rfl]
      simp
    · have hne : compare x y ≠ .eq := fun hc => hxy ((String.compare_eq_iff x y).mp hc)
      have hb : (x == y) = false := by simpa using hxy
      rw [hb]
      cases hc : compare x y with
      | lt => rfl
      | gt => rfl
      | eq => exact absurd hc hne
  | date y1 m1 d1 y2 m2 d2 =>
    refine ⟨dateTupleCmp y1 m1 d1 y2 m2 d2, ?_, ?_, ?_, ?_, ?_⟩
    · simp only [ltV, datePartialCmp_eq]
      cases dateTupleCmp y1 m1 d1 y2 m2 d2 <;> rfl
    · simp only [eqV, eqT]
      by_cases hxy : y1 = y2 ∧ m1 = m2 ∧ d1 = d2
      · obtain ⟨rfl, rfl, rfl⟩ := hxy
        rw [(dateTupleCmp_eq_iff y1 m1 d1 y1 m1 d1).mpr ⟨rfl, rfl, rfl⟩]
        simp
      · have hne : dateTupleCmp y1 m1 d1 y2 m2 d2 ≠ .eq :=
          fun hc => hxy ((dateTupleCmp_eq_iff _ _ _ _ _ _).mp hc)
        have hb : (y1 == y2 && m1 == m2 && d1 == d2) = false := by
          cases hb : (y1 == y2 && m1 == m2 && d1 == d2) with
          | false => rfl
          | true =>
            simp only [Bool.and_eq_true, beq_iff_eq] at hb
            exact absurd ⟨hb.1.1, hb.1.2, hb.2⟩ hxy
        rw [hb]
        cases hc : dateTupleCmp y1 m1 d1 y2 m2 d2 with
        | lt => rfl
        | gt => rfl
        | eq => exact absurd hc hne
    · simp only [gtV, datePartialCmp_eq]
      cases dateTupleCmp y1 m1 d1 y2 m2 d2 <;> rfl
    · simp only [leV, datePartialCmp_eq]
      cases dateTupleCmp y1 m1 d1 y2 m2 d2 <;> rfl
    · simp only [geV, datePartialCmp_eq]
      cases dateTupleCmp y1 m1 d1 y2 m2 d2 <;> rfl
  | dtDur x y =>
    obtain ⟨h1, h2, h3, h4, h5⟩ := int_ops x y
    exact ⟨compare x y, by simp only [ltV, h1], by simp only [eqV, eqT, h2], by simp only [gtV, h3],
      by simp only [leV, h4], by simp only [geV, h5]⟩
  | ymDur x y =>
    obtain ⟨h1, h2, h3, h4, h5⟩ := int_ops x y
    exact ⟨compare x y, by simp only [ltV, h1], by simp only [eqV, eqT, h2], by simp only [gtV, h3],
      by simp only [leV, h4], by simp only [geV, h5]⟩
  | time x y kx ky hx hy =>
    exact ⟨compare kx ky, by simp [ltV, instantCompare?, hx, hy, optBool], by simp [eqV, eqT, instantCompare?, hx, hy],
      by simp [gtV, instantCompare?, hx, hy, optBool], by simp [leV, instantCompare?, hx, hy, optBool],
      by simp [geV, instantCompare?, hx, hy, optBool]⟩
  | dateTime x y kx ky hx hy =>
    exact ⟨compare kx ky, by simp [ltV, instantCompare?, hx, hy, optBool], by simp [eqV, eqT, instantCompare?, hx, hy],
      by simp [gtV, instantCompare?, hx, hy, optBool], by simp [leV, instantCompare?, hx, hy, optBool],
      by simp [geV, instantCompare?, hx, hy, optBool]⟩

/-- For two values of one ordered kind exactly one of `a < b`, `a = b`, `a > b` is true
(and the other two are false, never null). -/
theorem trichotomy (a b : Value) (h : SameOrderedKind a b) :
    (ltV a b = .bool true ∧ eqV a b = .bool false ∧ gtV a b = .bool false) ∨
    (ltV a b = .bool false ∧ eqV a b = .bool true ∧ gtV a b = .bool false) ∨
    (ltV a b = .bool false ∧ eqV a b = .bool false ∧ gtV a b = .bool true) := by
  obtain ⟨o, h1, h2, h3, _, _⟩ := ordered_ops a b h
  rw [h1, h2, h3]
  cases o <;> simp

/-- `a <= b` is `(a < b or a = b)`. -/
theorem le_iff_lt_or_eq (a b : Value) (h : SameOrderedKind a b) :
    leV a b = or3 (ltV a b) (eqV a b) := by
  obtain ⟨o, h1, h2, _, h4, _⟩ := ordered_ops a b h
  rw [h1, h2, h4]
  cases o <;> rfl

/-! ## `<=` and `>=`: a total preorder on every ordered kind, antisymmetric up to `=` -/

/-- `a <= b` is true only between two values of one ordered kind (for times and date-times: with a position on the
UTC line). -/
theorem le_true_same_kind (a b : Value) (h : leV a b = .bool true) : SameOrderedKind a b := by
  unfold leV at h
  split at h
  · exact .num ..
  · exact .str ..
  · exact .date ..
  · rename_i x y
    rw [optBool_true_iff] at h
    unfold instantCompare? at h
    cases hx : x.key <;> cases hy : y.key <;> simp [hx, hy] at h
    exact .time _ _ _ _ hx hy
  · rename_i x y
    rw [optBool_true_iff] at h
    unfold instantCompare? at h
    cases hx : x.key <;> cases hy : y.key <;> simp [hx, hy] at h
    exact .dateTime _ _ _ _ hx hy
  · exact .dtDur ..
  · exact .ymDur ..
  · simp at h

/-- `a < b` is true only between two values of one ordered kind. -/
theorem lt_true_same_kind (a b : Value) (h : ltV a b = .bool true) : SameOrderedKind a b := by
  unfold ltV at h
  split at h
  · exact .num ..
  · exact .str ..
  · exact .date ..
  · rename_i x y
    rw [optBool_true_iff] at h
    unfold instantCompare? at h
    cases hx : x.key <;> cases hy : y.key <;> simp [hx, hy] at h
    exact .time _ _ _ _ hx hy
  · rename_i x y
    rw [optBool_true_iff] at h
    unfold instantCompare? at h
    cases hx : x.key <;> cases hy : y.key <;> simp [hx, hy] at h
    exact .dateTime _ _ _ _ hx hy
  · exact .dtDur ..
  · exact .ymDur ..
  · simp at h

theorem dateLe_trans {y1 : Int} {m1 d1 : Nat} {y2 : Int} {m2 d2 : Nat} {y3 : Int} {m3 d3 : Nat}
    (h1 : dateTupleCmp y1 m1 d1 y2 m2 d2 = .lt ∨ dateTupleCmp y1 m1 d1 y2 m2 d2 = .eq)
    (h2 : dateTupleCmp y2 m2 d2 y3 m3 d3 = .lt ∨ dateTupleCmp y2 m2 d2 y3 m3 d3 = .eq) :
    dateTupleCmp y1 m1 d1 y3 m3 d3 = .lt ∨ dateTupleCmp y1 m1 d1 y3 m3 d3 = .eq := by
  have g1 : dateTupleCmp y1 m1 d1 y2 m2 d2 ≠ .gt := by rcases h1 with h | h <;> simp [h]
  have g2 : dateTupleCmp y2 m2 d2 y3 m3 d3 ≠ .gt := by rcases h2 with h | h <;> simp [h]
  have := dateTupleCmp_le_trans _ _ _ _ _ _ _ _ _ g1 g2
  cases hc : dateTupleCmp y1 m1 d1 y3 m3 d3 <;> simp_all

/-- Totality: of two values of one ordered kind one is `<=` the other. -/
theorem le_total (a b : Value) (h : SameOrderedKind a b) : leV a b = .bool true ∨ leV b a = .bool true := by
  obtain ⟨o, _, _, _, h4, h5⟩ := ordered_ops a b h
  rw [le_ge_mirror b a, h4, h5]
  cases o <;> simp

/-- Reflexivity on every ordered kind. -/
theorem le_refl (a : Value) (h : SameOrderedKind a a) : leV a a = .bool true := by
  rcases le_total a a h with h | h <;> exact h

/-- Antisymmetry up to `=`: `a <= b` and `b <= a` make `a = b` true — for ALL values (the premises hold only
between values of one ordered kind). -/
theorem le_antisymm (a b : Value) (h1 : leV a b = .bool true) (h2 : leV b a = .bool true) :
    eqV a b = .bool true := by
  obtain ⟨o, _, he, _, h4, h5⟩ := ordered_ops a b (le_true_same_kind a b h1)
  rw [le_ge_mirror b a, h5] at h2
  rw [h4] at h1
  rw [he]
  cases o <;> simp_all

/-- and conversely `a = b` between two values of one ordered kind makes `a <= b` and `b <= a` true. -/
theorem le_of_eq (a b : Value) (h : SameOrderedKind a b) (he : eqV a b = .bool true) :
    leV a b = .bool true ∧ leV b a = .bool true := by
  obtain ⟨o, _, he', _, h4, h5⟩ := ordered_ops a b h
  rw [le_ge_mirror b a, h4, h5]
  rw [he'] at he
  cases o <;> simp_all

/-- `<=` is transitive — on all values. -/
theorem le_trans (a b c : Value) (h1 : leV a b = .bool true) (h2 : leV b c = .bool true) :
    leV a c = .bool true := by
  unfold leV at h1
  split at h1
  · unfold leV at h2; split at h2 <;> simp_all [leV]
    exact Dec.cmp_le_trans _ _ _ h1 h2
  · unfold leV at h2; split at h2 <;> simp_all [leV]
    exact String.compare_le_trans _ _ _ h1 h2
  · unfold leV at h2; split at h2 <;> simp_all [leV, datePartialCmp_eq]
    exact dateLe_trans h1 h2
  · unfold leV at h2; split at h2 <;> simp_all [leV]
    rw [optBool_true_iff] at h1 h2 ⊢
    exact instantLe_trans _ _ _ h1 h2
  · unfold leV at h2; split at h2 <;> simp_all [leV]
    rw [optBool_true_iff] at h1 h2 ⊢
    exact instantLe_trans _ _ _ h1 h2
  · unfold leV at h2; split at h2 <;> simp_all [leV]
    omega
  · unfold leV at h2; split at h2 <;> simp_all [leV]
    omega
  · simp at h1

/-- `>=` is transitive — on all values. -/
theorem ge_trans (a b c : Value) (h1 : geV a b = .bool true) (h2 : geV b c = .bool true) :
    geV a c = .bool true := by
  rw [← le_ge_mirror] at *
  exact le_trans c b a h2 h1

/-- `<` and `<=` compose: `a < b` and `b <= c` make `a < c` true (and likewise `a <= b`, `b < c`). -/
theorem lt_of_lt_of_le (a b c : Value) (h1 : ltV a b = .bool true) (h2 : leV b c = .bool true) :
    ltV a c = .bool true := by
  have hbc := le_true_same_kind b c h2
  obtain ⟨o, hlt, heq, _, hle, _⟩ := ordered_ops b c hbc
  rw [hle] at h2
  cases o with
  | lt => exact lt_trans a b c h1 (by rw [hlt]; rfl)
  | gt => simp at h2
  | eq =>
    -- b = c: `a <= c` by transitivity, and `c <= a` would give `b <= a`, against `a < b`
    have hab : SameOrderedKind a b := lt_true_same_kind a b h1
    obtain ⟨o1, hlt1, _, _, hle1, hge1⟩ := ordered_ops a b hab
    rw [hlt1] at h1
    have ho1 : o1 = .lt := by cases o1 <;> simp_all
    subst ho1
    have hleab : leV a b = .bool true := by rw [hle1]; rfl
    have hlebc : leV b c = .bool true := by rw [hle]; rfl
    have hac := le_trans a b c hleab hlebc
    have hkac := le_true_same_kind a c hac
    obtain ⟨o2, hlt2, _, _, hle2, hge2⟩ := ordered_ops a c hkac
    rw [hlt2]
    cases o2 with
    | lt => rfl
    | gt => rw [hle2] at hac; simp at hac
    | eq =>
      -- a = c would give c <= a, hence b <= a
      have hca : leV c a = .bool true := by rw [le_ge_mirror c a, hge2]; rfl
      have hba := le_trans b c a hlebc hca
      rw [le_ge_mirror b a, hge1] at hba
      simp at hba

example : leV (.num ⟨false, 10, -1⟩) (.num ⟨false, 1, 0⟩) = .bool true ∧ leV (.num ⟨false, 1, 0⟩) (.num ⟨false, 10, -1⟩) = .bool true ∧
    eqV (.num ⟨false, 10, -1⟩) (.num ⟨false, 1, 0⟩) = .bool true := ⟨rfl, rfl, rfl⟩

example : ltV (.num ⟨false, 1, 0⟩) (.num ⟨false, 15, -1⟩) = .bool true ∧
    leV (.num ⟨false, 15, -1⟩) (.num ⟨false, 150, -2⟩) = .bool true := ⟨rfl, rfl⟩

/-! ## between / in / conjunction -/

/-- `x in <a..b>` with brackets `lc`, `rc` is the conjunction of the two comparisons, a closed
end corresponding to `<=` and an open end to `<`. -/
theorem in_range_is_conjunction (x a b : Value) (lc rc : Bool)
    (h1 : SameOrderedKind x a) (h2 : SameOrderedKind x b) :
    inRangeV x (.range a lc b rc) =
      and3 (if lc then leV a x else ltV a x) (if rc then leV x b else ltV x b) := by
  cases h1 with
  | num v a' =>
    cases h2 with
    | num _ b' =>
      simp only [inRangeV, leV, ltV]
      rw [Dec.cmp_swap v a']
      cases lc <;> cases rc <;> cases Dec.cmp v a' <;> cases Dec.cmp v b' <;> rfl
  | str v a' =>
    cases h2 with
    | str _ b' =>
      simp only [inRangeV, leV, ltV]
      rw [String.compare_swap' v a']
      cases lc <;> cases rc <;> cases compare v a' <;> cases compare v b' <;> rfl
  | date y m d y1 m1 d1 =>
    cases h2 with
    | date _ _ _ y2 m2 d2 =>
      simp only [inRangeV, leV, ltV, datePartialCmp_eq, dateCompare?, betweenOrd?, optBool]
      rw [dateTupleCmp_swap y m d y1 m1 d1]
      cases lc <;> cases rc <;> cases dateTupleCmp y m d y1 m1 d1 <;>
        cases dateTupleCmp y m d y2 m2 d2 <;> rfl
  | dtDur v a' =>
    cases h2 with
    | dtDur _ b' =>
      cases lc <;> cases rc <;> simp [inRangeV, leV, ltV, and3, GE.ge, GT.gt]
  | ymDur v a' =>
    cases h2 with
    | ymDur _ b' =>
      cases lc <;> cases rc <;> simp [inRangeV, leV, ltV, and3, GE.ge, GT.gt]
  | time x a kx ka hx ha =>
    cases h2 with
    | time _ b kx' kb hx' hb =>
      have hk : kx' = kx := by rw [hx] at hx'; exact (Option.some.inj hx').symm
      subst hk
      simp only [inRangeV, leV, ltV, instantCompare?, hx, ha, hb, optBool, betweenOrd?, Option.map]
      rw [show compare ka kx' = (compare kx' ka).swap from Std.OrientedCmp.eq_swap]
      cases lc <;> cases rc <;> cases compare kx' ka <;> cases compare kx' kb <;> rfl
  | dateTime x a kx ka hx ha =>
    cases h2 with
    | dateTime _ b kx' kb hx' hb =>
      have hk : kx' = kx := by rw [hx] at hx'; exact (Option.some.inj hx').symm
      subst hk
      simp only [inRangeV, leV, ltV, instantCompare?, hx, ha, hb, optBool, betweenOrd?, Option.map]
      rw [show compare ka kx' = (compare kx' ka).swap from Std.OrientedCmp.eq_swap]
      cases lc <;> cases rc <;> cases compare kx' ka <;> cases compare kx' kb <;> rfl

/-- `x between a and b`, `x in [a..b]` and `a <= x and x <= b` agree. -/
theorem between_in_agree (x a b : Value) (h1 : SameOrderedKind x a) (h2 : SameOrderedKind x b) :
    betweenV x a b = inRangeV x (.range a true b true) ∧
    betweenV x a b = and3 (leV a x) (leV x b) := by
  have h := in_range_is_conjunction x a b true true h1 h2
  simp only [if_true] at h
  refine ⟨?_, ?_⟩
  · cases h1 with
    | num v a' =>
      cases h2 with
      | num _ b' =>
        simp only [betweenV, inRangeV]
        rw [Dec.cmp_swap v a']
        cases Dec.cmp v a' <;> cases Dec.cmp v b' <;> rfl
    | str v a' =>
      cases h2 with
      | str _ b' =>
        simp only [betweenV, inRangeV]
        rw [String.compare_swap' v a']
        cases compare v a' <;> cases compare v b' <;> rfl
    | date y m d y1 m1 d1 =>
      cases h2 with
      | date _ _ _ y2 m2 d2 => rfl
    | dtDur v a' =>
      cases h2 with
        | dtDur _ b' =>
        simp [betweenV, inRangeV, and3, GE.ge, GT.gt]
    | ymDur v a' =>
      cases h2 with
        | ymDur _ b' =>
        simp [betweenV, inRangeV, and3, GE.ge, GT.gt]
    | time x a kx ka hx ha =>
      cases h2 with
      | time _ b kx' kb hx' hb => rfl
    | dateTime x a kx ka hx ha =>
      cases h2 with
      | dateTime _ b kx' kb hx' hb => rfl
  · rw [← h]
    cases h1 with
    | num v a' =>
      cases h2 with
      | num _ b' =>
        simp only [betweenV, inRangeV]
        rw [Dec.cmp_swap v a']
        cases Dec.cmp v a' <;> cases Dec.cmp v b' <;> rfl
    | str v a' =>
      cases h2 with
      | str _ b' =>
        simp only [betweenV, inRangeV]
        rw [String.compare_swap' v a']
        cases compare v a' <;> cases compare v b' <;> rfl
    | date y m d y1 m1 d1 =>
      cases h2 with
      | date _ _ _ y2 m2 d2 => rfl
    | dtDur v a' =>
      cases h2 with
        | dtDur _ b' =>
        simp [betweenV, inRangeV, and3, GE.ge, GT.gt]
    | ymDur v a' =>
      cases h2 with
        | ymDur _ b' =>
        simp [betweenV, inRangeV, and3, GE.ge, GT.gt]
    | time x a kx ka hx ha =>
      cases h2 with
      | time _ b kx' kb hx' hb => rfl
    | dateTime x a kx ka hx ha =>
      cases h2 with
      | dateTime _ b kx' kb hx' hb => rfl

/-- `x between a and b` and `x in [a..b]` are the same function of ALL values - of one ordered kind or not, null
included: outside one ordered kind both are null (the two evaluators, `build_between` and `eval_in_range`, are written
separately). `between_in_agree` adds the conjunction of the two comparisons for operands of one ordered kind; for mixed
kinds the conjunction can be false where `between` is null (`1 between 2 and "a"`: `2 <= 1` is false). -/
theorem between_eq_in_closed (x a b : Value) : betweenV x a b = inRangeV x (.range a true b true) := by
  cases x with
  | num v =>
    cases a with
    | num a' =>
      cases b with
      | num b' =>
        simp only [betweenV, inRangeV]
        rw [Dec.cmp_swap v a']
        cases Dec.cmp v a' <;> cases Dec.cmp v b' <;> rfl
      | _ => rfl
    | _ => cases b <;> rfl
  | str v =>
    cases a with
    | str a' =>
      cases b with
      | str b' =>
        simp only [betweenV, inRangeV]
        rw [String.compare_swap' v a']
        cases compare v a' <;> cases compare v b' <;> rfl
      | _ => rfl
    | _ => cases b <;> rfl
  | date y m d =>
    cases a with
    | date y1 m1 d1 => cases b <;> rfl
    | _ => cases b <;> rfl
  | time t =>
    cases a with
    | time t1 => cases b <;> rfl
    | _ => cases b <;> rfl
  | dateTime t =>
    cases a with
    | dateTime t1 => cases b <;> rfl
    | _ => cases b <;> rfl
  | dtDur v =>
    cases a with
    | dtDur a' =>
      cases b with
      | dtDur b' => simp [betweenV, inRangeV, GE.ge]
      | _ => rfl
    | _ => cases b <;> rfl
  | ymDur v =>
    cases a with
    | ymDur a' =>
      cases b with
      | ymDur b' => simp [betweenV, inRangeV, GE.ge]
      | _ => rfl
    | _ => cases b <;> rfl
  | _ => rfl

theorem between_mixed_kinds_counterexample :
    betweenV (.num ⟨false, 1, 0⟩) (.num ⟨false, 2, 0⟩) (.str "a") = .null ∧
    and3 (leV (.num ⟨false, 2, 0⟩) (.num ⟨false, 1, 0⟩)) (leV (.num ⟨false, 1, 0⟩) (.str "a")) = .bool false := by
  constructor <;> rfl

/-! ## non-vacuity -/

example : WF (.ctx [("a", .num ⟨false, 1, 0⟩), ("b", .str "x")]) ∧
    WF (.ctx [("b", .num ⟨false, 1, 0⟩), ("c", .num ⟨false, 1, 0⟩)]) := by
  simp [WF, WFEntries, Ctx.WF]

example : SameOrderedKind (.date 999999 1 1) (.date 999999 1 2) := .date ..
example : SameOrderedKind (.dtDur 86400000000000) (.dtDur (-1)) := .dtDur ..
example : SameOrderedKind (.dateTime ⟨"2021-01-01T00:00:00Z", some 0⟩) (.dateTime ⟨"2021-01-01T00:00:01Z", some 1000000000⟩) :=
  .dateTime _ _ 0 1000000000 rfl rfl

end Dmn.Value
