import Dmn.Model.Drg
import Dmn.Model.DrgSpec
import Dmn.Lemmas.Drg
import Dmn.Lemmas.DrgFuel
import Dmn.Lemmas.DrgSpec
import Dmn.Lemmas.DrgService
import Dmn.Lemmas.DrgContext
import Dmn.Lemmas.DrgBuild
import Dmn.Lemmas.DrgDfs
import Dmn.Lemmas.DrgTable
import Dmn.Lemmas.DrgScope
import Dmn.Lemmas.DrgDen
import Dmn.Lemmas.DrgEquation
import Dmn.Props.C03
import Dmn.Props.C11
import Dmn.Lemmas.EvalM

/-!
# C04 — a decision's value is its logic evaluated over its requirement graph

Model: `Dmn/Model/Drg.lean` (what the code does: `graphStep` = one closure of each kind,
`graphAt` = levels of requirement edges, `level` = the FEEL evaluator that knows decision
services, `evaluateInvocable`), `Dmn/Model/DrgSpec.lean` (what the property prescribes).
Lemmas: `Dmn/Lemmas/Drg.lean` (non-interference invariant), `DrgFuel.lean` (ranked graphs),
`DrgSpec.lean` (model = specification), `DrgContext.lean` (lookups in the evaluation context),
`DrgService.lean` (output loop), `DrgTable.lean` (shape of evaluated decision tables); the decision
table and item definition models are those of C03 / C11 (`Dmn/Model/DrgTable.lean` connects them).

Theorems: `irrelevant_inputs` (+ per kind) · `eval_invocable_spec` (+ per kind; full strength
since the repairs of F14 and F28), `decision_context_spec`, `knowledge_model_bound`, `table_logic_spec`, `table_decision_spec`
(decision tables as logic, through C03), `item_typed_variable_spec`,
`item_typed_variable_conforming` (item definitions, through C11) ·
`service_outputs` · `graph_bottom_never_reached`, `acyclic_fuel_suffices_ranked`,
`acyclic_fuel_suffices`, `acyclic_complete` · `built_graph_ranked`, `built_graph_fuel_suffices`,
`check_requirements_complete` (`check_requirements` of `ModelEvaluator::new`) ·
`boxed_denotation`, `boxed_denotation_level` (`evalBoxed` = the stateless denotation `denBoxed`,
`Dmn/Model/DrgDen.lean`) · `decision_value_is_logic_over_requirements` (+ `_ranked`, `built_graph_decision_value`:
the property statement as one equation, for every acyclic graph), `requirement_env_binds`,
`decision_values_unique` (the equation has one solution, by induction on the topological rank).
-/

namespace Dmn.Drg

/-! ## Non-interference -/

/-- Input entries outside the requirement closure of a decision have no influence: two input
contexts that agree on `closureNames` give the same outcome (value, panic or divergence), for
every graph — acyclic or not —, every logic and every fuel. -/
theorem irrelevant_inputs_decision (base : Env) (g : Drg) (ff gf : Nat) (id : String) (c1 c2 : Ctx)
    (h : AgreeOn ((depsAt g gf).decision id) c1 c2) :
    evalDecision base g ff gf id c1 = evalDecision base g ff gf id c2 := by
  unfold evalDecision
  rw [level_graph]
  rw [(sound_graphAt g _ gf).dec id c1 c2 [] [] h]

/-- The same for a decision service invoked by name. -/
theorem irrelevant_inputs_service (base : Env) (g : Drg) (ff gf : Nat) (id : String) (c1 c2 : Ctx)
    (h : AgreeOn ((depsAt g gf).service id) c1 c2) :
    evalService base g ff gf id c1 = evalService base g ff gf id c2 := by
  unfold evalService
  rw [level_graph]
  rw [(sound_graphAt g _ gf).svc id c1 c2 [] h]

/-- The same for a knowledge model invoked by name: beside the closure of its knowledge
requirements only the entries named like its formal parameters matter. -/
theorem irrelevant_inputs_bkm (base : Env) (g : Drg) (ff gf : Nat) (id var : String) (c1 c2 : Ctx)
    (hv : ∀ b, g.findBkm id = some b → b.var = var)
    (h : AgreeOn ((depsAt g gf).bkm id ++ (match g.findBkm id with
      | some b => b.params.map Prod.fst
      | none => [])) c1 c2) :
    evalBkm base g ff gf id var c1 = evalBkm base g ff gf id var c2 := by
  unfold evalBkm evalBkmInvocable
  rw [level_graph]
  rw [(sound_graphAt g _ gf).bkm id c1 c2 [] h.left]
  cases he : (graphAt g (level base g gf ff).env divergeGraph gf).bkm id c2 [] with
  | panic p => rfl
  | diverge => rfl
  | ok evaluated =>
    simp only []
    cases hf : g.findBkm id with
    | none =>
      -- no closure registered: nothing was evaluated
      have : evaluated = [] := by
        cases gf <;> simp [graphAt, graphStep, hf] at he <;> exact he
      subst this
      simp [Ctx.get]
    | some b =>
      have hown := bkm_own_entry g _ gf id b c2 evaluated hf he
      rw [hv b hf] at hown
      rw [hown]
      simp only []
      have hp : AgreeOn (b.params.map Prod.fst) c1 c2 := by
        have := h.right
        rw [hf] at this
        exact this
      rw [bkmArgs_congr b.params c1 c2 hp]

/-- **Non-interference**, the last sentence of C04: if two input contexts agree on every name in
the requirement closure of the invoked element (`closureNames`: required inputs, the variables
of required decisions, knowledge models and decision services, the formal parameters of an
invoked knowledge model), `evaluate_invocable` gives the same outcome on both. -/
theorem irrelevant_inputs (base : Env) (g : Drg) (ff gf : Nat) (name : String) (c1 c2 : Ctx)
    (hwf : g.bkmVarsConsistent = true)
    (h : AgreeOn (closureNames g gf name) c1 c2) :
    evaluateInvocable base g ff gf name c1 = evaluateInvocable base g ff gf name c2 := by
  unfold evaluateInvocable
  unfold closureNames at h
  cases hi : g.invocable name with
  | none => rfl
  | some i =>
    rw [hi] at h
    cases i with
    | decision id => exact irrelevant_inputs_decision base g ff gf id c1 c2 h
    | service id => exact irrelevant_inputs_service base g ff gf id c1 c2 h
    | bkm id var =>
      refine irrelevant_inputs_bkm base g ff gf id var c1 c2 ?_ h
      -- the variable recorded in `invocable_by_name` is the one of the registered closure
      intro b' hb'
      unfold invocable at hi
      split at hi
      · cases hi
      · split at hi
        · cases hi
        · split at hi
          · rename_i b hb
            cases hi
            have hmem := findLast?_mem _ _ _ hb
            have := List.all_eq_true.mp hwf b hmem
            rw [hb'] at this
            simpa using this
          · cases hi

/-- Non-vacuity: `B` requires `A` and the input `x`; the closure is `x` alone — `Z` and `A` (the
variable of the required decision, which input data no longer replace) are outside. -/
example :
    let g : Drg := {
      inputs := [{ id := "_x", name := "x", ty := .simple .number }],
      decisions := [
        { id := "_a", name := "A", var := "A", ty := .untyped, reqInputs := [], reqDecisions := [],
          reqKnowledge := [], logic := .numeric "1" "" },
        { id := "_b", name := "B", var := "B", ty := .untyped, reqInputs := ["_x"], reqDecisions := ["_a"],
          reqKnowledge := [], logic := .add (.name "A") (.name "x") }],
      bkms := [], services := [] }
    closureNames g 2 "B" = ["x"] ∧ g.bkmVarsConsistent = true ∧
      AgreeOn (closureNames g 2 "B") [("A", .null), ("Z", .null), ("x", .bool true)] [("x", .bool true)] := by
  intro g
  have hc : closureNames g 2 "B" = ["x"] := by decide
  refine ⟨hc, by decide, ?_⟩
  intro k hk
  rw [hc] at hk
  have : k = "x" := by simpa using hk
  subst this
  rfl

/-! ## The value of a decision is its logic evaluated over its requirement graph

`Dmn.Drg.Spec` (Model/DrgSpec.lean) is the evaluation C04 prescribes: the logic of a decision is
evaluated in the context that binds every required input to the supplied, type-checked value,
every required decision's variable to that decision's own value (recursively), every required
knowledge model / decision service to its function value, and the result is coerced to the
output type (`decision_context_spec` below spells the context out).  Since the repairs of
findings F14 (input data replaced required decisions) and F28 (a decision service required by a
knowledge model was evaluated, not bound) the code does exactly this: model and specification
coincide for every graph (acyclic or not), every input context and every fuel.
-/

/-- The value of a decision invoked by name is the one the specification prescribes. -/
theorem eval_decision_spec (base : Env) (g : Drg) (ff gf : Nat) (id : String) (input : Ctx) :
    evalDecision base g ff gf id input = Spec.evalDecision base g ff gf id input := by
  unfold evalDecision Spec.evalDecision
  rw [level_graph' base g gf ff, spec_level_graph base g gf ff, ← level_env_rel base g gf ff]
  rw [(rel_graphAt g (level base g gf ff).env gf).dec id [] input []]

/-- A decision service invoked by name. -/
theorem eval_service_spec (base : Env) (g : Drg) (ff gf : Nat) (id : String) (input : Ctx) :
    evalService base g ff gf id input = Spec.evalService base g ff gf id input := by
  unfold evalService Spec.evalService
  rw [level_graph' base g gf ff, spec_level_graph base g gf ff, ← level_env_rel base g gf ff]
  rw [(rel_graphAt g (level base g gf ff).env gf).svc id input []]

/-- A knowledge model invoked by name. -/
theorem eval_bkm_spec (base : Env) (g : Drg) (ff gf : Nat) (id var : String) (input : Ctx) :
    evalBkm base g ff gf id var input = Spec.evalBkm base g ff gf id var input := by
  unfold evalBkm evalBkmInvocable Spec.evalBkm
  simp only []
  rw [level_graph' base g gf ff, spec_level_graph base g gf ff, ← level_env_rel base g gf ff]
  rw [(rel_graphAt g (level base g gf ff).env gf).bkm id input []]
  cases (Spec.graphAt g (level base g gf ff).env Spec.divergeGraph gf).bkm id [] with
  | panic p => rfl
  | diverge => rfl
  | ok evaluated =>
    simp only []
    cases Ctx.get evaluated var with
    | none => rfl
    | some v =>
      cases v <;> rfl

/-- **`evaluate_invocable` is the specification**, at full strength: for every graph, name,
input context and fuel. -/
theorem eval_invocable_spec (base : Env) (g : Drg) (ff gf : Nat) (name : String) (input : Ctx) :
    evaluateInvocable base g ff gf name input = Spec.evaluateInvocable base g ff gf name input := by
  unfold evaluateInvocable Spec.evaluateInvocable
  cases g.invocable name with
  | none => rfl
  | some i =>
    cases i with
    | decision id => exact eval_decision_spec base g ff gf id input
    | service id => exact eval_service_spec base g ff gf id input
    | bkm id var => exact eval_bkm_spec base g ff gf id var input

/-- **What the specification's decision closure evaluates** (`eval_decision_spec`, spelled out).
For a decision `d` invoked at top level (no enclosing decision service), over registries one
level below: once its knowledge requirements (`k1`: the function values of the required
knowledge models) and required decisions (`k3`) are evaluated, the value of `d` is its logic
evaluated in the single context `Γ = decisionContext`, coerced to the output type, and `Γ` binds

* the variable of a required decision to **that decision's own value** (`decisionBinding`:
  `Spec.decisionValue` of the last required decision with this variable — recursively the same
  statement),
* otherwise the variable of a required decision service to the service as a function,
* otherwise a name the required knowledge models wrote to that function value,
* otherwise the name of a required input to the supplied value, type-checked (`inputBinding`),
* nothing else. -/
theorem decision_context_spec (g : Drg) (env : Env) (p : Spec.SGraph) (hp : WFP p) (d : Decision)
    (input k1 k3 : Ctx)
    (hk1 : foldCtx (fun id c => Spec.callBkm g (Spec.graphStep g env p) id c) d.reqKnowledge [] = .ok k1)
    (hk3 : foldCtx (fun id c => dropName (Spec.callDecision g (Spec.graphStep g env p) id [] input c))
      d.reqDecisions (g.serviceFns d.reqKnowledge k1) = .ok k3) :
    Spec.decisionValue g env (Spec.graphStep g env p) d [] input =
      Spec.coerceResult (d.ty.ftype g.items) (evalBoxed env d.logic [Spec.decisionContext g d [] input k3]) ∧
    ∀ n, Ctx.get (Spec.decisionContext g d [] input k3) n =
      match Spec.decisionBinding g env p [] input n d.reqDecisions with
      | some v => some v
      | none =>
        match Spec.serviceBinding g n d.reqKnowledge with
        | some f => some f
        | none =>
          match Ctx.get k1 n with
          | some f => some f
          | none => Spec.inputBinding g input n d.reqInputs := by
  refine ⟨?_, fun n => ?_⟩
  · simp only [Spec.decisionValue, hk1, hk3]
  · have hwf := required_ctx_WF g _ (wfp_step g env p hp) d [] input k1 k3 hk1 hk3
    simp only [Spec.decisionContext, overwrite_nil]
    rw [get_zip _ _ hwf, decisions_get g env p [] input d.reqDecisions _ k3 n hk3]
    cases Spec.decisionBinding g env p [] input n d.reqDecisions with
    | some v => rfl
    | none =>
      simp only []
      rw [serviceFns_get]
      cases Spec.serviceBinding g n d.reqKnowledge with
      | some f => rfl
      | none =>
        simp only []
        cases Ctx.get k1 n with
        | some f => rfl
        | none =>
          simp only []
          rw [typedInputs_get]
          cases Spec.inputBinding g input n d.reqInputs <;> rfl

/-- Non-vacuity: the registries of every level satisfy the hypothesis of `decision_context_spec`. -/
example (g : Drg) (env : Env) (n : Nat) : WFP (Spec.graphAt g env Spec.divergeGraph n) := wfp_graphAt g env n

/-- A knowledge model's closure leaves its function value — formal parameters, body, result
type — under the model's variable (code and specification alike). -/
theorem knowledge_model_bound (g : Drg) (env : Env) (gf : Nat) (id : String) (b : Bkm) (input evaluated : Ctx)
    (hf : g.findBkm id = some b)
    (h : (graphAt g env divergeGraph gf).bkm id input [] = .ok evaluated) :
    Ctx.get evaluated b.var = some (.fn b.params b.body (b.ty.ftype g.items)) :=
  bkm_own_entry g env gf id b input evaluated hf h

/-! ### variables typed by item definitions

An input data element, or the variable of a decision that is an input decision of a decision
service, whose `typeRef` names an item definition is bound to the entry checked by that
definition's evaluator — the model of C11 (`Dmn.ID`), whose theorems apply: -/

/-- The value that reaches the logic is the projection C11 specifies (`Spec.project`: the value
itself when it conforms to the definition — type, components, collection, allowed values —,
null otherwise; for a collection or component type null as a whole). -/
theorem item_typed_variable_spec (defs : ID.Defs) (n : ID.Name) (t : ID.ItemDef) (name : String) (c : Ctx)
    (v : Value) (x : DTValue) (hv : Ctx.get c name = some v) (hx : DT.toDT v = some x)
    (ht : ID.lookup defs n = some t) :
    VarTy.check defs (.named n) name c = DT.ofDT (ID.Spec.project defs 63 t x) := by
  have hs : ∀ f, ID.eval defs (f + 1) n x = some (ID.check defs f t x) := by
    intro f
    simp only [ID.eval, ID.evaluator, ht, Option.map_some]
    rfl
  have he : ID.eval defs itemFuel n x = some (ID.check defs 63 t x) := hs 63
  simp only [VarTy.check, hv, hx, he]
  exact congrArg DT.ofDT (ID.check_eq_spec defs 63 t x)

/-- A conforming value passes unchanged (up to the translation between the value types). -/
theorem item_typed_variable_conforming (defs : ID.Defs) (n : ID.Name) (t : ID.ItemDef) (name : String) (c : Ctx)
    (v : Value) (x : DTValue) (hv : Ctx.get c name = some v) (hx : DT.toDT v = some x)
    (ht : ID.lookup defs n = some t) (hc : ID.Spec.conforms defs 63 t x = true) :
    VarTy.check defs (.named n) name c = DT.ofDT x := by
  rw [item_typed_variable_spec defs n t name c v x hv hx ht, ID.project_conforming_id defs 63 t x hc]

/-- Non-vacuity: `tN` = numbers among 1, 2; the entry 2 conforms. -/
example : ID.lookup ID.exDefs ['t', 'N'] = some (.simple .number (some (fun v => v = .num 1 || v = .num 2))) ∧
    DT.toDT (.num ⟨false, 2, 0⟩) = some (.num 2) := by
  refine ⟨rfl, by decide⟩

/-! ### decision tables as logic

`irrelevant_inputs` and `eval_invocable_spec` hold for *every* logic — the boxed kinds, decision
tables included, are evaluated by the same `evalBoxed` in the model and in the specification.
What a decision table contributes is its own clause: the value is what the hit policy
prescribes (`Dmn.DT.Spec.evaluate`, property C03) for the matrix of cells evaluated — as FEEL
expressions, `In(input expression, input entry)`, `Out(output entry, output values)` — in the
context of the enclosing element. -/

/-- A decision table evaluates to what its hit policy prescribes for its evaluated cells. -/
theorem table_logic_spec (env : Env) (hitPolicy : String) (hp : DT.HitPolicy) (inputs outputs rules : List Ast)
    (s : Scope) (raw : RawTable) (s' : Scope) (t : DT.Table)
    (hhp : hitPolicyOf hitPolicy = some hp)
    (hshape : tableShapeOk inputs outputs rules = true)
    (hc : evalCells env hp inputs outputs rules s = .ok (raw, s'))
    (ht : raw.toTable = some t) :
    evalBoxed env (Boxed.table hitPolicy inputs outputs rules) s = .ok (DT.ofDT (DT.Spec.evaluate t), s') := by
  have hwf := toTable_WF env hp inputs outputs rules s raw s' t hshape hc ht
  have hev : evalBoxed env (Boxed.table hitPolicy inputs outputs rules) s =
      evalTable env hitPolicy inputs outputs rules s := by
    simp only [Boxed.table, evalBoxed]
  rw [hev]
  simp only [evalTable, hhp, EvalM.bind_def, hc, EvalM.lift, finishTable, ht, DT.evaluate_eq_spec t hwf]

/-- The clause of `eval_decision_spec` for a decision whose logic is a decision table: its value
is the hit policy's result for the cells evaluated in the decision's context (`decisionContext`:
required inputs, required decisions' own values, knowledge as functions — see
`decision_context_spec`), coerced to the type of the output variable. -/
theorem table_decision_spec (g : Drg) (env : Env) (p : Spec.SGraph) (d : Decision) (input k1 k3 : Ctx)
    (hitPolicy : String) (hp : DT.HitPolicy) (inputs outputs rules : List Ast)
    (raw : RawTable) (s' : Scope) (t : DT.Table)
    (hlogic : d.logic = Boxed.table hitPolicy inputs outputs rules)
    (hhp : hitPolicyOf hitPolicy = some hp)
    (hshape : tableShapeOk inputs outputs rules = true)
    (hk1 : foldCtx (fun id c => Spec.callBkm g (Spec.graphStep g env p) id c) d.reqKnowledge [] = .ok k1)
    (hk3 : foldCtx (fun id c => dropName (Spec.callDecision g (Spec.graphStep g env p) id [] input c))
      d.reqDecisions (g.serviceFns d.reqKnowledge k1) = .ok k3)
    (hc : evalCells env hp inputs outputs rules [Spec.decisionContext g d [] input k3] = .ok (raw, s'))
    (ht : raw.toTable = some t) :
    Spec.decisionValue g env (Spec.graphStep g env p) d [] input =
      .ok (Value.coerced (d.ty.ftype g.items) (DT.ofDT (DT.Spec.evaluate t))) := by
  simp only [Spec.decisionValue, hk1, hk3, hlogic,
    table_logic_spec env hitPolicy hp inputs outputs rules _ raw s' t hhp hshape hc ht, Spec.coerceResult]

/-- exact arithmetic, no built-in functions: the evaluator of the witnesses below -/
def witnessBase : Env where
  num := NumOps.exact
  call := fun _ => EvalM.diverge
  bifPos := fun _ _ => .ok .null
  bifNamed := fun _ _ => .ok .null
  iter := Eval.Variant.code.iter
  index := Eval.Variant.code.index

/-- Non-vacuity: a one-rule table `U`, input expression `x`, entry `< 5`, output `1`, default `0`,
in the scope `{x: 3}` evaluates to 1 and in `{x: 7}` to the default 0. -/
example :
    let tbl := Boxed.table "U" [.range (.name "x") Boxed.absent]
      [.between Boxed.absent Boxed.absent (.expressionList [.numeric "0" ""])]
      [.contextEntry (.expressionList [.expressionList [.unaryLt (.numeric "5" "")]]) (.expressionList [.numeric "1" ""])]
    tableShapeOk [.range (.name "x") Boxed.absent]
      [.between Boxed.absent Boxed.absent (.expressionList [.numeric "0" ""])]
      [.contextEntry (.expressionList [.expressionList [.unaryLt (.numeric "5" "")]]) (.expressionList [.numeric "1" ""])] = true ∧
    (evalBoxed witnessBase tbl [[("x", .num ⟨false, 3, 0⟩)]]).map Prod.fst = .ok (.num ⟨false, 1, 0⟩) ∧
    (evalBoxed witnessBase tbl [[("x", .num ⟨false, 7, 0⟩)]]).map Prod.fst = .ok (.num ⟨false, 0, 0⟩) := by
  refine ⟨by decide, by rfl, by rfl⟩

/-- `A = 1`, `B = A + 1` (`B` requires `A`) -/
def witnessF14 : Drg := {
  inputs := [],
  decisions := [
    { id := "_a", name := "A", var := "A", ty := .untyped, reqInputs := [], reqDecisions := [],
      reqKnowledge := [], logic := .numeric "1" "" },
    { id := "_b", name := "B", var := "B", ty := .untyped, reqInputs := [], reqDecisions := ["_a"],
      reqKnowledge := [], logic := .add (.name "A") (.numeric "1" "") }],
  bkms := [], services := [] }

/-- The witness of the repaired finding F14: an input entry named like the required decision
`A` no longer replaces its value — `B` is 2 on `{}`, on `{Z: 5}` and on `{A: 100}` (it was 101). -/
example :
    evaluateInvocable witnessBase witnessF14 1 2 "B" [] = .ok (.num ⟨false, 2, 0⟩) ∧
    evaluateInvocable witnessBase witnessF14 1 2 "B" [("Z", .num ⟨false, 5, 0⟩)] = .ok (.num ⟨false, 2, 0⟩) ∧
    evaluateInvocable witnessBase witnessF14 1 2 "B" [("A", .num ⟨false, 100, 0⟩)] = .ok (.num ⟨false, 2, 0⟩) := by
  refine ⟨?_, ?_, ?_⟩
  all_goals
    simp [evaluateInvocable, invocable, witnessF14, findLast?, evalDecision,
      level, graphAt, graphStep, findDecision,
      findBkm, findService, decisionClosure, foldCtx, callDecision,
      callBkm, dropName, serviceFns, typedInputs, Ctx.overwrite, Ctx.zip, Ctx.set, Ctx.get,
      namedResult, VarTy.ftype, coerced_any, evalBoxed, Eval.evalStep, EvalM.bind_def,
      EvalM.pure_def]
    try rfl

/-- input `x`; decision `A = x + 1`; decision service `S` (input data `x`, output decision `A`);
knowledge model `F(p) = S(p)` requiring `S` -/
def witnessF28 : Drg := {
  inputs := [{ id := "_x", name := "x", ty := .simple .number }],
  decisions := [
    { id := "_a", name := "A", var := "A", ty := .untyped, reqInputs := ["_x"], reqDecisions := [],
      reqKnowledge := [], logic := .add (.name "x") (.numeric "1" "") }],
  bkms := [
    { id := "_f", name := "F", var := "F", ty := .untyped, params := [("p", .any)], reqKnowledge := ["_s"],
      body := .functionInvocation (.name "S") (.positionalParameters [.name "p"]) }],
  services := [
    { id := "_s", name := "S", var := "S", ty := .untyped, inputData := ["_x"], inputDecisions := [],
      encapsulated := [], output := ["_a"] }] }

/-- the entry a closure left under a name -/
def entryOf (o : Outcome Ctx) (k : String) : Option Value :=
  match o with
  | .ok c => Ctx.get c k
  | _ => none

/-- The witness of the repaired finding F28: the knowledge model `F` requires the decision
service `S`; its closure binds `S` to the function of the parameter `x` (it was the number 2,
the value of the service on the caller's input data `{x: 1}`). -/
example :
    entryOf ((graphAt witnessF28 witnessBase divergeGraph 2).bkm "_f" [("x", .num ⟨false, 1, 0⟩)] []) "S" =
      some (.fn [("x", .number)] (Boxed.service "_s") .any) := by
  simp [entryOf, witnessF28, findLast?, graphAt, graphStep, findDecision,
    findBkm, findService, findInput, foldCtx, callBkm, serviceFns, serviceFn, serviceParams, Ctx.set, Ctx.get,
    VarTy.ftype, SimpleTy.ftype, bkmClosure, bkmRequirement, Boxed.service]

/-! ## A decision service returns its output decisions' values -/

/-- The decision service closure over registries whose decisions answer with their variable
(`graphStep … prev` at any level): when the three loops return, the service stores under its
variable — coerced to its output type — the value of its output decision when exactly one
output decision is registered, otherwise the context that has exactly the output decisions'
variables as keys, each with the value its decision produced. -/
theorem service_outputs (g : Drg) (env : Env) (prev : Graph) (ha : AnswersVar g prev) (id : String) (s : Service)
    (input out results c1 : Ctx) (names : List String) (c2 : Ctx)
    (hf : g.findService id = some s)
    (h1 : foldCtx (fun id c => dropName (callDecision g prev id input [] c)) s.inputDecisions [] = .ok results)
    (h2 : foldCtx (fun id c => dropName (callDecision g prev id (g.serviceInputs s results input)
      (g.serviceInputDecisions s results input) c)) s.encapsulated [] = .ok c1)
    (h3 : outputLoop (fun id c => callDecision g prev id (g.serviceInputs s results input)
      (g.serviceInputDecisions s results input) c) s.output [] c1 = .ok (names, c2)) :
    (graphStep g env prev).service id input out =
        .ok (some s.var, serviceResult (s.ty.ftype g.items) names c2 s.var out) ∧
    names = g.decisionVarNames s.output ∧
    (∀ n ∈ names, (Ctx.get c2 n).isSome = true) ∧
    (∀ n v, names = [n] → Ctx.get c2 n = some v →
      Ctx.get (serviceResult (s.ty.ftype g.items) names c2 s.var out) s.var = some (Value.coerced (s.ty.ftype g.items) v)) ∧
    (names.length ≠ 1 →
      Ctx.get (serviceResult (s.ty.ftype g.items) names c2 s.var out) s.var =
          some (Value.coerced (s.ty.ftype g.items) (.ctx (outputCtx names c2))) ∧
      ∀ n, Ctx.get (outputCtx names c2) n = if n ∈ names then Ctx.get c2 n else none) := by
  obtain ⟨hn, hsome⟩ := outputLoop_spec ha _ _ s.output [] c1 names c2 (fun _ h => by simp at h) h3
  refine ⟨?_, by simpa using hn, hsome, ?_, ?_⟩
  · simp only [graphStep, hf, serviceClosure, h1, h2, h3]
  · intro n v hnames hv
    subst hnames
    simp only [serviceResult, hv]
    rw [Ctx.get_set, if_pos rfl]
  · intro hlen
    refine ⟨?_, outputCtx_get names c2⟩
    rw [serviceResult_many _ _ _ _ _ hlen, Ctx.get_set, if_pos rfl]

/-- Non-vacuity: registries of every level answer with their variable. -/
example (g : Drg) (env : Env) (n : Nat) : AnswersVar g (graphAt g env divergeGraph n) :=
  answersVar_graphAt g env divergeGraph n

/-! ## Fuel: the recursion over an acyclic graph never reaches its bottom -/

/-- For a graph with a topological numbering `rk` bounded by `N`, `N` levels of requirement
edges determine every closure: whatever registries are put at the bottom of the recursion
(the model puts the ones that `diverge`), the result is the same — the bottom is never
reached.  This is the termination argument the Rust recursion lacks (cf. C12). -/
theorem graph_bottom_never_reached (g : Drg) (rk : Kind → String → Nat) (hr : g.rankedBy rk = true)
    (N : Nat) (hb : ∀ k id, rk k id ≤ N) (env : Env) (bot bot' : Graph) (m : Nat) (hm : N ≤ m) :
    (graphAt g env bot m).decision = (graphAt g env bot' m).decision ∧
    (graphAt g env bot m).bkm = (graphAt g env bot' m).bkm ∧
    (graphAt g env bot m).service = (graphAt g env bot' m).service :=
  graphAt_stable hr N hb env bot bot' m m hm hm

/-- For a graph with a topological numbering bounded by `N`, graph fuel `N` suffices: every
larger amount gives the same outcome of `evaluate_invocable` (an outcome `diverge` is then due
to the nesting of function-body evaluations `ff` alone). -/
theorem acyclic_fuel_suffices_ranked (base : Env) (g : Drg) (rk : Kind → String → Nat)
    (hr : g.rankedBy rk = true) (N : Nat) (hb : ∀ k id, rk k id ≤ N) (ff gf gf' : Nat)
    (h : N ≤ gf) (h' : N ≤ gf') (name : String) (input : Ctx) :
    evaluateInvocable base g ff gf name input = evaluateInvocable base g ff gf' name input := by
  have henv := level_env_stable hr N hb base gf gf' h h' ff
  have hst := graphAt_stable hr N hb (level base g gf' ff).env divergeGraph divergeGraph gf gf' h h'
  unfold evaluateInvocable
  cases g.invocable name with
  | none => rfl
  | some i =>
    cases i with
    | decision id =>
      simp only [evalDecision]
      rw [level_graph' base g gf ff, level_graph' base g gf' ff, henv, hst.1]
    | service id =>
      simp only [evalService]
      rw [level_graph' base g gf ff, level_graph' base g gf' ff, henv, hst.2.2]
    | bkm id var =>
      simp only [evalBkm, evalBkmInvocable]
      rw [level_graph' base g gf ff, level_graph' base g gf' ff, henv, hst.2.1]

/-- `acyclic` is decidable: the longest-path numbering computed in `size g` rounds is a
topological numbering.  For such a graph, fuel = number of elements is enough. -/
theorem acyclic_fuel_suffices (base : Env) (g : Drg) (hac : g.acyclic = true) (ff gf gf' : Nat)
    (h : g.size ≤ gf) (h' : g.size ≤ gf') (name : String) (input : Ctx) :
    evaluateInvocable base g ff gf name input = evaluateInvocable base g ff gf' name input :=
  acyclic_fuel_suffices_ranked base g g.computeRank hac g.size (fun k id => heightAt_le g g.size k id)
    ff gf gf' h h' name input

/-- Non-vacuity: a diamond is acyclic; two decisions requiring each other are not. -/
example :
    let dec (id : String) (rd : List String) : Decision :=
      { id := id, name := id, var := id, ty := .untyped, reqInputs := [], reqDecisions := rd,
        reqKnowledge := [], logic := .null }
    Drg.acyclic { inputs := [], decisions := [dec "l" [], dec "r" [], dec "t" ["l", "r"]], bkms := [], services := [] } = true ∧
    Drg.acyclic { inputs := [], decisions := [dec "a" ["b"], dec "b" ["a"]], bkms := [], services := [] } = false := by
  decide

/-! ## `ModelEvaluator::new` refuses requirement cycles (`check_requirements`)

`Drg.checkRequirements` is `check_requirements` (`model_evaluator.rs:54-106`) in its chain-length
formulation (the code until ba4278d; since then `check_chain` is a depth-first search with the same
answer on every graph: `Drg.checkRequirements_eq_dfs` in `Lemmas/DrgDfs.lean`, `built_graph_check_is_repaired_check` below): one map from
identifiers to requirements — decision → required decisions and required knowledge, knowledge
model → required knowledge, decision service → input, encapsulated and output decisions — and
no chain of requirements longer than the number of keys.  It differs from `Drg.acyclic` only in
how identifiers are resolved: the map is keyed by the identifier alone, so (a) elements of
different kinds or several elements of one kind that share an identifier are merged, and (b) a
requirement is followed to whatever element has the identifier (a `requiredKnowledge` that
names a decision counts), whereas the registries of closures — and `rankedBy` / `acyclic` —
look an identifier up per kind and keep the last element.  For documents with unique
identifiers and well-kinded references the edge sets coincide.  The direction that matters holds
without any such assumption: -/

/-- The depth-first `check_chain` of the repaired `check_requirements` (ba4278d, `Dmn.ReqDfs.dfs`) gives the
answer of `Drg.checkRequirements` on every graph and expands every element at most once: the theorems below,
stated with the chain-length formulation, are theorems about the repaired code. -/
theorem built_graph_check_is_repaired_check (g : Drg) :
    g.checkRequirements = ReqDfs.dfsCheck g.requirementsOf g.requirementIds ∧
    ReqDfs.dfsExpansions g.requirementsOf g.requirementIds ≤ g.requirementCount :=
  ⟨Drg.checkRequirements_eq_dfs g, Drg.checkRequirements_dfs_linear g⟩

/-- A graph that `ModelEvaluator::new` accepts has a topological numbering (the longest chain of
requirements below an identifier) bounded by its number of elements. -/
theorem built_graph_ranked (g : Drg) (h : g.checkRequirements = true) :
    g.rankedBy (fun _ id => chainDepth g g.requirementCount id) = true ∧
    ∀ (k : Kind) id, (fun (_ : Kind) id => chainDepth g g.requirementCount id) k id ≤ g.size :=
  ⟨ranked_of_check g h, fun _ id => Nat.le_trans (chainDepth_le g _ id) (requirementCount_le g)⟩

/-- Hence for a graph that builds, graph fuel = number of elements suffices: the recursion over
requirement edges never runs out (what is left of `diverge` is the nesting of function-body
evaluations — recursion through names, which no check of the requirement graph sees). -/
theorem built_graph_fuel_suffices (base : Env) (g : Drg) (h : g.checkRequirements = true) (ff gf gf' : Nat)
    (hg : g.size ≤ gf) (hg' : g.size ≤ gf') (name : String) (input : Ctx) :
    evaluateInvocable base g ff gf name input = evaluateInvocable base g ff gf' name input :=
  acyclic_fuel_suffices_ranked base g _ (built_graph_ranked g h).1 g.size (built_graph_ranked g h).2
    ff gf gf' hg hg' name input

/-- Conversely the check rejects only cycles: it accepts every graph whose map has a numbering,
below the number of keys, that decreases along every requirement to a key. -/
theorem check_requirements_complete (g : Drg) (rk : String → Nat)
    (hr : ∀ id req, g.requirementsOf id = some req → ∀ c ∈ req, (g.requirementsOf c).isSome = true → rk c < rk id)
    (hb : ∀ id, rk id < g.requirementCount) : g.checkRequirements = true :=
  check_of_ranked g rk hr hb

/-- Non-vacuity: the diamond builds, two decisions requiring each other (and a decision service
whose output decision requires it through a knowledge requirement) do not. -/
example :
    let dec (id : String) (rd rk : List String) : Decision :=
      { id := id, name := id, var := id, ty := .untyped, reqInputs := [], reqDecisions := rd,
        reqKnowledge := rk, logic := .null }
    Drg.checkRequirements { inputs := [], decisions := [dec "l" [] [], dec "r" [] [], dec "t" ["l", "r"] []], bkms := [], services := [] } = true ∧
    Drg.checkRequirements { inputs := [], decisions := [dec "a" ["b"] [], dec "b" ["a"] []], bkms := [], services := [] } = false ∧
    let svc : Service :=
      { id := "s", name := "s", var := "s", ty := .untyped, inputData := [], inputDecisions := [],
        encapsulated := [], output := ["a"] }
    Drg.checkRequirements { inputs := [], decisions := [dec "a" [] ["s"]], bkms := [], services := [svc] } = false := by
  decide

/-- **Completeness of `acyclic`**: the decidable predicate accepts every graph with unique ids
that has *some* topological numbering with values below its number of elements (for instance
the positions of its elements in a topological order) — the longest-path numbering computed in
`size g` rounds is then a topological numbering too.  Together with `acyclic_fuel_suffices`:
`acyclic` is neither vacuous nor stricter than "has a topological order". -/
theorem acyclic_complete (g : Drg) (rk : Kind → String → Nat) (hr : g.rankedBy rk = true)
    (hb : ∀ k id, rk k id < g.size) (hu : g.idsUnique = true) : g.acyclic = true :=
  acyclic_of_ranked hr hb hu

/-- Non-vacuity: the diamond with the numbering l ↦ 0, r ↦ 1, t ↦ 2. -/
example :
    let dec (id : String) (rd : List String) : Decision :=
      { id := id, name := id, var := id, ty := .untyped, reqInputs := [], reqDecisions := rd,
        reqKnowledge := [], logic := .null }
    let g : Drg := { inputs := [], decisions := [dec "l" [], dec "r" [], dec "t" ["l", "r"]], bkms := [], services := [] }
    let rk : Kind → String → Nat := fun _ id => if id = "t" then 2 else if id = "r" then 1 else 0
    g.rankedBy rk = true ∧ g.idsUnique = true ∧ g.size = 3 ∧ ∀ k id, rk k id < 3 := by
  refine ⟨by decide, by decide, by decide, fun k id => ?_⟩
  simp only []
  split
  · omega
  · split <;> omega

/-! ## boxed contexts compose: their entries are local (repair of finding F62-nested-context-entries) -/

/-- **The entries of a boxed context are visible inside that context only.**  Any boxed expression —
literal expression, context, invocation, function definition, relation, decision table, nested in any
way — evaluated at any level of the requirement graph leaves the scope it runs in exactly as it found
it: after a nested boxed context every name of the enclosing scope (an input, a required decision's
variable, an earlier entry of the enclosing context) is bound to the value it had before, whatever the
nested context called its own entries.  (`build_context_evaluator` pushes a context for the entries and
pops it on both ways out, `mod.rs:293-324`; before the repair the entries were written into the
enclosing context and stayed there.) -/
theorem boxed_context_entries_local (base : Env) (g : Drg) (G ff : Nat) (a : Ast) (s : Scope)
    (v : Value) (s' : Scope) (h : evalBoxed (level base g G ff).env a s = .ok (v, s')) : s' = s :=
  pres_evalBoxed _ (topOnly_level_call base g G ff) a s v s' h

/-- the decision logic `{inner: {a: 1, <result> a + 1}, outer: a}` -/
def nestedContextWitness : Ast :=
  Boxed.context [
    .contextEntry (.contextEntryKey "inner") (Boxed.context [
      .contextEntry (.contextEntryKey "a") (.numeric "1" ""),
      .add (.name "a") (.numeric "1" "")]),
    .contextEntry (.contextEntryKey "outer") (.name "a")]

-- Non-vacuity, and the witness of the finding: with the input `a = 10` the value is `{inner: 2, outer: 10}`
-- (the unrepaired code answered `outer: 1`), and the scope is the decision's context as before.
example :
    evalBoxed witnessBase nestedContextWitness [[("a", .num ⟨false, 10, 0⟩)]] =
      .ok (.ctx [("inner", .num ⟨false, 2, 0⟩), ("outer", .num ⟨false, 10, 0⟩)], [[("a", .num ⟨false, 10, 0⟩)]]) := by
  rfl

/-! ## boxed expressions compose: every part is evaluated in its documented scope

The statements below say, for boxed expressions nested in each other in any way, in which scope each part of a
boxed context, a boxed invocation (and the boxed function definition, which has the same closure) and a relation is
evaluated.  `hc` is the fact about the environment that every level of a requirement graph has
(`topOnly_level_call`): a function body writes at most into the context pushed for its arguments. -/

/-- **A boxed context is evaluated in a context of its own.**  The entries run in the enclosing scope with one empty
context pushed on it; what they leave there is dropped, and the value is what the loop over the entries gives. -/
theorem boxed_context_scope (env : Env) (entries : List Ast) (s : Scope) :
    evalBoxed env (Boxed.context entries) s =
      (match evalBoxedEntries env entries [] (Scope.push s []) with
       | .ok (v, s') => .ok (v, Scope.pop s')
       | .panic p => .panic p
       | .diverge => .diverge) := by
  simp only [Boxed.context, evalBoxed, Eval.bracket, bind, EvalM.bind, EvalM.push, EvalM.pop, pure, EvalM.pure]
  cases evalBoxedEntries env entries [] (Scope.push s []) with
  | ok r => rfl
  | panic p => rfl
  | diverge => rfl

/-- **A named entry is visible to the entries after it, and to them only.**  Whatever boxed expression the entry's
value is (nested in any way), it is evaluated in the scope as the earlier entries left it and leaves it unchanged;
its value is bound to the entry's name in the top context — the one the boxed context pushed — and put into the
result, and the remaining entries go on from there. -/
theorem boxed_context_entry_scope (env : Env) (hc : ∀ b, EvalM.TopOnly (env.call b)) (name : String) (v : Ast)
    (es : List Ast) (acc : Ctx) (s s' : Scope) (value : Value) (h : evalBoxed env v s = .ok (value, s')) :
    s' = s ∧
    evalBoxedEntries env (.contextEntry (.contextEntryKey name) v :: es) acc s =
      evalBoxedEntries env es (Ctx.set acc name value) (Scope.setEntry s name value) := by
  have hs : s' = s := pres_evalBoxed env hc v s value s' h
  subst hs
  refine ⟨rfl, ?_⟩
  simp only [evalBoxedEntries, bind, EvalM.bind, h, EvalM.setEntry]

/-- **The result entry sees every entry before it and is the value of the context**: an entry without a variable
ends the loop with the value of its expression, evaluated in the scope the named entries before it have built;
entries after it are not evaluated. -/
theorem boxed_context_result_scope (env : Env) (r : Ast) (es : List Ast) (acc : Ctx)
    (hr : ∀ name v, r ≠ .contextEntry (.contextEntryKey name) v) :
    evalBoxedEntries env (r :: es) acc = evalBoxed env r := by
  unfold evalBoxedEntries
  split
  · exact absurd rfl (hr _ _)
  · rfl

/-- A context without entries left is the context of the named entries. -/
theorem boxed_context_end (env : Env) (acc : Ctx) (s : Scope) :
    evalBoxedEntries env [] acc s = .ok (.ctx acc, s) := by
  simp only [evalBoxedEntries, pure, EvalM.pure]

/-- **A binding formula is evaluated in the enclosing scope** — whatever boxed expression it is — and sees neither
the bindings before it nor anything they evaluated: the scope is the same for every binding, the values are
collected in the parameter context only. -/
theorem boxed_invocation_binding_scope (env : Env) (hc : ∀ b, EvalM.TopOnly (env.call b)) (name : String) (v : Ast)
    (bs : List Ast) (acc : Ctx) (s s' : Scope) (value : Value) (h : evalBoxed env v s = .ok (value, s')) :
    s' = s ∧
    evalBoxedBindings env (.namedParameter (.parameterName name) v :: bs) acc s =
      evalBoxedBindings env bs (Ctx.set acc name value) s := by
  have hs : s' = s := pres_evalBoxed env hc v s value s' h
  subst hs
  refine ⟨rfl, ?_⟩
  simp only [evalBoxedBindings, bind, EvalM.bind, h]

/-- **A boxed invocation** (and a boxed function definition): the bindings are evaluated in the enclosing scope,
then the called function — any boxed expression — in the same scope; when it is a function value its body runs in
the enclosing scope with the parameter context pushed, the context is popped, and the value is converted to the
result type of the function; when it is not a function value the invocation is null. -/
theorem boxed_invocation_scope (env : Env) (f : Ast) (bindings : List Ast) (s : Scope) (params : Ctx) (fv : Value)
    (hb : evalBoxedBindings env bindings [] s = .ok (params, s)) (hf : evalBoxed env f s = .ok (fv, s)) :
    evalBoxed env (Boxed.invocation f bindings) s =
      (match fv with
       | .fn _ body rt =>
         (match env.call body (Scope.push s params) with
          | .ok (r, s') => .ok (Value.coerced rt r, Scope.pop s')
          | .panic p => .panic p
          | .diverge => .diverge)
       | _ => .ok (.null, s)) := by
  simp only [Boxed.invocation, evalBoxed, bind, EvalM.bind, hb, hf]
  cases fv with
  | fn ps body rt =>
    simp only [Eval.bracket, bind, EvalM.bind, EvalM.push, EvalM.pop, pure, EvalM.pure]
    cases env.call body (Scope.push s params) with
    | ok r => rfl
    | panic p => rfl
    | diverge => rfl
  | _ => rfl

/-- **A relation**: every cell of a row — any boxed expression — is evaluated in the enclosing scope (the cells are
collected like bindings, `boxed_invocation_binding_scope`), each row gives one context keyed by the column names. -/
theorem boxed_relation_row_scope (env : Env) (cells rs : List Ast) (s : Scope) (c : Ctx) (rest : List Value)
    (hcells : evalBoxedBindings env cells [] s = .ok (c, s)) (hrest : evalBoxedRows env rs s = .ok (rest, s)) :
    evalBoxedRows env (.namedParameters cells :: rs) s = .ok (.ctx c :: rest, s) ∧
    (evalBoxed env (Boxed.relation rs) s = .ok (.list rest, s)) := by
  constructor
  · simp only [evalBoxedRows, bind, EvalM.bind, hcells, hrest, pure, EvalM.pure]
  · simp only [Boxed.relation, evalBoxed, bind, EvalM.bind, hrest, pure, EvalM.pure]

/-- **A decision table nested in a boxed expression** (a context entry, a binding, the body of a knowledge model)
is evaluated in the scope of the place it stands at: its closure is the table closure of `table_logic_spec`. -/
theorem boxed_table_scope (env : Env) (hitPolicy : String) (inputs outputs rules : List Ast) :
    evalBoxed env (.commaList [.instanceOf (.string hitPolicy)
      (.expressionList [.expressionList inputs, .expressionList outputs, .expressionList rules])]) =
    Drg.evalTable env hitPolicy inputs outputs rules := by
  simp only [evalBoxed]

/-- the logic `{k: 2, <result> f(p: {x: k + 1, <result> x + 10}, q: k)}` with `f` bound to `function(p, q) p - q`
in the scope: a context nested in a binding of an invocation nested in the result entry of a context -/
def nestedComposeWitness : Ast :=
  Boxed.context [
    .contextEntry (.contextEntryKey "k") (.numeric "2" ""),
    Boxed.invocation (.name "f") [
      .namedParameter (.parameterName "p") (Boxed.context [
        .contextEntry (.contextEntryKey "x") (.add (.name "k") (.numeric "1" "")),
        .add (.name "x") (.numeric "10" "")]),
      .namedParameter (.parameterName "q") (.name "k")]]

-- Non-vacuity of the hypotheses above: a named entry and a binding evaluate (`h`), and the nested witness has the
-- value its parts give in their scopes — the result entry sees `k`, the nested context sees `k` and its own `x`,
-- the invocation is null here because `witnessBase` binds no function `f` (the branch `| _ => null`).
example :
    evalBoxed witnessBase (.numeric "2" "") [[]] = .ok (.num ⟨false, 2, 0⟩, [[]]) ∧
    evalBoxedBindings witnessBase [.namedParameter (.parameterName "q") (.name "k")] [] [[("k", .num ⟨false, 2, 0⟩)]] =
      .ok ([("q", .num ⟨false, 2, 0⟩)], [[("k", .num ⟨false, 2, 0⟩)]]) ∧
    evalBoxed witnessBase (Boxed.context [
        .contextEntry (.contextEntryKey "x") (.add (.name "k") (.numeric "1" "")),
        .add (.name "x") (.numeric "10" "")]) [[("k", .num ⟨false, 2, 0⟩)]] =
      .ok (.num ⟨false, 13, 0⟩, [[("k", .num ⟨false, 2, 0⟩)]]) ∧
    evalBoxed witnessBase nestedComposeWitness [[]] = .ok (.null, [[]]) ∧
    evalBoxedRows witnessBase [.namedParameters [.namedParameter (.parameterName "c0") (.numeric "1" "")]] [[]] =
      .ok ([.ctx [("c0", .num ⟨false, 1, 0⟩)]], [[]]) := by
  refine ⟨rfl, rfl, rfl, rfl, rfl⟩

/-! ## the stateless denotation of boxed expressions

`denBoxed env a Γ` (`Dmn/Model/DrgDen.lean`) is a function from an environment — the nested contexts names are
looked up in — to a value: a boxed context evaluates each entry in the environment extended by the entries before
it, an invocation its bindings and the called function in the enclosing environment and the function's body in
that environment extended by the parameters, a relation every cell in the enclosing environment; a decision table
and a literal expression are the values of the table closure and of the FEEL evaluator.  No scope is threaded
through it and none comes back. -/

/-- **`evalBoxed` is `denBoxed`**, for every boxed expression — context with and without result entry,
invocation, function definition, relation, decision table, literal expression, nested in any way — and every
scope: the stack effects of the closures (`push`, `set_entry`, `pop`) amount to evaluating each part in the
environment its position prescribes, and the scope is handed back as it was.  `hc`: function bodies write at most
into the context pushed for their arguments. -/
theorem boxed_denotation (env : Env) (hc : ∀ b, EvalM.TopOnly (env.call b)) (a : Ast) (s : Scope) :
    evalBoxed env a s = EvalM.lift (denBoxed env a s) s :=
  evalBoxed_eq_den env hc a s

/-- The same at every level of a requirement graph, where `hc` holds (`topOnly_level_call`): no hypothesis. -/
theorem boxed_denotation_level (base : Env) (g : Drg) (G ff : Nat) (a : Ast) (s : Scope) :
    evalBoxed (level base g G ff).env a s = EvalM.lift (denBoxed (level base g G ff).env a s) s :=
  evalBoxed_eq_den _ (topOnly_level_call base g G ff) a s

-- Non-vacuity: `witnessBase` satisfies `hc`; the denotation of the nested witnesses, computed without any scope
-- being handed on, is the value `evalBoxed` gives: `{inner: 2, outer: 10}` in the environment `{a: 10}`, 13 for the
-- context `{x: k + 1, <result> x + 10}` in `{k: 2}`, one context per relation row.
example :
    (∀ b, EvalM.TopOnly (witnessBase.call b)) ∧
    denBoxed witnessBase nestedContextWitness [[("a", .num ⟨false, 10, 0⟩)]] =
      .ok (.ctx [("inner", .num ⟨false, 2, 0⟩), ("outer", .num ⟨false, 10, 0⟩)]) ∧
    denBoxed witnessBase (Boxed.context [
        .contextEntry (.contextEntryKey "x") (.add (.name "k") (.numeric "1" "")),
        .add (.name "x") (.numeric "10" "")]) [[("k", .num ⟨false, 2, 0⟩)]] = .ok (.num ⟨false, 13, 0⟩) ∧
    denBoxed witnessBase nestedComposeWitness [[]] = .ok .null ∧
    denBoxed witnessBase (Boxed.relation [.namedParameters [.namedParameter (.parameterName "c0") (.numeric "1" "")]]) [[]] =
      .ok (.list [.ctx [("c0", .num ⟨false, 1, 0⟩)]]) := by
  refine ⟨fun b => EvalM.topOnly_of_pres EvalM.pres_diverge, rfl, rfl, rfl, rfl⟩

/-! ## the property statement as one equation

`Spec.logicOverRequirements g env K V d input` (`Dmn/Model/DrgDen.lean`): the denotation of the logic of `d` in
the environment `requirementEnv` — the required inputs bound to the supplied, type-checked values, shadowed by the
required knowledge models' function values `K`, the required decision services as functions and the variables of
the required decisions bound to **those decisions' values `V`** — converted to the type of the output variable. -/

/-- **A decision's value is its logic evaluated over its requirement graph.**  For a graph with a topological
numbering `rk` bounded by `N`, and graph fuel `gf ≥ N`: the value of a registered decision invoked by name is
`logicOverRequirements` where the value of every required decision is *the value of that decision invoked by
name on the same input data* — the recursion over the requirement graph closes at one level of fuel (the
registries are a fixed point of `graphStep`: `spec_graph_fixpoint`). -/
theorem decision_value_is_logic_over_requirements_ranked (base : Env) (g : Drg) (rk : Kind → String → Nat)
    (hr : g.rankedBy rk = true) (N : Nat) (hb : ∀ k id, rk k id ≤ N) (ff gf : Nat) (hgf : N ≤ gf)
    (id : String) (d : Decision) (hf : g.findDecision id = some d) (input : Ctx) :
    evalDecision base g ff gf id input =
      Spec.logicOverRequirements g (level base g gf ff).env (Spec.requiredKnowledge base g ff gf d.reqKnowledge)
        (fun r => evalDecision base g ff gf r input) d input := by
  have hV : (fun r => evalDecision base g ff gf r input) =
      fun r => namedResult ((Spec.graphAt g (level base g gf ff).env Spec.divergeGraph gf).decision r [] input []) := by
    funext r
    rw [eval_decision_spec]
    unfold Spec.evalDecision
    rw [spec_level_graph base g gf ff, ← level_env_rel base g gf ff]
  have hfix := spec_graph_fixpoint hr N hb (level base g gf ff).env gf hgf
  rw [hV, eval_decision_spec]
  unfold Spec.evalDecision Spec.requiredKnowledge
  rw [spec_level_graph base g gf ff, ← level_env_rel base g gf ff]
  rw [← decisionValue_eq_logic g _ (topOnly_level_call base g gf ff) _ hfix d input]
  rw [← namedResult_decision g _ _ id d hf [] input, hfix]

/-- The same for every graph `Drg.acyclic` accepts (the decidable predicate; `acyclic_complete`: every graph
with unique ids and a topological order), with graph fuel at least the number of elements. -/
theorem decision_value_is_logic_over_requirements (base : Env) (g : Drg) (hac : g.acyclic = true)
    (ff gf : Nat) (hgf : g.size ≤ gf) (id : String) (d : Decision) (hf : g.findDecision id = some d) (input : Ctx) :
    evalDecision base g ff gf id input =
      Spec.logicOverRequirements g (level base g gf ff).env (Spec.requiredKnowledge base g ff gf d.reqKnowledge)
        (fun r => evalDecision base g ff gf r input) d input :=
  decision_value_is_logic_over_requirements_ranked base g g.computeRank hac g.size
    (fun k id => heightAt_le g g.size k id) ff gf hgf id d hf input

/-- And for every graph `ModelEvaluator::new` builds (`check_requirements` accepts). -/
theorem built_graph_decision_value (base : Env) (g : Drg) (h : g.checkRequirements = true)
    (ff gf : Nat) (hgf : g.size ≤ gf) (id : String) (d : Decision) (hf : g.findDecision id = some d) (input : Ctx) :
    evalDecision base g ff gf id input =
      Spec.logicOverRequirements g (level base g gf ff).env (Spec.requiredKnowledge base g ff gf d.reqKnowledge)
        (fun r => evalDecision base g ff gf r input) d input :=
  decision_value_is_logic_over_requirements_ranked base g _ (built_graph_ranked g h).1 g.size
    (built_graph_ranked g h).2 ff gf hgf id d hf input

/-- **What the environment of the logic binds**, for any assignment `V` of values to decisions: the variable of
a required decision to the value `V` gives the (last such) decision, otherwise the variable of a required
decision service to the service as a function, otherwise a name the required knowledge models wrote to that
function value, otherwise the name of a required input to the supplied value, type-checked; nothing else. -/
theorem requirement_env_binds (base : Env) (g : Drg) (ff gf : Nat) (V : String → Outcome Value) (d : Decision)
    (input k1 k3 : Ctx)
    (hk1 : Spec.requiredKnowledge base g ff gf d.reqKnowledge = .ok k1)
    (hk3 : Spec.requiredDecisionValues g V d.reqDecisions (g.serviceFns d.reqKnowledge k1) = .ok k3) (n : String) :
    Ctx.get (Spec.requirementEnv g d input k3) n =
      match Spec.valueBinding g V n d.reqDecisions with
      | some v => some v
      | none =>
        match Spec.serviceBinding g n d.reqKnowledge with
        | some f => some f
        | none =>
          match Ctx.get k1 n with
          | some f => some f
          | none => Spec.inputBinding g input n d.reqInputs := by
  have w1 : Ctx.WF k1 := by
    unfold Spec.requiredKnowledge at hk1
    rw [spec_level_graph base g gf ff] at hk1
    refine foldCtx_WF _ (fun id c c' hc h => ?_) _ _ _ Ctx.WF_nil hk1
    unfold Spec.callBkm at h
    cases hfb : g.findBkm id with
    | none => rw [hfb] at h; cases h; exact hc
    | some _ => rw [hfb] at h; exact (wfp_graphAt g _ gf).bkm id c c' hc h
  have w3 := requiredDecisionValues_WF g V _ _ k3 (serviceFns_WF g _ _ w1) hk3
  unfold Spec.requirementEnv
  rw [get_zip _ _ w3, requiredDecisionValues_get g V _ _ k3 n hk3]
  cases Spec.valueBinding g V n d.reqDecisions with
  | some v => rfl
  | none =>
    simp only []
    rw [serviceFns_get]
    cases Spec.serviceBinding g n d.reqKnowledge with
    | some f => rfl
    | none =>
      simp only []
      cases Ctx.get k1 n with
      | some f => rfl
      | none =>
        simp only []
        rw [typedInputs_get]
        cases Spec.inputBinding g input n d.reqInputs <;> rfl

/-- **The values of the decisions are the only solution of the equation**: on a graph with a topological
numbering, an assignment `V` of values to decisions that satisfies "the value of `d` is its logic over the values
of its requirements" at every registered decision is the assignment `evaluate_invocable` computes.  By induction
on the rank (`values_unique`). -/
theorem decision_values_unique (base : Env) (g : Drg) (rk : Kind → String → Nat)
    (hr : g.rankedBy rk = true) (N : Nat) (hb : ∀ k id, rk k id ≤ N) (ff gf : Nat) (hgf : N ≤ gf) (input : Ctx)
    (V : String → Outcome Value)
    (hV : ∀ id d, g.findDecision id = some d →
      V id = Spec.logicOverRequirements g (level base g gf ff).env
        (Spec.requiredKnowledge base g ff gf d.reqKnowledge) V d input) :
    ∀ id d, g.findDecision id = some d → V id = evalDecision base g ff gf id input :=
  values_unique hr (level base g gf ff).env (fun d => Spec.requiredKnowledge base g ff gf d.reqKnowledge) input
    V (fun r => evalDecision base g ff gf r input) hV
    (fun id d hf => decision_value_is_logic_over_requirements_ranked base g rk hr N hb ff gf hgf id d hf input)

/-- Non-vacuity of `decision_values_unique`: the values `evaluate_invocable` computes satisfy the hypothesis `hV`. -/
example (base : Env) (g : Drg) (rk : Kind → String → Nat) (hr : g.rankedBy rk = true) (N : Nat)
    (hb : ∀ k id, rk k id ≤ N) (ff gf : Nat) (hgf : N ≤ gf) (input : Ctx) :
    ∀ id d, g.findDecision id = some d →
      (fun r => evalDecision base g ff gf r input) id = Spec.logicOverRequirements g (level base g gf ff).env
        (Spec.requiredKnowledge base g ff gf d.reqKnowledge) (fun r => evalDecision base g ff gf r input) d input :=
  fun id d hf => decision_value_is_logic_over_requirements_ranked base g rk hr N hb ff gf hgf id d hf input

/-- the decision `A` of `witnessF14` -/
def witnessF14A : Decision :=
  { id := "_a", name := "A", var := "A", ty := .untyped, reqInputs := [], reqDecisions := [],
    reqKnowledge := [], logic := .numeric "1" "" }

/-- the decision `B` of `witnessF14` -/
def witnessF14B : Decision :=
  { id := "_b", name := "B", var := "B", ty := .untyped, reqInputs := [], reqDecisions := ["_a"],
    reqKnowledge := [], logic := .add (.name "A") (.numeric "1" "") }

/-- Non-vacuity: `witnessF14` (`A = 1`, `B = A + 1`, `B` requires `A`) is acyclic, builds, has the numbering
A ↦ 0, B ↦ 1; `B` is registered; its equation evaluates — required knowledge `{}`, required decisions `{A: 1}`,
value 2 — and in the environment of its logic `A` is bound to the value `V` gives `_a`. -/
example :
    witnessF14.acyclic = true ∧ witnessF14.checkRequirements = true ∧ witnessF14.size = 2 ∧
    witnessF14.rankedBy (fun _ id => if id = "_b" then 1 else 0) = true ∧
    witnessF14.findDecision "_b" = some witnessF14B ∧
    Spec.requiredKnowledge witnessBase witnessF14 1 2 witnessF14B.reqKnowledge = .ok [] ∧
    (∀ V : String → Outcome Value, V "_a" = .ok (.num ⟨false, 1, 0⟩) →
        Spec.logicOverRequirements witnessF14 witnessBase (.ok []) V witnessF14B [] = .ok (.num ⟨false, 2, 0⟩) ∧
        Spec.valueBinding witnessF14 V "A" witnessF14B.reqDecisions = some (.num ⟨false, 1, 0⟩)) := by
  have hfa : witnessF14.findDecision "_a" = some witnessF14A := by
    simp [findDecision, findLast?, witnessF14, witnessF14A]
  have hfb : witnessF14.findDecision "_b" = some witnessF14B := by
    simp [findDecision, findLast?, witnessF14, witnessF14B]
  refine ⟨by decide, by decide, by decide, by decide, hfb, rfl, ?_⟩
  intro V hV
  have h1 : Spec.requiredDecisionValues witnessF14 V witnessF14B.reqDecisions
      (witnessF14.serviceFns witnessF14B.reqKnowledge []) = .ok [("A", .num ⟨false, 1, 0⟩)] := by
    show Spec.requiredDecisionValues witnessF14 V ["_a"] [] = _
    simp only [Spec.requiredDecisionValues, hfa, hV]
    rfl
  have h2 : denBoxed witnessBase witnessF14B.logic
      [Spec.requirementEnv witnessF14 witnessF14B [] [("A", .num ⟨false, 1, 0⟩)]] = .ok (.num ⟨false, 2, 0⟩) := rfl
  constructor
  · simp only [Spec.logicOverRequirements, h1, h2]
    show Outcome.ok (Value.coerced .any _) = _
    rw [coerced_any]
  · show Spec.valueBinding witnessF14 V "A" ["_a"] = _
    simp only [Spec.valueBinding, hfa, hV]
    rfl

end Dmn.Drg
