import Dmn.Model.Concurrency
import Dmn.Lemmas.Concurrency
import Dmn.Model.ConcPanic
import Dmn.Lemmas.ConcPanic
import Dmn.Gen.SharedState

/-!
# C20 — a deployed model may be evaluated from many threads with per-call results intact

Scheduling and the memory model cannot run in Lean; what is proved is the *reason* the code
is thread-safe, over two objects:

* the table `Dmn.Gen.SharedState`, regenerated from the sources on every run: shared
  locations, lock operations per function, call edges, evaluation-phase reachability, FFI
  calls (`eval_phase_read_only`, `reachability_certificate`, `no_unsynchronised_globals`,
  `ffi_private_context`, `evaluators_send_sync` — `decide` over the table);
* the interleaving semantics `Dmn.Conc` (any number of threads, any schedule, the strictest
  reader/writer policy): with read-only programs no thread ever waits (`no_blocking`), every
  step makes progress (`progress`), and each call's result is the result of that call run
  alone (`interleaving_independent`) — for all programs, thread counts and schedules.

`eval_programs_read_only` joins the two: every operation the table attributes to the
evaluation phase is a read-only action of the semantics.  Not proved (exercised by the
stress run): that real executions are sequences of these actions (the extraction is textual
and name-based), the internals of `std::sync`, `lazy_static`, `regex`, `chrono-tz`, the C
library, and the hardware memory model.  `Send`/`Sync` bounds are checked by rustc.
-/

namespace Dmn.Conc
open Dmn.Gen.SharedState

/-! ## The extracted table -/

/-- The evaluation-phase set really is closed: it contains `evaluate_invocable` and every
stored closure, and every callee (by name and arity) of a member is a member. -/
theorem reachability_certificate :
    reach evalReachable evalEntry = true ∧ containsAll evalReachable closureRoots = true ∧
    closed evalReachable edges = true ∧ reach buildReachable buildEntry = true ∧
    closed buildReachable edges = true := by
  decide +kernel

/-- Nothing reachable from `evaluate_invocable` (or from any stored evaluator closure) takes
a write lock, locks a mutex, or mutably borrows a shared cell. -/
theorem eval_phase_read_only : evalPhaseReadOnly evalReachable locations ops = true := by
  decide +kernel

/-- The same, operation by operation, in the vocabulary of the semantics. -/
theorem eval_programs_read_only :
    ∀ o ∈ ops, reach evalReachable o.fn = true → (o.actKind locations).readOnly = true := by
  have h := eval_phase_read_only
  simp only [evalPhaseReadOnly, List.all_eq_true, Bool.or_eq_true, Bool.not_eq_true'] at h
  intro o ho hr
  rcases h o ho with h1 | h1
  · rw [hr] at h1; cases h1
  · exact h1

/-- non-vacuity: the evaluation phase does take locks — the registries' read locks (nested:
decision → required decision → knowledge model) and the per-call scope's `RefCell` -/
example : (ops.filter (fun o => reach evalReachable o.fn && o.kind == .read)).length ≥ 5 ∧
    (ops.filter (fun o => reach evalReachable o.fn && o.kind == .borrowMut)).length ≥ 5 ∧
    (ops.filter (fun o => o.kind == .write)).length ≥ 8 := by
  decide +kernel

/-- Write acquisitions exist only in the build phase (`ModelEvaluator::new` and what it calls). -/
theorem writes_only_in_build :
    ops.all (fun o => o.kind != .write || (reach buildReachable o.fn && !reach evalReachable o.fn)) = true := by
  decide +kernel

/-- Globals: only `lazy_static` constants (initialised once, immutable afterwards) and the
`RwLock` registries; the one `RefCell` belongs to the per-call scope. -/
theorem no_unsynchronised_globals : noUnsynchronisedGlobals locations = true := by
  decide +kernel

/-- Every decNumber call receives a context no other thread can see: a fresh clone of the
default context (the C library writes status bits into it); the shared `DEFAULT_CONTEXT` is
never used except through `.clone()`. -/
theorem ffi_private_context :
    ffiPrivate evalReachable ffiCalls = true ∧ defaultContextUses.all (·.1) = true := by
  decide +kernel

example : (ffiCalls.filter (fun c => c.ctx == .freshClone)).length ≥ 20 := by decide +kernel

/-- Stored evaluators are `Send + Sync` boxed closures (so rustc rejects capturing a `Scope`
or anything else that is not thread-safe). -/
theorem evaluators_send_sync : evaluatorTypes ≠ [] ∧ evaluatorTypes.all (·.2.2) = true := by
  decide +kernel

/-! ## The interleaving semantics -/

variable {σ R : Type}

/-- The initial world of an evaluation run (no lock held, read-only calls) is in the
evaluation phase. -/
theorem evalPhase_init (r : R) (calls : List (List (Act σ R) × σ))
    (h : ∀ c ∈ calls, ∀ a ∈ c.1, a.readOnly = true) : EvalPhase (initWorld r calls) := by
  refine ⟨fun _ => ⟨rfl, rfl⟩, ?_⟩
  intro t ht a ha
  simp only [initWorld, List.mem_map] at ht
  obtain ⟨c, hc, rfl⟩ := ht
  exact h c hc a ha

/-- In every state reachable by evaluation steps, every thread that still has something to do
can do it at once: read acquisitions never wait (no writer exists, none is queued), including
nested read acquisitions of a lock the thread already holds.  Hence no deadlock. -/
theorem no_blocking (w0 : World σ R) (h : EvalPhase w0) (sched : List Nat) (i : Nat) (t : Thread σ R)
    (ht : (run w0 sched).threads[i]? = some t) (hne : t.todo ≠ []) :
    ∃ w', stepThread (run w0 sched) i = .done w' := by
  have hp := evalPhase_run h sched
  cases hd : t.todo with
  | nil => exact absurd hd hne
  | cons a rest =>
    obtain ⟨w', hs, _⟩ := step_evalPhase hp ht hd
    exact ⟨w', hs⟩

/-- non-vacuity: two calls taking the same read lock, one of them twice (nested) -/
example : EvalPhase (initWorld (σ := Nat) (R := Nat) 7
    [([.acqRead 0, .acqRead 0, .compute (fun r s => r + s), .relRead 0, .relRead 0], 1),
     ([.acqRead 0, .compute (fun r s => r * s), .relRead 0], 2)]) :=
  evalPhase_init _ _ (by simp [Act.readOnly, Act.kind, ActKind.readOnly])

/-- Every pick of an unfinished thread consumes one action: any scheduler that keeps picking
unfinished threads finishes all calls after `remaining w` picks. -/
theorem progress (w : World σ R) (h : EvalPhase w) (i : Nat) (t : Thread σ R)
    (ht : w.threads[i]? = some t) (hne : t.todo ≠ []) :
    remaining (applyStep w i) + 1 = remaining w := by
  cases hd : t.todo with
  | nil => exact absurd hd hne
  | cons a rest =>
    obtain ⟨w', hs, _, ⟨st', hth, _⟩, _⟩ := step_evalPhase h ht hd
    unfold applyStep remaining
    rw [hs]
    simp only
    rw [hth]
    exact sum_set_lt ht (by simp [hd])

/-- For every schedule, whatever the interleaving: what a call has computed so far, continued
alone, gives the result of that call run alone from the start — in particular a finished call
holds exactly the result of the call run alone; and the registries are unchanged. -/
theorem interleaving_independent (w0 : World σ R) (h : EvalPhase w0) (sched : List Nat) (i : Nat)
    (t0 t : Thread σ R) (h0 : w0.threads[i]? = some t0) (ht : (run w0 sched).threads[i]? = some t) :
    alone w0.reg t.todo t.st = alone w0.reg t0.todo t0.st ∧
    (t.todo = [] → t.st = alone w0.reg t0.todo t0.st) ∧
    (run w0 sched).reg = w0.reg := by
  obtain ⟨hr, _, hp⟩ := run_preserves h sched
  have e := hp i t0 t h0 ht
  refine ⟨e, ?_, hr⟩
  intro hfin
  rw [hfin] at e
  exact e

/-- non-vacuity and a worked instance: two calls, schedule 1,0,0,1,0,1,0,0 -/
example :
    let w0 := initWorld (σ := Nat) (R := Nat) 7
      [([.acqRead 0, .acqRead 0, .compute (fun r s => r + s), .relRead 0, .relRead 0], 1),
       ([.acqRead 0, .compute (fun r s => r * s), .relRead 0], 2)]
    ((run w0 [1, 0, 0, 1, 0, 1, 0, 0]).threads.map (fun t => (t.todo.length, t.st))) = [(0, 8), (0, 14)] := by
  decide

/-! ## Sensitivity: what the hypotheses exclude -/

/-- A mutation of shared state in one call changes another call's result: with a `mutate`
action the conclusion of `interleaving_independent` fails. -/
theorem write_breaks_independence :
    let w0 := initWorld (σ := Nat) (R := Nat) 0
      [([.mutate (fun _ r => r + 1)], 0), ([.compute (fun r _ => r)], 0)]
    ((run w0 [0, 1]).threads.map (fun t => t.st)) = [0, 1] ∧
    alone (σ := Nat) (R := Nat) 0 [.compute (fun r _ => r)] 0 = 0 := by
  decide

/-- A writer between two nested read acquisitions deadlocks (the recursive-read hazard of
`std::sync::RwLock`): thread 0 holds the read lock and wants it again, thread 1 is queued for
writing; neither can ever step.  `no_blocking` rests on the absence of writers. -/
theorem nested_read_deadlocks_with_writer :
    let w0 := initWorld (σ := Nat) (R := Nat) 0
      [([.acqRead 0, .acqRead 0, .relRead 0, .relRead 0], 0), ([.acqWrite 0, .relWrite 0], 0)]
    let w := run w0 [0, 1]
    (match stepThread w 0 with | .blocked _ => true | _ => false) = true ∧
    (match stepThread w 1 with | .blocked _ => true | _ => false) = true ∧
    (match stepThread (run w [0, 1, 1, 0]) 0 with | .blocked _ => true | _ => false) = true := by
  decide

end Dmn.Conc

/-! ## Panicking evaluations: guards, unwinding, poisoning

`Dmn.ConcP` (Dmn/Model/ConcPanic.lean) refines the semantics by what `std::sync::RwLock` does when
a call panics while it holds guards.  Modelled assumptions (the documented rules of std): P1 a lock
is released when its guard is dropped and unwinding drops every guard of the panicking call; P2 a
lock is poisoned exactly when a *write* guard is dropped during a panic — a read guard never
poisons; P3 an acquisition of a poisoned lock fails, and the evaluator's `if let Ok(..) = ….read()`
then ends the call with a null. -/

namespace Dmn.ConcP

variable {σ R : Type}

/-- The initial world of an evaluation run: calls that take read locks, compute — and may panic
anywhere. -/
theorem evalPhase_init (r : R) (calls : List (List (Act σ R) × σ))
    (h : ∀ c ∈ calls, ∀ a ∈ c.1, a.evalSafe = true) : EvalPhase (initWorld r calls) := by
  refine ⟨fun _ => ⟨rfl, rfl⟩, ?_, ?_, ?_⟩
  · intro t ht
    simp only [initWorld, List.mem_map] at ht
    obtain ⟨c, _, rfl⟩ := ht
    rfl
  · intro t ht a ha
    simp only [initWorld, List.mem_map] at ht
    obtain ⟨c, hc, rfl⟩ := ht
    exact h c hc a ha
  · intro t ht hne
    simp only [initWorld, List.mem_map] at ht
    obtain ⟨c, _, rfl⟩ := ht
    exact absurd rfl hne

/-- **A panicking evaluation under read locks poisons nothing.**  Whatever the calls, wherever they
panic, whatever the schedule: no lock is ever poisoned and none is ever left write-held. -/
theorem panic_under_read_lock_poisons_nothing (w0 : World σ R) (h : EvalPhase w0) (sched : List Nat) (l : Nat) :
    ((run w0 sched).locks l).poisoned = false ∧ ((run w0 sched).locks l).writer = false := by
  have hp := evalPhase_run h sched
  exact ⟨(hp.clean l).2, (hp.clean l).1⟩

/-- Panics of other calls never make a call wait and never make an acquisition fail: every thread
that still has something to do performs its next action at once. -/
theorem no_blocking_with_panics (w0 : World σ R) (h : EvalPhase w0) (sched : List Nat) (i : Nat) (t : Thread σ R)
    (ht : (run w0 sched).threads[i]? = some t) (hne : t.todo ≠ []) :
    ∃ w', stepThread (run w0 sched) i = .done w' := by
  have hp := evalPhase_run h sched
  cases hd : t.todo with
  | nil => exact absurd hd hne
  | cons a rest =>
    obtain ⟨w', _, hs, _⟩ := step_evalPhase hp ht hd
    exact ⟨w', hs⟩

/-- A thread with nothing left to do shows what it produced. -/
theorem view_finished (r : R) (t : Thread σ R) (h : t.todo = []) : view r t = (t.st, t.ending) := by
  unfold view
  cases he : t.ending <;> simp [h, alone]

/-- **Per-call results with panicking neighbours.**  For every schedule: what a call has done so far,
continued alone, gives the state *and the way of ending* (returned or panicked, at the same action)
of that call run alone from the start; a call never ends with a lock error; the registries are
unchanged.  In particular a finished call holds exactly the result of the call run alone, however
many other calls panicked meanwhile. -/
theorem interleaving_independent_with_panics (w0 : World σ R) (h : EvalPhase w0) (sched : List Nat) (i : Nat)
    (t0 t : Thread σ R) (h0 : w0.threads[i]? = some t0) (ht : (run w0 sched).threads[i]? = some t) :
    view w0.reg t = view w0.reg t0 ∧
    (t.todo = [] → (t.st, t.ending) = view w0.reg t0) ∧
    (t0.ending ≠ .lockError → t.ending ≠ .lockError) ∧
    (run w0 sched).reg = w0.reg := by
  obtain ⟨hr, _, hp⟩ := run_preserves h sched
  obtain ⟨e, n⟩ := hp i t0 t h0 ht
  refine ⟨e, ?_, n, hr⟩
  intro hfin
  rw [← view_finished w0.reg t hfin]
  exact e

/-- non-vacuity and a worked instance: thread 0 panics while it holds the read lock twice (nested),
thread 1 evaluates meanwhile; schedule 0,1,0,1,0,1,1: nothing is poisoned, no reader is left, thread
1 has its own result, thread 0 ended as it does alone. -/
example :
    let w0 := initWorld (σ := Nat) (R := Nat) 7
      [([.acqRead 0, .acqRead 0, .panic, .relRead 0, .relRead 0], 1),
       ([.acqRead 0, .compute (fun r s => r * s), .relRead 0, .compute (fun _ s => s + 1)], 2)]
    let w := run w0 [0, 1, 0, 1, 0, 1, 1]
    (w.threads.map (fun t => (t.todo.length, t.st, t.ending))) = [(0, 1, .panicked), (0, 15, .running)] ∧
    (w.locks 0) = { readers := 0, writer := false, poisoned := false } ∧
    alone (σ := Nat) (R := Nat) 7 [.acqRead 0, .compute (fun r s => r * s), .relRead 0, .compute (fun _ s => s + 1)] 2 = (15, .running) ∧
    alone (σ := Nat) (R := Nat) 7 [.acqRead 0, .acqRead 0, .panic, .relRead 0, .relRead 0] 1 = (1, .panicked) := by
  decide

example : EvalPhase (initWorld (σ := Nat) (R := Nat) 7
    [([.acqRead 0, .acqRead 0, .panic, .relRead 0, .relRead 0], 1),
     ([.acqRead 0, .compute (fun r s => r * s), .relRead 0], 2)]) :=
  evalPhase_init _ _ (by simp [Act.evalSafe])

/-- Sensitivity (what the read-only hypothesis excludes): a call that panics while it holds a
*write* guard poisons the lock (P2); every later acquisition fails (P3), so another call ends with
a lock error instead of the result it has alone — the failure mode of a write lock on the
evaluation path. -/
theorem panic_under_write_lock_poisons :
    let w0 := initWorld (σ := Nat) (R := Nat) 0
      [([.acqWrite 0, .panic, .relWrite 0], 0), ([.acqRead 0, .compute (fun _ s => s + 1), .relRead 0], 0)]
    let w := run w0 [0, 0, 1, 1, 1]
    (w.locks 0).poisoned = true ∧
    (w.threads.map (fun t => (t.st, t.ending))) = [(0, .panicked), (0, .lockError)] ∧
    alone (σ := Nat) (R := Nat) 0 [.acqRead 0, .compute (fun _ s => s + 1), .relRead 0] 0 = (1, .running) := by
  decide

end Dmn.ConcP

