import Dmn.Lemmas.ModelBuild
import Dmn.Lemmas.XmlMandatory
import Dmn.Lemmas.XmlTable
import Dmn.Lemmas.ModelEvalCost
import Dmn.Lemmas.DrgDfs

/-!
# C12 — loading any model text yields a usable model or an error, never a crash (proof part)

Theorems about `Dmn.MB` (model of the index pairing in `parse_decision_table` and of the
reference-following traversals of `ModelEvaluator::new` / `evaluate_invocable`) and about
`Dmn.DT.evaluate` for the evaluation of a built table, and (second half, `namespace Dmn.Xml`) about the
model `Dmn.Xml.parse` of the XML layer `model/src/model/parser.rs` over the abstract tree roxmltree
delivers, composed with the builder model.  roxmltree itself, the `uriparse` crate (a parameter of
the parser model), the stack and process aborts are **not** modelled: they are validated by the
fault enumeration of `harness/src/c12.rs`.  The decision-table statements hold at full strength since f36e6c9
(F11 repaired), the termination statements since aff91af and b66efe5 (F12a–e repaired:
`ModelEvaluator::new` rejects cyclic requirements and self-referring item definitions).
Unbounded recursion inside FEEL expressions (F12f, property C05) is outside this model.
-/

namespace Dmn.MB

open Dmn Dmn.DT

/-- Evaluating a table every rule of which carries one value per output clause (at least one)
never panics. -/
theorem dt_eval_no_panic_wf (t : DT.Table) (wf : t.WF = true) : (DT.evaluate t).isPanic = false := by
  have hne := ms_outputs_ne wf
  have hres : ∀ r ∈ Spec.matchingRules t, ∃ v, getResult (evalTable t) (evalRule r) = .ok v :=
    fun r hr => ⟨_, getResult_evalRule t r (hne r hr)⟩
  have hlist : ∀ rs : List Rule, (∀ r ∈ rs, r.outputs ≠ []) →
      (getResultsList (evalTable t) (rs.map evalRule)).isPanic = false := by
    intro rs h
    simp [getResultsList, getResults_map_evalRule t rs h, DT.Outcome.isPanic]
  have hperm : (prioritized (evalTable t)).Perm (matching (evalTable t).rules) := sortStable_perm _ _
  rw [matching_evalTable] at hperm
  have hprio : ∀ e ∈ prioritized (evalTable t), ∃ r ∈ Spec.matchingRules t, e = evalRule r := by
    intro e he
    have := hperm.mem_iff.mp he
    obtain ⟨r, hr, rfl⟩ := List.mem_map.mp this
    exact ⟨r, hr, rfl⟩
  have hagg : ∀ site agg, (hitCollectAgg site agg (evalTable t)).isPanic = false := by
    intro site agg
    simp only [hitCollectAgg, matching_evalTable]
    split
    · rfl
    · cases hm : Spec.matchingRules t with
      | nil => rfl
      | cons r rs =>
        have := firstOutputs_map_evalRule site (r :: rs) (by rw [← hm]; exact hne)
        simp only [List.map_cons] at this
        simp [this, DT.Outcome.isPanic]
  simp only [evaluate]
  cases hp : t.hitPolicy <;> simp only
  · -- unique
    simp only [hitUnique, matching_evalTable]
    cases hm : Spec.matchingRules t with
    | nil => rfl
    | cons r rs =>
      cases rs with
      | nil =>
        obtain ⟨v, hv⟩ := hres r (by simp [hm])
        simp [hv, DT.Outcome.isPanic]
      | cons r' rs' => rfl
  · -- any
    simp only [hitAny, matching_evalTable]
    cases hm : Spec.matchingRules t with
    | nil => rfl
    | cons r rs =>
      have hne' : ∀ x ∈ r :: rs, x.outputs ≠ [] := by rw [← hm]; exact hne
      simp only [List.map_cons, getResult_evalRule t r (hne' r (by simp))]
      have := anyLoop_map_evalRule t (Spec.result t r) (r :: rs) hne'
      simp only [List.map_cons] at this
      rw [this]
      rfl
  · -- priority
    simp only [hitPriority]
    cases hs : prioritized (evalTable t) with
    | nil => rfl
    | cons e es =>
      obtain ⟨r, hr, rfl⟩ := hprio e (by simp [hs])
      obtain ⟨v, hv⟩ := hres r hr
      simp [hv, DT.Outcome.isPanic]
  · -- first
    simp only [hitFirst, matching_evalTable]
    cases hm : Spec.matchingRules t with
    | nil => rfl
    | cons r rs =>
      obtain ⟨v, hv⟩ := hres r (by simp [hm])
      simp [hv, DT.Outcome.isPanic]
  · -- rule order
    simp only [hitRuleOrder, matching_evalTable]
    cases hm : Spec.matchingRules t with
    | nil => rfl
    | cons r rs =>
      have := hlist (r :: rs) (by rw [← hm]; exact hne)
      simpa using this
  · -- output order
    simp only [hitOutputOrder, prioritized_eq wf]
    cases hs : (Spec.matchingRules t).mergeSort (Spec.prioLe t) with
    | nil => rfl
    | cons r rs =>
      have := hlist (r :: rs) (by
        intro r' hr'
        rw [← hs] at hr'
        exact hne r' ((List.mergeSort_perm _ _).mem_iff.mp hr'))
      simpa using this
  · -- collect
    simp only [hitCollectList, hitRuleOrder, matching_evalTable]
    cases hm : Spec.matchingRules t with
    | nil => rfl
    | cons r rs =>
      have := hlist (r :: rs) (by rw [← hm]; exact hne)
      simpa using this
  · -- count
    simp only [hitCollectCount]
    split <;> rfl
  · exact hagg _ _
  · exact hagg _ _
  · exact hagg _ _

example : (⟨.collectSum, [], [.none], [.none], [⟨[.t], [.num 1]⟩]⟩ : DT.Table).WF = true := by decide

/-- The builder of a decision table returns `Ok` or `Err`, never panics — for every table
shape: any number of clauses, any rule lengths, zero outputs, cells that do not parse. -/
theorem dt_build_no_panic (t : TableS) : (buildTable t).isPanic = false := by
  simp only [buildTable]
  split
  · split
    · split
      · simp [DT.Outcome.isPanic]
      · exact ruleLoop_no_panic _ _ _
    · simp [DT.Outcome.isPanic]
  · simp [DT.Outcome.isPanic]

/-- The old witnesses of F11 (repaired by f36e6c9). Two input clauses, a rule with one input entry: -/
def shortRule : TableS := ⟨[⟨true, none⟩, ⟨true, none⟩], [⟨none, none, none⟩], [⟨[true], [true]⟩]⟩
/-- two output clauses, a rule with one output entry; -/
def shortOutputs : TableS := ⟨[⟨true, none⟩], [⟨none, none, some true⟩, ⟨none, none, some true⟩], [⟨[true], [true]⟩]⟩
/-- a rule with more entries than clauses; -/
def longRule : TableS := ⟨[⟨true, none⟩], [⟨none, none, none⟩], [⟨[true, true], [true]⟩]⟩
/-- a table without output clause. -/
def noOutputs : TableS := ⟨[⟨true, none⟩], [], [⟨[true], []⟩]⟩

example : (buildTable shortRule).isError = true ∧ (buildTable shortOutputs).isError = true ∧
    (buildTable longRule).isError = true ∧ (buildTable noOutputs).isError = true ∧
    buildTable ⟨[⟨true, none⟩, ⟨true, some true⟩], [⟨none, none, some true⟩],
      [⟨[true, true], [true]⟩, ⟨[true, true], [true]⟩]⟩ = .ok [(2, 1), (2, 1)] := by decide

/-- A table is built exactly when it has an output clause, every rule has one entry per
clause, and every cell parses; the parsed table then carries one evaluator per clause in
every rule. -/
theorem dt_build_shape (t : TableS) (ps : Parsed) (h : buildTable t = .ok ps) :
    t.wellShaped = true ∧ ps = t.rules.map (fun _ => (t.ins.length, t.outs.length)) := by
  simp only [buildTable] at h
  split at h
  · split at h
    · split at h
      · simp at h
      · rename_i hne
        have := ruleLoop_shape _ _ _ _ h
        refine ⟨?_, this.1⟩
        simp only [TableS.wellShaped, Bool.and_eq_true, List.all_eq_true, decide_eq_true_eq]
        exact ⟨by simpa using hne, this.2⟩
    · simp at h
  · simp at h

/-- `t` is what evaluating the cells of the parsed table `ps` of `ts` can produce: one cell per
output clause, and per rule as many evaluated entries as the rule has evaluators. -/
def Evaluates (ts : TableS) (ps : Parsed) (t : DT.Table) : Prop :=
  t.outputValues.length = ts.outs.length ∧ t.defaultOutputs.length = ts.outs.length ∧
  t.rules.map (fun r => (r.inputs.length, r.outputs.length)) = ps

/-- Evaluating a decision table that was built never panics, whatever its cells evaluate to —
for every table shape (tables without output clause or with rules of the wrong size are not
built). -/
theorem dt_eval_no_panic (ts : TableS) (ps : Parsed) (hb : buildTable ts = .ok ps)
    (t : DT.Table) (he : Evaluates ts ps t) : (DT.evaluate t).isPanic = false := by
  obtain ⟨hws, hps⟩ := dt_build_shape ts ps hb
  obtain ⟨h1, h2, h3⟩ := he
  apply dt_eval_no_panic_wf
  simp only [TableS.wellShaped, Bool.and_eq_true, List.all_eq_true, decide_eq_true_eq] at hws
  simp only [Table.WF, Bool.and_eq_true, decide_eq_true_eq, List.all_eq_true]
  refine ⟨⟨?_, by omega⟩, ?_⟩
  · have : ts.outs.length ≠ 0 := by
      intro h0
      have := hws.1
      simp [List.isEmpty_iff, List.eq_nil_of_length_eq_zero h0] at this
    omega
  · intro r hr
    rw [hps] at h3
    have hmem : (r.inputs.length, r.outputs.length) ∈ t.rules.map (fun r => (r.inputs.length, r.outputs.length)) :=
      List.mem_map.mpr ⟨r, hr, rfl⟩
    rw [h3] at hmem
    obtain ⟨_, _, he⟩ := List.mem_map.mp hmem
    simp only [Prod.mk.injEq] at he
    omega

example : buildTable ⟨[⟨true, none⟩], [⟨none, none, none⟩], [⟨[true], [true]⟩]⟩ = .ok [(1, 1)] ∧
    Evaluates ⟨[⟨true, none⟩], [⟨none, none, none⟩], [⟨[true], [true]⟩]⟩ [(1, 1)]
      ⟨.collectSum, [], [.none], [.none], [⟨[.t], [.num 1]⟩]⟩ :=
  ⟨by decide, rfl, rfl, rfl⟩

/-- The depth of reference-following a model can need: the number of decisions, knowledge
models and decision services, or of item definitions. -/
def bound (d : Defs) : Nat := max (nodeCount d) d.items.length

/-- `ModelEvaluator::new` follows references to a bounded depth for **every** definitions
value, cyclic ones included: it returns `ok` or an error, with any fuel from `bound d` on. -/
theorem build_terminates (d : Defs) (fuel : Nat) (hf : bound d ≤ fuel) : build d fuel ≠ .diverge := by
  have hf1 : nodeCount d ≤ fuel := by unfold bound at hf; omega
  have hf2 : d.items.length ≤ fuel := by unfold bound at hf; omega
  unfold build
  cases hr : reqCheck d with
  | false => simp
  | true =>
  simp only [Bool.not_true, Bool.false_eq_true, if_false]
  apply seq_ne_diverge
  · apply forM_ne_diverge
    intro i _
    split <;> simp
  cases hi : itemCheck d.items with
  | false => simp
  | true =>
  simp only [Bool.not_true, Bool.false_eq_true, if_false]
  have wr := walkRef_of_check d.items hi fuel hf2
  have wp := walkParam_of_check d.items hi fuel hf2
  have bk : ∀ reqs, bringKR d fuel reqs ≠ .diverge := by
    intro reqs
    apply allM_ne_diverge
    intro r _
    exact bringOne_of_chain d _ r (reqChain_of_check d hr r) fuel hf1
  apply seq_ne_diverge
  · apply forM_ne_diverge
    intro b _
    simp only [buildBkm]
    exact seq_ne_diverge _ _ (forM_ne_diverge _ _ (fun t _ => wp t)) (wr _)
  apply seq_ne_diverge
  · apply forM_ne_diverge
    intro x _
    simp only [buildDecision]
    apply seq_ne_diverge _ _ (wr _)
    apply seq_ne_diverge _ _ (bk _)
    apply forM_ne_diverge
    intro r _
    simp only [buildInfo]
    apply seq_ne_diverge
    · cases r.reqDecision with
      | none => simp
      | some id =>
        simp only
        cases findDecision d id with
        | none => simp
        | some rd => exact bk _
    · cases r.reqInput with
      | none => simp
      | some id =>
        simp only
        cases findInput d id with
        | none => simp
        | some i => exact wr _
  · apply forM_ne_diverge
    intro s _
    simp only [buildService]
    apply seq_ne_diverge _ _ (wr _)
    apply seq_ne_diverge
    · apply forM_ne_diverge
      intro id _
      cases findInput d id with
      | none => simp
      | some i => exact wr _
    · apply forM_ne_diverge
      intro id _
      cases findDecision d id with
      | none => simp
      | some x => exact wr _

/-- Evaluating any decision, knowledge model or decision service of a model that was built
follows requirements to a bounded depth. -/
theorem eval_terminates (d : Defs) (fuel : Nat) (hb : build d fuel = .ok) (id f : Nat)
    (hf : nodeCount d ≤ f) :
    evalDecision d f id ≠ .diverge ∧ evalBkm d f id ≠ .diverge ∧ evalService d f id ≠ .diverge := by
  have hr : reqCheck d = true := by
    unfold build at hb
    by_cases hr : reqCheck d = true
    · exact hr
    · simp [hr] at hb
  exact eval_of_chain d _ id (reqChain_of_check d hr id) f hf

/-- A model with cyclic requirements — a set of decisions, knowledge models and decision
services each of which requires a member of the set — is rejected with an error. -/
theorem cyclic_requirements_rejected (d : Defs) (C : Nat → Prop) (hC : ReqCycle d C) (id : Nat)
    (hid : C id) (fuel : Nat) : build d fuel = .error := by
  simp [build, reqCheck_cycle d C hC id hid]

/-- A model with an item definition on a reference cycle — a set of item definitions each of
which refers to a member of the set — is rejected with an error. -/
theorem cyclic_items_rejected (d : Defs) (C : Nat → Prop) (hC : ItemCycle d.items C) (n : Nat)
    (hn : C n) (fuel : Nat) : build d fuel = .error := by
  have hic : itemCheck d.items = false := by
    obtain ⟨it, hl, m, hm, hcm⟩ := hC n hn
    simp only [itemCheck]
    rw [List.all_eq_false]
    refine ⟨(n, it), lookupItem_mem hl, ?_⟩
    simp only [refsOkWith_eq, Bool.not_eq_true]
    rw [List.all_eq_false]
    exact ⟨m, hm, by simp [itemChain_cycle d.items C hC _ m hcm]⟩
  unfold build
  cases hr : reqCheck d with
  | false => simp
  | true =>
    simp only [Bool.not_true, Bool.false_eq_true, if_false, hic, Bool.not_false, if_true]
    cases hq : forM (fun i : Input => if i.typeRef.isSome then Res.ok else Res.error) d.inputs with
    | ok => simp [seq]
    | error => simp [seq]
    | diverge => exact absurd hq (forM_ne_diverge _ _ (fun i _ => by split <;> simp))

/-- A model with two levels of knowledge models and a referenced item definition builds. -/
def okDefs : Defs :=
  ⟨[(0, .simple), (1, .comp [.ref 0, .collRef 0])], [⟨10, some (.named 1)⟩],
   [⟨20, [], [], none⟩, ⟨21, [20], [.named 0], some .builtin⟩],
   [⟨30, none, [21], [⟨none, some 10⟩]⟩, ⟨31, some (.named 1), [], [⟨some 30, none⟩]⟩], []⟩

example : bound okDefs = 4 ∧ build okDefs 4 = .ok ∧ evalDecision okDefs 4 31 = .ok := by decide

/-- The old witnesses of F12 (repaired by aff91af, b66efe5): two knowledge models requiring each
other, reachable from a decision; -/
def cycKnowledge : Defs :=
  ⟨[], [], [⟨0, [1], [], none⟩, ⟨1, [0], [], none⟩], [⟨2, none, [0], []⟩], []⟩
/-- an item definition whose type reference is itself, used by a required input; -/
def cycItem : Defs :=
  ⟨[(0, .ref 0)], [⟨5, some (.named 0)⟩], [], [⟨2, none, [], [⟨none, some 5⟩]⟩], []⟩
/-- two decisions requiring each other; -/
def cycDecisions : Defs :=
  ⟨[], [], [], [⟨0, none, [], [⟨some 1, none⟩]⟩, ⟨1, none, [], [⟨some 0, none⟩]⟩], []⟩
/-- a decision service whose output decision requires the service as knowledge. -/
def cycService : Defs :=
  ⟨[], [], [], [⟨0, none, [40], []⟩], [⟨40, none, [], [], [], [0]⟩]⟩

example : ReqCycle cycDecisions (fun id => id = 0 ∨ id = 1) := by
  intro id h
  rcases h with rfl | rfl
  · exact ⟨[1], by decide, 1, by simp, Or.inr rfl⟩
  · exact ⟨[0], by decide, 0, by simp, Or.inl rfl⟩

example : ItemCycle cycItem.items (fun n => n = 0) := by
  intro n h
  subst h
  exact ⟨.ref 0, rfl, 0, by simp [refs], rfl⟩

/-- All four are rejected with an error, whatever the fuel. -/
theorem cyclic_witnesses_rejected (fuel : Nat) :
    build cycKnowledge fuel = .error ∧ build cycItem fuel = .error ∧
    build cycDecisions fuel = .error ∧ build cycService fuel = .error := by
  have h1 : reqCheck cycKnowledge = false := by decide
  have h2 : reqCheck cycItem = true ∧ itemCheck cycItem.items = false := by decide
  have h3 : reqCheck cycDecisions = false := by decide
  have h4 : reqCheck cycService = false := by decide
  refine ⟨by simp [build, h1], ?_, by simp [build, h3], by simp [build, h4]⟩
  unfold build
  rw [h2.1, h2.2]
  simp [cycItem, forM, seq]

/-! ## The cost of the requirement check (repair ba4278d): "never … a hang"

`build_terminates` speaks about termination, not about cost: the chain-length `check_chain` the model
mirrored until ba4278d terminates on every graph and still does not return in practice on a model of
64 decisions, because it walks every *path*.  The cost model counts calls. -/

/-- `layers` layers of two decisions `2l`, `2l+1`; both require both decisions of the next layer (the
generator `gen_diamond_decisions` of `harness/src/c12.rs`). -/
def diamondDefs (layers : Nat) : Defs :=
  ⟨[], [], [],
   (List.range (2 * layers)).map (fun id =>
     ⟨id, none, [], if id / 2 + 1 < layers then [⟨some (2 * (id / 2 + 1)), none⟩, ⟨some (2 * (id / 2 + 1) + 1), none⟩] else []⟩),
   []⟩

/-- The requirement map of `diamondDefs` is the abstract diamond graph (checked here for four layers and
the identifiers around them; both are defined by the same arithmetic). -/
example : ∀ id ∈ List.range 12, reqsOf (diamondDefs 4) id = ReqDfs.diamond 4 id := by decide

/-- **The repaired `check_requirements` gives the answer of the chain-length check it replaced**, for every
definitions value: every theorem above that mentions `build` (which uses the repaired check) was proved
about the old one and carries over. -/
theorem check_chain_same_answer (d : Defs) : reqCheck d = reqCheckChains d := reqCheck_eq_chains d

/-- **The repaired `check_chain` expands every element at most once**: for every definitions value — cyclic
or not, accepted or not — the number of calls that get past the `checked` / `chain` tests is at most
`requirements.len()`, the number of different identifiers of decisions, knowledge models and decision
services.  (Every call is either such an expansion or one of the `required.len()` calls made by one, so the
number of calls is at most the number of elements plus the number of requirements.) -/
theorem check_chain_linear (d : Defs) : ReqDfs.dfsExpansions (reqsOf d) (allIds d) ≤ nodeCount d :=
  ReqDfs.dfsExpansions_le (reqsOf d) (allIds d) (reqsOf_key d) (nodeCount d) (nodeCount_bound d)

/-- … and the recursion is no deeper than the number of elements: the search never runs out of the fuel
`(allIds d).length` that `reqCheck` gives it (the `none` of the model is not an answer of the code). -/
theorem check_chain_fuel_suffices (d : Defs) :
    (ReqDfs.checkAll (reqsOf d) (allIds d).length (allIds d)).isSome = true :=
  ReqDfs.checkAll_isSome (reqsOf d) (allIds d) (reqsOf_key d)

-- FULL STATEMENT for the check as it was before ba4278d (not provable of that code, finding F62a, repaired):
--   ∃ c, ∀ d, checkVisits (reqsOf d) (allIds d) (nodeCount d) ≤ c * (number of elements + requirements of d)
/-- **The chain-length `check_chain` (before ba4278d) makes at least `2 ^ layers` calls on the diamond** of
`2 * layers` decisions with `4 * (layers - 1)` requirements: the witness of F62a (20 layers: a second;
32 layers: no answer). `ReqDfs.checkVisits` counts the calls of the old `check_chain` on a graph that
passes the check (no call is cut short). -/
theorem check_chain_exponential_counterexample (layers : Nat) (hl : 1 ≤ layers) :
    2 ^ layers ≤ ReqDfs.checkVisits (ReqDfs.diamond layers) (ReqDfs.diamondKeys layers) (2 * layers) :=
  ReqDfs.diamond_visits layers hl (2 * layers) (by omega)

/-- On the diamond of 3 layers: the old check makes 22 calls (`2 * (7 + 3 + 1)`), the repaired one expands
6 elements, both accept and the model builds; through the definitions value of the harness family. -/
example : ReqDfs.checkVisits (reqsOf (diamondDefs 3)) (allIds (diamondDefs 3)) (nodeCount (diamondDefs 3)) = 22 ∧
    ReqDfs.dfsExpansions (reqsOf (diamondDefs 3)) (allIds (diamondDefs 3)) = 6 := by decide +kernel

example : reqCheck (diamondDefs 3) = true ∧ reqCheckChains (diamondDefs 3) = true ∧ build (diamondDefs 3) 6 = .ok := by
  decide +kernel

/-! ## The cost of evaluation: "never … a hang", "never … a stack overflow" (findings F62b, F64)

`eval_terminates` speaks about termination.  The decision closure (`decision.rs:184-193`, model
`evalDecision`) calls the closure of every required decision once per requirement *edge* and shares
nothing between the paths of one evaluation; `evalDecisionCalls` counts the calls and
`evalDecisionDepth` their nesting, by the recursion of `evalDecision` (`Lemmas/ModelEvalCost.lean`).
The three witnesses are the generators of the scale families of `harness/src/c12.rs`. -/

example : diamondDefs = diamondDecisions := rfl

-- FULL STATEMENT (not provable of the current code, finding F62b-evaluation-exponential):
--   ∃ c, ∀ d id, build d (bound d) = .ok →
--     evalDecisionCalls d (nodeCount d) id ≤ c * (number of elements + requirements of d)
/-- **Evaluation walks every path of the requirement graph**: on the diamond of `2 * layers` decisions
(which is accepted: `check_chain_linear`) evaluating a top decision calls at least `2 ^ (layers - 1)`
decision closures, with any fuel that lets it finish — the witness of F62b (20 layers: 0.4 s, 40
layers: days). -/
theorem evaluation_exponential_counterexample (layers : Nat) (hl : 1 ≤ layers) (f : Nat) (hf : layers ≤ f + 1) :
    2 ^ (layers - 1) ≤ evalDecisionCalls (diamondDefs layers) f 0 := by
  show 2 ^ (layers - 1) ≤ evalDecisionCalls (diamondDecisions layers) f 0
  rw [diamondDefs_calls layers f 0 (by omega)]
  exact ReqDfs.diamond_node_visits (layers - 1) layers 0 f (by omega) (by simp; omega) (by omega)

/-- … and the same happens without any diamond when every requirement of a chain is written twice
(what a pair of "duplicate" faults makes of a chain of `n` decisions): exactly `2 ^ n - 1` calls. -/
theorem evaluation_duplicated_requirement_counterexample (n : Nat) (hn : 1 ≤ n) (f : Nat) (hf : n ≤ f + 1) :
    evalDecisionCalls (dupChainDecisions n) f 0 = 2 ^ n - 1 := by
  have := dupChainDefs_calls n (n - 1) 0 f (by omega) (by omega)
  rwa [show n - 1 + 1 = n by omega] at this

-- FULL STATEMENT (not provable of the current code, finding F64-eval-depth-chain):
--   ∃ c, ∀ d id f, build d (bound d) = .ok → evalDecisionDepth d f id ≤ c
/-- **The closures nest as deep as the longest chain of requirements**: on a chain of `n` decisions
(accepted, evaluated with `n` calls only) evaluating the first one nests `n` closures — the stack
needed grows with the model and there is no limit (F64: 8 000 decisions work on 8 MiB, 10 000
overflow). -/
theorem evaluation_depth_chain_counterexample (n : Nat) (hn : 1 ≤ n) (f : Nat) (hf : n ≤ f + 1) :
    evalDecisionDepth (chainDecisions n) f 0 = n ∧ evalDecisionCalls (chainDecisions n) f 0 = n := by
  have h1 := chainDefs_depth n (n - 1) 0 f (by omega) (by omega)
  have h2 := chainDefs_calls n (n - 1) 0 f (by omega) (by omega)
  rw [show n - 1 + 1 = n by omega] at h1 h2
  exact ⟨h1, h2⟩

/-- The three witnesses are models that load: requirement check and build accept them (here at
three layers / links; the generators of the harness make them of every size). -/
example : build (diamondDefs 3) 6 = .ok ∧ build (chainDecisions 3) 3 = .ok ∧ build (dupChainDecisions 3) 3 = .ok ∧
    evalDecisionCalls (diamondDefs 3) 3 0 = 7 ∧ evalDecisionCalls (dupChainDecisions 3) 3 0 = 7 ∧
    evalDecisionDepth (chainDecisions 3) 3 0 = 3 ∧ evalDecision (diamondDefs 3) 3 0 = .ok := by
  decide +kernel

end Dmn.MB

/-! # The XML layer: `model/src/model/parser.rs` over the abstract tree -/

namespace Dmn.Xml

open Dmn Dmn.DT

/-- A `uriparse` that accepts everything as a relative reference (non-vacuity of `UriTotal`). -/
def uriId : Str → UriOut := fun s => .ok true s

/-- `dmntk_model::parse` never panics, for EVERY tree roxmltree can deliver (any names, attributes,
nesting, text and comment nodes anywhere) — provided the `uriparse` call of `HRef::try_from` does not
(the crate is not modelled; the panic repaired by 1456524 was inside it).  Termination is by structural
recursion on the tree (`annotate`). -/
theorem parse_no_panic (uri : Str → UriOut) (hu : UriTotal uri) (root : XNode) :
    (parse uri root).isPanic = false :=
  NP_parse hu root

example : UriTotal uriId := fun _ h => by simp [uriId] at h

/-- Unconditionally: the only way `dmntk_model::parse` can panic on a tree is a panic of the `uriparse`
call on one of the strings handed to it (in particular the `unwrap` of href.rs:66 is unreachable). -/
theorem parse_panic_only_from_uriparse (uri : Str → UriOut) (root : XNode)
    (h : (parse uri root).isPanic = true) : ∃ s, uri s = .panic := by
  refine Classical.byContradiction fun hne => ?_
  have hu : UriTotal uri := fun s hs => hne ⟨s, hs⟩
  rw [parse_no_panic uri hu root] at h
  cases h

/-- A root element that is not `definitions` is an error — `XmlUnexpectedNode`. -/
theorem parse_root_not_definitions (uri : Str → UriOut) (root : XNode) (h : root.tagName ≠ N.definitions) :
    parse uri root = .err (.xmlUnexpectedNode root.tagName) := by
  unfold parse
  simp only [annotate_tagName]
  rw [if_pos (by simpa using h)]

example : (XNode.text [32]).tagName ≠ N.definitions := by decide

/-- A `definitions` element without `name`, or with `name` and without `namespace`, is an error —
`XmlExpectedMandatoryAttribute` naming the element and the attribute. -/
theorem parse_root_missing_mandatory (uri : Str → UriOut) (attrs : List XAttr) (cs : List XNode) :
    ((XNode.elem N.definitions attrs cs).hasAttr A.name = false →
      parse uri (.elem N.definitions attrs cs) = .err (.xmlExpectedMandatoryAttribute N.definitions A.name)) ∧
    ((XNode.elem N.definitions attrs cs).hasAttr A.name = true →
      (XNode.elem N.definitions attrs cs).hasAttr A.namespace_ = false →
      parse uri (.elem N.definitions attrs cs) =
        .err (.xmlExpectedMandatoryAttribute N.definitions A.namespace_)) := by
  constructor
  · intro h
    have ha := annotate_attr_none h
    unfold parse
    simp only [annotate_name, bne_self_eq_false, Bool.false_eq_true, if_false]
    unfold parseDefinitions
    simp only [requiredName, requiredAttribute, ha, annotate_name]
    rfl
  · intro h1 h2
    have ha := annotate_attr_none h2
    have hn : ∃ v, (annotate (.elem N.definitions attrs cs)).attr A.name = some v := by
      rw [annotate_attr]
      simp only [XNode.hasAttr] at h1
      cases hf : attrs.find? (fun x => !x.ns && x.name == A.name) with
      | none => rw [hf] at h1; simp at h1
      | some x => exact ⟨x.value, rfl⟩
    obtain ⟨v, hv⟩ := hn
    unfold parse
    simp only [annotate_name, bne_self_eq_false, Bool.false_eq_true, if_false]
    unfold parseDefinitions
    simp only [requiredName, optionalFeelName, requiredAttribute, hv, ha, annotate_name]
    rfl

example : (XNode.elem N.definitions [] []).hasAttr A.name = false := by decide
example : (XNode.elem N.definitions [⟨false, A.name, [109]⟩] []).hasAttr A.name = true ∧
    (XNode.elem N.definitions [⟨false, A.name, [109]⟩] []).hasAttr A.namespace_ = false := by decide

/-- Mandatory attributes, generically over the table `mandatoryAttrs` (item definitions, input data,
decisions, knowledge models, decision services, knowledge sources need `name`; imports need `name`,
`importType`, `namespace`): a `definitions` element with a child of the kind that lacks the attribute
does not yield a model. -/
theorem parse_missing_mandatory_attribute (uri : Str → UriOut) (attrs : List XAttr) (cs : List XNode)
    (e a : Str) (hp : (e, a) ∈ mandatoryAttrs) (c : XNode) (hc : c ∈ cs) (hn : c.tagName = e)
    (hl : c.hasAttr a = false) : (parse uri (.elem N.definitions attrs cs)).isOk = false := by
  cases h : parse uri (.elem N.definitions attrs cs) with
  | err e => rfl
  | panic s => rfl
  | ok d =>
    exfalso
    have hmem : annotate c ∈ (annotate (.elem N.definitions attrs cs)).children :=
      mem_annotate_children (n := .elem N.definitions attrs cs) hc
    obtain ⟨v, hv⟩ := parse_ok_attr h hmem hp (by rw [annotate_tagName]; exact hn)
    rw [annotate_attr_none hl] at hv
    cases hv

example : (N.decision, A.name) ∈ mandatoryAttrs ∧ (XNode.elem N.decision [] []).tagName = N.decision ∧
    (XNode.elem N.decision [] []).hasAttr A.name = false := by decide

/-- Mandatory child elements, generically over the table `mandatoryChildren` (input data, decisions,
knowledge models and decision services need a `variable`): a `definitions` element with a child of
the kind that has no such child element does not yield a model. -/
theorem parse_missing_mandatory_child (uri : Str → UriOut) (attrs : List XAttr) (cs : List XNode)
    (e k : Str) (hp : (e, k) ∈ mandatoryChildren) (c : XNode) (hc : c ∈ cs) (hn : c.tagName = e)
    (hl : c.hasChild k = false) : (parse uri (.elem N.definitions attrs cs)).isOk = false := by
  cases h : parse uri (.elem N.definitions attrs cs) with
  | err e => rfl
  | panic s => rfl
  | ok d =>
    exfalso
    have hmem : annotate c ∈ (annotate (.elem N.definitions attrs cs)).children :=
      mem_annotate_children (n := .elem N.definitions attrs cs) hc
    obtain ⟨v, hv, _⟩ := parse_ok_variable h hmem hp (by rw [annotate_tagName]; exact hn)
    rw [findIn_none hl] at hv
    cases hv

example : (N.inputData, N.variable_) ∈ mandatoryChildren ∧
    (XNode.elem N.inputData [⟨false, A.name, [105]⟩] []).hasChild N.variable_ = false := by decide

/-- … and the `variable` that is read (the first one) needs a `name`: if no `variable` child of the
element has one, there is no model. -/
theorem parse_variable_without_name (uri : Str → UriOut) (attrs : List XAttr) (cs : List XNode)
    (e k : Str) (hp : (e, k) ∈ mandatoryChildren) (c : XNode) (hc : c ∈ cs) (hn : c.tagName = e)
    (hl : ∀ v ∈ c.childNodes, v.tagName = k → v.hasAttr A.name = false) :
    (parse uri (.elem N.definitions attrs cs)).isOk = false := by
  cases h : parse uri (.elem N.definitions attrs cs) with
  | err e => rfl
  | panic s => rfl
  | ok d =>
    exfalso
    have hmem : annotate c ∈ (annotate (.elem N.definitions attrs cs)).children :=
      mem_annotate_children (n := .elem N.definitions attrs cs) hc
    obtain ⟨v, hv, w, hw⟩ := parse_ok_variable h hmem hp (by rw [annotate_tagName]; exact hn)
    have hvm := List.mem_of_find?_eq_some hv
    have hvn := List.find?_some hv
    rw [annotate_childNodes] at hvm
    obtain ⟨x, hx, rfl⟩ := List.mem_map.mp hvm
    rw [annotate_tagName] at hvn
    rw [annotate_attr_none (hl x hx (by simpa using hvn))] at hw
    cases hw

/-- Every `outputDecision`, `encapsulatedDecision`, `inputDecision` and `inputData` child of a decision
service needs an `href`. -/
theorem parse_service_reference_without_href (uri : Str → UriOut) (attrs : List XAttr) (cs : List XNode)
    (c : XNode) (hc : c ∈ cs) (hn : c.tagName = N.decisionService) (k : Str) (hk : k ∈ serviceRefs)
    (r : XNode) (hr : r ∈ c.childNodes) (hrn : r.tagName = k) (hl : r.hasAttr A.href = false) :
    (parse uri (.elem N.definitions attrs cs)).isOk = false := by
  cases h : parse uri (.elem N.definitions attrs cs) with
  | err e => rfl
  | panic s => rfl
  | ok d =>
    exfalso
    have hmem : annotate c ∈ (annotate (.elem N.definitions attrs cs)).children :=
      mem_annotate_children (n := .elem N.definitions attrs cs) hc
    obtain ⟨w, hw⟩ := parse_ok_service_ref h hmem (by rw [annotate_tagName]; exact hn) hk
      (mem_annotate_children hr) (by rw [annotate_tagName]; exact hrn)
    rw [annotate_attr_none hl] at hw
    cases hw

/-- The numbers of clauses, rules and entries of a parsed decision table are those of the `input`,
`output`, `rule`, `inputEntry`, `outputEntry` elements of the `decisionTable` element: the parser
neither pads nor truncates. -/
theorem parsed_table_shape (c : ANode) (t : DTable) (h : parseDecisionTableNode c = .ok t) :
    t.inputs.length = (filterIn c.children N.input).length ∧
    t.outputs.length = (filterIn c.children N.output).length ∧
    t.rules.map (fun r => (r.inputEntries.length, r.outputEntries.length)) =
      (filterIn c.children N.rule).map
        (fun r => ((filterIn r.children N.inputEntry).length, (filterIn r.children N.outputEntry).length)) :=
  parseDecisionTableNode_counts h

/-- The builder never panics on a parsed table, whatever parses as FEEL. -/
theorem parsed_table_build_no_panic (o : FeelOracle) (t : DTable) :
    (MB.buildTable (toTableS o t)).isPanic = false :=
  MB.dt_build_no_panic _

/-- "Rules whose number of entries disagrees with the table's clauses, tables without outputs": the
builder reports an error for such a parsed table, whatever parses as FEEL. -/
theorem parsed_table_size_mismatch_rejected (o : FeelOracle) (t : DTable)
    (h : t.outputs = [] ∨ ∃ r ∈ t.rules,
      r.inputEntries.length ≠ t.inputs.length ∨ r.outputEntries.length ≠ t.outputs.length) :
    (MB.buildTable (toTableS o t)).isError = true := by
  cases hb : MB.buildTable (toTableS o t) with
  | error m => rfl
  | panic s =>
    have := MB.dt_build_no_panic (toTableS o t)
    rw [hb] at this
    cases this
  | ok ps =>
    exfalso
    obtain ⟨hw, _⟩ := MB.dt_build_shape _ _ hb
    simp only [MB.TableS.wellShaped, toTableS, Bool.and_eq_true, List.all_eq_true, decide_eq_true_eq,
      List.length_map, Bool.not_eq_true', List.isEmpty_eq_false_iff, ne_eq, List.map_eq_nil_iff] at hw
    rcases h with h | ⟨r, hr, h⟩
    · exact hw.1 h
    · have := hw.2 _ (List.mem_map.mpr ⟨r, hr, rfl⟩)
      simp only [List.length_map] at this
      omega

example : (⟨[⟨[105], none⟩, ⟨[105], none⟩], [⟨none, none, none, none⟩], [⟨[[45]], [[49]]⟩], .unique, .ruleAsRow, none⟩ : DTable).outputs ≠ [] ∧
    ∃ r ∈ (⟨[⟨[105], none⟩, ⟨[105], none⟩], [⟨none, none, none, none⟩], [⟨[[45]], [[49]]⟩], .unique, .ruleAsRow, none⟩ : DTable).rules,
      r.inputEntries.length ≠ 2 := by
  refine ⟨by decide, ⟨[[45]], [[49]]⟩, by simp, by decide⟩

/-- The same at the level of the XML element: a `decisionTable` element without `output` children, or
with a `rule` whose number of `inputEntry` / `outputEntry` children differs from the number of `input`
/ `output` children of the table, ends in an error — of the parser or of the builder. -/
theorem xml_table_size_mismatch_rejected (o : FeelOracle) (c : ANode)
    (h : filterIn c.children N.output = [] ∨ ∃ r ∈ filterIn c.children N.rule,
      (filterIn r.children N.inputEntry).length ≠ (filterIn c.children N.input).length ∨
      (filterIn r.children N.outputEntry).length ≠ (filterIn c.children N.output).length) :
    match parseDecisionTableNode c with
    | .error _ => True
    | .ok t => (MB.buildTable (toTableS o t)).isError = true := by
  cases hp : parseDecisionTableNode c with
  | error e => trivial
  | ok t =>
    simp only
    obtain ⟨h1, h2, h3⟩ := parseDecisionTableNode_counts hp
    apply parsed_table_size_mismatch_rejected
    rcases h with h | ⟨r, hr, h⟩
    · left
      rw [h] at h2
      exact List.eq_nil_of_length_eq_zero (by simpa using h2)
    · right
      have hm : ((filterIn r.children N.inputEntry).length, (filterIn r.children N.outputEntry).length) ∈
          t.rules.map (fun r => (r.inputEntries.length, r.outputEntries.length)) := by
        rw [h3]; exact List.mem_map.mpr ⟨r, hr, rfl⟩
      obtain ⟨x, hx, hxe⟩ := List.mem_map.mp hm
      simp only [Prod.mk.injEq] at hxe
      exact ⟨x, hx, by omega⟩

/-- Building the tables of a parsed definitions value never panics. -/
theorem buildTables_no_panic (o : FeelOracle) (ts : List DTable) : (buildTables o ts).isPanic = false := by
  induction ts with
  | nil => rfl
  | cons t ts ih =>
    simp only [buildTables]
    have h := MB.dt_build_no_panic (toTableS o t)
    cases hb : MB.buildTable (toTableS o t) with
    | panic s => rw [hb] at h; cases h
    | ok ps => exact ih
    | error m =>
      simp only
      cases hr : buildTables o ts with
      | panic s => rw [hr] at ih; cases ih
      | ok u => rfl
      | error m' => rfl

/-- **Text-level tree → usable evaluator model or error, never a panic, never non-termination**, in one
statement: for every tree roxmltree can deliver, every answer of the FEEL parser on the cell texts and
every `uriparse` that does not panic, loading ends in a parse error, a build error or a model.
(`load` = `parse`, then every decision table through the builder model, then the requirement graph
through the traversal model with the fuel of `build_terminates`.) -/
theorem parse_then_build_no_panic (uri : Str → UriOut) (hu : UriTotal uri) (o : FeelOracle) (root : XNode) :
    (load uri o root).isPanic = false ∧ (load uri o root).isDiverge = false := by
  unfold load
  have hp := parse_no_panic uri hu root
  cases h : parse uri root with
  | panic s => rw [h] at hp; cases hp
  | err e => exact ⟨rfl, rfl⟩
  | ok d =>
    simp only
    have hb := buildTables_no_panic o d.tables
    cases ht : buildTables o d.tables with
    | panic s => rw [ht] at hb; cases hb
    | error m => exact ⟨rfl, rfl⟩
    | ok u =>
      simp only
      cases hg : toDefs d with
      | none => exact ⟨rfl, rfl⟩
      | some g =>
        simp only
        have := MB.build_terminates g (max (MB.nodeCount g) g.items.length) (by simp [MB.bound])
        cases hbd : MB.build g (max (MB.nodeCount g) g.items.length) with
        | ok => exact ⟨rfl, rfl⟩
        | error => exact ⟨rfl, rfl⟩
        | diverge => exact absurd hbd this

/-- A minimal model: `definitions` with one decision whose logic is a literal expression. -/
def minimalModel : XNode :=
  .elem N.definitions [⟨false, A.name, [109]⟩, ⟨false, A.namespace_, [110]⟩]
    [.text [10], .elem N.decision [⟨false, A.name, [68]⟩, ⟨false, A.id, [95, 100]⟩]
      [.elem N.variable_ [⟨false, A.name, [68]⟩] [],
       .elem N.literalExpression [] [.elem N.text [] [.text [49]]]]]

/-- The model loads (so the theorems above are not about a parser that rejects everything). -/
theorem minimal_model_loads :
    (match load uriId ⟨fun _ => true, fun _ => true, fun _ => true⟩ minimalModel with
     | .model d => d.drgElements.length == 1 && d.tables.isEmpty
     | _ => false) = true := by
  decide +kernel

/-! ## Degenerate documents: a lone root element with nothing inside

What roxmltree does with a text that has no root element (the empty text, white space, a byte order mark, only a
prolog or a comment) is outside this model (it answers an error: family `degenerate` of the harness). From the root
element on: a lone `definitions` element that has its two mandatory attributes is a model without elements, whatever
the attribute values are — any code points, in particular characters of several bytes — and whatever layout (text,
comments, processing instructions, attributes in a namespace, attribute order) surrounds them; it is read, builds
and is evaluable as a model that has no invocable. A lone root of another name, or without the attributes, is an
error (`parse_root_not_definitions`, `parse_root_missing_mandatory` above). -/

/-- `<definitions name=n namespace=m/>` is read as the model with these two texts and nothing else. -/
theorem lone_root_parses (uri : Str → UriOut) (n m : Str) :
    parse uri (.elem N.definitions [⟨false, A.name, n⟩, ⟨false, A.namespace_, m⟩] []) =
      .ok ⟨n, none, none, none, m, none, none, none, none, [], [], [], none⟩ := by
  rfl

/-- … and loading it (parse, decision tables, requirement graph) ends in a model: for every name and namespace,
every FEEL oracle and every behaviour of `uriparse` (which is never asked). -/
theorem lone_root_loads (uri : Str → UriOut) (o : FeelOracle) (n m : Str) :
    load uri o (.elem N.definitions [⟨false, A.name, n⟩, ⟨false, A.namespace_, m⟩] []) =
      .model ⟨n, none, none, none, m, none, none, none, none, [], [], [], none⟩ := by
  rfl

/-- The same with the attributes in the other order, an attribute `name` in a foreign namespace (not the model's
name), an identifier, and text, a comment and a processing instruction inside the element. -/
theorem lone_root_any_layout (uri : Str → UriOut) (o : FeelOracle) (n m i c t : Str) :
    load uri o (.elem N.definitions [⟨false, A.namespace_, m⟩, ⟨true, A.name, c⟩, ⟨false, A.id, i⟩, ⟨false, A.name, n⟩]
        [.text t, .comment c, .pi]) =
      .model ⟨n, some i, none, none, m, none, none, none, none, [], [], [], none⟩ := by
  rfl

end Dmn.Xml

namespace Dmn.MB
open Dmn

/-! ## What acceptance by `ModelEvaluator::new` guarantees

`build d fuel = .ok` is acceptance: `check_requirements` passed (`model_evaluator.rs:54-106`), every input data has a
type reference (`input_data_context_evaluator`), `check_references` passed (`item_definition.rs:74-97`), and every
knowledge model, decision and decision service was built.  `Wf` states, independently of those checks, what an
accepted model is.  What is **not** checked (and so not part of `Wf`): that a required decision / knowledge model /
input exists — `requirements.get(id)` and the evaluators' `HashMap::get` answer `None` for an identifier no element
has, the requirement is skipped and evaluates to null (`dangling_requirement_accepted`); that identifiers and names
are unique — entries of elements sharing an identifier are merged in the requirement map (`reqList`), later evaluators
replace earlier ones in the maps. -/

/-- Well-formedness of a definitions value, stated without the checking code. -/
structure Wf (d : Defs) : Prop where
  /-- no non-empty set of decisions, knowledge models and decision services each of which requires a member of the set -/
  reqAcyclic : ∀ C : Nat → Prop, ReqCycle d C → ∀ id, ¬ C id
  /-- every chain of requirements ends: below every identifier the requirement relation is well-founded to a depth -/
  reqEnds : ∀ id, ReqDfs.Ends (reqsOf d) id
  /-- no non-empty set of item definitions each of which refers to a member of the set -/
  itemsAcyclic : ∀ C : Nat → Prop, ItemCycle d.items C → ∀ n, ¬ C n
  /-- every input data has a type reference -/
  inputsTyped : ∀ i ∈ d.inputs, i.typeRef.isSome = true

theorem forM_ok_all {α : Type} (f : α → Res) : ∀ xs : List α, forM f xs = .ok → ∀ x ∈ xs, f x = .ok := by
  intro xs
  induction xs with
  | nil => intro _ x hx; cases hx
  | cons y ys ih =>
    intro h x hx
    simp only [forM] at h
    cases hy : f y with
    | ok =>
      rw [hy] at h
      simp only [seq] at h
      rcases List.mem_cons.mp hx with rfl | hx
      · exact hy
      · exact ih h x hx
    | error => rw [hy] at h; simp [seq] at h
    | diverge => rw [hy] at h; simp [seq] at h

/-- **A model that `ModelEvaluator::new` accepts is well-formed**, for every definitions value and any fuel: its
requirement graph has no cycle and every chain of requirements ends, its item definitions have no reference cycle,
its input data are typed. -/
theorem accepted_model_is_wellformed (d : Defs) (fuel : Nat) (h : build d fuel = .ok) : Wf d := by
  have hr : reqCheck d = true := by
    unfold build at h
    by_cases hr : reqCheck d = true
    · exact hr
    · simp [hr] at h
  refine ⟨?_, ?_, ?_, ?_⟩
  · intro C hC id hid
    have := cyclic_requirements_rejected d C hC id hid fuel
    rw [this] at h; cases h
  · intro id
    exact ⟨nodeCount d, by rw [← reqChain_eq]; exact reqChain_of_check d hr id⟩
  · intro C hC n hn
    have := cyclic_items_rejected d C hC n hn fuel
    rw [this] at h; cases h
  · unfold build at h
    simp only [hr, Bool.not_true, Bool.false_eq_true, if_false] at h
    cases hq : forM (fun i : Input => if i.typeRef.isSome then Res.ok else Res.error) d.inputs with
    | ok =>
      intro i hi
      have := forM_ok_all _ _ hq i hi
      by_cases ht : i.typeRef.isSome = true
      · exact ht
      · simp [ht] at this
    | error => rw [hq] at h; simp [seq] at h
    | diverge => rw [hq] at h; simp [seq] at h

/-- non-vacuity: the model with two levels of knowledge models and a referenced item definition is accepted -/
example : build okDefs 4 = .ok := by decide

/-- Conversely the two cycle checks reject nothing but cycles: when every chain of requirements ends, the requirement
check passes (so acceptance then depends only on the typed inputs, the item definitions and the elements' own
builders). -/
theorem wellformed_requirements_accepted (d : Defs) (h : ∀ id, ReqDfs.Ends (reqsOf d) id) : reqCheck d = true := by
  rw [reqCheck_eq_chains]
  simp only [reqCheckChains, List.all_eq_true]
  intro id _
  rw [reqChain_eq]
  exact ReqDfs.chainOk_of_ends (reqsOf d) (nodeCount d)
    (fun l hnd hk => nodeCount_bound d l hnd (fun x hx => reqsOf_key d x (hk x hx))) id (h id)

/-- Dangling references, as the code does it.  A knowledge requirement of a decision that names no knowledge model
and no decision service is an error when the model is built (`bring_knowledge_requirements_into_context`:
`business_knowledge_model.rs:302-318`) — an accepted model has none (`accepted_knowledge_resolves`).  A required
decision or a required input that names no element is **accepted**: the identifier has no entry in the requirement map
and no evaluator, it is skipped when the model is built and when the decision is evaluated (the required value is
null); resolvability of those references is therefore not part of `Wf`. -/
theorem dangling_references_as_the_code_does :
    let d1 : Defs := ⟨[], [], [], [⟨0, none, [], [⟨some 99, none⟩, ⟨none, some 97⟩]⟩], []⟩
    let d2 : Defs := ⟨[], [], [], [⟨0, none, [98], []⟩], []⟩
    (build d1 (bound d1) = .ok ∧ evalDecision d1 (bound d1) 0 = .ok ∧ reqsOf d1 99 = none ∧ Wf d1) ∧
    build d2 (bound d2) = .error := by
  intro d1 d2
  have hb : build d1 (bound d1) = .ok := by decide
  exact ⟨⟨hb, by decide, by decide, accepted_model_is_wellformed d1 _ hb⟩, by decide⟩

theorem allM_ok_all (f : Nat → Res) : ∀ xs : List Nat, allM f xs = .ok → ∀ x ∈ xs, f x = .ok := by
  intro xs
  induction xs with
  | nil => intro _ x hx; cases hx
  | cons y ys ih =>
    intro h x hx
    simp only [allM] at h
    cases hy : f y with
    | ok =>
      rw [hy] at h
      rcases List.mem_cons.mp hx with rfl | hx
      · exact hy
      · exact ih h x hx
    | error => rw [hy] at h; cases h
    | diverge => rw [hy] at h; cases h

/-- In an accepted model every knowledge requirement of every decision resolves: it names a knowledge model or a
decision service. -/
theorem accepted_knowledge_resolves (d : Defs) (fuel : Nat) (h : build d fuel = .ok) :
    ∀ x ∈ d.decisions, ∀ k ∈ x.knowledge, (findBkm d k).isSome = true ∨ (findService d k).isSome = true := by
  intro x hx k hk
  unfold build at h
  by_cases hr : reqCheck d = true
  · simp only [hr, Bool.not_true, Bool.false_eq_true, if_false] at h
    cases h1 : forM (fun i : Input => if i.typeRef.isSome then Res.ok else Res.error) d.inputs with
    | error => rw [h1] at h; simp [seq] at h
    | diverge => rw [h1] at h; simp [seq] at h
    | ok =>
      rw [h1] at h
      simp only [seq] at h
      by_cases hi : itemCheck d.items = true
      · simp only [hi, Bool.not_true, Bool.false_eq_true, if_false] at h
        cases h2 : forM (buildBkm d fuel) d.bkms with
        | error => rw [h2] at h; simp at h
        | diverge => rw [h2] at h; simp at h
        | ok =>
          rw [h2] at h
          simp only at h
          cases h3 : forM (buildDecision d fuel) d.decisions with
          | error => rw [h3] at h; simp at h
          | diverge => rw [h3] at h; simp at h
          | ok =>
            have hbx := forM_ok_all _ _ h3 x hx
            unfold buildDecision at hbx
            cases h4 : walkRef d.items fuel x.varType with
            | error => rw [h4] at hbx; simp [seq] at hbx
            | diverge => rw [h4] at hbx; simp [seq] at hbx
            | ok =>
              rw [h4] at hbx
              simp only [seq] at hbx
              cases h5 : bringKR d fuel x.knowledge with
              | error => rw [h5] at hbx; simp at hbx
              | diverge => rw [h5] at hbx; simp at hbx
              | ok =>
                have hk1 := allM_ok_all _ _ h5 k hk
                unfold bringOne at hk1
                cases hb : findBkm d k with
                | some b => exact Or.inl rfl
                | none =>
                  rw [hb] at hk1
                  by_cases hs : (findService d k).isSome = true
                  · exact Or.inr hs
                  · simp [hs] at hk1
      · simp [hi] at h
  · simp [hr] at h

/-! ### The hypothesis of C04's theorems as a consequence of acceptance

C04's theorems about evaluation over the requirement graph (`built_graph_ranked`, `built_graph_fuel_suffices`,
`graph_bottom_never_reached`) assume `g.checkRequirements = true` for the graph `g : Drg` of C04's model (string
identifiers).  Both models instantiate the same generic check (`Dmn.ReqDfs`) with their requirement maps; when the
numbered definitions `d` describe the graph `g` — a numbering `num` of the identifiers under which the requirement
map of `d` is the one of `g` — acceptance of `d` gives C04's hypothesis for `g`. -/

theorem chainOk_transfer {g : Drg} {d : Defs} (num : String → Nat)
    (hmap : ∀ id, reqsOf d (num id) = (g.requirementsOf id).map (List.map num)) :
    ∀ (b : Nat) (id : String), ReqDfs.chainOk (reqsOf d) b (num id) = ReqDfs.chainOk g.requirementsOf b id := by
  intro b
  induction b with
  | zero =>
    intro id
    unfold ReqDfs.chainOk
    rw [hmap]
    cases g.requirementsOf id <;> rfl
  | succ b ih =>
    intro id
    rw [ReqDfs.chainOk, ReqDfs.chainOk, hmap]
    cases g.requirementsOf id with
    | none => rfl
    | some rs =>
      simp only [Option.map_some, List.all_map]
      congr 1
      funext r
      exact ih r

/-- **C04's hypothesis holds of every accepted model**: if the definitions `d` (numbered identifiers) describe the
requirement map of the graph `g` and `ModelEvaluator::new` accepts `d`, then `g.checkRequirements = true` — the
hypothesis of `built_graph_ranked` and `built_graph_fuel_suffices` (property C04), which therefore apply to every model
the builder accepts. -/
theorem accepted_model_satisfies_c04_hypothesis (g : Drg) (d : Defs) (num : String → Nat)
    (hmap : ∀ id, reqsOf d (num id) = (g.requirementsOf id).map (List.map num))
    (fuel : Nat) (h : build d fuel = .ok) : g.checkRequirements = true := by
  have hw := accepted_model_is_wellformed d fuel h
  simp only [Drg.checkRequirements, List.all_eq_true]
  intro id _
  rw [Drg.checkChain_eq]
  apply ReqDfs.chainOk_of_ends g.requirementsOf g.requirementCount
  · intro l hnd hk
    exact Drg.length_le_distinctCount g.requirementIds l hnd (fun x hx => Drg.requirementsOf_key g x (hk x hx))
  · obtain ⟨b, hb⟩ := hw.reqEnds (num id)
    exact ⟨b, by rw [← chainOk_transfer num hmap]; exact hb⟩

end Dmn.MB
