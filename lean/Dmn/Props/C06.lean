import Dmn.Lemmas.RefParserEscape
import Dmn.Lemmas.RefParserRoundTrip
import Dmn.Lemmas.RefParserSurface
import Dmn.Lemmas.RefParserNeeded
import Dmn.Lemmas.RefParserNeededExt
import Dmn.Lemmas.RefParserDrops
import Dmn.Lemmas.RefParserNeededDeepE
import Dmn.Lemmas.RefParserLayout
import Dmn.Lemmas.StringLit
import Dmn.Lemmas.RefParserWide
import Dmn.Lemmas.LalrSpell

/-!
# C06 — the parser builds the tree dictated by precedence and associativity

Obligations of this file (every `theorem` below is counted by `check`):

* table facts about `Dmn/Gen/Prec.lean` (regenerated from `feel.y` on every run), by `decide`:
  `table_is_reference`, `table_consistent`, `same_level_same_assoc`, `operators_declared`,
  `level_order`, `associativities`, `right_edge_monotone`, `open_constructs_extend_right`;
* the round trip for the expression language at any depth (operators, `if`, `for`,
  `some`/`every`, function definitions, lists, contexts, intervals, unary tests, `in (…)`,
  named parameters): `parse_print_full_partial`, `parse_print_minimal_partial`,
  `parse_print_in_context` (generic in the table);
* `paren_needed`: a rendering with one pair of the minimal printer left out — at ANY depth
  (`drops .minimal t`, what the correspondence enumerates) — does not parse to the tree; from
  `print_minimal_shortest`: no token list shorter than the minimal rendering parses to the tree;
  `paren_needed_partial` (the pair around an operand of the root, via `printWithout`) and
  `paren_needed_root_in_drops` (that rendering is a member of `drops`) are the earlier special case;
* the same round trip through the lexer's `between` flag and the `( a . b . c` quirk of the
  tables: `parse_print_surface_partial` (+ two counterexamples, findings F19 and F22);
* layout: `layout_gap_skipped`, `layout_irrelevant` (any number of comments in a gap),
  `layout_keyword_gap_skipped`, `layout_keyword_gap_irrelevant` (the gap between `function` / `list` /
  `range` / `context` and the bracket that makes it a keyword);
* `string_escape_roundtrip` (all three spellings, every scalar value);
* `string_literal_roundtrip`: the lexer model reads EVERY spelling of EVERY string — any sequence of raw
  characters, simple escapes, `\uXXXX` / `\UXXXXXX` in either digit case, surrogate pairs, and a backslash before a
  character that begins no escape (an ordinary character of the string) — as the string the grammar says it
  denotes, wherever the literal stands; `string_quote_roundtrip`: `lex (quote s) = s` for every `s`;
* `wide_sequences_flat`: a list literal, an argument list and an `in (…)` list of ANY length, written as the flat
  comma-separated token list, parse to the flat tree (corollary of the round trip, with the token list written out).
-/

namespace Dmn.C06
open Dmn.Gen.Prec Dmn.Ref Dmn.Escape Dmn.GapLayout

/-! ## Table facts -/

/-- The committed reference copy of the declaration block (feel.y:72-87 at the pin). An edit of
the block that changes any level or associativity breaks this obligation. -/
def referenceTable : List (Nat × Assoc × List Sym) := [
  (1, .precedence, [.RETURN, .EXTERNAL, .SATISFIES]),
  (2, .precedence, [.ELSE]),
  (3, .left, [.OR]),
  (4, .left, [.AND]),
  (5, .nonassoc, [.EQ, .NQ, .LT, .LE, .GT, .GE]),
  (6, .precedence, [.BETWEEN]),
  (7, .precedence, [.BETWEEN_AND]),
  (8, .right, [.IN]),
  (9, .left, [.MINUS, .PLUS]),
  (10, .left, [.MUL, .DIV]),
  (11, .left, [.EXP]),
  (12, .precedence, [.PREC_NEG]),
  (13, .precedence, [.INSTANCE]),
  (14, .precedence, [.NAME, .NAME_DATE_TIME, .BUILT_IN_TYPE_NAME]),
  (15, .precedence, [.LEFT_PAREN, .LEFT_BRACKET]),
  (16, .precedence, [.DOT])
]

theorem table_is_reference : declared = referenceTable := by decide

/-- `level`/`assoc` are the block read line by line. -/
theorem table_consistent :
    declared.all (fun row => row.2.2.all (fun s => level s == row.1 && assoc s == row.2.1)) = true := by
  decide

/-- Operators of one level share one associativity. -/
theorem same_level_same_assoc :
    Sym.all.all (fun s1 => Sym.all.all (fun s2 => level s1 != level s2 || assoc s1 == assoc s2)) = true := by
  decide

def allBinOps : List BinOp := [.or, .and, .eq, .nq, .lt, .le, .gt, .ge, .in_, .add, .sub, .mul, .div, .exp]

/-- Every operator of the model is declared, and its rule has the precedence of its own
token (so "level of the rule" and "level of the token" coincide). -/
theorem operators_declared :
    allBinOps.all (fun o => decide (0 < lvl o) && decide (symLevel o.rulePrec = lvl o)) = true := by
  decide

/-- The order of the levels the reference parser relies on: or < and < comparison < between <
(between's) and < in < additive < multiplicative < exponentiation < unary minus < instance of <
invocation/filter < path. -/
theorem level_order :
    lvl .or < lvl .and ∧ lvl .and < lvl .eq ∧ lvl .eq < betweenLvl ∧ betweenLvl < hiMin ∧
    hiMin ≤ lvl .in_ ∧ lvl .in_ < lvl .add ∧ lvl .add < lvl .mul ∧ lvl .mul < lvl .exp ∧
    lvl .exp < negMin ∧ negMin < instLvl ∧ instLvl < parenLvl ∧ parenLvl = brackLvl ∧
    brackLvl < dotLvl := by
  decide

/-- Associativities: comparisons do not associate, `in` associates to the right, every other
binary operator (`**` included, feel.y:82) to the left. -/
theorem associativities :
    allBinOps.all (fun o =>
      match o with
      | .eq | .nq | .lt | .le | .gt | .ge => assoc o.sym == .nonassoc
      | .in_ => assoc o.sym == .right
      | _ => assoc o.sym == .left) = true := by
  decide

/-- Levels do not decrease down a bare right edge: whatever may stand unparenthesised as a
right operand opens operand loops that are at least as strict as the one it stands in. -/
theorem right_edge_monotone :
    allBinOps.all (fun o => decide (lvl o ≤ rhsMin o) && decide (rhsMin o ≤ negMin)) = true ∧
    betweenLvl ≤ hiMin := by
  decide

/-- `if … else`, `for … return`, `some`/`every … satisfies` and function bodies extend as far
right as they can: the minimum under which their last operand is read (one above the line of
`ELSE` / `RETURN` / `SATISFIES` / `EXTERNAL`, feel.y:72-73) is not above any operator, `between`
included; and `else` binds at least as tightly as the three others. -/
theorem open_constructs_extend_right :
    allBinOps.all (fun o => decide (iteMin ≤ lvl o) && decide (forMin ≤ lvl o) && decide (someMin ≤ lvl o) &&
      decide (everyMin ≤ lvl o) && decide (fnMin ≤ lvl o)) = true ∧
    iteMin ≤ betweenLvl ∧ forMin ≤ iteMin ∧ someMin ≤ iteMin ∧ everyMin ≤ iteMin ∧ fnMin ≤ iteMin ∧
    0 < forMin ∧ 0 < someMin ∧ 0 < everyMin ∧ 0 < fnMin := by
  decide

/-! ## The round trip

`Tree` is the expression language of `feel.y` as `parser.rs` builds it: all binary operators
(or, and, the six comparisons, in, + - * / **), unary minus, `between … and …`, `instance of`
a qualified name, path, filter, invocation with positional or named arguments, `e in (a, b, …)`,
`if`, `for` (list and `a..b` domains, any number of iteration contexts), `some`/`every`,
function definitions (untyped parameters), list and context literals (name and string keys),
interval literals in all nine spellings, the unary tests `< <= > >=`, leaves; parentheses
leave no node.  Trees are unbounded in depth and width.

FULL STATEMENT (not proved; what remains outside `Tree` is covered by the correspondence only,
family `extended`): the same two equations with typed formal parameters, `external` function
bodies, `instance of` a built-in or generic type (`list<…>`, `range<…>`, `context<…>`,
`function<…> -> …`), date/time literal invocations, and the start symbols of unary tests
(`-`, `not(…)`, comma lists).  Hence the suffix `_partial`. -/

/-- Parsing the fully parenthesised rendering of a tree gives back the tree. -/
theorem parse_print_full_partial (t : Tree) : parse (print .full t) = some t := by
  have h := parse_pr .full t 0 [] (startsOk_zero .full t) trivial
  simp only [List.append_nil] at h
  simp [parse, print, h, parseLoop_nil]

/-- Parsing the minimally parenthesised rendering of a tree gives back the tree. -/
theorem parse_print_minimal_partial (t : Tree) : parse (print .minimal t) = some t := by
  have h := parse_pr .minimal t 0 [] (startsOk_zero .minimal t) trivial
  simp only [List.append_nil] at h
  simp [parse, print, h, parseLoop_nil]

/-- The compositional form: a rendering inside a longer token list is read back up to the
first token that no operand loop of the tree accepts. -/
theorem parse_print_in_context (m : Mode) (t : Tree) (min : Nat) (rest : List Tok)
    (h1 : startsOk m min t = true) (h2 : notAbsorbed m t rest) :
    parseExpr min (print m t ++ rest) = parseLoop min (fbOf t) t rest :=
  parse_pr m t min rest h1 h2

example : startsOk .minimal 10 (.bin .mul (.atom (.name 0)) (.atom (.name 1))) = true ∧
    notAbsorbed .minimal (.bin .mul (.atom (.name 0)) (.atom (.name 1))) [.plus, .name 2] := by
  constructor
  · decide
  · show absorbs .minimal _ Tok.plus = false
    decide

-- `a * if b then c else d + 1`: the `else` branch takes the `+ 1`
example : startsOk .minimal (rhsMin .mul) (.ite (.atom (.name 1)) (.atom (.name 2)) (.atom (.name 3))) = true ∧
    absorbs .minimal (.ite (.atom (.name 1)) (.atom (.name 2)) (.atom (.name 3))) Tok.plus = true := by
  decide

/-! ## A needed pair of parentheses

`printWithout t i` is the minimal rendering of `t` with the `i`-th operand of the root
written without parentheses (`operand`: the first operand of an infix/postfix construct, both
operands of a binary operator, the last operand of `between`, `if`, `for`, `some`/`every` and
of a function definition; operands between delimiters never need a pair).  When
`needsParens` demands a pair there, the token list no longer parses to `t` (it parses to
another tree, or not at all).  The operands and the other parts of `t` are arbitrary trees;
the pair that is dropped is one around a direct operand of the root.

The general statement — a needed pair at ANY depth — is `paren_needed` below; this theorem
is its root case, stated through `printWithout` (`paren_needed_root_in_drops` shows that the
rendering is a member of `drops .minimal t`). -/

theorem paren_needed_partial (t : Tree) (i : Nat) (pos : Pos) (c : Tree)
    (h : operand t i = some (pos, c)) (hn : needsParens pos c = true) :
    parse (printWithout t i) ≠ some t := by
  unfold needsParens at hn
  cases t with
  | atom a => simp [operand] at h
  | bin o l r =>
    match i, h with
    | 0, h =>
      simp only [operand, Option.some.injEq, Prod.mk.injEq] at h
      obtain ⟨rfl, rfl⟩ := h
      simpa [printWithout, par_false] using binL_needed .minimal o l r _ hn
    | 1, h =>
      simp only [operand, Option.some.injEq, Prod.mk.injEq] at h
      obtain ⟨rfl, rfl⟩ := h
      simpa [printWithout, par_false] using binR_needed .minimal o l r hn
    | n + 2, h => simp [operand] at h
  | neg e =>
    match i, h with
    | 0, h =>
      simp only [operand, Option.some.injEq, Prod.mk.injEq] at h
      obtain ⟨rfl, rfl⟩ := h
      simpa [printWithout, par_false] using neg_needed .minimal e hn
    | n + 1, h => simp [operand] at h
  | between e lo hi =>
    match i, h with
    | 0, h =>
      simp only [operand, Option.some.injEq, Prod.mk.injEq] at h
      obtain ⟨rfl, rfl⟩ := h
      rw [needs_betweenE] at hn
      simpa [printWithout, par_false] using
        first_absorbed .minimal (.between e lo hi) e .between _ rfl hn (by simp) ⟨_, rfl⟩
    | 1, h =>
      simp only [operand, Option.some.injEq, Prod.mk.injEq] at h
      obtain ⟨rfl, rfl⟩ := h
      simp [needs] at hn
    | 2, h =>
      simp only [operand, Option.some.injEq, Prod.mk.injEq] at h
      obtain ⟨rfl, rfl⟩ := h
      simpa [printWithout, par_false] using betweenHi_needed .minimal e lo hi hn
    | n + 3, h => simp [operand] at h
  | instOf e q qs =>
    match i, h with
    | 0, h =>
      simp only [operand, Option.some.injEq, Prod.mk.injEq] at h
      obtain ⟨rfl, rfl⟩ := h
      rw [needs_instE] at hn
      simpa [printWithout, par_false] using
        first_absorbed .minimal (.instOf e q qs) e .instance _ rfl hn (by simp) ⟨_, rfl⟩
    | n + 1, h => simp [operand] at h
  | path e n' =>
    match i, h with
    | 0, h =>
      simp only [operand, Option.some.injEq, Prod.mk.injEq] at h
      obtain ⟨rfl, rfl⟩ := h
      rw [needs_pathE] at hn
      simpa [printWithout, par_false] using
        first_absorbed .minimal (.path e n') e .dot [.name n'] rfl hn (fun _ => ⟨n', [], rfl⟩) ⟨_, rfl⟩
    | n + 1, h => simp [operand] at h
  | filter e i' =>
    match i, h with
    | 0, h =>
      simp only [operand, Option.some.injEq, Prod.mk.injEq] at h
      obtain ⟨rfl, rfl⟩ := h
      rw [needs_filterE] at hn
      simpa [printWithout, par_false] using
        first_absorbed .minimal (.filter e i') e .lbrack _ rfl hn (by simp) ⟨_, rfl⟩
    | 1, h =>
      simp only [operand, Option.some.injEq, Prod.mk.injEq] at h
      obtain ⟨rfl, rfl⟩ := h
      simp [needs] at hn
    | n + 2, h => simp [operand] at h
  | call f as =>
    match i, h with
    | 0, h =>
      simp only [operand, Option.some.injEq, Prod.mk.injEq] at h
      obtain ⟨rfl, rfl⟩ := h
      rw [needs_callF] at hn
      simpa [printWithout, par_false] using
        first_absorbed .minimal (.call f as) f .lparen _ rfl hn (by simp) ⟨_, rfl⟩
    | n + 1, h => simp [operand] at h
  | callNamed f n' v bs =>
    match i, h with
    | 0, h =>
      simp only [operand, Option.some.injEq, Prod.mk.injEq] at h
      obtain ⟨rfl, rfl⟩ := h
      rw [needs_callF] at hn
      simpa [printWithout, par_false] using
        first_absorbed .minimal (.callNamed f n' v bs) f .lparen _ rfl hn (by simp) ⟨_, rfl⟩
    | n + 1, h => simp [operand] at h
  | inList e a b more =>
    match i, h with
    | 0, h =>
      simp only [operand, Option.some.injEq, Prod.mk.injEq] at h
      obtain ⟨rfl, rfl⟩ := h
      simpa [printWithout, par_false] using inE_needed .minimal e a b more _ hn
    | n + 1, h => simp [operand] at h
  | ite c' a b =>
    match i, h with
    | 0, h =>
      simp only [operand, Option.some.injEq, Prod.mk.injEq] at h
      obtain ⟨rfl, rfl⟩ := h
      simpa [printWithout, par_false] using ite_needed .minimal c' a b hn
    | n + 1, h => simp [operand] at h
  | forS v d its body =>
    match i, h with
    | 0, h =>
      simp only [operand, Option.some.injEq, Prod.mk.injEq] at h
      obtain ⟨rfl, rfl⟩ := h
      simpa [printWithout, par_false] using forS_needed .minimal v d its body hn
    | n + 1, h => simp [operand] at h
  | forR v lo hi its body =>
    match i, h with
    | 0, h =>
      simp only [operand, Option.some.injEq, Prod.mk.injEq] at h
      obtain ⟨rfl, rfl⟩ := h
      simpa [printWithout, par_false] using forR_needed .minimal v lo hi its body hn
    | n + 1, h => simp [operand] at h
  | quant ev v d qs body =>
    match i, h with
    | 0, h =>
      simp only [operand, Option.some.injEq, Prod.mk.injEq] at h
      obtain ⟨rfl, rfl⟩ := h
      simpa [printWithout, par_false] using quant_needed .minimal ev v d qs body hn
    | n + 1, h => simp [operand] at h
  | fn ps body =>
    match i, h with
    | 0, h =>
      simp only [operand, Option.some.injEq, Prod.mk.injEq] at h
      obtain ⟨rfl, rfl⟩ := h
      simpa [printWithout, par_false] using fn_needed .minimal ps body hn
    | n + 1, h => simp [operand] at h
  | list items => simp [operand] at h
  | ctx es => simp [operand] at h
  | range b1 lo hi b2 => simp [operand] at h
  | utest c' e => simp [operand] at h

/-- The rendering `paren_needed_partial` speaks about is among those `drops` enumerates (the
correspondence runs every member of `drops .minimal t` through the real parser). -/
theorem paren_needed_root_in_drops (t : Tree) (i : Nat) (pos : Pos) (c : Tree)
    (h : operand t i = some (pos, c)) (hn : needsParens pos c = true) :
    printWithout t i ∈ drops .minimal t :=
  drops_contains_root t i pos c h hn

/-- `(if a then b else c) + d`: the pair is needed (`if a then b else c + d` is another tree). -/
example : operand (.bin .add (.ite (.atom (.name 0)) (.atom (.name 1)) (.atom (.name 2))) (.atom (.name 3))) 0 =
      some (.binL .add, .ite (.atom (.name 0)) (.atom (.name 1)) (.atom (.name 2))) ∧
    needsParens (.binL .add) (.ite (.atom (.name 0)) (.atom (.name 1)) (.atom (.name 2))) = true :=
  ⟨rfl, by decide⟩

/-- `(a + b) * c`: the pair is needed, and `a + b * c` is another tree. -/
example : operand (.bin .mul (.bin .add (.atom (.name 0)) (.atom (.name 1))) (.atom (.name 2))) 0 =
      some (.binL .mul, .bin .add (.atom (.name 0)) (.atom (.name 1))) ∧
    needsParens (.binL .mul) (.bin .add (.atom (.name 0)) (.atom (.name 1))) = true :=
  ⟨rfl, by decide⟩

/-! ### A needed pair at any depth

`drops .minimal t` lists every minimal rendering of `t` with ONE printed pair of parentheses
left out, at any depth (every pair the minimal printer writes is one `needsParens` demands).
None of them parses to `t`.  The proof does not follow the dropped pair through its contexts;
it shows that the minimal printer is minimal: whatever token list the reference parser reads as
`t` has at least as many tokens as `print .minimal t` (`print_minimal_shortest`; by induction
along the parser over ALL token lists, with a potential: what `parseExpr k` has consumed for a
result covers the minimal rendering of the result plus the pair the result still owes — when
it cannot stand bare under `k`, or absorbs the token it stopped at — and only a result read
from `( … )` can owe one, having the two tokens to spare).  A rendering with one pair left out
is two tokens shorter than the minimal rendering, so it is not read as `t`. -/

/-- No token list shorter than the minimal rendering parses to the tree: every pair of
parentheses the minimal printer writes is present in whatever is read as `t`. -/
theorem print_minimal_shortest (ts : List Tok) (t : Tree) (h : parse ts = some t) :
    (print .minimal t).length ≤ ts.length :=
  parse_length h

/-- A rendering with one needed pair of parentheses removed — anywhere in the tree — does not
parse to the tree (it parses to a different tree, or not at all). -/
theorem paren_needed (t : Tree) (ts : List Tok) (h : ts ∈ drops .minimal t) : parse ts ≠ some t :=
  drops_not_parsed t ts h

/-- `((a + b) * c) ** d`: `drops` leaves out the outer pair (`(a + b) * c ** d`) and the inner,
deeper one (`(a + b * c) ** d`); the second is no operand of the root. -/
example : drops .minimal (.bin .exp (.bin .mul (.bin .add (.atom (.name 0)) (.atom (.name 1))) (.atom (.name 2)))
      (.atom (.name 3))) =
    [[.lparen, .name 0, .plus, .name 1, .rparen, .mul, .name 2, .exp, .name 3],
     [.lparen, .name 0, .plus, .name 1, .mul, .name 2, .rparen, .exp, .name 3]] := by
  decide

/-- The deeper one is read as another tree: `(a + (b * c)) ** d`. -/
example : parse [.lparen, .name 0, .plus, .name 1, .mul, .name 2, .rparen, .exp, .name 3] =
    some (.bin .exp (.bin .add (.atom (.name 0)) (.bin .mul (.atom (.name 1)) (.atom (.name 2))))
      (.atom (.name 3))) := by
  have h : print .minimal (.bin .exp (.bin .add (.atom (.name 0)) (.bin .mul (.atom (.name 1)) (.atom (.name 2))))
      (.atom (.name 3))) =
      [.lparen, .name 0, .plus, .name 1, .mul, .name 2, .rparen, .exp, .name 3] := by decide
  rw [← h]
  exact parse_print_minimal_partial _

/-! ## What the lexer hands the grammar

`parseSurface` is the model of the implementation on the *text* of a token list: the
lexer's single `between` flag decides which `and` is `BETWEEN_AND` (`relex`), and the
generated tables refuse a grouping parenthesis followed by a path of three names
(`pathQuirk`).  Both deviate from the grammar of the operator language; the hypotheses below
say when they do not interfere.

FULL STATEMENT (not provable of the current code, findings F19 and F22):
theorem parse_print_surface (m : Mode) (t : Tree) : parseSurface (print m t) = some t -/

theorem parse_print_surface_partial (m : Mode) (t : Tree) (h1 : betweenSafe t = true)
    (h2 : pathQuirk false (print m t) = false) : parseSurface (print m t) = some t := by
  unfold parseSurface
  rw [h2, relex_print m t h1]
  cases m with
  | full => exact parse_print_full_partial t
  | minimal => exact parse_print_minimal_partial t

example : betweenSafe (.between (.atom (.name 0)) (.bin .add (.atom (.name 1)) (.atom (.num 1))) (.atom (.name 2))) = true ∧
    pathQuirk false (print .minimal
      (.between (.atom (.name 0)) (.bin .add (.atom (.name 1)) (.atom (.num 1))) (.atom (.name 2)))) = false := by
  decide

/-- F19: `a between (b and c) and d` — the lexer turns the inner `and` into `BETWEEN_AND`. -/
theorem parse_print_surface_counterexample_between :
    parseSurface (print .full (.between (.atom (.name 0))
      (.bin .and (.atom (.name 1)) (.atom (.name 2))) (.atom (.name 3)))) = none := by
  have h : print .full (.between (.atom (.name 0)) (.bin .and (.atom (.name 1)) (.atom (.name 2)))
      (.atom (.name 3))) =
      [.name 0, .between, .lparen, .name 1, .kand, .name 2, .rparen, .band, .name 3] := by decide
  rw [h]
  simp [parseSurface, pathQuirk, startsThreeNames, operandEnd, relex, parse, parseExpr, parseLoop,
    opLevel, binOf]

/-- F22: `(a . b . c + 1) * 2` — the tables commit to an interval after `( a . b .`. -/
theorem parse_print_surface_counterexample_path :
    parseSurface (print .minimal (.bin .mul
      (.bin .add (.path (.path (.atom (.name 0)) 1) 2) (.atom (.num 1))) (.atom (.num 2)))) = none := by
  have h : pathQuirk false (print .minimal (.bin .mul
      (.bin .add (.path (.path (.atom (.name 0)) 1) 2) (.atom (.num 1))) (.atom (.num 2)))) = true := by
    decide
  simp [parseSurface, h]

/-! ## Layout

`skipGap` is what `Lexer::read_input` does before every token.  A `Gap` is any sequence of
runs of white space and comments (`// …` closed by a line feed, or `/* … */`).
(That two layouts of one token list lex to the same tokens needs, beyond this, the token
recognisers of `read_next_token`; those are compared by the correspondence only.  For the
keywords that white space must follow, `read_input` writes the first character of a comment
into its look-ahead buffer as white space, so a comment ends such a keyword too.) -/

/-- Whatever gap stands before it, the lexer resumes exactly at the next token. -/
theorem layout_gap_skipped (g : Gap) (rest : List Nat) (hg : gapOk g = true)
    (hr : startsToken rest = true) : skipGap (gapText g ++ rest) = rest :=
  skipGap_gap g rest hg hr

/-- Any two gaps are interchangeable. -/
theorem layout_irrelevant (g1 g2 : Gap) (rest : List Nat) (h1 : gapOk g1 = true) (h2 : gapOk g2 = true)
    (hr : startsToken rest = true) : skipGap (gapText g1 ++ rest) = skipGap (gapText g2 ++ rest) := by
  rw [skipGap_gap g1 rest h1 hr, skipGap_gap g2 rest h2 hr]

/-- The gap after `function`, `list`, `range`, `context` (and after `date` / `time` before a
`:`): whether the keyword is recognised is decided by `is_next_character` (lexer.rs:965), which
looks for `(` / `<` / `:` beyond white space AND comments (finding F33, repaired).  Whatever gap
stands there, the answer is the one given by the first character of the next token. -/
theorem layout_keyword_gap_skipped (chars : List Nat) (hc : plainChars chars = true) (g : Gap)
    (rest : List Nat) (hg : gapOk g = true) (hr : startsToken rest = true) :
    nextIs chars (gapText g ++ rest) = headIn chars rest :=
  nextIs_gap chars hc g rest hg hr

/-- Any two gaps after such a keyword are interchangeable. -/
theorem layout_keyword_gap_irrelevant (chars : List Nat) (hc : plainChars chars = true) (g1 g2 : Gap)
    (rest : List Nat) (h1 : gapOk g1 = true) (h2 : gapOk g2 = true) (hr : startsToken rest = true) :
    nextIs chars (gapText g1 ++ rest) = nextIs chars (gapText g2 ++ rest) := by
  rw [nextIs_gap chars hc g1 rest h1 hr, nextIs_gap chars hc g2 rest h2 hr]

-- `function /* c */ ( a ) a` (the witness of F33): after ` /* c */ ` stands `(`
example : plainChars [40, 60] = true ∧ gapOk [.ws [32], .comment (.block [32, 99, 32]), .ws [32]] = true ∧
    startsToken [40, 32, 97] = true ∧ headIn [40, 60] [40, 32, 97] = true ∧
    nextIs [40, 60] (gapText [.ws [32], .comment (.block [32, 99, 32]), .ws [32]] ++ [40, 32, 97]) = true := by
  decide

-- ` /* c */\n/**/` and `\t// x\n // y\n ` in front of `a`
example : gapOk [.ws [32], .comment (.block [32, 99, 32]), .ws [10], .comment (.block [])] = true ∧
    gapOk [.ws [9], .comment (.line [32, 120] 10), .ws [32], .comment (.line [32, 121] 10), .ws [32]] = true ∧
    startsToken [97] = true := by decide

/-- A line comment ends at ANY vertical space (U+000A line feed, U+000B, U+000C, U+000D carriage return; CR LF is the
comment closed by CR followed by the white space LF): whichever of them closes a comment, the lexer resumes at the
same place, whatever follows (finding F71-line-comment-end, repaired by 20fca88: before it `1 // c\r+ 2` lost `+ 2`). -/
theorem layout_line_comment_any_vertical_space (body : List Nat) (e1 e2 : Nat) (rest : List Nat)
    (hb : noVertical body = true) (h1 : isVerticalSpace e1 = true) (h2 : isVerticalSpace e2 = true) :
    skipGap (Comment.text (.line body e1) ++ rest) = skipGap (Comment.text (.line body e2) ++ rest) := by
  rw [skipGap_comment (.line body e1) rest (by simp [Comment.ok, hb, h1]),
    skipGap_comment (.line body e2) rest (by simp [Comment.ok, hb, h2])]

-- `// c\r+ 2` and `// c\n+ 2`: both resume at `+ 2`
example : noVertical [32, 99] = true ∧ isVerticalSpace 13 = true ∧ isVerticalSpace 10 = true ∧
    skipGap (Comment.text (.line [32, 99] 13) ++ [43, 32, 50]) = [43, 32, 50] :=
  ⟨by decide, by decide, by decide,
    layout_gap_skipped [.comment (.line [32, 99] 13)] [43, 32, 50] (by decide) (by decide)⟩

/-- A line comment that nothing closes runs to the end of the input: after any gap, `// body` without a vertical
space leaves nothing (the parser sees the end of the input where the comment began). -/
theorem layout_trailing_line_comment (g : Gap) (body : List Nat) (hg : gapOk g = true)
    (hb : noVertical body = true) : skipGap (gapText g ++ 0x2F :: 0x2F :: body) = [] := by
  rw [skipGap_gap_any g _ hg, skipGap_open_line body hb]

-- ` /* c */ // trailing`
example : gapOk [.ws [32], .comment (.block [32, 99, 32]), .ws [32]] = true ∧ noVertical [32, 116] = true := by decide

/-- Sensitivity: a vertical space inside a block comment does not end it, and one inside a line comment does — the
text after it is a token. -/
theorem layout_vertical_space_inside_comment (e : Nat) (he : isVerticalSpace e = true) :
    skipGap ([0x2F, 0x2A, 120, e, 121, 0x2A, 0x2F] ++ [97]) = [97] ∧
    skipGap ([0x2F, 0x2F, 120, e, 121] ++ [97]) = [121, 97] := by
  constructor
  · have h := skipGap_comment (.block [120, e, 121]) [97] (by simp [Comment.ok, noClose])
    rw [skipGap_token [97] (by decide)] at h
    simpa [Comment.text] using h
  · have h := skipGap_comment (.line [120] e) [121, 97] (by
      have : noVertical [120] = true := by decide
      simp [Comment.ok, this, he])
    rw [skipGap_token [121, 97] (by decide)] at h
    simpa [Comment.text] using h

/-! ## String escapes -/

/-- For every Unicode scalar value `c`, each accepted spelling denotes `c`: `\uXXXX` (when
`c` is in the basic plane), `\UXXXXXX`, and the UTF-16 surrogate pair (when `c` is
supplementary). -/
theorem string_escape_roundtrip (c : Nat) (h : isScalar c = true) :
    (c < 65536 → lexU4 c = some c) ∧ lexU6 c = some c ∧ (65536 ≤ c → lexSur c = some c) := by
  refine ⟨fun h4 => lexU4_scalar c h h4, lexU6_scalar c h, fun h1 => lexSur_scalar c h1 ?_⟩
  simp [isScalar] at h; omega

-- 🙏 (U+1F64F), the code point the former mask 0xFF refused (finding F10, repaired)
example : isScalar 0x1F64F = true ∧ 65536 ≤ 0x1F64F := by decide

/-! ## String literals: every spelling of every string

`Dmn.StringLit` reads the grammar (rules 35, 64, 65 of the DMN specification): the body of a
literal is a sequence of pieces — a raw character other than `"`, `\` and vertical space; one of
the six simple escapes; `\uXXXX`, `\UXXXXXX` (hexadecimal digits in either case, digit by digit);
a surrogate pair; or a backslash before a character that begins none of these (then the backslash
and the character are two ordinary characters of the string).  `Dmn.Lexer.consumeString` is the
model of `Lexer::consume_string` that the token correspondence of C05 / C10 ties to the code. -/

open Dmn.StringLit in
/-- The lexer model reads the literal spelled by the pieces `ps` — wherever it stands in the
input, whatever follows — as the string the pieces denote, and stops just after the closing
quote. -/
theorem string_literal_roundtrip (pre rest : List Nat) (ps : List StringLit.Piece) (h : ps.all StringLit.Piece.ok = true) :
    Dmn.Lexer.consumeString (pre ++ literal ps ++ rest) pre.length =
      .ok (⟨.string, .string (denote ps)⟩, pre.length + (literal ps).length) :=
  consumeString_literal pre rest ps h

-- `"\bfoo\b"` is the eight characters `\bfoo\b` (the witness of seeded change C06-17); `"é\U01F64F🙏\\"`
open Dmn.StringLit in
example : [StringLit.Piece.bs 98, .raw 102, .raw 111, .raw 111, .bs 98].all StringLit.Piece.ok = true ∧
    denote [StringLit.Piece.bs 98, .raw 102, .raw 111, .raw 111, .bs 98] = [92, 98, 102, 111, 111, 92, 98] ∧
    literal [StringLit.Piece.bs 98, .raw 102, .raw 111, .raw 111, .bs 98] = [34, 92, 98, 102, 111, 111, 92, 98, 34] ∧
    [StringLit.Piece.u4 0xE9 0b0100, .u6 0x1F64F 0b100000, .sur 0x1F64F 0xFF, .simple 92].all StringLit.Piece.ok = true ∧
    denote [StringLit.Piece.u4 0xE9 0b0100, .u6 0x1F64F 0b100000, .sur 0x1F64F 0xFF, .simple 92] = [0xE9, 0x1F64F, 0x1F64F, 92] := by
  decide

open Dmn.StringLit in
/-- `lex (quote s) = s`: the canonical spelling of any string (`"` and `\` escaped, vertical space
written as `\n`, `\r`, `\u000B`, `\u000C`) is read back as the string — no hypothesis on `s`. -/
theorem string_quote_roundtrip (pre rest s : List Nat) :
    Dmn.Lexer.consumeString (pre ++ literal (quote s) ++ rest) pre.length =
      .ok (⟨.string, .string s⟩, pre.length + (literal (quote s)).length) := by
  have h := consumeString_literal pre rest (quote s) (quote_ok s)
  rwa [denote_quote] at h

/-! ## Width: sequences of any length are flat -/

/-- A list literal `[a, b, …]`, an argument list `f(a, b, …)` and `e in (a, b, …)` of ANY
number of items — the flat, comma-separated token list — parse to the flat tree with exactly
those items in that order (no bound on the length: the proof is the round trip, by induction). -/
theorem wide_sequences_flat (items : List Atom) (f : Nat) (a b : Atom) :
    parse (.lbrack :: commaToks items ++ [.rbrack]) = some (.list (atomArgs items)) ∧
    parse (.name f :: .lparen :: commaToks items ++ [.rparen]) =
      some (.call (.atom (.name f)) (atomArgs items)) ∧
    parse (.name f :: .kin :: .lparen :: commaToks (a :: b :: items) ++ [.rparen]) =
      some (.inList (.atom (.name f)) (.atom a) (.atom b) (atomArgs items)) := by
  refine ⟨?_, ?_, ?_⟩
  · have h := parse_print_minimal_partial (.list (atomArgs items))
    simpa [print, pr, prArgs_atoms] using h
  · have h := parse_print_minimal_partial (.call (.atom (.name f)) (atomArgs items))
    simpa [print, pr, prArgs_atoms, needs, wrapped, isAtom, par, absorbs, atomTok] using h
  · have h := parse_print_minimal_partial (.inList (.atom (.name f)) (.atom a) (.atom b) (atomArgs items))
    simpa [print, pr, prArgsTail_atoms, needs, wrapped, isAtom, par, absorbs, atomTok, commaToks_cons, fbOf] using h

open Dmn.StringLit in
/-- The same on the level of tokens: `read_next_token` with the cursor on the opening quote
returns the string token carrying the denoted string and puts the cursor just after the closing
quote; no lexer flag is touched. -/
theorem string_token_roundtrip (l : Dmn.Lexer.Lx) (pre rest : List Nat) (ps : List StringLit.Piece)
    (hinp : l.input = pre ++ literal ps ++ rest) (hpos : l.pos = pre.length) (h : ps.all StringLit.Piece.ok = true) :
    Dmn.Lexer.readNextToken l =
      .ok (⟨.string, .string (denote ps)⟩, { l with pos := pre.length + (literal ps).length }) :=
  readNextToken_literal l pre rest ps hinp hpos h

/-- The two models of `consume_unicode` are one: the decision of the lexer model
(`Dmn.Lexer.consumeUnicode`: a value in one of the four direct ranges denotes itself, a high
surrogate followed by a low surrogate denotes the supplementary code point, anything else is an
error) is what the byte-level model (`Dmn.Escape`: the UTF-8 packing written in `lexer.rs:798-851`
followed by a UTF-8 decoder in the role of `String::from_utf8`) computes — for EVERY literal
value, not only for the spellings of scalar values; in particular `unicode_conversion_failed`
(lexer.rs:858) is unreachable, as the lexer model assumes. -/
theorem unicode_byte_model_is_lexer_decision (v low : Nat) :
    Dmn.Escape.consumeUnicode v none =
      (if v ≤ 0xD7FF || (0xE000 ≤ v && v ≤ 0xFFFF) || (0x10000 ≤ v && v ≤ 0x10FFFF) then some v else none) ∧
    ((0xD800 ≤ v ∧ v ≤ 0xDBFF) → Dmn.Escape.consumeUnicode v (some low) =
      (if 0xDC00 ≤ low && low ≤ 0xDFFF then some (0x10000 + (v - 0xD800) * 0x400 + (low - 0xDC00)) else none)) := by
  constructor
  · by_cases hs : isScalar v = true
    · rw [consumeUnicode_scalar v hs]
      have : (decide (v ≤ 0xD7FF) || (decide (0xE000 ≤ v) && decide (v ≤ 0xFFFF)) ||
          (decide (0x10000 ≤ v) && decide (v ≤ 0x10FFFF))) = true := by
        simp [isScalar] at hs; simp; omega
      rw [if_pos this]
    · have hv : (0xD800 ≤ v ∧ v ≤ 0xDFFF) ∨ 0x10FFFF < v := by
        simp [isScalar] at hs; omega
      have hn : ¬ ((decide (v ≤ 0xD7FF) || (decide (0xE000 ≤ v) && decide (v ≤ 0xFFFF)) ||
          (decide (0x10000 ≤ v) && decide (v ≤ 0x10FFFF))) = true) := by
        simp; omega
      rw [if_neg hn]
      unfold Dmn.Escape.consumeUnicode
      by_cases hh : (decide (0xD800 ≤ v) && decide (v ≤ 0xDBFF)) = true
      · rw [if_pos hh]
      · rw [if_neg hh]
        have hh' : ¬ (0xD800 ≤ v ∧ v ≤ 0xDBFF) := by simpa using hh
        have : packOne v = none := by
          unfold packOne
          rw [if_neg (by omega), if_neg (by omega), if_neg (by simp; omega), if_neg (by simp; omega)]
        rw [this]
  · intro hv
    unfold Dmn.Escape.consumeUnicode
    have hh : (decide (0xD800 ≤ v) && decide (v ≤ 0xDBFF)) = true := by simp; omega
    rw [if_pos hh]
    by_cases hl : (decide (0xDC00 ≤ low) && decide (low ≤ 0xDFFF)) = true
    · simp only [hl, if_true]
      have hl' : 0xDC00 ≤ low ∧ low ≤ 0xDFFF := by simpa using hl
      rw [packSur_eq]
      exact decode_four _ (by omega) (by omega)
    · simp [hl]

/-! ## The committed LALR tables against the grammar of feel.y

`lalr.rs` is bison's output, committed; bison is not installed, so "the tables implement feel.y" was
trusted and only exercised.  One half of it is now decided on every run, over the tables as
regenerated from lalr.rs (`translate/lalr.py`), the rules of feel.y in bison's numbering
(`translate/parser_scope.py`, `Dmn.Gen.ParserScope.grammar`) and two witnesses that are re-checked,
never trusted (`PREDS`: predecessors of every state, complete by C05's `lalr_stack_ok`; `ACC`: the
accessing symbol of every state, `translate/lalr_acc.py`):

SOUNDNESS — every shift the tables allow on a token enters a state accessed by that token; every
reduction they allow in a state (explicit entry or default action) is by a rule `A → X₁ … Xₙ` of
feel.y whose left-hand side and length are `YY_R1` / `YY_R2`, pops — along every path of the automaton
that ends in the state — states accessed by `Xₙ, …, X₁`, and enters from every uncovered state a state
accessed by `A`.  With the stack invariant of C05 (the state stack is a path of the automaton) the
symbols accessing the stacked states are the sentential prefix read so far and the reductions of an
accepting run, read backwards, are a rightmost derivation of the token sequence in feel.y's grammar:
the driver accepts only sentences of the grammar and reduces them by its rules.

NOT decided (stays with the correspondence above): completeness — that every sentence is accepted
and every conflict resolved as the `%left / %right / %nonassoc / %prec` declarations say; and the
lift of the table statement to runs of `Dmn.Lalr.parse` as a theorem (the argument above is prose). -/

open Dmn.Lalr Dmn.Gen.Lalr Dmn.Gen.LalrAcc in
/-- `lalr_table_entries_spell_rules`: every action entry of `YY_TABLE` / `YY_CHECK`, read in every
state whose row reaches it — a shift enters a state accessed by the shifted token, a reduction spells
a rule of feel.y (`spellEntryOk`, Dmn/Model/LalrSpell.lean). -/
theorem lalr_table_entries_spell_rules :
    allIdx2 (spellEntryOk gen PREDS ACC feelGrammar) 0 gen.table gen.check = true :=
  Dmn.Lalr.spell_table_ok

open Dmn.Lalr Dmn.Gen.Lalr Dmn.Gen.LalrAcc in
/-- `lalr_default_reductions_spell_rules`: the default action of every state other than `YY_FINAL`
spells a rule of feel.y. -/
theorem lalr_default_reductions_spell_rules :
    allIdx (fun s d => (s : Int) == gen.final || d == 0 || redSpells gen PREDS ACC feelGrammar s d) 0 gen.defAct
      = true :=
  Dmn.Lalr.spell_default_ok

open Dmn.Lalr Dmn.Gen.Lalr Dmn.Gen.LalrAcc in
/-- `lalr_tables_sound_for_grammar`: the two halves together are `spellOk`. -/
theorem lalr_tables_sound_for_grammar : spellOk gen PREDS ACC feelGrammar = true := by
  unfold spellOk
  rw [lalr_table_entries_spell_rules, lalr_default_reductions_spell_rules]
  rfl

-- non-vacuity: one accessing symbol per state, all but the initial state reached; the grammar has as many rules as
-- YY_R1; state 30 (accessed by `boxed_expression`) reduces by rule 9 `expression: boxed_expression` and NOT by its
-- sibling rule 10 `expression: textual_expression` of the same left-hand side and length
open Dmn.Lalr Dmn.Gen.Lalr Dmn.Gen.LalrAcc in
example : ACC.length = YY_PACT.length ∧ (ACC.filter (· < 0)).length = 1 ∧ feelGrammar.length = YY_R1.length ∧
    redSpells gen PREDS ACC feelGrammar 30 9 = true ∧ redSpells gen PREDS ACC feelGrammar 30 10 = false := by
  decide +kernel

end Dmn.C06
