import Dmn.Lemmas.LexerName
import Dmn.Lemmas.LexerNormalise
import Dmn.Lemmas.LexerRoundtrip
import Dmn.Lemmas.LexerOperator
import Dmn.Lemmas.LexerNextChar
import Dmn.Gen.NameChars
import Dmn.Model.NameGrammar
import Dmn.Lemmas.LexerKeyword

/-!
# C10 — names with spaces and symbols resolve to their bound value (longest match)

Theorems about `Dmn.Lexer` (model of `feel-parser/src/lexer.rs`, `consume_name`), for every
input text, every cursor position, every set of scope keys and every setting of the lexer
flags.
-/

namespace Dmn.Lexer

/-- `longest_match`: when the part collector has left `st` (parts, consumed positions), the
`till_in` tweak does not apply, and `k` is the greatest number of leading parts whose
`Name::new` text (the text under which a name is stored in a scope) is a key of the scope, then `consume_name` returns exactly the name made of
these `k` parts and rewinds the cursor to just after the position recorded for part `k` — also
when the first word is `item` (the `item` tweak comes after the scope, lexer.rs:680; finding L4,
repaired). -/
theorem longest_match (l : Lx) (st : NameSt)
    (hcol : collectParts l.input l.pos = .ok st)
    (htill : l.tillIn = false ∨ (positionOfIn st.parts).filter (fun i => 0 < i) = none)
    (k : Nat) (hk1 : 1 ≤ k) (hkn : k ≤ st.parts.length)
    (hkey : isKeyAt l.keys st.parts k = true)
    (hmax : ∀ j, k < j → j ≤ st.parts.length → isKeyAt l.keys st.parts j = false) :
    ∃ p, st.positions[k - 1]? = some p ∧
      consumeName l = .ok (nameTok .name (st.parts.take k), { l with pos := p + 1 }) := by
  have hl := collectParts_len hcol
  obtain ⟨p, hp, hloop⟩ :=
    prefixLoop_some l.keys st.parts st.positions hl st.parts.length k hk1 hkn (Nat.le_refl _) hkey hmax
  refine ⟨p, hp, ?_⟩
  unfold consumeName
  rw [hcol]
  unfold finishName
  have h2 : (if l.tillIn = true then (positionOfIn st.parts).filter (fun i => 0 < i) else none) = none := by
    cases htill with
    | inl h => simp [h]
    | inr h => simp [h]
  simp only [h2, hloop]

-- non-vacuity: scope {a, b, a-b}, input `a - b+1`: parts a,-,b,+,1; the longest key prefix has
-- three parts and the cursor is rewound to 5 (just after `b`)
def exLx1 : Lx :=
  { input := [97, 32, 45, 32, 98, 43, 49], pos := 0, start := none, unaryTests := false,
    between := false, typeName := false, tillIn := false, keys := [[97], [98], [97, 45, 98]] }
example : consumeName exLx1 = .ok (⟨.name, .name [97, 45, 98]⟩, { exLx1 with pos := 5 }) := by decide

/-- When no prefix of the collected parts is a key (and no tweak applies) the token carries the
whole collected name, normalised by `Name::new`, and the cursor stays where the collector
stopped. -/
theorem unbound_whole_name (l : Lx) (st : NameSt)
    (hcol : collectParts l.input l.pos = .ok st)
    (hitem : st.parts.head? ≠ some kwItem)
    (htill : l.tillIn = false ∨ (positionOfIn st.parts).filter (fun i => 0 < i) = none)
    (hnone : ∀ j, 1 ≤ j → j ≤ st.parts.length → isKeyAt l.keys st.parts j = false) :
    ∃ tt l', consumeName l = .ok (⟨tt, .name (nameNew st.parts)⟩, l') ∧ l'.pos = st.pos ∧
      (tt = .name ∨ tt = .nameDateTime ∨ tt = .builtInTypeName) := by
  have hloop := prefixLoop_none l.keys st.parts st.positions st.parts.length (Nat.le_refl _) hnone
  unfold consumeName
  rw [hcol]
  unfold finishName
  have h1 : (st.parts.head? == some kwItem) = false := by
    simpa using hitem
  have h2 : (if l.tillIn = true then (positionOfIn st.parts).filter (fun i => 0 < i) else none) = none := by
    cases htill with
    | inl h => simp [h]
    | inr h => simp [h]
  simp only [h2, hloop, h1, Bool.false_eq_true, if_false]
  split
  · exact ⟨_, _, rfl, rfl, Or.inr (Or.inr rfl)⟩
  · split
    · exact ⟨_, _, rfl, rfl, Or.inr (Or.inl rfl)⟩
    · split
      · split
        · exact ⟨_, _, rfl, rfl, Or.inl rfl⟩
        · exact ⟨_, _, rfl, rfl, Or.inr (Or.inl rfl)⟩
      · exact ⟨_, _, rfl, rfl, Or.inl rfl⟩

-- non-vacuity: empty scope, input `x - y`: the whole text is one (unbound) name `x-y`
def exLx2 : Lx :=
  { input := [120, 32, 45, 32, 121], pos := 0, start := none, unaryTests := false,
    between := false, typeName := false, tillIn := false, keys := [] }
example : consumeName exLx2 = .ok (⟨.name, .name [120, 45, 121]⟩, { exLx2 with pos := 5 }) := by decide


/-- `item_when_unbound`: the word `item` is split off as the filter variable only when no bound
name begins here — the `item` tweak (lexer.rs:680) comes after the `till_in` tweak and after the
longest-prefix loop (finding L4, repaired). -/
theorem item_when_unbound (l : Lx) (st : NameSt)
    (hcol : collectParts l.input l.pos = .ok st)
    (hitem : st.parts.head? = some kwItem)
    (htill : l.tillIn = false ∨ (positionOfIn st.parts).filter (fun i => 0 < i) = none)
    (hnone : ∀ j, 1 ≤ j → j ≤ st.parts.length → isKeyAt l.keys st.parts j = false) :
    ∃ p, st.positions[0]? = some p ∧
      consumeName l = .ok (⟨.name, .name kwItem⟩, { l with pos := p + 1 }) := by
  have hl := collectParts_len hcol
  have hne : st.parts ≠ [] := by intro he; simp [he] at hitem
  have hlen : 0 < st.positions.length := by rw [hl]; exact List.length_pos_iff.mpr hne
  refine ⟨st.positions[0], List.getElem?_eq_getElem hlen, ?_⟩
  have hloop := prefixLoop_none l.keys st.parts st.positions st.parts.length (Nat.le_refl _) hnone
  unfold consumeName
  rw [hcol]
  unfold finishName
  have h1 : (st.parts.head? == some kwItem) = true := by simp [hitem]
  have h2 : (if l.tillIn = true then (positionOfIn st.parts).filter (fun i => 0 < i) else none) = none := by
    cases htill with
    | inl h => simp [h]
    | inr h => simp [h]
  simp only [h2, hloop, h1, if_true, List.getElem?_eq_getElem hlen]

-- non-vacuity: `item.x > 1` in an empty scope: the name `item`, cursor at 4; and with `item count`
-- bound, `item count + 1` is the name `item count` (the witness of L4)
def exItem : Lx :=
  { input := [105, 116, 101, 109, 46, 120, 32, 62, 32, 49], pos := 0, start := none, unaryTests := false,
    between := false, typeName := false, tillIn := false, keys := [] }
def exItemCount : Lx :=
  { input := [105, 116, 101, 109, 32, 99, 111, 117, 110, 116, 32, 43, 32, 49], pos := 0, start := none,
    unaryTests := false, between := false, typeName := false, tillIn := false,
    keys := [[105, 116, 101, 109, 32, 99, 111, 117, 110, 116]] }
example : consumeName exItem = .ok (⟨.name, .name kwItem⟩, { exItem with pos := 4 }) ∧
    consumeName exItemCount =
      .ok (⟨.name, .name [105, 116, 101, 109, 32, 99, 111, 117, 110, 116]⟩, { exItemCount with pos := 10 }) := by
  decide

/-- `name_ends_at_comment`: a comment opener (`//` or `/*`) after a word — directly or after
white space — ends the name: the collector returns the word as the only part (finding F32,
repaired: before, `/`, `*` and the words of the comment were collected as parts). -/
theorem name_ends_at_comment (inp pre w0 blanks r : List Nat) (d : Nat) (hd : d = 47 ∨ d = 42)
    (hinp : inp = pre ++ (renderName [w0] [[]] ++ (blanks ++ 47 :: d :: r)))
    (hw : isWordPart w0 = true) (hbl : isBlanks blanks = true) (hamb : NoAmbiguousBlank inp) :
    ∃ st, collectParts inp pre.length = .ok st ∧ st.parts = [w0] ∧
      st.positions = [pre.length + w0.length - 1] := by
  have hne : w0 ≠ [] := by intro he; subst he; simp [isWordPart] at hw
  obtain ⟨c0, w, rfl⟩ : ∃ c0 w, w0 = c0 :: w := by
    cases w0 with
    | nil => exact absurd rfl hne
    | cons c w => exact ⟨c, w, rfl⟩
  have hc0 : isNamePartChar c0 = true := by
    simp only [isWordPart, List.all_cons, Bool.and_eq_true] at hw
    exact hw.2.1
  have hat : inp[pre.length]? = some c0 := by rw [hinp]; simp [renderName]
  obtain ⟨st, hst⟩ := collectParts_ok hat
  have hsplit := collectParts_eq_split hamb (fun ch hch => by rw [hat] at hch; cases hch; exact hc0) hst
  have hdrop : inp.drop pre.length = renderName [c0 :: w] [[]] ++ (blanks ++ 47 :: d :: r) := by
    rw [hinp]; simp
  have hrest : notExtending (blanks ++ 47 :: d :: r) := by
    intro ch hch
    cases blanks with
    | nil =>
      simp only [List.nil_append, List.head?_cons, Option.some.injEq] at hch
      subst hch; decide
    | cons b bl =>
      simp only [List.cons_append, List.head?_cons, Option.some.injEq] at hch
      subst hch
      simp only [isBlanks, List.all_cons, Bool.and_eq_true, Bool.not_eq_true'] at hbl
      exact hbl.1.2
  have hok : renderOk false [c0 :: w] [[]] = true := by simp [renderOk, isBlanks, hw]
  have hnc : noCommentStart (renderName [c0 :: w] [[]] ++ (blanks ++ 47 :: d :: r).take 1) = true := by
    have hall : (c0 :: w).all isNamePartChar = true := by
      simp only [isWordPart, Bool.and_eq_true] at hw; exact hw.2
    simp only [renderName, List.nil_append, List.append_nil]
    exact noCommentStart_word _ _ hall (by cases blanks <;> simp)
  have hsr := split_render [c0 :: w] [[]] false 0 _ hok hrest hnc
  have htail : splitGo (0 + (renderName [c0 :: w] [[]]).length) [] (blanks ++ 47 :: d :: r) = [] := by
    rw [splitGo_blanks blanks _ _ hbl]
    have hch : commentHead 47 (d :: r) = true := by
      rcases hd with rfl | rfl <;> simp [commentHead]
    simp [splitGo, hch, isNamePartChar, isNameStartChar, isDigit, isWhitespace, isVerticalSpace]
  rw [hdrop] at hsplit
  unfold splitParts at hsplit
  rw [hsr, htail] at hsplit
  refine ⟨st, hst, ?_, ?_⟩
  · rw [hsplit.1]; simp [ends]
  · rw [hsplit.2]; simp [ends, renderName]

-- non-vacuity at the witness of F32: `k /* c */ in b` in `till_in` mode is the name `k` (cursor
-- at 2, where the comment opens); the keyword `in` then clears `till_in` (lexer.rs:299)
def exF32 : Lx :=
  { input := [107, 32, 47, 42, 32, 99, 32, 42, 47, 32, 105, 110, 32, 98], pos := 0, start := none,
    unaryTests := false, between := false, typeName := false, tillIn := true, keys := [[98]] }
example : nextToken exF32 = .ok (⟨.name, .name [107]⟩, { exF32 with pos := 2 }) ∧
    nextToken { exF32 with pos := 2 } = .ok (tk .in_, { exF32 with pos := 12, tillIn := false }) := by
  decide

/-- `key_lookup_is_name_new`: the text the longest-prefix loop looks up (lexer.rs:672, repaired
by b9aabe3, finding F19) IS the `Name::new` text of the candidate parts — the normalisation under
which `Name`s are stored in a scope — for every part list (adjacent, leading or trailing
additional symbols included). -/
theorem key_lookup_is_name_new (keys : List (List Nat)) (parts : List (List Nat)) (k : Nat) :
    isKeyAt keys parts k = keys.contains (nameNew (parts.take k)) := rfl

-- non-vacuity at the old witness of F19: scope {`a+-b`}, input `a+-b + 1`: the name `a+-b` (4
-- parts), cursor at 4
def exF19 : Lx :=
  { input := [97, 43, 45, 98, 32, 43, 32, 49], pos := 0, start := none, unaryTests := false,
    between := false, typeName := false, tillIn := false, keys := [[97, 43, 45, 98]] }
example : consumeName exF19 = .ok (⟨.name, .name [97, 43, 45, 98]⟩, { exF19 with pos := 4 }) := by decide

/-- `flatten_name_parts` (lexer.rs:1054; since b9aabe3 used by its unit tests only) agrees with
`Name::new` on regular part lists: a word, then words each optionally preceded by ONE additional
symbol; words non-empty and free of white space and additional symbols. -/
theorem flatten_agrees_on_regular (parts : List (List Nat)) (h : regularParts parts = true) :
    flattenNameParts parts = nameNew parts :=
  flatten_eq_nameNew_of_regular parts h

-- non-vacuity: `a - b c` (parts a, -, b, c) is regular; both texts are `a-b c`
example : regularParts [[97], [45], [98], [99]] = true ∧
    flattenNameParts [[97], [45], [98], [99]] = [97, 45, 98, 32, 99] := by decide

/-- `flatten_name_parts` differs from `Name::new` on `a`, `+`, `-`, `b` (`a +-b` against `a+-b`) and on `a`, `+`
(`a +` against `a+`): why the look-up had to change. -/
theorem flatten_differs_on_adjacent_symbols :
    flattenNameParts [[97], [43], [45], [98]] ≠ nameNew [[97], [43], [45], [98]] ∧
    flattenNameParts [[97], [43]] ≠ nameNew [[97], [43]] := by decide

/-- `collect_eq_split`: started on a name start character, the five-state part collector of
`consume_name` returns exactly the words and symbols of the structural splitter `splitParts`,
and `consumed_positions[i]` is the position of the last character of part `i` — for every input
without a character that is both white space and a name part character (U+1680, U+180E,
U+FEFF). -/
theorem collect_eq_split (inp : List Nat) (hamb : NoAmbiguousBlank inp) (pos : Nat) (st : NameSt)
    (hstart : ∀ ch, inp[pos]? = some ch → isNamePartChar ch = true)
    (h : collectParts inp pos = .ok st) :
    st.parts = (splitParts (inp.drop pos)).map (·.1) ∧
    st.positions = (splitParts (inp.drop pos)).map (fun x => pos + x.2 - 1) :=
  collectParts_eq_split hamb hstart h

/-- `collect_roundtrip`: for every part list, every legal spacing (white space before each
part, none required around a symbol, at least one blank between two words; no `/` directly
followed by `/` or `*`: that opens a comment, which ends the name — finding F32, repaired) and every
continuation `rest` that does not extend the last word, the collector applied to
`pre ++ renderName parts spacing ++ rest` at `|pre|` returns `parts` as its first parts, and the
position recorded for the last of them is the last character of the rendered name. -/
theorem collect_roundtrip (pre rest p0 : List Nat) (ps sps : List (List Nat))
    (hok : renderOk false (p0 :: ps) ([] :: sps) = true) (hw : isWordPart p0 = true)
    (hrest : notExtending rest)
    (hnc : noCommentStart (renderName (p0 :: ps) ([] :: sps) ++ rest.take 1) = true)
    (hamb : NoAmbiguousBlank (pre ++ (renderName (p0 :: ps) ([] :: sps) ++ rest))) :
    ∃ st, collectParts (pre ++ (renderName (p0 :: ps) ([] :: sps) ++ rest)) pre.length = .ok st ∧
      st.parts.take (ps.length + 1) = p0 :: ps ∧
      st.positions[ps.length]? =
        some (pre.length + (renderName (p0 :: ps) ([] :: sps)).length - 1) := by
  have hne : p0 ≠ [] := by intro he; subst he; simp [isWordPart] at hw
  obtain ⟨c0, w0, rfl⟩ : ∃ c0 w0, p0 = c0 :: w0 := by
    cases p0 with
    | nil => exact absurd rfl hne
    | cons c w => exact ⟨c, w, rfl⟩
  have hc0 : isNamePartChar c0 = true := by
    simp only [isWordPart, List.all_cons, Bool.and_eq_true] at hw
    exact hw.2.1
  have hat : (pre ++ (renderName ((c0 :: w0) :: ps) ([] :: sps) ++ rest))[pre.length]? = some c0 := by
    simp [renderName]
  obtain ⟨st, hst⟩ := collectParts_ok hat
  have hsplit := collectParts_eq_split hamb
    (fun ch hch => by rw [hat] at hch; cases hch; exact hc0) hst
  have hdrop : (pre ++ (renderName ((c0 :: w0) :: ps) ([] :: sps) ++ rest)).drop pre.length =
      renderName ((c0 :: w0) :: ps) ([] :: sps) ++ rest := by simp
  rw [hdrop] at hsplit
  have hsr := split_render ((c0 :: w0) :: ps) ([] :: sps) false 0 rest hok hrest hnc
  unfold splitParts at hsplit
  rw [hsr] at hsplit
  refine ⟨st, hst, ?_, ?_⟩
  · rw [hsplit.1, List.map_append, ends_fst]
    simp
  · obtain ⟨p, hp⟩ := ends_last ((c0 :: w0) :: ps) ([] :: sps) false 0 hok (by simp)
    rw [hsplit.2, List.map_append]
    have hlen := ends_length ((c0 :: w0) :: ps) ([] :: sps) 0
    simp only [List.length_cons, Nat.add_sub_cancel] at hp hlen
    rw [List.getElem?_append_left (by simp [hlen])]
    rw [List.getElem?_map, hp]
    simp

/-- `bound_name_resolves` (the lexer's part of the property): a name — words and additional
symbols in any arrangement that starts with a word — that is bound in the scope under its
`Name::new` text, written with any legal spacing and followed by text that
does not extend its last word, is returned by `consume_name` as ONE name token carrying that
text, with the cursor just after the name — unless a longer prefix of the collected parts is
bound as well (then that one wins: `longest_match`) or the lexer is in `till_in` mode.  A name
whose first word is `item` is no exception (finding L4, repaired); the rendering must not contain
a comment opener (`//`, `/*`: a comment ends the name, finding F32, repaired). -/
theorem bound_name_resolves (l : Lx) (pre rest p0 : List Nat) (ps sps : List (List Nat))
    (hinp : l.input = pre ++ (renderName (p0 :: ps) ([] :: sps) ++ rest)) (hpos : l.pos = pre.length)
    (hok : renderOk false (p0 :: ps) ([] :: sps) = true) (hw : isWordPart p0 = true)
    (hrest : notExtending rest)
    (hnc : noCommentStart (renderName (p0 :: ps) ([] :: sps) ++ rest.take 1) = true)
    (hamb : NoAmbiguousBlank l.input)
    (htill : l.tillIn = false)
    (hbound : l.keys.contains (nameNew (p0 :: ps)) = true)
    (hlonger : ∀ st, collectParts l.input l.pos = .ok st →
      ∀ j, ps.length + 1 < j → j ≤ st.parts.length → isKeyAt l.keys st.parts j = false) :
    consumeName l = .ok (⟨.name, .name (nameNew (p0 :: ps))⟩,
      { l with pos := pre.length + (renderName (p0 :: ps) ([] :: sps)).length }) := by
  rw [hinp] at hamb
  obtain ⟨st, hst, htake, hlast⟩ := collect_roundtrip pre rest p0 ps sps hok hw hrest hnc hamb
  rw [← hinp, ← hpos] at hst
  have hlenle : ps.length + 1 ≤ st.parts.length := by
    have := congrArg List.length htake
    simp only [List.length_take, List.length_cons] at this
    omega
  have hkey : isKeyAt l.keys st.parts (ps.length + 1) = true := by
    rw [key_lookup_is_name_new, htake]; exact hbound
  obtain ⟨p, hp, hres⟩ := longest_match l st hst (Or.inl htill) (ps.length + 1) (by omega) hlenle hkey
    (hlonger st hst)
  simp only [Nat.add_sub_cancel] at hp
  rw [hlast] at hp
  cases hp
  rw [hres, htake]
  have hpos1 : 1 ≤ (renderName (p0 :: ps) ([] :: sps)).length := by
    have : p0 ≠ [] := by intro he; subst he; simp [isWordPart] at hw
    cases p0 with
    | nil => exact absurd rfl this
    | cons c w => simp [renderName]
  have : pre.length + (renderName (p0 :: ps) ([] :: sps)).length - 1 + 1 =
      pre.length + (renderName (p0 :: ps) ([] :: sps)).length := by omega
  rw [this]
  rfl

-- non-vacuity: scope {a-b: …}, input `(a  - b)*2` at position 1: the name `a-b`, cursor at 7
def exLx3 : Lx :=
  { input := [40, 97, 32, 32, 45, 32, 98, 41, 42, 50], pos := 1, start := none, unaryTests := false,
    between := false, typeName := false, tillIn := false, keys := [[97, 45, 98]] }
example : renderOk false [[97], [45], [98]] [[], [32, 32], [32]] = true ∧
    consumeName exLx3 = .ok (⟨.name, .name [97, 45, 98]⟩, { exLx3 with pos := 7 }) := by decide

/-- `bound_name_whole_any_flags`: `bound_name_resolves` for EVERY setting of the lexer's flags — `unary_tests`,
`between`, `type_name` (set by the parser at `between`, `instance of` / `:` / `<` / `,` / `->` and at the start of unary
tests) do not enter `consume_name`'s choice of the name at all, and in `till_in` mode (set where the variable of for /
some / every is expected) the bound name is returned whole as well, provided the word `in` is not a LATER part of the run
of name parts other than right after the name (then `in` ends the variable, which is this name).  Besides the cursor only
`till_in` may change; input, scope keys and the other flags are handed on as they were. -/
theorem bound_name_whole_any_flags (l : Lx) (pre rest p0 : List Nat) (ps sps : List (List Nat))
    (hinp : l.input = pre ++ (renderName (p0 :: ps) ([] :: sps) ++ rest)) (hpos : l.pos = pre.length)
    (hok : renderOk false (p0 :: ps) ([] :: sps) = true) (hw : isWordPart p0 = true)
    (hrest : notExtending rest)
    (hnc : noCommentStart (renderName (p0 :: ps) ([] :: sps) ++ rest.take 1) = true)
    (hamb : NoAmbiguousBlank l.input)
    (hin : l.tillIn = true → ∀ st, collectParts l.input l.pos = .ok st →
      (positionOfIn st.parts).filter (fun i => 0 < i) = none ∨ positionOfIn st.parts = some (ps.length + 1))
    (hbound : l.keys.contains (nameNew (p0 :: ps)) = true)
    (hlonger : ∀ st, collectParts l.input l.pos = .ok st →
      ∀ j, ps.length + 1 < j → j ≤ st.parts.length → isKeyAt l.keys st.parts j = false) :
    ∃ l', consumeName l = .ok (⟨.name, .name (nameNew (p0 :: ps))⟩, l') ∧
      l'.pos = pre.length + (renderName (p0 :: ps) ([] :: sps)).length ∧
      l'.input = l.input ∧ l'.keys = l.keys ∧ l'.start = l.start ∧
      l'.unaryTests = l.unaryTests ∧ l'.between = l.between ∧ l'.typeName = l.typeName := by
  have hamb' := hamb
  rw [hinp] at hamb'
  obtain ⟨st, hst, htake, hlast⟩ := collect_roundtrip pre rest p0 ps sps hok hw hrest hnc hamb'
  rw [← hinp, ← hpos] at hst
  have hlenle : ps.length + 1 ≤ st.parts.length := by
    have := congrArg List.length htake
    simp only [List.length_take, List.length_cons] at this
    omega
  have hkey : isKeyAt l.keys st.parts (ps.length + 1) = true := by
    rw [key_lookup_is_name_new, htake]; exact hbound
  have hpos1 : 1 ≤ (renderName (p0 :: ps) ([] :: sps)).length := by
    have : p0 ≠ [] := by intro he; subst he; simp [isWordPart] at hw
    cases p0 with
    | nil => exact absurd rfl this
    | cons c w => simp [renderName]
  have harith : pre.length + (renderName (p0 :: ps) ([] :: sps)).length - 1 + 1 =
      pre.length + (renderName (p0 :: ps) ([] :: sps)).length := by omega
  -- the regular path: the `till_in` tweak does not apply
  have regular : (l.tillIn = false ∨ (positionOfIn st.parts).filter (fun i => 0 < i) = none) →
      ∃ l', consumeName l = .ok (⟨.name, .name (nameNew (p0 :: ps))⟩, l') ∧
        l'.pos = pre.length + (renderName (p0 :: ps) ([] :: sps)).length ∧
        l'.input = l.input ∧ l'.keys = l.keys ∧ l'.start = l.start ∧
        l'.unaryTests = l.unaryTests ∧ l'.between = l.between ∧ l'.typeName = l.typeName := by
    intro htill
    obtain ⟨p, hp, hres⟩ := longest_match l st hst htill (ps.length + 1) (by omega) hlenle hkey (hlonger st hst)
    simp only [Nat.add_sub_cancel] at hp
    rw [hlast] at hp
    cases hp
    refine ⟨{ l with pos := pre.length + (renderName (p0 :: ps) ([] :: sps)).length - 1 + 1 }, ?_, ?_,
      rfl, rfl, rfl, rfl, rfl, rfl⟩
    · rw [hres, htake]; rfl
    · simp only; omega
  cases htl : l.tillIn with
  | false => exact regular (Or.inl htl)
  | true =>
    rcases hin htl st hst with hnone | hsome
    · exact regular (Or.inr hnone)
    · -- the variable of for / some / every: the name lasts till `in`, which stands right after it
      refine ⟨{ l with pos := pre.length + (renderName (p0 :: ps) ([] :: sps)).length - 1 + 1, tillIn := false }, ?_,
        ?_, rfl, rfl, rfl, rfl, rfl, rfl⟩
      · unfold consumeName
        rw [hst]
        unfold finishName
        have h2 : (if l.tillIn = true then (positionOfIn st.parts).filter (fun i => 0 < i) else none) =
            some (ps.length + 1) := by
          simp [htl, hsome]
        simp only [h2]
        rw [if_neg (by omega)]
        simp only [Nat.add_sub_cancel, hlast, htake]
        rfl
      · simp only; omega

-- non-vacuity: every flag set, scope {a b}, input `a b - 1 and c`: the name `a b`, cursor at 3, the other flags untouched
def exLx5 : Lx :=
  { input := [97, 32, 98, 32, 45, 32, 49, 32, 97, 110, 100, 32, 99], pos := 0, start := none, unaryTests := true,
    between := true, typeName := true, tillIn := true, keys := [[97, 32, 98]] }
example : renderOk false [[97], [98]] [[], [32]] = true ∧
    consumeName exLx5 = .ok (⟨.name, .name [97, 32, 98]⟩, { exLx5 with pos := 3 }) := by decide
-- the variable of `for`: `a b in c` in `till_in` mode with `a b` bound: the same name, the mode ends
def exLx6 : Lx := { exLx5 with input := [97, 32, 98, 32, 105, 110, 32, 99] }
example : consumeName exLx6 = .ok (⟨.name, .name [97, 32, 98]⟩, { exLx6 with pos := 3, tillIn := false }) := by decide

/-- The hypothesis about `in` is needed: in `till_in` mode a later `in` in the run of name parts cuts the run
there WITHOUT the scope look-up (`a b - 1 in c` gives the name `a b-1` although only `a b` is bound) — the shape of
the seeded change C10-18, which did the same for the flag `between` and the word `and`. The parser sets the mode only
where the variable of for / some / every is expected, so no bound name is read in it unless it is that variable. -/
theorem till_in_cuts_without_lookup :
    consumeName { exLx5 with input := [97, 32, 98, 32, 45, 32, 49, 32, 105, 110, 32, 99] } =
      .ok (⟨.name, .name [97, 32, 98, 45, 49]⟩,
        { exLx5 with input := [97, 32, 98, 32, 45, 32, 49, 32, 105, 110, 32, 99], pos := 7, tillIn := false }) := by decide

/-- `operator_when_unbound`: the word `w0` is bound (under its `Name::new` text), it is followed by optional white space and
an additional symbol `sym` that stands alone (no `->`, `**`, `//`, `/*`, `..`, `.5`), and no
longer prefix of the collected parts is bound.  Then `consume_name` returns the name `w0` with
the cursor just after it, and the next token is the operator of `sym` (`+` `-` `*` `/` `.`):
the same characters denote addition, subtraction, multiplication, division or a path. -/
theorem operator_when_unbound (l : Lx) (pre w0 blanks r : List Nat) (sym : Nat) (tt : TT)
    (hinp : l.input = pre ++ (renderName [w0] [[]] ++ (blanks ++ sym :: r))) (hpos : l.pos = pre.length)
    (hw : isWordPart w0 = true)
    (hbl : isBlanks blanks = true) (hop : opToken sym = some tt) (halone : standsAlone sym r.head?)
    (hamb : NoAmbiguousBlank l.input) (htill : l.tillIn = false)
    (hbound : l.keys.contains (nameNew [w0]) = true)
    (hlonger : ∀ st, collectParts l.input l.pos = .ok st →
      ∀ j, 1 < j → j ≤ st.parts.length → isKeyAt l.keys st.parts j = false) :
    ∃ l1, consumeName l = .ok (⟨.name, .name (nameNew [w0])⟩, l1) ∧ l1.pos = pre.length + w0.length ∧
      readNextToken l1 = .ok (tk tt, { l1 with pos := pre.length + w0.length + blanks.length + 1 }) := by
  have hsymb : isAdditionalNameSymbol sym = true := by
    unfold opToken at hop
    split at hop <;> first | rfl | cases hop
  have hrest : notExtending (blanks ++ sym :: r) := by
    intro ch hch
    cases blanks with
    | nil =>
      simp only [List.nil_append, List.head?_cons, Option.some.injEq] at hch
      subst hch
      exact sym_not_part hsymb
    | cons b bl =>
      simp only [List.cons_append, List.head?_cons, Option.some.injEq] at hch
      subst hch
      simp only [isBlanks, List.all_cons, Bool.and_eq_true, Bool.not_eq_true'] at hbl
      exact hbl.1.2
  have hok : renderOk false [w0] [[]] = true := by
    simp [renderOk, isBlanks, hw]
  have hnc : noCommentStart (renderName [w0] [[]] ++ (blanks ++ sym :: r).take 1) = true := by
    have hall : w0.all isNamePartChar = true := by
      simp only [isWordPart, Bool.and_eq_true] at hw; exact hw.2
    simp only [renderName, List.nil_append, List.append_nil]
    exact noCommentStart_word w0 _ hall (by cases blanks <;> simp)
  have hres := bound_name_resolves l pre (blanks ++ sym :: r) w0 [] [] hinp hpos hok hw hrest hnc hamb
    htill hbound (by simpa using hlonger)
  have hlen : (renderName [w0] [[]]).length = w0.length := by simp [renderName]
  rw [hlen] at hres
  refine ⟨_, hres, rfl, ?_⟩
  -- the next token
  have hdrop : l.input.drop (pre.length + w0.length) = blanks ++ sym :: r := by
    rw [hinp]
    simp [renderName]
  have hblws : blanks.all isWhitespace = true := by
    simp only [isBlanks, List.all_eq_true, Bool.and_eq_true] at hbl
    exact List.all_eq_true.mpr (fun c hc => (hbl c hc).1)
  have hskip := skipBlanks_blanks l.input (pre.length + w0.length) blanks sym r hdrop hblws
    (sym_not_ws' hsymb) (by
      intro ⟨h47, hh⟩
      subst h47
      simp only [standsAlone] at halone
      rcases hh with hh | hh
      · exact halone.1 hh
      · exact halone.2 hh)
  have hat : ∀ i, l.input[pre.length + w0.length + i]? = (blanks ++ sym :: r)[i]? := by
    intro i; rw [← hdrop, List.getElem?_drop]
  have hsym0 : l.input[pre.length + w0.length + blanks.length]? = some sym := by
    rw [hat]; simp
  have hsym1 : l.input[pre.length + w0.length + blanks.length + 1]? = r.head? := by
    have := hat (blanks.length + 1)
    rw [← Nat.add_assoc] at this
    rw [this, List.getElem?_append_right (by omega)]
    simp [List.head?_eq_getElem?]
  -- first the blanks are skipped, then the operator is read
  let l2 : Lx := { l with pos := pre.length + w0.length + blanks.length }
  have hskip2 : skipBlanks l2.input l2.pos = l2.pos := by
    have hd2 : l.input.drop (pre.length + w0.length + blanks.length) = [] ++ sym :: r := by
      rw [← List.drop_drop, hdrop]; simp
    have := skipBlanks_blanks l.input (pre.length + w0.length + blanks.length) [] sym r hd2 rfl
      (sym_not_ws' hsymb) (by
        intro ⟨h47, hh⟩
        subst h47
        simp only [standsAlone] at halone
        rcases hh with hh | hh
        · exact halone.1 hh
        · exact halone.2 hh)
    simpa using this
  have hop2 := readNextToken_op l2 sym tt hop hskip2 hsym0 (by rw [hsym1]; exact halone)
  -- `read_next_token` depends on the cursor only through `skipBlanks`
  have hsame : readNextToken { l with pos := pre.length + w0.length } = readNextToken l2 := by
    simp only [readNextToken, hskip, hskip2]
    rfl
  rw [hsame, hop2]

-- non-vacuity: scope {a, b}, input `a - b`: the name `a`, then the operator `-`
def exLx4 : Lx :=
  { input := [97, 32, 45, 32, 98], pos := 0, start := none, unaryTests := false,
    between := false, typeName := false, tillIn := false, keys := [[97], [98]] }
example : consumeName exLx4 = .ok (⟨.name, .name [97]⟩, { exLx4 with pos := 1 }) ∧
    readNextToken { exLx4 with pos := 1 } = .ok (tk .minus, { exLx4 with pos := 3 }) := by decide

/-! ## The character classes of names are the grammar's

`Dmn.Gen.NameChars` is regenerated from `lexer.rs` on every run (`translate/namechars.py`: the
`matches!` patterns, or a range table with `..` / `..=`, of `is_name_start_char`,
`is_name_part_char`, `is_additional_name_symbol`, `is_whitespace`, `is_vertical_space`, as sorted,
merged closed ranges).  `Dmn.NameGrammar` is written out from rules 28-30, 61, 62 of the DMN
specification.  For EVERY code point the three agree: the code (as regenerated), the hand-written
lexer model the other theorems are about, and the grammar.  An edit of a range in `lexer.rs`
— an off-by-one at the end of a range, a dropped or added alternative — breaks these obligations,
and the correspondence family `name-char-ranges` shows the bound name that no longer resolves. -/

open Dmn.Gen.NameChars Dmn.NameGrammar in
/-- `is_name_start_char` (regenerated table), the lexer model and grammar rule 28 are one set. -/
theorem name_start_char_is_grammar (c : Nat) :
    inRanges nameStartRanges c = nameStartChar c ∧ isNameStartChar c = nameStartChar c := by
  constructor
  · rw [Bool.eq_iff_iff]
    simp only [nameStartChar, inRanges, nameStartRanges, nameStartCharRanges, List.any_cons, List.any_nil,
      Bool.or_false, Bool.or_eq_true, Bool.and_eq_true, decide_eq_true_eq]
  · rw [Bool.eq_iff_iff]
    simp only [isNameStartChar, nameStartChar, inRanges, nameStartCharRanges, List.any_cons, List.any_nil,
      Bool.or_false, Bool.or_eq_true, Bool.and_eq_true, decide_eq_true_eq, beq_iff_eq]
    omega

open Dmn.Gen.NameChars Dmn.NameGrammar in
/-- `is_name_part_char` (regenerated table), the lexer model and grammar rule 29 are one set. -/
theorem name_part_char_is_grammar (c : Nat) :
    inRanges namePartRanges c = namePartChar c ∧ isNamePartChar c = namePartChar c := by
  constructor
  · rw [Bool.eq_iff_iff]
    simp only [namePartChar, nameStartChar, inRanges, namePartRanges, nameStartCharRanges, namePartExtraRanges,
      List.any_cons, List.any_nil, Bool.or_false, Bool.or_eq_true, Bool.and_eq_true, decide_eq_true_eq]
    omega
  · rw [Bool.eq_iff_iff]
    simp only [isNamePartChar, isNameStartChar, isDigit, namePartChar, nameStartChar, inRanges, nameStartCharRanges,
      namePartExtraRanges, List.any_cons, List.any_nil, Bool.or_false, Bool.or_eq_true, Bool.and_eq_true,
      decide_eq_true_eq, beq_iff_eq]
    omega

open Dmn.Gen.NameChars Dmn.NameGrammar in
/-- The additional name symbols (rule 30) and white space (rules 61, 62), likewise. -/
theorem name_symbols_and_white_space_are_grammar (c : Nat) :
    (inRanges additionalSymbolRanges c = additionalNameSymbol c ∧ isAdditionalNameSymbol c = additionalNameSymbol c) ∧
    (inRanges whitespaceRanges c = whiteSpace c ∧ isWhitespace c = whiteSpace c) ∧
    (inRanges verticalSpaceRanges c = verticalSpace c ∧ isVerticalSpace c = verticalSpace c) := by
  refine ⟨⟨?_, ?_⟩, ⟨?_, ?_⟩, ⟨?_, ?_⟩⟩
  · rw [Bool.eq_iff_iff]
    simp only [additionalNameSymbol, inRanges, additionalSymbolRanges, List.any_cons, List.any_nil, Bool.or_false,
      Bool.or_eq_true, Bool.and_eq_true, decide_eq_true_eq, beq_iff_eq]
    omega
  · rw [Bool.eq_iff_iff]
    simp only [isAdditionalNameSymbol, additionalNameSymbol, Bool.or_eq_true, beq_iff_eq]
  · rw [Bool.eq_iff_iff]
    simp only [whiteSpace, verticalSpace, whiteSpaceExtraRanges, inRanges, whitespaceRanges, List.any_cons, List.any_nil,
      Bool.or_false, Bool.or_eq_true, Bool.and_eq_true, decide_eq_true_eq]
    omega
  · rw [Bool.eq_iff_iff]
    simp only [isWhitespace, isVerticalSpace, whiteSpace, verticalSpace, whiteSpaceExtraRanges, inRanges, List.any_cons,
      List.any_nil, Bool.or_false, Bool.or_eq_true, Bool.and_eq_true, decide_eq_true_eq, beq_iff_eq]
    omega
  · rw [Bool.eq_iff_iff]
    simp only [verticalSpace, inRanges, verticalSpaceRanges, List.any_cons, List.any_nil, Bool.or_false,
      Bool.and_eq_true, decide_eq_true_eq]
  · rfl

/-! ## A declared name and its references

A name gets into a scope either as `Name::new(parts)` or through `parse_longest_name(text)`
(declared names of the model layer, keys of the server's input): the lexer run on the declaration
with NO key in the scope.  Whatever the spelling of the declaration, the token carries the
`Name::new` text of its parts — the very text under which `bound_name_resolves` finds every spelling
of a reference. -/

/-- Lexing ANY legal spelling of a name with an empty scope — what `parse_longest_name` does —
yields one token carrying `Name::new` of the parts, the whole text being consumed by the part
collector.  (First word `item`: the filter-variable tweak cuts the name, reported as D7; a
comment opener ends a name.) -/
theorem declared_name_is_name_new (l : Lx) (p0 : List Nat) (ps sps : List (List Nat))
    (hinp : l.input = renderName (p0 :: ps) ([] :: sps)) (hpos : l.pos = 0) (hkeys : l.keys = [])
    (hok : renderOk false (p0 :: ps) ([] :: sps) = true) (hw : isWordPart p0 = true)
    (hnc : noCommentStart (renderName (p0 :: ps) ([] :: sps)) = true)
    (hamb : NoAmbiguousBlank l.input) (htill : l.tillIn = false) (hitem : p0 ≠ kwItem) :
    ∃ tt l', consumeName l = .ok (⟨tt, .name (nameNew (p0 :: ps))⟩, l') ∧
      (tt = .name ∨ tt = .nameDateTime ∨ tt = .builtInTypeName) := by
  have hne : p0 ≠ [] := by intro he; subst he; simp [isWordPart] at hw
  obtain ⟨c0, w0, rfl⟩ : ∃ c0 w0, p0 = c0 :: w0 := by
    cases p0 with
    | nil => exact absurd rfl hne
    | cons c w => exact ⟨c, w, rfl⟩
  have hc0 : isNamePartChar c0 = true := by
    simp only [isWordPart, List.all_cons, Bool.and_eq_true] at hw
    exact hw.2.1
  have hat : l.input[l.pos]? = some c0 := by rw [hinp, hpos]; simp [renderName]
  obtain ⟨st, hst⟩ := collectParts_ok hat
  have hsplit := collectParts_eq_split hamb (fun ch hch => by rw [hat] at hch; cases hch; exact hc0) hst
  have hsr := split_render ((c0 :: w0) :: ps) ([] :: sps) false 0 [] hok (by intro ch h; simp at h)
    (by simpa using hnc)
  have hparts : st.parts = (c0 :: w0) :: ps := by
    rw [hsplit.1, hpos, hinp, List.drop_zero]
    unfold splitParts
    have := hsr
    simp only [List.append_nil] at this
    rw [this]
    simp [splitGo, ends_fst]
  obtain ⟨tt, l', h1, _, h3⟩ := unbound_whole_name l st hst
    (by rw [hparts]; simpa using hitem) (Or.inl htill)
    (by intro j _ _; rw [key_lookup_is_name_new, hkeys]; rfl)
  exact ⟨tt, l', by rw [h1, hparts], h3⟩

-- `Profit /Loss` (the witness of seeded change C10-17) declares the name `Profit/Loss`
def exDeclared : Lx :=
  { input := [80, 114, 111, 102, 105, 116, 32, 47, 76, 111, 115, 115], pos := 0, start := none, unaryTests := false,
    between := false, typeName := false, tillIn := false, keys := [] }
example : exDeclared.input = renderName [[80, 114, 111, 102, 105, 116], [47], [76, 111, 115, 115]] [[], [32], []] ∧
    renderOk false [[80, 114, 111, 102, 105, 116], [47], [76, 111, 115, 115]] [[], [32], []] = true ∧
    nameNew [[80, 114, 111, 102, 105, 116], [47], [76, 111, 115, 115]] = [80, 114, 111, 102, 105, 116, 47, 76, 111, 115, 115] ∧
    (consumeName exDeclared).isPanic = false := by decide

/-! ## Keywords before names: the arms of `read_next_token`, as they stand in lexer.rs now

`translate/keywords.py` regenerates `Dmn.Gen.Keywords.arms` from the `match` of
`Lexer::read_next_token` on every run: per arm the literal characters its pattern begins with, the
conditions of its guard (a flag of the lexer, a cell of the look-ahead buffer being a blank / a
member of a `matches!` set / a digit / a name start character, `is_next_character`), and what a
simple body does.  `Dmn/Model/LexerArms.lean` says what such a table means.  The theorems below lift
`bound_name_whole_any_flags` from `consume_name` to `next_token`.  What the code guarantees: the
keyword arms are tried BEFORE the name arm and do not consult the scope, but each of them fires only
when its word is the whole first word at the cursor (ended by a blank, a comment, the end of input,
or — for `true false null not` / `function list context range` — by a separator / by `(` or `<` after
optional white space).  So a name is safe from them exactly when no arm whose word is the name's
FIRST word fires; later words may be anything (`x and y`, `rate of return` resolve when bound).
Finding F63-keyword-name delimits it: a bound name `list`, `range`, `context` followed by `<` (or
`function` followed by `(`) is the keyword. -/

open Dmn.Gen.Keywords

/-- `read_next_token_is_arms` (the tie to the code): for every lexer state, the first arm of the
regenerated table that fires after the gap — and what its body does, as far as the table describes
it (every body except numbers, strings and the undefined-character arm) — is what the hand-written
model `readNextToken` answers.  An arm added, dropped, moved, or given another word, follower,
guard, token or cursor advance in lexer.rs breaks this obligation. -/
theorem read_next_token_is_arms (l : Lx) (a : Arm) (r : Out (Token × Lx))
    (ha : firstArm (afterGap l) (readBuf l.input (afterGap l).pos) arms = some a)
    (hr : runBody (afterGap l) a.body = some r) : readNextToken l = r :=
  readNextToken_is_arms l a r ha hr

-- non-vacuity: `some x` fires the arm of `some`; `x` fires the name arm
example : firstArm (afterGap { exLx4 with input := [115, 111, 109, 101, 32, 120] })
      (readBuf [115, 111, 109, 101, 32, 120] 0) arms =
      some ⟨[115, 111, 109, 101], [.cellIn 4 [32]], .token Dmn.Gen.Lalr.TokenType_Some none 4 []⟩ ∧
    (firstArm (afterGap exLx4) (readBuf exLx4.input 0) arms).map (·.body) = some .name := by decide

/-- `keyword_arms_guard_their_word` (facts about the regenerated table, decided): every arm tried
before the name arm either begins with a character that starts no name (or demands a digit), or is a
keyword arm — its word consists of name part characters, fits the buffer, and the arm has a
condition on what follows the word DIRECTLY that no name part character satisfies; the arm after
them is the name arm, guarded by `is_name_start_char` only; every token an arm hands out is a
`TokenType` of the regenerated enum. -/
theorem keyword_arms_guard_their_word :
    armsBeforeName.all (fun a => (isKwArm a && kwArmOk a) || nonNameArm a) = true ∧
    armsFromName.head? = some ⟨[], [.cellNameStart 0], .name⟩ ∧
    arms.all (fun a => match a.body with
      | .token tt _ _ _ => (TT.ofCode? tt).isSome
      | _ => true) = true := by decide

/-- `keyword_needs_whole_word`: an arm whose pattern begins with a name start character (a keyword
or literal arm) fires only when its word is the whole first word at the cursor: the text after the
gap begins with the word, and what follows the word is the end of input, white space, or a
character that is no name part character (`iffy`, `order`, `nullable`, `listing<`, `trueish` are
names). -/
theorem keyword_needs_whole_word (l : Lx) (a : Arm)
    (ha : firstArm (afterGap l) (readBuf l.input (afterGap l).pos) arms = some a)
    (hk : isKwArm a = true) (hbefore : a.body ≠ .name) :
    startsWith (l.input.drop (afterGap l).pos) a.word = true ∧
    wordEnds l.input ((afterGap l).pos + a.word.length) := by
  obtain ⟨hmem, hf⟩ := firstArm_mem ha
  have hok : kwArmOk a = true := by
    rw [arms_split] at hmem
    rcases List.mem_append.mp hmem with h | h
    · have := List.all_eq_true.mp keyword_arms_guard_their_word.1 a h
      simp only [Bool.or_eq_true, Bool.and_eq_true] at this
      rcases this with h1 | h1
      · exact h1.2
      · exfalso
        unfold isKwArm at hk
        unfold nonNameArm at h1
        split at hk
        · rename_i c tl heq
          rw [heq] at h1
          simp [hk] at h1
        · cases hk
    · -- the name arm and the arms after it: their words are empty
      exfalso
      have hall : armsFromName.all (fun a => a.body == .name || !isKwArm a) = true := by decide
      have := List.all_eq_true.mp hall a h
      simp only [Bool.or_eq_true, beq_iff_eq, hk] at this
      rcases this with h1 | h1
      · exact hbefore h1
      · cases h1
  exact fires_word (afterGap l) a hok hf

-- non-vacuity: at `if x` the arm of `if` fires, its word is the first word
example : (firstArm (afterGap { exLx4 with input := [105, 102, 32, 120] }) (readBuf [105, 102, 32, 120] 0) arms).map
    (fun a => (a.word, isKwArm a)) = some ([105, 102], true) := by decide

/-- `keyword_before_name` (keywords are recognised before names, whatever the scope binds): when an
arm with a token body is the first to fire, `read_next_token` hands out that token and moves the
cursor as the arm says — for EVERY set of scope keys, also one that binds the very word. -/
theorem keyword_before_name (l : Lx) (a : Arm) (tt : Int) (p : Option Bool) (n : Nat) (cl : List Flag)
    (ha : firstArm (afterGap l) (readBuf l.input (afterGap l).pos) arms = some a)
    (hb : a.body = .token tt p n cl) (ks : List (List Nat)) :
    ∃ t l2, TT.ofCode? tt = some t ∧ readNextToken l = .ok (⟨t, payloadOf p⟩, l2) ∧
      readNextToken { l with keys := ks } =
        .ok (⟨t, payloadOf p⟩, { l2 with keys := ks }) ∧
      l2.pos = (afterGap l).pos + n := by
  obtain ⟨hmem, _⟩ := firstArm_mem ha
  have hsome := List.all_eq_true.mp keyword_arms_guard_their_word.2.2 a hmem
  rw [hb] at hsome
  simp only at hsome
  obtain ⟨t, ht⟩ := Option.isSome_iff_exists.mp hsome
  refine ⟨t, cl.foldl clearFlag { afterGap l with pos := (afterGap l).pos + n }, ht, ?_, ?_, ?_⟩
  · apply readNextToken_is_arms l a _ ha
    rw [hb]; simp only [runBody, ht]; try rfl
  · have ha' : firstArm (afterGap { l with keys := ks }) (readBuf l.input (afterGap { l with keys := ks }).pos) arms
        = some a := by
      have := firstArm_keys (afterGap l) (readBuf l.input (afterGap l).pos) ks arms
      rw [ha] at this
      exact this
    have := readNextToken_is_arms { l with keys := ks } a
      (.ok (⟨t, payloadOf p⟩,
        cl.foldl clearFlag { afterGap { l with keys := ks } with pos := (afterGap { l with keys := ks }).pos + n }))
      ha' (by rw [hb]; simp only [runBody, ht]; try rfl)
    have hfold : ∀ (cl : List Flag) (x : Lx), cl.foldl clearFlag { x with keys := ks } =
        { cl.foldl clearFlag x with keys := ks } := by
      intro cl
      induction cl with
      | nil => intro x; rfl
      | cons f cl ih => intro x; simp only [List.foldl_cons]; rw [← ih]; cases f <;> rfl
    rw [this, ← hfold cl { afterGap l with pos := (afterGap l).pos + n }]
    rfl
  · have hpos : ∀ (cl : List Flag) (x : Lx), (cl.foldl clearFlag x).pos = x.pos := by
      intro cl
      induction cl with
      | nil => intro x; rfl
      | cons f cl ih => intro x; simp only [List.foldl_cons]; rw [ih]; cases f <;> rfl
    rw [hpos]

/-- `keyword_named_bound_name_counterexample` (finding F63-keyword-name): the scope binds `list`; at
`list<` the lexer hands out the keyword, not the bound name — `keyword_before_name` at a witness.
Followed by anything but `<` the same bound name is a name (`list + 1`). -/
theorem keyword_named_bound_name_counterexample :
    nextToken { exLx4 with input := [108, 105, 115, 116, 60, 49], keys := [[108, 105, 115, 116]] } =
      .ok (tk .list, { exLx4 with input := [108, 105, 115, 116, 60, 49], keys := [[108, 105, 115, 116]], pos := 4 }) ∧
    nextToken { exLx4 with input := [108, 105, 115, 116, 32, 43, 32, 49], keys := [[108, 105, 115, 116]] } =
      .ok (⟨.name, .name [108, 105, 115, 116]⟩,
        { exLx4 with input := [108, 105, 115, 116, 32, 43, 32, 49], keys := [[108, 105, 115, 116]], pos := 4 }) := by
  decide

/-- `bound_name_is_next_token` (the lift of `bound_name_whole_any_flags` to `next_token`): a bound
name — any arrangement of words and additional symbols that starts with a word beginning with a name
start character — written with any legal spacing at the cursor is handed out by `next_token` as ONE
`Name` token carrying its `Name::new` text, the cursor just after it, for every setting of the
flags, PROVIDED no arm of `read_next_token` whose word is the name's first word fires there
(`hkw`; vacuous when the first word is not the word of an arm: `bound_nonkeyword_name_is_next_token`)
— outside finding F63-keyword-name this is the full statement: later words of the name may be
keywords.  After the token `type_name` and `unary_tests` are cleared, the other flags, the input
and the scope are as before. -/
theorem bound_name_is_next_token (l : Lx) (pre rest p0 : List Nat) (ps sps : List (List Nat))
    (hinp : l.input = pre ++ (renderName (p0 :: ps) ([] :: sps) ++ rest)) (hpos : l.pos = pre.length)
    (hstart : l.start = none)
    (hok : renderOk false (p0 :: ps) ([] :: sps) = true) (hw : isWordPart p0 = true)
    (hfirst : ∀ c, p0.head? = some c → isNameStartChar c = true)
    (hrest : notExtending rest)
    (hnc : noCommentStart (renderName (p0 :: ps) ([] :: sps) ++ rest.take 1) = true)
    (hamb : NoAmbiguousBlank l.input)
    (hin : l.tillIn = true → ∀ st, collectParts l.input l.pos = .ok st →
      (positionOfIn st.parts).filter (fun i => 0 < i) = none ∨ positionOfIn st.parts = some (ps.length + 1))
    (hbound : l.keys.contains (nameNew (p0 :: ps)) = true)
    (hlonger : ∀ st, collectParts l.input l.pos = .ok st →
      ∀ j, ps.length + 1 < j → j ≤ st.parts.length → isKeyAt l.keys st.parts j = false)
    (hkw : ∀ a ∈ arms, a.word = p0 → armFires l (readBuf l.input l.pos) a = false) :
    ∃ l', nextToken l = .ok (⟨.name, .name (nameNew (p0 :: ps))⟩, l') ∧
      l'.pos = pre.length + (renderName (p0 :: ps) ([] :: sps)).length ∧
      l'.input = l.input ∧ l'.keys = l.keys ∧ l'.start = none ∧
      l'.unaryTests = false ∧ l'.between = l.between ∧ l'.typeName = false := by
  obtain ⟨l1, hcn, h1, h2, h3, h4, _, h6, _⟩ :=
    bound_name_whole_any_flags l pre rest p0 ps sps hinp hpos hok hw hrest hnc hamb hin hbound hlonger
  have hne : p0 ≠ [] := by intro he; subst he; simp [isWordPart] at hw
  obtain ⟨c0, w0, hp0⟩ : ∃ c0 w0, p0 = c0 :: w0 := by
    cases p0 with
    | nil => exact absurd rfl hne
    | cons c w => exact ⟨c, w, rfl⟩
  have hc0 : isNameStartChar c0 = true := hfirst c0 (by rw [hp0]; rfl)
  have hd : l.input.drop l.pos = p0 ++ (renderName ps sps ++ rest) := by
    rw [hinp, hpos]
    simp [renderName, List.append_assoc]
  have hgood : p0.all (fun c => isNamePartChar c && !isWhitespace c) = true := by
    apply List.all_eq_true.mpr
    intro c hc
    have hpart : isNamePartChar c = true := by
      simp only [isWordPart, Bool.and_eq_true] at hw
      exact List.all_eq_true.mp hw.2 c hc
    have hmem : c ∈ l.input := by
      rw [hinp]
      simp only [renderName, List.nil_append, List.mem_append]
      exact Or.inr (Or.inl (Or.inl hc))
    have := hamb c hmem
    cases hws : isWhitespace c with
    | false => simp [hpart]
    | true => exact absurd ⟨hws, hpart⟩ this
  have hok' : renderOk true ps sps = true := by
    simp only [renderOk, hw, Bool.and_eq_true] at hok
    exact hok.2
  have hrest' : ∀ c, (renderName ps sps ++ rest).head? = some c → isNamePartChar c = false :=
    head_not_part ps sps rest hok' hrest
  have hrd := readNextToken_name_arm l p0 (renderName ps sps ++ rest) c0 w0
    keyword_arms_guard_their_word.1 keyword_arms_guard_their_word.2.1 hd hp0 hc0 hgood hrest' hkw
  refine ⟨{ l1 with typeName := false, unaryTests := false }, ?_, h1, h2, h3, by simp [h4, hstart], rfl, h6, rfl⟩
  unfold nextToken
  rw [hstart]
  simp only [hrd, nameArm, hcn]

/-- `bound_nonkeyword_name_is_next_token` (the property's quantifier): when the FIRST word of the
bound name is not the word of any arm of `read_next_token` — the keywords and literals the lexer
knows, regenerated — the name is the next token. -/
theorem bound_nonkeyword_name_is_next_token (l : Lx) (pre rest p0 : List Nat) (ps sps : List (List Nat))
    (hinp : l.input = pre ++ (renderName (p0 :: ps) ([] :: sps) ++ rest)) (hpos : l.pos = pre.length)
    (hstart : l.start = none)
    (hok : renderOk false (p0 :: ps) ([] :: sps) = true) (hw : isWordPart p0 = true)
    (hfirst : ∀ c, p0.head? = some c → isNameStartChar c = true)
    (hrest : notExtending rest)
    (hnc : noCommentStart (renderName (p0 :: ps) ([] :: sps) ++ rest.take 1) = true)
    (hamb : NoAmbiguousBlank l.input)
    (hin : l.tillIn = true → ∀ st, collectParts l.input l.pos = .ok st →
      (positionOfIn st.parts).filter (fun i => 0 < i) = none ∨ positionOfIn st.parts = some (ps.length + 1))
    (hbound : l.keys.contains (nameNew (p0 :: ps)) = true)
    (hlonger : ∀ st, collectParts l.input l.pos = .ok st →
      ∀ j, ps.length + 1 < j → j ≤ st.parts.length → isKeyAt l.keys st.parts j = false)
    (hkw : p0 ∉ arms.map (·.word)) :
    ∃ l', nextToken l = .ok (⟨.name, .name (nameNew (p0 :: ps))⟩, l') ∧
      l'.pos = pre.length + (renderName (p0 :: ps) ([] :: sps)).length ∧
      l'.input = l.input ∧ l'.keys = l.keys ∧ l'.start = none ∧
      l'.unaryTests = false ∧ l'.between = l.between ∧ l'.typeName = false :=
  bound_name_is_next_token l pre rest p0 ps sps hinp hpos hstart hok hw hfirst hrest hnc hamb hin hbound hlonger
    (fun a ha hwa => absurd (hwa ▸ List.mem_map_of_mem (f := (·.word)) ha) hkw)

-- non-vacuity: scope {x and y}, input `x and y + 1` with every flag set: one name token although `and` is a keyword;
-- `x` is not the word of an arm
def exLx7 : Lx :=
  { input := [120, 32, 97, 110, 100, 32, 121, 32, 43, 32, 49], pos := 0, start := none, unaryTests := true,
    between := true, typeName := true, tillIn := false, keys := [[120, 32, 97, 110, 100, 32, 121]] }
example : renderOk false [[120], [97, 110, 100], [121]] [[], [32], [32]] = true ∧
    [120] ∉ arms.map (·.word) ∧
    nextToken exLx7 = .ok (⟨.name, .name [120, 32, 97, 110, 100, 32, 121]⟩,
      { exLx7 with pos := 7, typeName := false, unaryTests := false }) := by decide

end Dmn.Lexer
