import Dmn.Lemmas.TemporalLit
import Dmn.Lemmas.TemporalGrammar
import Dmn.Lemmas.TemporalCanon
import Dmn.Lemmas.TemporalZone
import Dmn.Lemmas.TemporalMachineOps
import Dmn.Lemmas.TemporalLocal

/-!
# C14 — temporal literals denote exactly what is written and print back

About `Dmn.Temporal` (model of the literal recognisers, validators and `Display` printers of
`feel/src/temporal/*`).  `zk` is the zone-database parameter ("this name is known").
Fractional seconds are exact in the model and, since the repair of F23-f64, in the code
(`fraction_to_nanoseconds`); the correspondence run compares them on every case.

Where the unchanged code violates the full statement, the full statement is kept in a comment,
`…_partial` carries the excluding hypothesis and `…_counterexample` proves the violation at a
witness that the correspondence run re-observes on the real code.
-/

namespace Dmn.C14
open Dmn.Cal Dmn.Temporal

/-! ## Round trips: `parse (print v) = v` -/

/-- The text of a date reads back as that date, for every valid date of every year
−999999999…999999999 (full strength since the repair of F13-lit-year and F13-print-year). -/
theorem date_roundtrip (d : Date) (hv : isValidDate d.y d.m d.d = true) :
    parseDate (printDate d) = some d :=
  parseDate_printDate d hv

example : isValidDate (-999999999) 2 28 = true ∧ isValidDate 0 2 29 = true := by decide

/-- Regression witnesses: year 999 prints as `0999-01-01`, year −1 as `-0001-01-01`; both read
back. -/
theorem date_roundtrip_small_years :
    parseDate (printDate ⟨999, 1, 1⟩) = some ⟨999, 1, 1⟩ ∧
    printDate ⟨-1, 1, 1⟩ = ['-', '0', '0', '0', '1', '-', '0', '1', '-', '0', '1'] ∧
    parseDate (printDate ⟨-1, 1, 1⟩) = some ⟨-1, 1, 1⟩ ∧
    parseDate ['0', '0', '0', '0', '-', '0', '1', '-', '0', '1'] = some ⟨0, 1, 1⟩ := by decide

/-- The text of a time (0–9 fraction digits, any readable zone: UTC, local, a known name, every
non-zero offset −14:59:59…+14:59:59) reads back as that time: fraction to the nanosecond, offset
with its sign and seconds, zone name. (Full strength for offsets since the repair of F13-sign.) -/
theorem time_roundtrip (zk : List Char → Bool) (t : Time)
    (hv : isValidTime t.h t.mi t.s = true) (hns : t.ns < 1000000000)
    (hz : ZoneReadable zk t.z) : parseTime zk (printTime t) = some t :=
  parseTime_printTime zk t hv hns hz

example : ZoneReadable (fun _ => true) (.offset (-53999)) ∧ ZoneReadable (fun _ => true) (.offset (-1)) ∧
    ZoneReadable (fun _ => true) (.zone ['E', 't', 'c', '/', 'U', 'T', 'C']) := by
  refine ⟨⟨by decide, by decide, by decide⟩, ⟨by decide, by decide, by decide⟩,
    by decide, by decide, rfl⟩

/-- Regression witness of F13-sign: `10:00:00-00:30` prints with its sign and reads back. -/
theorem time_roundtrip_small_negative_offset :
    printTime ⟨10, 0, 0, 0, .offset (-1800)⟩ = ['1', '0', ':', '0', '0', ':', '0', '0', '-', '0', '0', ':', '3', '0'] ∧
    parseTime (fun _ => true) (printTime ⟨10, 0, 0, 0, .offset (-1800)⟩) =
      some ⟨10, 0, 0, 0, .offset (-1800)⟩ := by decide


/-- The text of a date and time reads back (full strength, as for dates and times). -/
theorem datetime_roundtrip (zk : List Char → Bool) (dt : DateTime)
    (hd : isValidDate dt.date.y dt.date.m dt.date.d = true)
    (hv : isValidTime dt.time.h dt.time.mi dt.time.s = true)
    (hns : dt.time.ns < 1000000000) (hz : ZoneReadable zk dt.time.z) :
    parseDateTime zk (printDateTime dt) = some dt :=
  parseDateTime_printDateTime zk dt hd hv hns hz

example : parseDateTime (fun _ => true)
    (printDateTime ⟨⟨2021, 2, 28⟩, ⟨23, 59, 59, 999999999, .offset (-18000)⟩⟩) =
    some ⟨⟨2021, 2, 28⟩, ⟨23, 59, 59, 999999999, .offset (-18000)⟩⟩ := by decide

/-- Every years-and-months duration of the representable range reads back (`i64::MIN` months is
denoted by no well-formed literal: finding F25-dur-wrap). -/
theorem ymdur_roundtrip (n : Int) (h0 : i64Min < n) (h1 : n ≤ i64Max) :
    parseYmDur (printYmDur n) = .ok n :=
  parseYmDur_printYmDur n h0 h1

example : i64Min < -9223372036854775807 ∧ parseYmDur (printYmDur (-9223372036854775807)) = .ok (-9223372036854775807) := by
  decide

/-- Every days-and-time duration whose day count fits `u64` (the largest literal) reads back, to
the nanosecond and with its sign. -/
theorem dtdur_roundtrip (n : Int) (hfit : n.natAbs / 86400000000000 ≤ u64Max) :
    parseDtDur (printDtDur n) = .ok n :=
  parseDtDur_printDtDur n hfit

example : parseDtDur (printDtDur (-93784500000001)) = .ok (-93784500000001) := by decide

/-- `duration("…")` tries the years-and-months form first: both round trips go through it. -/
theorem duration_roundtrip (n : Int) :
    (i64Min < n → n ≤ i64Max → bifDuration (printYmDur n) = .ymDur n) := by
  intro h0 h1
  unfold bifDuration
  rw [ymdur_roundtrip n h0 h1]

/-! ## Normal form of durations -/

/-- The printed components are in range (hours < 24, minutes < 60, seconds < 60) and add up to
the total: `PT36H ↦ P1DT12H`. -/
theorem dur_normal_form (n : Int) :
    let a := n.natAbs
    (a % 86400000000000) / 3600000000000 < 24 ∧ (a % 3600000000000) / 60000000000 < 60 ∧
    (a % 60000000000) / 1000000000 < 60 ∧
    (a / 86400000000000) * 86400000000000 + ((a % 86400000000000) / 3600000000000) * 3600000000000 +
      ((a % 3600000000000) / 60000000000) * 60000000000 + ((a % 60000000000) / 1000000000) * 1000000000 +
      a % 1000000000 = a :=
  printDtDur_components n

/-- `PT36H` reads as 36 hours and prints as `P1DT12H`; `P14M` prints as `P1Y2M`. -/
theorem dur_normal_form_instances :
    parseDtDur ['P', 'T', '3', '6', 'H'] = .ok 129600000000000 ∧
    printDtDur 129600000000000 = ['P', '1', 'D', 'T', '1', '2', 'H'] ∧
    parseYmDur ['P', '1', '4', 'M'] = .ok 14 ∧
    printYmDur 14 = ['P', '1', 'Y', '2', 'M'] := by decide

/-- Years-and-months normal form: months below 12, total preserved. -/
theorem ymdur_normal_form (n : Int) : n.natAbs % 12 < 12 ∧ (n.natAbs / 12) * 12 + n.natAbs % 12 = n.natAbs := by
  omega

/-! ## `print (parse s)` is the canonical text of the value -/

/-- Whatever text `date("…")` accepts, the text of its value reads back as the same value: all the
texts of one date (`-0000-01-01`, `0000-01-01`) print as one text, a fixed point of print ∘ parse. -/
theorem date_print_parse_canonical (cs : List Char) (d : Date) (h : parseDate cs = some d) :
    parseDate (printDate d) = some d :=
  parseDate_canonical h

/-- The same for times: `10:00:00.50+02:00:00`, `10:00:00.5000000001+02:00` and `10:00:00.5+02:00`
are one value and print as the last text; `…+00:00` prints as `…Z`. -/
theorem time_print_parse_canonical (zk : List Char → Bool) (cs : List Char) (t : Time)
    (h : parseTime zk cs = some t) : parseTime zk (printTime t) = some t :=
  parseTime_canonical zk h

example : (parseTime (fun _ => true) ['1', '0', ':', '0', '0', ':', '0', '0', '.', '5', '0', '+', '0', '2', ':', '0', '0', ':', '0', '0']).map printTime =
    some ['1', '0', ':', '0', '0', ':', '0', '0', '.', '5', '+', '0', '2', ':', '0', '0'] ∧
    (parseTime (fun _ => true) ['1', '0', ':', '0', '0', ':', '0', '0', '+', '0', '0', ':', '0', '0']).map printTime =
    some ['1', '0', ':', '0', '0', ':', '0', '0', 'Z'] := by decide

theorem datetime_print_parse_canonical (zk : List Char → Bool) (cs : List Char) (dt : DateTime)
    (h : parseDateTime zk cs = some dt) : parseDateTime zk (printDateTime dt) = some dt :=
  parseDateTime_canonical zk h

/-- Years-and-months durations: `P14M`, `P1Y2M`, `P0Y14M` are one value, printed `P1Y2M`. -/
theorem ymdur_print_parse_canonical (cs : List Char) (n : Int) (h : parseYmDur cs = .ok n) :
    parseYmDur (printYmDur n) = .ok n :=
  parseYmDur_canonical h

-- FULL STATEMENT (not provable of the current code, finding F28-dtd-huge):
--   parseDtDur cs = .ok n → parseDtDur (printDtDur n) = .ok n
/-- Days-and-time durations: whatever text is accepted, the normal form of its value reads back as the
same value — when the days of the normal form fit `u64` (they do unless the components of the text
add up to more than `u64::MAX` days). -/
theorem dtdur_print_parse_canonical_partial (cs : List Char) (n : Int) (_h : parseDtDur cs = .ok n)
    (hfit : n.natAbs / 86400000000000 ≤ u64Max) : parseDtDur (printDtDur n) = .ok n :=
  parseDtDur_printDtDur n hfit

/-- `P18446744073709551615DT24H` is accepted; its normal form `P18446744073709551616D` is not
(finding F28-dtd-huge). -/
theorem dtdur_print_parse_canonical_counterexample :
    parseDtDur ['P', '1', '8', '4', '4', '6', '7', '4', '4', '0', '7', '3', '7', '0', '9', '5', '5', '1', '6', '1', '5', 'D', 'T', '2', '4', 'H'] =
      .ok 1593798687968505259622400000000000 ∧
    printDtDur 1593798687968505259622400000000000 =
      ['P', '1', '8', '4', '4', '6', '7', '4', '4', '0', '7', '3', '7', '0', '9', '5', '5', '1', '6', '1', '6', 'D'] ∧
    parseDtDur (printDtDur 1593798687968505259622400000000000) = .reject := by decide

/-! ## The value ranges of the text form of days-and-time durations -/

/-- Negative durations shorter than a second keep their sign (`-PT0.5S`, `-PT0.000000001S`: the seeded
change C18-18 took the sign from the whole seconds), durations of 2⁶⁴ ns and more keep their days (the
seeded change C14-19 computed the components in `u64`), up to the largest literal
(`u64::MAX` days, 23:59:59.999999999). -/
theorem dtdur_roundtrip_ranges :
    printDtDur (-500000000) = ['-', 'P', 'T', '0', '.', '5', 'S'] ∧
    parseDtDur (printDtDur (-500000000)) = .ok (-500000000) ∧
    printDtDur (-1) = ['-', 'P', 'T', '0', '.', '0', '0', '0', '0', '0', '0', '0', '0', '1', 'S'] ∧
    parseDtDur (printDtDur (-1)) = .ok (-1) ∧
    printDtDur 18446744073709551616 =
      ['P', '2', '1', '3', '5', '0', '3', 'D', 'T', '2', '3', 'H', '3', '4', 'M', '3', '3', '.', '7', '0', '9', '5', '5', '1', '6', '1', '6', 'S'] ∧
    parseDtDur (printDtDur 18446744073709551616) = .ok 18446744073709551616 ∧
    parseDtDur (printDtDur (-18446744073709551616)) = .ok (-18446744073709551616) ∧
    parseDtDur (printDtDur 1593798687968505259622399999999999) = .ok 1593798687968505259622399999999999 := by
  decide

/-- **The text form computed with the machine integers of the code** (`i128` value, `abs`, four rounds of
`x = ns / UNIT; ns -= x * UNIT`, in a build with and without overflow checks) is a literal that reads back
as the same value: for every `i128` value except `i128::MIN` (whose `abs` overflows) whose days fit
`u64`. -/
theorem dtdur_roundtrip_machine (m : IntMode) (n : Int)
    (h : Dmn.TemporalMachine.tI128.fits n = true) (hn : n ≠ Dmn.TemporalMachine.tI128.lo)
    (hfit : n.natAbs / 86400000000000 ≤ u64Max) :
    ∃ text, Dmn.TemporalMachine.dtdPrint m n = .ok text ∧ parseDtDur text = .ok n :=
  ⟨printDtDur n, Dmn.TemporalMachine.dtdPrint_eq m n h hn, parseDtDur_printDtDur n hfit⟩

example : Dmn.TemporalMachine.tI128.fits (-18446744073709551616) = true ∧
    (-18446744073709551616 : Int) ≠ Dmn.TemporalMachine.tI128.lo ∧
    (-18446744073709551616 : Int).natAbs / 86400000000000 ≤ u64Max := by decide

/-- **The width matters**: the same statements with the value narrowed to `u64` first
(`self.0.unsigned_abs() as u64`, the seeded change C14-19) print every duration below 2⁶⁴ ns alike —
all that the repository's tests contain — and 2⁶⁴ ns (213503 days 23:34:33.709551616) as `PT0S`,
which reads back as another value. -/
theorem display_needs_i128 :
    (∀ n : Int, n.natAbs < 18446744073709551616 → Dmn.TemporalMachine.dtdPrintU64 n = printDtDur n) ∧
    Dmn.TemporalMachine.dtdPrintU64 18446744073709551616 = ['P', 'T', '0', 'S'] ∧
    parseDtDur (Dmn.TemporalMachine.dtdPrintU64 18446744073709551616) = .ok 0 ∧
    Dmn.TemporalMachine.dtdPrintU64 18446744073709551616 ≠ printDtDur 18446744073709551616 := by
  refine ⟨fun n hn => Dmn.TemporalMachine.dtdPrintU64_eq n hn, by decide, by decide, by decide⟩

/-! ## The value denoted is what is written -/

/-- A date text `[-]YYYY…-MM-DD` denotes exactly the written year (with its sign), month and
day. -/
theorem literal_exact_date (neg : Bool) (ys : List Char) (m d : Nat)
    (hd : ∀ c ∈ ys, isDigit c = true) (h4 : 4 ≤ ys.length) (h9 : ys.length ≤ 9)
    (h0 : ys.length = 4 ∨ ys.head? ≠ some '0') (hm : m < 100) (hdd : d < 100) :
    dateP ((if neg then ['-'] else []) ++ ys ++ '-' :: (pad2 m ++ '-' :: (pad2 d ++ []))) =
      some ((if neg then -(natOfDigits ys : Int) else (natOfDigits ys : Int), m, d), []) :=
  dateP_digits neg ys m d [] hd h4 h9 h0 hm hdd

example : dateP ['-', '1', '0', '0', '0', '-', '1', '2', '-', '3', '1'] = some ((-1000, 12, 31), []) := by decide

/-- A time text `HH:MM:SS.ddd…<zone>` denotes the written fields; up to nine fraction digits
denote exactly `digits · 10^(9 − length)` nanoseconds — no loss. -/
theorem literal_exact_time (zk : List Char → Bool) (h mi s : Nat) (ds ztext : List Char)
    (hh : h < 100) (hmi : mi < 100) (hs : s < 100) (hds : ∀ c ∈ ds, isDigit c = true)
    (hne : ds ≠ []) (hl : ds.length ≤ 9) (hz : NoDigitHead ztext) :
    timeP zk (pad2 h ++ ':' :: (pad2 mi ++ ':' :: (pad2 s ++ '.' :: (ds ++ ztext)))) =
      (zoneP zk ztext).map (fun z => (h, mi, s, natOfDigits ds * 10 ^ (9 - ds.length), z)) := by
  rw [timeP_frac zk h mi s ds ztext hh hmi hs hds hne hz, fracNanos_exact ds hl]

example : timeP (fun _ => true) ['1', '0', ':', '0', '0', ':', '0', '0', '.', '0', '1', '5', '7'] =
    some (10, 0, 0, 15700000, some .localZ) := by decide

/-- Offsets denote `±(3600·hh + 60·mm + ss)` seconds, with their sign. -/
theorem literal_exact_offset (zk : List Char → Bool) (neg : Bool) (hh mm ss : Nat)
    (h1 : hh ≤ 14) (h2 : mm < 60) (h3 : ss < 60) :
    zoneP zk ((if neg then '-' else '+') :: (pad2 hh ++ ':' :: (pad2 mm ++
        (if ss > 0 then ':' :: pad2 ss else [])))) =
      some (some (Zone.new (if neg then -((3600 * hh + 60 * mm + ss : Nat) : Int)
        else ((3600 * hh + 60 * mm + ss : Nat) : Int)))) :=
  zoneP_offset_text zk neg hh mm ss h1 h2 h3

example : zoneP (fun _ => false) ['-', '1', '4', ':', '5', '9', ':', '5', '9'] = some (some (.offset (-53999))) := by
  decide

/-! ## The parsers accept exactly the written grammar (every string)

`DateText`, `TimeText`, `ZoneText` (`Dmn/Lemmas/TemporalGrammar.lean`) are the written grammar:
character by character, digits `0`…`9` only.  Each theorem is an equivalence for *every* list of
characters: what is accepted is in the grammar and denotes exactly the written fields, and every
text of the grammar that names a calendar date / a time of day is accepted. -/

/-- `date("…")`: accepted exactly when the text is `[-]YYYY[YYYYY]-MM-DD` (four to nine year digits,
more than four only without a leading zero) naming a day of the proleptic Gregorian calendar; the
value is the written year (with its sign), month and day. -/
theorem date_literal_grammar (cs : List Char) (d : Date) :
    parseDate cs = some d ↔ DateText cs d.y d.m d.d [] ∧ validDate d.y d.m d.d = true :=
  parseDate_iff cs d

example : parseDate ['-', '0', '0', '4', '4', '-', '0', '3', '-', '1', '5'] = some ⟨-44, 3, 15⟩ := by decide

/-- The zone suffix: nothing, `Z`, `z`, `@name`, `±hh:mm`, `±hh:mm:ss` and nothing else. -/
theorem zone_suffix_grammar (zk : List Char → Bool) (cs : List Char) (z : Option Zone) :
    zoneP zk cs = some z ↔ ZoneText zk cs z :=
  zoneP_iff zk cs z

/-- `time("…")`: accepted exactly when the text is `hh:mm:ss[.d+][zone]` with hour < 24, minute < 60,
second < 60 and a zone suffix that denotes a zone; the value has the written fields, the first nine
fraction digits as nanoseconds. -/
theorem time_literal_grammar (zk : List Char → Bool) (cs : List Char) (t : Time) :
    parseTime zk cs = some t ↔
      TimeText zk cs t.h t.mi t.s t.ns (some t.z) ∧ t.h < 24 ∧ t.mi < 60 ∧ t.s < 60 :=
  parseTime_iff zk cs t

example : parseTime (fun _ => false) ['0', '9', ':', '3', '0', ':', '1', '5', '.', '2', '5', '-', '0', '0', ':', '3', '0'] =
    some ⟨9, 30, 15, 250000000, .offset (-1800)⟩ := by decide

/-- `date and time("…")` (the `T` form): a date text, `T`, a time text, both valid. -/
theorem datetime_literal_grammar (zk : List Char → Bool) (cs : List Char) (dt : DateTime) :
    parseDateTime zk cs = some dt ↔
      ∃ rest, DateText cs dt.date.y dt.date.m dt.date.d ('T' :: rest) ∧
        TimeText zk rest dt.time.h dt.time.mi dt.time.s dt.time.ns (some dt.time.z) ∧
        validDate dt.date.y dt.date.m dt.date.d = true ∧ dt.time.h < 24 ∧ dt.time.mi < 60 ∧ dt.time.s < 60 :=
  parseDateTime_iff zk cs dt

/-- A text with a character outside ASCII — a decimal digit of another script (Arabic-Indic,
Devanagari, full-width, mathematical …), another dash, colon or full stop, a letter that only looks
like `T` or `Z` — is not a date, time or date-and-time literal: null, wherever the character stands. -/
theorem non_ascii_is_not_a_literal (zk : List Char → Bool) (cs : List Char) (c : Char) (hc : c ∈ cs)
    (h : 128 ≤ c.toNat) :
    bifDate cs = .null ∧ bifTime zk cs = .null ∧ bifDateTime zk cs = .null := by
  have hd : parseDate cs = none := by
    cases hp : parseDate cs with
    | none => rfl
    | some d =>
      have := ((parseDate_iff cs d).1 hp).1.ascii Ascii.nil c hc
      omega
  have ht : parseTime zk cs = none := by
    cases hp : parseTime zk cs with
    | none => rfl
    | some t =>
      have := ((parseTime_iff zk cs t).1 hp).1.ascii c hc
      omega
  have hdt : parseDateTime zk cs = none := by
    cases hp : parseDateTime zk cs with
    | none => rfl
    | some dt =>
      obtain ⟨rest, hdate, htime, _⟩ := (parseDateTime_iff zk cs dt).1 hp
      have := hdate.ascii (Ascii.cons (by decide) htime.ascii) c hc
      omega
  unfold bifDate bifTime bifDateTime
  simp only [hd, ht, hdt, and_self]

/-- The witnesses of the seeded change C14-15 (`\d` in the patterns): an Arabic-Indic five in the
fraction, Arabic-Indic digits in the offset hours. -/
example : bifTime (fun _ => true) ['1', '0', ':', '0', '0', ':', '0', '0', '.', Char.ofNat 0x665] = .null :=
  (non_ascii_is_not_a_literal _ _ (Char.ofNat 0x665) (by simp) (by decide)).2.1

example : bifDateTime (fun _ => true) ['2', '0', '2', '0', '-', '0', '9', '-', '2', '8', 'T', '1', '6', ':', '3', '7', ':',
    '0', '9', '-', Char.ofNat 0x660, Char.ofNat 0x665, ':', '0', '0'] = .null :=
  (non_ascii_is_not_a_literal _ _ (Char.ofNat 0x665) (by simp) (by decide)).2.2

/-- `duration("…")`, years-and-months form: accepted exactly when the text is `[-]P[nY][nM]` (each
present component a non-empty run of digits) and `ymFinish` — at least one component, `12·years +
months` within `i64` — gives the value on the written components. -/
theorem ymdur_literal_grammar (cs : List Char) (n : Int) :
    parseYmDur cs = .ok n ↔ ∃ neg ys ms, YmText cs neg ys ms ∧ ymFinish neg ys ms = .ok n :=
  parseYmDur_iff cs n

example : YmText ['-', 'P', '1', 'Y', '2', 'M'] true (some ['1']) (some ['2']) ∧
    ymFinish true (some ['1']) (some ['2']) = .ok (-14) := by
  refine ⟨⟨rfl, ?_, ?_⟩, by decide⟩ <;>
    (intro d hd; injection hd with hd; subst hd; exact ⟨by intro c hc; simp at hc; subst hc; decide, by simp⟩)

/-- No text with a character outside ASCII is a years-and-months duration. -/
theorem non_ascii_is_not_a_ym_duration (cs : List Char) (c : Char) (hc : c ∈ cs) (h : 128 ≤ c.toNat) (n : Int) :
    parseYmDur cs ≠ .ok n := by
  intro hp
  obtain ⟨neg, ys, ms, ht, _⟩ := (parseYmDur_iff cs n).1 hp
  have := ht.ascii c hc
  omega

/-- `duration("…")`, days-and-time form: accepted exactly when the text is
`[-]P[nD][T[nH][nM][n[.f]S]]` — each present component a non-empty run of the digits `0`…`9`, after a
`T` at least one component, a fraction only with seconds — and `dtFinish` (every component within
`u64`, at least one of them) gives the value `±(d·86400e9 + h·3600e9 + m·60e9 + s·1e9 + fraction)` on
the written components. (The fraction may be an empty run: finding F25-dur-emptyfrac, pinned by the
repository's tests; the strict grammar is the same statement with `fs ≠ some []`.) -/
theorem dtdur_literal_grammar (cs : List Char) (n : Int) :
    parseDtDur cs = .ok n ↔
      ∃ neg ds hs ms ss fs, DtdText cs neg ds hs ms ss fs ∧ dtFinish neg ds (some (hs, ms, ss, fs)) = .ok n :=
  parseDtDur_iff cs n

example : DtdText ['-', 'P', '1', 'D', 'T', '2', 'H', '4', '.', '5', 'S'] true (some ['1']) (some ['2']) none
      (some ['4']) (some ['5']) ∧
    dtFinish true (some ['1']) (some (some ['2'], none, some ['4'], some ['5'])) = .ok (-93604500000000) := by
  have one : ∀ c : Char, isDigit c = true → (Digits [c] ∧ [c] ≠ []) :=
    fun c hc => ⟨by intro x hx; simp at hx; subst hx; exact hc, by simp⟩
  refine ⟨⟨rfl, ?_, ?_, ?_, ?_, ?_, by intro h; cases h⟩, by decide⟩
  · intro d hd; injection hd with hd; subst hd; exact one '1' (by decide)
  · intro d hd; injection hd with hd; subst hd; exact one '2' (by decide)
  · intro d hd; cases hd
  · intro d hd; injection hd with hd; subst hd; exact one '4' (by decide)
  · intro f hf; injection hf with hf; subst hf; exact (one '5' (by decide)).1

/-- No text with a character outside ASCII is a duration: `duration("…")` is null, for the
years-and-months and the days-and-time form alike, wherever the character stands. -/
theorem non_ascii_is_not_a_duration (cs : List Char) (c : Char) (hc : c ∈ cs) (h : 128 ≤ c.toNat) :
    bifDuration cs = .null :=
  bifDuration_non_ascii cs c hc h

/-- An Arabic-Indic five as the seconds, a full-width `T`. -/
example : bifDuration ['P', 'T', Char.ofNat 0x665, 'S'] = .null ∧
    bifDuration ['P', '1', 'D', Char.ofNat 0xFF34, '2', 'H'] = .null :=
  ⟨non_ascii_is_not_a_duration _ (Char.ofNat 0x665) (by simp) (by decide),
   non_ascii_is_not_a_duration _ (Char.ofNat 0xFF34) (by simp) (by decide)⟩

/-- `@"…"` tries every kind in turn: a text with a character outside ASCII is none of them. -/
theorem non_ascii_is_not_an_at_literal (zk : List Char → Bool) (cs : List Char) (c : Char) (hc : c ∈ cs)
    (h : 128 ≤ c.toNat) : atLiteral zk cs = .null := by
  obtain ⟨h1, h2, h3⟩ := non_ascii_is_not_a_literal zk cs c hc h
  have h4 := non_ascii_is_not_a_duration cs c hc h
  have hd : parseDate cs = none := by
    unfold bifDate at h1
    split at h1
    · cases h1
    · assumption
  have ht : parseTime zk cs = none := by
    unfold bifTime at h2
    split at h2
    · cases h2
    · assumption
  have hdt : parseDateTime zk cs = none := by
    unfold bifDateTime at h3
    split at h3
    · cases h3
    · assumption
  unfold atLiteral
  rw [hd, hdt, ht]
  exact h4

/-- A sign in front of a field is not part of the grammar (`time("+9:30:15")`, the seeded change
C14-16): the first character of a time text is a digit. -/
theorem time_text_starts_with_two_digits (zk : List Char → Bool) (cs : List Char) (t : Time)
    (h : parseTime zk cs = some t) :
    ∃ a b r, cs = a :: b :: ':' :: r ∧ isDigit a = true ∧ isDigit b = true := by
  obtain ⟨h1, h2, m1, m2, s1, s2, frac, ztext, e, dh1, dh2, _⟩ := ((parseTime_iff zk cs t).1 h).1
  exact ⟨h1, h2, _, e, dh1, dh2⟩

example : parseTime (fun _ => true) ['+', '9', ':', '3', '0', ':', '1', '5'] = none := by decide

/-! ## Named zones: the instant a wall-clock time denotes -/

/-- The specification of a literal `local@zone` against the rules of the zone (a table of transitions):
when `denote` names an instant `t`, it is `local − offset`, the zone's clock at `t` shows exactly the
written time, and no other instant does. (The correspondence family `zone-instant` holds the code to
this at every hour and half hour around every transition of 39 zones, with the tables of python's
`zoneinfo`.) -/
theorem zone_literal_denotes (z : ZoneRules) (l t o : Int) (h : z.denote l = .instant t o) :
    t = l - o ∧ z.offsetAt t = o ∧ t + z.offsetAt t = l ∧ ∀ t', t' + z.offsetAt t' = l → t' = t := by
  unfold ZoneRules.denote at h
  split at h
  · cases h
  · rename_i o' hl
    injection h with h1 h2
    subst h2
    have hm : o' ∈ z.offsetsForLocal l := by rw [hl]; simp
    have ho := (z.mem_offsetsForLocal l o').1 hm
    subst h1
    refine ⟨rfl, ho, by rw [ho]; omega, ?_⟩
    intro t' ht'
    have hm' : z.offsetAt t' ∈ z.offsetsForLocal l :=
      (z.mem_offsetsForLocal_iff_instant l _).2 ⟨t', rfl, ht'⟩
    rw [hl] at hm'
    have : z.offsetAt t' = o' := by simpa using hm'
    omega
  · cases h

/-- Europe/Warsaw around 2021-03-28 01:00Z (+01:00 → +02:00) and 2021-10-31 01:00Z (back):
`2021-03-28T01:30` denotes 00:30Z (offset 3600 — the witness of the seeded change C14-18, which gave 7200),
`02:30` that day is skipped, `2021-10-31T02:30` is repeated. -/
example :
    let z : ZoneRules := ⟨3600, [(1616893200, 7200), (1635642000, 3600)]⟩
    z.denote 1616895000 = .instant 1616891400 3600 ∧ z.denote 1616898600 = .skipped ∧
    z.denote 1616902200 = .instant 1616895000 7200 ∧ z.denote 1635647400 = .repeated [7200, 3600] := by
  decide

/-- A wall-clock time is skipped exactly when no instant shows it; every instant shows some wall-clock
time, under which it is found again (alone, or as one of the repeated readings). -/
theorem zone_skipped_iff (z : ZoneRules) (l : Int) :
    z.denote l = .skipped ↔ ∀ t, t + z.offsetAt t ≠ l := by
  have key : z.offsetsForLocal l = [] ↔ ∀ t, t + z.offsetAt t ≠ l := by
    constructor
    · intro h t ht
      have := (z.mem_offsetsForLocal_iff_instant l _).2 ⟨t, rfl, ht⟩
      rw [h] at this
      cases this
    · intro h
      cases hl : z.offsetsForLocal l with
      | nil => rfl
      | cons o r =>
        exfalso
        have hm : o ∈ z.offsetsForLocal l := by rw [hl]; simp
        obtain ⟨t, _, ht⟩ := (z.mem_offsetsForLocal_iff_instant l o).1 hm
        exact h t ht
  unfold ZoneRules.denote
  constructor
  · intro h
    apply key.1
    split at h
    · assumption
    · cases h
    · cases h
  · intro h
    rw [key.2 h]

theorem zone_instant_is_written (z : ZoneRules) (t : Int) :
    z.offsetAt t ∈ z.offsetsForLocal (t + z.offsetAt t) :=
  (z.mem_offsetsForLocal_iff_instant _ _).2 ⟨t, rfl, rfl⟩

/-! ## What is not valid is rejected -/

/-- Whatever `date("…")` accepts is a day of the calendar: impossible dates are rejected (full
strength since the repair of F13-day0-lit). -/
theorem rejects_invalid_date (cs : List Char) (d : Date) (h : parseDate cs = some d) :
    validDate d.y d.m d.d = true := by
  have hv := parseDate_valid h
  have hr := isValidDate_year_range hv
  rw [← Dmn.Temporal.isValidDate_eq d.y d.m d.d hr.1 hr.2]
  exact hv

example : parseDate ['2', '0', '2', '4', '-', '0', '2', '-', '2', '9'] = some ⟨2024, 2, 29⟩ := by decide

/-- Regression witness of F13-day0-lit. -/
theorem rejects_invalid_date_day_zero :
    parseDate ['2', '0', '2', '1', '-', '0', '2', '-', '0', '0'] = none := by decide

/-- Whatever `time("…")` accepts has hour < 24, minute < 60, second < 60 and less than 10⁹
nanoseconds. -/
theorem rejects_invalid_time (zk : List Char → Bool) (cs : List Char) (t : Time)
    (h : parseTime zk cs = some t) : t.h < 24 ∧ t.mi < 60 ∧ t.s < 60 ∧ t.ns < 1000000000 := by
  unfold parseTime at h
  split at h
  · rename_i t' ht
    split at h
    · injection h with h
      subst h
      unfold parseTimeLiteral at ht
      split at ht
      · rename_i hh mi s ns z htp
        split at ht
        · rename_i hv
          injection ht with ht
          subst ht
          have := (isValidTime_iff _ _ _).1 hv
          exact ⟨this.1, this.2.1, this.2.2, timeP_ns_lt zk cs hh mi s ns (some z) htp⟩
        · cases ht
      · cases ht
    · cases h
  · cases h

example : parseTime (fun _ => true) ['2', '3', ':', '5', '9', ':', '5', '9', '.', '9', '9', '9', '9', '9', '9', '9', '9', '9', 'Z'] =
    some ⟨23, 59, 59, 999999999, .utc⟩ := by decide

/-- Offset hours above 14 are rejected (the whole literal is). -/
theorem rejects_offset_hours (zk : List Char → Bool) (neg : Bool) (hh mm : Nat)
    (h1 : 14 < hh) (h2 : hh < 100) (h3 : mm < 100) :
    zoneP zk ((if neg then '-' else '+') :: (pad2 hh ++ ':' :: pad2 mm)) = some none := by
  have e1 := twoDigits_pad2 h2 (':' :: pad2 mm)
  have e2 := twoDigits_pad2 h3 []
  simp only [List.append_nil] at e2
  cases neg <;> simp [zoneP, e1, e2, h1]

/-- Offset minutes above 59 are rejected, and so are offset seconds above 59 (full strength
since the repair of F24-offmin). -/
theorem rejects_offset_minutes_seconds (zk : List Char → Bool) (neg : Bool) (hh mm ss : Nat)
    (h2 : hh < 100) (h3 : mm < 100) (h4 : ss < 100) (h : 59 < mm ∨ 59 < ss) :
    zoneP zk ((if neg then '-' else '+') :: (pad2 hh ++ ':' :: (pad2 mm ++ ':' :: pad2 ss))) = some none ∧
    (59 < mm → zoneP zk ((if neg then '-' else '+') :: (pad2 hh ++ ':' :: pad2 mm)) = some none) := by
  have e1 := twoDigits_pad2 h2 (':' :: (pad2 mm ++ ':' :: pad2 ss))
  have e1' := twoDigits_pad2 h2 (':' :: pad2 mm)
  have e2 := twoDigits_pad2 h3 (':' :: pad2 ss)
  have e2' := twoDigits_pad2 h3 []
  have e3 := twoDigits_pad2 h4 []
  simp only [List.append_nil] at e2' e3
  constructor
  · cases neg <;> simp [zoneP, e1, e2, e3] <;> omega
  · intro hm
    cases neg <;> simp [zoneP, e1', e2', hm]

example : zoneP (fun _ => true) ['+', '0', '0', ':', '6', '0'] = some none ∧
    parseTime (fun _ => true) ['1', '0', ':', '0', '0', ':', '0', '0', '+', '1', '4', ':', '6', '0'] = none := by decide

/-- Concrete instances of the classes the property names: 30 February, 29 February of a
non-leap year, month 13, hour 24, minute 60, second 60, offset 15:00, and malformed texts. -/
theorem rejects_invalid_instances :
    parseDate ['2', '0', '2', '1', '-', '0', '2', '-', '3', '0'] = none ∧
    parseDate ['2', '0', '2', '1', '-', '0', '2', '-', '2', '9'] = none ∧
    parseDate ['2', '0', '2', '1', '-', '1', '3', '-', '0', '1'] = none ∧
    parseTime (fun _ => true) ['2', '4', ':', '0', '0', ':', '0', '0'] = none ∧
    parseTime (fun _ => true) ['1', '0', ':', '6', '0', ':', '0', '0'] = none ∧
    parseTime (fun _ => true) ['1', '0', ':', '0', '0', ':', '6', '0'] = none ∧
    parseTime (fun _ => true) ['1', '0', ':', '0', '0', ':', '0', '0', '+', '1', '5', ':', '0', '0'] = none ∧
    parseDate ['2', '0', '2', '1', '-', '1', '-', '0', '1'] = none ∧
    parseTime (fun _ => true) ['1', '0', ':', '0', '0'] = none ∧
    parseDateTime (fun _ => true) ['2', '0', '2', '1', '-', '0', '1', '-', '0', '1', ' ', '1', '0', ':', '0', '0', ':', '0', '0'] = none ∧
    parseDtDur ['P'] = .reject ∧ parseDtDur ['P', 'T'] = .reject ∧ parseYmDur ['P', '1', 'M', '1', 'Y'] = .reject := by
  decide

/-- Regression witnesses of F25-dur-skip, F25-dur-wrap, F5-dur and the `P1DT` half of
F25-dur-malformed: a component beyond the representable range, `2^63` months, an overflowing
number of years and a `T` without time components are all rejected. -/
theorem rejects_invalid_durations :
    parseDtDur ['P', '1', 'D', 'T'] = .reject ∧
    parseYmDur ['P', '9', '9', '9', '9', '9', '9', '9', '9', '9', '9', '9', '9', '9', '9', '9', '9', '9', '9', '9', '9', 'Y', '1', 'M'] = .reject ∧
    parseYmDur ['P', '9', '2', '2', '3', '3', '7', '2', '0', '3', '6', '8', '5', '4', '7', '7', '5', '8', '0', '8', 'M'] = .reject ∧
    parseYmDur ['P', '9', '9', '9', '9', '9', '9', '9', '9', '9', '9', '9', '9', '9', '9', '9', '9', '9', '9', 'Y'] = .reject ∧
    parseDtDur ['P', '1', '8', '4', '4', '6', '7', '4', '4', '0', '7', '3', '7', '0', '9', '5', '5', '1', '6', '1', '6', 'D', 'T', '1', 'S'] = .reject := by
  decide

/-- No years-and-months literal panics or denotes a value outside `−i64::MAX … i64::MAX`
months (full strength since the repair of F25-dur-wrap / F5-dur). -/
theorem ymdur_total (cs : List Char) :
    parseYmDur cs ≠ .panic ∧ ∀ n, parseYmDur cs = .ok n → -i64Max ≤ n ∧ n ≤ i64Max :=
  parseYmDur_range cs

-- FULL STATEMENT (not provable of the current code, finding F25-dur-malformed, pinned by the
-- repository's tests): `PT0.S` (empty fraction) evaluates to null.
theorem rejects_invalid_counterexample :
    parseDtDur ['P', 'T', '0', '.', 'S'] = .ok 0 := by decide

/-! ## `time(h, m, s[, offset])` from numbers -/

/-- On integral hours and minutes in range and seconds with up to nine decimals the constructor
denotes exactly the written time. -/
theorem time_from_numbers_exact (h mi sec ns : Nat) (h1 : h < 24) (h2 : mi < 60)
    (h3 : sec < 60) (h4 : ns < 1000000000) :
    timeFromNumbers ⟨h, 0⟩ ⟨mi, 0⟩ ⟨(sec * 1000000000 + ns : Nat), -9⟩ none =
      some ⟨h, mi, sec, ns, .localZ⟩ := by
  have eh : (Temporal.Dec.mk h 0).toU8 = h := by
    unfold Temporal.Dec.toU8 Temporal.Dec.toU32 Temporal.Dec.roundHalfEven; simp
    rw [if_pos (by omega)]; omega
  have em : (Temporal.Dec.mk mi 0).toU8 = mi := by
    unfold Temporal.Dec.toU8 Temporal.Dec.toU32 Temporal.Dec.roundHalfEven; simp
    rw [if_pos (by omega)]; omega
  have es : (Temporal.Dec.mk ((sec * 1000000000 + ns : Nat) : Int) (-9)).secondsAndNanos = (sec, ns) := by
    unfold Temporal.Dec.secondsAndNanos
    simp
    constructor <;> omega
  have i1 : (Temporal.Dec.mk h 0).isInt = true := by unfold Temporal.Dec.isInt; simp
  have i2 : (Temporal.Dec.mk mi 0).isInt = true := by unfold Temporal.Dec.isInt; simp
  have r1 : (Temporal.Dec.mk h 0).inRange 24 = true := by unfold Temporal.Dec.inRange; simp; omega
  have r2 : (Temporal.Dec.mk mi 0).inRange 60 = true := by unfold Temporal.Dec.inRange; simp; omega
  have r3 : (Temporal.Dec.mk ((sec * 1000000000 + ns : Nat) : Int) (-9)).inRange 60 = true := by
    unfold Temporal.Dec.inRange; simp; omega
  unfold timeFromNumbers
  simp only [r1, r2, r3, i1, i2, Bool.and_self, if_true, es, eh, em]
  have hv : isValidTime h mi (sec % 256) = true := by
    rw [isValidTime_iff]; omega
  have : sec % 256 = sec := by omega
  rw [this] at hv
  simp only [this, hv, if_true]

example : timeFromNumbers ⟨23, 0⟩ ⟨59, 0⟩ ⟨59999999999, -9⟩ none = some ⟨23, 59, 59, 999999999, .localZ⟩ := by
  decide

/-- Whatever the constructor accepts has an integral hour and minute, a valid time of day and
an offset within ±14:59:59; everything else is null (full strength since the repair of
F27-time-round and F27-time-offset). -/
theorem time_from_numbers_rejects (h mi s : Temporal.Dec) (off : Option Int) (t : Time)
    (ht : timeFromNumbers h mi s off = some t) :
    h.isInt = true ∧ mi.isInt = true ∧ isValidTime t.h t.mi t.s = true ∧
    (∀ n, off = some n → -53999 ≤ Int.tdiv n 1000000000 ∧ Int.tdiv n 1000000000 ≤ 53999) := by
  unfold timeFromNumbers at ht
  split at ht
  · rename_i hc
    simp only [Bool.and_eq_true] at hc
    refine ⟨hc.1.2, hc.2, ?_, ?_⟩
    · cases off with
      | none =>
        simp only [] at ht
        split at ht
        · rename_i hv; injection ht with ht; subst ht; exact hv
        · cases ht
      | some n =>
        simp only [] at ht
        split at ht
        · split at ht
          · rename_i hv; injection ht with ht; subst ht; exact hv
          · cases ht
        · cases ht
    · intro n hn
      subst hn
      simp only [] at ht
      split at ht
      · assumption
      · cases ht
  · cases ht

/-- Regression witnesses of F27-time-round and F27-time-offset: null now. -/
theorem time_from_numbers_rejects_instances :
    timeFromNumbers ⟨115, -1⟩ ⟨0, 0⟩ ⟨0, 0⟩ none = none ∧
    timeFromNumbers ⟨10, 0⟩ ⟨5, -1⟩ ⟨0, 0⟩ none = none ∧
    timeFromNumbers ⟨10, 0⟩ ⟨0, 0⟩ ⟨0, 0⟩ (some 54000000000000) = none ∧
    timeFromNumbers ⟨10, 0⟩ ⟨0, 0⟩ ⟨0, 0⟩ (some 172800000000000) = none ∧
    timeFromNumbers ⟨10, 0⟩ ⟨0, 0⟩ ⟨0, 0⟩ (some (-53999000000000)) = some ⟨10, 0, 0, 0, .offset (-53999)⟩ := by
  decide

/-! ## Time literals with a named zone: relative to the day of the evaluation

`time("hh:mm:ss@Zone")` keeps the written fields and the zone name; its `time offset` (and every comparison)
is resolved through the date-time made of TODAY's date (`FeelDate::today_local()`) and the time
(`mod.rs:206-212`). The clock is an input that the correspondence cannot set (it judges the literals at every
half hour of the day of the run); the statement for every day is the theorem below, with `today` and the
rules of the zone as parameters. -/

/-- On the day `today`, under the rules `zr` of its zone, the `time offset` of a time literal with a named
zone is the offset in force at the one instant of that day whose wall clock in the zone shows the written
time: that instant is `today's written time − offset`, the zone's clock at it shows exactly the written
time, and no other instant does. -/
theorem time_zone_literal_denotes (zr : ZoneRules) (today : Date) (t : Time) (n : List Char) (o : Int)
    (hz : t.z = .zone n) (h : timeOffsetOn zr today t = .offset o) :
    let l := localSeconds today t.h t.mi t.s
    zr.denote l = .instant (l - o) o ∧ zr.offsetAt (l - o) = o ∧ (l - o) + zr.offsetAt (l - o) = l ∧
    (∀ t', t' + zr.offsetAt t' = l → t' = l - o) ∧
    timeProperty t today (oracleByRules zr ⟨today, t⟩) .timezone = .str n := by
  intro l
  have ho : oracleByRules zr ⟨today, t⟩ = some o := by
    unfold timeOffsetOn timeProperty dtProperty timeOffsetOf at h
    simp only [hz] at h
    cases hq : oracleByRules zr ⟨today, t⟩ with
    | none => rw [hq] at h; cases h
    | some o' => rw [hq] at h; injection h with h; rw [h]
  obtain ⟨_, hd⟩ := zoneOffsetByRules_some ho
  obtain ⟨_, h2, h3, h4⟩ := zr.denote_instant l (l - o) o hd
  refine ⟨hd, h2, h3, h4, ?_⟩
  simp [timeProperty, dtProperty, timeZoneOf, hz]

/-- The same literal on different days: `time("01:30:00@Europe/Warsaw")` has the offset +01:00 on
2021-03-27 and +02:00 on 2021-03-29; `time("02:30:00@Europe/Warsaw")` has no offset on 2021-03-28 (the
reading is skipped that day) and none on 2021-10-31 (it is repeated). -/
example :
    let zr : ZoneRules := ⟨3600, [(1616893200, 7200), (1635642000, 3600)]⟩
    let w : List Char := "Europe/Warsaw".toList
    timeOffsetOn zr ⟨2021, 3, 27⟩ ⟨1, 30, 0, 0, .zone w⟩ = .offset 3600 ∧
    timeOffsetOn zr ⟨2021, 3, 29⟩ ⟨1, 30, 0, 0, .zone w⟩ = .offset 7200 ∧
    timeOffsetOn zr ⟨2021, 3, 28⟩ ⟨2, 30, 0, 0, .zone w⟩ = .null ∧
    timeOffsetOn zr ⟨2021, 10, 31⟩ ⟨2, 30, 0, 0, .zone w⟩ = .null := by
  decide

/-- A time literal with a named zone has no `time offset` on the day `today` exactly when the written time
is skipped or repeated in the zone that day (or the day is outside the calendar of chrono); the written
hour, minute, second and zone name do not depend on the day. -/
theorem time_zone_literal_null_iff (zr : ZoneRules) (today : Date) (t : Time) (n : List Char)
    (hz : t.z = .zone n) :
    (timeOffsetOn zr today t = .null ↔ oracleByRules zr ⟨today, t⟩ = none) ∧
    (∀ o, timeOffsetOn zr today t = .offset o ↔ oracleByRules zr ⟨today, t⟩ = some o) ∧
    (∀ today' o', timeProperty t today o' .hour = timeProperty t today' o' .hour ∧
      timeProperty t today o' .minute = timeProperty t today' o' .minute ∧
      timeProperty t today o' .second = timeProperty t today' o' .second ∧
      timeProperty t today o' .timezone = timeProperty t today' o' .timezone) := by
  refine ⟨?_, ?_, ?_⟩
  · unfold timeOffsetOn timeProperty dtProperty timeOffsetOf
    simp only [hz]
    cases oracleByRules zr ⟨today, t⟩ <;> simp
  · intro o
    unfold timeOffsetOn timeProperty dtProperty timeOffsetOf
    simp only [hz]
    cases oracleByRules zr ⟨today, t⟩ <;> simp
  · intro today' o'
    refine ⟨rfl, rfl, rfl, ?_⟩
    simp [timeProperty, dtProperty, timeZoneOf]

end Dmn.C14
