import Dmn.Lemmas.TemporalLit

/-!
# C14 — temporal literals denote exactly what is written and print back

About `Dmn.Temporal` (model of the literal recognisers, validators and `Display` printers of
`feel/src/temporal/*`).  `zk` is the zone-database parameter ("this name is known").
Fractional seconds are exact in the model; the code's `f64` route is compared by the
correspondence run (findings F23-*).

Where the unchanged code violates the full statement, the full statement is kept in a comment,
`…_partial` carries the excluding hypothesis and `…_counterexample` proves the violation at a
witness that the correspondence run re-observes on the real code.
-/

namespace Dmn.C14
open Dmn.Cal Dmn.Temporal

/-- Years written with four to nine digits, of either sign (what `DATE_PATTERN` can read). -/
def YearReadable (y : Int) : Prop :=
  (1000 ≤ y ∧ y ≤ 999999999) ∨ (-999999999 ≤ y ∧ y ≤ -1000)

/-! ## Round trips: `parse (print v) = v` -/

-- FULL STATEMENT (not provable of the current code, findings F13-lit-year, F13-print-year):
--   ∀ d, isValidDate d.y d.m d.d → parseDate (printDate d) = some d
--   (every year −999999999…999999999, in particular |year| < 1000)
/-- The text of a date reads back as that date. -/
theorem date_roundtrip_partial (d : Date) (hy : YearReadable d.y)
    (hv : isValidDate d.y d.m d.d = true) : parseDate (printDate d) = some d :=
  parseDate_printDate d hy hv

example : YearReadable (-999999999) ∧ isValidDate (-999999999) 2 28 = true := by
  refine ⟨Or.inr ⟨by decide, by decide⟩, by decide⟩

/-- Witnesses: year 999 prints as `0999-01-01`, year −1 as `-001-01-01`; neither reads back. -/
theorem date_roundtrip_counterexample :
    isValidDate 999 1 1 = true ∧ parseDate (printDate ⟨999, 1, 1⟩) = none ∧
    printDate ⟨-1, 1, 1⟩ = ['-', '0', '0', '1', '-', '0', '1', '-', '0', '1'] ∧
    parseDate (printDate ⟨-1, 1, 1⟩) = none := by decide

-- FULL STATEMENT (not provable of the current code, finding F13-sign):
--   the same for every offset −14:59:59…+14:59:59, i.e. without `(0 < o ∨ o ≤ -3600)`
/-- The text of a time (0–9 fraction digits, any readable zone) reads back as that time:
fraction to the nanosecond, offset with its sign and seconds, zone name. -/
theorem time_roundtrip_partial (zk : List Char → Bool) (t : Time)
    (hv : isValidTime t.h t.mi t.s = true) (hns : t.ns < 1000000000)
    (hz : ZoneReadable zk t.z) : parseTime zk (printTime t) = some t :=
  parseTime_printTime zk t hv hns hz

example : ZoneReadable (fun _ => true) (.offset (-53999)) ∧ ZoneReadable (fun _ => true) (.offset 1) ∧
    ZoneReadable (fun _ => true) (.zone ['E', 't', 'c', '/', 'U', 'T', 'C']) := by
  refine ⟨⟨Or.inr (by decide), by decide, by decide⟩, ⟨Or.inl (by decide), by decide, by decide⟩,
    by decide, by decide, rfl⟩

/-- Witness: `10:00:00-00:30` prints as `10:00:00+00:30` and reads back an hour away. -/
theorem time_roundtrip_counterexample :
    printTime ⟨10, 0, 0, 0, .offset (-1800)⟩ = ['1', '0', ':', '0', '0', ':', '0', '0', '+', '0', '0', ':', '3', '0'] ∧
    parseTime (fun _ => true) (printTime ⟨10, 0, 0, 0, .offset (-1800)⟩) =
      some ⟨10, 0, 0, 0, .offset 1800⟩ := by decide

-- FULL STATEMENT (not provable of the current code): as for dates and times, without
-- `YearReadable` and the sign condition inside `ZoneReadable`
theorem datetime_roundtrip_partial (zk : List Char → Bool) (dt : DateTime)
    (hy : YearReadable dt.date.y) (hd : isValidDate dt.date.y dt.date.m dt.date.d = true)
    (hv : isValidTime dt.time.h dt.time.mi dt.time.s = true)
    (hns : dt.time.ns < 1000000000) (hz : ZoneReadable zk dt.time.z) :
    parseDateTime zk (printDateTime dt) = some dt :=
  parseDateTime_printDateTime zk dt hy hd hv hns hz

example : parseDateTime (fun _ => true)
    (printDateTime ⟨⟨2021, 2, 28⟩, ⟨23, 59, 59, 999999999, .offset (-18000)⟩⟩) =
    some ⟨⟨2021, 2, 28⟩, ⟨23, 59, 59, 999999999, .offset (-18000)⟩⟩ := by decide

/-- Every years-and-months duration of the representable range reads back (`i64::MIN` months is
denoted by no well-formed literal: finding F25-dur-wrap). -/
theorem ymdur_roundtrip (n : Int) (h0 : i64Min < n) (h1 : n ≤ i64Max) :
    parseYmDur (printYmDur n) = .ok n :=
  parseYmDur_printYmDur n h0 h1

example : i64Min < -9223372036854775807 ∧ parseYmDur (printYmDur (-9223372036854775807)) = .ok (-9223372036854775807) := by
  decide

/-- Every days-and-time duration whose day count fits `u64` (the largest literal) reads back, to
the nanosecond and with its sign. -/
theorem dtdur_roundtrip (n : Int) (hfit : n.natAbs / 86400000000000 ≤ u64Max) :
    parseDtDur (printDtDur n) = .ok n :=
  parseDtDur_printDtDur n hfit

example : parseDtDur (printDtDur (-93784500000001)) = .ok (-93784500000001) := by decide

/-- `duration("…")` tries the years-and-months form first: both round trips go through it. -/
theorem duration_roundtrip (n : Int) :
    (i64Min < n → n ≤ i64Max → bifDuration (printYmDur n) = .ymDur n) := by
  intro h0 h1
  unfold bifDuration
  rw [ymdur_roundtrip n h0 h1]

/-! ## Normal form of durations -/

/-- The printed components are in range (hours < 24, minutes < 60, seconds < 60) and add up to
the total: `PT36H ↦ P1DT12H`. -/
theorem dur_normal_form (n : Int) :
    let a := n.natAbs
    (a % 86400000000000) / 3600000000000 < 24 ∧ (a % 3600000000000) / 60000000000 < 60 ∧
    (a % 60000000000) / 1000000000 < 60 ∧
    (a / 86400000000000) * 86400000000000 + ((a % 86400000000000) / 3600000000000) * 3600000000000 +
      ((a % 3600000000000) / 60000000000) * 60000000000 + ((a % 60000000000) / 1000000000) * 1000000000 +
      a % 1000000000 = a :=
  printDtDur_components n

/-- `PT36H` reads as 36 hours and prints as `P1DT12H`; `P14M` prints as `P1Y2M`. -/
theorem dur_normal_form_instances :
    parseDtDur ['P', 'T', '3', '6', 'H'] = .ok 129600000000000 ∧
    printDtDur 129600000000000 = ['P', '1', 'D', 'T', '1', '2', 'H'] ∧
    parseYmDur ['P', '1', '4', 'M'] = .ok 14 ∧
    printYmDur 14 = ['P', '1', 'Y', '2', 'M'] := by decide

/-- Years-and-months normal form: months below 12, total preserved. -/
theorem ymdur_normal_form (n : Int) : n.natAbs % 12 < 12 ∧ (n.natAbs / 12) * 12 + n.natAbs % 12 = n.natAbs := by
  omega

/-! ## The value denoted is what is written -/

/-- A date text `[-]YYYY…-MM-DD` denotes exactly the written year (with its sign), month and
day. -/
theorem literal_exact_date (neg : Bool) (ys : List Char) (m d : Nat)
    (hd : ∀ c ∈ ys, isDigit c = true) (h4 : 4 ≤ ys.length) (h9 : ys.length ≤ 9)
    (h0 : ys.head? ≠ some '0') (hm : m < 100) (hdd : d < 100) :
    dateP ((if neg then ['-'] else []) ++ ys ++ '-' :: (pad2 m ++ '-' :: (pad2 d ++ []))) =
      some ((if neg then -(natOfDigits ys : Int) else (natOfDigits ys : Int), m, d), []) :=
  dateP_digits neg ys m d [] hd h4 h9 h0 hm hdd

example : dateP ['-', '1', '0', '0', '0', '-', '1', '2', '-', '3', '1'] = some ((-1000, 12, 31), []) := by decide

/-- A time text `HH:MM:SS.ddd…<zone>` denotes the written fields; up to nine fraction digits
denote exactly `digits · 10^(9 − length)` nanoseconds — no loss. -/
theorem literal_exact_time (zk : List Char → Bool) (h mi s : Nat) (ds ztext : List Char)
    (hh : h < 100) (hmi : mi < 100) (hs : s < 100) (hds : ∀ c ∈ ds, isDigit c = true)
    (hne : ds ≠ []) (hl : ds.length ≤ 9) (hz : NoDigitHead ztext) :
    timeP zk (pad2 h ++ ':' :: (pad2 mi ++ ':' :: (pad2 s ++ '.' :: (ds ++ ztext)))) =
      (zoneP zk ztext).map (fun z => (h, mi, s, natOfDigits ds * 10 ^ (9 - ds.length), z)) := by
  rw [timeP_frac zk h mi s ds ztext hh hmi hs hds hne hz, fracNanos_exact ds hl]

example : timeP (fun _ => true) ['1', '0', ':', '0', '0', ':', '0', '0', '.', '0', '1', '5', '7'] =
    some (10, 0, 0, 15700000, some .localZ) := by decide

/-- Offsets denote `±(3600·hh + 60·mm + ss)` seconds, with their sign. -/
theorem literal_exact_offset (zk : List Char → Bool) (neg : Bool) (hh mm ss : Nat)
    (h1 : hh ≤ 14) (h2 : mm < 60) (h3 : ss < 60) :
    zoneP zk ((if neg then '-' else '+') :: (pad2 hh ++ ':' :: (pad2 mm ++
        (if ss > 0 then ':' :: pad2 ss else [])))) =
      some (some (Zone.new (if neg then -((3600 * hh + 60 * mm + ss : Nat) : Int)
        else ((3600 * hh + 60 * mm + ss : Nat) : Int)))) :=
  zoneP_offset_text zk neg hh mm ss h1 h2 h3

example : zoneP (fun _ => false) ['-', '1', '4', ':', '5', '9', ':', '5', '9'] = some (some (.offset (-53999))) := by
  decide

/-! ## What is not valid is rejected -/

theorem isValidDate_year_range {y : Int} {m d : Nat} (h : isValidDate y m d = true) :
    -999999999 ≤ y ∧ y ≤ 999999999 := by
  rw [isValidDate_unfold] at h
  simp only [Bool.or_eq_true, Bool.and_eq_true, decide_eq_true_eq] at h
  rcases h with hc | ⟨hr, _⟩
  · simp only [chronoDateOk, Bool.and_eq_true] at hc
    have h1 := of_decide_eq_true hc.1.1
    have h2 := of_decide_eq_true hc.1.2
    unfold chronoMinYear at h1
    unfold chronoMaxYear at h2
    omega
  · exact hr

-- FULL STATEMENT (not provable of the current code, finding F13-day0-lit):
--   parseDate cs = some d → validDate d.y d.m d.d   (without `d.d ≠ 0`)
/-- Whatever `date("…")` accepts is a day of the calendar — impossible dates are rejected —
unless the day is written `00`. -/
theorem rejects_invalid_date_partial (cs : List Char) (d : Date) (h : parseDate cs = some d)
    (h0 : d.d ≠ 0) : validDate d.y d.m d.d = true := by
  have hv := parseDate_valid h
  have hr := isValidDate_year_range hv
  rw [← Dmn.Temporal.isValidDate_eq d.y d.m d.d hr.1 hr.2 (by omega)]
  exact hv

example : parseDate ['2', '0', '2', '4', '-', '0', '2', '-', '2', '9'] = some ⟨2024, 2, 29⟩ := by decide

theorem rejects_invalid_date_counterexample :
    parseDate ['2', '0', '2', '1', '-', '0', '2', '-', '0', '0'] = some ⟨2021, 2, 0⟩ := by decide

/-- Whatever `time("…")` accepts has hour < 24, minute < 60, second < 60 and less than 10⁹
nanoseconds. -/
theorem rejects_invalid_time (zk : List Char → Bool) (cs : List Char) (t : Time)
    (h : parseTime zk cs = some t) : t.h < 24 ∧ t.mi < 60 ∧ t.s < 60 ∧ t.ns < 1000000000 := by
  unfold parseTime at h
  split at h
  · rename_i t' ht
    split at h
    · injection h with h
      subst h
      unfold parseTimeLiteral at ht
      split at ht
      · rename_i hh mi s ns z htp
        split at ht
        · rename_i hv
          injection ht with ht
          subst ht
          have := (isValidTime_iff _ _ _).1 hv
          exact ⟨this.1, this.2.1, this.2.2, timeP_ns_lt zk cs hh mi s ns (some z) htp⟩
        · cases ht
      · cases ht
    · cases h
  · cases h

example : parseTime (fun _ => true) ['2', '3', ':', '5', '9', ':', '5', '9', '.', '9', '9', '9', '9', '9', '9', '9', '9', '9', 'Z'] =
    some ⟨23, 59, 59, 999999999, .utc⟩ := by decide

/-- Offset hours above 14 are rejected (the whole literal is). -/
theorem rejects_offset_hours (zk : List Char → Bool) (neg : Bool) (hh mm : Nat)
    (h1 : 14 < hh) (h2 : hh < 100) (h3 : mm < 100) :
    zoneP zk ((if neg then '-' else '+') :: (pad2 hh ++ ':' :: pad2 mm)) = some none := by
  have e1 := twoDigits_pad2 h2 (':' :: pad2 mm)
  have e2 := twoDigits_pad2 h3 []
  simp only [List.append_nil] at e2
  cases neg <;> simp [zoneP, e1, e2, h1]

/-- Concrete instances of the classes the property names: 30 February, 29 February of a
non-leap year, month 13, hour 24, minute 60, second 60, offset 15:00, and malformed texts. -/
theorem rejects_invalid_instances :
    parseDate ['2', '0', '2', '1', '-', '0', '2', '-', '3', '0'] = none ∧
    parseDate ['2', '0', '2', '1', '-', '0', '2', '-', '2', '9'] = none ∧
    parseDate ['2', '0', '2', '1', '-', '1', '3', '-', '0', '1'] = none ∧
    parseTime (fun _ => true) ['2', '4', ':', '0', '0', ':', '0', '0'] = none ∧
    parseTime (fun _ => true) ['1', '0', ':', '6', '0', ':', '0', '0'] = none ∧
    parseTime (fun _ => true) ['1', '0', ':', '0', '0', ':', '6', '0'] = none ∧
    parseTime (fun _ => true) ['1', '0', ':', '0', '0', ':', '0', '0', '+', '1', '5', ':', '0', '0'] = none ∧
    parseDate ['2', '0', '2', '1', '-', '1', '-', '0', '1'] = none ∧
    parseTime (fun _ => true) ['1', '0', ':', '0', '0'] = none ∧
    parseDateTime (fun _ => true) ['2', '0', '2', '1', '-', '0', '1', '-', '0', '1', ' ', '1', '0', ':', '0', '0', ':', '0', '0'] = none ∧
    parseDtDur ['P'] = .reject ∧ parseDtDur ['P', 'T'] = .reject ∧ parseYmDur ['P', '1', 'M', '1', 'Y'] = .reject := by
  decide

-- FULL STATEMENT (not provable of the current code, findings F24-offmin, F25-dur-malformed,
-- F25-dur-skip): offset minutes/seconds of 60…99, `P1DT`, `PT0.S` and a component beyond u64
-- evaluate to null.
theorem rejects_invalid_counterexample :
    parseTime (fun _ => true) ['1', '0', ':', '0', '0', ':', '0', '0', '+', '0', '0', ':', '6', '0'] =
      some ⟨10, 0, 0, 0, .offset 3600⟩ ∧
    parseDtDur ['P', '1', 'D', 'T'] = .ok 86400000000000 ∧
    parseDtDur ['P', 'T', '0', '.', 'S'] = .ok 0 ∧
    parseYmDur ['P', '9', '9', '9', '9', '9', '9', '9', '9', '9', '9', '9', '9', '9', '9', '9', '9', '9', '9', '9', '9', 'Y', '1', 'M'] = .ok 1 ∧
    parseDate ['0', '9', '9', '9', '-', '0', '1', '-', '0', '1'] = none := by decide

/-! ## `time(h, m, s[, offset])` from numbers -/

-- FULL STATEMENT (not provable of the current code, findings F27-time-round, F27-time-offset):
--   non-integral hours/minutes and offsets of 15 hours or more give null
/-- On integral hours and minutes in range and seconds with up to nine decimals the constructor
denotes exactly the written time. -/
theorem time_from_numbers_exact_partial (h mi sec ns : Nat) (h1 : h < 24) (h2 : mi < 60)
    (h3 : sec < 60) (h4 : ns < 1000000000) :
    timeFromNumbers ⟨h, 0⟩ ⟨mi, 0⟩ ⟨(sec * 1000000000 + ns : Nat), -9⟩ none =
      some ⟨h, mi, sec, ns, .localZ⟩ := by
  have eh : (Dec.mk h 0).toU8 = h := by
    unfold Dec.toU8 Dec.toU32 Dec.roundHalfEven; simp
    rw [if_pos (by omega)]; omega
  have em : (Dec.mk mi 0).toU8 = mi := by
    unfold Dec.toU8 Dec.toU32 Dec.roundHalfEven; simp
    rw [if_pos (by omega)]; omega
  have es : (Dec.mk ((sec * 1000000000 + ns : Nat) : Int) (-9)).secondsAndNanos = (sec, ns) := by
    unfold Dec.secondsAndNanos
    simp
    constructor <;> omega
  have r1 : (Dec.mk h 0).inRange 24 = true := by unfold Dec.inRange; simp; omega
  have r2 : (Dec.mk mi 0).inRange 60 = true := by unfold Dec.inRange; simp; omega
  have r3 : (Dec.mk ((sec * 1000000000 + ns : Nat) : Int) (-9)).inRange 60 = true := by
    unfold Dec.inRange; simp; omega
  unfold timeFromNumbers
  simp only [r1, r2, r3, Bool.and_self, if_true, es, eh, em]
  have hv : isValidTime h mi (sec % 256) = true := by
    rw [isValidTime_iff]; omega
  have : sec % 256 = sec := by omega
  rw [this] at hv
  simp only [this, hv, if_true]

example : timeFromNumbers ⟨23, 0⟩ ⟨59, 0⟩ ⟨59999999999, -9⟩ none = some ⟨23, 59, 59, 999999999, .localZ⟩ := by
  decide

theorem time_from_numbers_counterexample :
    timeFromNumbers ⟨115, -1⟩ ⟨0, 0⟩ ⟨0, 0⟩ none = some ⟨12, 0, 0, 0, .localZ⟩ ∧
    timeFromNumbers ⟨10, 0⟩ ⟨0, 0⟩ ⟨0, 0⟩ (some 54000000000000) = some ⟨10, 0, 0, 0, .offset 54000⟩ := by
  decide

end Dmn.C14
