import Dmn.Lemmas.TemporalImpl
import Dmn.Lemmas.TemporalBuiltins
import Dmn.Lemmas.TemporalLocal

/-!
# C15 — dates, date-times and durations follow the calendar and the UTC time line

Two layers.

* **Calendar facts** about the specification `Dmn.Cal` (independent of the code), for *all*
  years in `Int`: round trips between `(y, m, d)` and day numbers, strict monotonicity, month
  and year lengths, weekday periodicity, whole months.
* **Implementation model vs. calendar**: `Dmn.Temporal` mirrors `feel/src/temporal/*` and the
  temporal arms of the evaluator.  Where the unchanged code violates the full statement, the
  full statement is kept in a comment, the proved theorem is `…_partial` with the excluding
  hypothesis, and `…_counterexample` proves the violation at a witness the correspondence run
  re-observes on the real code (see `known_findings.json`).

`chrono`/`chrono-tz` are not modelled: inside its year range chrono's calendar is taken to be
`Dmn.Cal` (checked exhaustively for years −1…2400 by the correspondence); zone offsets are a
parameter (`oracle`).
-/

namespace Dmn.C15
open Dmn.Cal Dmn.Temporal

/-! ## The calendar (unbounded) -/

/-- Leap years: divisible by 4, except centuries not divisible by 400. -/
theorem leap_rule (y : Int) :
    isLeap y = true ↔ y % 4 = 0 ∧ (y % 100 ≠ 0 ∨ y % 400 = 0) := isLeap_iff y

/-- A year has 366 days exactly when it is a leap year, else 365 (measured on day numbers). -/
theorem year_length (y : Int) :
    daysFromCivil (y + 1) 1 1 - daysFromCivil y 1 1 = if isLeap y then 366 else 365 := by
  rw [daysFromCivil_closed, daysFromCivil_closed]
  have e1 : ypOf (y + 1) 1 = y := by unfold ypOf; simp
  have e2 : ypOf y 1 = y - 1 := by unfold ypOf; simp
  rw [e1, e2]
  have h := yearStart_succ (y - 1)
  have e3 : y - 1 + 1 = y := by omega
  rw [e3] at h
  rw [h]; split <;> omega

/-- Month lengths: from the first of a month to the first of the next one there are exactly
`daysInMonth` days (30/31, February 28 or 29). -/
theorem month_length (y m : Int) (h1 : 1 ≤ m) (h12 : m ≤ 12) :
    (if m = 12 then daysFromCivil (y + 1) 1 1 else daysFromCivil y (m + 1) 1) -
      daysFromCivil y m 1 = daysInMonth y m := by
  have hm : m = 1 ∨ m = 2 ∨ m = 3 ∨ m = 4 ∨ m = 5 ∨ m = 6 ∨ m = 7 ∨ m = 8 ∨ m = 9 ∨ m = 10 ∨
      m = 11 ∨ m = 12 := by omega
  have hs := yearStart_succ (y - 1)
  have e3 : y - 1 + 1 = y := by omega
  rw [e3] at hs
  rcases hm with h | h | h | h | h | h | h | h | h | h | h | h <;> subst h <;>
    simp [daysFromCivil_closed, ypOf, mpOf, monthStart, daysInMonth] <;>
    (try (rw [hs]; split <;> omega)) <;> omega

theorem month_length_nonvacuous : daysFromCivil 2024 3 1 - daysFromCivil 2024 2 1 = 29 := by decide

/-- Day number → date → day number, and the date is a calendar date. -/
theorem days_roundtrip (z : Int) :
    daysFromCivil (civilFromDays z).1 (civilFromDays z).2.1 (civilFromDays z).2.2 = z ∧
    validDate (civilFromDays z).1 (civilFromDays z).2.1 (civilFromDays z).2.2 = true :=
  daysFromCivil_civilFromDays z

/-- Date → day number → date, for every calendar date of every year. -/
theorem civil_roundtrip (y m d : Int) (hv : validDate y m d = true) :
    civilFromDays (daysFromCivil y m d) = (y, m, d) :=
  civilFromDays_daysFromCivil y m d hv

example : validDate (-400) 2 29 = true := by decide
example : civilFromDays (daysFromCivil (-400) 2 29) = (-400, 2, 29) := by decide

/-- Calendar order of dates is the order of their day numbers. -/
theorem days_strict_mono (y1 m1 d1 y2 m2 d2 : Int)
    (v1 : validDate y1 m1 d1 = true) (v2 : validDate y2 m2 d2 = true) :
    dateLt y1 m1 d1 y2 m2 d2 = true ↔ daysFromCivil y1 m1 d1 < daysFromCivil y2 m2 d2 := by
  constructor
  · exact daysFromCivil_lt_of_dateLt _ _ _ _ _ _ v1 v2
  · intro h
    rcases dateLt_trichotomy y1 m1 d1 y2 m2 d2 with hl | ⟨rfl, rfl, rfl⟩ | hg
    · exact hl
    · omega
    · have := daysFromCivil_lt_of_dateLt _ _ _ _ _ _ v2 v1 hg
      omega

example : validDate 1999 12 31 = true ∧ validDate 2000 1 1 = true ∧
    dateLt 1999 12 31 2000 1 1 = true := by decide

/-- Different calendar dates have different day numbers. -/
theorem days_injective (y1 m1 d1 y2 m2 d2 : Int)
    (v1 : validDate y1 m1 d1 = true) (v2 : validDate y2 m2 d2 = true)
    (h : daysFromCivil y1 m1 d1 = daysFromCivil y2 m2 d2) : (y1, m1, d1) = (y2, m2, d2) := by
  have := civil_roundtrip y1 m1 d1 v1
  rw [h, civil_roundtrip y2 m2 d2 v2] at this
  exact this.symm

example : validDate 2024 2 29 = true ∧ validDate 2024 3 1 = true ∧
    daysFromCivil 2024 2 29 + 1 = daysFromCivil 2024 3 1 := by decide

/-- The next day is the next weekday; Sunday (7) is followed by Monday (1). -/
theorem weekday_succ (z : Int) : weekday (z + 1) = weekday z % 7 + 1 := by
  unfold weekday; omega

theorem weekday_range (z : Int) : 1 ≤ weekday z ∧ weekday z ≤ 7 := by
  unfold weekday; omega

theorem weekday_period (z : Int) : weekday (z + 7) = weekday z := by
  unfold weekday; omega

/-- Anchor: 1970-01-01 was a Thursday. -/
theorem weekday_epoch : weekday (daysFromCivil 1970 1 1) = 4 := by decide

/-! ## Whole months -/

/-- What `wholeMonthsFwd` computes: the largest `n` such that `n` months after the first date
is not after the second — months counted on the scale `12·y + m`, the day of month compared
when the month is reached. -/
theorem wholeMonths_spec (y1 m1 d1 y2 m2 d2 : Int) :
    let n := wholeMonthsFwd y1 m1 d1 y2 m2 d2
    let a := 12 * y1 + m1
    let c := 12 * y2 + m2
    (a + n < c ∨ (a + n = c ∧ d1 ≤ d2)) ∧ ¬ (a + (n + 1) < c ∨ (a + (n + 1) = c ∧ d1 ≤ d2)) := by
  unfold wholeMonthsFwd
  simp only
  split <;> omega

/-- `years and months duration(a, b) = - years and months duration(b, a)` in the
specification. -/
theorem wholeMonths_antisymm (y1 m1 d1 y2 m2 d2 : Int) :
    wholeMonths y1 m1 d1 y2 m2 d2 = - wholeMonths y2 m2 d2 y1 m1 d1 := by
  unfold wholeMonths
  rcases dateLt_trichotomy y1 m1 d1 y2 m2 d2 with hl | ⟨rfl, rfl, rfl⟩ | hg
  · have hn : dateLt y2 m2 d2 y1 m1 d1 = false := by
      cases h : dateLt y2 m2 d2 y1 m1 d1
      · rfl
      · rw [dateLt_iff] at hl h; omega
    simp [hl, hn]
  · have hn : dateLt y1 m1 d1 y1 m1 d1 = false := by
      cases h : dateLt y1 m1 d1 y1 m1 d1
      · rfl
      · rw [dateLt_iff] at h; omega
    simp [hn, wholeMonthsFwd]
  · have hn : dateLt y1 m1 d1 y2 m2 d2 = false := by
      cases h : dateLt y1 m1 d1 y2 m2 d2
      · rfl
      · rw [dateLt_iff] at hg h; omega
    simp [hg, hn]

/-! ## Implementation model vs. calendar: validity -/

/-- `is_valid_date` (chrono first, own leap rule as fallback) is calendar validity for every
representable year (full strength since the repair of F13-day0: the fallback requires
`day >= 1`). -/
theorem valid_iff (y : Int) (m d : Nat) (hy0 : -999999999 ≤ y) (hy1 : y ≤ 999999999) :
    isValidDate y m d = validDate y m d :=
  isValidDate_eq y m d hy0 hy1

example : isValidDate 999999999 2 28 = true ∧ isValidDate 999999999 2 29 = false := by decide

/-- Regression witness of F13-day0: day 0 is rejected, inside and outside chrono's range. -/
theorem valid_iff_day_zero : isValidDate 2021 2 0 = false ∧ isValidDate 999999 2 0 = false := by
  decide

/-! ## Order of dates (after fix 0b125e0: tuple comparison, no chrono) -/

theorem Date.compare_lt_iff (a b : Date) :
    a.compare b = .lt ↔ dateLt a.y a.m a.d b.y b.m b.d = true := by
  rw [dateLt_iff]
  unfold Date.compare
  repeat' split
  all_goals simp
  all_goals omega

theorem Date.compare_gt_iff (a b : Date) :
    a.compare b = .gt ↔ dateLt b.y b.m b.d a.y a.m a.d = true := by
  rw [dateLt_iff]
  unfold Date.compare
  repeat' split
  all_goals simp
  all_goals omega

/-- FEEL `<` on dates is the calendar order, hence — for calendar dates — the order of their
day numbers; for every year (no chrono guard any more). -/
theorem date_order_iff (a b : Date)
    (va : validDate a.y a.m a.d = true) (vb : validDate b.y b.m b.d = true) :
    a.lt b = true ↔ daysFromCivil a.y a.m a.d < daysFromCivil b.y b.m b.d := by
  rw [← days_strict_mono _ _ _ _ _ _ va vb, ← Date.compare_lt_iff]
  unfold Date.lt Date.partialCmp Date.before Date.after
  by_cases hab : a = b
  · subst hab
    have : a.compare a = .eq := by unfold Date.compare; simp
    simp [this]
  · simp only [if_neg hab]
    cases hc : a.compare b <;> simp

example : (⟨999999, 1, 1⟩ : Date).lt ⟨999999, 1, 2⟩ = true := by decide

/-- `<=`, `>`, `>=` follow: the four operators and `=` form the total order of the tuples. -/
theorem date_order_total (a b : Date) :
    (a.lt b = true ∨ a.eq b = true ∨ a.gt b = true) ∧
    (a.le b = (a.lt b || a.eq b)) ∧ (a.ge b = (a.gt b || a.eq b)) ∧ (a.gt b = b.lt a) := by
  have hlt := Date.compare_lt_iff a b
  have hgt := Date.compare_gt_iff a b
  have hlt' := Date.compare_lt_iff b a
  unfold Date.lt Date.le Date.gt Date.ge Date.eq Date.partialCmp Date.before Date.after
  by_cases hab : a = b
  · subst hab
    simp
    decide
  · have hba : ¬ b = a := fun h => hab h.symm
    have hne : (a == b) = false := by simpa using hab
    simp only [if_neg hab, if_neg hba, hne]
    have hneq : a.compare b ≠ .eq := by
      intro h
      apply hab
      unfold Date.compare at h
      repeat' split at h
      all_goals first | cases h | skip
      cases a; cases b; simp at *; omega
    cases hc : a.compare b
    · have := hgt.1
      have h2 : b.compare a = .gt := by
        rw [Date.compare_gt_iff]; exact hlt.1 hc
      simp [h2]
      decide
    · exact absurd hc hneq
    · have h2 : b.compare a = .lt := by
        rw [Date.compare_lt_iff]; exact hgt.1 hc
      simp [h2]

/-! ## Weekday -/

/-- The weekday of a date is the calendar's, for every year (full strength since the repair of
F8-weekday: outside chrono's range the code computes it from the day number). -/
theorem weekday_eq (d : Date) : d.weekday = .val (weekday (daysFromCivil d.y d.m d.d)) := by
  unfold Date.weekday weekdayOf
  rw [toChrono_midnight]
  by_cases hc : chronoDateOk d.y d.m d.d = true
  · rw [if_pos hc]
  · rw [if_neg hc]

example : (⟨2020, 2, 29⟩ : Date).weekday = .val 6 := by decide

/-- Regression witness of F8-weekday. -/
theorem weekday_beyond_chrono :
    validDate 999999 1 1 = true ∧ (⟨999999, 1, 1⟩ : Date).weekday = .val 5 := by decide

/-! ## Date-times on the UTC line -/

-- FULL STATEMENT (not provable of the current code, findings F8-datetime, F6):
--   for all valid date-times with known offsets,
--   compare a b = .val (ord3 (instant a) (instant b))
/-- Where both operands are inside chrono's range (`chronoOk`), comparison of two date-times is
the comparison of their instants on the UTC line — whatever their offsets. -/
theorem datetime_compare_instant_partial (a b : DateTime) (oa ob : Option Int) (x y : Int)
    (hx : resolveOffset oa a.time.z = some x) (hy : resolveOffset ob b.time.z = some y)
    (ha : chronoOk a.date a.time.h a.time.mi a.time.s a.time.ns x = true)
    (hb : chronoOk b.date b.time.h b.time.mi b.time.s b.time.ns y = true)
    (na : a.time.ns < 1000000000) (nb : b.time.ns < 1000000000) :
    Temporal.compare a b oa ob =
      .val (ord3 (instant a.date.y a.date.m a.date.d a.time.h a.time.mi a.time.s a.time.ns x)
                 (instant b.date.y b.date.m b.date.d b.time.h b.time.mi b.time.s b.time.ns y)) := by
  obtain ⟨i, hi⟩ := chronoOk_iff.1 ha
  obtain ⟨j, hj⟩ := chronoOk_iff.1 hb
  obtain ⟨ei, i0, i1, f0, f1, _⟩ := dateTimeOffset_some na hi
  obtain ⟨ej, j0, j1, g0, g1, _⟩ := dateTimeOffset_some nb hj
  unfold Temporal.compare
  simp only [hx, hy, hi, hj]
  rw [Instant.cmp_nanos i j i0 i1 j0 j1 f0 f1 g0 g1, ei, ej]

example :
    Temporal.compare ⟨⟨2021, 1, 1⟩, ⟨1, 0, 0, 0, .offset 3600⟩⟩ ⟨⟨2021, 1, 1⟩, ⟨0, 0, 0, 0, .utc⟩⟩ none none
      = .val .eq := by decide

theorem datetime_compare_counterexample :
    Temporal.compare ⟨⟨999999, 1, 1⟩, ⟨0, 0, 0, 0, .utc⟩⟩ ⟨⟨999999, 1, 2⟩, ⟨0, 0, 0, 0, .utc⟩⟩ none none
      = .none := by decide

-- FULL STATEMENT (not provable of the current code, findings F8-datetime, F19-sub292):
--   subtract a b = .val (instant a - instant b)
/-- The difference of two date-times is the difference of their instants, as long as both are
inside chrono's range and the difference fits `i64` nanoseconds (±292 years). -/
theorem datetime_sub_exact_partial (a b : DateTime) (oa ob : Option Int) (x y : Int)
    (hx : resolveOffset oa a.time.z = some x) (hy : resolveOffset ob b.time.z = some y)
    (ha : chronoOk a.date a.time.h a.time.mi a.time.s a.time.ns x = true)
    (hb : chronoOk b.date b.time.h b.time.mi b.time.s b.time.ns y = true)
    (na : a.time.ns < 1000000000) (nb : b.time.ns < 1000000000)
    (hfit : i64Min ≤
        instant a.date.y a.date.m a.date.d a.time.h a.time.mi a.time.s a.time.ns x -
        instant b.date.y b.date.m b.date.d b.time.h b.time.mi b.time.s b.time.ns y ∧
      instant a.date.y a.date.m a.date.d a.time.h a.time.mi a.time.s a.time.ns x -
        instant b.date.y b.date.m b.date.d b.time.h b.time.mi b.time.s b.time.ns y ≤ i64Max) :
    subtract a b oa ob =
      .val (instant a.date.y a.date.m a.date.d a.time.h a.time.mi a.time.s a.time.ns x -
            instant b.date.y b.date.m b.date.d b.time.h b.time.mi b.time.s b.time.ns y) := by
  obtain ⟨i, hi⟩ := chronoOk_iff.1 ha
  obtain ⟨j, hj⟩ := chronoOk_iff.1 hb
  obtain ⟨ei, i0, i1, f0, f1, _⟩ := dateTimeOffset_some na hi
  obtain ⟨ej, j0, j1, g0, g1, _⟩ := dateTimeOffset_some nb hj
  unfold subtract
  simp only [hx, hy, hi, hj]
  rw [Instant.diff_nanos i j f1 g1, ei, ej, if_pos hfit]

example :
    subtract ⟨⟨2021, 1, 1⟩, ⟨0, 0, 0, 0, .utc⟩⟩ ⟨⟨2020, 1, 1⟩, ⟨0, 0, 0, 0, .offset 3600⟩⟩ none none
      = .val 31626000000000000 := by decide

theorem datetime_sub_counterexample :
    subtract ⟨⟨2300, 1, 1⟩, ⟨0, 0, 0, 0, .utc⟩⟩ ⟨⟨2000, 1, 1⟩, ⟨0, 0, 0, 0, .utc⟩⟩ none none
      = .none := by decide

/-- The UTC line: a local date-time read at `offset` seconds east of UTC is the instant of the
same wall-clock reading in UTC, `offset` seconds earlier; an hour of offset is an hour of
wall-clock time. -/
theorem utc_line_shift (y m d h mi s ns o : Int) :
    instant y m d h mi s ns o = instant y m d h mi s ns 0 - o * nsPerSecond ∧
    instant y m d (h + 1) mi s ns (o + 3600) = instant y m d h mi s ns o := by
  unfold instant nsPerDay nsPerHour nsPerMinute nsPerSecond
  generalize daysFromCivil y m d = z
  omega

/-- Property access returns the written components; the time offset of an explicit offset is
that offset, of UTC zero, of a local time nothing, of a named zone the oracle's. -/
theorem property_access (d : Date) (t : Time) (o : Option Int) :
    (timeOffsetOf ⟨d, t⟩ o =
      match t.z with
      | .utc => some 0 | .localZ => none | .offset n => some n | .zone _ => o) ∧
    (timeZoneOf ⟨d, t⟩ = match t.z with | .zone n => some n | _ => none) := by
  unfold timeOffsetOf timeZoneOf
  cases t.z <;> simp

/-! ## Properties of a date and time are those of its LOCAL date and time -/

/-- The weekday of a date and time is the calendar weekday of its own (local) date — for every
year, every time of day, every offset and zone; the instant on the UTC line plays no part. -/
theorem datetime_weekday_local (dt : DateTime) :
    dt.weekday = .val (weekday (daysFromCivil dt.date.y dt.date.m dt.date.d)) := by
  unfold DateTime.weekday
  exact weekday_eq dt.date

/-- Two date-times with the same date have the same weekday, whatever their times and zones:
`2021-01-01T23:30:00-05:00` (already 2 January in UTC) is a Friday like `2021-01-01T00:30:00+13:00`
(still 31 December in UTC). -/
theorem datetime_weekday_offset_independent (d : Date) (t1 t2 : Time) :
    (⟨d, t1⟩ : DateTime).weekday = (⟨d, t2⟩ : DateTime).weekday := by
  rw [datetime_weekday_local, datetime_weekday_local]

example : (⟨⟨2021, 1, 1⟩, ⟨23, 30, 0, 0, .offset (-18000)⟩⟩ : DateTime).weekday = .val 5 ∧
    (⟨⟨2021, 1, 1⟩, ⟨0, 30, 0, 0, .offset 46800⟩⟩ : DateTime).weekday = .val 5 := by decide

/-- Every property of a date and time is read from the value as written: year, month, day, hour,
minute and second are its components, `weekday` is the calendar's for its date, `time offset` is
the written offset (zero for UTC, nothing for a local time, the zone's offset at that local time for
a named zone), `timezone` the written zone name — none of them depends on the UTC instant. -/
theorem datetime_properties_local (dt : DateTime) (o : Option Int) :
    dtProperty dt o .year = .num dt.date.y ∧ dtProperty dt o .month = .num dt.date.m ∧
    dtProperty dt o .day = .num dt.date.d ∧
    dtProperty dt o .weekday = .num (weekday (daysFromCivil dt.date.y dt.date.m dt.date.d)) ∧
    dtProperty dt o .hour = .num dt.time.h ∧ dtProperty dt o .minute = .num dt.time.mi ∧
    dtProperty dt o .second = .num dt.time.s ∧
    dtProperty dt o .timeOffset =
      (match dt.time.z with
        | .utc => .offset 0 | .localZ => .null | .offset n => .offset n
        | .zone _ => match o with | some n => .offset n | none => .null) ∧
    dtProperty dt o .timezone = (match dt.time.z with | .zone n => .str n | _ => .null) := by
  refine ⟨rfl, rfl, rfl, ?_, rfl, rfl, rfl, ?_, ?_⟩
  · unfold dtProperty
    simp only [datetime_weekday_local, PropVal.ofRes]
  · unfold dtProperty timeOffsetOf
    cases dt.time.z <;> simp
    cases o <;> simp
  · unfold dtProperty timeZoneOf
    cases dt.time.z <;> simp

/-- The properties of a date: its components and the calendar's weekday, for every year. -/
theorem date_properties (d : Date) :
    dateProperty d .year = .num d.y ∧ dateProperty d .month = .num d.m ∧ dateProperty d .day = .num d.d ∧
    dateProperty d .weekday = .num (weekday (daysFromCivil d.y d.m d.d)) := by
  refine ⟨rfl, rfl, rfl, ?_⟩
  unfold dateProperty
  simp only [weekday_eq, PropVal.ofRes]

/-- The properties of a time are the written hour, minute and second (not those of the same
instant in UTC), its written offset and zone name. -/
theorem time_properties_local (t : Time) (today : Date) (o : Option Int) :
    timeProperty t today o .hour = .num t.h ∧ timeProperty t today o .minute = .num t.mi ∧
    timeProperty t today o .second = .num t.s ∧
    (∀ n, t.z = .offset n → timeProperty t today o .timeOffset = .offset n) ∧
    (t.z = .utc → timeProperty t today o .timeOffset = .offset 0) ∧
    (t.z = .localZ → timeProperty t today o .timeOffset = .null) := by
  refine ⟨rfl, rfl, rfl, ?_, ?_, ?_⟩
  · intro n h; simp [timeProperty, dtProperty, timeOffsetOf, h]
  · intro h; simp [timeProperty, dtProperty, timeOffsetOf, h]
  · intro h; simp [timeProperty, dtProperty, timeOffsetOf, h]

/-! ## Weekday by Zeller's congruence; day of year; ISO-8601 week (specification of the calendar built-ins) -/

/-- The weekday computed from the day number (days since 1970-01-01, Monday = 1) is the weekday
Zeller's congruence gives (0 = Saturday … 6 = Friday there), for every month 1…12 of every year
in `Int` and every day number — two independent routes to `day of week`. -/
theorem weekday_zeller (y m d : Int) (h1 : 1 ≤ m) (h12 : m ≤ 12) :
    weekday (daysFromCivil y m d) = (zeller y m d + 5) % 7 + 1 := by
  rw [daysFromCivil_closed]
  have hm : m = 1 ∨ m = 2 ∨ m = 3 ∨ m = 4 ∨ m = 5 ∨ m = 6 ∨ m = 7 ∨ m = 8 ∨ m = 9 ∨ m = 10 ∨
      m = 11 ∨ m = 12 := by omega
  have e1 : ∀ t : Int, t / 400 = t / 100 / 4 := by intro t; omega
  have e2 : ∀ t : Int, t / 4 = 25 * (t / 100) + t % 100 / 4 := by intro t; omega
  have a1 := e1 y
  have a2 := e2 y
  have b1 := e1 (y - 1)
  have b2 := e2 (y - 1)
  rcases hm with h | h | h | h | h | h | h | h | h | h | h | h <;> subst h <;>
    simp [weekday, zeller, yearStart, monthStart, mpOf, ypOf] <;> omega

example : weekday (daysFromCivil 2021 1 1) = 5 ∧ zeller 2021 1 1 = 6 ∧ zeller (-400) 2 29 = 3 := by decide

/-- `day of year` runs from 1 on 1 January to 365, or 366 in a leap year, on 31 December. -/
theorem day_of_year_range (y m d : Int) (hv : validDate y m d = true) :
    1 ≤ dayOfYear y m d ∧ dayOfYear y m d ≤ (if isLeap y then 366 else 365) :=
  dayOfYear_bounds y m d hv

theorem day_of_year_ends (y : Int) :
    dayOfYear y 1 1 = 1 ∧ dayOfYear y 12 31 = (if isLeap y then 366 else 365) ∧
    dayOfYear y 3 1 = (if isLeap y then 61 else 60) := by
  have h := jan1_succ y
  have e : daysFromCivil (y + 1) 1 1 = daysFromCivil y 12 31 + 1 := by
    rw [daysFromCivil_closed, daysFromCivil_closed]
    have hs := yearStart_succ (y - 1)
    have e3 : y - 1 + 1 = y := by omega
    rw [e3] at hs
    simp [ypOf, mpOf, monthStart]
    omega
  have e2 : daysFromCivil y 3 1 = daysFromCivil y 1 1 + (if isLeap y then 60 else 59) := by
    rw [daysFromCivil_closed, daysFromCivil_closed]
    have hs := yearStart_succ (y - 1)
    have e3 : y - 1 + 1 = y := by omega
    rw [e3] at hs
    simp [ypOf, mpOf, monthStart]
    split at hs <;> rename_i hl <;> simp [hl] <;> omega
  unfold dayOfYear
  refine ⟨by omega, ?_, ?_⟩
  · split at h <;> rename_i hl <;> simp [hl] <;> omega
  · split at e2 <;> rename_i hl <;> simp [hl] <;> omega

/-- The day of the year determines the date within its year: counting `day of year − 1` days from
1 January gives the date back; consecutive days have consecutive ordinals. -/
theorem day_of_year_determines (y m d : Int) (hv : validDate y m d = true) :
    civilFromDays (daysFromCivil y 1 1 + (dayOfYear y m d - 1)) = (y, m, d) := by
  have e : daysFromCivil y 1 1 + (dayOfYear y m d - 1) = daysFromCivil y m d := by
    unfold dayOfYear; omega
  rw [e]
  exact civilFromDays_daysFromCivil y m d hv

example : validDate 2024 12 31 = true ∧ dayOfYear 2024 12 31 = 366 ∧ dayOfYear 2023 3 1 = 60 := by decide

/-- ISO-8601: all seven days Monday … Sunday of a week have the same week-numbering year and
week number. -/
theorem iso_week_constant_on_week (z k : Int) (hk0 : 0 ≤ k) (hk : k ≤ 6) (hmon : weekday z = 1) :
    isoWeekOfDay (z + k) = isoWeekOfDay z := by
  unfold isoWeekOfDay
  rw [isoThursday_same_week z k hk0 hk hmon]

example : weekday (daysFromCivil 2020 12 28) = 1 ∧
    isoWeekOfDay (daysFromCivil 2020 12 28) = (2020, 53) ∧ isoWeekOfDay (daysFromCivil 2021 1 3) = (2020, 53) ∧
    isoWeekOfDay (daysFromCivil 2021 1 4) = (2021, 1) := by decide

/-- ISO-8601: 4 January always lies in week 1 of its own year (week 1 is the week with the year's
first Thursday). -/
theorem iso_week_jan4 (y : Int) : isoWeekOfDay (daysFromCivil y 1 4) = (y, 1) := by
  have h4 : daysFromCivil y 1 4 = daysFromCivil y 1 1 + 3 := by
    have := daysFromCivil_add_day y 1 1 3
    simpa using this
  have hn := jan1_succ y
  obtain ⟨_, hlo, hhi⟩ := isoThursday_facts (daysFromCivil y 1 4)
  have hy : (civilFromDays (isoThursday (daysFromCivil y 1 4))).1 = y := by
    apply year_of_day
    · omega
    · split at hn <;> omega
  unfold isoWeekOfDay
  simp only [hy]
  congr 1
  omega

/-- The week number lies in 1 … 53, and the week-numbering year is the calendar year of the
week's Thursday: at most one year away from the calendar year of the day itself. -/
theorem iso_week_range (z : Int) :
    1 ≤ (isoWeekOfDay z).2 ∧ (isoWeekOfDay z).2 ≤ 53 ∧
    (civilFromDays z).1 - 1 ≤ (isoWeekOfDay z).1 ∧ (isoWeekOfDay z).1 ≤ (civilFromDays z).1 + 1 := by
  obtain ⟨_, hlo, hhi⟩ := isoThursday_facts z
  obtain ⟨a0, a1⟩ := day_in_its_year (isoThursday z)
  obtain ⟨b0, b1⟩ := day_in_its_year z
  have hn := jan1_succ (civilFromDays (isoThursday z)).1
  have hlen : daysFromCivil ((civilFromDays (isoThursday z)).1 + 1) 1 1 ≤
      daysFromCivil (civilFromDays (isoThursday z)).1 1 1 + 366 := by
    split at hn <;> omega
  unfold isoWeekOfDay
  simp only
  have c1 := jan1_succ ((civilFromDays (isoThursday z)).1 + 1)
  have c2 := jan1_succ ((civilFromDays z).1 + 1)
  refine ⟨by omega, by omega, ?_, ?_⟩
  · -- the Thursday is at most three days before `z`: its year is not more than one year earlier
    by_cases h : (civilFromDays (isoThursday z)).1 + 1 + 1 ≤ (civilFromDays z).1
    · have hm := jan1_mono h
      exfalso
      split at c1 <;> omega
    · omega
  · by_cases h : (civilFromDays z).1 + 1 + 1 ≤ (civilFromDays (isoThursday z)).1
    · have hm := jan1_mono h
      exfalso
      split at c2 <;> omega
    · omega

/-- From one week to the next the week number goes up by one, or the next week is week 1 of the
next week-numbering year. -/
theorem iso_week_next (z : Int) :
    isoWeekOfDay (z + 7) = ((isoWeekOfDay z).1, (isoWeekOfDay z).2 + 1) ∨
    isoWeekOfDay (z + 7) = ((isoWeekOfDay z).1 + 1, 1) := by
  obtain ⟨a0, a1⟩ := day_in_its_year (isoThursday z)
  have hn := jan1_succ (civilFromDays (isoThursday z)).1
  have hn2 := jan1_succ ((civilFromDays (isoThursday z)).1 + 1)
  unfold isoWeekOfDay
  simp only [isoThursday_next_week]
  by_cases h : isoThursday z + 7 < daysFromCivil ((civilFromDays (isoThursday z)).1 + 1) 1 1
  · left
    have hy := year_of_day (civilFromDays (isoThursday z)).1 (isoThursday z + 7) (by omega) h
    rw [hy]
    congr 1
    omega
  · right
    have hy := year_of_day ((civilFromDays (isoThursday z)).1 + 1) (isoThursday z + 7) (by omega)
      (by split at hn2 <;> omega)
    rw [hy]
    congr 1
    omega

/-! ## `date(y, m, d)` from numbers -/

/-- `date(y, m, d)` is a date exactly when the three numbers are integers that name a day of
the calendar with a year in −999999999…999999999, and it is that date; everything else is null
(full strength since the repair of F13-round, F13-narrow and F13-year). -/
theorem date_from_numbers_rejects (yr mo dy : Dec) :
    dateFromNumbers yr mo dy =
      if yr.isInt && mo.isInt && dy.isInt && decide (-999999999 ≤ yr.intVal ∧ yr.intVal ≤ 999999999) &&
          validDate yr.intVal mo.intVal dy.intVal then
        some ⟨yr.intVal, mo.intVal.toNat, dy.intVal.toNat⟩
      else none := by
  unfold dateFromNumbers
  by_cases hi : (yr.isInt && mo.isInt && dy.isInt) = true
  · simp only [hi, if_true, Bool.true_and]
    generalize yr.intVal = y
    generalize mo.intVal = m
    generalize dy.intVal = d
    by_cases hy : -999999999 ≤ y ∧ y ≤ 999999999
    · by_cases hmd : (1 ≤ m ∧ m ≤ 12) ∧ (1 ≤ d ∧ d ≤ 31)
      · have hm' : ((m.toNat : Nat) : Int) = m := by omega
        have hd' : ((d.toNat : Nat) : Int) = d := by omega
        have hv := isValidDate_eq y m.toNat d.toNat hy.1 hy.2
        rw [hm', hd'] at hv
        simp only [hy, hmd, and_self, if_true, hv, decide_true, Bool.true_and]
      · have hv : validDate y m d = false := by
          cases h : validDate y m d
          · rfl
          · rw [validDate_iff] at h
            have dm : daysInMonth y m ≤ 31 := by
              unfold daysInMonth; split <;> (try split) <;> (try split) <;> (try split) <;> omega
            omega
        simp [hy, hmd, hv]
    · simp [hy]
  · simp only [hi, Bool.false_eq_true, if_false, Bool.false_and]

example : dateFromNumbers ⟨2020, 0⟩ ⟨2, 0⟩ ⟨29, 0⟩ = some ⟨2020, 2, 29⟩ ∧
    dateFromNumbers ⟨2021, 0⟩ ⟨2, 0⟩ ⟨29, 0⟩ = none ∧
    dateFromNumbers ⟨20200, -1⟩ ⟨2, 0⟩ ⟨29, 0⟩ = some ⟨2020, 2, 29⟩ := by decide

/-- Regression witnesses of F13-narrow, F13-round and F13-year: all null now. -/
theorem date_from_numbers_rejects_instances :
    dateFromNumbers ⟨2021, 0⟩ ⟨257, 0⟩ ⟨1, 0⟩ = none ∧
    dateFromNumbers ⟨2021, 0⟩ ⟨15, -1⟩ ⟨25, -1⟩ = none ∧
    dateFromNumbers ⟨2021, 0⟩ ⟨15, -1⟩ ⟨5, -1⟩ = none ∧
    dateFromNumbers ⟨3000000000, 0⟩ ⟨1, 0⟩ ⟨1, 0⟩ = none := by decide

/-! ## Years-and-months duration between two dates -/

/-- `years and months duration(from, to)` is the signed number of whole months between the two
dates, for all dates (full strength since the repair of F20-ym: the code now branches on the
full date order). -/
theorem ym_whole_months (frm to : Date) :
    to.ymDuration frm = wholeMonths frm.y frm.m frm.d to.y to.m to.d := by
  unfold Date.ymDuration wholeMonths wholeMonthsFwd
  by_cases hy : to.compare frm = .lt
  · have hl : dateLt to.y to.m to.d frm.y frm.m frm.d = true := (Date.compare_lt_iff to frm).1 hy
    simp only [if_pos hy, hl, if_true]
    split <;> split <;> omega
  · have hl : dateLt to.y to.m to.d frm.y frm.m frm.d = false := by
      cases hh : dateLt to.y to.m to.d frm.y frm.m frm.d
      · rfl
      · exact absurd ((Date.compare_lt_iff to frm).2 hh) hy
    simp only [if_neg hy, hl, Bool.false_eq_true, if_false]
    split <;> split <;> omega

example : (⟨2013, 8, 24⟩ : Date).ymDuration ⟨2011, 12, 22⟩ = 20 ∧
    (⟨2011, 12, 22⟩ : Date).ymDuration ⟨2013, 8, 24⟩ = -20 := by decide

/-- Regression witnesses of F20-ym (same year, `to` before `from`). -/
theorem ym_whole_months_same_year :
    (⟨2021, 1, 15⟩ : Date).ymDuration ⟨2021, 3, 10⟩ = -1 ∧
    (⟨2021, 1, 10⟩ : Date).ymDuration ⟨2021, 3, 15⟩ = -2 ∧
    (⟨2021, 3, 10⟩ : Date).ymDuration ⟨2021, 3, 15⟩ = 0 := by decide

/-! ## Duration components and arithmetic -/

-- FULL STATEMENT (not provable of the current code, `as usize` in get_days):
--   without the bound on the number of days
/-- days·24h + hours·1h + minutes·1min + seconds·1s + the sub-second rest = |total|, with hours,
minutes, seconds in range; `get_days` wraps at 2⁶⁴ days. -/
theorem dur_components_sum_partial (n : Int)
    (hfit : (n.natAbs : Int) / nsPerDay < 18446744073709551616) :
    dtdDays n * nsPerDay + dtdHours n * nsPerHour + dtdMinutes n * nsPerMinute +
        dtdSeconds n * nsPerSecond + durNanos n = n.natAbs ∧
    0 ≤ dtdDays n ∧ 0 ≤ dtdHours n ∧ dtdHours n < 24 ∧ 0 ≤ dtdMinutes n ∧ dtdMinutes n < 60 ∧
    0 ≤ dtdSeconds n ∧ dtdSeconds n < 60 ∧ 0 ≤ durNanos n ∧ durNanos n < nsPerSecond := by
  unfold dtdDays dtdHours dtdMinutes dtdSeconds durNanos usize at *
  simp only [nsPerDay, nsPerHour, nsPerMinute, nsPerSecond] at *
  have h0 := natAbs_cast_nonneg n
  generalize (n.natAbs : Int) = a at *
  omega

example : dtdDays (-93600000000000) = 1 ∧ dtdHours (-93600000000000) = 2 := by decide

theorem dur_components_sum_counterexample :
    dtdDays (18446744073709551616 * nsPerDay) = 0 := by decide

/-- years·12 + months = total, months within ±11, both components carrying the sign of the
duration. -/
theorem ym_components_sum (n : Int) :
    ymdYears n * 12 + ymdMonths n = n ∧ -12 < ymdMonths n ∧ ymdMonths n < 12 ∧
    (0 ≤ n → 0 ≤ ymdMonths n ∧ 0 ≤ ymdYears n) ∧ (n ≤ 0 → ymdMonths n ≤ 0 ∧ ymdYears n ≤ 0) :=
  ymd_sum n

/-- Durations of either kind under `+`, unary `-` and binary `-` are the ordered abelian group
of their total lengths (full strength since the repair of F21-*: the evaluator has the arms
for years-and-months durations and for the difference of days-and-time durations). -/
theorem dur_add_neg_cmp (a b c : Int) :
    feelAddDtd a b = some (a + b) ∧ feelNegDtd a = some (-a) ∧ feelSubDtd a b = some (a - b) ∧
    feelAddYmd a b = some (a + b) ∧ feelNegYmd a = some (-a) ∧ feelSubYmd a b = some (a - b) ∧
    feelAddDtd a b = feelAddDtd b a ∧ feelAddYmd a b = feelAddYmd b a ∧
    (feelAddDtd a b).bind (feelAddDtd · c) = (feelAddDtd b c).bind (feelAddDtd a ·) ∧
    (feelAddYmd a b).bind (feelAddYmd · c) = (feelAddYmd b c).bind (feelAddYmd a ·) ∧
    (feelNegDtd a).bind (feelAddDtd a ·) = some 0 ∧ (feelNegYmd a).bind (feelAddYmd a ·) = some 0 ∧
    (feelNegDtd b).bind (feelAddDtd a ·) = feelSubDtd a b ∧
    (feelNegYmd b).bind (feelAddYmd a ·) = feelSubYmd a b ∧
    (a < b → a + c < b + c) := by
  unfold feelAddDtd feelNegDtd feelSubDtd feelAddYmd feelNegYmd feelSubYmd
  simp
  omega

/-- Regression witnesses of F21-*. -/
theorem dur_add_neg_cmp_instances :
    feelAddYmd 12 1 = some 13 ∧ feelNegYmd 12 = some (-12) ∧ feelSubYmd 12 1 = some 11 ∧
    feelSubDtd 86400000000000 3600000000000 = some 82800000000000 := by decide

/-! ## The arithmetic of date-times the code has: differences, order and sums of differences

`+` and binary `-` of the evaluator know two date-and-times (difference) and two durations of one kind;
a date, a time or a date and time plus or minus a duration is null (`temporal_add_sub_domain` — not named
by the property, not implemented). The laws below are therefore stated on what exists: the difference of
date-times, their order, and sums of differences. They need no range guard: whenever the differences are
values at all, the laws hold (the ranges are inside `subtract … = .val _`). -/

/-- `(a − b) + (b − c) = a − c`: when the first two differences are values and their sum fits the `i64`
nanoseconds of a difference, the third difference is that sum; in any case, when all three are values the
sum of durations the evaluator computes is the third. -/
theorem datetime_sub_chasles (a b c : DateTime) (oa ob oc : Option Int) (p q : Int)
    (na : a.time.ns < 1000000000) (nb : b.time.ns < 1000000000) (nc : c.time.ns < 1000000000)
    (hab : subtract a b oa ob = .val p) (hbc : subtract b c ob oc = .val q) :
    (i64Min ≤ p + q ∧ p + q ≤ i64Max → subtract a c oa oc = .val (p + q)) ∧
    (∀ r, subtract a c oa oc = .val r → feelAddDtd p q = some r) := by
  obtain ⟨x, y, i, j, ha, hb, ep, _, _⟩ := subtract_val hab
  obtain ⟨y', z, j', k, hb', hc, eq, _, _⟩ := subtract_val hbc
  obtain ⟨_, ej⟩ := DateTime.resolves_unique hb hb'
  subst ej
  obtain ⟨_, _, _, _, fi⟩ := DateTime.resolves_inst na ha
  obtain ⟨_, _, _, _, fj⟩ := DateTime.resolves_inst nb hb
  obtain ⟨_, _, _, _, fk⟩ := DateTime.resolves_inst nc hc
  rw [Instant.diff_nanos i j fi fj] at ep
  rw [Instant.diff_nanos j k fj fk] at eq
  have key : i.diffNanos k = p + q := by rw [Instant.diff_nanos i k fi fk]; omega
  have hs := subtract_of ha hc
  rw [key] at hs
  constructor
  · intro hf; rw [hs, if_pos hf]
  · intro r hr
    rw [hs] at hr
    split at hr
    · injection hr with hr; simp [feelAddDtd, hr]
    · cases hr

example :
    subtract ⟨⟨2021, 3, 1⟩, ⟨0, 0, 0, 0, .offset 3600⟩⟩ ⟨⟨2021, 2, 28⟩, ⟨23, 0, 0, 0, .utc⟩⟩ none none = .val 0 ∧
    subtract ⟨⟨2021, 2, 28⟩, ⟨23, 0, 0, 0, .utc⟩⟩ ⟨⟨2021, 2, 28⟩, ⟨12, 0, 0, 500, .offset (-7200)⟩⟩ none none
      = .val 32399999999500 ∧
    subtract ⟨⟨2021, 3, 1⟩, ⟨0, 0, 0, 0, .offset 3600⟩⟩ ⟨⟨2021, 2, 28⟩, ⟨12, 0, 0, 500, .offset (-7200)⟩⟩ none none
      = .val 32399999999500 := by decide

/-- `b − a = −(a − b)`, and `a − a = PT0S`. (`i64::MIN` nanoseconds have no negative in the range of a
difference.) -/
theorem datetime_sub_antisymm (a b : DateTime) (oa ob : Option Int) (p : Int)
    (na : a.time.ns < 1000000000) (nb : b.time.ns < 1000000000)
    (hab : subtract a b oa ob = .val p) :
    (p ≠ i64Min → subtract b a ob oa = .val (-p) ∧ feelNegDtd p = some (-p)) ∧
    subtract a a oa oa = .val 0 ∧ subtract b b ob ob = .val 0 := by
  obtain ⟨x, y, i, j, ha, hb, ep, h0, h1⟩ := subtract_val hab
  obtain ⟨_, _, _, _, fi⟩ := DateTime.resolves_inst na ha
  obtain ⟨_, _, _, _, fj⟩ := DateTime.resolves_inst nb hb
  rw [Instant.diff_nanos i j fi fj] at ep
  refine ⟨?_, ?_, ?_⟩
  · intro hp
    have key : j.diffNanos i = -p := by rw [Instant.diff_nanos j i fj fi]; omega
    rw [subtract_of hb ha, key, if_pos (by unfold i64Min i64Max at *; omega)]
    exact ⟨rfl, rfl⟩
  · have key : i.diffNanos i = 0 := by rw [Instant.diff_nanos i i fi fi]; omega
    rw [subtract_of ha ha, key, if_pos (by decide)]
  · have key : j.diffNanos j = 0 := by rw [Instant.diff_nanos j j fj fj]; omega
    rw [subtract_of hb hb, key, if_pos (by decide)]

/-- The order of two date-times is the sign of their difference; they are equal exactly when the
difference is `PT0S`. -/
theorem datetime_sub_sign (a b : DateTime) (oa ob : Option Int) (p : Int)
    (na : a.time.ns < 1000000000) (nb : b.time.ns < 1000000000)
    (hab : subtract a b oa ob = .val p) :
    Temporal.compare a b oa ob = .val (ord3 p 0) ∧
    (Temporal.compare a b oa ob = .val .eq ↔ p = 0) ∧
    (dtBefore a b oa ob = .val true ↔ p < 0) := by
  obtain ⟨x, y, i, j, ha, hb, ep, _, _⟩ := subtract_val hab
  obtain ⟨_, i0, i1, f0, f1⟩ := DateTime.resolves_inst na ha
  obtain ⟨_, j0, j1, g0, g1⟩ := DateTime.resolves_inst nb hb
  rw [Instant.diff_nanos i j f1 g1] at ep
  have hc : Temporal.compare a b oa ob = .val (ord3 p 0) := by
    rw [compare_of ha hb, Instant.cmp_nanos i j i0 i1 j0 j1 f0 f1 g0 g1, ep, ord3_zero]
  refine ⟨hc, ?_, ?_⟩
  · rw [hc]
    constructor
    · intro h; injection h with h; have := (ord3_eq_iff p 0).1 h; exact this
    · intro h; rw [(ord3_eq_iff p 0).2 h]
  · unfold dtBefore
    rw [hc]
    constructor
    · intro h
      injection h with h
      have : ord3 p 0 = .lt := by
        cases ho : ord3 p 0 <;> rw [ho] at h <;> first | rfl | cases h
      exact (ord3_lt_iff p 0).1 this
    · intro h; rw [(ord3_lt_iff p 0).2 h]; rfl

/-- Order is compatible with subtraction: `a < b ↔ a − c < b − c` (and `=`, `>` alike) — the order of two
date-times is the order of their distances from any third one. In particular `a − c = b − c` only for
equal `a`, `b`. -/
theorem datetime_order_sub_compat (a b c : DateTime) (oa ob oc : Option Int) (p q : Int)
    (na : a.time.ns < 1000000000) (nb : b.time.ns < 1000000000) (nc : c.time.ns < 1000000000)
    (hac : subtract a c oa oc = .val p) (hbc : subtract b c ob oc = .val q) :
    Temporal.compare a b oa ob = .val (ord3 p q) ∧
    (p = q → Temporal.compare a b oa ob = .val .eq) := by
  obtain ⟨x, z, i, k, ha, hc, ep, _, _⟩ := subtract_val hac
  obtain ⟨y, z', j, k', hb, hc', eq, _, _⟩ := subtract_val hbc
  obtain ⟨_, ek⟩ := DateTime.resolves_unique hc hc'
  subst ek
  obtain ⟨_, i0, i1, f0, f1⟩ := DateTime.resolves_inst na ha
  obtain ⟨_, j0, j1, g0, g1⟩ := DateTime.resolves_inst nb hb
  obtain ⟨_, _, _, _, fk⟩ := DateTime.resolves_inst nc hc
  rw [Instant.diff_nanos i k f1 fk] at ep
  rw [Instant.diff_nanos j k g1 fk] at eq
  have hc : Temporal.compare a b oa ob = .val (ord3 p q) := by
    rw [compare_of ha hb, Instant.cmp_nanos i j i0 i1 j0 j1 f0 f1 g0 g1, ep, eq, ord3_sub]
  exact ⟨hc, fun h => by rw [hc, (ord3_eq_iff p q).2 h]⟩

example :
    subtract ⟨⟨2021, 1, 1⟩, ⟨0, 30, 0, 0, .offset 3600⟩⟩ ⟨⟨2020, 1, 1⟩, ⟨0, 0, 0, 0, .utc⟩⟩ none none
      = .val 31620600000000000 ∧
    subtract ⟨⟨2020, 12, 31⟩, ⟨23, 45, 0, 0, .utc⟩⟩ ⟨⟨2020, 1, 1⟩, ⟨0, 0, 0, 0, .utc⟩⟩ none none
      = .val 31621500000000000 ∧
    Temporal.compare ⟨⟨2021, 1, 1⟩, ⟨0, 30, 0, 0, .offset 3600⟩⟩ ⟨⟨2020, 12, 31⟩, ⟨23, 45, 0, 0, .utc⟩⟩ none none
      = .val .lt := by decide

/-- Comparison of date-times is a total order wherever it answers: swapping the operands swaps the
answer, `<` is transitive, and two values that both compare with a third compare with each other. -/
theorem datetime_compare_total_order (a b c : DateTime) (oa ob oc : Option Int)
    (na : a.time.ns < 1000000000) (nb : b.time.ns < 1000000000) (nc : c.time.ns < 1000000000) :
    (Temporal.compare a b oa ob = .val .lt ↔ Temporal.compare b a ob oa = .val .gt) ∧
    (Temporal.compare a b oa ob = .val .eq ↔ Temporal.compare b a ob oa = .val .eq) ∧
    (Temporal.compare a b oa ob = .val .lt → Temporal.compare b c ob oc = .val .lt →
      Temporal.compare a c oa oc = .val .lt) ∧
    (∀ o1 o2, Temporal.compare a b oa ob = .val o1 → Temporal.compare b c ob oc = .val o2 →
      ∃ o3, Temporal.compare a c oa oc = .val o3) := by
  have swap : ∀ (u v : DateTime) (ou ov : Option Int), u.time.ns < 1000000000 → v.time.ns < 1000000000 →
      ∀ o, Temporal.compare u v ou ov = .val o →
        ∃ m n : Int, o = ord3 m n ∧ Temporal.compare v u ov ou = .val (ord3 n m) := by
    intro u v ou ov nu nv o h
    obtain ⟨x, y, i, j, hu, hv, eo⟩ := compare_val h
    obtain ⟨_, i0, i1, f0, f1⟩ := DateTime.resolves_inst nu hu
    obtain ⟨_, j0, j1, g0, g1⟩ := DateTime.resolves_inst nv hv
    refine ⟨i.nanos, j.nanos, ?_, ?_⟩
    · rw [eo, Instant.cmp_nanos i j i0 i1 j0 j1 f0 f1 g0 g1]
    · rw [compare_of hv hu, Instant.cmp_nanos j i j0 j1 i0 i1 g0 g1 f0 f1]
  refine ⟨⟨?_, ?_⟩, ⟨?_, ?_⟩, ?_, ?_⟩
  · intro h
    obtain ⟨m, n, e, h'⟩ := swap a b oa ob na nb _ h
    rw [h', (ord3_gt_iff n m).2 ((ord3_lt_iff m n).1 e.symm)]
  · intro h
    obtain ⟨m, n, e, h'⟩ := swap b a ob oa nb na _ h
    rw [h', (ord3_lt_iff n m).2 ((ord3_gt_iff m n).1 e.symm)]
  · intro h
    obtain ⟨m, n, e, h'⟩ := swap a b oa ob na nb _ h
    rw [h', (ord3_eq_iff n m).2 ((ord3_eq_iff m n).1 e.symm).symm]
  · intro h
    obtain ⟨m, n, e, h'⟩ := swap b a ob oa nb na _ h
    rw [h', (ord3_eq_iff n m).2 ((ord3_eq_iff m n).1 e.symm).symm]
  · intro h1 h2
    obtain ⟨x, y, i, j, ha, hb, e1⟩ := compare_val h1
    obtain ⟨y', z, j', k, hb', hc, e2⟩ := compare_val h2
    obtain ⟨_, ej⟩ := DateTime.resolves_unique hb hb'
    subst ej
    obtain ⟨_, i0, i1, f0, f1⟩ := DateTime.resolves_inst na ha
    obtain ⟨_, j0, j1, g0, g1⟩ := DateTime.resolves_inst nb hb
    obtain ⟨_, k0, k1, l0, l1⟩ := DateTime.resolves_inst nc hc
    rw [Instant.cmp_nanos i j i0 i1 j0 j1 f0 f1 g0 g1] at e1
    rw [Instant.cmp_nanos j k j0 j1 k0 k1 g0 g1 l0 l1] at e2
    rw [compare_of ha hc, Instant.cmp_nanos i k i0 i1 k0 k1 f0 f1 l0 l1,
      ord3_trans _ _ _ e1.symm e2.symm]
  · intro o1 o2 h1 h2
    obtain ⟨x, y, i, j, ha, hb, _⟩ := compare_val h1
    obtain ⟨y', z, j', k, hb', hc, _⟩ := compare_val h2
    exact ⟨_, compare_of ha hc⟩

example :
    Temporal.compare ⟨⟨2021, 1, 1⟩, ⟨0, 30, 0, 0, .offset 3600⟩⟩ ⟨⟨2020, 12, 31⟩, ⟨23, 45, 0, 0, .utc⟩⟩ none none
      = .val .lt ∧
    Temporal.compare ⟨⟨2020, 12, 31⟩, ⟨23, 45, 0, 0, .utc⟩⟩ ⟨⟨2020, 12, 31⟩, ⟨19, 0, 0, 0, .offset (-18000)⟩⟩ none none
      = .val .lt := by decide

/-- What `+` and binary `-` do on temporal values (`build_add`, `build_sub`): a sum is a value only for two
durations of one kind (years-and-months: while the months fit `i64`); a difference only for two durations of
one kind or two date-and-times. A date, a time or a date and time plus or minus a duration, the difference of
two dates or two times: null (not implemented; the property names none of them). -/
theorem temporal_add_sub_domain (a b : Value) (oa ob : Option Int) :
    (feelAdd a b ≠ .null →
      (∃ x y, a = .dtDur x ∧ b = .dtDur y ∧ feelAdd a b = .dtDur (x + y)) ∨
      (∃ x y, a = .ymDur x ∧ b = .ymDur y ∧ feelAdd a b = .ymDur (x + y))) ∧
    (feelSub a b oa ob ≠ .null →
      (∃ x y, a = .dtDur x ∧ b = .dtDur y ∧ feelSub a b oa ob = .dtDur (x - y)) ∨
      (∃ x y, a = .ymDur x ∧ b = .ymDur y ∧ feelSub a b oa ob = .ymDur (x - y)) ∨
      (∃ x y, a = .dateTime x ∧ b = .dateTime y)) := by
  constructor
  · intro h
    cases a <;> cases b <;> simp [feelAdd] at h ⊢
    rename_i x y
    by_cases hf : i64Min ≤ x + y ∧ x + y ≤ i64Max
    · simp [checkedI64, hf]
    · simp [checkedI64, hf] at h
  · intro h
    cases a <;> cases b <;> simp [feelSub] at h ⊢
    rename_i x y
    by_cases hf : i64Min ≤ x - y ∧ x - y ≤ i64Max
    · simp [checkedI64, hf]
    · simp [checkedI64, hf] at h

example :
    feelAdd (.date ⟨2021, 1, 31⟩) (.ymDur 1) = .null ∧ feelAdd (.ymDur 1) (.date ⟨2021, 1, 31⟩) = .null ∧
    feelAdd (.dateTime ⟨⟨2021, 1, 31⟩, ⟨0, 0, 0, 0, .utc⟩⟩) (.dtDur 1) = .null ∧
    feelSub (.date ⟨2021, 1, 31⟩) (.date ⟨2021, 1, 1⟩) none none = .null ∧
    feelAdd (.ymDur 9223372036854775807) (.ymDur 1) = .null ∧
    feelAdd (.dtDur 86400000000000) (.dtDur 1) = .dtDur 86400000000001 ∧
    feelSub (.dateTime ⟨⟨2021, 1, 1⟩, ⟨0, 0, 0, 0, .utc⟩⟩) (.dateTime ⟨⟨2020, 1, 1⟩, ⟨0, 0, 0, 0, .offset 3600⟩⟩)
      none none = .dtDur 31626000000000000 := by decide

/-! ## Whole months and the addition of months (specification)

The code has no `date + years and months duration` (`temporal_add_sub_domain`); the specification has it
(`Cal.addMonths`: the month is shifted, the day clamped to the last day of the target month — the XSD / FEEL
rule), and "the number of whole months between two dates" is stated against it. -/

/-- Adding months to a calendar date gives a calendar date, `n` months away on the scale `12·y + m`, with the
same day of the month unless that month is shorter — then its last day (and exactly then the addition is said
to clamp). -/
theorem addMonths_valid (y m d n ry rm rd : Int) (hv : validDate y m d = true)
    (hr : addMonths y m d n = (ry, rm, rd)) :
    validDate ry rm rd = true ∧ 12 * ry + rm = 12 * y + m + n ∧ 1 ≤ rm ∧ rm ≤ 12 ∧
    (rd = d ∨ (rd = daysInMonth ry rm ∧ rd < d)) ∧ (addMonthsClamps y m d n = true ↔ rd < d) := by
  simp only [validDate, Bool.and_eq_true, decide_eq_true_eq] at hv
  obtain ⟨⟨⟨h1, h12⟩, hd1⟩, hdm⟩ := hv
  have hdim : ∀ yy mm : Int, 1 ≤ mm → mm ≤ 12 → 28 ≤ daysInMonth yy mm ∧ daysInMonth yy mm ≤ 31 := by
    intro yy mm a b
    unfold daysInMonth
    split
    · omega
    · split
      · omega
      · split
        · split <;> omega
        · omega
  simp only [addMonths, monthShift, Prod.mk.injEq] at hr
  obtain ⟨e1, e2, e3⟩ := hr
  have hcl : addMonthsClamps y m d n = true ↔ daysInMonth ry rm < d := by
    have hsft : monthShift y m n = (ry, rm) := by simp only [monthShift, e1, e2]
    unfold addMonthsClamps
    rw [hsft]
    simp
  rw [hcl]
  simp only [validDate, Bool.and_eq_true, decide_eq_true_eq]
  have hm1 : 1 ≤ rm := by omega
  have hm2 : rm ≤ 12 := by omega
  obtain ⟨g1, g2⟩ := hdim ry rm hm1 hm2
  rw [e1, e2] at e3
  generalize daysInMonth ry rm = dim at *
  refine ⟨⟨⟨⟨hm1, hm2⟩, by omega⟩, by omega⟩, by omega, hm1, hm2, by omega, by omega⟩

example : validDate 2020 1 31 = true ∧ addMonths 2020 1 31 1 = (2020, 2, 29) ∧
    addMonths 2021 1 31 1 = (2021, 2, 28) ∧ addMonths 2021 1 31 (-2) = (2020, 11, 30) ∧
    addMonths 2021 12 15 1 = (2022, 1, 15) ∧ addMonths (-1) 1 31 (-1) = (-2, 12, 31) := by decide

/-- Without clamping, adding months is an action of the integers: `(a + n) + k = a + (n + k)` and
`(a + n) − n = a`. (With clamping it is not: 31 January + 1 month − 1 month = 28 January.) -/
theorem addMonths_add (y m d n k ry rm rd : Int) (hv : validDate y m d = true)
    (hc : addMonthsClamps y m d n = false) (hr : addMonths y m d n = (ry, rm, rd)) :
    addMonths ry rm rd k = addMonths y m d (n + k) ∧ addMonths ry rm rd (-n) = (y, m, d) := by
  obtain ⟨_, hs, hm1, hm2, _, hcl⟩ := addMonths_valid y m d n ry rm rd hv hr
  have hrd : rd = d := by
    have : ¬ rd < d := fun h => by rw [hcl.2 h] at hc; cases hc
    simp only [addMonths, monthShift, Prod.mk.injEq] at hr
    omega
  simp only [validDate, Bool.and_eq_true, decide_eq_true_eq] at hv
  obtain ⟨⟨⟨h1, h12⟩, hd1⟩, hdm⟩ := hv
  subst hrd
  simp only [addMonths, monthShift]
  have e1 : 12 * ry + (rm - 1) + k = 12 * y + (m - 1) + (n + k) := by omega
  have e2 : 12 * ry + (rm - 1) + -n = 12 * y + (m - 1) := by omega
  have e3 : (12 * y + (m - 1)) / 12 = y := by omega
  have e4 : (12 * y + (m - 1)) % 12 + 1 = m := by omega
  rw [e1, e2, e3, e4]
  refine ⟨rfl, ?_⟩
  have : min rd (daysInMonth y m) = rd := by omega
  rw [this]

example : addMonthsClamps 2021 1 31 1 = true ∧ addMonths 2021 1 31 1 = (2021, 2, 28) ∧
    addMonths 2021 2 28 (-1) = (2021, 1, 28) ∧
    addMonthsClamps 2021 1 28 1 = false ∧ addMonths 2021 1 28 1 = (2021, 2, 28) := by decide

/-- The whole months between a date and the date `n ≥ 0` months later are `n` — unless the addition clamped:
then one less (31 January → 28 February is no whole month); between a date and the date `n` months
EARLIER they are `−n` in every case. -/
theorem wholeMonths_addMonths (y m d n ry rm rd by' bm bd : Int) (hv : validDate y m d = true) (hn : 0 ≤ n)
    (hr : addMonths y m d n = (ry, rm, rd)) (hb : addMonths y m d (-n) = (by', bm, bd)) :
    wholeMonths y m d ry rm rd = (if addMonthsClamps y m d n then n - 1 else n) ∧
    wholeMonths y m d by' bm bd = -n := by
  obtain ⟨_, hs, hr1, hr2, hd, hcl⟩ := addMonths_valid y m d n ry rm rd hv hr
  obtain ⟨_, hs', hb1, hb2, hd', _⟩ := addMonths_valid y m d (-n) by' bm bd hv hb
  simp only [validDate, Bool.and_eq_true, decide_eq_true_eq] at hv
  obtain ⟨⟨⟨h1, h12⟩, hd1⟩, hdm⟩ := hv
  constructor
  · unfold wholeMonths wholeMonthsFwd
    have hnl : dateLt ry rm rd y m d = false := by
      cases hh : dateLt ry rm rd y m d
      · rfl
      · rw [dateLt_iff] at hh
        rcases hh with h | ⟨h, h' | ⟨h', h''⟩⟩
        · omega
        · omega
        · subst h h'; omega
    rw [hnl]
    simp only [Bool.false_eq_true, if_false]
    by_cases hc : addMonthsClamps y m d n = true
    · rw [if_pos hc]; have := hcl.1 hc; rw [if_pos this]; omega
    · rw [if_neg hc]
      have : ¬ rd < d := fun h => hc (hcl.2 h)
      rw [if_neg this]; omega
  · unfold wholeMonths wholeMonthsFwd
    by_cases hl : dateLt by' bm bd y m d = true
    · rw [if_pos hl]
      have : ¬ d < bd := by omega
      rw [if_neg this]; omega
    · rw [if_neg hl]
      rw [dateLt_iff] at hl
      have hy : by' = y := by omega
      have hm : bm = m := by omega
      subst hy hm
      have : ¬ bd < d := by omega
      rw [if_neg this]; omega

example : wholeMonths 2021 1 31 2021 2 28 = 0 ∧ addMonths 2021 1 31 1 = (2021, 2, 28) ∧
    wholeMonths 2021 1 28 2021 2 28 = 1 ∧ wholeMonths 2021 3 31 2021 2 28 = -1 ∧
    addMonths 2021 3 31 (-1) = (2021, 2, 28) := by decide

/-- "The number of whole months between": for calendar dates `a ≤ b` and `n` the whole months from `a` to
`b`, the date `n` months after `a` is not after `b`, and the date `n + 1` months after `a` is after `b` —
or was clamped to the end of a shorter month (then it may still be on or before `b`: the day of the month of
`a` has not been reached). -/
theorem wholeMonths_largest (y1 m1 d1 y2 m2 d2 ry rm rd sy sm sd : Int)
    (h1 : validDate y1 m1 d1 = true) (h2 : validDate y2 m2 d2 = true)
    (hle : dateLt y2 m2 d2 y1 m1 d1 = false)
    (hr : addMonths y1 m1 d1 (wholeMonths y1 m1 d1 y2 m2 d2) = (ry, rm, rd))
    (hs : addMonths y1 m1 d1 (wholeMonths y1 m1 d1 y2 m2 d2 + 1) = (sy, sm, sd)) :
    0 ≤ wholeMonths y1 m1 d1 y2 m2 d2 ∧ dateLt y2 m2 d2 ry rm rd = false ∧
    (dateLt y2 m2 d2 sy sm sd = true ∨ addMonthsClamps y1 m1 d1 (wholeMonths y1 m1 d1 y2 m2 d2 + 1) = true) := by
  have hn : wholeMonths y1 m1 d1 y2 m2 d2 = wholeMonthsFwd y1 m1 d1 y2 m2 d2 := by
    unfold wholeMonths; rw [hle]; simp
  have hle' : ¬ (y2 < y1 ∨ (y2 = y1 ∧ (m2 < m1 ∨ (m2 = m1 ∧ d2 < d1)))) := by
    intro h; have := (dateLt_iff _ _ _ _ _ _).2 h; rw [hle] at this; cases this
  obtain ⟨_, es, r1, r2, hd, _⟩ := addMonths_valid y1 m1 d1 _ ry rm rd h1 hr
  obtain ⟨_, es', s1, s2, hd', hcl⟩ := addMonths_valid y1 m1 d1 _ sy sm sd h1 hs
  simp only [validDate, Bool.and_eq_true, decide_eq_true_eq] at h1 h2
  obtain ⟨⟨⟨a1, a12⟩, ad1⟩, _⟩ := h1
  obtain ⟨⟨⟨b1, b12⟩, bd1⟩, _⟩ := h2
  rw [hn] at es es' hcl ⊢
  unfold wholeMonthsFwd at es es' ⊢
  refine ⟨by split <;> omega, ?_, ?_⟩
  · cases hh : dateLt y2 m2 d2 ry rm rd
    · rfl
    · rw [dateLt_iff] at hh
      split at es <;> omega
  · by_cases hc : sd < d1
    · exact Or.inr (hcl.2 hc)
    · refine Or.inl ((dateLt_iff _ _ _ _ _ _).2 ?_)
      split at es' <;> omega

example : validDate 2021 1 31 = true ∧ validDate 2021 3 30 = true ∧ wholeMonths 2021 1 31 2021 3 30 = 1 ∧
    addMonths 2021 1 31 1 = (2021, 2, 28) ∧ addMonths 2021 1 31 2 = (2021, 3, 31) ∧
    -- the clamped case: 31 January → 28 February is 0 whole months although 31 January + 1 month = 28 February
    wholeMonths 2021 1 31 2021 2 28 = 0 ∧ addMonthsClamps 2021 1 31 1 = true := by decide

/-! ## Conversions: a date and time is its date and its time; whole months use the written dates -/

/-- `date and time(date(v), time(v)) = v` for every date and time `v`: the date part and the time part (with
its offset or zone) recompose to the value; `date and time(d, t)` has exactly the date `d` and the time `t`;
the date of a date is itself; the time of a date is UTC midnight. -/
theorem datetime_decompose_recompose (dt : DateTime) (d : Date) (t : Time) :
    bifDateTimeOf (bifDateOf (.dateTime dt)) (bifTimeOf (.dateTime dt)) = .dateTime dt ∧
    bifDateTimeOf (.dateTime dt) (bifTimeOf (.dateTime dt)) = .dateTime dt ∧
    bifDateOf (bifDateTimeOf (.date d) (.time t)) = .date d ∧
    bifTimeOf (bifDateTimeOf (.date d) (.time t)) = .time t ∧
    bifDateOf (.date d) = .date d ∧ bifTimeOf (.date d) = .time ⟨0, 0, 0, 0, .utc⟩ := by
  refine ⟨rfl, rfl, rfl, rfl, rfl, rfl⟩

/-- `years and months duration(from, to)` on dates and date-and-times in any combination is the signed
number of whole months between the WRITTEN (local) dates: times of day, offsets and zones take no part. -/
theorem ym_whole_months_datetimes (f t : DateTime) :
    let w := wholeMonths f.date.y f.date.m f.date.d t.date.y t.date.m t.date.d
    bifYmDuration (.dateTime f) (.dateTime t) = .ymDur w ∧
    bifYmDuration (.date f.date) (.dateTime t) = .ymDur w ∧
    bifYmDuration (.dateTime f) (.date t.date) = .ymDur w ∧
    bifYmDuration (.date f.date) (.date t.date) = .ymDur w ∧
    (∀ tf tt, bifYmDuration (.dateTime ⟨f.date, tf⟩) (.dateTime ⟨t.date, tt⟩) = .ymDur w) := by
  intro w
  have h := ym_whole_months f.date t.date
  refine ⟨?_, ?_, ?_, ?_, ?_⟩ <;> simp [bifYmDuration, h, w]

/-- An hour before the end of the month in UTC, already in the next month on the wall clock: the written
dates count (2021-01-31 → 2021-03-01 is one whole month; the instants are two calendar months apart less
two hours). -/
example :
    bifYmDuration (.dateTime ⟨⟨2021, 1, 31⟩, ⟨23, 0, 0, 0, .utc⟩⟩)
      (.dateTime ⟨⟨2021, 3, 1⟩, ⟨0, 0, 0, 0, .offset 7200⟩⟩) = .ymDur 1 := by decide

/-! ## Zone-less date-times: the offset of the zone of the process

A zone-less date and time is resolved with `get_local_offset` (the zone of the process, `TZ`). Since the
repair (branch fix-t14) the offset is the one in force for the WRITTEN wall-clock reading under the rules
of that zone — as for a named zone. Before, the written fields were read as a UTC instant. -/

/-- The offset a zone-less (or named-zone) date and time is resolved with names the one instant whose wall
clock, under the rules of the zone, shows the written date and time; its instant on the UTC line is that
instant. -/
theorem local_offset_denotes (zr : ZoneRules) (a : DateTime) (o : Int)
    (hz : oracleByRules zr a = some o) :
    let l := localSeconds a.date a.time.h a.time.mi a.time.s
    zr.denote l = .instant (l - o) o ∧ zr.offsetAt (l - o) = o ∧ (l - o) + zr.offsetAt (l - o) = l ∧
    (∀ t', t' + zr.offsetAt t' = l → t' = l - o) ∧
    a.inst o = (l - o) * nsPerSecond + a.time.ns := by
  intro l
  obtain ⟨_, hd⟩ := zoneOffsetByRules_some hz
  obtain ⟨_, h2, h3, h4⟩ := zr.denote_instant l (l - o) o hd
  refine ⟨hd, h2, h3, h4, ?_⟩
  show a.inst o = (localSeconds a.date a.time.h a.time.mi a.time.s - o) * nsPerSecond + a.time.ns
  unfold DateTime.inst instant localSeconds nsPerDay nsPerHour nsPerMinute nsPerSecond
  generalize daysFromCivil a.date.y a.date.m a.date.d = z
  omega

/-- Europe/Warsaw, 2021-03-28 (01:00Z: +01:00 → +02:00): `01:30` is read at +01:00, `02:30` has no offset. -/
example :
    let zr : ZoneRules := ⟨3600, [(1616893200, 7200), (1635642000, 3600)]⟩
    oracleByRules zr ⟨⟨2021, 3, 28⟩, ⟨1, 30, 0, 0, .localZ⟩⟩ = some 3600 ∧
    oracleByRules zr ⟨⟨2021, 3, 28⟩, ⟨2, 30, 0, 0, .localZ⟩⟩ = none ∧
    oracleByRules zr ⟨⟨2021, 3, 28⟩, ⟨3, 30, 0, 0, .localZ⟩⟩ = some 7200 := by decide

/-- Reading the written fields as UTC (the code before the repair) gives the right offset exactly when the
zone has the same offset at the instant that the fields would name in UTC — in a zone without transitions
always (which is why a process running in UTC never shows the difference). -/
theorem local_offset_read_as_utc_agrees_iff (zr : ZoneRules) (a : DateTime) (o : Int)
    (hz : oracleByRules zr a = some o) :
    (localOffsetReadAsUtc zr a.date a.time.h a.time.mi a.time.s a.time.ns = some o ↔
      zr.offsetAt (localSeconds a.date a.time.h a.time.mi a.time.s) = o) ∧
    (zr.trs = [] → localOffsetReadAsUtc zr a.date a.time.h a.time.mi a.time.s a.time.ns = some o) := by
  obtain ⟨hok, hd⟩ := zoneOffsetByRules_some hz
  have hr : localOffsetReadAsUtc zr a.date a.time.h a.time.mi a.time.s a.time.ns =
      some (zr.offsetAt (localSeconds a.date a.time.h a.time.mi a.time.s)) := by
    unfold localOffsetReadAsUtc; rw [if_pos hok]
  refine ⟨?_, ?_⟩
  · rw [hr]
    exact ⟨fun h => by injection h, fun h => by rw [h]⟩
  · intro ht
    rw [hr]
    obtain ⟨_, h2, _⟩ := zr.denote_instant _ _ o hd
    have e : ∀ t, zr.offsetAt t = zr.initial := by
      intro t; unfold ZoneRules.offsetAt; rw [ht]; rfl
    rw [e] at h2 ⊢
    rw [h2]

/-- The code before the repair, under the rules of Europe/Warsaw: on 2021-03-28 the zone-less `01:30` was
read at +02:00 instead of +01:00, so that `00:45` compared GREATER than `01:15` of the same morning (both
exist once) — with the offsets by the rules it compares less. Re-observed on the real code by the family
`process-zone` (child processes with `TZ` set). -/
theorem local_offset_read_as_utc_counterexample :
    let zr : ZoneRules := ⟨3600, [(1616893200, 7200), (1635642000, 3600)]⟩
    let a : DateTime := ⟨⟨2021, 3, 28⟩, ⟨0, 45, 0, 0, .localZ⟩⟩
    let b : DateTime := ⟨⟨2021, 3, 28⟩, ⟨1, 15, 0, 0, .localZ⟩⟩
    localOffsetReadAsUtc zr b.date 1 15 0 0 = some 7200 ∧ oracleByRules zr b = some 3600 ∧
    Temporal.compare a b (localOffsetReadAsUtc zr a.date 0 45 0 0) (localOffsetReadAsUtc zr b.date 1 15 0 0)
      = .val .gt ∧
    Temporal.compare a b (oracleByRules zr a) (oracleByRules zr b) = .val .lt ∧
    subtract b a (oracleByRules zr b) (oracleByRules zr a) = .val 1800000000000 := by decide


end Dmn.C15
