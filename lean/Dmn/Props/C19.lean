import Dmn.Lemmas.PlaneOrient
import Dmn.Lemmas.PlaneNoPanic
import Dmn.Lemmas.PlaneMerged
import Dmn.Lemmas.CanvasPlane
import Dmn.Lemmas.CanvasContent

/-!
# C19 — a decision table drawn as text is recognised exactly as drawn

Theorems about `Dmn.Recog`: the model of the plane-level half of `/repo/recognizer`
(`plane.rs`, `recognizer.rs`, `builder.rs`, `rect.rs`; Model/Plane.lean) and the model of the
scanner (`canvas.rs`, `point.rs`; Model/Canvas.lean).  Proved: the plane-level round trip for
all well-formed tables, and panic freedom of the whole pipeline text → table on every text.
The text-level round trip is proved relative to one decidable obligation about the scanner
(`scanInvertsDraw`: the scanner reads `draw t` back as `planeOf t`), which is checked by the
correspondence `harness/src/c19.rs` and by evaluation, not proved for all tables.  That is the
stated gap of this property (level: partial).

The theorems are stated at full strength for the code after the repairs of the findings
F19a–F19e and F67-mixed-header (hit policy / rule number placement of rules-as-columns tables, blank allowed-values
cells, checked indexing, header read by its regions): the former `…_partial` / `…_counterexample` theorems are gone, their
witnesses are kept as regression `example`s.
-/

namespace Dmn.Recog
open Outcome (ok error)

/-! ## Sample tables used by the non-vacuity examples and counterexamples -/

/-- two inputs with allowed values, two named outputs with allowed values and a label, one
annotation, two rules, information item name -/
def sampleTable (o : Orientation) : TableSpec :=
  { orientation := o, hitPolicy := .collect .sum, infoName := some " name ".toList,
    inputs := [⟨" a ".toList, some " 1,2 ".toList⟩, ⟨" b ".toList, some " 3 ".toList⟩],
    outputs := [⟨some " o1 ".toList, some " 5 ".toList⟩, ⟨some " o2 ".toList, some " 6 ".toList⟩],
    label := some " lab ".toList, annotations := [" an ".toList],
    rules := [⟨[" <1".toList, " x ".toList], [" 1 ".toList, " 2 ".toList], [" r1 ".toList]⟩,
              ⟨[" <2".toList, " y ".toList], [" 3 ".toList, " 4 ".toList], [" r2 ".toList]⟩] }

def sampleDecor (split : Bool) : Decor :=
  { hp := " C+ ".toList, ruleNos := [" 1 ".toList, "2".toList], split := split,
    hpBlank := "  ".toList, annBlanks := ["   ".toList], merge := false,
    inBlanks := ["   ".toList, " ".toList], outBlanks := ["  ".toList, "  ".toList] }

/-- the simplest table: one input, one output, one rule -/
def tinyTable (o : Orientation) (expr : String) : TableSpec :=
  { orientation := o, hitPolicy := .unique, infoName := none,
    inputs := [⟨expr.toList, none⟩], outputs := [⟨none, none⟩], label := some " out ".toList,
    annotations := [], rules := [⟨[" - ".toList], [" 1 ".toList], []⟩] }

def tinyDecor : Decor :=
  { hp := " U ".toList, ruleNos := [" 1 ".toList], split := false, hpBlank := [], annBlanks := [],
    merge := false }

/-- non-vacuity of the hypotheses on the decoration: the sample decoration is a decoration
of the sample table (the marker cell reads `C+`, the rule number cells read 1 and 2) -/
example (split : Bool) (o : Orientation) : (sampleDecor split).Ok (sampleTable o) :=
  ⟨show hitPolicyOfText " C+ ".toList = some (.collect .sum) from by decide, rfl,
    fun i h => (by decide : ∀ i (h : i < 2),
      parseUsize (trim ([" 1 ".toList, "2".toList][i])) = some (i + 1)) i h,
    fun _ => rfl, by cases split <;> decide, by cases split <;> decide⟩

/-! ## Round trip -/

/-- the text of the first output lane: the label, or the first component name -/
def firstOutputLane (t : TableSpec) : Text :=
  if t.outputs.length = 1 ∨ t.hasLabelRow = true then t.labelText else t.names.headD []

/-- Rules as rows: for every well-formed table — any number of inputs, outputs, annotations
and rules, every hit policy, every combination of information item name, allowed values,
output label, several output components, annotation columns, and both variants of the
header lane — recognising the plane its drawing denotes returns exactly the table. -/
theorem recognize_plane_roundtrip_rows (d : Decor) (t : TableSpec) (hwf : t.wf = true)
    (hd : d.Ok t) (ho : t.orientation = .ruleAsRow) :
    recognizePlane (planeOf d t) = ok t := by
  have hw := (TableSpec.wf_iff t).mp hwf
  unfold planeOf
  rw [ho]
  exact recognizePlane_rows (idsRows d t) d t t.infoName hw (idsRows_ok d t hw) hd ho rfl

example : (sampleTable .ruleAsRow).wf = true ∧
    hitPolicyOfText (sampleDecor true).hp = some (sampleTable .ruleAsRow).hitPolicy ∧
    recognizePlane (planeOf (sampleDecor true) (sampleTable .ruleAsRow)) = ok (sampleTable .ruleAsRow) ∧
    recognizePlane (planeOf (sampleDecor false) (sampleTable .ruleAsRow)) = ok (sampleTable .ruleAsRow) := by
  decide +kernel

/-- Rules as columns (the pivoted orientation): the same round trip.  (Before the repairs of
F19a / F19b this needed the first input expression not to read as a hit policy marker and the
first output lane not to read as a number.) -/
theorem recognize_plane_roundtrip_cols (d : Decor) (t : TableSpec) (hwf : t.wf = true)
    (hd : d.Ok t) (ho : t.orientation = .ruleAsColumn) :
    recognizePlane (planeOf d t) = ok t := by
  have hw := (TableSpec.wf_iff t).mp hwf
  unfold planeOf
  rw [ho]
  exact recognizePlane_cols (idsCols d t) d t t.infoName hw (idsCols_ok d t) hd ho rfl

example : (sampleTable .ruleAsColumn).wf = true ∧
    recognizePlane (planeOf (sampleDecor true) (sampleTable .ruleAsColumn)) = ok (sampleTable .ruleAsColumn) ∧
    recognizePlane (planeOf (sampleDecor false) (sampleTable .ruleAsColumn)) = ok (sampleTable .ruleAsColumn) := by
  decide +kernel

/-- **Round trip.** For every well-formed table — any number of inputs, outputs, annotations
and rules, every hit policy, both orientations, every combination of information item name,
allowed values (of any subset of the inputs and outputs), output label, several output
components, annotation columns, both variants of the header lane — recognising the plane its
drawing denotes returns exactly the table. -/
theorem recognize_plane_roundtrip (d : Decor) (t : TableSpec) (hwf : t.wf = true) (hd : d.Ok t) :
    recognizePlane (planeOf d t) = ok t := by
  have hw := (TableSpec.wf_iff t).mp hwf
  cases ho : t.orientation with
  | ruleAsRow => exact recognize_plane_roundtrip_rows d t hwf hd ho
  | ruleAsColumn => exact recognize_plane_roundtrip_cols d t hwf hd ho
  | crossTable => exact absurd ho hw.orient

/-- Drawings in which equal input entries of consecutive rules are merged into one cell (the
usual way of drawing DMN tables; the merged cell is one region, read back as the entry of every
rule it spans), regions numbered in scanning order: the same round trip. -/
theorem recognize_plane_roundtrip_merged (d : Decor) (t : TableSpec) (hwf : t.wf = true)
    (hd : d.Ok t) : recognizePlane (planeOfMerged d t) = ok t := by
  have hw := (TableSpec.wf_iff t).mp hwf
  unfold planeOfMerged
  cases ho : t.orientation with
  | ruleAsRow =>
    exact recognizePlane_rows (idsOfSheet d t) d t t.infoName hw (idsOfSheet_ok d t hw) hd ho rfl
  | ruleAsColumn =>
    exact recognizePlane_cols (idsOfSheet d t) d t t.infoName hw (idsOfSheet_ok d t hw) hd ho rfl
  | crossTable => exact absurd ho hw.orient

/-- non-vacuity: in the sample table with the second rule's first entry equal to the first
rule's, the two entry cells are one region of the plane -/
example :
    let t := { sampleTable .ruleAsRow with rules :=
      [⟨[" <1".toList, " x ".toList], [" 1 ".toList, " 2 ".toList], [" r1 ".toList]⟩,
       ⟨[" <1".toList, " y ".toList], [" 3 ".toList, " 4 ".toList], [" r2 ".toList]⟩] }
    let d := { sampleDecor false with merge := true }
    t.wf = true ∧ (planeOfMerged d t).regionNumber 4 1 = (planeOfMerged d t).regionNumber 5 1 ∧
    (planeOfMerged d t).regionNumber 4 2 ≠ (planeOfMerged d t).regionNumber 5 2 ∧
    recognizePlane (planeOfMerged d t) = ok t := by
  decide +kernel

/-- regression (F19a, F19b): the rules-as-columns table with an input called `A`, and the one
whose output label reads `2`, are recognised — in either orientation -/
example :
    recognizePlane (planeOf tinyDecor (tinyTable .ruleAsColumn " A ")) = ok (tinyTable .ruleAsColumn " A ") ∧
    recognizePlane (planeOf tinyDecor { tinyTable .ruleAsColumn " age " with label := some " 2 ".toList })
      = ok { tinyTable .ruleAsColumn " age " with label := some " 2 ".toList } ∧
    recognizePlane (planeOf tinyDecor (tinyTable .ruleAsRow " A ")) = ok (tinyTable .ruleAsRow " A ") := by
  decide +kernel

/-- regression (F19c, F19d): allowed values of the inputs only (the allowed-values cells of
the outputs are blank), and of one output only, are recognised as drawn -/
example :
    let t1 := { sampleTable .ruleAsRow with
      outputs := [⟨some " o1 ".toList, none⟩, ⟨some " o2 ".toList, none⟩] }
    let t2 := { sampleTable .ruleAsColumn with
      inputs := [⟨" a ".toList, none⟩, ⟨" b ".toList, none⟩],
      outputs := [⟨some " o1 ".toList, none⟩, ⟨some " o2 ".toList, some " 6 ".toList⟩] }
    t1.wf = true ∧ t2.wf = true ∧
    recognizePlane (planeOf (sampleDecor false) t1) = ok t1 ∧
    recognizePlane (planeOf (sampleDecor true) t2) = ok t2 := by
  decide +kernel

/-! ## `pivot` -/

/-- `pivot` is an involution on every rectangular plane with at least one row and one column
(on other planes it is an error or loses cells, see the examples below). -/
theorem pivot_involutive (P : Plane) (w : Nat) (hw : 0 < w) (hne : P.rows ≠ [])
    (hrect : ∀ r ∈ P.rows, r.length = w) :
    (P.pivot >>= Plane.pivot) = ok P := by
  have h1 : pivotRows P.rows = ok (trPure w P.rows) := pivotRows_rect hrect hne
  have h2 : pivotRows (trPure w P.rows) = ok P.rows := pivotRows_trPure hrect hw
  simp [Plane.pivot, h1, h2]

/-- non-vacuity: a 2 × 3 plane -/
example : ∃ P : Plane, P.rows ≠ [] ∧ (∀ r ∈ P.rows, r.length = 3) ∧
    (P.pivot >>= Plane.pivot) = ok P ∧ P.pivot ≠ ok P :=
  ⟨⟨none, [[.region 0 ['a'], .vOut, .region 1 []], [.hOut, .mainX, .hOut]]⟩, by decide⟩

/-- the hypotheses are needed: a plane without rows and a ragged plane are errors -/
example : (Plane.mk none []).pivot = error .planeIsEmpty ∧
    (Plane.mk none [[.vOut, .vOut], [.vOut]]).pivot = error .colOutOfRange := by decide

/-- The plane of a rules-as-columns drawing is the pivot of the rules-as-rows body under its
last row: `remove_last_row` + `pivot` lead to the plane `remove_first_column` leads to. -/
theorem pivot_reduces_columns_to_rows (d : Decor) (t : TableSpec) (hwf : t.wf = true) (hd : d.Ok t)
    (ids : Ids) :
    (Plane.mk t.infoName (planeCols ids d t)).removeLastRow.pivot =
      ok (Plane.mk t.infoName (planeRows ids d t)).removeFirstColumn := by
  have hw := (TableSpec.wf_iff t).mp hwf
  rw [planeCols_pivot ids d t t.infoName hw hd, planeRows_drop ids d t t.infoName hd]

/-! ## The header case analysis -/

/-- The seven shapes of an output header the code accepts. -/
inductive HeaderCase where
  /-- one output, one header row: the label -/
  | label
  /-- one output, two rows, the label cell spans both: the label, no output values (the inputs
  have allowed values, the output has none) -/
  | labelSpanning
  /-- one output, two rows, two regions: label, allowed values -/
  | labelValues
  /-- several outputs, one row: component names -/
  | names
  /-- several outputs, two rows, the first row is not one region: names, allowed values -/
  | namesValues
  /-- several outputs, two rows, the first row is one region: label, names -/
  | labelNames
  /-- several outputs, three rows, the first row is one region: label, names, allowed values -/
  | labelNamesValues
  deriving DecidableEq, Repr

/-- the first row of the output clause -/
def firstRow (r : Rect) : Rect := ⟨r.left, r.top, r.right, r.top + 1⟩

/-- When the output clause analysis (recognizer.rs `recognize_horizontal_table`, output clause)
is in the given case, and what it reads there.  The case is decided by the width and height of the
output clause and by its REGIONS — not by the input clause: whether the inputs have allowed
values plays no role (before the repair of F67-mixed-header the two-row cases were told apart by the presence
of input values, and a table with allowed values for the inputs only or for the outputs only was
misread or rejected). -/
def HeaderCase.accepts : HeaderCase → Plane → Rect → (width height : Nat) → OutHeader → Prop
  | .label, P, r, w, h, o => w = 1 ∧ h = 1 ∧
    ∃ l, P.regionText r.top r.left = ok l ∧ o = ⟨some l, [], []⟩
  | .labelSpanning, P, r, w, h, o => w = 1 ∧ h = 2 ∧ P.equalRegions r = ok true ∧
    ∃ l, P.regionText r.top r.left = ok l ∧ o = ⟨some l, [], []⟩
  | .labelValues, P, r, w, h, o => w = 1 ∧ h = 2 ∧ P.equalRegions r = ok false ∧
    ∃ l v, P.regionText r.top r.left = ok l ∧ P.regionText (r.top + 1) r.left = ok v ∧
      o = ⟨some l, [], [v]⟩
  | .names, P, r, w, h, o => 2 ≤ w ∧ h = 1 ∧
    ∃ cs, P.rowTexts r.top r.left r.right = ok cs ∧ o = ⟨none, cs, []⟩
  | .namesValues, P, r, w, h, o => 2 ≤ w ∧ h = 2 ∧ P.equalRegions (firstRow r) = ok false ∧
    ∃ cs vs, P.rowTexts r.top r.left r.right = ok cs ∧
      P.valuesTexts r.top (r.top + 1) r.left r.right = ok vs ∧ o = ⟨none, cs, vs⟩
  | .labelNames, P, r, w, h, o => 2 ≤ w ∧ h = 2 ∧ P.equalRegions (firstRow r) = ok true ∧
    ∃ l cs, P.regionText r.top r.left = ok l ∧ P.rowTexts (r.top + 1) r.left r.right = ok cs ∧
      o = ⟨some l, cs, []⟩
  | .labelNamesValues, P, r, w, h, o => 2 ≤ w ∧ h = 3 ∧ P.equalRegions (firstRow r) = ok true ∧
    ∃ l cs vs, P.regionText r.top r.left = ok l ∧ P.rowTexts (r.top + 1) r.left r.right = ok cs ∧
      P.valuesTexts (r.top + 1) (r.top + 2) r.left r.right = ok vs ∧ o = ⟨some l, cs, vs⟩

/-- the case a well-formed table is drawn in by `draw` (cells without allowed values are
continued by blank cells; `labelSpanning` arises when they span instead, see
the mixed-header examples below) -/
def HeaderCase.ofTable (t : TableSpec) : HeaderCase :=
  if t.outputs.length = 1 then (if t.hasValues then .labelValues else .label)
  else if t.hasLabelRow then (if t.hasValues then .labelNamesValues else .labelNames)
  else (if t.hasValues then .namesValues else .names)

/-- The case analysis is exhaustive and exclusive: whatever the plane, the analysis of the
input clause accepts 1, 2 or 3 header rows only (one row: no input values; three rows: every
input expression spans the two upper rows), and the analysis of the output clause succeeds only
in one of the seven cases, reading exactly the texts the case names; every other combination of
width, height and regions is rejected with an error.  The output clause is analysed by its own
regions: `outputHeader` has no access to the input clause.  (`header_cases_drawn` below: the cases
are headers of well-formed tables, and `recognize_plane_roundtrip_*`: every well-formed table is
accepted in its case.) -/
theorem header_case_analysis_exhaustive (P : Plane) (r : Rect) :
    (∀ h b, inputValuesPresent P r h = ok b →
      (h = 1 ∧ b = false) ∨ h = 2 ∨
      (h = 3 ∧ P.equalRegionsInColumns ⟨r.left, r.top, r.right, r.top + 2⟩ = ok true)) ∧
    (∀ w h o, outputHeader P r w h = ok o → ∃ c : HeaderCase, c.accepts P r w h o) := by
  constructor
  · intro h b hb
    match h with
    | 0 => simp [inputValuesPresent, valuesRows] at hb
    | 1 => simp [inputValuesPresent, valuesRows, valuesPresentIn] at hb; exact Or.inl ⟨rfl, hb⟩
    | 2 => exact Or.inr (Or.inl rfl)
    | 3 =>
      refine Or.inr (Or.inr ⟨rfl, ?_⟩)
      simp only [inputValuesPresent, valuesRows] at hb
      cases he : P.equalRegionsInColumns ⟨r.left, r.top, r.right, r.top + 2⟩ with
      | ok b' =>
        cases b' with
        | true => rfl
        | false => rw [he] at hb; simp at hb
      | error e => rw [he] at hb; simp at hb
      | panic s => rw [he] at hb; simp at hb
    | h + 4 => simp [inputValuesPresent, valuesRows] at hb
  · intro w h o ho
    match w with
    | 0 => simp [outputHeader] at ho
    | 1 =>
      simp only [outputHeader] at ho
      match h with
      | 0 => simp [outputHeaderSingle] at ho
      | 1 =>
        simp only [outputHeaderSingle] at ho
        obtain ⟨l, hl, h1⟩ := bind_ok_inv ho
        cases h1
        exact ⟨.label, rfl, rfl, l, hl, rfl⟩
      | 2 =>
        simp only [outputHeaderSingle] at ho
        obtain ⟨l, hl, h1⟩ := bind_ok_inv ho
        cases he : P.equalRegions r with
        | ok b' =>
          rw [he] at h1
          cases b' with
          | true =>
            cases h1
            exact ⟨.labelSpanning, rfl, rfl, he, l, hl, rfl⟩
          | false =>
            obtain ⟨v, hv, h2⟩ := bind_ok_inv h1
            cases h2
            exact ⟨.labelValues, rfl, rfl, he, l, v, hl, hv, rfl⟩
        | error e => rw [he] at h1; cases h1
        | panic s => rw [he] at h1; cases h1
      | h + 3 => simp [outputHeaderSingle] at ho
    | w + 2 =>
      simp only [outputHeader] at ho
      match h with
      | 0 => simp [outputHeaderMulti] at ho
      | 1 =>
        simp only [outputHeaderMulti] at ho
        obtain ⟨cs, hcs, h1⟩ := bind_ok_inv ho
        cases h1
        exact ⟨.names, by omega, rfl, cs, hcs, rfl⟩
      | 2 =>
        simp only [outputHeaderMulti] at ho
        cases he : P.equalRegions ⟨r.left, r.top, r.right, r.top + 1⟩ with
        | ok b' =>
          rw [he] at ho
          cases b' with
          | true =>
            obtain ⟨l, hl, h1⟩ := bind_ok_inv ho
            obtain ⟨cs, hcs, h2⟩ := bind_ok_inv h1
            cases h2
            exact ⟨.labelNames, by omega, rfl, he, l, cs, hl, hcs, rfl⟩
          | false =>
            obtain ⟨cs, hcs, h1⟩ := bind_ok_inv ho
            obtain ⟨vs, hvs, h2⟩ := bind_ok_inv h1
            cases h2
            exact ⟨.namesValues, by omega, rfl, he, cs, vs, hcs, hvs, rfl⟩
        | error e => rw [he] at ho; cases ho
        | panic s => rw [he] at ho; cases ho
      | 3 =>
        simp only [outputHeaderMulti] at ho
        cases he : P.equalRegions ⟨r.left, r.top, r.right, r.top + 1⟩ with
        | ok b' =>
          rw [he] at ho
          cases b' with
          | true =>
            obtain ⟨l, hl, h1⟩ := bind_ok_inv ho
            obtain ⟨cs, hcs, h2⟩ := bind_ok_inv h1
            obtain ⟨vs, hvs, h3⟩ := bind_ok_inv h2
            cases h3
            exact ⟨.labelNamesValues, by omega, rfl, he, l, cs, vs, hl, hcs, hvs, rfl⟩
          | false => cases ho
        | error e => rw [he] at ho; cases ho
        | panic s => rw [he] at ho; cases ho
      | h + 4 => simp [outputHeaderMulti] at ho

/-- Each of the six cases `draw` produces is the header of a well-formed table (so none of them
is dead, and by the round trip theorems each such table is recognised in its case); the seventh,
`labelSpanning`, is the header of the mixed drawings of the mixed-header examples below. -/
theorem header_cases_drawn : ∀ c : HeaderCase, c ≠ .labelSpanning → ∃ t : TableSpec, t.wf = true ∧
    HeaderCase.ofTable t = c := by
  let out1 : List OutputClause := [⟨none, none⟩]
  let out1v : List OutputClause := [⟨none, some ['1']⟩]
  let out2 : List OutputClause := [⟨some ['a'], none⟩, ⟨some ['b'], none⟩]
  let out2v : List OutputClause := [⟨some ['a'], some ['1']⟩, ⟨some ['b'], some ['2']⟩]
  let mk (v : Bool) (outs : List OutputClause) (l : Option Text) : TableSpec :=
    { orientation := .ruleAsRow, hitPolicy := .unique, infoName := none,
      inputs := [⟨['x'], if v then some ['1'] else none⟩], outputs := outs, label := l,
      annotations := [], rules := [⟨[['-']], outs.map (fun _ => ['1']), []⟩] }
  intro c hc
  cases c
  · exact ⟨mk false out1 (some ['l']), by decide⟩
  · exact absurd rfl hc
  · exact ⟨mk true out1v (some ['l']), by decide⟩
  · exact ⟨mk false out2 none, by decide⟩
  · exact ⟨mk true out2v none, by decide⟩
  · exact ⟨mk false out2 (some ['l']), by decide⟩
  · exact ⟨mk true out2v (some ['l']), by decide⟩

/-! ## Mixed headers: allowed values of the inputs only / of the outputs only, the other cells
spanning the allowed-values lane (F67-mixed-header, repaired) -/

/-- the body rows of a one-input, two-rule table under a header -/
def mixedBody (hdr : List (List Cell)) (m : Nat) : Plane :=
  ⟨none,
    (hdr.map (fun row => Cell.region 0 " U ".toList :: row)) ++
    [Cell.hOut :: Cell.hOut :: Cell.mainX :: List.replicate m Cell.hOut,
     Cell.region 20 " 1 ".toList :: Cell.region 21 " <1 ".toList :: Cell.vOut ::
       (List.range m).map (fun j => Cell.region (22 + j) " 5 ".toList),
     Cell.region 30 " 2 ".toList :: Cell.region 31 " - ".toList :: Cell.vOut ::
       (List.range m).map (fun j => Cell.region (32 + j) " 6 ".toList)]⟩

/-- the table the mixed planes below denote -/
def mixedTable (iv : Option Text) (outs : List OutputClause) (l : Option Text) : TableSpec :=
  { orientation := .ruleAsRow, hitPolicy := .unique, infoName := none,
    inputs := [⟨" a ".toList, iv⟩], outputs := outs, label := l, annotations := [],
    rules := [⟨[" <1 ".toList], outs.map (fun _ => " 5 ".toList), []⟩,
              ⟨[" - ".toList], outs.map (fun _ => " 6 ".toList), []⟩] }

/-- Mixed headers are recognised as drawn (regression of F67-mixed-header, a test on sample planes — the
general statement is `header_case_analysis_exhaustive`: the output header is read by its regions; the witnesses of the finding
and their single-output and three-row relatives, as planes):
(a) allowed values of the input, output label over two component names, two header rows;
(b) the input cell spans both rows, component names over their allowed values;
(c) one output whose label spans both rows beside an input with allowed values;
(d) one output with allowed values beside an input that spans both rows;
(e) three rows: label / names spanning two rows, beside expression (two rows) / allowed values;
(f) three rows: the input spans all three, label / names / allowed values.
Before the repair (a), (b), (e) were silently misread (component names taken for allowed values,
the first component name for the label) and (c), (d), (f) rejected.  The correspondence draws
these shapes with random sizes and texts in both orientations (family `mixed`). -/
example :
    let v := " 1,2 ".toList
    let o1 := " o1 ".toList; let o2 := " o2 ".toList; let lab := " lab ".toList
    let w1 := " 7 ".toList; let w2 := " 8 ".toList
    let a := " a ".toList
    recognizePlane (mixedBody
        [[.region 1 a, .vOut, .region 2 lab, .region 2 lab],
         [.region 3 v, .vOut, .region 4 o1, .region 5 o2]] 2)
      = ok (mixedTable (some v) [⟨some o1, none⟩, ⟨some o2, none⟩] (some lab)) ∧
    recognizePlane (mixedBody
        [[.region 1 a, .vOut, .region 2 o1, .region 3 o2],
         [.region 1 a, .vOut, .region 4 w1, .region 5 w2]] 2)
      = ok (mixedTable none [⟨some o1, some w1⟩, ⟨some o2, some w2⟩] none) ∧
    recognizePlane (mixedBody
        [[.region 1 a, .vOut, .region 2 lab],
         [.region 3 v, .vOut, .region 2 lab]] 1)
      = ok (mixedTable (some v) [⟨none, none⟩] (some lab)) ∧
    recognizePlane (mixedBody
        [[.region 1 a, .vOut, .region 2 lab],
         [.region 1 a, .vOut, .region 3 w1]] 1)
      = ok (mixedTable none [⟨none, some w1⟩] (some lab)) ∧
    recognizePlane (mixedBody
        [[.region 1 a, .vOut, .region 2 lab, .region 2 lab],
         [.region 1 a, .vOut, .region 4 o1, .region 5 o2],
         [.region 3 v, .vOut, .region 4 o1, .region 5 o2]] 2)
      = ok (mixedTable (some v) [⟨some o1, none⟩, ⟨some o2, none⟩] (some lab)) ∧
    recognizePlane (mixedBody
        [[.region 1 a, .vOut, .region 2 lab, .region 2 lab],
         [.region 1 a, .vOut, .region 4 o1, .region 5 o2],
         [.region 1 a, .vOut, .region 6 w1, .region 5 o2]] 2)
      = ok (mixedTable none [⟨some o1, some w1⟩, ⟨some o2, none⟩] (some lab)) := by
  decide +kernel

/-! ## No index panic -/

/-- **No panic.** On every plane whatsoever — rectangular or ragged, with or without double
lines — the plane logic (orientation, hit policy and rule numbers, pivot, header analysis,
size validation, table construction) returns a table or an error: every index access is
checked (`plane.rs`, `rect.rs` after the repair of F19e) or in range (`builder.rs`, by
`validate_size`). -/
theorem plane_no_panic (P : Plane) : (recognizePlane P).isPanic = false :=
  (NP_iff_isPanic _).mp (NP_recognizePlane P)

/-- the plane of `corpus/C19/f19e_left_border_corner_above_double_line.dtb` -/
def raggedPlaneRows : Plane :=
  ⟨none, [[.region 0 " in1 ".toList, .vOut, .region 1 " - ".toList],
          [.vOut, .region 2 " - ".toList],
          [.mainX, .hOut],
          [.region 3 " out ".toList, .vOut, .region 4 " 1 ".toList],
          [.region 5 " U   ".toList, .vOut, .region 6 " 1 ".toList]]⟩

/-- the plane of `corpus/C19/f19e_left_border_corner_cols.dtb` -/
def raggedPlaneCols : Plane :=
  ⟨none, [[.region 0 " in1 ".toList, .vOut, .region 1 " - ".toList],
          [.hOut, .mainX, .hOut],
          [.region 2 " o1  ".toList, .vOut, .region 3 " 1 ".toList],
          [.vOut, .region 4 " 2 ".toList],
          [.region 5 " U   ".toList, .vOut, .region 6 " 1 ".toList]]⟩

/-- regression (F19e): the ragged planes of drawings with a damaged border junction, and the
planes that used to hit the other unchecked accesses, are rejected with an error -/
example :
    recognizePlane raggedPlaneRows = error .colOutOfRange ∧
    recognizePlane raggedPlaneCols = error .colOutOfRange ∧
    recognizePlane ⟨none, [[]]⟩ = error .colOutOfRange ∧
    recognizePlane ⟨none, [[.hOut], [.region 0 []]]⟩ = error .colOutOfRange ∧
    recognizePlane ⟨none, [[.region 0 " U ".toList, .region 1 [], .region 2 [], .region 3 []],
      [.hOut, .horzX, .hOut, .mainX], [.region 4 " 1 ".toList, .region 5 [], .region 6 [], .region 7 []]]⟩
      = error .noOutputClause := by
  decide +kernel

/-- the planes of drawn tables have the shape the scanner is meant to produce (the
correspondence evaluates `scannerShape` on every plane the real scanner produces) -/
example : (planeOf (sampleDecor true) (sampleTable .ruleAsRow)).scannerShape = true ∧
    (planeOf (sampleDecor false) (sampleTable .ruleAsColumn)).scannerShape = true := by
  decide +kernel

/-! ## The scanner (canvas.rs): no panic on any text -/

/-- **The scanner never panics.** For EVERY text, the scanner (`canvas::scan` followed by
`Canvas::plane`: lines → layered canvas → information item name, crossings, body rectangle →
thin / body / grid layers → regions → plane of cells) returns a plane or an error; none of its
index accesses `content[y][x]`, slices `[a..b]`, subtractions `len() - 1` / `bottom - 1` and
none of the `plane.content[row]` accesses of the plane construction is reachable out of range. -/
theorem canvas_no_panic (text : Text) : (scanText text).isPanic = false :=
  (SNP_iff_isPanic _).mp (SNP_scanText text)

/-- **Text to table: no panic.** For EVERY text, the whole recogniser (`dmntk_recognizer::build`:
scanner, then the plane logic) returns a table or an error, never a panic — `canvas_no_panic`
composed with `plane_no_panic`. -/
theorem recognize_text_no_panic (text : Text) : (recognizeText text).isPanic = false := by
  unfold recognizeText
  have h1 := canvas_no_panic text
  cases hs : scanText text with
  | ok s =>
    have h2 := plane_no_panic s.toPlane
    simp only
    cases hp : recognizePlane s.toPlane with
    | ok t => rfl
    | error e => rfl
    | panic p => rw [hp] at h2; cases h2
  | error e => rfl
  | panic s => rw [hs] at h1; cases h1

/-! ## Text-level round trip (partial: reduced to one obligation about the scanner) -/

/-
FULL STATEMENT (not proved; what is missing is exactly `scan_inverts_draw`):

  theorem scan_inverts_draw (d : Decor) (L : Layout) (t : TableSpec) (hwf : t.wf = true)
      (hd : d.Ok t) (hfit : Fits d L t) : scanInvertsDraw d L t = true

  theorem recognize_text_roundtrip (d : Decor) (L : Layout) (t : TableSpec) (hwf : t.wf = true)
      (hd : d.Ok t) (hfit : Fits d L t) : recognizeText (drawText d L t) = .ok t

where `Fits d L t` says that the drawing is a legal one: every column width and row height of
`L` is at least 1 and `L.colW` / `L.rowH` cover the grid, every text fills the interior of its
region exactly (as `autoLayout` makes them), no text contains a box-drawing character, `░`, or
a line break other than the row separators, no line of the drawing begins or ends with white
space, and the right edge of the information item box meets the top border of the body at a
single-line position.  `scan_inverts_draw` is the geometric statement that the four layers the
scanner computes from `render (sheetOf d L t)` have one region per `Key` of the sheet, found in
row-major order, and one grid rectangle per grid cell, and that `text_from_rect` cuts each
padded text back out.  It is checked (not proved): by `decide +kernel` on the sample tables
below, by the correspondence on every generated drawing (the driver evaluates
`scanInvertsDraw` for each, `harness/src/c19.rs` family `scanner`), and the real scanner is
compared with the scanner model on every text.  `recognize_text_roundtrip_partial` proves the
rest: given that one obligation, the text-level round trip holds for tables of any size.
Of `scan_inverts_draw` itself the first stage is proved for every drawing
(`canvas_content_of_drawing`: text → canvas content loses nothing); the stages from the text
layer to the plane (crossings, body rectangle, thin / body / grid layers, regions, cells) are
the part that is modelled, panic-free and tested, but whose inversion is not proved.
-/

/-- **Text-level round trip, given that the scanner reads the drawing back.**  For every
well-formed table (any size, both orientations, every hit policy and combination of optional
parts, merged input entries or not) and every layout: if the scanner model reads the drawing as
the plane it denotes (`scanInvertsDraw`, a decidable property of the drawing), then recognising
the *text* of the drawing returns exactly the table. -/
theorem recognize_text_roundtrip_partial (d : Decor) (L : Layout) (t : TableSpec)
    (hwf : t.wf = true) (hd : d.Ok t) (hscan : scanInvertsDraw d L t = true) :
    recognizeText (drawText d L t) = .ok t := by
  unfold scanInvertsDraw at hscan
  unfold recognizeText
  cases hs : scanText (drawText d L t) with
  | ok s =>
    rw [hs] at hscan
    have hp : s.toPlane = planeDrawn d t := by simpa using hscan
    simp only [hp]
    have hr : recognizePlane (planeDrawn d t) = ok t := by
      unfold planeDrawn
      split
      · exact recognize_plane_roundtrip_merged d t hwf hd
      · exact recognize_plane_roundtrip d t hwf hd
    rw [hr]
  | error e => rw [hs] at hscan; cases hscan
  | panic p => rw [hs] at hscan; cases hscan

/-- the layout `autoLayout` computes for a table with logical texts -/
def laidOut (d : Decor) (t : TableSpec) : Decor × TableSpec × Layout := autoLayout d t ⟨[], [], 1, 7⟩

/-- a small table with an information item name and an annotation -/
def tinyNamed (o : Orientation) : TableSpec :=
  { orientation := o, hitPolicy := .unique, infoName := some "nm".toList,
    inputs := [⟨" age ".toList, none⟩], outputs := [⟨none, none⟩], label := some " out ".toList,
    annotations := ["why".toList], rules := [⟨[" - ".toList], [" 1 ".toList], ["x".toList]⟩] }

/-- non-vacuity: the hypothesis holds for the drawings of the small table in both orientations
(information item box, hit policy, rule number, double lines towards output and annotation), so
the text of each drawing is recognised as the table.  (The same is evaluated by the
correspondence for every generated table.) -/
example :
    let l := laidOut tinyDecor (tinyNamed .ruleAsRow)
    l.2.1.wf = true ∧ scanInvertsDraw l.1 l.2.2 l.2.1 = true ∧
      recognizeText (drawText l.1 l.2.2 l.2.1) = .ok l.2.1 := by
  decide +kernel

example :
    let l := laidOut tinyDecor (tinyNamed .ruleAsColumn)
    l.2.1.wf = true ∧ scanInvertsDraw l.1 l.2.2 l.2.1 = true ∧
      recognizeText (drawText l.1 l.2.2 l.2.1) = .ok l.2.1 := by
  decide +kernel

/-- **First stage of the round trip (proved for every drawing).**  The canvas content the
scanner builds from the text of a drawing — any non-empty lines without white space at either
end, the first beginning with `┌`, none but the last ending with `┘` (the lines `draw`
produces; they may differ in length, the information item box is narrower than the body) — is
the drawing itself in the text layer, blank in the other layers, every line completed with
`CHAR_OUTER` to the length of the longest, followed by one row of `CHAR_OUTER`: `str::lines`,
`trim`, the start / end detection and the padding of `scan` lose nothing. -/
theorem canvas_content_of_drawing (lines : List Text) (h : DrawingLines lines) :
    buildContent (textOfLines lines) =
      .ok (((rowsOf lines).push #[]).map fun row =>
        row ++ Array.replicate (maxLen lines - row.size) (Px.fill charOuter)) :=
  buildContent_drawing lines h

/-- non-vacuity: the lines of the drawing of the small table (with its information item box)
are the lines of a drawing -/
example :
    let l := laidOut tinyDecor (tinyNamed .ruleAsRow)
    DrawingLines (draw l.1 l.2.2 l.2.1) :=
  ⟨by decide +kernel, by decide +kernel, by decide +kernel, by decide +kernel⟩

/-- the scanner rejects what is not a drawing with an error (and `canvas_no_panic`: never with
a panic): no corner, no double crossing, an open rectangle -/
example :
    scanText "no table here".toList = .error (.notFound ['┌']) ∧
    scanText "┌─┐\n└─┘".toList = .error (.notFound ['╥']) ∧
    scanText "".toList = .error (.notFound ['┌']) := by
  decide +kernel

end Dmn.Recog
