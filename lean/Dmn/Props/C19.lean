import Dmn.Lemmas.PlaneOrient
import Dmn.Lemmas.PlaneNoPanic
import Dmn.Lemmas.PlaneMerged
import Dmn.Lemmas.CanvasPlane
import Dmn.Lemmas.CanvasContent
import Dmn.Lemmas.CanvasStages
import Dmn.Lemmas.CanvasSearch
import Dmn.Lemmas.CanvasText
import Dmn.Lemmas.RenderAt
import Dmn.Lemmas.CanvasFits
import Dmn.Lemmas.CanvasSamples
import Dmn.Lemmas.CanvasRegions
import Dmn.Lemmas.CanvasGridPass
import Dmn.Lemmas.CanvasGridBox
import Dmn.Lemmas.CanvasFindRegion
import Dmn.Lemmas.CanvasSamples5
import Dmn.Lemmas.CanvasSamples3
import Dmn.Lemmas.CanvasSamples4

/-!
# C19 — a decision table drawn as text is recognised exactly as drawn

Theorems about `Dmn.Recog`: the model of the plane-level half of `/repo/recognizer`
(`plane.rs`, `recognizer.rs`, `builder.rs`, `rect.rs`; Model/Plane.lean) and the model of the
scanner (`canvas.rs`, `point.rs`; Model/Canvas.lean).  Proved: the plane-level round trip for
all well-formed tables, and panic freedom of the whole pipeline text → table on every text.
The text-level round trip is proved relative to one decidable obligation about the scanner
(`scanInvertsDraw`: the scanner reads `draw t` back as `planeOf t`), which is checked by the
correspondence `harness/src/c19.rs` and by evaluation, not proved for all tables.  That is the
stated gap of this property (level: partial).

The theorems are stated at full strength for the code after the repairs of the findings
F19a–F19e and F67-mixed-header (hit policy / rule number placement of rules-as-columns tables, blank allowed-values
cells, checked indexing, header read by its regions): the former `…_partial` / `…_counterexample` theorems are gone, their
witnesses are kept as regression `example`s.
-/

namespace Dmn.Recog
open Outcome (ok error)

/-! ## Sample tables used by the non-vacuity examples and counterexamples -/

/-- non-vacuity of the hypotheses on the decoration: the sample decoration is a decoration
of the sample table (the marker cell reads `C+`, the rule number cells read 1 and 2) -/
example (split : Bool) (o : Orientation) : (sampleDecor split).Ok (sampleTable o) :=
  ⟨show hitPolicyOfText " C+ ".toList = some (.collect .sum) from by decide, rfl,
    fun i h => (by decide : ∀ i (h : i < 2),
      parseUsize (trim ([" 1 ".toList, "2".toList][i])) = some (i + 1)) i h,
    fun _ => rfl, by cases split <;> decide, by cases split <;> decide⟩

/-! ## Round trip -/

/-- the text of the first output lane: the label, or the first component name -/
def firstOutputLane (t : TableSpec) : Text :=
  if t.outputs.length = 1 ∨ t.hasLabelRow = true then t.labelText else t.names.headD []

/-- Rules as rows: for every well-formed table — any number of inputs, outputs, annotations
and rules, every hit policy, every combination of information item name, allowed values,
output label, several output components, annotation columns, and both variants of the
header lane — recognising the plane its drawing denotes returns exactly the table. -/
theorem recognize_plane_roundtrip_rows (d : Decor) (t : TableSpec) (hwf : t.wf = true)
    (hd : d.Ok t) (ho : t.orientation = .ruleAsRow) :
    recognizePlane (planeOf d t) = ok t := by
  have hw := (TableSpec.wf_iff t).mp hwf
  unfold planeOf
  rw [ho]
  exact recognizePlane_rows (idsRows d t) d t t.infoName hw (idsRows_ok d t hw) hd ho rfl

example : (sampleTable .ruleAsRow).wf = true ∧
    hitPolicyOfText (sampleDecor true).hp = some (sampleTable .ruleAsRow).hitPolicy ∧
    recognizePlane (planeOf (sampleDecor true) (sampleTable .ruleAsRow)) = ok (sampleTable .ruleAsRow) ∧
    recognizePlane (planeOf (sampleDecor false) (sampleTable .ruleAsRow)) = ok (sampleTable .ruleAsRow) := by
  decide +kernel

/-- Rules as columns (the pivoted orientation): the same round trip.  (Before the repairs of
F19a / F19b this needed the first input expression not to read as a hit policy marker and the
first output lane not to read as a number.) -/
theorem recognize_plane_roundtrip_cols (d : Decor) (t : TableSpec) (hwf : t.wf = true)
    (hd : d.Ok t) (ho : t.orientation = .ruleAsColumn) :
    recognizePlane (planeOf d t) = ok t := by
  have hw := (TableSpec.wf_iff t).mp hwf
  unfold planeOf
  rw [ho]
  exact recognizePlane_cols (idsCols d t) d t t.infoName hw (idsCols_ok d t) hd ho rfl

example : (sampleTable .ruleAsColumn).wf = true ∧
    recognizePlane (planeOf (sampleDecor true) (sampleTable .ruleAsColumn)) = ok (sampleTable .ruleAsColumn) ∧
    recognizePlane (planeOf (sampleDecor false) (sampleTable .ruleAsColumn)) = ok (sampleTable .ruleAsColumn) := by
  decide +kernel

/-- **Round trip.** For every well-formed table — any number of inputs, outputs, annotations
and rules, every hit policy, both orientations, every combination of information item name,
allowed values (of any subset of the inputs and outputs), output label, several output
components, annotation columns, both variants of the header lane — recognising the plane its
drawing denotes returns exactly the table. -/
theorem recognize_plane_roundtrip (d : Decor) (t : TableSpec) (hwf : t.wf = true) (hd : d.Ok t) :
    recognizePlane (planeOf d t) = ok t := by
  have hw := (TableSpec.wf_iff t).mp hwf
  cases ho : t.orientation with
  | ruleAsRow => exact recognize_plane_roundtrip_rows d t hwf hd ho
  | ruleAsColumn => exact recognize_plane_roundtrip_cols d t hwf hd ho
  | crossTable => exact absurd ho hw.orient

/-- Drawings in which equal input entries of consecutive rules are merged into one cell (the
usual way of drawing DMN tables; the merged cell is one region, read back as the entry of every
rule it spans), regions numbered in scanning order: the same round trip. -/
theorem recognize_plane_roundtrip_merged (d : Decor) (t : TableSpec) (hwf : t.wf = true)
    (hd : d.Ok t) : recognizePlane (planeOfMerged d t) = ok t := by
  have hw := (TableSpec.wf_iff t).mp hwf
  unfold planeOfMerged
  cases ho : t.orientation with
  | ruleAsRow =>
    exact recognizePlane_rows (idsOfSheet d t) d t t.infoName hw (idsOfSheet_ok d t hw) hd ho rfl
  | ruleAsColumn =>
    exact recognizePlane_cols (idsOfSheet d t) d t t.infoName hw (idsOfSheet_ok d t hw) hd ho rfl
  | crossTable => exact absurd ho hw.orient

/-- non-vacuity: in the sample table with the second rule's first entry equal to the first
rule's, the two entry cells are one region of the plane -/
example :
    let t := { sampleTable .ruleAsRow with rules :=
      [⟨[" <1".toList, " x ".toList], [" 1 ".toList, " 2 ".toList], [" r1 ".toList]⟩,
       ⟨[" <1".toList, " y ".toList], [" 3 ".toList, " 4 ".toList], [" r2 ".toList]⟩] }
    let d := { sampleDecor false with merge := true }
    t.wf = true ∧ (planeOfMerged d t).regionNumber 4 1 = (planeOfMerged d t).regionNumber 5 1 ∧
    (planeOfMerged d t).regionNumber 4 2 ≠ (planeOfMerged d t).regionNumber 5 2 ∧
    recognizePlane (planeOfMerged d t) = ok t := by
  decide +kernel

/-- regression (F19a, F19b): the rules-as-columns table with an input called `A`, and the one
whose output label reads `2`, are recognised — in either orientation -/
example :
    recognizePlane (planeOf tinyDecor (tinyTable .ruleAsColumn " A ")) = ok (tinyTable .ruleAsColumn " A ") ∧
    recognizePlane (planeOf tinyDecor { tinyTable .ruleAsColumn " age " with label := some " 2 ".toList })
      = ok { tinyTable .ruleAsColumn " age " with label := some " 2 ".toList } ∧
    recognizePlane (planeOf tinyDecor (tinyTable .ruleAsRow " A ")) = ok (tinyTable .ruleAsRow " A ") := by
  decide +kernel

/-- regression (F19c, F19d): allowed values of the inputs only (the allowed-values cells of
the outputs are blank), and of one output only, are recognised as drawn -/
example :
    let t1 := { sampleTable .ruleAsRow with
      outputs := [⟨some " o1 ".toList, none⟩, ⟨some " o2 ".toList, none⟩] }
    let t2 := { sampleTable .ruleAsColumn with
      inputs := [⟨" a ".toList, none⟩, ⟨" b ".toList, none⟩],
      outputs := [⟨some " o1 ".toList, none⟩, ⟨some " o2 ".toList, some " 6 ".toList⟩] }
    t1.wf = true ∧ t2.wf = true ∧
    recognizePlane (planeOf (sampleDecor false) t1) = ok t1 ∧
    recognizePlane (planeOf (sampleDecor true) t2) = ok t2 := by
  decide +kernel

/-! ## `pivot` -/

/-- `pivot` is an involution on every rectangular plane with at least one row and one column
(on other planes it is an error or loses cells, see the examples below). -/
theorem pivot_involutive (P : Plane) (w : Nat) (hw : 0 < w) (hne : P.rows ≠ [])
    (hrect : ∀ r ∈ P.rows, r.length = w) :
    (P.pivot >>= Plane.pivot) = ok P := by
  have h1 : pivotRows P.rows = ok (trPure w P.rows) := pivotRows_rect hrect hne
  have h2 : pivotRows (trPure w P.rows) = ok P.rows := pivotRows_trPure hrect hw
  simp [Plane.pivot, h1, h2]

/-- non-vacuity: a 2 × 3 plane -/
example : ∃ P : Plane, P.rows ≠ [] ∧ (∀ r ∈ P.rows, r.length = 3) ∧
    (P.pivot >>= Plane.pivot) = ok P ∧ P.pivot ≠ ok P :=
  ⟨⟨none, [[.region 0 ['a'], .vOut, .region 1 []], [.hOut, .mainX, .hOut]]⟩, by decide⟩

/-- the hypotheses are needed: a plane without rows and a ragged plane are errors -/
example : (Plane.mk none []).pivot = error .planeIsEmpty ∧
    (Plane.mk none [[.vOut, .vOut], [.vOut]]).pivot = error .colOutOfRange := by decide

/-- The plane of a rules-as-columns drawing is the pivot of the rules-as-rows body under its
last row: `remove_last_row` + `pivot` lead to the plane `remove_first_column` leads to. -/
theorem pivot_reduces_columns_to_rows (d : Decor) (t : TableSpec) (hwf : t.wf = true) (hd : d.Ok t)
    (ids : Ids) :
    (Plane.mk t.infoName (planeCols ids d t)).removeLastRow.pivot =
      ok (Plane.mk t.infoName (planeRows ids d t)).removeFirstColumn := by
  have hw := (TableSpec.wf_iff t).mp hwf
  rw [planeCols_pivot ids d t t.infoName hw hd, planeRows_drop ids d t t.infoName hd]

/-! ## The header case analysis -/

/-- The seven shapes of an output header the code accepts. -/
inductive HeaderCase where
  /-- one output, one header row: the label -/
  | label
  /-- one output, two rows, the label cell spans both: the label, no output values (the inputs
  have allowed values, the output has none) -/
  | labelSpanning
  /-- one output, two rows, two regions: label, allowed values -/
  | labelValues
  /-- several outputs, one row: component names -/
  | names
  /-- several outputs, two rows, the first row is not one region: names, allowed values -/
  | namesValues
  /-- several outputs, two rows, the first row is one region: label, names -/
  | labelNames
  /-- several outputs, three rows, the first row is one region: label, names, allowed values -/
  | labelNamesValues
  deriving DecidableEq, Repr

/-- the first row of the output clause -/
def firstRow (r : Rect) : Rect := ⟨r.left, r.top, r.right, r.top + 1⟩

/-- When the output clause analysis (recognizer.rs `recognize_horizontal_table`, output clause)
is in the given case, and what it reads there.  The case is decided by the width and height of the
output clause and by its REGIONS — not by the input clause: whether the inputs have allowed
values plays no role (before the repair of F67-mixed-header the two-row cases were told apart by the presence
of input values, and a table with allowed values for the inputs only or for the outputs only was
misread or rejected). -/
def HeaderCase.accepts : HeaderCase → Plane → Rect → (width height : Nat) → OutHeader → Prop
  | .label, P, r, w, h, o => w = 1 ∧ h = 1 ∧
    ∃ l, P.regionText r.top r.left = ok l ∧ o = ⟨some l, [], []⟩
  | .labelSpanning, P, r, w, h, o => w = 1 ∧ h = 2 ∧ P.equalRegions r = ok true ∧
    ∃ l, P.regionText r.top r.left = ok l ∧ o = ⟨some l, [], []⟩
  | .labelValues, P, r, w, h, o => w = 1 ∧ h = 2 ∧ P.equalRegions r = ok false ∧
    ∃ l v, P.regionText r.top r.left = ok l ∧ P.regionText (r.top + 1) r.left = ok v ∧
      o = ⟨some l, [], [v]⟩
  | .names, P, r, w, h, o => 2 ≤ w ∧ h = 1 ∧
    ∃ cs, P.rowTexts r.top r.left r.right = ok cs ∧ o = ⟨none, cs, []⟩
  | .namesValues, P, r, w, h, o => 2 ≤ w ∧ h = 2 ∧ P.equalRegions (firstRow r) = ok false ∧
    ∃ cs vs, P.rowTexts r.top r.left r.right = ok cs ∧
      P.valuesTexts r.top (r.top + 1) r.left r.right = ok vs ∧ o = ⟨none, cs, vs⟩
  | .labelNames, P, r, w, h, o => 2 ≤ w ∧ h = 2 ∧ P.equalRegions (firstRow r) = ok true ∧
    ∃ l cs, P.regionText r.top r.left = ok l ∧ P.rowTexts (r.top + 1) r.left r.right = ok cs ∧
      o = ⟨some l, cs, []⟩
  | .labelNamesValues, P, r, w, h, o => 2 ≤ w ∧ h = 3 ∧ P.equalRegions (firstRow r) = ok true ∧
    ∃ l cs vs, P.regionText r.top r.left = ok l ∧ P.rowTexts (r.top + 1) r.left r.right = ok cs ∧
      P.valuesTexts (r.top + 1) (r.top + 2) r.left r.right = ok vs ∧ o = ⟨some l, cs, vs⟩

/-- the case a well-formed table is drawn in by `draw` (cells without allowed values are
continued by blank cells; `labelSpanning` arises when they span instead, see
the mixed-header examples below) -/
def HeaderCase.ofTable (t : TableSpec) : HeaderCase :=
  if t.outputs.length = 1 then (if t.hasValues then .labelValues else .label)
  else if t.hasLabelRow then (if t.hasValues then .labelNamesValues else .labelNames)
  else (if t.hasValues then .namesValues else .names)

/-- The case analysis is exhaustive and exclusive: whatever the plane, the analysis of the
input clause accepts 1, 2 or 3 header rows only (one row: no input values; three rows: every
input expression spans the two upper rows), and the analysis of the output clause succeeds only
in one of the seven cases, reading exactly the texts the case names; every other combination of
width, height and regions is rejected with an error.  The output clause is analysed by its own
regions: `outputHeader` has no access to the input clause.  (`header_cases_drawn` below: the cases
are headers of well-formed tables, and `recognize_plane_roundtrip_*`: every well-formed table is
accepted in its case.) -/
theorem header_case_analysis_exhaustive (P : Plane) (r : Rect) :
    (∀ h b, inputValuesPresent P r h = ok b →
      (h = 1 ∧ b = false) ∨ h = 2 ∨
      (h = 3 ∧ P.equalRegionsInColumns ⟨r.left, r.top, r.right, r.top + 2⟩ = ok true)) ∧
    (∀ w h o, outputHeader P r w h = ok o → ∃ c : HeaderCase, c.accepts P r w h o) := by
  constructor
  · intro h b hb
    match h with
    | 0 => simp [inputValuesPresent, valuesRows] at hb
    | 1 => simp [inputValuesPresent, valuesRows, valuesPresentIn] at hb; exact Or.inl ⟨rfl, hb⟩
    | 2 => exact Or.inr (Or.inl rfl)
    | 3 =>
      refine Or.inr (Or.inr ⟨rfl, ?_⟩)
      simp only [inputValuesPresent, valuesRows] at hb
      cases he : P.equalRegionsInColumns ⟨r.left, r.top, r.right, r.top + 2⟩ with
      | ok b' =>
        cases b' with
        | true => rfl
        | false => rw [he] at hb; simp at hb
      | error e => rw [he] at hb; simp at hb
      | panic s => rw [he] at hb; simp at hb
    | h + 4 => simp [inputValuesPresent, valuesRows] at hb
  · intro w h o ho
    match w with
    | 0 => simp [outputHeader] at ho
    | 1 =>
      simp only [outputHeader] at ho
      match h with
      | 0 => simp [outputHeaderSingle] at ho
      | 1 =>
        simp only [outputHeaderSingle] at ho
        obtain ⟨l, hl, h1⟩ := bind_ok_inv ho
        cases h1
        exact ⟨.label, rfl, rfl, l, hl, rfl⟩
      | 2 =>
        simp only [outputHeaderSingle] at ho
        obtain ⟨l, hl, h1⟩ := bind_ok_inv ho
        cases he : P.equalRegions r with
        | ok b' =>
          rw [he] at h1
          cases b' with
          | true =>
            cases h1
            exact ⟨.labelSpanning, rfl, rfl, he, l, hl, rfl⟩
          | false =>
            obtain ⟨v, hv, h2⟩ := bind_ok_inv h1
            cases h2
            exact ⟨.labelValues, rfl, rfl, he, l, v, hl, hv, rfl⟩
        | error e => rw [he] at h1; cases h1
        | panic s => rw [he] at h1; cases h1
      | h + 3 => simp [outputHeaderSingle] at ho
    | w + 2 =>
      simp only [outputHeader] at ho
      match h with
      | 0 => simp [outputHeaderMulti] at ho
      | 1 =>
        simp only [outputHeaderMulti] at ho
        obtain ⟨cs, hcs, h1⟩ := bind_ok_inv ho
        cases h1
        exact ⟨.names, by omega, rfl, cs, hcs, rfl⟩
      | 2 =>
        simp only [outputHeaderMulti] at ho
        cases he : P.equalRegions ⟨r.left, r.top, r.right, r.top + 1⟩ with
        | ok b' =>
          rw [he] at ho
          cases b' with
          | true =>
            obtain ⟨l, hl, h1⟩ := bind_ok_inv ho
            obtain ⟨cs, hcs, h2⟩ := bind_ok_inv h1
            cases h2
            exact ⟨.labelNames, by omega, rfl, he, l, cs, hl, hcs, rfl⟩
          | false =>
            obtain ⟨cs, hcs, h1⟩ := bind_ok_inv ho
            obtain ⟨vs, hvs, h2⟩ := bind_ok_inv h1
            cases h2
            exact ⟨.namesValues, by omega, rfl, he, cs, vs, hcs, hvs, rfl⟩
        | error e => rw [he] at ho; cases ho
        | panic s => rw [he] at ho; cases ho
      | 3 =>
        simp only [outputHeaderMulti] at ho
        cases he : P.equalRegions ⟨r.left, r.top, r.right, r.top + 1⟩ with
        | ok b' =>
          rw [he] at ho
          cases b' with
          | true =>
            obtain ⟨l, hl, h1⟩ := bind_ok_inv ho
            obtain ⟨cs, hcs, h2⟩ := bind_ok_inv h1
            obtain ⟨vs, hvs, h3⟩ := bind_ok_inv h2
            cases h3
            exact ⟨.labelNamesValues, by omega, rfl, he, l, cs, vs, hl, hcs, hvs, rfl⟩
          | false => cases ho
        | error e => rw [he] at ho; cases ho
        | panic s => rw [he] at ho; cases ho
      | h + 4 => simp [outputHeaderMulti] at ho

/-- Each of the six cases `draw` produces is the header of a well-formed table (so none of them
is dead, and by the round trip theorems each such table is recognised in its case); the seventh,
`labelSpanning`, is the header of the mixed drawings of the mixed-header examples below. -/
theorem header_cases_drawn : ∀ c : HeaderCase, c ≠ .labelSpanning → ∃ t : TableSpec, t.wf = true ∧
    HeaderCase.ofTable t = c := by
  let out1 : List OutputClause := [⟨none, none⟩]
  let out1v : List OutputClause := [⟨none, some ['1']⟩]
  let out2 : List OutputClause := [⟨some ['a'], none⟩, ⟨some ['b'], none⟩]
  let out2v : List OutputClause := [⟨some ['a'], some ['1']⟩, ⟨some ['b'], some ['2']⟩]
  let mk (v : Bool) (outs : List OutputClause) (l : Option Text) : TableSpec :=
    { orientation := .ruleAsRow, hitPolicy := .unique, infoName := none,
      inputs := [⟨['x'], if v then some ['1'] else none⟩], outputs := outs, label := l,
      annotations := [], rules := [⟨[['-']], outs.map (fun _ => ['1']), []⟩] }
  intro c hc
  cases c
  · exact ⟨mk false out1 (some ['l']), by decide⟩
  · exact absurd rfl hc
  · exact ⟨mk true out1v (some ['l']), by decide⟩
  · exact ⟨mk false out2 none, by decide⟩
  · exact ⟨mk true out2v none, by decide⟩
  · exact ⟨mk false out2 (some ['l']), by decide⟩
  · exact ⟨mk true out2v (some ['l']), by decide⟩

/-! ## Mixed headers: allowed values of the inputs only / of the outputs only, the other cells
spanning the allowed-values lane (F67-mixed-header, repaired) -/

/-- the body rows of a one-input, two-rule table under a header -/
def mixedBody (hdr : List (List Cell)) (m : Nat) : Plane :=
  ⟨none,
    (hdr.map (fun row => Cell.region 0 " U ".toList :: row)) ++
    [Cell.hOut :: Cell.hOut :: Cell.mainX :: List.replicate m Cell.hOut,
     Cell.region 20 " 1 ".toList :: Cell.region 21 " <1 ".toList :: Cell.vOut ::
       (List.range m).map (fun j => Cell.region (22 + j) " 5 ".toList),
     Cell.region 30 " 2 ".toList :: Cell.region 31 " - ".toList :: Cell.vOut ::
       (List.range m).map (fun j => Cell.region (32 + j) " 6 ".toList)]⟩

/-- the table the mixed planes below denote -/
def mixedTable (iv : Option Text) (outs : List OutputClause) (l : Option Text) : TableSpec :=
  { orientation := .ruleAsRow, hitPolicy := .unique, infoName := none,
    inputs := [⟨" a ".toList, iv⟩], outputs := outs, label := l, annotations := [],
    rules := [⟨[" <1 ".toList], outs.map (fun _ => " 5 ".toList), []⟩,
              ⟨[" - ".toList], outs.map (fun _ => " 6 ".toList), []⟩] }

/-- Mixed headers are recognised as drawn (regression of F67-mixed-header, a test on sample planes — the
general statement is `header_case_analysis_exhaustive`: the output header is read by its regions; the witnesses of the finding
and their single-output and three-row relatives, as planes):
(a) allowed values of the input, output label over two component names, two header rows;
(b) the input cell spans both rows, component names over their allowed values;
(c) one output whose label spans both rows beside an input with allowed values;
(d) one output with allowed values beside an input that spans both rows;
(e) three rows: label / names spanning two rows, beside expression (two rows) / allowed values;
(f) three rows: the input spans all three, label / names / allowed values.
Before the repair (a), (b), (e) were silently misread (component names taken for allowed values,
the first component name for the label) and (c), (d), (f) rejected.  The correspondence draws
these shapes with random sizes and texts in both orientations (family `mixed`). -/
example :
    let v := " 1,2 ".toList
    let o1 := " o1 ".toList; let o2 := " o2 ".toList; let lab := " lab ".toList
    let w1 := " 7 ".toList; let w2 := " 8 ".toList
    let a := " a ".toList
    recognizePlane (mixedBody
        [[.region 1 a, .vOut, .region 2 lab, .region 2 lab],
         [.region 3 v, .vOut, .region 4 o1, .region 5 o2]] 2)
      = ok (mixedTable (some v) [⟨some o1, none⟩, ⟨some o2, none⟩] (some lab)) ∧
    recognizePlane (mixedBody
        [[.region 1 a, .vOut, .region 2 o1, .region 3 o2],
         [.region 1 a, .vOut, .region 4 w1, .region 5 w2]] 2)
      = ok (mixedTable none [⟨some o1, some w1⟩, ⟨some o2, some w2⟩] none) ∧
    recognizePlane (mixedBody
        [[.region 1 a, .vOut, .region 2 lab],
         [.region 3 v, .vOut, .region 2 lab]] 1)
      = ok (mixedTable (some v) [⟨none, none⟩] (some lab)) ∧
    recognizePlane (mixedBody
        [[.region 1 a, .vOut, .region 2 lab],
         [.region 1 a, .vOut, .region 3 w1]] 1)
      = ok (mixedTable none [⟨none, some w1⟩] (some lab)) ∧
    recognizePlane (mixedBody
        [[.region 1 a, .vOut, .region 2 lab, .region 2 lab],
         [.region 1 a, .vOut, .region 4 o1, .region 5 o2],
         [.region 3 v, .vOut, .region 4 o1, .region 5 o2]] 2)
      = ok (mixedTable (some v) [⟨some o1, none⟩, ⟨some o2, none⟩] (some lab)) ∧
    recognizePlane (mixedBody
        [[.region 1 a, .vOut, .region 2 lab, .region 2 lab],
         [.region 1 a, .vOut, .region 4 o1, .region 5 o2],
         [.region 1 a, .vOut, .region 6 w1, .region 5 o2]] 2)
      = ok (mixedTable none [⟨some o1, some w1⟩, ⟨some o2, none⟩] (some lab)) := by
  decide +kernel

/-! ## No index panic -/

/-- **No panic.** On every plane whatsoever — rectangular or ragged, with or without double
lines — the plane logic (orientation, hit policy and rule numbers, pivot, header analysis,
size validation, table construction) returns a table or an error: every index access is
checked (`plane.rs`, `rect.rs` after the repair of F19e) or in range (`builder.rs`, by
`validate_size`). -/
theorem plane_no_panic (P : Plane) : (recognizePlane P).isPanic = false :=
  (NP_iff_isPanic _).mp (NP_recognizePlane P)

/-- the plane of `corpus/C19/f19e_left_border_corner_above_double_line.dtb` -/
def raggedPlaneRows : Plane :=
  ⟨none, [[.region 0 " in1 ".toList, .vOut, .region 1 " - ".toList],
          [.vOut, .region 2 " - ".toList],
          [.mainX, .hOut],
          [.region 3 " out ".toList, .vOut, .region 4 " 1 ".toList],
          [.region 5 " U   ".toList, .vOut, .region 6 " 1 ".toList]]⟩

/-- the plane of `corpus/C19/f19e_left_border_corner_cols.dtb` -/
def raggedPlaneCols : Plane :=
  ⟨none, [[.region 0 " in1 ".toList, .vOut, .region 1 " - ".toList],
          [.hOut, .mainX, .hOut],
          [.region 2 " o1  ".toList, .vOut, .region 3 " 1 ".toList],
          [.vOut, .region 4 " 2 ".toList],
          [.region 5 " U   ".toList, .vOut, .region 6 " 1 ".toList]]⟩

/-- regression (F19e): the ragged planes of drawings with a damaged border junction, and the
planes that used to hit the other unchecked accesses, are rejected with an error -/
example :
    recognizePlane raggedPlaneRows = error .colOutOfRange ∧
    recognizePlane raggedPlaneCols = error .colOutOfRange ∧
    recognizePlane ⟨none, [[]]⟩ = error .colOutOfRange ∧
    recognizePlane ⟨none, [[.hOut], [.region 0 []]]⟩ = error .colOutOfRange ∧
    recognizePlane ⟨none, [[.region 0 " U ".toList, .region 1 [], .region 2 [], .region 3 []],
      [.hOut, .horzX, .hOut, .mainX], [.region 4 " 1 ".toList, .region 5 [], .region 6 [], .region 7 []]]⟩
      = error .noOutputClause := by
  decide +kernel

/-- the planes of drawn tables have the shape the scanner is meant to produce (the
correspondence evaluates `scannerShape` on every plane the real scanner produces) -/
example : (planeOf (sampleDecor true) (sampleTable .ruleAsRow)).scannerShape = true ∧
    (planeOf (sampleDecor false) (sampleTable .ruleAsColumn)).scannerShape = true := by
  decide +kernel

/-! ## The scanner (canvas.rs): no panic on any text -/

/-- **The scanner never panics.** For EVERY text, the scanner (`canvas::scan` followed by
`Canvas::plane`: lines → layered canvas → information item name, crossings, body rectangle →
thin / body / grid layers → regions → plane of cells) returns a plane or an error; none of its
index accesses `content[y][x]`, slices `[a..b]`, subtractions `len() - 1` / `bottom - 1` and
none of the `plane.content[row]` accesses of the plane construction is reachable out of range. -/
theorem canvas_no_panic (text : Text) : (scanText text).isPanic = false :=
  (SNP_iff_isPanic _).mp (SNP_scanText text)

/-- **Text to table: no panic.** For EVERY text, the whole recogniser (`dmntk_recognizer::build`:
scanner, then the plane logic) returns a table or an error, never a panic — `canvas_no_panic`
composed with `plane_no_panic`. -/
theorem recognize_text_no_panic (text : Text) : (recognizeText text).isPanic = false := by
  unfold recognizeText
  have h1 := canvas_no_panic text
  cases hs : scanText text with
  | ok s =>
    have h2 := plane_no_panic s.toPlane
    simp only
    cases hp : recognizePlane s.toPlane with
    | ok t => rfl
    | error e => rfl
    | panic p => rw [hp] at h2; cases h2
  | error e => rfl
  | panic s => rw [hs] at h1; cases h1

/-! ## Text-level round trip (partial: reduced to one obligation about the scanner) -/

/-
FULL STATEMENT (not proved; what is missing is exactly `scan_inverts_draw`):

  theorem scan_inverts_draw (d : Decor) (L : Layout) (t : TableSpec) (hwf : t.wf = true)
      (hd : d.Ok t) (hfit : Fits d L t) : scanInvertsDraw d L t = true

  theorem recognize_text_roundtrip (d : Decor) (L : Layout) (t : TableSpec) (hwf : t.wf = true)
      (hd : d.Ok t) (hfit : FitsExact d L t) : recognizeText (drawText d L t) = .ok t

(`FitsExact d L t`, Lemmas/CanvasGridDefs.lean, decidable `fitsExactB`: the drawing is legal - `Fits`,
below - every column and row has an interior, and every text, the information item name included,
fills the interior of its region exactly.  `Fits` alone is NOT enough and the statement with `Fits`
is false: `draw` completes a text that is narrower than its region with blanks, the scanner cuts out
the completed text (`text_from_rect_cuts_interior`) and nothing after the scanner trims it -
recognizer.rs and builder.rs keep the cell text as cut, builder.rs:179 only tests `trim().is_empty()`
- so the recognised table carries the blanks: it is the table of the COMPLETED texts, which is what the
drawing shows.  Not a defect: the property compares expressions, names, values and entries of the
drawing, and FEEL ignores the blanks when the table is evaluated; `sample_fits_not_enough` /
`sample_wider_not_exact` are the witness.  Of the last stage are proved, for any content / any sheet:
what `make_grid` computes position by position (`make_grid_layer_description`), that in the full grid
every grid cell is a closed box that `recognize_rectangle` returns (`grid_cell_is_closed_box`), and
that the region of a grid cell is found with its rank in reading order (`region_of_grid_cell_is_rank`).
Still open: that on the drawing of a sheet the body layer and the two passes yield the FULL grid
(`SheetGrid`; needs `remove_information_item_region` position by position and, per sheet, a line on
every boundary), the loop of `Canvas::plane` over it (`gridPlane` is its written-out result), that the
text cut from a region is the key's text under `FitsExact`, and that `idsRows` / `idsCols` are the
ranks.)

where `Fits d L t` says that the drawing is a legal one: every column width and row height of
`L` is at least 1 and `L.colW` / `L.rowH` cover the grid, every text fills the interior of its
region exactly (as `autoLayout` makes them), no text contains a box-drawing character, `░`, or
a line break other than the row separators, no line of the drawing begins or ends with white
space, and the right edge of the information item box meets the top border of the body at a
single-line position.  `scan_inverts_draw` is the geometric statement that the four layers the
scanner computes from `render (sheetOf d L t)` have one region per `Key` of the sheet, found in
row-major order, and one grid rectangle per grid cell, and that `text_from_rect` cuts each
padded text back out.  It is checked (not proved): by `decide +kernel` on the sample tables
below, by the correspondence on every generated drawing (the driver evaluates
`scanInvertsDraw` for each, `harness/src/c19.rs` family `scanner`), and the real scanner is
compared with the scanner model on every text.  `recognize_text_roundtrip_partial` proves the
rest: given that one obligation, the text-level round trip holds for tables of any size.
Of `scan_inverts_draw` itself the first stage is proved for every table, layout and text
(`draw_yields_drawing_lines`, `canvas_content_of_draw`: text → canvas content loses nothing, and
`draw` always yields lines the scanner takes whole); the later stages are named, each with its
written-out expectation (Model/CanvasStages.lean: `stageMarks`, `stageRegions`, `stagePlane`), and
`recognize_text_roundtrip_stages` is the round trip relative to exactly these three.  Stage (2) —
on the canvas of the drawing the information item name, the crossings and the body rectangle are
`expectedMarks` — is PROVED for every table and layout under `Fits` (`scan_marks_of_drawing`), and
`recognize_text_roundtrip_regions_plane` is the round trip relative to `Fits` and the last two
stages.  Stage (3) — `prepare_regions`, `remove_information_item_region` and `make_grid` succeed
and the regions `recognize_regions` finds in the thin layer are the information item box and then
one rectangle per region of the sheet in reading order (`expectedRegions`) — is PROVED too, for
every table and layout under `Fits` (`scan_regions_of_drawing`, from `scan_regions_of_sheet` for any
sheet whose regions are rectangles and `sheet_regions_are_rectangles`), so
`recognize_text_roundtrip_plane` is the round trip relative to `Fits` and the LAST stage only.
STILL ASSUMED (decidable, evaluated per generated table, not proved for all): (4) the cells built
from the grid layer are `planeDrawn` (`stagePlane`).  NOTE: `Fits` as defined (no box-drawing
character in a text, legal information item box) is enough for stages 1-3 but NOT for stage 4: the
text `text_from_rect` cuts out of a region is the text of the table only if that text fills the
interior of its region exactly (as `autoLayout` makes it); in a wider layout `draw` completes it
with blanks and the recognised text is the completed one (`sample_fits_not_enough`, example below:
`fitsB` and `stageRegions` true, `stagePlane` false).  The full statement therefore needs `Fits`
extended by "every text fills its region, every width and height is at least 1".
Proved towards (4), for ANY content: `grid_rectangle_of_closed_box`, `text_from_rect_cuts_interior`.
Missing for (4): `make_grid` (the grid layer has a closed box per grid cell), the loop of
`Canvas::plane` (marks at the crossing columns / rows, `findRegion` = the region of the cell), and
the numbering of the regions (`idsRows` / `idsCols` / `idsOfSheet` = rank in reading order; proved
so far: `keysInOrder` = the keys of the origins of the regions in reading order,
Lemmas/CanvasKeys.lean `keysInOrder_eq`).
-/

/-- **Text-level round trip, given that the scanner reads the drawing back.**  For every
well-formed table (any size, both orientations, every hit policy and combination of optional
parts, merged input entries or not) and every layout: if the scanner model reads the drawing as
the plane it denotes (`scanInvertsDraw`, a decidable property of the drawing), then recognising
the *text* of the drawing returns exactly the table. -/
theorem recognize_text_roundtrip_partial (d : Decor) (L : Layout) (t : TableSpec)
    (hwf : t.wf = true) (hd : d.Ok t) (hscan : scanInvertsDraw d L t = true) :
    recognizeText (drawText d L t) = .ok t := by
  unfold scanInvertsDraw at hscan
  unfold recognizeText
  cases hs : scanText (drawText d L t) with
  | ok s =>
    rw [hs] at hscan
    have hp : s.toPlane = planeDrawn d t := by simpa using hscan
    simp only [hp]
    have hr : recognizePlane (planeDrawn d t) = ok t := by
      unfold planeDrawn
      split
      · exact recognize_plane_roundtrip_merged d t hwf hd
      · exact recognize_plane_roundtrip d t hwf hd
    rw [hr]
  | error e => rw [hs] at hscan; cases hscan
  | panic p => rw [hs] at hscan; cases hscan

/-- non-vacuity: the hypothesis holds for the drawings of the small table in both orientations
(information item box, hit policy, rule number, double lines towards output and annotation), so
the text of each drawing is recognised as the table.  (The same is evaluated by the
correspondence for every generated table.) -/
example :
    let l := laidOut tinyDecor (tinyNamed .ruleAsRow)
    l.2.1.wf = true ∧ scanInvertsDraw l.1 l.2.2 l.2.1 = true ∧
      recognizeText (drawText l.1 l.2.2 l.2.1) = .ok l.2.1 := by
  decide +kernel

example :
    let l := laidOut tinyDecor (tinyNamed .ruleAsColumn)
    l.2.1.wf = true ∧ scanInvertsDraw l.1 l.2.2 l.2.1 = true ∧
      recognizeText (drawText l.1 l.2.2 l.2.1) = .ok l.2.1 := by
  decide +kernel

/-- **First stage of the round trip (proved for every drawing).**  The canvas content the
scanner builds from the text of a drawing — any non-empty lines without white space at either
end, the first beginning with `┌`, none but the last ending with `┘` (the lines `draw`
produces; they may differ in length, the information item box is narrower than the body) — is
the drawing itself in the text layer, blank in the other layers, every line completed with
`CHAR_OUTER` to the length of the longest, followed by one row of `CHAR_OUTER`: `str::lines`,
`trim`, the start / end detection and the padding of `scan` lose nothing. -/
theorem canvas_content_of_drawing (lines : List Text) (h : DrawingLines lines) :
    buildContent (textOfLines lines) = .ok (canvasOf lines) :=
  buildContent_drawing lines h

/-- non-vacuity: the lines of the drawing of the small table (with its information item box)
are the lines of a drawing -/
example :
    let l := laidOut tinyDecor (tinyNamed .ruleAsRow)
    DrawingLines (draw l.1 l.2.2 l.2.1) :=
  ⟨by decide +kernel, by decide +kernel, by decide +kernel, by decide +kernel⟩

/-! ## The stages of the scanner on a drawing (the geometric half of the round trip)

`scanInvertsDraw` is cut into the stages of `canvas.rs` (Model/CanvasStages.lean), each with a
written-out expectation in the pixel coordinates of the sheet:

| stage | what | status |
|-------|------|--------|
| 1 content | text → canvas content = the drawing in the text layer | PROVED for every table, layout and text (`draw_yields_drawing_lines`, `canvas_content_of_draw`) |
| 2 marks | name, crossings, body rectangle = `expectedMarks` | PROVED for every well-formed table and layout whose drawing is a legal one (`Fits`: no box-drawing character inside a text, the information item box ends over a single line): `scan_marks_of_drawing`, from `marks_of_double_grid_sheet` (any sheet with crossing double lines) |
| 3 regions | thin / body / grid layers; regions = box + one rectangle per cell (`expectedRegions`) | PROVED for every well-formed table and layout under `Fits`, merged input entries included: `scan_regions_of_drawing`, from `scan_regions_of_sheet` (any sheet whose regions are rectangles) and `sheet_regions_are_rectangles` |
| 4 plane | cells from the grid layer and the regions = `planeDrawn` | assumed (`stagePlane`); proved of it for any content / sheet: `make_grid_layer_description`, `grid_cell_is_closed_box`, `region_of_grid_cell_is_rank`; needs `FitsExact` (texts must fill their regions), not just `Fits` |

`recognize_text_roundtrip_plane` is the text-level round trip relative to `Fits` and stage 4 only.
-/

/-- **`draw` yields drawings** — for EVERY decoration, layout and well-formed table, whatever the
texts (multi-line, blank, containing box-drawing characters or not), column widths and row
heights, with or without the information item box: every line of `draw d L t` is non-empty,
contains no line break, begins and ends with a box-drawing character (`str::trim` does not
touch it), the first line begins with `┌` and no line but the last ends with `┘`. -/
theorem draw_yields_drawing_lines (d : Decor) (L : Layout) (t : TableSpec) (hwf : t.wf = true) :
    DrawingLines (draw d L t) := by
  have hw := (TableSpec.wf_iff t).mp hwf
  exact drawingLines_draw d L t (List.length_pos_iff.mp hw.inputs_pos)
    (List.length_pos_iff.mp hw.rules_pos)

/-- **Stage 1, unconditionally.**  For every decoration, layout and well-formed table the canvas
content the scanner builds from the text of the drawing is the drawing itself in the text layer
(`canvasOf`): no hypothesis on the texts or the layout is left. -/
theorem canvas_content_of_draw (d : Decor) (L : Layout) (t : TableSpec) (hwf : t.wf = true) :
    buildContent (drawText d L t) = .ok (canvasOf (draw d L t)) :=
  canvas_content_of_drawing _ (draw_yields_drawing_lines d L t hwf)

/-- **`search` finds the first occurrence in reading order** — on any rectangular content, any
layer, any set of searched characters: if `(xt, yt)` holds a searched character, no position to
its left in the same row and no position in a row above does, then `search` from the origin
returns exactly that character and position (the top left corner `┌`, the crossing `╬`). -/
theorem search_finds_first_in_reading_order {c : Content} {R W : Nat} (h : Shape c R W) (l : Layer)
    (s : List Char) (xt yt : Nat) (hyt : yt < R) (hxt : xt < W)
    (hs : s.contains (chOf c l yt xt) = true)
    (hrow : ∀ x', x' < xt → s.contains (chOf c l yt x') = false)
    (habove : ∀ y' x', y' < yt → x' < W → s.contains (chOf c l y' x') = false) :
    search c ⟨0, 0⟩ l s = .ok (chOf c l yt xt, ⟨xt, yt⟩) :=
  search_first h l s xt yt hyt hxt hs hrow habove

/-- non-vacuity: the first `┐` of the box is found -/
example : search boxContent ⟨0, 0⟩ .text ['┐'] = .ok ('┐', ⟨2, 0⟩) := by
  refine search_finds_first_in_reading_order boxContent_shape .text ['┐'] 2 0 (by omega) (by omega)
    (by decide) ?_ ?_
  · intro x' hx
    have : x' = 0 ∨ x' = 1 := by omega
    rcases this with rfl | rfl <;> decide
  · intro y' x' hy; omega

/-- **The walk around a rectangle returns the rectangle** — on any rectangular content and layer,
for the searched / allowed characters of any user of the walk (`recognize_region`,
`recognize_rectangle`, the information item box): if the four corners hold searched characters
and the sides between them only characters the searches step over (`BoxOn`), the walk from the
top left corner returns `Rect (l, t, r + 1, b + 1)`. -/
theorem walk_returns_the_box {c : Content} {R W : Nat} (h : Shape c R W) {layer : Layer}
    {l t r b : Nat} {sr ar sd ad sl al su au : List Char}
    (hlr : l < r) (hr : r < W) (htb : t < b) (hb : b < R)
    (box : BoxOn c layer l t r b sr ar sd ad sl al su au) :
    walkRectangle c layer ⟨l, t⟩ sr ar sd ad sl al su au = .ok ⟨l, t, r + 1, b + 1⟩ :=
  walkRectangle_box h hlr hr htb hb box

/-- **Every closed box of the thin layer is recognised as the region with its coordinates**
(`recognize_region`, canvas.rs:378): corners `┌ ├ ┬ ┼` / `┐ ┤ ┬ ┼` / `┘ ┤ ┴ ┼` / `└ ├ ┴ ┼`, on
the sides only lines and junctions that point outwards (`─ ┴` above, `│ ├` right, `─ ┬` below,
`│ ┤` left). -/
theorem region_of_closed_box {c : Content} {R W : Nat} (h : Shape c R W) {layer : Layer}
    {l t r b : Nat} (hlr : l < r) (hr : r < W) (htb : t < b) (hb : b < R)
    (box : RegionBox c layer l t r b) :
    recognizeRegion c layer ⟨l, t⟩ = .ok ⟨l, t, r + 1, b + 1⟩ :=
  recognizeRegion_box h hlr hr htb hb box

/-- **Every closed cell of the grid layer is recognised as the rectangle with its coordinates**
(`recognize_rectangle`, canvas.rs:396): only `─` / `│` between the junctions. -/
theorem grid_rectangle_of_closed_box {c : Content} {R W : Nat} (h : Shape c R W) {layer : Layer}
    {l t r b : Nat} (hlr : l < r) (hr : r < W) (htb : t < b) (hb : b < R)
    (box : GridBox c layer l t r b) :
    recognizeRectangle c layer ⟨l, t⟩ = .ok ⟨l, t, r + 1, b + 1⟩ :=
  recognizeRectangle_box h hlr hr htb hb box

/-- non-vacuity: the box of `boxContent` is a region and a grid rectangle -/
example : recognizeRegion boxContent .thin ⟨0, 0⟩ = .ok ⟨0, 0, 3, 3⟩ ∧
    recognizeRectangle boxContent .grid ⟨0, 0⟩ = .ok ⟨0, 0, 3, 3⟩ ∧
    walkRectangle boxContent .thin ⟨0, 0⟩ cornersTopRight ['─', '┴'] cornersBottomRight ['│', '├']
      cornersBottomLeft ['─', '┬'] cornersTopLeft ['│', '┤'] = .ok ⟨0, 0, 3, 3⟩ :=
  ⟨region_of_closed_box boxContent_shape (by omega) (by omega) (by omega) (by omega)
      (boxContent_box .thin).1,
   grid_rectangle_of_closed_box boxContent_shape (by omega) (by omega) (by omega) (by omega)
      (boxContent_box .grid).2,
   walk_returns_the_box boxContent_shape (by omega) (by omega) (by omega) (by omega)
      (boxContent_box .thin).1⟩

/-- **`text_from_rect` cuts out the interior** — on any rectangular content and layer: the text
of the rectangle with corners `(l, t)` and `(r, b)` (as the walk returns it) is the characters
strictly inside it, row by row; rows are joined by line breaks (`textRows`; for an interior at
least one column wide that is `joinLines`, `textRows_nonempty`), nothing is trimmed — a cell's
text is recognised exactly as drawn, blanks and line structure included. -/
theorem text_from_rect_cuts_interior {c : Content} {R W : Nat} (h : Shape c R W) (layer : Layer)
    {l t r b : Nat} (hlr : l < r) (hr : r < W) (htb : t < b) (hb : b < R) :
    textFromRect c layer ⟨l, t, r + 1, b + 1⟩ = .ok (textRows (interior c layer l t r b) false) :=
  textFromRect_interior h layer hlr hr htb hb

/-- non-vacuity: the text of the box of `boxContent` is its one interior character -/
example : textFromRect boxContent .text ⟨0, 0, 3, 3⟩ = .ok ['x'] := by
  rw [text_from_rect_cuts_interior boxContent_shape .text (by omega) (by omega) (by omega) (by omega)]
  decide

/-- **Where the lines and characters of a rendered sheet are** — for every sheet (any keys,
texts, widths, heights): boundary row `br` is line `yPos br` and text line `l` of grid row `r`
is line `yPos r + 1 + l`; in a border line the vertex of boundary column `bc` is at `xPos bc` and
the segment over grid column `c` occupies `xPos c + 1 …`; in a text line the separator of
boundary column `c` is at `xPos c` and the cell's characters follow; conversely every line and
every position is one of these (`Sheet.render_locate`, `Sheet.line_locate`).  This ties the
pixel coordinates used by the stage expectations (`expectedMarks`, `expectedRegions`) to `render`. -/
theorem render_lines_and_characters (s : Sheet) :
    s.render.length = s.yPos s.nrows + 1 ∧
    (∀ br, br ≤ s.nrows → s.render[s.yPos br]? = some (s.borderLine br)) ∧
    (∀ r l, r < s.nrows → l < s.h r → s.render[s.yPos r + (1 + l)]? = some (s.textLine r l)) ∧
    (∀ br bc, bc ≤ s.ncols → (s.borderLine br)[s.xPos bc]? = (s.vertex br bc)[0]?) ∧
    (∀ br c i, c < s.ncols → i < s.w c → s.hSeg br c = true →
      (s.borderLine br)[s.xPos c + (1 + i)]? = some (if s.hDbl br then '═' else '─')) ∧
    (∀ r l c, c ≤ s.ncols → (c = s.ncols ∨ s.vSeg r c = true) →
      (s.textLine r l)[s.xPos c]? = some (if s.vDbl c then '║' else '│')) ∧
    (∀ r l c i, c < s.ncols → i < s.w c → (s.textLine r l)[s.xPos c + (1 + i)]? =
      (slice (s.linesAt r c) (s.yOff r c + l) (s.xOff r c) (s.w c))[i]?) := by
  refine ⟨s.render_length, s.render_border, s.render_text, s.borderLine_vertex, ?_, ?_, s.textLine_cell⟩
  · intro br c i hc hi hseg
    rw [s.borderLine_seg br c i hc hi, if_pos hseg]
  · intro r l c hc hv
    rw [s.textLine_sep r l c hc]
    rcases hv with rfl | hv
    · rw [if_pos rfl]
    · split
      · rename_i h; rw [h]
      · first | rfl | rw [if_pos hv]

/-- **The stages compose to the scanner**: content, marks, layers, regions, plane. -/
theorem scan_stages_compose {text : Text} {c c' : Content} {m : Marks} {regs : List Rect}
    {rows : List (List SCell)} (h1 : buildContent text = .ok c) (h2 : scanMarks c = .ok m)
    (h3 : scanLayers c m.bodyRect = .ok c') (h4 : recognizeRegions c' = .ok regs)
    (h5 : planeWith (m.canvas c') regs = .ok rows) : scanText text = .ok ⟨m.name, rows⟩ :=
  scanText_of_stages h1 h2 h3 h4 h5

/-- **The hypothesis of the text-level round trip shrinks to the later stages**: for every
well-formed table and layout, `scanInvertsDraw` follows from stages 2–4 (`laterStages`: marks,
regions, plane, each against its written-out expectation); stage 1 is proved. -/
theorem scan_inverts_draw_of_later_stages (d : Decor) (L : Layout) (t : TableSpec)
    (hwf : t.wf = true) (h : laterStages d L t = true) : scanInvertsDraw d L t = true := by
  have hw := (TableSpec.wf_iff t).mp hwf
  exact scanInvertsDraw_of_stages d L t (List.length_pos_iff.mp hw.inputs_pos)
    (List.length_pos_iff.mp hw.rules_pos) h

/-- **Text-level round trip relative to the stages not yet proved.**  For every well-formed table
(any size, both orientations, every hit policy and combination of optional parts, merged input
entries or not) and every layout: if on the canvas of the drawing (a) the marks are found where
the sheet has them (`stageMarks`), (b) the regions of the thin layer are the information item box
and one rectangle per cell of the sheet (`stageRegions`), (c) the cells built from the grid layer
are the plane the drawing denotes (`stagePlane`), then recognising the TEXT of the drawing returns
exactly the table.  Nothing is assumed about text → lines → canvas content any more. -/
theorem recognize_text_roundtrip_stages (d : Decor) (L : Layout) (t : TableSpec)
    (hwf : t.wf = true) (hd : d.Ok t) (hm : stageMarks d L t = true)
    (hr : stageRegions d L t = true) (hp : stagePlane d L t = true) :
    recognizeText (drawText d L t) = .ok t :=
  recognize_text_roundtrip_partial d L t hwf hd
    (scan_inverts_draw_of_later_stages d L t hwf (by simp [laterStages, hm, hr, hp]))

/-- **Stage 2 on any sheet with crossing double lines.**  For EVERY sheet (any keys, texts,
widths, heights) that has a double boundary column `bc0` and a double boundary row `br0` drawn
from border to border, optionally a second double column to the right or a second double row
below (`DoubleGrid`), drawn legally (`SheetFits`), with or without an information item box: the
scanner's `recognize_information_item_name`, `recognize_crossings` and `recognize_body_rect`
find — the name as drawn (line by line, blanks included); the crossing where the main double
lines meet (the first `╬` in reading order), the second crossing to the right of it exactly when
there is a second double column with full crossings between (`═ ╪` only), the one below it
exactly when there is a second double row; and as body rectangle the whole sheet (up to `╥`, down
to `╨`, left to `╞`, right to `╡`). -/
theorem marks_of_double_grid_sheet {s : Sheet} {name : Option Text} {boxRight : Nat} {bc0 br0 : Nat}
    {bc1 br1 : Option Nat} (hf : SheetFits s name boxRight) (g : DoubleGrid s bc0 br0 bc1 br1) :
    scanMarks (sheetCanvas s name boxRight) =
      .ok ⟨name.map (fun nm => joinLines ((splitLines nm).map (padTo (boxRight - 1)))),
        ⟨s.xPos bc0, boxLines name + s.yPos br0⟩,
        bc1.map (fun b => ⟨s.xPos b, boxLines name + s.yPos br0⟩),
        br1.map (fun b => ⟨s.xPos bc0, boxLines name + s.yPos b⟩),
        ⟨0, boxLines name, s.xPos s.ncols + 1, boxLines name + s.yPos s.nrows + 1⟩⟩ :=
  scanMarks_sheet hf g

/-- **Stage 2 for every table.**  For every well-formed table — any number of inputs, outputs,
annotations and rules, both orientations, every combination of optional parts, merged input
entries or not — and every layout whose drawing is a legal one (`Fits`): on the canvas of the
drawing the scanner finds the information item name, the crossings and the body rectangle exactly
where the sheet has them (`expectedMarks`). -/
theorem scan_marks_of_drawing (d : Decor) (L : Layout) (t : TableSpec) (hwf : t.wf = true)
    (hf : Fits d L t) : scanMarks (canvasOf (draw d L t)) = .ok (expectedMarks d L t) := by
  have hw := (TableSpec.wf_iff t).mp hwf
  exact scanMarks_draw d L t hw.orient hw.inputs_pos hw.outputs_pos hw.rules_pos hf

/-- non-vacuity: the drawings of the small table (information item box, annotation double line)
are legal drawings in both orientations (`sample_fits`, evaluated in Lemmas/CanvasSamples.lean) -/
example :
    (let l := laidOut tinyDecor (tinyNamed .ruleAsRow); Fits l.1 l.2.2 l.2.1) ∧
    (let l := laidOut tinyDecor (tinyNamed .ruleAsColumn); Fits l.1 l.2.2 l.2.1) :=
  ⟨fits_of_fitsB _ _ _ sample_fits.1, fits_of_fitsB _ _ _ sample_fits.2.1⟩

/-- the hypothesis is needed: a `║` inside an input entry is a line to the scanner (the format
has no escape), the drawing is not a legal one -/
example :
    let t := { tinyNamed .ruleAsRow with rules := [⟨[" ║ ".toList], [" 1 ".toList], ["x".toList]⟩] }
    let l := laidOut tinyDecor t
    fitsB l.1 l.2.2 l.2.1 = false := sample_not_fits

/-- **Text-level round trip relative to the two stages not yet proved.**  For every well-formed
table and every layout whose drawing is a legal one (`Fits`): if (b) the regions the scanner
finds in the thin layer are the information item box and one rectangle per cell of the sheet
(`stageRegions`) and (c) the cells built from the grid layer are the plane the drawing denotes
(`stagePlane`), then recognising the TEXT of the drawing returns exactly the table.  Text → canvas
content and the marks (name, crossings, body rectangle) are proved. -/
theorem recognize_text_roundtrip_regions_plane (d : Decor) (L : Layout) (t : TableSpec)
    (hwf : t.wf = true) (hd : d.Ok t) (hf : Fits d L t)
    (hr : stageRegions d L t = true) (hp : stagePlane d L t = true) :
    recognizeText (drawText d L t) = .ok t := by
  have hw := (TableSpec.wf_iff t).mp hwf
  exact recognize_text_roundtrip_stages d L t hwf hd
    (stageMarks_of_fits d L t hw.orient hw.inputs_pos hw.outputs_pos hw.rules_pos hf) hr hp

/-- non-vacuity: all hypotheses hold for the drawing of the small table -/
example :
    let l := laidOut tinyDecor (tinyNamed .ruleAsColumn)
    l.2.1.wf = true ∧ fitsB l.1 l.2.2 l.2.1 = true ∧ stageRegions l.1 l.2.2 l.2.1 = true ∧
      stagePlane l.1 l.2.2 l.2.1 = true :=
  ⟨sample_fits.2.2, sample_fits.2.1, sample_stages_cols.2.1, sample_stages_cols.2.2⟩

/-- non-vacuity: the three stage hypotheses hold for the drawings of the small table with its
information item box and annotation, in both orientations (evaluated in
Lemmas/CanvasSamples.lean; the driver evaluates them for every generated table) -/
example :
    let l := laidOut tinyDecor (tinyNamed .ruleAsRow)
    stageMarks l.1 l.2.2 l.2.1 = true ∧ stageRegions l.1 l.2.2 l.2.1 = true ∧
      stagePlane l.1 l.2.2 l.2.1 = true := sample_stages_rows

example :
    let l := laidOut tinyDecor (tinyNamed .ruleAsColumn)
    stageMarks l.1 l.2.2 l.2.1 = true ∧ stageRegions l.1 l.2.2 l.2.1 = true ∧
      stagePlane l.1 l.2.2 l.2.1 = true := sample_stages_cols

/-- the expectations of the stages, written out for the small rules-as-rows table: the crossing
`╬`, the annotation crossing to its right, the body under the two lines of the information item
box, and the regions — the box, then one rectangle per cell in reading order
(`sample_expectations`, Lemmas/CanvasSamples.lean) -/
example :
    let l := laidOut tinyDecor (tinyNamed .ruleAsRow)
    (draw l.1 l.2.2 l.2.1).length = 7 ∧
    expectedMarks l.1 l.2.2 l.2.1 =
      ⟨some " nm".toList, ⟨10, 4⟩, some ⟨16, 4⟩, none, ⟨0, 2, 21, 7⟩⟩ ∧
    (expectedRegions l.1 l.2.2 l.2.1).length = 9 :=
  ⟨by rw [sample_expectations.1]; rfl, sample_expectations.2.1, by rw [sample_expectations.2.2]; rfl⟩

/-- **The regions of the sheet of every table are rectangles** — both orientations, with or
without allowed values, label lane, split header lane, annotations, merged input entries (a run of
equal entries of ANY length is one cell): for every grid cell the cells with its key are exactly a
rectangle of grid rows and columns (`IsRegion`). -/
theorem sheet_regions_are_rectangles (d : Decor) (L : Layout) (t : TableSpec)
    (ho : t.orientation ≠ .crossTable) : RectSheet (sheetOf d L t) :=
  rectSheet_sheetOf d L t ho

/-- **Stage 3 on any sheet.**  For EVERY sheet (any keys, texts, widths, heights) with crossing
double lines (`DoubleGrid`) whose regions are rectangles (`RectSheet`), drawn legally (`SheetFits`),
with or without an information item box: `prepare_regions`, `remove_information_item_region` and
`make_grid` succeed on the canvas of the drawing and keep its shape and text layer, and
`recognize_regions` finds in the thin layer — in this order — the information item box (when there
is a name) and one rectangle per region of the sheet, in reading order of their top left corners
(`keysInOrder`), each with the pixel coordinates of its border (`regionRect`).  Inside: the thin
layer is the single-line junction of the arms of every vertex (Lemmas/CanvasThin.lean), every
rectangular region is a closed box of it (`regionBox_of_isRegion`), the top left corners in reading
order are the box corner and the origins of the regions (`corners_of_sheet`), and the keys in order
of first appearance are the keys of these origins (`keysInOrder_eq`). -/
theorem scan_regions_of_sheet {s : Sheet} {name : Option Text} {boxRight : Nat} {bc0 br0 : Nat}
    {bc1 br1 : Option Nat} (hf : SheetFits s name boxRight) (g : DoubleGrid s bc0 br0 bc1 br1)
    (hrect : RectSheet s) :
    ∃ c', scanLayers (sheetCanvas s name boxRight)
        ⟨0, boxLines name, s.xPos s.ncols + 1, boxLines name + s.yPos s.nrows + 1⟩ = .ok c' ∧
      Shape c' (boxLines name + s.yPos s.nrows + 2) (s.xPos s.ncols + 1) ∧
      (∀ y x, y < boxLines name + s.yPos s.nrows + 2 → x < s.xPos s.ncols + 1 →
        chOf c' .text y x = chOf (sheetCanvas s name boxRight) .text y x) ∧
      recognizeRegions c' = .ok (sheetRegions s name boxRight) :=
  regions_of_sheet hf g hrect

/-- **Stage 3 for every table.**  For every well-formed table — any number of inputs, outputs,
annotations and rules, both orientations, every combination of optional parts, input entries merged
over any number of adjacent rules or not — and every layout whose drawing is a legal one (`Fits`):
on the canvas of the drawing the layers are computed and the regions the scanner finds in the thin
layer are exactly `expectedRegions`: the information item box, then one rectangle per cell of the
sheet in reading order. -/
theorem scan_regions_of_drawing (d : Decor) (L : Layout) (t : TableSpec) (hwf : t.wf = true)
    (hf : Fits d L t) :
    ∃ c', scanLayers (canvasOf (draw d L t)) (expectedMarks d L t).bodyRect = .ok c' ∧
      recognizeRegions c' = .ok (expectedRegions d L t) := by
  have hw := (TableSpec.wf_iff t).mp hwf
  exact regions_of_draw d L t hw.orient hw.inputs_pos hw.outputs_pos hw.rules_pos hf

/-- non-vacuity, and the class of the seeded change C19-19: an input entry merged over THREE
adjacent rules, in both orientations, is a well-formed table with a legal drawing (so the theorem
applies: the merged cell is one region, 18 regions instead of 20), and stage 4 evaluates to true
for it (Lemmas/CanvasSamples3.lean, CanvasSamples4.lean) -/
example :
    (let l := laidOut mergedDecor (mergedTable .ruleAsRow)
     l.2.1.wf = true ∧ fitsB l.1 l.2.2 l.2.1 = true ∧ (expectedRegions l.1 l.2.2 l.2.1).length = 18 ∧
       stageRegions l.1 l.2.2 l.2.1 = true ∧ stagePlane l.1 l.2.2 l.2.1 = true) ∧
    (let l := laidOut mergedDecor (mergedTable .ruleAsColumn)
     l.2.1.wf = true ∧ fitsB l.1 l.2.2 l.2.1 = true ∧ (expectedRegions l.1 l.2.2 l.2.1).length = 18 ∧
       stageRegions l.1 l.2.2 l.2.1 = true ∧ stagePlane l.1 l.2.2 l.2.1 = true) :=
  ⟨sample_merged_three_rows, sample_merged_three_cols⟩

/-- **The region of a grid cell is the first region of the whole list that contains it**
(`Canvas::plane`, canvas.rs:339-351; the search the seeded change C19-19 started at a remembered
index): for ANY list of regions and rectangle, if region number `i` contains the rectangle and no
region before it does, the search returns `i` and that region — the number does not depend on
where the search for the previous cell ended; if no region contains it, nothing is found
(`region not found`). -/
theorem find_region_is_first_containing (rect : Rect) (rs : List Rect) :
    (∀ i r, rs[i]? = some r → r.contains rect = true →
      (∀ j r', j < i → rs[j]? = some r' → r'.contains rect = false) →
      findRegion rect rs 0 = some (i, r)) ∧
    ((∀ r ∈ rs, r.contains rect = false) → findRegion rect rs 0 = none) := by
  refine ⟨fun i r h hc hno => ?_, findRegion_none rect rs 0⟩
  have := findRegion_first rect rs 0 i r h hc hno
  rwa [Nat.zero_add] at this

/-- non-vacuity: a cell in the third row of a region that spans three rows is found in that
region (number 1), although the first cell of the row lies in region 2 -/
example : findRegion ⟨4, 6, 19, 9⟩ [⟨0, 0, 5, 3⟩, ⟨4, 2, 19, 9⟩, ⟨0, 6, 5, 9⟩] 0 =
    some (1, ⟨4, 2, 19, 9⟩) := by decide

/-- **Text-level round trip relative to the one stage not yet proved.**  For every well-formed
table and every layout whose drawing is a legal one (`Fits`): if the cells `Canvas::plane` builds
from the grid layer and the (proved) regions are the plane the drawing denotes (`stagePlane`,
decidable, evaluated by the driver for every generated table), then recognising the TEXT of the
drawing returns exactly the table.  Text → canvas content, the marks and the regions are proved. -/
theorem recognize_text_roundtrip_plane (d : Decor) (L : Layout) (t : TableSpec)
    (hwf : t.wf = true) (hd : d.Ok t) (hf : Fits d L t) (hp : stagePlane d L t = true) :
    recognizeText (drawText d L t) = .ok t := by
  have hw := (TableSpec.wf_iff t).mp hwf
  exact recognize_text_roundtrip_regions_plane d L t hwf hd hf
    (stageRegions_of_fits d L t hw.orient hw.inputs_pos hw.outputs_pos hw.rules_pos hf) hp

/-- non-vacuity: the hypotheses hold for the drawing of the small table -/
example :
    let l := laidOut tinyDecor (tinyNamed .ruleAsColumn)
    l.2.1.wf = true ∧ fitsB l.1 l.2.2 l.2.1 = true ∧ stagePlane l.1 l.2.2 l.2.1 = true :=
  ⟨sample_fits.2.2, sample_fits.2.1, sample_stages_cols.2.2⟩

/-- the remaining hypothesis is needed, `Fits` alone is not enough: in a layout one position wider
than the texts the drawing is legal and its regions are found, but the text cut out of a region is
the text of the table completed with blanks — the table with the completed texts is what the
drawing denotes (`sample_fits_not_enough`, Lemmas/CanvasSamples2.lean) -/
example :
    let l := laidOut tinyDecor (tinyNamed .ruleAsRow)
    let L' : Layout := { l.2.2 with colW := l.2.2.colW.map (· + 1) }
    l.2.1.wf = true ∧ fitsB l.1 L' l.2.1 = true ∧ stageRegions l.1 L' l.2.1 = true ∧
      stagePlane l.1 L' l.2.1 = false := sample_fits_not_enough

/-- the scanner rejects what is not a drawing with an error (and `canvas_no_panic`: never with
a panic): no corner, no double crossing, an open rectangle -/
example :
    scanText "no table here".toList = .error (.notFound ['┌']) ∧
    scanText "┌─┐\n└─┘".toList = .error (.notFound ['╥']) ∧
    scanText "".toList = .error (.notFound ['┌']) := by
  decide +kernel

/-! ## Towards stage 4: the grid layer, its boxes, the region of a cell -/

/-- **What `make_grid` computes, position by position** (canvas.rs:219-268) — on ANY rectangular
content with the body rectangle inside it: `make_grid` succeeds, keeps the shape and the text, thin
and body layers, and the grid layer is, at EVERY position, the body layer after the two passes
written out as functions (`gridH`, `gridV`, Lemmas/CanvasGridDefs.lean): the horizontal pass
rewrites exactly the rows of the body rectangle that hold a `─` (`│` becomes `├` / `┼` / `┤` by its
column, `┤` and `├` become `┼` inside, a blank becomes `─`), the vertical pass then exactly the
columns that hold a `│` (`─` becomes `┬` / `┼` / `┴` by its row, `┴` and `┬` become `┼` inside, a
blank becomes `│`); rows and columns without a line are left as they are. -/
theorem make_grid_layer_description {c : Content} {R W : Nat} (h : Shape c R W) {b : Rect}
    (hb : b.Inside R W) :
    ∃ c', makeGrid c b .body .grid = .ok c' ∧ Shape c' R W ∧
      (∀ l ∈ [Layer.text, .thin, .body], ∀ y x, chOf c' l y x = chOf c l y x) ∧
      ∀ y x, chOf c' .grid y x = gridV (fun y x => chOf c .body y x) b y x := by
  obtain ⟨c', hc', hs, hsame, hgrid⟩ := makeGrid_pointwise h hb
  exact ⟨c', hc', hs, hsame, hgrid⟩

/-- non-vacuity: on the 3 × 3 box the grid layer is computed, and the blank in the middle stays a
blank (the middle row holds no `─`, the middle column no `│`) -/
example : ∃ c', makeGrid boxContent ⟨0, 0, 3, 3⟩ .body .grid = .ok c' ∧ chOf c' .grid 1 1 = 'x' := by
  obtain ⟨c', hc', _, _, hg⟩ := make_grid_layer_description boxContent_shape
    (b := ⟨0, 0, 3, 3⟩) ⟨by decide, by decide, by decide⟩
  refine ⟨c', hc', ?_⟩
  rw [hg]
  decide

/-- **One closed box per grid cell.**  On any content whose grid layer holds the full grid of a
sheet drawn `o` lines below the top (`SheetGrid`: a junction at every vertex, `─` along every
boundary row, `│` along every boundary column, blanks inside): every grid cell `(r, c)` is a closed
box of the grid layer, `recognize_rectangle` from its top left vertex returns exactly the cell's
rectangle in pixel coordinates, and on a boundary row the top left corners of the grid layer are
exactly the top left vertices of the grid cells (so `Canvas::plane` visits each grid cell once, in
reading order), a text line holds none. -/
theorem grid_cell_is_closed_box {c : Content} {s : Sheet} {o : Nat}
    (hs : Shape c (o + s.yPos s.nrows + 2) (s.xPos s.ncols + 1)) (hg : SheetGrid c s o) :
    (∀ r cc, r < s.nrows → cc < s.ncols →
      GridBox c .grid (s.xPos cc) (o + s.yPos r) (s.xPos (cc + 1)) (o + s.yPos (r + 1)) ∧
      recognizeRectangle c .grid ⟨s.xPos cc, o + s.yPos r⟩ = .ok (s.cellRect o r cc)) ∧
    (∀ br x, br ≤ s.nrows → x < s.xPos s.ncols + 1 →
      (cornersTopLeft.contains (chOf c .grid (o + s.yPos br) x) = true ↔
        br < s.nrows ∧ ∃ cc, cc < s.ncols ∧ x = s.xPos cc)) ∧
    (∀ r l x, r < s.nrows → l < s.h r → x < s.xPos s.ncols + 1 →
      cornersTopLeft.contains (chOf c .grid (o + (s.yPos r + (1 + l))) x) = false) :=
  ⟨fun _ _ hr hc => ⟨gridBox_of_sheetGrid hg hr hc, recognizeRectangle_cell hs hg hr hc⟩,
   fun _ _ hbr hx => sheetGrid_corner_iff hg hbr hx,
   fun _ _ _ hr hl hx => sheetGrid_text_row hg hr hl hx⟩

/-- non-vacuity: the grid layer of the 3 × 3 box `gridSample` is the full grid of the sheet of one
cell `oneCellSheet` (Lemmas/CanvasSamples5.lean) -/
example : SheetGrid gridSample oneCellSheet 0 := by
  have two : ∀ n, n ≤ 1 → n = 0 ∨ n = 1 := by intro n h; omega
  have one : ∀ n, n < 1 → n = 0 := by intro n h; omega
  refine ⟨?_, ?_, ?_, ?_, ?_, ?_⟩
  · intro br bc hbr hbc
    rcases two br hbr with rfl | rfl <;> rcases two bc hbc with rfl | rfl <;> decide
  · intro br c' i hbr hc hi
    have hc0 := one c' hc
    subst hc0
    have hi0 := one i hi
    subst hi0
    rcases two br hbr with rfl | rfl <;> decide
  · intro r l bc hr hl hbc
    have hr0 := one r hr
    subst hr0
    have hl0 := one l hl
    subst hl0
    rcases two bc hbc with rfl | rfl <;> decide
  · intro r l c' i hr hl hc hi
    have hr0 := one r hr
    subst hr0
    have hl0 := one l hl
    subst hl0
    have hc0 := one c' hc
    subst hc0
    have hi0 := one i hi
    subst hi0
    decide
  · intro y x hy; omega
  · intro x _
    have : chOf gridSample .grid (0 + oneCellSheet.yPos oneCellSheet.nrows + 1) x = ' ' := by
      unfold chOf
      rw [show (0 + oneCellSheet.yPos oneCellSheet.nrows + 1) = 3 from by decide]
      rfl
    rw [this]; decide

/-- **The region of a grid cell is found with its rank** (`Canvas::plane`, canvas.rs:339-351) — for
EVERY sheet whose regions are rectangles (`RectSheet`; the sheet of every table is one,
`sheet_regions_are_rectangles`), with or without the information item box: among the regions the
scanner finds on the drawing (`sheetRegions` = `expectedRegions`: the box, then one rectangle per
region in reading order — stage 3) the first that contains the rectangle of grid cell `(r, c)` is
the region of the cell's key, and the number it gets is the rank of the key in reading order,
counted after the box (`Sheet.regionNo` — the number `idsOfSheet` gives it).  A region rectangle
contains a cell rectangle exactly when the cell belongs to the region. -/
theorem region_of_grid_cell_is_rank {s : Sheet} (hrect : RectSheet s) (name : Option Text)
    (boxRight : Nat) {r c : Nat} (hr : r < s.nrows) (hc : c < s.ncols) :
    findRegion (s.cellRect (boxLines name) r c) (sheetRegions s name boxRight) 0 =
      some (s.regionNo name (s.key r c), s.regionRect (boxLines name) (s.key r c)) :=
  findRegion_cell hrect name boxRight hr hc

/-- non-vacuity: the hypothesis holds for the sheet of every table that is not a cross table -/
example (d : Decor) (L : Layout) (t : TableSpec) (ho : t.orientation ≠ .crossTable) {r c : Nat}
    (hr : r < (sheetOf d L t).nrows) (hc : c < (sheetOf d L t).ncols) :
    findRegion ((sheetOf d L t).cellRect (boxLines t.infoName) r c) (expectedRegions d L t) 0 =
      some ((sheetOf d L t).regionNo t.infoName ((sheetOf d L t).key r c),
        (sheetOf d L t).regionRect (boxLines t.infoName) ((sheetOf d L t).key r c)) := by
  rw [expectedRegions_eq]
  exact region_of_grid_cell_is_rank (sheet_regions_are_rectangles d L t ho) _ _ hr hc

/-- **`FitsExact` is what `autoLayout` produces, and more than `Fits`** (evaluated on the sample
tables, Lemmas/CanvasSamples5.lean): the decidable `fitsExactB` — `fitsB`, every width and height
at least 1, every text as many lines as its region has interior rows and each line as long as the
interior is wide, the name's lines as long as the box is wide — holds for the layouts `autoLayout`
computes for the small table in both orientations; in the layout one position wider the drawing is
still legal (`fitsB`) but not exact: there `draw` completes the texts with blanks and the recogniser
returns the completed texts (`sample_fits_not_enough`); and `FitsExact` implies `Fits` and that
every column and row has an interior. -/
theorem fits_exact_implies_fits (d : Decor) (L : Layout) (t : TableSpec) (h : FitsExact d L t) :
    Fits d L t ∧ Roomy (sheetOf d L t) :=
  ⟨fits_of_fitsB d L t (fits_of_fitsExact d L t h), roomy_of_fitsExact d L t h⟩

/-- non-vacuity, and the witness that `Fits` is weaker -/
example :
    (let l := laidOut tinyDecor (tinyNamed .ruleAsRow); FitsExact l.1 l.2.2 l.2.1) ∧
    (let l := laidOut tinyDecor (tinyNamed .ruleAsColumn); FitsExact l.1 l.2.2 l.2.1) ∧
    (let l := laidOut tinyDecor (tinyNamed .ruleAsRow)
     let L' : Layout := { l.2.2 with colW := l.2.2.colW.map (· + 1) }
     fitsB l.1 L' l.2.1 = true ∧ fitsExactB l.1 L' l.2.1 = false) :=
  ⟨sample_fits_exact.1, sample_fits_exact.2, sample_wider_not_exact⟩

end Dmn.Recog
