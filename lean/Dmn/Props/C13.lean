import Dmn.Lemmas.EvalM

/-!
# C13 — evaluation is pure: the caller's scope is untouched

`Dmn.Eval.evalStep env a` is the model of the closure `build_evaluator(a)` returns
(`feel-evaluator/src/builders.rs`); every `push`, `pop` and `set_entry` of the Rust closures is
an explicit effect on the scope the model threads through.  The theorems say that, for every
syntax tree and every scope, whatever the evaluation returns, the scope it leaves is the
scope it was given.
-/

namespace Dmn.Eval
open EvalM

/-- One proof step for a node: peel binds, close leaves, split matches, use the
induction hypotheses of the mutual block. -/
local macro "pres_step" : tactic =>
  `(tactic| first
    | exact pres_pure _
    | exact pres_lift _
    | exact pres_getEntry _
    | exact pres_getScope
    | assumption
    | apply pres_bind
    | split
    | intro _)

mutual
/-- The closure built for any syntax tree leaves the scope as it found it, provided
function bodies do (`hc`). -/
theorem pres_evalStep (env : Env) (hc : ∀ b, Pres (env.call b)) : (a : Ast) → Pres (evalStep env a)
  | .add a b | .and a b | .contextEntry a b | .contextTypeEntry a b | .div a b | .eq a b | .exp a b
  | .formalParameter a b | .functionDefinition a b | .functionType a b | .ge a b | .gt a b | .in a b
  | .instanceOf a b | .le a b | .lt a b | .mul a b | .nq a b | .or a b | .range a b | .sub a b => by
    have ha := pres_evalStep env hc a
    have hb := pres_evalStep env hc b
    simp only [evalStep]
    repeat pres_step
  | .out a b => by
    have ha := pres_evalStep env hc a
    have hb := pres_evalStep env hc b
    simp only [evalStep]
    repeat pres_step
  | .between a b c => by
    have ha := pres_evalStep env hc a
    have hb := pres_evalStep env hc b
    have hd := pres_evalStep env hc c
    simp only [evalStep]
    repeat pres_step
  | .if a b c => by
    have ha := pres_evalStep env hc a
    have hb := pres_evalStep env hc b
    have hd := pres_evalStep env hc c
    simp only [evalStep]
    repeat pres_step
  | .evaluatedExpression a => by simp only [evalStep]; exact pres_evalStep env hc a
  | .intervalEnd a _ | .intervalStart a _ | .listType a | .neg a | .rangeType a | .unaryGe a
  | .unaryGt a | .unaryLe a | .unaryLt a => by
    have ha := pres_evalStep env hc a
    simp only [evalStep]
    repeat pres_step
  | .contextType xs | .expressionList xs | .formalParameters xs | .list xs | .namedParameters xs
  | .negatedList xs | .parameterTypes xs | .qualifiedName xs => by
    have hx := pres_evalList env hc xs
    simp only [evalStep]
    repeat pres_step
  | .context es => by
    simp only [evalStep]
    exact pres_pushPop [] (topOnly_evalContextEntries env hc es []) Value.ctx
  | .filter a b => by
    have ha := pres_evalStep env hc a
    have hb := pres_evalStep env hc b
    have hf := fun vs => pres_filterLoop hb vs
    simp only [evalStep]
    apply pres_bind ha
    intro l
    split
    · apply pres_bind (hf _)
      intro _
      apply pres_bind hb
      intro r
      split <;> exact pres_pure _
    · split
      · exact pres_bind hb (fun _ => pres_pure _)
      · exact pres_pure _
  | .for (.iterationContexts items) body => by
    have hb := pres_evalStep env hc body
    simp only [evalStep]
    apply pres_bind (pres_evalIteration env hc items 0)
    intro st
    split
    · exact pres_pure _
    · exact pres_pure _
    · exact pres_bind (pres_lift _) (fun _ => pres_bind (pres_forLoop hb _ _) (fun _ => pres_pure _))
  | .every (.quantifiedContexts items) (.satisfies body) => by
    have hb := pres_evalStep env hc body
    simp only [evalStep]
    apply pres_bind (pres_evalQuantified env hc items 0)
    intro st
    split
    · exact pres_pure _
    · exact pres_bind (pres_lift _) (fun _ => pres_bind (pres_quantLoop hb _ _ _) (fun _ => pres_pure _))
  | .some (.quantifiedContexts items) (.satisfies body) => by
    have hb := pres_evalStep env hc body
    simp only [evalStep]
    apply pres_bind (pres_evalQuantified env hc items 0)
    intro st
    split
    · exact pres_pure _
    · exact pres_bind (pres_lift _) (fun _ => pres_bind (pres_quantLoop hb _ _ _) (fun _ => pres_pure _))
  | .functionInvocation f (.positionalParameters xs) => by
    have hf := pres_evalStep env hc f
    simp only [evalStep]
    exact pres_bind hf (fun _ => pres_bind (pres_evalList env hc xs) (fun _ => pres_invokePositional env hc _ _))
  | .functionInvocation f (.namedParameters xs) => by
    have hf := pres_evalStep env hc f
    simp only [evalStep]
    exact pres_bind hf (fun _ => pres_bind (pres_evalList env hc xs) (fun _ => pres_invokeNamed env hc _ _))
  | .namedParameter (.parameterName name) v => by
    have hv := pres_evalStep env hc v
    simp only [evalStep]
    exact pres_bind hv (fun _ => pres_pure _)
  | .path a (.name n) => by
    have ha := pres_evalStep env hc a
    simp only [evalStep]
    exact pres_bind ha (fun _ => pres_pure _)
  | .functionBody body external => by
    simp only [evalStep]
    split <;> exact pres_pure _
  | .name n => by
    simp only [evalStep]
    exact pres_bind (pres_getEntry _) (fun _ => pres_pure _)
  | .at _ | .boolean _ | .contextEntryKey _ | .contextTypeEntryKey _ | .feelType _ | .irrelevant
  | .null | .numeric .. | .parameterName _ | .qualifiedNameSegment _ | .string _ => by
    simp only [evalStep]; exact pres_pure _
  | .commaList _ | .iterationContexts _ | .iterationContextSingle .. | .iterationContextRange ..
  | .positionalParameters _ | .quantifiedContext .. | .quantifiedContexts _ | .satisfies _ => by
    simp only [evalStep]; exact pres_pure _
  | .for ctxs body => by
    have hb := pres_evalStep env hc body
    unfold evalStep
    split
    · rename_i items _
      apply pres_bind (pres_evalIteration env hc _ 0)
      intro st
      split
      · exact pres_pure _
      · exact pres_pure _
      · exact pres_bind (pres_lift _) (fun _ => pres_bind (pres_forLoop hb _ _) (fun _ => pres_pure _))
    · exact pres_bind (pres_lift _) (fun _ => pres_bind (pres_forLoop hb _ _) (fun _ => pres_pure _))
  | .every ctxs sat => by
    unfold evalStep
    split
    · rename_i items body
      exact pres_bind (pres_evalQuantified env hc items 0) (fun st => by
        split
        · exact pres_pure _
        · exact pres_bind (pres_lift _) (fun _ => pres_bind (pres_quantLoop (pres_evalStep env hc body) _ _ _) (fun _ => pres_pure _)))
    · exact pres_pure _
  | .some ctxs sat => by
    unfold evalStep
    split
    · rename_i items body
      exact pres_bind (pres_evalQuantified env hc items 0) (fun st => by
        split
        · exact pres_pure _
        · exact pres_bind (pres_lift _) (fun _ => pres_bind (pres_quantLoop (pres_evalStep env hc body) _ _ _) (fun _ => pres_pure _)))
    · exact pres_pure _
  | .functionInvocation f args => by
    unfold evalStep
    split
    · rename_i xs
      exact pres_bind (pres_evalStep env hc f) (fun _ => pres_bind (pres_evalList env hc xs) (fun _ => pres_invokePositional env hc _ _))
    · rename_i xs
      exact pres_bind (pres_evalStep env hc f) (fun _ => pres_bind (pres_evalList env hc xs) (fun _ => pres_invokeNamed env hc _ _))
    · exact pres_pure _
  | .namedParameter n v => by
    unfold evalStep
    split
    · exact pres_bind (pres_evalStep env hc v) (fun _ => pres_pure _)
    · exact pres_pure _
  | .path a b => by
    unfold evalStep
    split
    · exact pres_bind (pres_evalStep env hc a) (fun _ => pres_pure _)
    · exact pres_pure _
theorem pres_evalList (env : Env) (hc : ∀ b, Pres (env.call b)) : (as : List Ast) → Pres (evalList env as)
  | [] => by simp only [evalList]; exact pres_pure _
  | a :: as => by
    simp only [evalList]
    exact pres_bind (pres_evalStep env hc a) (fun _ => pres_bind (pres_evalList env hc as) (fun _ => pres_pure _))
/-- The loop of a context literal writes into the context pushed for it and nowhere else. -/
theorem topOnly_evalContextEntries (env : Env) (hc : ∀ b, Pres (env.call b)) :
    (es : List Ast) → (acc : Ctx) → TopOnly (evalContextEntries env es acc)
  | [], acc => by simp only [evalContextEntries]; exact topOnly_pure _
  | e :: es, acc => by
    simp only [evalContextEntries]
    apply topOnly_bind (topOnly_of_pres (pres_evalStep env hc e))
    intro v
    split
    · exact topOnly_bind (topOnly_setEntry _ _) (fun _ => topOnly_evalContextEntries env hc es _)
    · exact topOnly_evalContextEntries env hc es _
theorem pres_evalQuantified (env : Env) (hc : ∀ b, Pres (env.call b)) :
    (items : List Ast) → (pos : Nat) → Pres (evalQuantified env items pos)
  | [], pos => by simp only [evalQuantified]; exact pres_pure _
  | .quantifiedContext (.name n) e :: items, pos => by
    simp only [evalQuantified]
    apply pres_bind (pres_evalStep env hc e)
    intro v
    split
    · exact pres_pure _
    · exact pres_bind (pres_evalQuantified env hc items _) (fun _ => pres_pure _)
  | item :: items, pos => by
    have ih := pres_evalQuantified env hc items (pos + 1)
    unfold evalQuantified
    split
    · rename_i n e
      apply pres_bind (pres_evalStep env hc e)
      intro v
      split
      · exact pres_pure _
      · exact pres_bind ih (fun _ => pres_pure _)
    · exact ih
theorem pres_evalIteration (env : Env) (hc : ∀ b, Pres (env.call b)) :
    (items : List Ast) → (pos : Nat) → Pres (evalIteration env items pos)
  | [], pos => by simp only [evalIteration]; exact pres_pure _
  | .iterationContextSingle (.name n) e :: items, pos => by
    simp only [evalIteration]
    apply pres_bind (pres_evalStep env hc e)
    intro v
    split
    · exact pres_pure _
    · exact pres_bind (pres_evalIteration env hc items _) (fun _ => pres_pure _)
  | .iterationContextRange (.name n) lo hi :: items, pos => by
    simp only [evalIteration]
    refine pres_bind (pres_evalStep env hc lo) (fun _ => pres_bind (pres_evalStep env hc hi) (fun _ => ?_))
    split
    · exact pres_pure _
    · exact pres_bind (pres_evalIteration env hc items _) (fun _ => pres_pure _)
  | item :: items, pos => by
    have ih := pres_evalIteration env hc items (pos + 1)
    unfold evalIteration
    split
    · rename_i n e
      apply pres_bind (pres_evalStep env hc e)
      intro v
      split
      · exact pres_pure _
      · exact pres_bind ih (fun _ => pres_pure _)
    · rename_i n lo hi
      refine pres_bind (pres_evalStep env hc lo) (fun _ => pres_bind (pres_evalStep env hc hi) (fun _ => ?_))
      split
      · exact pres_pure _
      · exact pres_bind ih (fun _ => pres_pure _)
    · exact ih
end

/-- Function bodies are evaluated by the evaluator with less fuel: they preserve the scope too. -/
theorem pres_call (num : NumOps) (bp : String → List Value → Outcome Value)
    (bn : String → List (String × Value × Nat) → Outcome Value) (v : Variant) :
    ∀ fuel b, Pres ((mkEnv num bp bn v fuel).call b) := by
  intro fuel
  induction fuel with
  | zero => intro b; exact pres_diverge
  | succ n ih => intro b; exact pres_evalStep _ ih b

/-- **Evaluation is pure.** For every expression, every scope, every amount of fuel and
whatever the built-in functions do: if evaluation returns, the scope is exactly the scope
it was given — every `push` is matched by a `pop` and every `set_entry` hits a context the
construct itself pushed. -/
theorem eval_scope_preserved (num : NumOps) (bp : String → List Value → Outcome Value)
    (bn : String → List (String × Value × Nat) → Outcome Value) (fuel : Nat) (a : Ast)
    (s : Scope) (v : Value) (s' : Scope) (h : eval num bp bn fuel a s = .ok (v, s')) : s' = s :=
  pres_evalStep _ (pres_call num bp bn Variant.code fuel) a s v s' h

/-- The same for the specification evaluator. -/
theorem den_scope_preserved (num : NumOps) (bp : String → List Value → Outcome Value)
    (bn : String → List (String × Value × Nat) → Outcome Value) (fuel : Nat) (a : Ast)
    (s : Scope) (v : Value) (s' : Scope) (h : den num bp bn fuel a s = .ok (v, s')) : s' = s :=
  pres_evalStep _ (pres_call num bp bn Variant.spec fuel) a s v s' h

/-- A prepared evaluator carries no state: evaluating it again in the same scope gives the
same outcome (it is a function of the scope). -/
theorem repeat_eval (num : NumOps) (bp : String → List Value → Outcome Value)
    (bn : String → List (String × Value × Nat) → Outcome Value) (fuel : Nat) (a : Ast)
    (s : Scope) (v : Value) (s' : Scope) (h : eval num bp bn fuel a s = .ok (v, s')) :
    eval num bp bn fuel a s' = .ok (v, s') := by
  have e := eval_scope_preserved num bp bn fuel a s v s' h
  rw [e]; rw [e] at h; exact h

/-! ## non-vacuity: a context literal whose second entry reads the first, inside a scope -/

example :
    ∃ v, eval NumOps.exact (fun _ _ => .ok .null) (fun _ _ => .ok .null) 3
      (.context [.contextEntry (.contextEntryKey "a") (.numeric "1" ""),
                 .contextEntry (.contextEntryKey "b") (.name "a")])
      [[("x", .null)]] = .ok (v, [[("x", .null)]]) := by
  exact ⟨_, rfl⟩

end Dmn.Eval
