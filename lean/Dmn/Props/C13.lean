import Dmn.Lemmas.EvalM
import Dmn.Lemmas.ParserScope
import Dmn.Lemmas.DrgScope
import Dmn.Lemmas.Iter
import Dmn.Gen.EvaluatorState

/-!
# C13 — evaluation is pure: the caller's scope is untouched

`Dmn.Eval.evalStep env a` is the model of the closure `build_evaluator(a)` returns
(`feel-evaluator/src/builders.rs`); every `push`, `pop` and `set_entry` of the Rust closures is
an explicit effect on the scope the model threads through.  The theorems say that, for every
syntax tree and every scope, whatever the evaluation returns, the scope it leaves is the
scope it was given.
-/

namespace Dmn.Eval
open EvalM

/-- One proof step for a node: peel binds, close leaves, split matches, use the
induction hypotheses of the mutual block. -/
local macro "pres_step" : tactic =>
  `(tactic| first
    | exact pres_pure _
    | exact pres_lift _
    | exact pres_getEntry _
    | exact pres_getScope
    | assumption
    | apply pres_bind
    | split
    | intro _)

mutual
/-- The closure built for any syntax tree leaves the scope as it found it, provided
function bodies do (`hc`). -/
theorem pres_evalStep (env : Env) (hc : ∀ b, Pres (env.call b)) : (a : Ast) → Pres (evalStep env a)
  | .add a b | .and a b | .contextEntry a b | .contextTypeEntry a b | .div a b | .eq a b | .exp a b
  | .formalParameter a b | .functionDefinition a b | .functionType a b | .ge a b | .gt a b | .in a b
  | .instanceOf a b | .le a b | .lt a b | .mul a b | .nq a b | .or a b | .range a b | .sub a b => by
    have ha := pres_evalStep env hc a
    have hb := pres_evalStep env hc b
    simp only [evalStep]
    repeat pres_step
  | .out a b => by
    have ha := pres_evalStep env hc a
    have hb := pres_evalStep env hc b
    simp only [evalStep]
    repeat pres_step
  | .between a b c => by
    have ha := pres_evalStep env hc a
    have hb := pres_evalStep env hc b
    have hd := pres_evalStep env hc c
    simp only [evalStep]
    repeat pres_step
  | .if a b c => by
    have ha := pres_evalStep env hc a
    have hb := pres_evalStep env hc b
    have hd := pres_evalStep env hc c
    simp only [evalStep]
    repeat pres_step
  | .evaluatedExpression a => by simp only [evalStep]; exact pres_evalStep env hc a
  | .intervalEnd a _ | .intervalStart a _ | .listType a | .neg a | .rangeType a | .unaryGe a
  | .unaryGt a | .unaryLe a | .unaryLt a => by
    have ha := pres_evalStep env hc a
    simp only [evalStep]
    repeat pres_step
  | .contextType xs | .expressionList xs | .formalParameters xs | .list xs | .namedParameters xs
  | .negatedList xs | .parameterTypes xs | .qualifiedName xs => by
    have hx := pres_evalList env hc xs
    simp only [evalStep]
    repeat pres_step
  | .context es => by
    simp only [evalStep]
    exact pres_pushPop [] (topOnly_evalContextEntries env hc es []) ctxResult
  | .filter a b => by
    have ha := pres_evalStep env hc a
    have hb := pres_evalStep env hc b
    have hf := fun vs => pres_filterLoop hb vs
    simp only [evalStep]
    apply pres_bind ha
    intro l
    split
    · apply pres_bind (hf _)
      intro _
      apply pres_bind hb
      intro r
      split <;> exact pres_pure _
    · split
      · exact pres_bind (pres_itemScoped hb _) (fun _ => pres_pure _)
      · exact pres_pure _
  | .for (.iterationContexts items) body => by
    have hb := pres_evalStep env hc body
    simp only [evalStep]
    apply pres_bind (pres_evalIteration env hc items 0)
    intro st
    split
    · exact pres_pure _
    · exact pres_pure _
    · exact pres_bind (pres_lift _) (fun _ => pres_bind (pres_forLoop hb _ _) (fun _ => pres_pure _))
  | .every (.quantifiedContexts items) (.satisfies body) => by
    have hb := pres_evalStep env hc body
    simp only [evalStep]
    apply pres_bind (pres_evalQuantified env hc items 0)
    intro st
    split
    · exact pres_pure _
    · exact pres_pure _
    · exact pres_bind (pres_lift _) (fun _ => pres_bind (pres_quantLoop hb _ _ _) (fun _ => pres_pure _))
  | .some (.quantifiedContexts items) (.satisfies body) => by
    have hb := pres_evalStep env hc body
    simp only [evalStep]
    apply pres_bind (pres_evalQuantified env hc items 0)
    intro st
    split
    · exact pres_pure _
    · exact pres_pure _
    · exact pres_bind (pres_lift _) (fun _ => pres_bind (pres_quantLoop hb _ _ _) (fun _ => pres_pure _))
  | .functionInvocation f (.positionalParameters xs) => by
    have hf := pres_evalStep env hc f
    simp only [evalStep]
    exact pres_bind hf (fun _ => pres_bind (pres_evalList env hc xs) (fun _ => pres_invokePositional env hc _ _))
  | .functionInvocation f (.namedParameters xs) => by
    have hf := pres_evalStep env hc f
    simp only [evalStep]
    exact pres_bind hf (fun _ => pres_bind (pres_evalList env hc xs) (fun _ => pres_invokeNamed env hc _ _))
  | .namedParameter (.parameterName name) v => by
    have hv := pres_evalStep env hc v
    simp only [evalStep]
    exact pres_bind hv (fun _ => pres_pure _)
  | .path a (.name n) => by
    have ha := pres_evalStep env hc a
    simp only [evalStep]
    exact pres_bind ha (fun _ => pres_pure _)
  | .functionBody body external => by
    simp only [evalStep]
    split <;> exact pres_pure _
  | .name n => by
    simp only [evalStep]
    exact pres_bind (pres_getEntry _) (fun _ => pres_pure _)
  | .at _ | .boolean _ | .contextEntryKey _ | .contextTypeEntryKey _ | .feelType _ | .irrelevant
  | .null | .numeric .. | .parameterName _ | .qualifiedNameSegment _ | .string _ => by
    simp only [evalStep]; exact pres_pure _
  | .commaList _ | .iterationContexts _ | .iterationContextSingle .. | .iterationContextRange ..
  | .positionalParameters _ | .quantifiedContext .. | .quantifiedContexts _ | .satisfies _ => by
    simp only [evalStep]; exact pres_pure _
  | .for ctxs body => by
    have hb := pres_evalStep env hc body
    unfold evalStep
    split
    · rename_i items _
      apply pres_bind (pres_evalIteration env hc _ 0)
      intro st
      split
      · exact pres_pure _
      · exact pres_pure _
      · exact pres_bind (pres_lift _) (fun _ => pres_bind (pres_forLoop hb _ _) (fun _ => pres_pure _))
    · exact pres_bind (pres_lift _) (fun _ => pres_bind (pres_forLoop hb _ _) (fun _ => pres_pure _))
  | .every ctxs sat => by
    unfold evalStep
    split
    · rename_i items body
      exact pres_bind (pres_evalQuantified env hc items 0) (fun st => by
        split
        · exact pres_pure _
        · exact pres_pure _
        · exact pres_bind (pres_lift _) (fun _ => pres_bind (pres_quantLoop (pres_evalStep env hc body) _ _ _) (fun _ => pres_pure _)))
    · exact pres_pure _
  | .some ctxs sat => by
    unfold evalStep
    split
    · rename_i items body
      exact pres_bind (pres_evalQuantified env hc items 0) (fun st => by
        split
        · exact pres_pure _
        · exact pres_pure _
        · exact pres_bind (pres_lift _) (fun _ => pres_bind (pres_quantLoop (pres_evalStep env hc body) _ _ _) (fun _ => pres_pure _)))
    · exact pres_pure _
  | .functionInvocation f args => by
    unfold evalStep
    split
    · rename_i xs
      exact pres_bind (pres_evalStep env hc f) (fun _ => pres_bind (pres_evalList env hc xs) (fun _ => pres_invokePositional env hc _ _))
    · rename_i xs
      exact pres_bind (pres_evalStep env hc f) (fun _ => pres_bind (pres_evalList env hc xs) (fun _ => pres_invokeNamed env hc _ _))
    · exact pres_pure _
  | .namedParameter n v => by
    unfold evalStep
    split
    · exact pres_bind (pres_evalStep env hc v) (fun _ => pres_pure _)
    · exact pres_pure _
  | .path a b => by
    unfold evalStep
    split
    · exact pres_bind (pres_evalStep env hc a) (fun _ => pres_pure _)
    · exact pres_pure _
theorem pres_evalList (env : Env) (hc : ∀ b, Pres (env.call b)) : (as : List Ast) → Pres (evalList env as)
  | [] => by simp only [evalList]; exact pres_pure _
  | a :: as => by
    simp only [evalList]
    exact pres_bind (pres_evalStep env hc a) (fun _ => pres_bind (pres_evalList env hc as) (fun _ => pres_pure _))
/-- The loop of a context literal writes into the context pushed for it and nowhere else. -/
theorem topOnly_evalContextEntries (env : Env) (hc : ∀ b, Pres (env.call b)) :
    (es : List Ast) → (acc : Ctx) → TopOnly (evalContextEntries env es acc)
  | [], acc => by simp only [evalContextEntries]; exact topOnly_pure _
  | e :: es, acc => by
    simp only [evalContextEntries]
    apply topOnly_bind (topOnly_of_pres (pres_evalStep env hc e))
    intro v
    split
    · split
      · exact topOnly_pure _
      · exact topOnly_bind (topOnly_setEntry _ _) (fun _ => topOnly_evalContextEntries env hc es _)
    · exact topOnly_evalContextEntries env hc es _
theorem pres_evalQuantified (env : Env) (hc : ∀ b, Pres (env.call b)) :
    (items : List Ast) → (pos : Nat) → Pres (evalQuantified env items pos)
  | [], pos => by simp only [evalQuantified]; exact pres_pure _
  | .quantifiedContext (.name n) e :: items, pos => by
    simp only [evalQuantified]
    apply pres_bind (pres_evalStep env hc e)
    intro v
    split
    · exact pres_pure _
    · exact pres_pure _
    · exact pres_bind (pres_evalQuantified env hc items _) (fun _ => pres_pure _)
  | item :: items, pos => by
    have ih := pres_evalQuantified env hc items (pos + 1)
    unfold evalQuantified
    split
    · rename_i n e
      apply pres_bind (pres_evalStep env hc e)
      intro v
      split
      · exact pres_pure _
      · exact pres_pure _
      · exact pres_bind ih (fun _ => pres_pure _)
    · exact ih
theorem pres_evalIteration (env : Env) (hc : ∀ b, Pres (env.call b)) :
    (items : List Ast) → (pos : Nat) → Pres (evalIteration env items pos)
  | [], pos => by simp only [evalIteration]; exact pres_pure _
  | .iterationContextSingle (.name n) e :: items, pos => by
    simp only [evalIteration]
    apply pres_bind (pres_evalStep env hc e)
    intro v
    split
    · exact pres_pure _
    · exact pres_pure _
    · exact pres_bind (pres_evalIteration env hc items _) (fun _ => pres_pure _)
  | .iterationContextRange (.name n) lo hi :: items, pos => by
    simp only [evalIteration]
    refine pres_bind (pres_evalStep env hc lo) (fun _ => pres_bind (pres_evalStep env hc hi) (fun _ => ?_))
    split
    · exact pres_pure _
    · exact pres_bind (pres_evalIteration env hc items _) (fun _ => pres_pure _)
  | item :: items, pos => by
    have ih := pres_evalIteration env hc items (pos + 1)
    unfold evalIteration
    split
    · rename_i n e
      apply pres_bind (pres_evalStep env hc e)
      intro v
      split
      · exact pres_pure _
      · exact pres_pure _
      · exact pres_bind ih (fun _ => pres_pure _)
    · rename_i n lo hi
      refine pres_bind (pres_evalStep env hc lo) (fun _ => pres_bind (pres_evalStep env hc hi) (fun _ => ?_))
      split
      · exact pres_pure _
      · exact pres_bind ih (fun _ => pres_pure _)
    · exact ih
end

/-- Function bodies are evaluated by the evaluator with less fuel: they preserve the scope too. -/
theorem pres_call (num : NumOps) (bp : String → List Value → Outcome Value)
    (bn : String → List (String × Value × Nat) → Outcome Value) (v : Variant) :
    ∀ fuel b, Pres ((mkEnv num bp bn v fuel).call b) := by
  intro fuel
  induction fuel with
  | zero => intro b; exact pres_diverge
  | succ n ih => intro b; exact pres_evalStep _ ih b

/-- **Evaluation is pure.** For every expression, every scope, every amount of fuel and
whatever the built-in functions do: if evaluation returns, the scope is exactly the scope
it was given — every `push` is matched by a `pop` and every `set_entry` hits a context the
construct itself pushed. -/
theorem eval_scope_preserved (num : NumOps) (bp : String → List Value → Outcome Value)
    (bn : String → List (String × Value × Nat) → Outcome Value) (fuel : Nat) (a : Ast)
    (s : Scope) (v : Value) (s' : Scope) (h : eval num bp bn fuel a s = .ok (v, s')) : s' = s :=
  pres_evalStep _ (pres_call num bp bn Variant.code fuel) a s v s' h

/-- The same for the specification evaluator. -/
theorem den_scope_preserved (num : NumOps) (bp : String → List Value → Outcome Value)
    (bn : String → List (String × Value × Nat) → Outcome Value) (fuel : Nat) (a : Ast)
    (s : Scope) (v : Value) (s' : Scope) (h : den num bp bn fuel a s = .ok (v, s')) : s' = s :=
  pres_evalStep _ (pres_call num bp bn Variant.spec fuel) a s v s' h

/-- A prepared evaluator carries no state: evaluating it again in the same scope gives the
same outcome (it is a function of the scope). -/
theorem repeat_eval (num : NumOps) (bp : String → List Value → Outcome Value)
    (bn : String → List (String × Value × Nat) → Outcome Value) (fuel : Nat) (a : Ast)
    (s : Scope) (v : Value) (s' : Scope) (h : eval num bp bn fuel a s = .ok (v, s')) :
    eval num bp bn fuel a s' = .ok (v, s') := by
  have e := eval_scope_preserved num bp bn fuel a s v s' h
  rw [e]; rw [e] at h; exact h

/-! ## non-vacuity: a context literal whose second entry reads the first, inside a scope -/

example :
    ∃ v, eval NumOps.exact (fun _ _ => .ok .null) (fun _ _ => .ok .null) 3
      (.context [.contextEntry (.contextEntryKey "a") (.numeric "1" ""),
                 .contextEntry (.contextEntryKey "b") (.name "a")])
      [[("x", .null)]] = .ok (v, [[("x", .null)]]) := by
  exact ⟨_, rfl⟩

end Dmn.Eval

/-!
# C13, parser half — a successful parse leaves the parsing scope as it found it

The table `Dmn.Gen.ParserScope` is regenerated by `translate/parser_scope.py` from feel.y, lalr.rs,
parser.rs, lexer.rs and scope.rs on every run; the first five theorems are decided over it, the others
hold for every derivation tree of its grammar (any depth, any size) by induction
(`Lemmas/ParserScope.lean`).
-/

namespace Dmn.ParserScope
open Dmn.Gen.ParserScope

/-- Outside the reduce actions nothing in the parser touches the scope (the driver loop, the
constructors, the entry points, the macros, the lexer's token loop), and `Scope::push` / `pop` /
`set_entry` are the operations modelled by `stepScope`. -/
theorem parser_sources_as_modelled : otherScopeWrites.isEmpty = true ∧ scopeApiAsModelled = true := by
  decide

/-- The grammar read from feel.y (mid-rule actions as the empty nonterminals `$@k`) is the table the
driver executes: the same rules in the same numbering as `YY_R1` / `YY_R2`, and `fn reduce` calls for each
rule number the action feel.y writes after that rule. -/
theorem driver_table_agrees : driverAgrees = true := by
  decide +kernel

/-- Every rule is locally balanced: entered with the contexts its left-hand side may count on, each
symbol of its right-hand side finds what it needs, the rule's own action neither pops nor writes below the
contexts the parse pushed itself, contains no effect the translator could not read, and the rule leaves
what its left-hand side promises.  (The per-nonterminal promises are the witness `summary`, checked here.) -/
theorem rule_actions_balanced : tableOk = true := by
  decide +kernel

/-- The start symbol promises: needs nothing of its own on the scope, leaves nothing. -/
theorem start_symbol_closed : needOf startSymbol = 0 ∧ outOf startSymbol = 0 := by
  decide +kernel

/-- Each public entry point of parser.rs (`parse_expression`, `parse_textual_expression`,
`parse_textual_expressions`, `parse_unary_tests`, `parse_name`, `parse_longest_name`, `parse_boxed_expression`,
`parse_context`) selects by its pseudo start token exactly one rule of the start symbol: its parses are
derivations of the start symbol. -/
theorem entry_points_covered : entryPointsOk = true := by
  decide +kernel

/-- Every well-formed derivation tree of every symbol: entered with at least the `need` of its symbol,
its trace never reaches below the parse's own contexts and replaces `need` by `out`. -/
theorem derivation_scope_effect (t : Deriv) (hwf : t.wf = true) (k : Nat) :
    runDepth (needOf t.sym + k) t.trace = some (outOf t.sym + k) :=
  treeOk_all rule_actions_balanced t hwf k

/-- Depth form: for EVERY derivation tree of the start symbol, the reduce actions executed in LR order,
started with nothing of the parse's own on the scope, never pop a caller's context, never write an entry
into a caller's context, and end with nothing of their own left. -/
theorem parse_depth_balanced (t : Deriv) (hwf : t.wf = true) (hs : t.sym = startSymbol) :
    runDepth 0 t.trace = some 0 := by
  have h := derivation_scope_effect t hwf 0
  rw [hs, start_symbol_closed.1, start_symbol_closed.2] at h
  exact h

/-- The same for any part of a parse that promises (0, 0) — an `expression`, a `context`, a
`function_definition` … — wherever it stands: with `own` contexts of the parse already on the scope, they
and everything below them are the same afterwards. -/
theorem subtree_scope_balanced {Ctx Name : Type} (ops : CtxOps Ctx Name) (t : Deriv) (hwf : t.wf = true)
    (hn : needOf t.sym = 0) (ho : outOf t.sym = 0) (cs : List (CEff Name)) (hres : Resolves t.trace cs)
    (own caller : List Ctx) :
    ∃ own', runScope ops (own ++ caller) cs = own' ++ caller ∧ own'.length = own.length := by
  have h := derivation_scope_effect t hwf own.length
  rw [hn, ho] at h
  simp only [Nat.zero_add] at h
  obtain ⟨own', h1, h2⟩ := runOwn_of_runDepth ops hres h own rfl
  exact ⟨own', runScope_of_runOwn ops h1 caller, h2⟩

/-- **A successful parse leaves the parsing scope as it found it.**  For every derivation tree of the start
symbol, every choice of the names the `set_entry` calls write (and of how many a conditional one writes),
and every representation of contexts: all effects stay within the contexts the parse pushed itself and
none of them is left (`runOwn … [] = some []`), hence whatever scope the caller supplied — any number of
contexts, any entries — is exactly the same afterwards. -/
theorem parse_scope_balanced {Ctx Name : Type} (ops : CtxOps Ctx Name) (t : Deriv) (hwf : t.wf = true)
    (hs : t.sym = startSymbol) (cs : List (CEff Name)) (hres : Resolves t.trace cs) :
    runOwn ops [] cs = some [] ∧ ∀ caller : List Ctx, runScope ops caller cs = caller := by
  obtain ⟨own', h1, h2⟩ := runOwn_of_runDepth ops hres (parse_depth_balanced t hwf hs) [] rfl
  have : own' = [] := List.eq_nil_of_length_eq_zero h2
  subst this
  exact ⟨h1, fun caller => by simpa using runScope_of_runOwn ops h1 caller⟩

-- Non-vacuity: `{}` through `parse_context` and `function() null` through `parse_expression` are
-- well-formed derivations of the start symbol; both push one context and pop it.
example :
    let t : Deriv := .node 4 [.leaf 5, .node 81 [.leaf 15, .node 80 [], .node 82 [.leaf 26]]]
    t.wf = true ∧ t.sym = startSymbol ∧ t.trace = [.push, .pop] := by
  decide +kernel

example :
    let t : Deriv := .node 2 [.leaf 3, .node 9 [.node 12 [.node 139 [.leaf 23, .leaf 58, .node 138 [],
      .node 140 [.leaf 28], .node 150 [.node 10 [.node 45 [.node 73 [.leaf 16]]]]]]]]
    t.wf = true ∧ t.sym = startSymbol ∧ t.trace = [.push, .pop] := by
  decide +kernel

-- The semantics is not trivially satisfied: the same two effects in the other order pop a caller's
-- context, a `set_entry` before the push writes into it, and the machine on the full scope shows it.
example : runDepth 0 [.pop, .push] = none ∧ runDepth 0 [.setEntry, .push, .pop] = none
    ∧ runDepth 0 [.push, .push, .pop] = some 1 := by decide

example : runScope (⟨0, fun c n => c + n⟩ : CtxOps Nat Nat) [7, 8] [.pop, .push] = [0, 8]
    ∧ runScope (⟨0, fun c n => c + n⟩ : CtxOps Nat Nat) [7, 8] [.set 1, .push, .pop] = [8, 8] := by decide

end Dmn.ParserScope

/-!
# C13, model half — the evaluators of the model layer and the scope

The requirement-graph model of C04 (`Dmn/Model/Drg.lean`, `DrgTable.lean`, definitions unchanged) evaluates
decision logic as `EvalM` computations over an explicit scope.  `level base g G ff` is its FEEL environment
with `ff` nested function-body evaluations, where a function body may be a FEEL expression, a boxed context,
invocation, relation or decision table, or a decision service (`callBody`).  Lemmas: `Lemmas/DrgScope.lean`
(through the generic induction principle of `Lemmas/EvalInd.lean`).
-/

namespace Dmn.Drg
open EvalM Eval

/-- Every FEEL expression evaluated inside a model — whatever knowledge models, boxed function bodies and
decision services it calls, to any depth — leaves the scope exactly as it found it. -/
theorem drg_expression_scope_preserved (base : Env) (g : Drg) (G ff : Nat) (a : Ast)
    (s : Scope) (v : Value) (s' : Scope) (h : evalStep (level base g G ff).env a s = .ok (v, s')) : s' = s :=
  pres_evalStep_of_topOnly_call _ (topOnly_level_call base g G ff) a s v s' h

/-- A decision table — input values, output values, default entries, every input and output entry of every
rule, then the hit policy — leaves the scope exactly as it found it. -/
theorem dt_scope_preserved (base : Env) (g : Drg) (G ff : Nat) (hitPolicy : String) (inputs outputs rules : List Ast)
    (s : Scope) (v : Value) (s' : Scope)
    (h : evalTable (level base g G ff).env hitPolicy inputs outputs rules s = .ok (v, s')) : s' = s :=
  pres_evalTable _ (topOnly_level_call base g G ff) hitPolicy inputs outputs rules s v s' h

/-- A decision service called as a function works on a copy of the top context and hands the scope back as it
was (`decision_service.rs:214-227`). -/
theorem service_call_scope_preserved (gr : Graph) (id : String) (s : Scope) (v : Value) (s' : Scope)
    (h : serviceCall gr id s = .ok (v, s')) : s' = s :=
  pres_serviceCall gr id s v s' h

/-- Any boxed expression (literal expression, context, invocation, function definition, relation, decision
table, nested in any way): the contexts below the top of the scope and the height of the scope are as before —
the only thing it may do is what `build_context_evaluator` does (`mod.rs:285-315`): bind the entries of a
boxed context in the top context. -/
theorem boxed_scope_effect (base : Env) (g : Drg) (G ff : Nat) (a : Ast) (below : Scope) (top : Ctx)
    (v : Value) (s' : Scope) (h : evalBoxed (level base g G ff).env a (below ++ [top]) = .ok (v, s')) :
    ∃ top', s' = below ++ [top'] :=
  topOnly_evalBoxed _ (topOnly_level_call base g G ff) a below top v s' h

/-- Since the repair of the boxed context (`build_context_evaluator` pushes a context for its entries and pops it
on both ways out, `mod.rs:293-324`) the stronger statement holds: any boxed expression, nested in any way,
leaves the scope **exactly** as it found it — the entries of a boxed context are gone when it returns. -/
theorem boxed_scope_preserved (base : Env) (g : Drg) (G ff : Nat) (a : Ast) (s : Scope)
    (v : Value) (s' : Scope) (h : evalBoxed (level base g G ff).env a s = .ok (v, s')) : s' = s :=
  pres_evalBoxed _ (topOnly_level_call base g G ff) a s v s' h

/-- **Evaluating a decision is pure at the interface** (`decision.rs:150-207`): the logic runs in a scope made
for this evaluation from one fresh context (`decision.rs:178`) and leaves exactly one context in it — nothing
pushed is left, the context is not popped —, that scope is dropped, the input data are only read, and in the
caller's output context only the entry of the decision's own output variable is written. -/
theorem drg_eval_pure (base : Env) (g : Drg) (G ff : Nat) (prev : Graph) (d : Decision) (input sup out : Ctx)
    (name : Option String) (out' : Ctx)
    (h : decisionClosure g (level base g G ff).env prev d input sup out = .ok (name, out')) :
    name = some d.var ∧ (∀ k, k ≠ d.var → Ctx.get out' k = Ctx.get out k) ∧
    (∀ ctx v s', evalBoxed (level base g G ff).env d.logic [ctx] = .ok (v, s') → ∃ c', s' = [c']) := by
  refine ⟨?_, ?_, ?_⟩
  · unfold decisionClosure at h
    split at h
    · try simp only at h
      split at h
      · try simp only at h
        split at h
        · cases h; rfl
        · cases h
        · cases h
      · cases h
      · cases h
    · cases h
    · cases h
  · intro k hk
    unfold decisionClosure at h
    split at h
    · try simp only at h
      split at h
      · try simp only at h
        split at h
        · cases h
          rw [Ctx.get_set, if_neg (fun e => hk e.symm)]
        · cases h
        · cases h
      · cases h
      · cases h
    · cases h
    · cases h
  · intro ctx v s' hb
    have := boxed_scope_effect base g G ff d.logic [] ctx v s' (by simpa using hb)
    simpa using this

/-- **Evaluating the same decision again gives the same value**: what a decision closure answers — the value
stored under its output variable — does not depend on what earlier evaluations left in the output context it
is handed (it is a function of the model, the decision, the input data and the enclosing service's input
decisions only). -/
theorem drg_eval_repeatable (g : Drg) (env : Env) (prev : Graph) (d : Decision) (input sup out1 out2 : Ctx) :
    namedResult (decisionClosure g env prev d input sup out1) =
      namedResult (decisionClosure g env prev d input sup out2) := by
  unfold decisionClosure
  split
  · try simp only
    split
    · try simp only
      split
      · simp only [namedResult, Ctx.get_set, if_pos]
      · rfl
      · rfl
    · rfl
    · rfl
  · rfl
  · rfl

/-- `evaluate_invocable` is a function of the model, the name and the input data (and the two fuels of the
model): there is no other argument and no state — evaluating it twice gives the same outcome.  (In the model
this is so by construction; that the code behaves the same is what the correspondence runs observe.) -/
theorem drg_invocable_repeatable (base : Env) (g : Drg) (ff gf : Nat) (name : String) (input : Ctx)
    (o1 o2 : Outcome Value) (h1 : evaluateInvocable base g ff gf name input = o1)
    (h2 : evaluateInvocable base g ff gf name input = o2) : o1 = o2 := by
  rw [← h1, ← h2]

/-- exact arithmetic, no built-in functions: the evaluator of the witnesses below -/
def purityWitnessEnv : Env where
  num := NumOps.exact
  call := fun _ => EvalM.diverge
  bifPos := fun _ _ => .ok .null
  bifNamed := fun _ _ => .ok .null
  iter := Eval.Variant.code.iter
  index := Eval.Variant.code.index

/-- the boxed context `{a: 1, b: a}` -/
def purityWitnessLogic : Ast :=
  Boxed.context [.contextEntry (.contextEntryKey "a") (.numeric "1" ""), .contextEntry (.contextEntryKey "b") (.name "a")]

-- Non-vacuity of `boxed_scope_effect` / `boxed_scope_preserved`: a boxed context evaluated on the scope
-- `[{z: null}, {x: null}]` returns its two entries, and the scope is as before — the context below the top is
-- untouched and the top context still has its one entry (before the repair of `build_context_evaluator` the two
-- entries of the boxed context were left bound in it: the top context had three entries).
example :
    ∃ v top', evalBoxed purityWitnessEnv purityWitnessLogic ([[("z", .null)]] ++ [[("x", .null)]])
      = .ok (v, [[("z", .null)]] ++ [top']) ∧ top' = [("x", .null)] ∧
        v = .ctx [("a", .num ⟨false, 1, 0⟩), ("b", .num ⟨false, 1, 0⟩)] :=
  ⟨_, _, rfl, rfl, rfl⟩

-- Non-vacuity of `drg_eval_pure` / `drg_eval_repeatable`: a decision with that logic, evaluated with an output
-- context that already holds entries, answers with its variable and leaves the other entry alone.
example :
    let d : Decision := { id := "_d", name := "D", var := "D", ty := .untyped, reqInputs := [], reqDecisions := [],
                          reqKnowledge := [], logic := purityWitnessLogic }
    let g : Drg := { inputs := [], decisions := [d], bkms := [], services := [] }
    ∃ out', decisionClosure g purityWitnessEnv divergeGraph d [] [] [("D", .null), ("other", .bool true)]
        = .ok (some "D", out') ∧ Ctx.get out' "other" = some (.bool true) ∧ out'.length = 2 :=
  ⟨_, rfl, rfl, rfl⟩

end Dmn.Drg

/-!
# C13, second clause — a prepared evaluator answers as if it were evaluated for the first time

A prepared evaluator (`build_evaluator` result, `build_decision_table_evaluator` result) is a stored closure that
is called again and again with different scopes.  To be able to *state* "the answer does not depend on the
history" the closure is modelled as a machine with a state of its own: `Prepared σ` answers a scope and moves
to a next state.  The evaluator of the model (`preparedEval`, `preparedTable`) is the machine whose state is
`Unit`; a closure that keeps something between calls (a name resolved once, the rule that matched last) is a
machine whose answer reads the state (`memoisingName`, the shape of the seeded change C13-18).  The tie of
"the code's closures are machines with no state" is `evaluators_hold_no_state` (the regenerated table of interior
mutability in the builders) and the correspondence family `reuse` (one evaluator over scopes A, B, A, C, B).
-/

namespace Dmn.Eval

/-- a stored evaluator with a state of its own: the answer to a scope and the next state -/
structure Prepared (σ α : Type) where
  init : σ
  step : σ → Scope → α × σ

namespace Prepared
variable {σ α : Type}

/-- the state after a history of scopes -/
def after (p : Prepared σ α) : List Scope → σ
  | [] => p.init
  | s :: h => (p.step (p.after h) s).2

/-- the answer to `s` after the history `h` (most recent first) -/
def answer (p : Prepared σ α) (h : List Scope) (s : Scope) : α := (p.step (p.after h) s).1

/-- the answers do not read the state -/
def Stateless (p : Prepared σ α) : Prop := ∀ st₁ st₂ s, (p.step st₁ s).1 = (p.step st₂ s).1

end Prepared

/-- **History independence**: a prepared evaluator whose answers do not read its state answers every scope,
after every history of evaluations in other scopes — in any order, any number of them — as a freshly prepared
one does; in particular two histories give the same answer (A, B, A, C, B: the two answers to A are equal, the
two answers to B are equal). -/
theorem prepared_history_independent {σ α : Type} (p : Prepared σ α) (hp : p.Stateless)
    (h₁ h₂ : List Scope) (s : Scope) : p.answer h₁ s = p.answer h₂ s ∧ p.answer h₁ s = p.answer [] s :=
  ⟨hp _ _ s, hp _ _ s⟩

/-- the evaluator of the model, prepared for the tree `a` -/
def preparedEval (num : NumOps) (bp : String → List Value → Outcome Value)
    (bn : String → List (String × Value × Nat) → Outcome Value) (fuel : Nat) (a : Ast) :
    Prepared Unit (Outcome (Value × Scope)) :=
  { init := (), step := fun _ s => (eval num bp bn fuel a s, ()) }

/-- **The model's prepared evaluator is a function of (tree, scope)**: after any history of evaluations in
any scopes it gives the scope `s` the outcome of `eval … a s`, and leaves `s` as it found it. -/
theorem prepared_eval_pure (num : NumOps) (bp : String → List Value → Outcome Value)
    (bn : String → List (String × Value × Nat) → Outcome Value) (fuel : Nat) (a : Ast)
    (h : List Scope) (s : Scope) :
    (preparedEval num bp bn fuel a).answer h s = eval num bp bn fuel a s ∧
      ∀ v s', (preparedEval num bp bn fuel a).answer h s = .ok (v, s') → s' = s := by
  refine ⟨rfl, fun v s' hv => ?_⟩
  exact eval_scope_preserved num bp bn fuel a s v s' hv

/-- The shape of the seeded change C13-18 (`build_name` with a `OnceLock`): the state remembers that the name
was once resolved to a built-in function (it was unbound in some scope of the history); from then on the
scope is not consulted any more. -/
def memoisingName (n : String) : Prepared Bool Value :=
  { init := false
    step := fun resolved s =>
      if resolved then (.bif n, true)
      else match Scope.getEntry s n with
        | some v => (v, false)
        | none => (.bif n, true) }

/-- **Sensitivity**: that machine is not stateless, and its answers depend on the history — in the scope that
binds `count` to 100 it answers 100 when fresh and the built-in function after one evaluation in a scope
that does not bind `count` (the demonstration of C13-18: user, plain, user). -/
theorem memoising_name_depends_on_history :
    let user : Scope := [[("count", .num ⟨false, 100, 0⟩)]]
    let plain : Scope := [[("items", .null)]]
    (memoisingName "count").answer [] user = .num ⟨false, 100, 0⟩ ∧
      (memoisingName "count").answer [plain, user] user = .bif "count" ∧
      ¬ (memoisingName "count").Stateless := by
  refine ⟨?_, ?_, ?_⟩
  · simp [Prepared.answer, Prepared.after, memoisingName, Scope.getEntry, Ctx.get]
  · simp [Prepared.answer, Prepared.after, memoisingName, Scope.getEntry, Ctx.get]
  · intro h
    have := h false true [[("count", .num ⟨false, 100, 0⟩)]]
    simp [memoisingName, Scope.getEntry, Ctx.get] at this

end Dmn.Eval

namespace Dmn.Drg
open Dmn.Eval

/-- the decision-table evaluator of the model layer, prepared for one table -/
def preparedTable (env : Env) (hitPolicy : String) (inputs outputs rules : List Ast) :
    Prepared Unit (Outcome (Value × Scope)) :=
  { init := (), step := fun _ s => (evalTable env hitPolicy inputs outputs rules s, ()) }

/-- **A prepared decision table answers as if evaluated for the first time**, for every hit policy and every
table (overlapping rules included: what a UNIQUE or ANY table answers in the overlap region is what
`evalTable` says there, whatever was evaluated before — the seeded change C13-19 kept the rule that matched
last), and leaves the scope as found. -/
theorem prepared_table_pure (base : Env) (g : Drg) (G ff : Nat) (hitPolicy : String) (inputs outputs rules : List Ast)
    (h₁ h₂ : List Scope) (s : Scope) :
    (preparedTable (level base g G ff).env hitPolicy inputs outputs rules).answer h₁ s =
      (preparedTable (level base g G ff).env hitPolicy inputs outputs rules).answer h₂ s ∧
    (preparedTable (level base g G ff).env hitPolicy inputs outputs rules).answer h₁ s =
      evalTable (level base g G ff).env hitPolicy inputs outputs rules s ∧
    ∀ v s', (preparedTable (level base g G ff).env hitPolicy inputs outputs rules).answer h₁ s = .ok (v, s') → s' = s :=
  ⟨rfl, rfl, fun v s' hv => dt_scope_preserved base g G ff hitPolicy inputs outputs rules s v s' hv⟩

/-- the boxed-expression evaluator of the model layer — literal expression, boxed context, invocation, relation,
function definition, decision table, a decision service called as a function, nested in any way — prepared for
one boxed expression -/
def preparedBoxed (env : Env) (a : Ast) : Prepared Unit (Outcome (Value × Scope)) :=
  { init := (), step := fun _ s => (evalBoxed env a s, ()) }

/-- **A prepared boxed expression answers as if evaluated for the first time**, whatever boxed expression it is
(context, invocation, relation, decision table, a function definition or a decision service called inside, at any
nesting) and whatever was evaluated before, and leaves the scope exactly as found (the entries of a boxed context
are gone when it returns). -/
theorem prepared_boxed_pure (base : Env) (g : Drg) (G ff : Nat) (a : Ast) (h₁ h₂ : List Scope) (s : Scope) :
    (preparedBoxed (level base g G ff).env a).answer h₁ s = (preparedBoxed (level base g G ff).env a).answer h₂ s ∧
    (preparedBoxed (level base g G ff).env a).answer h₁ s = evalBoxed (level base g G ff).env a s ∧
    ∀ v s', (preparedBoxed (level base g G ff).env a).answer h₁ s = .ok (v, s') → s' = s :=
  ⟨rfl, rfl, fun v s' hv => boxed_scope_preserved base g G ff a s v s' hv⟩

/-- non-vacuity: the prepared boxed context `{a: 1, b: a}` after the history (C, B) answers the scope A as a fresh
one does — with its two entries — and A is as before. -/
example :
    (preparedBoxed purityWitnessEnv purityWitnessLogic).answer [[[("c", .null)]], []] [[("x", .null)]] =
      .ok (.ctx [("a", .num ⟨false, 1, 0⟩), ("b", .num ⟨false, 1, 0⟩)], [[("x", .null)]]) := rfl

/-- `evaluate_invocable` of a built model (decision, business knowledge model or decision service, by name),
prepared once: the input data of a call is the top context of the scope handed in -/
def preparedInvocable (base : Env) (g : Drg) (ff gf : Nat) (name : String) : Prepared Unit (Outcome Value) :=
  { init := (), step := fun _ s => (evaluateInvocable base g ff gf name (Scope.peek s), ()) }

/-- **A built model answers every input as if it were its first**: for every requirement graph, every invocable
(decision, knowledge model, decision service — whatever its logic: literal, boxed context, invocation, relation,
decision table), every fuel and every history of evaluations with other input data, in any order
(A, B, A, C, B …), the answer to the input data `input` is `evaluateInvocable … input`; the model evaluator has no
other argument and keeps nothing between calls.  (Immediate in the model; that the code's `ModelEvaluator` is
such a machine is what the `reuse`-style histories of the correspondence observe, and a machine that keeps
something is not: `memoising_machine_depends_on_history`.) -/
theorem prepared_drg_pure (base : Env) (g : Drg) (ff gf : Nat) (name : String) (h₁ h₂ : List Scope) (input : Ctx) :
    (preparedInvocable base g ff gf name).answer h₁ [input] = (preparedInvocable base g ff gf name).answer h₂ [input] ∧
    (preparedInvocable base g ff gf name).answer h₁ [input] = evaluateInvocable base g ff gf name input :=
  ⟨rfl, rfl⟩

/-- a machine that keeps its first answer (a result cached per evaluator, whatever the input) -/
def memoising {α : Type} (f : Scope → α) : Prepared (Option α) α :=
  { init := none,
    step := fun st s =>
      match st with
      | some o => (o, st)
      | none => (f s, some (f s)) }

/-- **Sensitivity**: a machine that keeps its first answer is not history independent — as soon as the
underlying evaluator distinguishes two inputs `a` and `b`, the answer to `b` after `a` is the answer to `a`, not
the fresh answer. -/
theorem memoising_machine_depends_on_history {α : Type} (f : Scope → α) (a b : Scope) (h : f a ≠ f b) :
    (memoising f).answer [a] b = f a ∧ (memoising f).answer [] b = f b ∧
      (memoising f).answer [a] b ≠ (memoising f).answer [] b ∧ ¬ (memoising f).Stateless := by
  refine ⟨rfl, rfl, h, ?_⟩
  intro hs
  exact h (hs (some (f a)) none b)

/-- non-vacuity: an evaluator that answers the number of contexts of the scope -/
example : (memoising (fun s => s.length)).answer [[]] [[]] ≠ (memoising (fun s => s.length)).answer [] [[]] :=
  (memoising_machine_depends_on_history (fun s => s.length) [] [[]] (by decide)).2.2.1

end Dmn.Drg

namespace Dmn.Eval

/-- **The builders keep no state** (table regenerated by `translate/evaluator_state.py` on every run from
feel-evaluator/src, model-evaluator/src/builders, feel/src/evaluator.rs and function.rs, test code excluded):
the only mention of a type or macro with interior mutability or lazy / once initialisation is the
`lazy_static!` table of the parameter names of the named built-in functions (`bifs/named.rs`, constants
`NAME_…: Name`, initialised from literals, read only) and the `extern crate` that provides the macro.  No
`Cell`, `RefCell`, `OnceLock`, `OnceCell`, `Lazy`, `Once`, atomic, `Mutex`, `RwLock`, `static mut` or
`thread_local!` occurs in a `build_*` function or anywhere else in the code that builds and runs evaluators, so
the closures are machines without state in the sense of `Prepared.Stateless` (both seeded changes of wave 8
against this property add an entry: `build_name` / `OnceLock`, `build_decision_table_evaluator` /
`AtomicUsize`). -/
theorem evaluators_hold_no_state :
    Gen.evaluatorState =
      [("feel-evaluator/src/bifs/named.rs", "", "lazy_static"), ("feel-evaluator/src/lib.rs", "", "lazy_static")] ∧
    Gen.evaluatorStateFiles ≥ 15 := by
  decide

end Dmn.Eval
