import Dmn.Lemmas.Workspace

/-!
# C17 — the workspace holds exactly the models its history of operations leaves in it

Theorems about `Dmn.WS` (model of `workspace/src/workspace.rs`), for every history of
operations of any length over any set of model definitions.
-/

namespace Dmn.WS

/-- The representation invariant: the two indexes describe exactly the stored list, and no
two stored definitions share a namespace or a name. -/
structure Inv (s : State) : Prop where
  nsNodup : (s.defs.map (·.ns)).Nodup
  nameNodup : (s.defs.map (·.name)).Nodup
  byNs_iff : ∀ k d, (k, d) ∈ s.byNs ↔ (d ∈ s.defs ∧ k = d.ns)
  byName_iff : ∀ k d, (k, d) ∈ s.byName ↔ (d ∈ s.defs ∧ k = d.name)
  byNsKeys : s.byNs.keys.Nodup
  byNameKeys : s.byName.keys.Nodup

theorem inv_init : Inv init := by
  constructor <;> simp [init, Map.keys]

theorem contains_ns_iff {s : State} (h : Inv s) (k : String) :
    s.byNs.contains k = true ↔ ∃ e ∈ s.defs, e.ns = k := by
  rw [Map.contains_iff]
  constructor
  · rintro ⟨d, hd⟩
    have := (h.byNs_iff k d).mp hd
    exact ⟨d, this.1, this.2.symm⟩
  · rintro ⟨e, he, rfl⟩
    exact ⟨e, (h.byNs_iff e.ns e).mpr ⟨he, rfl⟩⟩

theorem contains_name_iff {s : State} (h : Inv s) (k : String) :
    s.byName.contains k = true ↔ ∃ e ∈ s.defs, e.name = k := by
  rw [Map.contains_iff]
  constructor
  · rintro ⟨d, hd⟩
    have := (h.byName_iff k d).mp hd
    exact ⟨d, this.1, this.2.symm⟩
  · rintro ⟨e, he, rfl⟩
    exact ⟨e, (h.byName_iff e.name e).mpr ⟨he, rfl⟩⟩

theorem add_ns {s : State} {d : Def} (h1 : s.byNs.contains d.ns = true) :
    add s d = (s, .errNamespaceExists) := by
  unfold add; rw [if_pos h1]

theorem add_name {s : State} {d : Def} (h1 : ¬ s.byNs.contains d.ns = true)
    (h2 : s.byName.contains d.name = true) : add s d = (s, .errNameExists) := by
  unfold add; rw [if_neg h1, if_pos h2]

theorem add_fresh {s : State} {d : Def} (h1 : ¬ s.byNs.contains d.ns = true)
    (h2 : ¬ s.byName.contains d.name = true) :
    add s d = ({ defs := s.defs ++ [d], byNs := s.byNs.insert d.ns d,
                 byName := s.byName.insert d.name d, evals := [] }, .ok) := by
  unfold add; rw [if_neg h1, if_neg h2]

/-- A model can be added if and only if no stored model has its namespace or its name. -/
theorem add_iff_fresh {s : State} (h : Inv s) (d : Def) :
    (add s d).2 = .ok ↔ ∀ e ∈ s.defs, e.ns ≠ d.ns ∧ e.name ≠ d.name := by
  by_cases h1 : s.byNs.contains d.ns = true
  · rw [add_ns h1]
    obtain ⟨e, he, hn⟩ := (contains_ns_iff h _).mp h1
    constructor
    · intro x; cases x
    · intro hx; exact absurd hn (hx e he).1
  · by_cases h2 : s.byName.contains d.name = true
    · rw [add_name h1 h2]
      obtain ⟨e, he, hn⟩ := (contains_name_iff h _).mp h2
      constructor
      · intro x; cases x
      · intro hx; exact absurd hn (hx e he).2
    · rw [add_fresh h1 h2]
      refine ⟨fun _ => ?_, fun _ => rfl⟩
      intro e he
      constructor
      · intro hn; exact h1 ((contains_ns_iff h _).mpr ⟨e, he, hn⟩)
      · intro hn; exact h2 ((contains_name_iff h _).mpr ⟨e, he, hn⟩)

theorem inv_add {s : State} (h : Inv s) (d : Def) : Inv (add s d).1 := by
  by_cases h1 : s.byNs.contains d.ns = true
  · rw [add_ns h1]; exact h
  · by_cases h2 : s.byName.contains d.name = true
    · rw [add_name h1 h2]; exact h
    · rw [add_fresh h1 h2]
      have f1 : ∀ e ∈ s.defs, e.ns ≠ d.ns := fun e he hn => h1 ((contains_ns_iff h _).mpr ⟨e, he, hn⟩)
      have f2 : ∀ e ∈ s.defs, e.name ≠ d.name := fun e he hn => h2 ((contains_name_iff h _).mpr ⟨e, he, hn⟩)
      constructor
      · simp only [List.map_append, List.map_cons, List.map_nil]
        rw [List.nodup_append]
        refine ⟨h.nsNodup, by simp, ?_⟩
        intro a ha b hb
        simp only [List.mem_map] at ha
        obtain ⟨e, he, rfl⟩ := ha
        simp only [List.mem_singleton] at hb
        subst hb; exact f1 e he
      · simp only [List.map_append, List.map_cons, List.map_nil]
        rw [List.nodup_append]
        refine ⟨h.nameNodup, by simp, ?_⟩
        intro a ha b hb
        simp only [List.mem_map] at ha
        obtain ⟨e, he, rfl⟩ := ha
        simp only [List.mem_singleton] at hb
        subst hb; exact f2 e he
      · intro k e
        simp only [Map.mem_insert, List.mem_append, List.mem_singleton, h.byNs_iff]
        constructor
        · rintro (⟨rfl, rfl⟩ | ⟨⟨he, rfl⟩, _⟩)
          · exact ⟨Or.inr rfl, rfl⟩
          · exact ⟨Or.inl he, rfl⟩
        · rintro ⟨he | rfl, rfl⟩
          · exact Or.inr ⟨⟨he, rfl⟩, f1 e he⟩
          · exact Or.inl ⟨rfl, rfl⟩
      · intro k e
        simp only [Map.mem_insert, List.mem_append, List.mem_singleton, h.byName_iff]
        constructor
        · rintro (⟨rfl, rfl⟩ | ⟨⟨he, rfl⟩, _⟩)
          · exact ⟨Or.inr rfl, rfl⟩
          · exact ⟨Or.inl he, rfl⟩
        · rintro ⟨he | rfl, rfl⟩
          · exact Or.inr ⟨⟨he, rfl⟩, f2 e he⟩
          · exact Or.inl ⟨rfl, rfl⟩
      · exact Map.keys_insert_nodup h.byNsKeys
      · exact Map.keys_insert_nodup h.byNameKeys

theorem inv_remove {s : State} (h : Inv s) (ns name : String) : Inv (remove s ns name) := by
  unfold remove
  constructor
  · exact (h.nsNodup.sublist (List.Sublist.map _ List.filter_sublist))
  · exact (h.nameNodup.sublist (List.Sublist.map _ List.filter_sublist))
  · intro k d
    simp only [purge_fst, h.byNs_iff, List.mem_filter, Bool.or_eq_true, beq_iff_eq,
      Bool.and_eq_true, bne_iff_ne, ne_eq]
    constructor
    · rintro ⟨⟨hd, rfl⟩, hm⟩
      refine ⟨⟨hd, ?_, ?_⟩, rfl⟩
      · intro hn; exact hm d ⟨hd, Or.inl hn⟩ rfl
      · intro hn; exact hm d ⟨hd, Or.inr hn⟩ rfl
    · rintro ⟨⟨hd, h1, h2⟩, rfl⟩
      refine ⟨⟨hd, rfl⟩, ?_⟩
      rintro m ⟨hm, hmm⟩ e
      have := eq_of_nodup_map h.nsNodup hd hm e
      subst this
      cases hmm with
      | inl x => exact h1 x
      | inr x => exact h2 x
  · intro k d
    simp only [purge_snd, h.byName_iff, List.mem_filter, Bool.or_eq_true, beq_iff_eq,
      Bool.and_eq_true, bne_iff_ne, ne_eq]
    constructor
    · rintro ⟨⟨hd, rfl⟩, hm⟩
      refine ⟨⟨hd, ?_, ?_⟩, rfl⟩
      · intro hn; exact hm d ⟨hd, Or.inl hn⟩ rfl
      · intro hn; exact hm d ⟨hd, Or.inr hn⟩ rfl
    · rintro ⟨⟨hd, h1, h2⟩, rfl⟩
      refine ⟨⟨hd, rfl⟩, ?_⟩
      rintro m ⟨hm, hmm⟩ e
      have := eq_of_nodup_map h.nameNodup hd hm e
      subst this
      cases hmm with
      | inl x => exact h1 x
      | inr x => exact h2 x
  · exact purge_fst_keys_nodup h.byNsKeys
  · exact purge_snd_keys_nodup h.byNameKeys

/-- Every operation preserves the invariant. -/
theorem inv_step {s : State} (h : Inv s) (op : Op) : Inv (step s op).1 := by
  cases op with
  | add d => exact inv_add h d
  | remove ns name => exact inv_remove h ns name
  | replace d => exact inv_add (inv_remove h _ _) d
  | clear => exact inv_init
  | deploy => exact ⟨h.nsNodup, h.nameNodup, h.byNs_iff, h.byName_iff, h.byNsKeys, h.byNameKeys⟩

/-- The invariant holds after every history. -/
theorem inv_reachable (ops : List Op) : Inv (run init ops) := by
  suffices ∀ s, Inv s → Inv (run s ops) from this init inv_init
  induction ops with
  | nil => intro s h; exact h
  | cons op ops ih => intro s h; exact ih _ (inv_step h op)

/-- The lookups by namespace and by name always describe the same set as the stored list. -/
theorem lookups_describe_list (ops : List Op) (k : String) (d : Def) :
    ((k, d) ∈ (run init ops).byNs ↔ d ∈ (run init ops).defs ∧ k = d.ns) ∧
    ((k, d) ∈ (run init ops).byName ↔ d ∈ (run init ops).defs ∧ k = d.name) :=
  ⟨(inv_reachable ops).byNs_iff k d, (inv_reachable ops).byName_iff k d⟩

/-! ## refinement of the abstract list -/

theorem step_refines {s : State} (h : Inv s) (op : Op) :
    (step s op).1.defs = (Spec.step s.defs op).1 ∧ (step s op).2 = (Spec.step s.defs op).2 := by
  have hadd : ∀ (s : State), Inv s → ∀ d, (add s d).1.defs = (Spec.add s.defs d).1 ∧ (add s d).2 = (Spec.add s.defs d).2 := by
    intro s h d
    unfold add Spec.add
    have e1 : s.byNs.contains d.ns = s.defs.any (fun e => e.ns == d.ns) := by
      rw [Bool.eq_iff_iff, contains_ns_iff h]; simp
    have e2 : s.byName.contains d.name = s.defs.any (fun e => e.name == d.name) := by
      rw [Bool.eq_iff_iff, contains_name_iff h]; simp
    rw [e1, e2]
    split
    · exact ⟨rfl, rfl⟩
    · split
      · exact ⟨rfl, rfl⟩
      · exact ⟨rfl, rfl⟩
  cases op with
  | add d => exact hadd s h d
  | remove ns name => exact ⟨rfl, rfl⟩
  | replace d =>
    have := hadd (remove s d.ns d.name) (inv_remove h _ _) d
    exact this
  | clear => exact ⟨rfl, rfl⟩
  | deploy => exact ⟨rfl, rfl⟩

/-- After any history the stored list is exactly what the abstract specification says. -/
theorem refines_spec (ops : List Op) : (run init ops).defs = Spec.run [] ops := by
  suffices ∀ s, Inv s → (run s ops).defs = Spec.run s.defs ops from this init inv_init
  induction ops with
  | nil => intro s _; rfl
  | cons op ops ih =>
    intro s h
    simp only [run, Spec.run]
    rw [ih _ (inv_step h op), (step_refines h op).1]

/-- Removal leaves no reservation behind: whatever was removed can be added again. -/
theorem no_stale_reservation {s : State} (h : Inv s) (ns name : String) (d : Def)
    (hns : d.ns = ns ∨ ∀ e ∈ s.defs, e.ns ≠ d.ns) (hname : d.name = name ∨ ∀ e ∈ s.defs, e.name ≠ d.name) :
    (add (remove s ns name) d).2 = .ok := by
  rw [add_iff_fresh (inv_remove h ns name)]
  intro e he
  simp only [remove, List.mem_filter, Bool.and_eq_true, bne_iff_ne, ne_eq] at he
  obtain ⟨he, h1, h2⟩ := he
  constructor
  · cases hns with
    | inl x => rw [x]; exact h1
    | inr x => exact x e he
  · cases hname with
    | inl x => rw [x]; exact h2
    | inr x => exact x e he

/-- `replace` always succeeds and leaves the new definition stored, substituted for
whatever had its namespace or its name. -/
theorem replace_ok {s : State} (h : Inv s) (d : Def) :
    (replace s d).2 = .ok ∧ d ∈ (replace s d).1.defs ∧
    ∀ e ∈ (replace s d).1.defs, e = d ∨ (e ∈ s.defs ∧ e.ns ≠ d.ns ∧ e.name ≠ d.name) := by
  have hok : (add (remove s d.ns d.name) d).2 = .ok :=
    no_stale_reservation h d.ns d.name d (Or.inl rfl) (Or.inl rfl)
  have hi := inv_remove h d.ns d.name
  have hfresh := (add_iff_fresh hi d).mp hok
  have h1 : ¬ (remove s d.ns d.name).byNs.contains d.ns = true := by
    rw [contains_ns_iff hi]; rintro ⟨e, he, hn⟩; exact (hfresh e he).1 hn
  have h2 : ¬ (remove s d.ns d.name).byName.contains d.name = true := by
    rw [contains_name_iff hi]; rintro ⟨e, he, hn⟩; exact (hfresh e he).2 hn
  unfold replace
  rw [add_fresh h1 h2]
  refine ⟨rfl, by simp, ?_⟩
  intro e he
  simp only [List.mem_append, List.mem_singleton] at he
  cases he with
  | inr x => exact Or.inl x
  | inl x =>
    right
    simp only [remove, List.mem_filter, Bool.and_eq_true, bne_iff_ne, ne_eq] at x
    exact ⟨x.1, x.2.1, x.2.2⟩

/-! ## evaluation -/

/-- After a deploy exactly the stored models that build can be evaluated: a model that
fails to build does not prevent the others from being deployed. -/
theorem deploy_skips_failures (s : State) (m : String) :
    canEvaluate (deploy s) m = true ↔ ∃ d ∈ s.defs, d.builds = true ∧ d.name = m := by
  simp [canEvaluate, deploy, deployLoop_mem]

theorem evals_add (s : State) (d : Def) (m : String) :
    m ∈ (add s d).1.evals ↔ (add s d).2 ≠ .ok ∧ m ∈ s.evals := by
  by_cases h1 : s.byNs.contains d.ns = true
  · rw [add_ns h1]; simp
  · by_cases h2 : s.byName.contains d.name = true
    · rw [add_name h1 h2]; simp
    · rw [add_fresh h1 h2]; simp

theorem evals_step (s : State) (op : Op) (m : String) :
    m ∈ (step s op).1.evals ↔
      match op with
      | .deploy => ∃ d ∈ s.defs, d.builds = true ∧ d.name = m
      | .add d => (add s d).2 ≠ .ok ∧ m ∈ s.evals
      | _ => False := by
  cases op with
  | deploy => simp [step, deploy, deployLoop_mem]
  | add d => exact evals_add s d m
  | remove ns name => simp [step, remove]
  | clear => simp [step, clear, init]
  | replace d =>
    simp only [step, replace, evals_add]
    simp [remove]

/-- Evaluation is possible exactly for the models that were present at the last deploy and
built successfully, no modification having happened since (for every history). -/
theorem eval_iff_deployed (ops : List Op) (m : String) :
    canEvaluate (run init ops) m = true ↔ m ∈ Spec.evaluable [] [] ops := by
  suffices ∀ s ev, Inv s → (∀ m, m ∈ s.evals ↔ m ∈ ev) →
      (m ∈ (run s ops).evals ↔ m ∈ Spec.evaluable s.defs ev ops) by
    have h := this init [] inv_init (by simp [init])
    have e : init.defs = [] := rfl
    rw [e] at h
    simpa [canEvaluate] using h
  induction ops with
  | nil => intro s ev _ h; exact h m
  | cons op ops ih =>
    intro s ev hi hev
    have hr := step_refines hi op
    have hin := inv_step hi op
    cases op with
    | deploy =>
      have e : Spec.evaluable s.defs ev (.deploy :: ops)
          = Spec.evaluable (step s .deploy).1.defs ((s.defs.filter (·.builds)).map (·.name)) ops := rfl
      rw [e]
      apply ih _ _ hin
      intro m'
      rw [evals_step]
      simp only [List.mem_map, List.mem_filter]
      constructor
      · rintro ⟨d, hd, hb, rfl⟩; exact ⟨d, ⟨hd, hb⟩, rfl⟩
      · rintro ⟨d, ⟨hd, hb⟩, rfl⟩; exact ⟨d, hd, hb, rfl⟩
    | add d =>
      have hd : (step s (.add d)).1.defs = (Spec.add s.defs d).1 := hr.1
      have hres : (add s d).2 = (Spec.add s.defs d).2 := hr.2
      have e : Spec.evaluable s.defs ev (.add d :: ops)
          = Spec.evaluable (Spec.add s.defs d).1 (if (Spec.add s.defs d).2 = .ok then [] else ev) ops := by
        simp only [Spec.evaluable]
        cases hsp : Spec.add s.defs d with
        | mk l' r => cases r <;> simp
      rw [e, ← hd]
      apply ih _ _ hin
      intro m'
      rw [evals_step]
      simp only [hres]
      by_cases hk : (Spec.add s.defs d).2 = .ok
      · simp [hk]
      · simp [hk, hev]
    | remove ns name =>
      have e : Spec.evaluable s.defs ev (.remove ns name :: ops)
          = Spec.evaluable (Spec.step s.defs (.remove ns name)).1 [] ops := rfl
      rw [e, ← hr.1]
      apply ih _ _ hin
      intro m'; rw [evals_step]; simp
    | clear =>
      have e : Spec.evaluable s.defs ev (.clear :: ops)
          = Spec.evaluable (Spec.step s.defs .clear).1 [] ops := rfl
      rw [e, ← hr.1]
      apply ih _ _ hin
      intro m'; rw [evals_step]; simp
    | replace d =>
      have e : Spec.evaluable s.defs ev (.replace d :: ops)
          = Spec.evaluable (Spec.step s.defs (.replace d)).1 [] ops := rfl
      rw [e, ← hr.1]
      apply ih _ _ hin
      intro m'; rw [evals_step]; simp

/-! ## the evaluators are a third index: what every history — failing operations included — leaves in it -/

/-- A rejected `add` changes nothing at all: not the list, not the indexes, not the evaluators. -/
theorem failed_add_changes_nothing (s : State) (d : Def) (h : (add s d).2 ≠ .ok) : (add s d).1 = s := by
  by_cases h1 : s.byNs.contains d.ns = true
  · rw [add_ns h1]
  · by_cases h2 : s.byName.contains d.name = true
    · rw [add_name h1 h2]
    · rw [add_fresh h1 h2] at h; exact absurd rfl h

/-- non-vacuity: the second `add` of the same model is rejected -/
example : (add (add init ⟨"ns", "n", true⟩).1 ⟨"ns", "n", false⟩).2 ≠ .ok := by decide

/-- The key set of the model evaluators never holds a name that is not the name of a stored definition that
builds. -/
def EvalsSound (s : State) : Prop := ∀ m ∈ s.evals, ∃ d ∈ s.defs, d.name = m ∧ d.builds = true

theorem evalsSound_step {s : State} (h : EvalsSound s) (op : Op) : EvalsSound (step s op).1 := by
  intro m hm
  rw [evals_step] at hm
  cases op with
  | deploy =>
    obtain ⟨d, hd, hb, hn⟩ := hm
    exact ⟨d, hd, hn, hb⟩
  | add d =>
    obtain ⟨hne, hmem⟩ := hm
    have e : (step s (.add d)).1 = s := failed_add_changes_nothing s d hne
    rw [e]; exact h m hmem
  | remove ns name => exact absurd hm id
  | clear => exact absurd hm id
  | replace d => exact absurd hm id

theorem evalsSound_reachable (ops : List Op) : EvalsSound (run init ops) := by
  suffices ∀ s, EvalsSound s → EvalsSound (run s ops) from this init (by intro m hm; cases hm)
  induction ops with
  | nil => intro s h; exact h
  | cons op ops ih => intro s h; exact ih _ (evalsSound_step h op)

/-- The stored list, the namespace index, the name index and the evaluators describe one and the same set after
**every** history of add / remove / replace / clear / deploy, rejected additions included: the keys of the two
indexes are exactly the namespaces and the names of the stored definitions, and every evaluator belongs to a stored
definition that builds. -/
theorem indexes_describe_one_set (ops : List Op) :
    (∀ k, k ∈ (run init ops).byNs.keys ↔ ∃ d ∈ (run init ops).defs, d.ns = k) ∧
    (∀ k, k ∈ (run init ops).byName.keys ↔ ∃ d ∈ (run init ops).defs, d.name = k) ∧
    (∀ m, canEvaluate (run init ops) m = true → ∃ d ∈ (run init ops).defs, d.name = m ∧ d.builds = true) := by
  have hinv := inv_reachable ops
  have hev : EvalsSound (run init ops) := evalsSound_reachable ops
  refine ⟨fun k => ?_, fun k => ?_, fun m hm => hev m (by simpa [canEvaluate] using hm)⟩
  · rw [← contains_ns_iff hinv k, Map.contains_iff]
    simp only [Map.keys, List.mem_map]
    constructor
    · rintro ⟨⟨k', d⟩, h, rfl⟩; exact ⟨d, h⟩
    · rintro ⟨d, h⟩; exact ⟨(k, d), h, rfl⟩
  · rw [← contains_name_iff hinv k, Map.contains_iff]
    simp only [Map.keys, List.mem_map]
    constructor
    · rintro ⟨⟨k', d⟩, h, rfl⟩; exact ⟨d, h⟩
    · rintro ⟨d, h⟩; exact ⟨(k, d), h, rfl⟩

/-- What `deploy` makes evaluable depends on the stored list alone — not on what an earlier deploy found, not on
which models failed to build before. -/
theorem deploy_depends_on_list_only (s s' : State) (h : s.defs = s'.defs) : (deploy s).evals = (deploy s').evals := by
  simp only [deploy, h]

/-- Deploying twice is deploying once. -/
theorem deploy_idempotent (s : State) : deploy (deploy s) = deploy s := rfl

/-- Substituting a stored model — one that failed to build at an earlier deploy, too — by a model of the same
namespace and name and deploying makes exactly the new version count: it can be evaluated iff it builds. -/
theorem replace_then_deploy {s : State} (h : Inv s) (d : Def) :
    canEvaluate (deploy (replace s d).1) d.name = d.builds := by
  have hr := replace_ok h d
  have hi : Inv (replace s d).1 := inv_add (inv_remove h _ _) d
  rw [Bool.eq_iff_iff, deploy_skips_failures]
  constructor
  · rintro ⟨e, he, hb, hn⟩
    have : e = d := eq_of_nodup_map hi.nameNodup he hr.2.1 hn
    rw [← this]; exact hb
  · intro hb; exact ⟨d, hr.2.1, hb, rfl⟩

/-- the same after any history, whatever was deployed before (the situation of a repaired model) -/
theorem replace_then_deploy_after (ops : List Op) (d : Def) :
    canEvaluate (run init (ops ++ [.replace d, .deploy])) d.name = d.builds := by
  have e : run init (ops ++ [.replace d, .deploy]) = deploy (replace (run init ops) d).1 := by
    suffices ∀ s, run s (ops ++ [.replace d, .deploy]) = deploy (replace (run s ops) d).1 from this init
    induction ops with
    | nil => intro s; rfl
    | cons op ops ih => intro s; exact ih _
  rw [e]; exact replace_then_deploy (inv_reachable ops) d

/-- non-vacuity: a model that does not build is stored and deployed, then replaced by one that does -/
example : canEvaluate (run init [.add ⟨"ns", "n", false⟩, .add ⟨"ns2", "n2", true⟩, .deploy, .replace ⟨"ns", "n", true⟩, .deploy]) "n" = true := by
  decide

/-! ## loading a directory -/

theorem mem_defs_add {s : State} {d e : Def} (h : e ∈ s.defs) : e ∈ (add s d).1.defs := by
  by_cases h1 : s.byNs.contains d.ns = true
  · rw [add_ns h1]; exact h
  · by_cases h2 : s.byName.contains d.name = true
    · rw [add_name h1 h2]; exact h
    · rw [add_fresh h1 h2]; exact List.mem_append_left _ h

theorem mem_defs_foldl_loadStep {s : State} {e : Def} (ds : List Doc) (h : e ∈ s.defs) :
    e ∈ (ds.foldl loadStep s).defs := by
  induction ds generalizing s with
  | nil => exact h
  | cons x ds ih =>
    cases x with
    | unreadable => exact ih h
    | model d => exact ih (mem_defs_add h)

/-- Loading a directory: every file that is a model, was accepted by `add` and builds can be evaluated afterwards —
whatever the other files are (not models at all, models that are rejected, models that fail to build) and wherever
they stand in the directory order. -/
theorem load_isolates_failures (pre post : List Doc) (d : Def) (hb : d.builds = true)
    (hadd : (add (pre.foldl loadStep init) d).2 = .ok) :
    canEvaluate (load (pre ++ .model d :: post)) d.name = true := by
  rw [load, deploy_skips_failures]
  refine ⟨d, ?_, hb, rfl⟩
  rw [List.foldl_append, List.foldl_cons]
  apply mem_defs_foldl_loadStep
  show d ∈ (add (pre.foldl loadStep init) d).1.defs
  by_cases h1 : (pre.foldl loadStep init).byNs.contains d.ns = true
  · rw [add_ns h1] at hadd; cases hadd
  · by_cases h2 : (pre.foldl loadStep init).byName.contains d.name = true
    · rw [add_name h1 h2] at hadd; cases hadd
    · rw [add_fresh h1 h2]; simp

/-- non-vacuity: an unreadable file and a model that does not build stand before the valid model -/
example : (add ([Doc.unreadable, .model ⟨"a", "a", false⟩].foldl loadStep init) ⟨"ns", "n", true⟩).2 = .ok := by decide

/-- The invariant holds for a loaded directory as well. -/
theorem inv_load (ds : List Doc) : Inv (load ds) := by
  have : ∀ s, Inv s → Inv (ds.foldl loadStep s) := by
    induction ds with
    | nil => intro s h; exact h
    | cons x ds ih =>
      intro s h
      cases x with
      | unreadable => exact ih s h
      | model d => exact ih _ (inv_add h d)
  exact inv_step (this init inv_init) .deploy

/-! ## loading a directory: the order in which the files are read

`WalkDir::new(dir).into_iter()` (`workspace.rs:180`) is not sorted: the files arrive in the order the file system
lists them.  The model's input is the list of files in the order read; the statements below quantify over its
permutations. -/

/-- the files that are models, in the order read -/
def Doc.models : List Doc → List Def
  | [] => []
  | .unreadable :: ds => Doc.models ds
  | .model d :: ds => d :: Doc.models ds

/-- no two model files share a namespace or a name -/
def DistinctKeys (ds : List Doc) : Prop :=
  (Doc.models ds).Pairwise (fun a b => a.ns ≠ b.ns ∧ a.name ≠ b.name)

theorem models_perm {ds ds' : List Doc} (h : ds.Perm ds') : (Doc.models ds).Perm (Doc.models ds') := by
  induction h with
  | nil => exact .nil
  | cons x _ ih => cases x with
    | unreadable => exact ih
    | model d => exact .cons d ih
  | swap x y l =>
    cases x <;> cases y <;> simp only [Doc.models]
    · exact .refl _
    · exact .refl _
    · exact .refl _
    · exact .swap _ _ _
  | trans _ _ ih1 ih2 => exact ih1.trans ih2

theorem defs_foldl_loadStep (ds : List Doc) {s : State} (hs : Inv s)
    (hfresh : ∀ e ∈ s.defs, ∀ d ∈ Doc.models ds, e.ns ≠ d.ns ∧ e.name ≠ d.name)
    (hd : DistinctKeys ds) : (ds.foldl loadStep s).defs = s.defs ++ Doc.models ds := by
  induction ds generalizing s with
  | nil => simp [Doc.models]
  | cons x ds ih =>
    cases x with
    | unreadable => exact ih hs hfresh hd
    | model d =>
      simp only [DistinctKeys, Doc.models, List.pairwise_cons] at hd
      have hok : (add s d).2 = .ok := (add_iff_fresh hs d).mpr (fun e he => hfresh e he d (by simp [Doc.models]))
      have hdefs : (add s d).1.defs = s.defs ++ [d] := by
        by_cases h1 : s.byNs.contains d.ns = true
        · rw [add_ns h1] at hok; cases hok
        · by_cases h2 : s.byName.contains d.name = true
          · rw [add_name h1 h2] at hok; cases hok
          · rw [add_fresh h1 h2]
      simp only [List.foldl_cons, loadStep, Doc.models]
      rw [ih (inv_add hs d) ?_ hd.2, hdefs]
      · simp
      · intro e he d' hd'
        rw [hdefs] at he
        rcases List.mem_append.mp he with he | he
        · exact hfresh e he d' (by simp [Doc.models, hd'])
        · simp only [List.mem_singleton] at he
          subst he
          exact hd.1 d' hd'

/-- With pairwise distinct namespaces and names every model file is stored, in the order read. -/
theorem load_stores_all (ds : List Doc) (hd : DistinctKeys ds) : (load ds).defs = Doc.models ds := by
  have := defs_foldl_loadStep ds inv_init (by intro e he; cases he) hd
  simpa [load, deploy, init] using this

theorem distinctKeys_perm {ds ds' : List Doc} (h : ds.Perm ds') (hd : DistinctKeys ds) : DistinctKeys ds' := by
  unfold DistinctKeys at hd ⊢
  exact ((models_perm h).pairwise_iff (fun {a b} hab => ⟨fun e => hab.1 e.symm, fun e => hab.2 e.symm⟩)).mp hd

/-- Loading does not depend on the order in which the files of the directory are read, when no two model files share a
namespace or a name: for every permutation of the files the stored list is a permutation of the stored list (the same
set of definitions: every model file), and exactly the same models can be evaluated — those that build — whatever
stands next to them (files that are no models, models that fail to build). -/
theorem load_order_independent (ds ds' : List Doc) (hp : ds.Perm ds') (hd : DistinctKeys ds) :
    (load ds).defs.Perm (load ds').defs ∧
    (∀ d, d ∈ (load ds).defs ↔ d ∈ (load ds').defs) ∧
    (∀ m, canEvaluate (load ds) m = canEvaluate (load ds') m) ∧
    (∀ m, canEvaluate (load ds) m = true ↔ ∃ d, Doc.model d ∈ ds ∧ d.builds = true ∧ d.name = m) := by
  have hd' := distinctKeys_perm hp hd
  have hperm : (load ds).defs.Perm (load ds').defs := by
    rw [load_stores_all ds hd, load_stores_all ds' hd']; exact models_perm hp
  have hmem : ∀ (l : List Doc) (d : Def), d ∈ Doc.models l ↔ Doc.model d ∈ l := by
    intro l d
    induction l with
    | nil => simp [Doc.models]
    | cons x l ih =>
      cases x with
      | unreadable => simp [Doc.models, ih]
      | model e => simp [Doc.models, ih]
  have hev : ∀ (l : List Doc), DistinctKeys l → ∀ m,
      (canEvaluate (load l) m = true ↔ ∃ d, Doc.model d ∈ l ∧ d.builds = true ∧ d.name = m) := by
    intro l hl m
    have hdefs : (l.foldl loadStep init).defs = Doc.models l := by
      have := load_stores_all l hl; simpa [load, deploy] using this
    rw [load, deploy_skips_failures, hdefs]
    constructor
    · rintro ⟨d, hdm, hb, hn⟩; exact ⟨d, (hmem l d).mp hdm, hb, hn⟩
    · rintro ⟨d, hdm, hb, hn⟩; exact ⟨d, (hmem l d).mpr hdm, hb, hn⟩
  refine ⟨hperm, fun d => hperm.mem_iff, ?_, hev ds hd⟩
  intro m
  rw [Bool.eq_iff_iff, hev ds hd m, hev ds' hd' m]
  constructor
  · rintro ⟨d, hdm, h⟩; exact ⟨d, hp.mem_iff.mp hdm, h⟩
  · rintro ⟨d, hdm, h⟩; exact ⟨d, hp.mem_iff.mpr hdm, h⟩

/-- non-vacuity: two models, a file that is no model, a model that does not build -/
example : DistinctKeys [.model ⟨"ns1", "n1", true⟩, .unreadable, .model ⟨"ns2", "n2", false⟩, .model ⟨"ns3", "n3", true⟩] := by
  simp [DistinctKeys, Doc.models]

/-- When two model files clash — the later one has the namespace or the name of a model already stored — the one read
first stays and the later one is dropped (its `add` error is printed and loading goes on, `workspace.rs:191-194`):
the state after the file is the state before it. -/
theorem load_clash_first_wins {s : State} (hs : Inv s) (d e : Def) (he : e ∈ s.defs)
    (hclash : e.ns = d.ns ∨ e.name = d.name) (post : List Doc) :
    loadStep s (.model d) = s ∧ e ∈ (post.foldl loadStep (loadStep s (.model d))).defs := by
  have hne : (add s d).2 ≠ .ok := by
    intro hok
    have := (add_iff_fresh hs d).mp hok e he
    rcases hclash with h | h
    · exact this.1 h
    · exact this.2 h
  have hst : loadStep s (.model d) = s := failed_add_changes_nothing s d hne
  exact ⟨hst, by rw [hst]; exact mem_defs_foldl_loadStep post he⟩

/-- non-vacuity -/
example : Inv (add init ⟨"ns", "a", true⟩).1 ∧ (⟨"ns", "a", true⟩ : Def) ∈ (add init ⟨"ns", "a", true⟩).1.defs :=
  ⟨inv_add inv_init _, by decide⟩

/-- So with a clash the outcome depends on the order of the directory: of two model files with one namespace and
different names — both building — exactly the one read first can be evaluated. -/
theorem load_order_dependent_on_clash_counterexample :
    let a : Doc := .model ⟨"ns", "a", true⟩
    let b : Doc := .model ⟨"ns", "b", true⟩
    [a, b].Perm [b, a] ∧ ¬ DistinctKeys [a, b] ∧
    canEvaluate (load [a, b]) "a" = true ∧ canEvaluate (load [a, b]) "b" = false ∧
    canEvaluate (load [b, a]) "a" = false ∧ canEvaluate (load [b, a]) "b" = true := by
  refine ⟨.swap _ _ _, by simp [DistinctKeys, Doc.models], by decide, by decide, by decide, by decide⟩

/-! ## non-vacuity: a two-model history that exercises the cross-key removal -/

example :
    let a : Def := ⟨"nsA", "nA", true⟩
    let b : Def := ⟨"nsB", "nB", true⟩
    let s := run init [.add a, .add b, .remove "nsA" "nB"]
    s.defs = [] ∧ (add s ⟨"nsC", "nA", true⟩).2 = .ok ∧ (add s ⟨"nsB", "nD", false⟩).2 = .ok := by
  decide

end Dmn.WS
