import Dmn.Lemmas.Workspace

/-!
# C17 — the workspace holds exactly the models its history of operations leaves in it

Theorems about `Dmn.WS` (model of `workspace/src/workspace.rs`), for every history of
operations of any length over any set of model definitions.
-/

namespace Dmn.WS

/-- The representation invariant: the two indexes describe exactly the stored list, and no
two stored definitions share a namespace or a name. -/
structure Inv (s : State) : Prop where
  nsNodup : (s.defs.map (·.ns)).Nodup
  nameNodup : (s.defs.map (·.name)).Nodup
  byNs_iff : ∀ k d, (k, d) ∈ s.byNs ↔ (d ∈ s.defs ∧ k = d.ns)
  byName_iff : ∀ k d, (k, d) ∈ s.byName ↔ (d ∈ s.defs ∧ k = d.name)
  byNsKeys : s.byNs.keys.Nodup
  byNameKeys : s.byName.keys.Nodup

theorem inv_init : Inv init := by
  constructor <;> simp [init, Map.keys]

theorem contains_ns_iff {s : State} (h : Inv s) (k : String) :
    s.byNs.contains k = true ↔ ∃ e ∈ s.defs, e.ns = k := by
  rw [Map.contains_iff]
  constructor
  · rintro ⟨d, hd⟩
    have := (h.byNs_iff k d).mp hd
    exact ⟨d, this.1, this.2.symm⟩
  · rintro ⟨e, he, rfl⟩
    exact ⟨e, (h.byNs_iff e.ns e).mpr ⟨he, rfl⟩⟩

theorem contains_name_iff {s : State} (h : Inv s) (k : String) :
    s.byName.contains k = true ↔ ∃ e ∈ s.defs, e.name = k := by
  rw [Map.contains_iff]
  constructor
  · rintro ⟨d, hd⟩
    have := (h.byName_iff k d).mp hd
    exact ⟨d, this.1, this.2.symm⟩
  · rintro ⟨e, he, rfl⟩
    exact ⟨e, (h.byName_iff e.name e).mpr ⟨he, rfl⟩⟩

theorem add_ns {s : State} {d : Def} (h1 : s.byNs.contains d.ns = true) :
    add s d = (s, .errNamespaceExists) := by
  unfold add; rw [if_pos h1]

theorem add_name {s : State} {d : Def} (h1 : ¬ s.byNs.contains d.ns = true)
    (h2 : s.byName.contains d.name = true) : add s d = (s, .errNameExists) := by
  unfold add; rw [if_neg h1, if_pos h2]

theorem add_fresh {s : State} {d : Def} (h1 : ¬ s.byNs.contains d.ns = true)
    (h2 : ¬ s.byName.contains d.name = true) :
    add s d = ({ defs := s.defs ++ [d], byNs := s.byNs.insert d.ns d,
                 byName := s.byName.insert d.name d, evals := [] }, .ok) := by
  unfold add; rw [if_neg h1, if_neg h2]

/-- A model can be added if and only if no stored model has its namespace or its name. -/
theorem add_iff_fresh {s : State} (h : Inv s) (d : Def) :
    (add s d).2 = .ok ↔ ∀ e ∈ s.defs, e.ns ≠ d.ns ∧ e.name ≠ d.name := by
  by_cases h1 : s.byNs.contains d.ns = true
  · rw [add_ns h1]
    obtain ⟨e, he, hn⟩ := (contains_ns_iff h _).mp h1
    constructor
    · intro x; cases x
    · intro hx; exact absurd hn (hx e he).1
  · by_cases h2 : s.byName.contains d.name = true
    · rw [add_name h1 h2]
      obtain ⟨e, he, hn⟩ := (contains_name_iff h _).mp h2
      constructor
      · intro x; cases x
      · intro hx; exact absurd hn (hx e he).2
    · rw [add_fresh h1 h2]
      refine ⟨fun _ => ?_, fun _ => rfl⟩
      intro e he
      constructor
      · intro hn; exact h1 ((contains_ns_iff h _).mpr ⟨e, he, hn⟩)
      · intro hn; exact h2 ((contains_name_iff h _).mpr ⟨e, he, hn⟩)

theorem inv_add {s : State} (h : Inv s) (d : Def) : Inv (add s d).1 := by
  by_cases h1 : s.byNs.contains d.ns = true
  · rw [add_ns h1]; exact h
  · by_cases h2 : s.byName.contains d.name = true
    · rw [add_name h1 h2]; exact h
    · rw [add_fresh h1 h2]
      have f1 : ∀ e ∈ s.defs, e.ns ≠ d.ns := fun e he hn => h1 ((contains_ns_iff h _).mpr ⟨e, he, hn⟩)
      have f2 : ∀ e ∈ s.defs, e.name ≠ d.name := fun e he hn => h2 ((contains_name_iff h _).mpr ⟨e, he, hn⟩)
      constructor
      · simp only [List.map_append, List.map_cons, List.map_nil]
        rw [List.nodup_append]
        refine ⟨h.nsNodup, by simp, ?_⟩
        intro a ha b hb
        simp only [List.mem_map] at ha
        obtain ⟨e, he, rfl⟩ := ha
        simp only [List.mem_singleton] at hb
        subst hb; exact f1 e he
      · simp only [List.map_append, List.map_cons, List.map_nil]
        rw [List.nodup_append]
        refine ⟨h.nameNodup, by simp, ?_⟩
        intro a ha b hb
        simp only [List.mem_map] at ha
        obtain ⟨e, he, rfl⟩ := ha
        simp only [List.mem_singleton] at hb
        subst hb; exact f2 e he
      · intro k e
        simp only [Map.mem_insert, List.mem_append, List.mem_singleton, h.byNs_iff]
        constructor
        · rintro (⟨rfl, rfl⟩ | ⟨⟨he, rfl⟩, _⟩)
          · exact ⟨Or.inr rfl, rfl⟩
          · exact ⟨Or.inl he, rfl⟩
        · rintro ⟨he | rfl, rfl⟩
          · exact Or.inr ⟨⟨he, rfl⟩, f1 e he⟩
          · exact Or.inl ⟨rfl, rfl⟩
      · intro k e
        simp only [Map.mem_insert, List.mem_append, List.mem_singleton, h.byName_iff]
        constructor
        · rintro (⟨rfl, rfl⟩ | ⟨⟨he, rfl⟩, _⟩)
          · exact ⟨Or.inr rfl, rfl⟩
          · exact ⟨Or.inl he, rfl⟩
        · rintro ⟨he | rfl, rfl⟩
          · exact Or.inr ⟨⟨he, rfl⟩, f2 e he⟩
          · exact Or.inl ⟨rfl, rfl⟩
      · exact Map.keys_insert_nodup h.byNsKeys
      · exact Map.keys_insert_nodup h.byNameKeys

theorem inv_remove {s : State} (h : Inv s) (ns name : String) : Inv (remove s ns name) := by
  unfold remove
  constructor
  · exact (h.nsNodup.sublist (List.Sublist.map _ List.filter_sublist))
  · exact (h.nameNodup.sublist (List.Sublist.map _ List.filter_sublist))
  · intro k d
    simp only [purge_fst, h.byNs_iff, List.mem_filter, Bool.or_eq_true, beq_iff_eq,
      Bool.and_eq_true, bne_iff_ne, ne_eq]
    constructor
    · rintro ⟨⟨hd, rfl⟩, hm⟩
      refine ⟨⟨hd, ?_, ?_⟩, rfl⟩
      · intro hn; exact hm d ⟨hd, Or.inl hn⟩ rfl
      · intro hn; exact hm d ⟨hd, Or.inr hn⟩ rfl
    · rintro ⟨⟨hd, h1, h2⟩, rfl⟩
      refine ⟨⟨hd, rfl⟩, ?_⟩
      rintro m ⟨hm, hmm⟩ e
      have := eq_of_nodup_map h.nsNodup hd hm e
      subst this
      cases hmm with
      | inl x => exact h1 x
      | inr x => exact h2 x
  · intro k d
    simp only [purge_snd, h.byName_iff, List.mem_filter, Bool.or_eq_true, beq_iff_eq,
      Bool.and_eq_true, bne_iff_ne, ne_eq]
    constructor
    · rintro ⟨⟨hd, rfl⟩, hm⟩
      refine ⟨⟨hd, ?_, ?_⟩, rfl⟩
      · intro hn; exact hm d ⟨hd, Or.inl hn⟩ rfl
      · intro hn; exact hm d ⟨hd, Or.inr hn⟩ rfl
    · rintro ⟨⟨hd, h1, h2⟩, rfl⟩
      refine ⟨⟨hd, rfl⟩, ?_⟩
      rintro m ⟨hm, hmm⟩ e
      have := eq_of_nodup_map h.nameNodup hd hm e
      subst this
      cases hmm with
      | inl x => exact h1 x
      | inr x => exact h2 x
  · exact purge_fst_keys_nodup h.byNsKeys
  · exact purge_snd_keys_nodup h.byNameKeys

/-- Every operation preserves the invariant. -/
theorem inv_step {s : State} (h : Inv s) (op : Op) : Inv (step s op).1 := by
  cases op with
  | add d => exact inv_add h d
  | remove ns name => exact inv_remove h ns name
  | replace d => exact inv_add (inv_remove h _ _) d
  | clear => exact inv_init
  | deploy => exact ⟨h.nsNodup, h.nameNodup, h.byNs_iff, h.byName_iff, h.byNsKeys, h.byNameKeys⟩

/-- The invariant holds after every history. -/
theorem inv_reachable (ops : List Op) : Inv (run init ops) := by
  suffices ∀ s, Inv s → Inv (run s ops) from this init inv_init
  induction ops with
  | nil => intro s h; exact h
  | cons op ops ih => intro s h; exact ih _ (inv_step h op)

/-- The lookups by namespace and by name always describe the same set as the stored list. -/
theorem lookups_describe_list (ops : List Op) (k : String) (d : Def) :
    ((k, d) ∈ (run init ops).byNs ↔ d ∈ (run init ops).defs ∧ k = d.ns) ∧
    ((k, d) ∈ (run init ops).byName ↔ d ∈ (run init ops).defs ∧ k = d.name) :=
  ⟨(inv_reachable ops).byNs_iff k d, (inv_reachable ops).byName_iff k d⟩

/-! ## refinement of the abstract list -/

theorem step_refines {s : State} (h : Inv s) (op : Op) :
    (step s op).1.defs = (Spec.step s.defs op).1 ∧ (step s op).2 = (Spec.step s.defs op).2 := by
  have hadd : ∀ (s : State), Inv s → ∀ d, (add s d).1.defs = (Spec.add s.defs d).1 ∧ (add s d).2 = (Spec.add s.defs d).2 := by
    intro s h d
    unfold add Spec.add
    have e1 : s.byNs.contains d.ns = s.defs.any (fun e => e.ns == d.ns) := by
      rw [Bool.eq_iff_iff, contains_ns_iff h]; simp
    have e2 : s.byName.contains d.name = s.defs.any (fun e => e.name == d.name) := by
      rw [Bool.eq_iff_iff, contains_name_iff h]; simp
    rw [e1, e2]
    split
    · exact ⟨rfl, rfl⟩
    · split
      · exact ⟨rfl, rfl⟩
      · exact ⟨rfl, rfl⟩
  cases op with
  | add d => exact hadd s h d
  | remove ns name => exact ⟨rfl, rfl⟩
  | replace d =>
    have := hadd (remove s d.ns d.name) (inv_remove h _ _) d
    exact this
  | clear => exact ⟨rfl, rfl⟩
  | deploy => exact ⟨rfl, rfl⟩

/-- After any history the stored list is exactly what the abstract specification says. -/
theorem refines_spec (ops : List Op) : (run init ops).defs = Spec.run [] ops := by
  suffices ∀ s, Inv s → (run s ops).defs = Spec.run s.defs ops from this init inv_init
  induction ops with
  | nil => intro s _; rfl
  | cons op ops ih =>
    intro s h
    simp only [run, Spec.run]
    rw [ih _ (inv_step h op), (step_refines h op).1]

/-- Removal leaves no reservation behind: whatever was removed can be added again. -/
theorem no_stale_reservation {s : State} (h : Inv s) (ns name : String) (d : Def)
    (hns : d.ns = ns ∨ ∀ e ∈ s.defs, e.ns ≠ d.ns) (hname : d.name = name ∨ ∀ e ∈ s.defs, e.name ≠ d.name) :
    (add (remove s ns name) d).2 = .ok := by
  rw [add_iff_fresh (inv_remove h ns name)]
  intro e he
  simp only [remove, List.mem_filter, Bool.and_eq_true, bne_iff_ne, ne_eq] at he
  obtain ⟨he, h1, h2⟩ := he
  constructor
  · cases hns with
    | inl x => rw [x]; exact h1
    | inr x => exact x e he
  · cases hname with
    | inl x => rw [x]; exact h2
    | inr x => exact x e he

/-- `replace` always succeeds and leaves the new definition stored, substituted for
whatever had its namespace or its name. -/
theorem replace_ok {s : State} (h : Inv s) (d : Def) :
    (replace s d).2 = .ok ∧ d ∈ (replace s d).1.defs ∧
    ∀ e ∈ (replace s d).1.defs, e = d ∨ (e ∈ s.defs ∧ e.ns ≠ d.ns ∧ e.name ≠ d.name) := by
  have hok : (add (remove s d.ns d.name) d).2 = .ok :=
    no_stale_reservation h d.ns d.name d (Or.inl rfl) (Or.inl rfl)
  have hi := inv_remove h d.ns d.name
  have hfresh := (add_iff_fresh hi d).mp hok
  have h1 : ¬ (remove s d.ns d.name).byNs.contains d.ns = true := by
    rw [contains_ns_iff hi]; rintro ⟨e, he, hn⟩; exact (hfresh e he).1 hn
  have h2 : ¬ (remove s d.ns d.name).byName.contains d.name = true := by
    rw [contains_name_iff hi]; rintro ⟨e, he, hn⟩; exact (hfresh e he).2 hn
  unfold replace
  rw [add_fresh h1 h2]
  refine ⟨rfl, by simp, ?_⟩
  intro e he
  simp only [List.mem_append, List.mem_singleton] at he
  cases he with
  | inr x => exact Or.inl x
  | inl x =>
    right
    simp only [remove, List.mem_filter, Bool.and_eq_true, bne_iff_ne, ne_eq] at x
    exact ⟨x.1, x.2.1, x.2.2⟩

/-! ## evaluation -/

/-- After a deploy exactly the stored models that build can be evaluated: a model that
fails to build does not prevent the others from being deployed. -/
theorem deploy_skips_failures (s : State) (m : String) :
    canEvaluate (deploy s) m = true ↔ ∃ d ∈ s.defs, d.builds = true ∧ d.name = m := by
  simp [canEvaluate, deploy, deployLoop_mem]

theorem evals_add (s : State) (d : Def) (m : String) :
    m ∈ (add s d).1.evals ↔ (add s d).2 ≠ .ok ∧ m ∈ s.evals := by
  by_cases h1 : s.byNs.contains d.ns = true
  · rw [add_ns h1]; simp
  · by_cases h2 : s.byName.contains d.name = true
    · rw [add_name h1 h2]; simp
    · rw [add_fresh h1 h2]; simp

theorem evals_step (s : State) (op : Op) (m : String) :
    m ∈ (step s op).1.evals ↔
      match op with
      | .deploy => ∃ d ∈ s.defs, d.builds = true ∧ d.name = m
      | .add d => (add s d).2 ≠ .ok ∧ m ∈ s.evals
      | _ => False := by
  cases op with
  | deploy => simp [step, deploy, deployLoop_mem]
  | add d => exact evals_add s d m
  | remove ns name => simp [step, remove]
  | clear => simp [step, clear, init]
  | replace d =>
    simp only [step, replace, evals_add]
    simp [remove]

/-- Evaluation is possible exactly for the models that were present at the last deploy and
built successfully, no modification having happened since (for every history). -/
theorem eval_iff_deployed (ops : List Op) (m : String) :
    canEvaluate (run init ops) m = true ↔ m ∈ Spec.evaluable [] [] ops := by
  suffices ∀ s ev, Inv s → (∀ m, m ∈ s.evals ↔ m ∈ ev) →
      (m ∈ (run s ops).evals ↔ m ∈ Spec.evaluable s.defs ev ops) by
    have h := this init [] inv_init (by simp [init])
    have e : init.defs = [] := rfl
    rw [e] at h
    simpa [canEvaluate] using h
  induction ops with
  | nil => intro s ev _ h; exact h m
  | cons op ops ih =>
    intro s ev hi hev
    have hr := step_refines hi op
    have hin := inv_step hi op
    cases op with
    | deploy =>
      have e : Spec.evaluable s.defs ev (.deploy :: ops)
          = Spec.evaluable (step s .deploy).1.defs ((s.defs.filter (·.builds)).map (·.name)) ops := rfl
      rw [e]
      apply ih _ _ hin
      intro m'
      rw [evals_step]
      simp only [List.mem_map, List.mem_filter]
      constructor
      · rintro ⟨d, hd, hb, rfl⟩; exact ⟨d, ⟨hd, hb⟩, rfl⟩
      · rintro ⟨d, ⟨hd, hb⟩, rfl⟩; exact ⟨d, hd, hb, rfl⟩
    | add d =>
      have hd : (step s (.add d)).1.defs = (Spec.add s.defs d).1 := hr.1
      have hres : (add s d).2 = (Spec.add s.defs d).2 := hr.2
      have e : Spec.evaluable s.defs ev (.add d :: ops)
          = Spec.evaluable (Spec.add s.defs d).1 (if (Spec.add s.defs d).2 = .ok then [] else ev) ops := by
        simp only [Spec.evaluable]
        cases hsp : Spec.add s.defs d with
        | mk l' r => cases r <;> simp
      rw [e, ← hd]
      apply ih _ _ hin
      intro m'
      rw [evals_step]
      simp only [hres]
      by_cases hk : (Spec.add s.defs d).2 = .ok
      · simp [hk]
      · simp [hk, hev]
    | remove ns name =>
      have e : Spec.evaluable s.defs ev (.remove ns name :: ops)
          = Spec.evaluable (Spec.step s.defs (.remove ns name)).1 [] ops := rfl
      rw [e, ← hr.1]
      apply ih _ _ hin
      intro m'; rw [evals_step]; simp
    | clear =>
      have e : Spec.evaluable s.defs ev (.clear :: ops)
          = Spec.evaluable (Spec.step s.defs .clear).1 [] ops := rfl
      rw [e, ← hr.1]
      apply ih _ _ hin
      intro m'; rw [evals_step]; simp
    | replace d =>
      have e : Spec.evaluable s.defs ev (.replace d :: ops)
          = Spec.evaluable (Spec.step s.defs (.replace d)).1 [] ops := rfl
      rw [e, ← hr.1]
      apply ih _ _ hin
      intro m'; rw [evals_step]; simp

/-! ## non-vacuity: a two-model history that exercises the cross-key removal -/

example :
    let a : Def := ⟨"nsA", "nA", true⟩
    let b : Def := ⟨"nsB", "nB", true⟩
    let s := run init [.add a, .add b, .remove "nsA" "nB"]
    s.defs = [] ∧ (add s ⟨"nsC", "nA", true⟩).2 = .ok ∧ (add s ⟨"nsB", "nD", false⟩).2 = .ok := by
  decide

end Dmn.WS
