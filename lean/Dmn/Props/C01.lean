import Dmn.Lemmas.EvalM
import Dmn.Lemmas.Ops
import Dmn.Props.C13
import Dmn.Lemmas.Iter
import Dmn.Lemmas.EvalSpec
import Dmn.Lemmas.EvalSemFuel
import Dmn.Lemmas.EvalSemScope
import Dmn.Lemmas.EvalSemLoops
import Dmn.Lemmas.EvalSemInvoke
import Dmn.Lemmas.EvalSemOps
import Dmn.Lemmas.EvalSemMore
import Dmn.Lemmas.EvalFree
import Dmn.Lemmas.EvalBinders
import Dmn.Lemmas.EvalFreeSyn
import Dmn.Gen.EvalSources

/-!
# C01 — FEEL core expressions evaluate to the value the FEEL semantics assigns

The model `Dmn.Eval.eval` mirrors `builders.rs` closure by closure (tied to the code by the
correspondence check); `Dmn.Eval.den` is the same evaluator over the *declarative* iteration
(`Iter.product`: full cartesian product in declaration order, empty if a domain is empty,
inner variables shadow outer ones) and the declarative filter index (any integral number).
The theorems below state, construct by construct, which value the model assigns — in terms
of the values of the sub-expressions, not of the code — for all expressions and scopes.
-/

namespace Dmn.Eval
open EvalM Value

variable (env : Env)

/-- Names resolve top-down: the top context shadows the contexts below it. -/
theorem scope_lookup_top_down (s : Scope) (c : Ctx) (k : String) :
    Scope.getEntry (s ++ [c]) k = (match Ctx.get c k with
      | some v => some v
      | none => Scope.getEntry s k) := by
  simp only [Scope.getEntry, List.reverse_append, List.reverse_cons, List.reverse_nil,
    List.nil_append, List.cons_append, List.findSome?_cons]
  cases Ctx.get c k <;> rfl

/-- A name evaluates to its innermost binding, else to the built-in function of that
name, else to null. -/
theorem name_spec (n : String) (s : Scope) :
    evalStep env (.name n) s = .ok ((match Scope.getEntry s n with
      | some v => v
      | none => if isBifName n then .bif n else .null), s) := by
  simp only [evalStep, bind_def, getEntry, pure_def]
  cases Scope.getEntry s n <;> rfl

/-- `if c then t else e`: `t` when `c` is true, `e` when `c` is false **or null**, null
otherwise; only the selected branch is evaluated. -/
theorem if_spec (c t e : Ast) (s : Scope) (cv : Value) (h : evalStep env c s = .ok (cv, s)) :
    evalStep env (.if c t e) s =
      (match cv with
        | .bool true => evalStep env t s
        | .bool false => evalStep env e s
        | .null => evalStep env e s
        | _ => .ok (.null, s)) := by
  simp only [evalStep, bind_def, h]
  cases cv <;> simp [ifBranch, pure_def]
  rename_i b; cases b <;> rfl

/-- A `for` over a range whose ends do not both convert to integers (`1.5..3`, `"a"..3`) has
no value: the result is null, whatever the other iteration contexts and the body are
(repaired by 95b3835; before, the range was left out and the result was a list). -/
theorem for_range_not_integers_null (n : String) (lo hi body : Ast) (rest : List Ast) (s : Scope) (a b : Value)
    (ha : evalStep env lo s = .ok (a, s)) (hb : evalStep env hi s = .ok (b, s))
    (h : rangeState n a b = none) :
    evalStep env (.for (.iterationContexts (.iterationContextRange (.name n) lo hi :: rest)) body) s
      = .ok (.null, s) := by
  simp only [evalStep, evalIteration, bind_def, ha, hb, h, pure_def]

example : rangeState "i" (.num ⟨false, 15, -1⟩) (.num ⟨false, 3, 0⟩) = none := by decide
example : (rangeState "i" (.num ⟨false, 10, -1⟩) (.num ⟨false, 300, -2⟩)).isSome = true := by decide

/-- `and` / `or` evaluate both operands (no short circuit) and combine them by the
three-valued tables of C09. -/
theorem and_spec (a b : Ast) (s : Scope) (va vb : Value)
    (ha : evalStep env a s = .ok (va, s)) (hb : evalStep env b s = .ok (vb, s)) :
    evalStep env (.and a b) s = .ok (and3 va vb, s) := by
  simp only [evalStep, bind_def, ha, hb, pure_def]

theorem or_spec (a b : Ast) (s : Scope) (va vb : Value)
    (ha : evalStep env a s = .ok (va, s)) (hb : evalStep env b s = .ok (vb, s)) :
    evalStep env (.or a b) s = .ok (or3 va vb, s) := by
  simp only [evalStep, bind_def, ha, hb, pure_def]

/-- A list literal evaluates its items left to right. -/
theorem list_spec (a b : Ast) (s : Scope) (va vb : Value)
    (ha : evalStep env a s = .ok (va, s)) (hb : evalStep env b s = .ok (vb, s)) :
    evalStep env (.list [a, b]) s = .ok (.list [va, vb], s) := by
  simp only [evalStep, evalList, bind_def, ha, hb, pure_def]

/-- In a context literal an entry sees the entries before it: the second entry is
evaluated in the scope extended by a context holding the first. -/
theorem context_entries_see_earlier (k1 k2 : String) (e1 e2 : Ast) (s : Scope) (v1 v2 : Value)
    (hk : k1 ≠ k2)
    (h1 : evalStep env e1 (s ++ [[]]) = .ok (v1, s ++ [[]]))
    (h2 : evalStep env e2 (s ++ [Ctx.set [] k1 v1]) = .ok (v2, s ++ [Ctx.set [] k1 v1])) :
    evalStep env (.context [.contextEntry (.contextEntryKey k1) e1,
                            .contextEntry (.contextEntryKey k2) e2]) s =
      .ok (.ctx (Ctx.set (Ctx.set [] k1 v1) k2 v2), s) := by
  have hc1 : Ctx.contains [] k1 = false := rfl
  have hc2 : Ctx.contains (Ctx.set [] k1 v1) k2 = false := by
    rw [contains_set]; simp [hk, Ctx.contains, Ctx.get]
  simp only [evalStep, evalContextEntries, bind_def, push, pop, setEntry, pure_def, Scope.push,
    contextEntryV, h1, setEntry_append, h2, hc1, hc2, Bool.false_eq_true, if_false, ctxResult]
  simp [Scope.pop]

example : ("a" : String) ≠ "b" := by decide

/-- A numeric filter index on a list is 1-based, negative from the end, null outside
(specification variant of the index rule). -/
theorem index_spec (values : List Value) (n : Nat) (h : 1 ≤ n ∧ n ≤ values.length) :
    Variant.spec.index values (Dec.ofNat n) = (values[n - 1]?).getD .null := by
  simp only [Variant.spec, Dec.toInt?, Dec.ofNat, Dec.scoeff]
  have h' : (1 : Int) ≤ (n : Int) ∧ (n : Int) ≤ (values.length : Int) := by omega
  simp only [ge_iff_le, Int.le_refl, if_true, Bool.false_eq_true, if_false, Int.toNat_zero,
    Int.pow_zero, Int.mul_one, h', and_self]
  congr 2
  omega

theorem Dec.cmp_self (d : Dec) : Dec.cmp d d = .eq := by
  simp only [Dec.cmp, Dec.align]
  exact Std.ReflCmp.compare_self

/-- truncation leaves the value unchanged exactly when there are no fraction digits -/
theorem Dec.trunc_cmp_eq (d : Dec) (h : d.exp < 0) :
    (Dec.cmp (Dec.trunc d) d == .eq) = (d.coeff % 10 ^ (-d.exp).toNat == 0) := by
  have hk : ¬ d.exp ≥ 0 := by omega
  simp only [Dec.trunc, hk, if_false, Dec.cmp, Dec.align, Dec.scoeff]
  have hmin : min (0 : Int) d.exp = d.exp := by omega
  simp only [hmin, Int.sub_self, Int.toNat_zero, Int.pow_zero, Int.mul_one]
  have he : (0 - d.exp).toNat = (-d.exp).toNat := by congr 1; omega
  rw [he]
  generalize (-d.exp).toNat = k
  have hp : 0 < 10 ^ k := Nat.pow_pos (by decide)
  generalize hq : 10 ^ k = p at hp
  have hdm := Nat.div_add_mod d.coeff p
  have hml : d.coeff % p < p := Nat.mod_lt _ hp
  have hcast : ((10 : Int) ^ k) = (p : Int) := by rw [← hq]; simp
  rw [hcast]
  rw [Bool.eq_iff_iff]
  simp only [beq_iff_eq, Dmn.Int.compare_eq_iff']
  generalize hqq : d.coeff / p = q at hdm
  have hmul : p * q = q * p := Nat.mul_comm _ _
  have hint : ((q : Int) * (p : Int)) = ((q * p : Nat) : Int) := by simp
  cases d.neg
  · simp only [Bool.false_eq_true, if_false]
    rw [hint]
    constructor
    · intro h1; have : q * p = d.coeff := by exact_mod_cast h1
      omega
    · intro h1; have : q * p = d.coeff := by omega
      exact_mod_cast this
  · simp only [if_true]
    rw [Int.neg_mul, hint]
    constructor
    · intro h1; have : q * p = d.coeff := by
        have := Int.neg_inj.mp h1
        exact_mod_cast this
      omega
    · intro h1; have : q * p = d.coeff := by omega
      rw [this]

/-- **The filter index rule of the code is the semantic one** — for every number and every
list (shorter than `usize::MAX`): an index is any number with an integral value, 1-based from
the front, negative from the end, null outside. -/
theorem index_code_eq_spec (values : List Value) (d : Dec) (hlen : values.length < 2 ^ 64) :
    Variant.code.index values d = Variant.spec.index values d := by
  simp only [Variant.code, Variant.spec, filterIndex]
  by_cases he : d.exp ≥ 0
  · -- no fraction digits: the number is its own truncation
    have ht : Dec.trunc d = d := by simp [Dec.trunc, he]
    rw [ht, Dec.cmp_self]
    simp only [beq_self_eq_true, if_true, Dec.toInt?, he, Dec.isNegative, Dec.toUsize?, Dec.abs, Dec.scoeff]
    have hne : ¬ d.exp < 0 := by omega
    simp only [hne, if_false]
    obtain ⟨V, hV⟩ : ∃ V, d.coeff * 10 ^ d.exp.toNat = V := ⟨_, rfl⟩
    have hcast : ((d.coeff : Int) * (10 : Int) ^ d.exp.toNat) = (V : Int) := by
      rw [← hV]; simp
    cases hneg : d.neg
    · simp only [Bool.false_and, Bool.not_false, if_true, Bool.false_eq_true, if_false, hcast, hV]
      by_cases hv : V < 2 ^ 64
      · simp only [hv, if_true]
        by_cases h1 : V > 0 ∧ V ≤ values.length
        · have h' : (1 : Int) ≤ (V : Int) ∧ (V : Int) ≤ (values.length : Int) := by omega
          rw [if_pos h1, if_pos h']; congr 2; omega
        · have h' : ¬ ((1 : Int) ≤ (V : Int) ∧ (V : Int) ≤ (values.length : Int)) := by omega
          have h2 : ¬ (-(values.length : Int) ≤ (V : Int) ∧ (V : Int) ≤ -1) := by omega
          rw [if_neg h1, if_neg h', if_neg h2]
      · simp only [hv, if_false]
        have h' : ¬ ((1 : Int) ≤ (V : Int) ∧ (V : Int) ≤ (values.length : Int)) := by omega
        have h2 : ¬ (-(values.length : Int) ≤ (V : Int) ∧ (V : Int) ≤ -1) := by omega
        rw [if_neg h', if_neg h2]
    · simp only [Bool.true_and, if_true, Int.neg_mul, hcast, hV]
      by_cases hc : d.coeff = 0
      · have hV0 : V = 0 := by rw [← hV, hc]; simp
        subst hV0
        simp [hc]
      · have hcb : (d.coeff != 0) = true := by simpa using hc
        have hVpos : V > 0 := by
          rw [← hV]; exact Nat.mul_pos (Nat.pos_of_ne_zero hc) (Nat.pow_pos (by decide))
        simp only [hcb, Bool.not_true, Bool.false_eq_true, if_false]
        by_cases hv : V < 2 ^ 64
        · simp only [hv, if_true]
          have h' : ¬ ((1 : Int) ≤ -(V : Int) ∧ -(V : Int) ≤ (values.length : Int)) := by omega
          by_cases h1 : V > 0 ∧ V ≤ values.length
          · have h2 : (-(values.length : Int) ≤ -(V : Int) ∧ -(V : Int) ≤ -1) := by omega
            rw [if_pos h1, if_neg h', if_pos h2]; congr 2; omega
          · have h2 : ¬ (-(values.length : Int) ≤ -(V : Int) ∧ -(V : Int) ≤ -1) := by omega
            rw [if_neg h1, if_neg h', if_neg h2]
        · simp only [hv, if_false]
          have h' : ¬ ((1 : Int) ≤ -(V : Int) ∧ -(V : Int) ≤ (values.length : Int)) := by omega
          have h2 : ¬ (-(values.length : Int) ≤ -(V : Int) ∧ -(V : Int) ≤ -1) := by omega
          rw [if_neg h', if_neg h2]
  · -- fraction digits: integral exactly when they are all zero
    have hlt : d.exp < 0 := by omega
    rw [Dec.trunc_cmp_eq d hlt]
    simp only [Dec.toInt?, he, if_false]
    by_cases hm : d.coeff % 10 ^ (-d.exp).toNat = 0
    · have hmb : (d.coeff % 10 ^ (-d.exp).toNat == 0) = true := by simpa using hm
      simp only [hmb, if_true, Dec.trunc, he, if_false, Dec.isNegative, Dec.toUsize?, Dec.abs]
      obtain ⟨V, hV⟩ : ∃ V, d.coeff / 10 ^ (-d.exp).toNat = V := ⟨_, rfl⟩
      simp only [hV]
      have h00 : ¬ ((0 : Int) < 0) := by omega
      simp only [h00, if_false, Int.toNat_zero, Nat.pow_zero, Nat.mul_one]
      cases hneg : d.neg
      · simp only [Bool.false_and, Bool.not_false, if_true, Bool.false_eq_true, if_false]
        by_cases hv : V < 2 ^ 64
        · simp only [hv, if_true]
          by_cases h1 : V > 0 ∧ V ≤ values.length
          · have h' : (1 : Int) ≤ (V : Int) ∧ (V : Int) ≤ (values.length : Int) := by omega
            rw [if_pos h1, if_pos h']; congr 2; omega
          · have h' : ¬ ((1 : Int) ≤ (V : Int) ∧ (V : Int) ≤ (values.length : Int)) := by omega
            have h2 : ¬ (-(values.length : Int) ≤ (V : Int) ∧ (V : Int) ≤ -1) := by omega
            rw [if_neg h1, if_neg h', if_neg h2]
        · simp only [hv, if_false]
          have h' : ¬ ((1 : Int) ≤ (V : Int) ∧ (V : Int) ≤ (values.length : Int)) := by omega
          have h2 : ¬ (-(values.length : Int) ≤ (V : Int) ∧ (V : Int) ≤ -1) := by omega
          rw [if_neg h', if_neg h2]
      · simp only [Bool.true_and, if_true]
        by_cases hc : V = 0
        · subst hc; simp
        · have hcb : (V != 0) = true := by simpa using hc
          have hVpos : V > 0 := Nat.pos_of_ne_zero hc
          simp only [hcb, Bool.not_true, Bool.false_eq_true, if_false]
          by_cases hv : V < 2 ^ 64
          · simp only [hv, if_true]
            have h' : ¬ ((1 : Int) ≤ -(V : Int) ∧ -(V : Int) ≤ (values.length : Int)) := by omega
            by_cases h1 : V > 0 ∧ V ≤ values.length
            · have h2 : (-(values.length : Int) ≤ -(V : Int) ∧ -(V : Int) ≤ -1) := by omega
              rw [if_pos h1, if_neg h', if_pos h2]; congr 2; omega
            · have h2 : ¬ (-(values.length : Int) ≤ -(V : Int) ∧ -(V : Int) ≤ -1) := by omega
              rw [if_neg h1, if_neg h', if_neg h2]
          · simp only [hv, if_false]
            have h' : ¬ ((1 : Int) ≤ -(V : Int) ∧ -(V : Int) ≤ (values.length : Int)) := by omega
            have h2 : ¬ (-(values.length : Int) ≤ -(V : Int) ∧ -(V : Int) ≤ -1) := by omega
            rw [if_neg h', if_neg h2]
    · have hmb : (d.coeff % 10 ^ (-d.exp).toNat == 0) = false := by simpa using hm
      simp [hmb]

/-- The repaired case: `5 + 5` is `1E+1`; it selects the tenth element. -/
example :
    Variant.code.index [.null, .null, .null, .null, .null, .null, .null, .null, .null, .bool true]
        ⟨false, 1, 1⟩ = .bool true := by rfl

end Dmn.Eval


/-!
## The iteration engine visits exactly the cartesian product

`Iter.run` is the literal transcription of `FeelIterator::run` (reversed state list, persistent
iteration context filled outermost variable first, increment with carry, fuel).  For states as
the evaluator creates them (`Iter.Fresh`: a non-empty list, or a range between two `isize`
values) it returns — without running out of fuel — the contexts of the declarative product
`Iter.product`: first state outermost, in order, an inner variable shadowing an outer one of
the same name.  Lemmas in `Dmn/Lemmas/Iter.lean`.
-/

namespace Dmn.Iter

/-- The empty iterator calls the handler never (while the empty product is `[[]]`). -/
theorem run_nil : run [] = .ok [] := rfl

/-- **Main theorem.** On a non-empty list of `Fresh` states the state machine visits the full
cartesian product, first state outermost, in order; `fuelFor` suffices (never `.diverge`), and
it never panics.  No assumption on the names: with the outermost-first `fill`, an inner variable
overwrites an outer one of the same name, exactly as `product` prescribes. -/
theorem run_eq_product (states : List State) (hne : states ≠ [])
    (hfresh : ∀ st ∈ states, Fresh st) : run states = .ok (product states) :=
  run_eq_product_of_good states hne (fun st h => good_of_fresh st (hfresh st h))

/-- With pairwise distinct names it does not matter which variable wins a name clash. -/
theorem productOuterWins_eq_product (states : List State)
    (hnd : (states.map (fun st => st.name)).Nodup) : productOuterWins states = product states := by
  induction states with
  | nil => rfl
  | cons st rest ih =>
    simp only [List.map_cons, List.nodup_cons] at hnd
    simp only [productOuterWins, product, ← ih hnd.2]
    apply flatMap_congr_mem
    intro v _
    apply List.map_congr_left
    intro c hc
    have : Ctx.contains c st.name = false := by
      cases h : Ctx.contains c st.name with
      | false => rfl
      | true => exact absurd (contains_productOuterWins rest c st.name hc h) hnd.1
    simp [this]

theorem run_eq_productOuterWins (states : List State) (hne : states ≠ [])
    (hfresh : ∀ st ∈ states, Fresh st) (hnd : (states.map (fun st => st.name)).Nodup) :
    run states = .ok (productOuterWins states) := by
  rw [productOuterWins_eq_product states hnd]
  exact run_eq_product states hne hfresh

/-- The number of iterations is the product of the domain sizes. -/
theorem product_length (states : List State) :
    (product states).length =
      (states.map (fun st => (domain st).length)).foldl (· * ·) 1 := by
  induction states with
  | nil => rfl
  | cons st rest ih =>
    rw [product_length_cons, ih, List.map_cons, List.foldl_cons, foldl_mul _ (1 * _), Nat.one_mul]

/-- An empty domain empties the whole product. -/
theorem product_eq_nil_of_domain_nil (states : List State)
    (h : ∃ st ∈ states, domain st = []) : product states = [] := by
  induction states with
  | nil => obtain ⟨_, hm, _⟩ := h; cases hm
  | cons st rest ih =>
    obtain ⟨t, hm, ht⟩ := h
    rcases List.mem_cons.mp hm with rfl | hm
    · simp [product, ht]
    · simp [product, ih ⟨t, hm, ht⟩]

/-- Conversely the product of non-empty domains is non-empty. -/
theorem product_eq_nil_iff (states : List State) :
    product states = [] ↔ ∃ st ∈ states, domain st = [] := by
  constructor
  · intro h
    induction states with
    | nil => simp [product] at h
    | cons st rest ih =>
      have hl := product_length_cons st rest
      rw [h, List.length_nil] at hl
      rcases Nat.mul_eq_zero.mp hl.symm with h0 | h0
      · exact ⟨st, List.mem_cons_self, List.length_eq_zero_iff.mp h0⟩
      · obtain ⟨t, hm, ht⟩ := ih (List.length_eq_zero_iff.mp h0)
        exact ⟨t, List.mem_cons_of_mem _ hm, ht⟩
  · exact product_eq_nil_of_domain_nil states

/-- The machine performs exactly `∏ |domain|` iterations. -/
theorem run_length (states : List State) (hne : states ≠ [])
    (hfresh : ∀ st ∈ states, Fresh st) :
    ∃ cs, run states = .ok cs ∧
      cs.length = (states.map (fun st => (domain st).length)).foldl (· * ·) 1 :=
  ⟨product states, run_eq_product states hne hfresh, product_length states⟩

/-- Non-vacuity: a concrete two-state list satisfies the hypotheses. -/
example :
    run [mkRange "i" 1 2, mkList "x" [.null, .bool true]] =
      .ok (product [mkRange "i" 1 2, mkList "x" [.null, .bool true]]) := by
  apply run_eq_product
  · simp
  · intro st hst
    simp only [List.mem_cons, List.not_mem_nil, or_false] at hst
    rcases hst with rfl | rfl
    · apply Fresh.range <;> simp only [i64Min, i64Max] <;> omega
    · apply Fresh.list
      · simp
      · simp only [i64Max, List.length_cons, List.length_nil]; omega

end Dmn.Iter

namespace Dmn.Eval

/-- States tagged with strictly increasing declaration positions are already in declared order. -/
theorem foldr_insertByPos_of_sorted (ts : List (Nat × Iter.State))
    (h : ts.Pairwise (fun x y => x.1 < y.1)) : ts.foldr insertByPos [] = ts :=
  Iter.insert_sorted insertByPos (fun _ => rfl) (fun _ _ _ => rfl) ts h

theorem mem_insertByPos (x y : Nat × Iter.State) (ys : List (Nat × Iter.State)) :
    y ∈ insertByPos x ys ↔ y = x ∨ y ∈ ys := by
  induction ys with
  | nil => simp [insertByPos]
  | cons z zs ih =>
    simp only [insertByPos]
    split
    · simp
    · simp only [List.mem_cons, ih]
      constructor
      · rintro (h | h | h)
        · exact Or.inr (Or.inl h)
        · exact Or.inl h
        · exact Or.inr (Or.inr h)
      · rintro (h | h | h)
        · exact Or.inr (Or.inl h)
        · exact Or.inl h
        · exact Or.inr (Or.inr h)

/-- The code's iteration (`FeelIterator::run` on the states as added) agrees with the FEEL
semantics (`Iter.product` in declaration order) on states that are added in declaration order. -/
theorem code_iter_eq_spec_iter (ts : List (Nat × Iter.State)) (hne : ts ≠ [])
    (hfresh : ∀ t ∈ ts, Iter.Fresh t.2) (hord : ts.foldr insertByPos [] = ts) :
    Variant.code.iter ts = Variant.spec.iter ts := by
  simp only [Variant.code, Variant.spec, hord]
  apply Iter.run_eq_product
  · cases ts with
    | nil => exact absurd rfl hne
    | cons _ _ => simp
  · intro st hst
    obtain ⟨t, ht, rfl⟩ := List.mem_map.mp hst
    exact hfresh t ht

theorem code_iter_eq_spec_iter_of_sorted (ts : List (Nat × Iter.State)) (hne : ts ≠ [])
    (hfresh : ∀ t ∈ ts, Iter.Fresh t.2) (hord : ts.Pairwise (fun x y => x.1 < y.1)) :
    Variant.code.iter ts = Variant.spec.iter ts :=
  code_iter_eq_spec_iter ts hne hfresh (foldr_insertByPos_of_sorted ts hord)

/-- Independently of the order in which the states were added, the machine run on the states
in declaration order is the specification. -/
theorem declaredOrder_iter_eq_spec_iter (ts : List (Nat × Iter.State)) (hne : ts ≠ [])
    (hfresh : ∀ t ∈ ts, Iter.Fresh t.2) :
    Variant.declaredOrder.iter ts = Variant.spec.iter ts := by
  have hmem : ∀ (l : List (Nat × Iter.State)) (y : Nat × Iter.State),
      y ∈ l.foldr insertByPos [] ↔ y ∈ l := by
    intro l y
    induction l with
    | nil => simp
    | cons x xs ih => rw [List.foldr_cons, mem_insertByPos, ih, List.mem_cons]
  simp only [Variant.declaredOrder, Variant.spec]
  apply Iter.run_eq_product
  · cases ts with
    | nil => exact absurd rfl hne
    | cons t rest =>
      intro h
      have : t ∈ (t :: rest).foldr insertByPos [] := (hmem _ t).mpr List.mem_cons_self
      rw [List.map_eq_nil_iff.mp h] at this
      cases this
  · intro st hst
    obtain ⟨t, ht, rfl⟩ := List.mem_map.mp hst
    exact hfresh t ((hmem ts t).mp ht)

/-! ## the model of the code *is* the FEEL semantics (inside the envelope of a real machine) -/

/-- Inside the envelope — non-empty state lists in declaration order built by `add_range` /
`add_list` from lists of at most 2⁶³ items, filter lists shorter than 2⁶⁴ — the two variation
points of the evaluator coincide. -/
theorem guard_code_eq_guard_spec : Variant.guard Variant.code = Variant.guard Variant.spec := by
  have hiter : (Variant.guard Variant.code).iter = (Variant.guard Variant.spec).iter := by
    funext ts
    simp only [Variant.guard]
    by_cases h : IterEnvelope ts
    · rw [if_pos h, if_pos h]
      exact code_iter_eq_spec_iter_of_sorted ts h.nonempty
        (fun t ht => Iter.fresh_of_shaped t.2 (h.shaped t ht) (h.small t ht))
        (pairwise_of_sortedPos ts h.sorted)
    · rw [if_neg h, if_neg h]
  have hindex : (Variant.guard Variant.code).index = (Variant.guard Variant.spec).index := by
    funext vs d
    simp only [Variant.guard]
    by_cases h : vs.length < 2 ^ 64
    · rw [if_pos h, if_pos h]; exact index_code_eq_spec vs d h
    · rw [if_neg h, if_neg h]
  cases hc : Variant.guard Variant.code with
  | mk i1 x1 =>
    cases hs : Variant.guard Variant.spec with
    | mk i2 x2 =>
      rw [hc] at hiter hindex
      rw [hs] at hiter hindex
      simp only at hiter hindex
      rw [hiter, hindex]

/-- **`eval = den`.** The model of the code and the FEEL semantics assign the same outcome —
value, scope afterwards, panic or divergence — to every syntax tree in every scope, for every
fuel, every number arithmetic and every table of built-ins, as long as no list of more than
2⁶³ items is iterated over and no list of 2⁶⁴ or more items is indexed (outside that envelope
both are replaced by the same placeholder; a `Vec` cannot be that long). The structural part of
the envelope is not an assumption: `evalIteration_shaped` / `evalQuantified_shaped` show that
the evaluator only ever hands sorted, well-shaped state lists to the iteration engine. -/
theorem evalWith_guard_code_eq_spec (num : NumOps) (bifPos : String → List Value → Outcome Value)
    (bifNamed : String → List (String × Value × Nat) → Outcome Value) (fuel : Nat) (a : Ast) :
    evalWith (Variant.guard Variant.code) num bifPos bifNamed fuel a =
      evalWith (Variant.guard Variant.spec) num bifPos bifNamed fuel a := by
  rw [guard_code_eq_guard_spec]

/-- Inside the envelope the guard is the identity: for a `for` over two short lists the guarded
code variant runs the state machine itself. -/
example : (Variant.guard Variant.code).iter
      [(0, Iter.mkList "x" [.num ⟨false, 1, 0⟩, .num ⟨false, 2, 0⟩]), (1, Iter.mkRange "i" 1 3)] =
    Variant.code.iter [(0, Iter.mkList "x" [.num ⟨false, 1, 0⟩, .num ⟨false, 2, 0⟩]), (1, Iter.mkRange "i" 1 3)] := by
  apply guard_iter_inside
  refine ⟨by simp, by decide, ?_, ?_⟩
  · intro t ht
    rcases List.mem_cons.mp ht with rfl | ht
    · exact Iter.Shaped.list _ _ (by simp)
    · rcases List.mem_cons.mp ht with rfl | ht
      · exact Iter.Shaped.range _ _ _ (by decide) (by decide) (by decide) (by decide)
      · cases ht
  · intro t ht
    rcases List.mem_cons.mp ht with rfl | ht
    · simp [Iter.mkList, Iter.i64Max]
    · rcases List.mem_cons.mp ht with rfl | ht
      · simp [Iter.mkRange, Iter.i64Max]
      · cases ht

end Dmn.Eval


/-!
## The compositional semantics, construct by construct

Each theorem relates the evaluation of a construct to the evaluations of its parts, for all
sub-expressions, scopes and environments (`env` is arbitrary: the theorems hold of the model of
the code `eval`, of the specification `den`, at every fuel).  A hypothesis
`evalStep env a s = .ok (v, s)` says that the part returns `v`; that it leaves the scope alone is
not an assumption on the code (C13 proves it of every evaluation).
-/

namespace Dmn.Eval
open EvalM Value

variable (env : Env)

/-! ### arithmetic, comparison, negation -/

/-- The binary arithmetic operators evaluate both operands, left first, and apply the
operator's table (`addV` … `expV`). -/
theorem arith_spec (a b : Ast) (s : Scope) (va vb : Value)
    (ha : evalStep env a s = .ok (va, s)) (hb : evalStep env b s = .ok (vb, s)) :
    evalStep env (.add a b) s = .ok (addV env.num va vb, s) ∧
    evalStep env (.sub a b) s = .ok (subV env.num va vb, s) ∧
    evalStep env (.mul a b) s = .ok (mulV env.num va vb, s) ∧
    evalStep env (.div a b) s = .ok (divV env.num va vb, s) ∧
    evalStep env (.exp a b) s = .ok (expV env.num va vb, s) := by
  refine ⟨?_, ?_, ?_, ?_, ?_⟩ <;> simp only [evalStep, bind_def, ha, hb, pure_def]

/-- On two numbers the operators are the operations of the number arithmetic (`NumOps`: the
correctly rounded decimal128 of C02 in the driver); division by zero is null. -/
theorem arith_num_spec (n : NumOps) (x y : Dec) :
    addV n (.num x) (.num y) = numR (n.add x y) ∧
    subV n (.num x) (.num y) = numR (n.sub x y) ∧
    mulV n (.num x) (.num y) = numR (n.mul x y) ∧
    divV n (.num x) (.num y) = (if y.coeff == 0 then .null else numR (n.div x y)) ∧
    expV n (.num x) (.num y) = (match n.pow x y with
      | some (some d) => .num d
      | some none => .null
      | none => unsupported) := ⟨rfl, rfl, rfl, rfl, rfl⟩

/-- `*`, `/`, `**` are defined on two numbers only; everything else is null (`+` and `-` also
join strings and durations: `addV`, `subV`). -/
theorem arith_not_numbers_null (n : NumOps) (l r : Value) (h : ∀ x y, l = .num x → r = .num y → False) :
    mulV n l r = .null ∧ divV n l r = .null ∧ expV n l r = .null := by
  refine ⟨?_, ?_, ?_⟩
  · unfold mulV; split
    · exact (h _ _ rfl rfl).elim
    · rfl
  · unfold divV; split
    · exact (h _ _ rfl rfl).elim
    · rfl
  · unfold expV; split
    · exact (h _ _ rfl rfl).elim
    · rfl

theorem neg_spec (a : Ast) (s : Scope) (va : Value) (ha : evalStep env a s = .ok (va, s)) :
    evalStep env (.neg a) s = .ok (negV va, s) := by
  simp only [evalStep, bind_def, ha, pure_def]

/-- The comparison operators evaluate both operands and apply the three-valued tables of C09. -/
theorem cmp_spec (a b : Ast) (s : Scope) (va vb : Value)
    (ha : evalStep env a s = .ok (va, s)) (hb : evalStep env b s = .ok (vb, s)) :
    evalStep env (.lt a b) s = .ok (ltV va vb, s) ∧
    evalStep env (.le a b) s = .ok (leV va vb, s) ∧
    evalStep env (.gt a b) s = .ok (gtV va vb, s) ∧
    evalStep env (.ge a b) s = .ok (geV va vb, s) ∧
    evalStep env (.eq a b) s = .ok (eqV va vb, s) ∧
    evalStep env (.nq a b) s = .ok (nqV va vb, s) := by
  refine ⟨?_, ?_, ?_, ?_, ?_, ?_⟩ <;> simp only [evalStep, bind_def, ha, hb, pure_def]

/-- On two numbers the comparisons are those of the numeric order (`decQuadCompare`). -/
theorem cmp_num_spec (x y : Dec) :
    ltV (.num x) (.num y) = .bool (Dec.cmp x y == .lt) ∧
    leV (.num x) (.num y) = .bool (Dec.cmp x y != .gt) ∧
    gtV (.num x) (.num y) = .bool (Dec.cmp x y == .gt) ∧
    geV (.num x) (.num y) = .bool (Dec.cmp x y != .lt) ∧
    eqV (.num x) (.num y) = .bool (Dec.beq x y) ∧
    nqV (.num x) (.num y) = .bool (!Dec.beq x y) := ⟨rfl, rfl, rfl, rfl, rfl, rfl⟩

/-! ### between, in, paths -/

theorem between_spec (x a b : Ast) (s : Scope) (vx va vb : Value)
    (hx : evalStep env x s = .ok (vx, s)) (ha : evalStep env a s = .ok (va, s))
    (hb : evalStep env b s = .ok (vb, s)) :
    evalStep env (.between x a b) s = .ok (betweenV vx va vb, s) := by
  simp only [evalStep, bind_def, hx, ha, hb, pure_def]

/-- `x between a and b` has the value of `a <= x and x <= b` whenever the three values are
numbers, strings, dates or durations of one kind. -/
theorem between_eq_conj (x a b : Ast) (s : Scope) (vx va vb : Value)
    (hx : evalStep env x s = .ok (vx, s)) (ha : evalStep env a s = .ok (va, s))
    (hb : evalStep env b s = .ok (vb, s)) (hk : SameOrderedKind vx va vb) :
    evalStep env (.between x a b) s = evalStep env (.and (.le a x) (.le x b)) s := by
  simp only [evalStep, bind_def, hx, ha, hb, pure_def, betweenV_eq_conj vx va vb hk]

example : SameOrderedKind (.num (Dec.ofNat 5)) (.num (Dec.ofNat 1)) (.num (Dec.ofNat 9)) := .num _ _ _

-- FULL STATEMENT (not provable of the current code): `between_eq_conj` without `hk`.
/-- With operands of different kinds `between` is null where the conjunction that defines it in
DMN is already false: `5 between 7 and "a"` is null, `7 <= 5 and 5 <= "a"` is false. -/
theorem between_eq_conj_counterexample :
    betweenV (.num (Dec.ofNat 5)) (.num (Dec.ofNat 7)) (.str "a") = .null ∧
      and3 (leV (.num (Dec.ofNat 7)) (.num (Dec.ofNat 5))) (leV (.num (Dec.ofNat 5)) (.str "a")) = .bool false :=
  betweenV_ne_conj_counterexample

theorem in_spec (a b : Ast) (s : Scope) (va vb : Value)
    (ha : evalStep env a s = .ok (va, s)) (hb : evalStep env b s = .ok (vb, s)) :
    evalStep env (.in a b) s = .ok (inV va vb, s) := by
  simp only [evalStep, bind_def, ha, hb, pure_def]

/-- `x in v` for a plain value `v` is equality (incomparable counts as false). -/
theorem in_value_spec (l r : Value) (h : isPlain r = true) : inV l r = .bool (eqT l r == some true) :=
  inV_plain l r h

/-- `x in [i₁, …]` / `x in (i₁, …)` over plain items is membership up to FEEL equality. -/
theorem in_list_spec (l : Value) (items : List Value) (hl : ∀ vs, l ≠ .list vs)
    (h : ∀ i ∈ items, isPlain i = true) :
    inV l (.list items) = .bool (items.any (fun i => eqT l i == some true)) ∧
    inV l (.exprList items) = .bool (items.any (fun i => eqT l i == some true)) := by
  refine ⟨?_, ?_⟩
  · rw [inV_list_of_scalar l items hl, inList_plain l items h]
  · show inList l items = _
    exact inList_plain l items h

example : ∀ vs, (Value.num (Dec.ofNat 1)) ≠ .list vs := by intro vs h; cases h

/-- `x in [a..b]` on numbers respects which ends are closed; `x in < r` etc. are the comparisons. -/
theorem in_range_unary_spec (x a b r : Dec) (lc rc : Bool) :
    inV (.num x) (.range (.num a) lc (.num b) rc) =
      .bool ((if lc then Dec.cmp x a != .lt else Dec.cmp x a == .gt) &&
             (if rc then Dec.cmp x b != .gt else Dec.cmp x b == .lt)) ∧
    inV (.num x) (.unaryLt (.num r)) = .bool (Dec.cmp x r == .lt) ∧
    inV (.num x) (.unaryLe (.num r)) = .bool (Dec.cmp x r != .gt) ∧
    inV (.num x) (.unaryGt (.num r)) = .bool (Dec.cmp x r == .gt) ∧
    inV (.num x) (.unaryGe (.num r)) = .bool (Dec.cmp x r != .lt) := ⟨rfl, rfl, rfl, rfl, rfl⟩

/-- `e.n`: the entry `n` of a context (null when missing); over a list of contexts the list of
the items' entries `n`, in order, **null for an item that has none**; null over a list with an
item that is not a context. -/
theorem path_spec (a : Ast) (n : String) (s : Scope) (va : Value) (ha : evalStep env a s = .ok (va, s)) :
    evalStep env (.path a (.name n)) s = .ok (pathV va n, s) ∧
    (∀ c, va = .ctx c → pathV va n = (Ctx.get c n).getD .null) ∧
    (∀ cs : List Ctx, va = .list (cs.map Value.ctx) →
      pathV va n = .list (cs.map (fun c => (Ctx.get c n).getD .null))) ∧
    (∀ items, va = .list items → (∃ i ∈ items, isCtx i = false) → pathV va n = .null) := by
  refine ⟨by simp only [evalStep, bind_def, ha, pure_def], ?_, ?_, ?_⟩
  · rintro c rfl; rfl
  · rintro cs rfl; exact pathV_list_of_ctxs cs n
  · rintro items rfl h; exact pathV_list_not_ctxs items n h

/-! ### filter -/

/-- **Filter on a list.** The predicate is evaluated once per item in the item's scope
(`itemScope`: the entries of an item that is a context, and `item`) and once more in the scope of
the filter itself.  If that last value is a number the filter is an index; otherwise the result
keeps exactly the items, in order, whose predicate value is `true` — and a result of exactly one
item is that item, not a list (`filterResult`; pinned by the repository's tests). -/
theorem filter_spec (a b : Ast) (s : Scope) (values : List Value) (pv : Value → Value) (rhv : Value)
    (ha : evalStep env a s = .ok (.list values, s))
    (hp : ∀ v ∈ values, evalStep env b (itemScope s v) = .ok (pv v, itemScope s v))
    (hr : evalStep env b s = .ok (rhv, s)) :
    evalStep env (.filter a b) s =
      .ok ((match rhv with
        | .num index => env.index values index
        | _ => filterResult (values.filter (fun v => isTrue (pv v)))), s) := by
  simp only [evalStep, bind_def, ha, filterLoop_spec (evalStep env b) pv s values hp, hr]
  cases rhv <;> rfl

/-- The singleton rule of `filterResult`. -/
theorem filter_result_spec (kept : List Value) :
    filterResult kept = (match kept with | [v] => v | _ => .list kept) := rfl

/-- **Filter on a value that is not a list.** The value is filtered as a one-item list: the
predicate is evaluated in the scope of the item (`itemScope`: `item` bound to the value, and the
entries of a value that is a context); `true` gives `[v]` (not unwrapped), `false` gives `[]`,
the index 1 gives `v`, everything else null; a value that is null, a range or a function gives
null without evaluating the predicate. -/
theorem filter_scalar_spec (a b : Ast) (s : Scope) (v rhv : Value)
    (ha : evalStep env a s = .ok (v, s)) (hnl : ∀ vs, v ≠ .list vs)
    (hr : isFilterScalar v = true → evalStep env b (itemScope s v) = .ok (rhv, itemScope s v)) :
    evalStep env (.filter a b) s = .ok ((if isFilterScalar v then filterScalar v rhv else .null), s) := by
  simp only [evalStep, bind_def, ha]
  cases v with
  | list vs => exact absurd rfl (hnl vs)
  | _ =>
    split
    · rename_i hs
      simp only [bind_def, itemScoped_spec _ _ s rhv (hr hs), pure_def]
    · rfl

theorem filter_scalar_table (v rhv : Value) :
    filterScalar v rhv = (match rhv with
      | .bool flag => if flag then .list [v] else .list []
      | .num n => if Dec.isOne n then v else .null
      | _ => .null) := rfl

theorem mkEnv_index (num : NumOps) (bp : String → List Value → Outcome Value)
    (bn : String → List (String × Value × Nat) → Outcome Value) (v : Variant) (fuel : Nat) :
    (mkEnv num bp bn v fuel).index = v.index := by cases fuel <;> rfl

theorem mkEnv_iter (num : NumOps) (bp : String → List Value → Outcome Value)
    (bn : String → List (String × Value × Nat) → Outcome Value) (v : Variant) (fuel : Nat) :
    (mkEnv num bp bn v fuel).iter = v.iter := by cases fuel <;> rfl

/-- **Numeric filter of the code = 1-based indexing** (`index_spec`): in the model of the code
`l[n]` is the `n`-th item for `1 ≤ n ≤ |l|`. -/
theorem filter_index_spec (num : NumOps) (bp : String → List Value → Outcome Value)
    (bn : String → List (String × Value × Nat) → Outcome Value) (fuel : Nat)
    (a b : Ast) (s : Scope) (values : List Value) (pv : Value → Value) (n : Nat)
    (ha : eval num bp bn fuel a s = .ok (.list values, s))
    (hp : ∀ v ∈ values, eval num bp bn fuel b (itemScope s v) = .ok (pv v, itemScope s v))
    (hr : eval num bp bn fuel b s = .ok (.num (Dec.ofNat n), s))
    (hn : 1 ≤ n ∧ n ≤ values.length) (hlen : values.length < 2 ^ 64) :
    eval num bp bn fuel (.filter a b) s = .ok ((values[n - 1]?).getD .null, s) := by
  have h := filter_spec (mkEnv num bp bn Variant.code fuel) a b s values pv _ ha hp hr
  simp only [eval] at h ⊢
  rw [h, mkEnv_index, index_code_eq_spec values _ hlen, index_spec values n hn]

/-- A negative index counts from the end: `l[-n]` is the `n`-th item from the end (specification
variant of the index rule; the code's rule is the same: `index_code_eq_spec`). -/
theorem index_spec_neg (values : List Value) (n : Nat) (h : 1 ≤ n ∧ n ≤ values.length) :
    Variant.spec.index values ⟨true, n, 0⟩ = (values[values.length - n]?).getD .null := by
  simp only [Variant.spec, Dec.toInt?, Dec.scoeff]
  have h1 : ¬ ((1 : Int) ≤ -(n : Int) ∧ -(n : Int) ≤ (values.length : Int)) := by omega
  have h2 : (-(values.length : Int) ≤ -(n : Int) ∧ -(n : Int) ≤ -1) := by omega
  simp only [ge_iff_le, Int.le_refl, if_true, Int.toNat_zero, Int.pow_zero, Int.mul_one, h1, h2, if_false]
  simp only [and_self, if_true]
  congr 2
  omega

example : Variant.spec.index [.null, .bool true] ⟨true, 1, 0⟩ = .bool true := by
  rw [index_spec_neg _ 1 (by decide)]; rfl

/-- Paths on dates and durations select their components. -/
theorem path_temporal_spec (y : Int) (m d : Nat) (months : Int) :
    pathV (.date y m d) "year" = .num (Dec.ofInt y) ∧
    pathV (.date y m d) "month" = .num (Dec.ofNat m) ∧
    pathV (.date y m d) "day" = .num (Dec.ofNat d) ∧
    pathV (.ymDur months) "years" = .num (Dec.ofInt (Int.tdiv months 12)) ∧
    pathV (.ymDur months) "months" = .num (Dec.ofInt (Int.tmod months 12)) := by
  refine ⟨?_, ?_, ?_, ?_, ?_⟩ <;> simp [pathV]

/-! ### some, every, for -/

/-- **`some`** over domains none of which is null or the empty list: the ternary disjunction of the
body values over the iteration contexts the engine produces (`someV`: true if one is `true`,
false if all are `false`, null otherwise — `someV_eq_fold`: `false or b₁ or b₂ …`). -/
theorem some_spec (doms : List QDom) (body : Ast) (s : Scope) (cs : List Ctx) (bv : Ctx → Value)
    (hd : ∀ d ∈ doms, evalStep env d.2.1 s = .ok (d.2.2, s))
    (hne : doms.any (fun d => isNullV d.2.2 || isEmptyList d.2.2) = false)
    (hit : env.iter (quantStates 0 doms) = .ok cs)
    (hb : ∀ c ∈ cs, evalStep env body (s ++ [c]) = .ok (bv c, s ++ [c])) :
    evalStep env (.some (.quantifiedContexts (quantItems doms)) (.satisfies body)) s =
      .ok (someV (cs.map bv), s) := by
  have hq := quantResult_some (cs.map bv)
  simp only [List.any_map, Function.comp_def] at hq
  simp only [evalStep, bind_def, evalQuantified_spec env s doms 0 hd, quantDomains_states doms 0 hne,
    lift, hit, quantLoop_some (evalStep env body) bv s cs (false, false) hb, Bool.false_or, pure_def, hq]

/-- **`every`**: the ternary conjunction of the body values (`everyV`: false if one is `false`,
true if all are `true`, null otherwise — `everyV_eq_fold`: `true and b₁ and b₂ …`). -/
theorem every_spec (doms : List QDom) (body : Ast) (s : Scope) (cs : List Ctx) (bv : Ctx → Value)
    (hd : ∀ d ∈ doms, evalStep env d.2.1 s = .ok (d.2.2, s))
    (hne : doms.any (fun d => isNullV d.2.2 || isEmptyList d.2.2) = false)
    (hit : env.iter (quantStates 0 doms) = .ok cs)
    (hb : ∀ c ∈ cs, evalStep env body (s ++ [c]) = .ok (bv c, s ++ [c])) :
    evalStep env (.every (.quantifiedContexts (quantItems doms)) (.satisfies body)) s =
      .ok (everyV (cs.map bv), s) := by
  have hq := quantResult_every (cs.map bv)
  simp only [List.any_map, List.all_map, Function.comp_def] at hq
  simp only [evalStep, bind_def, evalQuantified_spec env s doms 0 hd, quantDomains_states doms 0 hne,
    lift, hit, quantLoop_every (evalStep env body) bv s cs (true, false) hb, Bool.true_and, Bool.false_or,
    pure_def, hq]

/-- The ternary readings: `some` is `false or b₁ or b₂ …`, `every` is `true and b₁ and b₂ …`
with the three-valued `or` / `and` of Table 50 (a value that is not Boolean counts as null). -/
theorem some_every_ternary (vals : List Value) :
    someV vals = vals.foldl or3 (.bool false) ∧ everyV vals = vals.foldl and3 (.bool true) :=
  ⟨someV_eq_fold vals, everyV_eq_fold vals⟩

/-- The first domain that is the empty list (no null, no empty list before it): `some` is false
and `every` is true, whatever the other domains and the body are (the product is empty). -/
theorem quantified_empty_domain (pre : List QDom) (d : QDom) (post : List QDom) (body : Ast) (s : Scope)
    (hd : ∀ x ∈ pre ++ d :: post, evalStep env x.2.1 s = .ok (x.2.2, s))
    (hpre : pre.any (fun d => isNullV d.2.2 || isEmptyList d.2.2) = false)
    (he : isEmptyList d.2.2 = true) :
    evalStep env (.some (.quantifiedContexts (quantItems (pre ++ d :: post))) (.satisfies body)) s = .ok (.bool false, s) ∧
    evalStep env (.every (.quantifiedContexts (quantItems (pre ++ d :: post))) (.satisfies body)) s = .ok (.bool true, s) := by
  constructor <;>
    simp only [evalStep, bind_def, evalQuantified_spec env s _ 0 hd, (quantDomains_first pre d post 0 hpre).2 he,
      pure_def]

/-- The first domain that is null (no null, no empty list before it): `some` and `every` are null. -/
theorem quantified_null_domain (pre : List QDom) (d : QDom) (post : List QDom) (body : Ast) (s : Scope)
    (hd : ∀ x ∈ pre ++ d :: post, evalStep env x.2.1 s = .ok (x.2.2, s))
    (hpre : pre.any (fun d => isNullV d.2.2 || isEmptyList d.2.2) = false)
    (hn : isNullV d.2.2 = true) :
    evalStep env (.some (.quantifiedContexts (quantItems (pre ++ d :: post))) (.satisfies body)) s = .ok (.null, s) ∧
    evalStep env (.every (.quantifiedContexts (quantItems (pre ++ d :: post))) (.satisfies body)) s = .ok (.null, s) := by
  constructor <;>
    simp only [evalStep, bind_def, evalQuantified_spec env s _ 0 hd, (quantDomains_first pre d post 0 hpre).1 hn,
      pure_def]

/-- In the model of the code the iteration contexts of `some` / `every` are the cartesian product
of the domains, first declared variable outermost (`run_eq_product`). -/
theorem code_iter_quantStates (num : NumOps) (bp : String → List Value → Outcome Value)
    (bn : String → List (String × Value × Nat) → Outcome Value) (fuel : Nat) (doms : List QDom)
    (hne : doms ≠ []) (hnempty : doms.any (fun d => isNullV d.2.2 || isEmptyList d.2.2) = false)
    (hlen : ∀ d ∈ doms, ((listOf d.2.2).length : Int) - 1 ≤ Iter.i64Max) :
    (mkEnv num bp bn Variant.code fuel).iter (quantStates 0 doms) =
      .ok (Iter.product (doms.map (fun d => Iter.mkList d.1 (listOf d.2.2)))) := by
  rw [mkEnv_iter]
  simp only [Variant.code, quantStates_map_snd]
  apply Iter.run_eq_product
  · cases doms with
    | nil => exact absurd rfl hne
    | cons _ _ => simp
  · intro st hst
    obtain ⟨d, hd, rfl⟩ := List.mem_map.mp hst
    apply Iter.Fresh.list _ _ _ (hlen d hd)
    apply listOf_ne_nil
    intro hv
    have : isEmptyList d.2.2 = true := by rw [hv]; rfl
    have hall := List.any_eq_false.mp hnempty d hd
    simp [this] at hall

/-- **`some` / `every` of the code range over the full cartesian product of the domains.** -/
theorem eval_some_every_product (num : NumOps) (bp : String → List Value → Outcome Value)
    (bn : String → List (String × Value × Nat) → Outcome Value) (fuel : Nat)
    (doms : List QDom) (body : Ast) (s : Scope) (bv : Ctx → Value)
    (hd : ∀ d ∈ doms, eval num bp bn fuel d.2.1 s = .ok (d.2.2, s))
    (hne : doms ≠ []) (hnempty : doms.any (fun d => isNullV d.2.2 || isEmptyList d.2.2) = false)
    (hlen : ∀ d ∈ doms, ((listOf d.2.2).length : Int) - 1 ≤ Iter.i64Max)
    (hb : ∀ c ∈ Iter.product (doms.map (fun d => Iter.mkList d.1 (listOf d.2.2))),
      eval num bp bn fuel body (s ++ [c]) = .ok (bv c, s ++ [c])) :
    eval num bp bn fuel (.some (.quantifiedContexts (quantItems doms)) (.satisfies body)) s =
      .ok (someV ((Iter.product (doms.map (fun d => Iter.mkList d.1 (listOf d.2.2)))).map bv), s) ∧
    eval num bp bn fuel (.every (.quantifiedContexts (quantItems doms)) (.satisfies body)) s =
      .ok (everyV ((Iter.product (doms.map (fun d => Iter.mkList d.1 (listOf d.2.2)))).map bv), s) :=
  ⟨some_spec _ doms body s _ bv hd hnempty (code_iter_quantStates num bp bn fuel doms hne hnempty hlen) hb,
   every_spec _ doms body s _ bv hd hnempty (code_iter_quantStates num bp bn fuel doms hne hnempty hlen) hb⟩

/-- **`for`**: when every domain has a state (no empty list, integer range ends) the result is
the list of the body values over the iteration contexts in order, each body evaluation seeing
the results so far as `partial`. -/
theorem for_spec (doms : List ForDom) (sts : List Iter.State) (body : Ast) (s : Scope) (cs : List Ctx)
    (bv : Ctx → List Value → Value)
    (hd : ∀ d ∈ doms, d.Evaluates env s)
    (hst : doms.map ForDom.state? = sts.map some)
    (hit : env.iter (tagFrom 0 sts) = .ok cs)
    (hb : ∀ pre c post, cs = pre ++ c :: post →
      evalStep env body (forScope s c (forFold bv pre [])) =
        .ok (bv c (forFold bv pre []), forScope s c (forFold bv pre []))) :
    evalStep env (.for (.iterationContexts (doms.map ForDom.item)) body) s =
      .ok (.list (forFold bv cs []), s) := by
  simp only [evalStep, bind_def, evalIteration_spec env s doms 0 hd, forDomains_states doms sts 0 hst,
    lift, hit, forLoop_spec (evalStep env body) bv s cs [] hb, pure_def]

/-- The result of such a `for` has one item per iteration context. -/
theorem for_length (bv : Ctx → List Value → Value) (cs : List Ctx) :
    (forFold bv cs []).length = cs.length := by
  rw [forFold_length]; simp

/-- A body that does not use `partial`: the result is the map of the body over the contexts. -/
theorem for_map (f : Ctx → Value) (cs : List Ctx) : forFold (fun c _ => f c) cs [] = cs.map f := by
  rw [forFold_map]; simp

/-- A list domain that evaluates to `[]` (reached: the domains before it have states) makes the
`for` the empty list; a range whose ends are not integers makes it null (`for_range_not_integers_null`). -/
theorem for_empty_domain (pre : List ForDom) (sts : List Iter.State) (n : String) (e : Ast)
    (post : List ForDom) (body : Ast) (s : Scope)
    (hd : ∀ d ∈ pre ++ .single n e (.list []) :: post, d.Evaluates env s)
    (hst : pre.map ForDom.state? = sts.map some) :
    evalStep env (.for (.iterationContexts ((pre ++ .single n e (.list []) :: post).map ForDom.item)) body) s =
      .ok (.list [], s) := by
  simp only [evalStep, bind_def, evalIteration_spec env s _ 0 hd, forDomains_empty pre sts n e post 0 hst,
    pure_def]

/-- A domain that evaluates to null (reached: the domains before it have states) makes the `for` null. -/
theorem for_null_domain (pre : List ForDom) (sts : List Iter.State) (n : String) (e : Ast)
    (post : List ForDom) (body : Ast) (s : Scope)
    (hd : ∀ d ∈ pre ++ .single n e .null :: post, d.Evaluates env s)
    (hst : pre.map ForDom.state? = sts.map some) :
    evalStep env (.for (.iterationContexts ((pre ++ .single n e .null :: post).map ForDom.item)) body) s =
      .ok (.null, s) := by
  simp only [evalStep, bind_def, evalIteration_spec env s _ 0 hd, forDomains_null pre sts n e post 0 hst,
    pure_def]

theorem state?_shaped (d : ForDom) (st : Iter.State) (h : d.state? = some st) : Iter.Shaped st := by
  cases d with
  | single n e v =>
    simp only [ForDom.state?] at h
    obtain ⟨_, he, hst⟩ := single_state n v st h
    subst hst
    apply Iter.Shaped.list
    apply listOf_ne_nil
    intro hv
    rw [hv] at he
    cases he
  | range n lo hi a b => exact rangeState_shaped n a b st h

/-- **`for` of the code ranges over the full cartesian product** of its domains in declaration
order, and its result has `∏ |domainᵢ|` items. -/
theorem eval_for_product (num : NumOps) (bp : String → List Value → Outcome Value)
    (bn : String → List (String × Value × Nat) → Outcome Value) (fuel : Nat)
    (doms : List ForDom) (sts : List Iter.State) (body : Ast) (s : Scope) (bv : Ctx → List Value → Value)
    (hd : ∀ d ∈ doms, d.Evaluates (mkEnv num bp bn Variant.code fuel) s)
    (hst : doms.map ForDom.state? = sts.map some) (hne : sts ≠ [])
    (hlen : ∀ st ∈ sts, (st.values.length : Int) - 1 ≤ Iter.i64Max)
    (hb : ∀ pre c post, Iter.product sts = pre ++ c :: post →
      eval num bp bn fuel body (forScope s c (forFold bv pre [])) =
        .ok (bv c (forFold bv pre []), forScope s c (forFold bv pre []))) :
    eval num bp bn fuel (.for (.iterationContexts (doms.map ForDom.item)) body) s =
      .ok (.list (forFold bv (Iter.product sts) []), s) ∧
    (forFold bv (Iter.product sts) []).length =
      (sts.map (fun st => (Iter.domain st).length)).foldl (· * ·) 1 := by
  have hit : (mkEnv num bp bn Variant.code fuel).iter (tagFrom 0 sts) = .ok (Iter.product sts) := by
    rw [mkEnv_iter]
    simp only [Variant.code, tagFrom_map_snd]
    apply Iter.run_eq_product sts hne
    intro st hm
    have hmem : some st ∈ doms.map ForDom.state? := by rw [hst]; exact List.mem_map_of_mem hm
    obtain ⟨d, _, hds⟩ := List.mem_map.mp hmem
    exact Iter.fresh_of_shaped st (state?_shaped d st hds) (hlen st hm)
  exact ⟨for_spec _ doms sts body s _ bv hd hst hit hb, by rw [for_length, Iter.product_length]⟩

/-! ### function invocation -/

/-- **Positional invocation of a function value.** The body is evaluated in the scope of the
*call* extended by ONE context that binds every formal parameter to the argument at its position
coerced to the parameter's type (`argCtx`; null when not coercible: C16); the result is coerced
to the declared result type.  The number of arguments is the number of formal parameters. -/
theorem invocation_binds_coerced (f : Ast) (xs : List Ast) (s : Scope)
    (ps : List (String × FType)) (body : Ast) (rt : FType) (vs : List Value) (r : Value)
    (hf : evalStep env f s = .ok (.fn ps body rt, s))
    (hxs : evalList env xs s = .ok (vs, s))
    (harity : vs.length = ps.length)
    (hbody : env.call body (s ++ [argCtx ps vs []]) = .ok (r, s ++ [argCtx ps vs []])) :
    evalStep env (.functionInvocation f (.positionalParameters xs)) s = .ok (Value.coerced rt r, s) := by
  have h1 : ¬ vs.length > ps.length := by omega
  have h2 : ps.length ≤ vs.length := by omega
  simp only [evalStep, bind_def, hf, hxs, invokePositional, bindPositional_eq, h1, h2, if_true, if_false]
  exact callFunction_ok env _ body rt s r hbody

/-- In the evaluator proper the body evaluator is the evaluator itself, one unit of fuel down. -/
theorem mkEnv_call_succ (num : NumOps) (bp : String → List Value → Outcome Value)
    (bn : String → List (String × Value × Nat) → Outcome Value) (v : Variant) (fuel : Nat) (b : Ast) :
    (mkEnv num bp bn v (fuel + 1)).call b = evalWith v num bp bn fuel b := rfl

/-- Too few **or too many** arguments: null (the body is not evaluated).  What is invoked is not
a function: null. -/
theorem invocation_wrong_arity_null (f : Ast) (xs : List Ast) (s : Scope)
    (ps : List (String × FType)) (body : Ast) (rt : FType) (vs : List Value)
    (hf : evalStep env f s = .ok (.fn ps body rt, s))
    (hxs : evalList env xs s = .ok (vs, s)) (harity : vs.length ≠ ps.length) :
    evalStep env (.functionInvocation f (.positionalParameters xs)) s = .ok (.null, s) := by
  by_cases hgt : vs.length > ps.length
  · simp only [evalStep, bind_def, hf, hxs, invokePositional_surplus env ps body rt vs hgt s]
  · have : ¬ ps.length ≤ vs.length := by omega
    simp only [evalStep, bind_def, hf, hxs, invokePositional, bindPositional_eq, this, hgt, if_false, pure_def]

/-- Invoking a value that is neither a function value nor a built-in function is null. -/
theorem invocation_not_function_null (f : Ast) (xs : List Ast) (s : Scope) (fv : Value) (vs : List Value)
    (hf : evalStep env f s = .ok (fv, s)) (hxs : evalList env xs s = .ok (vs, s))
    (h1 : ∀ ps b rt, fv ≠ .fn ps b rt) (h2 : ∀ n, fv ≠ .bif n) :
    evalStep env (.functionInvocation f (.positionalParameters xs)) s = .ok (.null, s) := by
  simp only [evalStep, bind_def, hf, hxs]
  cases fv <;> first | rfl | exact absurd rfl (h1 _ _ _) | exact absurd rfl (h2 _)

example (s : Scope) : evalStep env (.functionInvocation .null (.positionalParameters [])) s = .ok (.null, s) :=
  invocation_not_function_null env _ _ s .null [] rfl rfl (by intro _ _ _ h; cases h) (by intro _ h; cases h)

/-- **Named invocation binds by name**: it is the positional invocation with the arguments
permuted into the order in which the parameters are declared (a name given twice: the last
value, `namedGet_collectNamed`); a parameter without argument makes it null, and so does an
argument whose name is not the name of a parameter. -/
theorem named_eq_positional_invocation (f : Ast) (xs : List Ast) (s : Scope)
    (ps : List (String × FType)) (body : Ast) (rt : FType) (vs : List Value)
    (hf : evalStep env f s = .ok (.fn ps body rt, s))
    (hxs : evalList env xs s = .ok (vs, s)) :
    evalStep env (.functionInvocation f (.namedParameters xs)) s =
      (if unknownNamed ps (collectNamed vs 1 []) then .ok (.null, s)
       else match ps.mapM (fun p => namedGet (collectNamed vs 1 []) p.1) with
        | some args => invokePositional env (.fn ps body rt) args s
        | none => .ok (.null, s)) := by
  simp only [evalStep, bind_def, hf, hxs]
  by_cases hu : unknownNamed ps (collectNamed vs 1 []) = true
  · rw [if_pos hu]; exact invokeNamed_unknown env ps body rt _ hu s
  · rw [if_neg hu]
    have hu' : unknownNamed ps (collectNamed vs 1 []) = false := by simpa using hu
    cases h : ps.mapM (fun p => namedGet (collectNamed vs 1 []) p.1) with
    | some args => rw [invokeNamed_eq_positional env ps body rt _ args h hu']
    | none => exact invokeNamed_missing env ps body rt _ h s

/-- The named arguments as a map: every name is bound to the value of its last occurrence. -/
theorem named_arguments_spec (pairs : List (String × Value)) (k : String) :
    namedGet (collectNamed (namedValues pairs) 1 []) k =
      (pairs.reverse.find? (fun p => p.1 = k)).map Prod.snd := by
  rw [namedGet_collectNamed]
  cases pairs.reverse.find? (fun p => p.1 = k) <;> rfl

/-! ### context literals -/

/-- **A context literal** with distinct keys has exactly the keys written; entry *k* is evaluated
in the scope extended by ONE context holding the entries before it. -/
theorem context_spec (ents : List CEntry) (s : Scope)
    (h : ∀ pre e post, ents = pre ++ e :: post →
      evalStep env e.2.1 (s ++ [ctxFold pre []]) = .ok (e.2.2, s ++ [ctxFold pre []]))
    (hnd : (ents.map (fun e => e.1.key)).Nodup) :
    evalStep env (.context (ents.map CEntry.ast)) s = .ok (.ctx (ctxFold ents []), s) := by
  simp only [evalStep, bind_def, push, Scope.push,
    evalContextEntries_spec env s ents [] [] h hnd (fun _ _ => rfl), pop,
    Scope.pop, dropLast_append_single, pure_def, ctxResult]

/-- **A key written twice makes the context literal null** (DMN: the keys of a context are
distinct): `pre` has distinct keys, the key of `e` is one of them; the entries up to `e` are
evaluated, the rest (`post`) is not. -/
theorem context_duplicate_key_null (pre : List CEntry) (e : CEntry) (post : List Ast) (s : Scope)
    (h : ∀ p1 x p2, pre ++ [e] = p1 ++ x :: p2 →
      evalStep env x.2.1 (s ++ [ctxFold p1 []]) = .ok (x.2.2, s ++ [ctxFold p1 []]))
    (hnd : (pre.map (fun e => e.1.key)).Nodup) (hdup : e.1.key ∈ pre.map (fun e => e.1.key)) :
    evalStep env (.context (pre.map CEntry.ast ++ CEntry.ast e :: post)) s = .ok (.null, s) := by
  simp only [evalStep, bind_def, push, Scope.push,
    evalContextEntries_dup env s pre e post [] [] h hnd (fun _ _ => rfl) (Or.inr hdup), pop,
    Scope.pop, dropLast_append_single, pure_def, ctxResult]

/-- The keys of the value: bound iff written, to the value of the (with distinct keys: only) entry with that key. -/
theorem context_keys_spec (ents : List CEntry) (k : String) :
    Ctx.get (ctxFold ents []) k = (ents.reverse.find? (fun e => e.1.key = k)).map (fun e => e.2.2) := by
  rw [get_ctxFold]
  cases ents.reverse.find? (fun e => e.1.key = k) <;> rfl

/-! ### fuel -/

/-- **More fuel never changes a completed evaluation**: with `fuel' ≥ fuel` the outcome — value
and scope, or panic — is the same unless the evaluation with `fuel` ran out of fuel. -/
theorem eval_fuel_only_diverge (num : NumOps) (bp : String → List Value → Outcome Value)
    (bn : String → List (String × Value × Nat) → Outcome Value) (fuel fuel' : Nat) (hle : fuel ≤ fuel')
    (a : Ast) (s : Scope) :
    eval num bp bn fuel a s = .diverge ∨ eval num bp bn fuel' a s = eval num bp bn fuel a s :=
  evalWith_refines_le num bp bn Variant.code fuel fuel' hle a s

theorem eval_fuel_mono (num : NumOps) (bp : String → List Value → Outcome Value)
    (bn : String → List (String × Value × Nat) → Outcome Value) (fuel fuel' : Nat) (hle : fuel ≤ fuel')
    (a : Ast) (s : Scope) (r : Value × Scope) (h : eval num bp bn fuel a s = .ok r) :
    eval num bp bn fuel' a s = .ok r := by
  rcases eval_fuel_only_diverge num bp bn fuel fuel' hle a s with hd | he
  · rw [hd] at h; cases h
  · rw [he, h]

/-- The same for the specification evaluator. -/
theorem den_fuel_mono (num : NumOps) (bp : String → List Value → Outcome Value)
    (bn : String → List (String × Value × Nat) → Outcome Value) (fuel fuel' : Nat) (hle : fuel ≤ fuel')
    (a : Ast) (s : Scope) (r : Value × Scope) (h : den num bp bn fuel a s = .ok r) :
    den num bp bn fuel' a s = .ok r := by
  rcases evalWith_refines_le num bp bn Variant.spec fuel fuel' hle a s with hd | he
  · have : den num bp bn fuel a s = .diverge := hd
    rw [this] at h; cases h
  · have : den num bp bn fuel' a s = den num bp bn fuel a s := he
    rw [this, h]

/-! ### the result depends on the bindings of the scope only -/

/-- **The outcome depends only on the expression and on what the scope binds** — not on how the
bindings are spread over the contexts of the scope: two scopes that answer every (qualified) name
lookup alike (`hdeep`) give the same value, the same panic or the same divergence, and each
evaluation leaves its own scope as it found it. -/
theorem eval_depends_on_bindings_partial (num : NumOps) (bp : String → List Value → Outcome Value)
    (bn : String → List (String × Value × Nat) → Outcome Value) (fuel : Nat) (a : Ast)
    (s₁ s₂ : Scope) (hdeep : Scope.equivDeep s₁ s₂) :
    (eval num bp bn fuel a s₁).map Prod.fst = (eval num bp bn fuel a s₂).map Prod.fst ∧
    (∀ v t, eval num bp bn fuel a s₁ = .ok (v, t) → t = s₁ ∧ eval num bp bn fuel a s₂ = .ok (v, s₂)) := by
  have h := evalWith_sameOnEquiv num bp bn Variant.code fuel a
  have hv : (eval num bp bn fuel a s₁).map Prod.fst = (eval num bp bn fuel a s₂).map Prod.fst :=
    h.2.2 s₁ s₂ hdeep
  refine ⟨hv, ?_⟩
  intro v t he
  have ht : t = s₁ := h.1 s₁ v t he
  refine ⟨ht, ?_⟩
  rw [he] at hv
  cases h2 : eval num bp bn fuel a s₂ with
  | ok r =>
    obtain ⟨v', t'⟩ := r
    rw [h2] at hv
    simp only [Outcome.map, Outcome.ok.injEq] at hv
    have : t' = s₂ := h.2.1 s₂ v' t' h2
    rw [← hv, this]
  | panic p => rw [h2] at hv; simp [Outcome.map] at hv
  | diverge => rw [h2] at hv; simp [Outcome.map] at hv

/-- In scopes without shadowing (no name bound in two contexts) the visible bindings are all
there is: equal visible bindings give equal outcomes. -/
theorem eval_depends_on_visible_bindings (num : NumOps) (bp : String → List Value → Outcome Value)
    (bn : String → List (String × Value × Nat) → Outcome Value) (fuel : Nat) (a : Ast)
    (s₁ s₂ : Scope) (hvis : Scope.equivVisible s₁ s₂) (h₁ : NoShadow s₁) (h₂ : NoShadow s₂) :
    (eval num bp bn fuel a s₁).map Prod.fst = (eval num bp bn fuel a s₂).map Prod.fst :=
  (eval_depends_on_bindings_partial num bp bn fuel a s₁ s₂ (equivDeep_of_equivVisible hvis h₁ h₂)).1

/-- non-vacuity: the same two bindings in one context and spread over two -/
example : Scope.equivVisible [[("a", .null), ("b", .bool true)]] [[("b", .bool true)], [("a", .null)]] ∧
    NoShadow [[("a", .null), ("b", .bool true)]] ∧ NoShadow [[("b", .bool true)], [("a", .null)]] := by
  refine ⟨?_, ?_, ?_⟩
  · intro k
    simp only [Scope.getEntry, List.reverse_cons, List.reverse_nil, List.nil_append, List.cons_append,
      List.findSome?_cons, List.findSome?_nil, Ctx.get]
    by_cases ha : "a" = k <;> by_cases hb : "b" = k <;> simp [ha, hb]
  · simp [NoShadow]
  · simp only [NoShadow, List.mem_cons, List.not_mem_nil, or_false, forall_eq, and_true, Ctx.get]
    refine ⟨fun k => ?_, fun d hd => hd.elim⟩
    by_cases hb : "b" = k
    · subst hb; right; simp
    · left; simp [hb]

/-- **The outcome depends only on the expression and on the visible bindings of the scope**
(the last clause of the property, at full strength): two scopes in which the top-down lookup
`Scope::get_entry` answers alike for every name give the same value, the same panic or the same
divergence — however the bindings are spread over the contexts and whatever is shadowed
underneath.  (Before the repair of `Scope::search_deep` a shadowed binding could answer a
qualified name: finding F-C01-qualified-name-shadow, fixed.) -/
theorem eval_depends_on_bindings (num : NumOps) (bp : String → List Value → Outcome Value)
    (bn : String → List (String × Value × Nat) → Outcome Value) (fuel : Nat) (a : Ast)
    (s₁ s₂ : Scope) (hvis : Scope.equivVisible s₁ s₂) :
    (eval num bp bn fuel a s₁).map Prod.fst = (eval num bp bn fuel a s₂).map Prod.fst ∧
    (∀ v t, eval num bp bn fuel a s₁ = .ok (v, t) → t = s₁ ∧ eval num bp bn fuel a s₂ = .ok (v, s₂)) :=
  eval_depends_on_bindings_partial num bp bn fuel a s₁ s₂ (equivDeep_of_equivVisible' hvis)

/-- The former counterexample (finding F-C01-qualified-name-shadow): `a` is visibly bound to null
in both scopes; in the first a context `{b: true}` is bound to `a` underneath.  The qualified
name `a.b` (an interval endpoint) is now null in both. -/
theorem eval_depends_on_bindings_former_witness (num : NumOps) (bp : String → List Value → Outcome Value)
    (bn : String → List (String × Value × Nat) → Outcome Value) (fuel : Nat) :
    let s₁ : Scope := [[("a", .ctx [("b", .bool true)])], [("a", .null)]]
    let s₂ : Scope := [[("a", .null)]]
    let e : Ast := .qualifiedName [.qualifiedNameSegment "a", .qualifiedNameSegment "b"]
    Scope.equivVisible s₁ s₂ ∧
      eval num bp bn fuel e s₁ = .ok (.null, s₁) ∧ eval num bp bn fuel e s₂ = .ok (.null, s₂) := by
  refine ⟨?_, ?_, ?_⟩
  · intro k
    simp only [Scope.getEntry, List.reverse_cons, List.reverse_nil, List.nil_append, List.cons_append,
      List.findSome?_cons, List.findSome?_nil, Ctx.get]
    by_cases ha : "a" = k <;> simp [ha]
  · simp [eval, evalStep, evalList, bind_def, pure_def, getScope, scopeSearchDeep, ctxSearchDeep, Ctx.get,
      Ctx.contains]
  · simp [eval, evalStep, evalList, bind_def, pure_def, getScope, scopeSearchDeep, ctxSearchDeep, Ctx.get,
      Ctx.contains]

end Dmn.Eval

/-!
### non-vacuity

Concrete instances of the hypotheses of the theorems above (the conclusions then hold of these
evaluations).  The general `some_spec` / `every_spec` / `for_spec` are instantiated by
`eval_some_every_product` / `eval_for_product`, whose hypotheses are met below.
-/

namespace Dmn.Eval
open EvalM Value

section
variable (env : Env)

example (s : Scope) : evalStep env (.add (.boolean true) .null) s = .ok (addV env.num (.bool true) .null, s) :=
  (arith_spec env _ _ s _ _ (ev_true env s) (ev_null env s)).1
example (s : Scope) : evalStep env (.lt (.boolean true) .null) s = .ok (ltV (.bool true) .null, s) :=
  (cmp_spec env _ _ s _ _ (ev_true env s) (ev_null env s)).1
example (s : Scope) : evalStep env (.neg .null) s = .ok (negV .null, s) := neg_spec env _ s _ (ev_null env s)
example (s : Scope) : evalStep env (.between .null .null .null) s = .ok (betweenV .null .null .null, s) :=
  between_spec env _ _ _ s _ _ _ (ev_null env s) (ev_null env s) (ev_null env s)
example (s : Scope) : evalStep env (.in .null (.boolean true)) s = .ok (inV .null (.bool true), s) :=
  in_spec env _ _ s _ _ (ev_null env s) (ev_true env s)
example (s : Scope) : evalStep env (.path .null (.name "a")) s = .ok (pathV .null "a", s) :=
  (path_spec env _ "a" s _ (ev_null env s)).1
example : arith_not_numbers_null NumOps.exact .null .null (by intro x y h; cases h) =
    arith_not_numbers_null NumOps.exact .null .null (by intro x y h; cases h) := rfl

/-- filter with the predicate `item` over `[true, false]` -/
example : ∃ r, evalStep env (.filter (.list [.boolean true, .boolean false]) (.name "item")) [] = .ok (r, []) := by
  have hr := name_spec env "item" []
  refine ⟨_, filter_spec env _ _ [] [.bool true, .bool false] id _ (ev_list2 env []) ?_ hr⟩
  intro v hv
  simp only [List.mem_cons, List.not_mem_nil, or_false] at hv
  rcases hv with rfl | rfl <;>
    simp [itemScope, evalStep, bind_def, getEntry, Scope.getEntry, Ctx.get, pure_def]

/-- filter on a value that is not a list -/
example : ∃ r, evalStep env (.filter (.boolean true) (.boolean true)) [] = .ok (r, []) :=
  ⟨_, filter_scalar_spec env _ _ [] (.bool true) (.bool true) (ev_true env []) (by intro vs h; cases h)
    (fun _ => ev_true env _)⟩

/-- `true[item]`: the predicate sees the value as `item` -/
example : evalStep env (.filter (.boolean true) (.name "item")) [] = .ok (.list [.bool true], []) :=
  filter_scalar_spec env _ _ [] (.bool true) (.bool true) (ev_true env []) (by intro vs h; cases h)
    (fun _ => by simp [itemScope, evalStep, bind_def, getEntry, Scope.getEntry, Ctx.get, pure_def])

example (s : Scope) :
    (evalStep env (.some (.quantifiedContexts (quantItems [("x", .list [], .list [])])) (.satisfies .null)) s
      = .ok (.bool false, s)) :=
  (quantified_empty_domain env [] ("x", .list [], .list []) [] .null s
    (by intro d hd; simp only [List.nil_append, List.mem_cons, List.not_mem_nil, or_false] at hd; subst hd; rfl)
    rfl rfl).1

example (s : Scope) :
    (evalStep env (.every (.quantifiedContexts (quantItems [("x", .null, .null)])) (.satisfies .null)) s
      = .ok (.null, s)) :=
  (quantified_null_domain env [] ("x", .null, .null) [] .null s
    (by intro d hd; simp only [List.nil_append, List.mem_cons, List.not_mem_nil, or_false] at hd; subst hd; rfl)
    rfl rfl).2

/-- `every` over body values true, null is null; `some` over false, null is null; with a deciding value not -/
example : everyV [.bool true, .null] = .null ∧ someV [.bool false, .null] = .null ∧
    everyV [.bool true, .null, .bool false] = .bool false ∧ someV [.null, .bool true] = .bool true :=
  ⟨rfl, rfl, rfl, rfl⟩

example (s : Scope) : ∃ r, evalStep env (.for (.iterationContexts
      (([] ++ ForDom.single "x" .null .null :: []).map ForDom.item)) .null) s = .ok (r, s) :=
  ⟨_, for_null_domain env [] [] "x" .null [] .null s
    (by intro d hd; simp only [List.nil_append, List.mem_cons, List.not_mem_nil, or_false] at hd; subst hd; rfl) rfl⟩

example (s : Scope) : ∃ r, evalStep env (.for (.iterationContexts
      (([] ++ ForDom.single "x" (.list []) (.list []) :: []).map ForDom.item)) .null) s = .ok (r, s) :=
  ⟨_, for_empty_domain env [] [] "x" (.list []) [] .null s
    (by intro d hd; simp only [List.nil_append, List.mem_cons, List.not_mem_nil, or_false] at hd; subst hd; rfl) rfl⟩

/-- a context literal whose second entry reads the first -/
example (s : Scope) : ∃ r, evalStep env (.context
      (([(.name "a", .boolean true, .bool true), (.name "b", .name "a", .bool true)] : List CEntry).map CEntry.ast)) s
      = .ok (r, s) := by
  refine ⟨_, context_spec env _ s ?_ (by decide)⟩
  intro pre e post hsplit
  rcases pre with _ | ⟨p1, _ | ⟨p2, pre⟩⟩
  · simp only [List.nil_append, List.cons.injEq] at hsplit
    obtain ⟨rfl, _⟩ := hsplit
    rfl
  · simp only [List.cons_append, List.nil_append, List.cons.injEq] at hsplit
    obtain ⟨rfl, rfl, _⟩ := hsplit
    simp [ctxFold, EntryKey.key, Ctx.set, evalStep, bind_def, getEntry, Scope.getEntry, Ctx.get, pure_def]
  · simp only [List.cons_append, List.cons.injEq] at hsplit
    obtain ⟨_, _, h3⟩ := hsplit
    cases pre <;> simp at h3

/-- `{a: true, a: null}` is null -/
example (s : Scope) : evalStep env (.context
      (([(.name "a", .boolean true, .bool true)] : List CEntry).map CEntry.ast ++
        CEntry.ast (.name "a", .null, .null) :: [])) s = .ok (.null, s) := by
  refine context_duplicate_key_null env _ _ [] s ?_ (by decide) (by decide)
  intro p1 x p2 hsplit
  rcases p1 with _ | ⟨q1, _ | ⟨q2, p1⟩⟩
  · simp only [List.cons_append, List.nil_append, List.cons.injEq] at hsplit
    obtain ⟨rfl, _⟩ := hsplit
    rfl
  · simp only [List.cons_append, List.nil_append, List.cons.injEq] at hsplit
    obtain ⟨rfl, rfl, _⟩ := hsplit
    rfl
  · simp only [List.cons_append, List.nil_append, List.cons.injEq] at hsplit
    obtain ⟨_, _, h3⟩ := hsplit
    cases p1 <;> simp at h3

end

section
variable (num : NumOps) (bp : String → List Value → Outcome Value)
  (bn : String → List (String × Value × Nat) → Outcome Value)

/-- `l[1]` in the model of the code -/
example : ∃ r, eval num bp bn 0 (.filter (.list [.boolean true, .boolean false]) (.name "n")) [[("n", .num (Dec.ofNat 1))]]
    = .ok (r, [[("n", .num (Dec.ofNat 1))]]) := by
  refine ⟨_, filter_index_spec num bp bn 0 _ _ _ [.bool true, .bool false] (fun _ => .num (Dec.ofNat 1)) 1 rfl ?_ ?_
    (by decide) (by decide)⟩
  · intro v hv
    simp only [List.mem_cons, List.not_mem_nil, or_false] at hv
    rcases hv with rfl | rfl <;>
      simp [eval, itemScope, evalStep, bind_def, getEntry, Scope.getEntry, Ctx.get, pure_def]
  · simp [eval, evalStep, bind_def, getEntry, Scope.getEntry, Ctx.get, pure_def]

/-- `some x in [true, false] satisfies true` / `every …` -/
example (s : Scope) : ∃ r, eval num bp bn 0 (.some (.quantifiedContexts
      (quantItems [("x", .list [.boolean true, .boolean false], .list [.bool true, .bool false])]))
      (.satisfies (.boolean true))) s = .ok (r, s) := by
  refine ⟨_, (eval_some_every_product num bp bn 0 _ (.boolean true) s (fun _ => .bool true) ?_ (by simp) rfl ?_ ?_).1⟩
  · intro d hd; simp only [List.mem_cons, List.not_mem_nil, or_false] at hd; subst hd; rfl
  · intro d hd; simp only [List.mem_cons, List.not_mem_nil, or_false] at hd; subst hd
    simp [listOf, Iter.i64Max]
  · intro c _; rfl

/-- `for x in [true, false] return true` -/
example (s : Scope) : ∃ r, eval num bp bn 0 (.for (.iterationContexts
      ([ForDom.single "x" (.list [.boolean true, .boolean false]) (.list [.bool true, .bool false])].map ForDom.item))
      (.boolean true)) s = .ok (r, s) := by
  refine ⟨_, (eval_for_product num bp bn 0 _ [Iter.mkList "x" [.bool true, .bool false]] (.boolean true) s
    (fun _ _ => .bool true) ?_ rfl (by simp) ?_ ?_).1⟩
  · intro d hd; simp only [List.mem_cons, List.not_mem_nil, or_false] at hd; subst hd; rfl
  · intro st hst; simp only [List.mem_cons, List.not_mem_nil, or_false] at hst; subst hst
    simp [Iter.mkList, Iter.i64Max]
  · intro pre c post _; rfl

/-- `(function(x) x)(true)` and `(function(x) x)(x: true)`; `(function(x) x)()` -/
example (s : Scope) : ∃ r, eval num bp bn 1 (.functionInvocation
      (.functionDefinition (.formalParameters [.formalParameter (.parameterName "x") (.feelType .any)])
        (.functionBody (.name "x") false)) (.positionalParameters [.boolean true])) s = .ok (r, s) := by
  refine ⟨_, invocation_binds_coerced _ _ _ s [("x", .any)] (.name "x") .any [.bool true]
    (Value.coerced .any (.bool true)) rfl rfl rfl ?_⟩
  simp [mkEnv, argCtx, Ctx.set, evalStep, bind_def, getEntry, Scope.getEntry, Ctx.get, pure_def]

example (s : Scope) : eval num bp bn 1 (.functionInvocation
      (.functionDefinition (.formalParameters [.formalParameter (.parameterName "x") (.feelType .any)])
        (.functionBody (.name "x") false)) (.positionalParameters [])) s = .ok (.null, s) :=
  invocation_wrong_arity_null _ _ _ s [("x", .any)] (.name "x") .any [] rfl rfl (by simp)

/-- `(function(x) x)(true, false)`: a surplus argument makes the invocation null -/
example (s : Scope) : eval num bp bn 1 (.functionInvocation
      (.functionDefinition (.formalParameters [.formalParameter (.parameterName "x") (.feelType .any)])
        (.functionBody (.name "x") false)) (.positionalParameters [.boolean true, .boolean false])) s = .ok (.null, s) :=
  invocation_wrong_arity_null _ _ _ s [("x", .any)] (.name "x") .any [.bool true, .bool false] rfl rfl (by simp)

example (s : Scope) : ∃ o, eval num bp bn 1 (.functionInvocation
      (.functionDefinition (.formalParameters [.formalParameter (.parameterName "x") (.feelType .any)])
        (.functionBody (.name "x") false)) (.namedParameters [.namedParameter (.parameterName "x") (.boolean true)])) s = o :=
  ⟨_, named_eq_positional_invocation _ _ _ s [("x", .any)] (.name "x") .any
    [.namedParam (.paramName "x") (.bool true)] rfl rfl⟩

example : eval num bp bn 3 (.boolean true) [] = .ok (.bool true, []) :=
  eval_fuel_mono num bp bn 0 3 (by omega) _ _ _ rfl

/-- two scopes of different shapes with the same qualified bindings -/
example : Scope.equivDeep [[("a", .null), ("b", .bool true)]] [[("b", .bool true)], [("a", .null)]] := by
  apply equivDeep_of_equivVisible'
  intro k
  simp only [Scope.getEntry, List.reverse_cons, List.reverse_nil, List.nil_append, List.cons_append,
    List.findSome?_cons, List.findSome?_nil, Ctx.get]
  by_cases ha : "a" = k <;> by_cases hb : "b" = k <;> simp [ha, hb]

end
end Dmn.Eval

/-!
## Round 8: the callee of an invocation, `partial`, and the remaining constructs

* `invocation_callee_resolution` / `named_invocation_callee_resolution` (+ corollaries): an invocation
  resolves its callee name in the scope first; a built-in function only when no binding is visible
  (seeded change C01-15 hoisted the built-in lookup before the scope lookup).
* `partial_in_iteration` / `partial_first_iteration` / `for_result_item` / `for_return_partial`: the
  value of `partial` in iteration k is the list of the first k−1 results, `[]` in the first
  iteration (seeded change C01-17 left it unbound there).
* `list_spec_general`, `function_definition_spec`, `qualified_name_spec`, `range_spec`, `instance_of_spec`,
  `unary_test_spec`, `out_spec`, `literal_spec`: the constructs whose value was not yet stated here.
-/

namespace Dmn.Eval
open EvalM Value

section
variable (env : Env)

/-! ### the callee of an invocation -/

/-- **Which function a positional invocation `n(xs)` calls.** The callee name is resolved in the scope first — the innermost visible binding of `n`, whatever it is bound to — and a built-in function is meant only when NO binding of `n` is visible and `n` is one of the names of the regenerated table (`isBifName`, `Gen/BifNames.lean` from `Bif::from_str`); otherwise the invocation is null.  For every name, argument list and scope (`build_function_invocation_positional` evaluates the callee with `build_name`: `scope.get_entry` first, `Bif::from_str` second). -/
theorem invocation_callee_resolution (n : String) (xs : List Ast) (s : Scope) (vs : List Value)
    (hxs : evalList env xs s = .ok (vs, s)) :
    evalStep env (.functionInvocation (.name n) (.positionalParameters xs)) s =
      (match Scope.getEntry s n with
        | some fv => invokePositional env fv vs s
        | none => if isBifName n then lift (env.bifPos n vs) s else .ok (.null, s)) := by
  simp only [evalStep, bind_def, getEntry, pure_def, hxs]
  cases Scope.getEntry s n with
  | some fv => rfl
  | none =>
    by_cases hb : isBifName n = true
    · simp only [hb, if_true, invokePositional]
    · simp only [hb, invokePositional]; rfl

/-- The same for an invocation with named arguments `n(k₁: x₁, …)`. -/
theorem named_invocation_callee_resolution (n : String) (xs : List Ast) (s : Scope) (vs : List Value)
    (hxs : evalList env xs s = .ok (vs, s)) :
    evalStep env (.functionInvocation (.name n) (.namedParameters xs)) s =
      (match Scope.getEntry s n with
        | some fv => invokeNamed env fv (.namedParams (collectNamed vs 1 [])) s
        | none => if isBifName n then lift (env.bifNamed n (collectNamed vs 1 [])) s else .ok (.null, s)) := by
  simp only [evalStep, bind_def, getEntry, pure_def, hxs]
  cases Scope.getEntry s n with
  | some fv => rfl
  | none =>
    by_cases hb : isBifName n = true
    · simp only [hb, if_true, invokeNamed]
    · simp only [hb, invokeNamed]; rfl

/-- A binding of `n` in the top context of the scope (the argument context of a function body, the iteration context of a `for` / `some` / `every` body, the entries so far of a context literal, the item context of a filter) is the callee — whatever the contexts underneath bind under `n` and whether or not `n` is the name of a built-in function. -/
theorem invocation_callee_top_context (n : String) (xs : List Ast) (s : Scope) (c : Ctx) (fv : Value) (vs : List Value)
    (hc : Ctx.get c n = some fv)
    (hxs : evalList env xs (s ++ [c]) = .ok (vs, s ++ [c])) :
    evalStep env (.functionInvocation (.name n) (.positionalParameters xs)) (s ++ [c]) =
      invokePositional env fv vs (s ++ [c]) ∧
    evalStep env (.functionInvocation (.name n) (.namedParameters xs)) (s ++ [c]) =
      invokeNamed env fv (.namedParams (collectNamed vs 1 [])) (s ++ [c]) := by
  have hg : Scope.getEntry (s ++ [c]) n = some fv := by rw [scope_lookup_top_down, hc]
  constructor
  · rw [invocation_callee_resolution env n xs _ vs hxs, hg]
  · rw [named_invocation_callee_resolution env n xs _ vs hxs, hg]

/-- A visible binding of `n` to a value that is no function makes `n(…)` null — also when `n` is the name of a built-in function (the binding is not skipped in favour of the built-in). -/
theorem invocation_bound_not_function_null (n : String) (xs : List Ast) (s : Scope) (fv : Value) (vs : List Value)
    (hg : Scope.getEntry s n = some fv)
    (hxs : evalList env xs s = .ok (vs, s))
    (h1 : ∀ ps b rt, fv ≠ .fn ps b rt) (h2 : ∀ m, fv ≠ .bif m) :
    evalStep env (.functionInvocation (.name n) (.positionalParameters xs)) s = .ok (.null, s) ∧
    evalStep env (.functionInvocation (.name n) (.namedParameters xs)) s = .ok (.null, s) := by
  constructor
  · rw [invocation_callee_resolution env n xs _ vs hxs, hg]
    cases fv <;> first | rfl | exact absurd rfl (h1 _ _ _) | exact absurd rfl (h2 _)
  · rw [named_invocation_callee_resolution env n xs _ vs hxs, hg]
    cases fv <;> first | rfl | exact absurd rfl (h1 _ _ _) | exact absurd rfl (h2 _)

/-- The built-in function `n` is what `n(…)` invokes when no binding of `n` is visible. -/
theorem invocation_builtin_iff_unbound (n : String) (xs : List Ast) (s : Scope) (vs : List Value)
    (hb : isBifName n = true) (hg : Scope.getEntry s n = none)
    (hxs : evalList env xs s = .ok (vs, s)) :
    evalStep env (.functionInvocation (.name n) (.positionalParameters xs)) s = lift (env.bifPos n vs) s ∧
    evalStep env (.functionInvocation (.name n) (.namedParameters xs)) s =
      lift (env.bifNamed n (collectNamed vs 1 [])) s := by
  constructor
  · rw [invocation_callee_resolution env n xs _ vs hxs, hg]; simp only [hb, if_true]
  · rw [named_invocation_callee_resolution env n xs _ vs hxs, hg]; simp only [hb, if_true]


example : isBifName "sum" = true ∧ isBifName "date and time" = true ∧ isBifName "sum2" = false := by decide

/-- `sum()` in a scope that binds `sum` to `function() true` is `true` (the built-in `sum` is not
consulted), and null in a scope that binds `sum` to `true`. -/
example (num : NumOps) (bp : String → List Value → Outcome Value)
    (bn : String → List (String × Value × Nat) → Outcome Value) (s : Scope) :
    eval num bp bn 1 (.functionInvocation (.name "sum") (.positionalParameters []))
      (s ++ [[("sum", .fn [] (.boolean true) .any)]]) =
        .ok (Value.coerced .any (.bool true), s ++ [[("sum", .fn [] (.boolean true) .any)]]) := by
  rw [eval, (invocation_callee_top_context _ "sum" [] s [("sum", .fn [] (.boolean true) .any)]
    (.fn [] (.boolean true) .any) [] (by simp [Ctx.get]) rfl).1]
  simp [invokePositional, bindPositional, callFunction, bracket, mkEnv, bind_def, push, pop, pure_def,
    evalStep, Scope.push, Scope.pop]

example (s : Scope) : evalStep env (.functionInvocation (.name "sum") (.positionalParameters []))
      (s ++ [[("sum", .bool true)]]) = .ok (.null, s ++ [[("sum", .bool true)]]) :=
  (invocation_bound_not_function_null env "sum" [] _ (.bool true) []
    (by rw [scope_lookup_top_down]; simp [Ctx.get]) rfl (by intro _ _ _ h; cases h) (by intro _ h; cases h)).1

example : evalStep env (.functionInvocation (.name "sum") (.positionalParameters [])) [] =
    lift (env.bifPos "sum" []) [] :=
  (invocation_builtin_iff_unbound env "sum" [] [] [] (by decide) rfl rfl).1

/-! ### `partial` -/

/-- **The value of `partial` in iteration k of a `for`** (k = `pre.length` + 1, the iteration contexts being `pre ++ c :: post`): the list of the results of the iterations 1 … k−1, i.e. the first k−1 items of the final result — whatever the enclosing scope `s` or the iteration context `c` bind under the name `partial`. -/
theorem partial_in_iteration (bv : Ctx → List Value → Value) (s : Scope) (pre : List Ctx) (c : Ctx) (post : List Ctx) :
    evalStep env (.name "partial") (forScope s c (forFold bv pre [])) =
      .ok (.list ((forFold bv (pre ++ c :: post) []).take pre.length), forScope s c (forFold bv pre [])) := by
  rw [forFold_take, name_spec]
  simp only [forScope, scope_lookup_top_down, Ctx.get_set, if_true]

/-- In the first iteration `partial` is the empty list (not the value an enclosing scope binds under that name). -/
theorem partial_first_iteration (s : Scope) (c : Ctx) :
    evalStep env (.name "partial") (forScope s c []) = .ok (.list [], forScope s c []) := by
  rw [name_spec]
  simp only [forScope, scope_lookup_top_down, Ctx.get_set, if_true]

/-- The recursion equation of the result `r` of a `for`: item k of `r` is the value of the body in iteration context k with `partial` = the first k−1 items of `r`.  (With `for_length` it determines `r`.) -/
theorem for_result_item (bv : Ctx → List Value → Value) (pre : List Ctx) (c : Ctx) (post : List Ctx) :
    (forFold bv (pre ++ c :: post) [])[pre.length]? =
      some (bv c ((forFold bv (pre ++ c :: post) []).take pre.length)) := by
  rw [forFold_item, forFold_take]

/-- `for … return partial`: item k of the result is the list of the items before it (`[[], [[]], [[], [[]]], …]`), for every list of domains. -/
theorem for_return_partial (doms : List ForDom) (sts : List Iter.State) (s : Scope) (cs : List Ctx)
    (hd : ∀ d ∈ doms, d.Evaluates env s)
    (hst : doms.map ForDom.state? = sts.map some)
    (hit : env.iter (tagFrom 0 sts) = .ok cs) :
    evalStep env (.for (.iterationContexts (doms.map ForDom.item)) (.name "partial")) s =
      .ok (.list (forFold (fun _ r => .list r) cs []), s) ∧
    ∀ k, k < cs.length → (forFold (fun _ r => .list r) cs [])[k]? =
      some (.list ((forFold (fun _ r => .list r) cs []).take k)) := by
  constructor
  · apply for_spec env doms sts (.name "partial") s cs (fun _ r => .list r) hd hst hit
    intro pre c post _
    rw [name_spec]
    simp only [forScope, scope_lookup_top_down, Ctx.get_set, if_true]
  · intro k hk
    have hsplit : cs = cs.take k ++ cs[k] :: cs.drop (k + 1) := by
      rw [List.getElem_cons_drop]; exact (List.take_append_drop k cs).symm
    have hlen : (cs.take k).length = k := by rw [List.length_take]; omega
    have h := for_result_item (fun _ r => Value.list r) (cs.take k) cs[k] (cs.drop (k + 1))
    rw [← hsplit, hlen] at h
    exact h


/-- `for x in [true, false] return partial` -/
example (num : NumOps) (bp : String → List Value → Outcome Value)
    (bn : String → List (String × Value × Nat) → Outcome Value) (s : Scope) :
    ∃ cs, evalStep (mkEnv num bp bn Variant.spec 0) (.for (.iterationContexts
      ([ForDom.single "x" (.list [.boolean true, .boolean false]) (.list [.bool true, .bool false])].map ForDom.item))
      (.name "partial")) s = .ok (.list (forFold (fun _ r => .list r) cs []), s) ∧ cs.length = 2 := by
  refine ⟨_, (for_return_partial _ _ [Iter.mkList "x" [.bool true, .bool false]] s _ ?_ rfl rfl).1, ?_⟩
  · intro d hd; simp only [List.mem_cons, List.not_mem_nil, or_false] at hd; subst hd; rfl
  · simp [tagFrom, insertByPos, Iter.product, Iter.mkList, Iter.domain]

/-! ### the remaining constructs -/

/-- A list literal (and the expression list / negated list of a unary test) of any length: the items, in order, each evaluated in the scope of the literal. -/
theorem list_spec_general (xs : List Ast) (s : Scope) (f : Ast → Value)
    (h : ∀ x ∈ xs, evalStep env x s = .ok (f x, s)) :
    evalStep env (.list xs) s = .ok (.list (xs.map f), s) ∧
    evalStep env (.expressionList xs) s = .ok (.exprList (xs.map f), s) ∧
    evalStep env (.negatedList xs) s = .ok (.negList (xs.map f), s) := by
  simp only [evalStep, bind_def, evalList_map env xs s f h, pure_def, and_self]

/-- **Function definition**: the value of `function(p₁: t₁, …) body` is the triple (formal parameters, the syntax tree of the body, result type `Any`) — it records NO scope: the names of the body are resolved when the function is invoked, in the scope of the call (`invocation_binds_coerced`; dynamic scoping, known finding F68). -/
theorem function_definition_spec (ps : List (String × FType)) (body : Ast) (s : Scope) :
    evalStep env (.functionDefinition (.formalParameters (ps.map paramAst)) (.functionBody body false)) s =
      .ok (.fn ps body .any, s) := by
  simp only [evalStep, bind_def, evalList_params env ps s, pure_def, Bool.false_eq_true, if_false]
  simp [List.filterMap_map, Function.comp_def]

/-- A function definition with an external body (`external {java: …}`) is null. -/
theorem function_definition_external_null (ps body : Ast) (s : Scope) (pv : Value)
    (hp : evalStep env ps s = .ok (pv, s)) :
    evalStep env (.functionDefinition ps (.functionBody body true)) s = .ok (.null, s) := by
  simp only [evalStep, bind_def, hp, if_true, pure_def]

/-- **Qualified name** `a.b.c` (an endpoint of a range literal): the first segment is resolved like a name — the innermost visible binding — and the remaining segments are looked up inside the context found (`visibleSearchDeep`); null when a segment is missing or the value on the way is not a context. -/
theorem qualified_name_spec (segs : List String) (s : Scope) :
    evalStep env (.qualifiedName (segs.map Ast.qualifiedNameSegment)) s =
      .ok ((visibleSearchDeep s segs).getD .null, s) := by
  simp only [evalStep, bind_def, evalList_segments env segs s, getScope, pure_def,
    scopeSearchDeep_eq_visible']
  simp [List.filterMap_map, Function.comp_def]

/-- A range literal is the range of its endpoint values with the closedness written. -/
theorem range_spec (a b : Ast) (lc rc : Bool) (s : Scope) (va vb : Value)
    (ha : evalStep env a s = .ok (va, s)) (hb : evalStep env b s = .ok (vb, s)) :
    evalStep env (.range (.intervalStart a lc) (.intervalEnd b rc)) s = .ok (.range va lc vb rc, s) := by
  simp only [evalStep, bind_def, ha, hb, pure_def, rangeV]

/-- `e instance of T` is `instanceOfV` of the value and the type (C16 states the relation). -/
theorem instance_of_spec (a t : Ast) (s : Scope) (va vt : Value)
    (ha : evalStep env a s = .ok (va, s)) (ht : evalStep env t s = .ok (vt, s)) :
    evalStep env (.instanceOf a t) s = .ok (instanceOfV va vt, s) := by
  simp only [evalStep, bind_def, ha, ht, pure_def]

/-- The unary tests `< e`, `<= e`, `> e`, `>= e` carry the value of `e`. -/
theorem unary_test_spec (a : Ast) (s : Scope) (va : Value) (ha : evalStep env a s = .ok (va, s)) :
    evalStep env (.unaryLt a) s = .ok (.unaryLt va, s) ∧ evalStep env (.unaryLe a) s = .ok (.unaryLe va, s) ∧
    evalStep env (.unaryGt a) s = .ok (.unaryGt va, s) ∧ evalStep env (.unaryGe a) s = .ok (.unaryGe va, s) := by
  simp only [evalStep, bind_def, ha, pure_def, and_self]

/-- `build_out` (output clause selected by an input test): the value of `a` when `a in b` is true, else null (`a` is evaluated twice). -/
theorem out_spec (a b : Ast) (s : Scope) (va vb : Value)
    (ha : evalStep env a s = .ok (va, s)) (hb : evalStep env b s = .ok (vb, s)) :
    evalStep env (.out a b) s = .ok (outV (inV va vb) va, s) := by
  simp only [evalStep, bind_def, ha, hb, pure_def]

/-- Literals denote themselves. -/
theorem literal_spec (s : Scope) (b : Bool) (t : String) (before after : String) :
    evalStep env (.boolean b) s = .ok (.bool b, s) ∧ evalStep env (.string t) s = .ok (.str t, s) ∧
    evalStep env .null s = .ok (.null, s) ∧
    evalStep env (.numeric before after) s = .ok (numericV env.num before after, s) := by
  simp only [evalStep, pure_def, and_self]


example (s : Scope) : evalStep env (.list [.boolean true, .null, .boolean false]) s =
    .ok (.list [.bool true, .null, .bool false], s) := by
  have h := (list_spec_general env [.boolean true, .null, .boolean false] s
    (fun x => match x with | .boolean b => .bool b | _ => .null) (by
      intro x hx
      simp only [List.mem_cons, List.not_mem_nil, or_false] at hx
      rcases hx with rfl | rfl | rfl <;> rfl)).1
  simpa using h

example (s : Scope) : evalStep env (.range (.intervalStart .null true) (.intervalEnd (.boolean true) false)) s =
    .ok (.range .null true (.bool true) false, s) := range_spec env _ _ _ _ s _ _ rfl rfl

example (s : Scope) : evalStep env (.instanceOf .null (.feelType .null)) s = .ok (instanceOfV .null (.feelType .null), s) :=
  instance_of_spec env _ _ s _ _ rfl rfl

example (s : Scope) : evalStep env (.unaryLt .null) s = .ok (.unaryLt .null, s) := (unary_test_spec env _ s _ rfl).1

example (s : Scope) : evalStep env (.out .null .null) s = .ok (outV (inV .null .null) .null, s) :=
  out_spec env _ _ s _ _ rfl rfl

example (s : Scope) : evalStep env (.functionDefinition (.formalParameters []) (.functionBody .null true)) s = .ok (.null, s) :=
  function_definition_external_null env _ _ s _ rfl

end
end Dmn.Eval

/-!
## Round 8 (continued): the free-names form of the last clause

-- FULL STATEMENT (not provable of the current code, finding F68-dynamic-scope):
--   ∀ fuel a s₁ s₂, namesIn G a → AgreeOn G s₁ s₂ →
--     (eval num bp bn fuel a s₁).map Prod.fst = (eval num bp bn fuel a s₂).map Prod.fst
-- A function value carries no environment (`function_definition_spec`) and its body is evaluated in the
-- scope of the call (`invocation_binds_coerced`), so the value of `f()` depends on names that do not
-- occur in it: `eval_depends_on_free_names_counterexample`.  What is proved, for every syntax tree:
-- `eval_depends_on_free_names` — the statement with the one extra hypothesis that the function bodies
-- entered look up only names in `G` too (the hereditary form: "the names of the expression and,
-- through the function values it invokes, of their bodies"); `evalStep_depends_on_looked_up_names` — the
-- same for any environment whose function-body evaluator is insensitive; and
-- `eval_depends_on_free_names_partial` — the special case of evaluations that enter no function body.
-- (`namesIn` counts every looked-up occurrence of a name, bound occurrences included: agreeing on a
-- name that the expression binds itself is harmless and keeps the statement free of binder bookkeeping.)
-/

namespace Dmn.Eval
open EvalM Value

/-- **The outcome depends only on the values bound to the names the expression looks up.**  `namesIn G a`: every name occurring in `a` in a position where it is looked up in the scope (plain names, the first segment of a qualified name — not the name after a path's dot, not a variable being declared, not a parameter name) satisfies `G`; `AgreeOn G s₁ s₂`: the two scopes bind the names in `G` alike (they may differ in everything else: shape, other names, what is shadowed).  Then the two evaluations have the same value, the same panic or the same divergence — for every syntax tree (filters, iterations, contexts, invocations of built-ins included), provided the function bodies that are entered do so as well (`hc`; at fuel 0 none is entered). -/
theorem evalStep_depends_on_looked_up_names (G : String → Bool) (env : Env)
    (hc : ∀ b, SameOnAgree G (env.call b) (env.call b))
    (a : Ast) (hn : namesIn G a = true) (s₁ s₂ : Scope) (h : AgreeOn G s₁ s₂) :
    (evalStep env a s₁).map Prod.fst = (evalStep env a s₂).map Prod.fst := by
  have hr := g_evalStep (freeRel G) env env.call hc a hn
  rw [withCall_self] at hr
  exact hr.2.2 s₁ s₂ h

/-- **The last clause of the property in its free-names form, for every evaluation that does not enter the body of a function value** (`hnd`: with no fuel for function bodies the evaluation does not run out of fuel): at every fuel the outcome in two scopes that agree on the names the expression looks up is the same.  (The excluded evaluations are exactly those of `eval_depends_on_free_names_counterexample`.) -/
theorem eval_depends_on_free_names_partial (G : String → Bool) (num : NumOps)
    (bp : String → List Value → Outcome Value) (bn : String → List (String × Value × Nat) → Outcome Value)
    (fuel : Nat) (a : Ast) (hn : namesIn G a = true) (s₁ s₂ : Scope) (h : AgreeOn G s₁ s₂)
    (hnd : eval num bp bn 0 a s₁ ≠ .diverge) :
    (eval num bp bn fuel a s₁).map Prod.fst = (eval num bp bn fuel a s₂).map Prod.fst := by
  have h0 : (eval num bp bn 0 a s₁).map Prod.fst = (eval num bp bn 0 a s₂).map Prod.fst :=
    (evalWith_zero_sameOnAgree G num bp bn Variant.code a hn).2.2 s₁ s₂ h
  have e1 : eval num bp bn fuel a s₁ = eval num bp bn 0 a s₁ := by
    rcases eval_fuel_only_diverge num bp bn 0 fuel (Nat.zero_le _) a s₁ with hd | he
    · exact absurd hd hnd
    · exact he
  have e2 : eval num bp bn fuel a s₂ = eval num bp bn 0 a s₂ := by
    rcases eval_fuel_only_diverge num bp bn 0 fuel (Nat.zero_le _) a s₂ with hd | he
    · rw [hd] at h0
      cases h1 : eval num bp bn 0 a s₁ with
      | ok r => rw [h1] at h0; simp [Outcome.map] at h0
      | panic p => rw [h1] at h0; simp [Outcome.map] at h0
      | diverge => exact absurd h1 hnd
    · exact he
  rw [e1, e2, h0]

/-- **The last clause of the property in its free-names form, hereditarily through function values**:
two scopes that bind alike every name in `G` give the same value, the same panic or the same divergence
for every expression that looks up only names in `G` — at every fuel — provided every function body
*entered during the evaluation* looks up only names in `G` as well (`hg`: the evaluator that refuses such
bodies, `evalG`, does not refuse; bodies of functions defined in the expression itself pass by
construction, bodies of function values taken from the scope are where dynamic scoping bites:
`eval_depends_on_free_names_counterexample`).  Proof: under the guard the outcome depends on `G` only
(`evalG_sameOnAgree`, the guarded relational induction `g_evalStep` over all node kinds and induction on
fuel), and the evaluator proper refines the guarded one (`eval_refinesG`). -/
theorem eval_depends_on_free_names (G : String → Bool) (num : NumOps)
    (bp : String → List Value → Outcome Value) (bn : String → List (String × Value × Nat) → Outcome Value)
    (fuel : Nat) (a : Ast) (hn : namesIn G a = true) (s₁ s₂ : Scope) (h : AgreeOn G s₁ s₂)
    (hg : evalG G num bp bn fuel a s₁ ≠ .panic guardSite) :
    (eval num bp bn fuel a s₁).map Prod.fst = (eval num bp bn fuel a s₂).map Prod.fst := by
  have h0 : (evalG G num bp bn fuel a s₁).map Prod.fst = (evalG G num bp bn fuel a s₂).map Prod.fst :=
    (evalG_sameOnAgree G num bp bn fuel a hn).2.2 s₁ s₂ h
  have e1 : eval num bp bn fuel a s₁ = evalG G num bp bn fuel a s₁ := by
    rcases eval_refinesG G num bp bn fuel a s₁ with hd | he
    · exact absurd hd hg
    · exact he
  have e2 : eval num bp bn fuel a s₂ = evalG G num bp bn fuel a s₂ := by
    rcases eval_refinesG G num bp bn fuel a s₂ with hd | he
    · rw [hd] at h0
      cases h1 : evalG G num bp bn fuel a s₁ with
      | ok r => rw [h1] at h0; simp [Outcome.map] at h0
      | panic p =>
        rw [h1] at h0
        simp only [Outcome.map, Outcome.panic.injEq] at h0
        rw [h0] at h1
        exact absurd h1 hg
      | diverge => rw [h1] at h0; simp [Outcome.map] at h0
    · exact he
  rw [e1, e2, h0]

/-- `{g: function(x) x + a}`-like: a function defined in the expression itself may be entered. `(function() a)()`
in two scopes that differ on `b`. -/
example (num : NumOps) (bp : String → List Value → Outcome Value)
    (bn : String → List (String × Value × Nat) → Outcome Value) :
    let e : Ast := .functionInvocation (.functionDefinition (.formalParameters []) (.functionBody (.name "a") false))
      (.positionalParameters [])
    (eval num bp bn 1 e [[("a", .null), ("b", .bool true)]]).map Prod.fst =
    (eval num bp bn 1 e [[("b", .bool false)], [("a", .null)]]).map Prod.fst := by
  intro e
  apply eval_depends_on_free_names (fun k => k == "a") num bp bn 1 e (by decide)
  · intro k hk
    have : k = "a" := by simpa using hk
    subst this
    simp [Scope.getEntry, Ctx.get]
  · simp [e, evalG, mkEnvG, evalStep, evalList, bind_def, getEntry, Scope.getEntry, pure_def,
      invokePositional,
      bindPositional, callFunction, bracket, push, pop, Scope.push, Scope.pop, namesIn]


/-- Known finding F68-dynamic-scope at the level of this clause: the scopes agree on every name occurring in `f()`, and the results differ — the body of the function value bound to `f` reads `y` in the scope of the call. -/
theorem eval_depends_on_free_names_counterexample (num : NumOps) (bp : String → List Value → Outcome Value)
    (bn : String → List (String × Value × Nat) → Outcome Value) :
    let f : Value := .fn [] (.name "y") .any
    let s₁ : Scope := [[("f", f), ("y", .bool true)]]
    let s₂ : Scope := [[("f", f), ("y", .bool false)]]
    let e : Ast := .functionInvocation (.name "f") (.positionalParameters [])
    let G : String → Bool := fun k => k == "f"
    namesIn G e = true ∧ AgreeOn G s₁ s₂ ∧
      eval num bp bn 1 e s₁ = .ok (.bool true, s₁) ∧ eval num bp bn 1 e s₂ = .ok (.bool false, s₂) ∧
      evalG G num bp bn 1 e s₁ = .panic guardSite := by
  refine ⟨by decide, ?_, ?_, ?_, ?_⟩
  · intro k hk
    have : k = "f" := by simpa using hk
    subst this
    simp [Scope.getEntry, Ctx.get]
  · simp [eval, mkEnv, evalStep, evalList, bind_def, getEntry, Scope.getEntry, Ctx.get, pure_def,
      invokePositional, bindPositional, callFunction, bracket, push, pop, Scope.push, Scope.pop, coerced_any', List.findSome?]
  · simp [eval, mkEnv, evalStep, evalList, bind_def, getEntry, Scope.getEntry, Ctx.get, pure_def,
      invokePositional, bindPositional, callFunction, bracket, push, pop, Scope.push, Scope.pop, coerced_any', List.findSome?]
  · simp [evalG, mkEnvG, evalStep, evalList, bind_def, getEntry, Scope.getEntry, Ctx.get, pure_def,
      invokePositional, bindPositional, callFunction, bracket, push, Scope.push, namesIn, EvalM.panic]

/-- non-vacuity: `[a, b][item = x]`-like trees are covered; here `if a then a else a` in two scopes that
differ on `b`, and `namesIn` rejects a tree that looks up `b`. -/
example (num : NumOps) (bp : String → List Value → Outcome Value)
    (bn : String → List (String × Value × Nat) → Outcome Value) (fuel : Nat) :
    (eval num bp bn fuel (.if (.name "a") (.name "a") (.name "a")) [[("a", .null), ("b", .bool true)]]).map Prod.fst =
    (eval num bp bn fuel (.if (.name "a") (.name "a") (.name "a")) [[("b", .bool false)], [("a", .null)]]).map Prod.fst := by
  apply eval_depends_on_free_names_partial (fun k => k == "a") num bp bn fuel _ (by decide)
  · intro k hk
    have : k = "a" := by simpa using hk
    subst this
    simp [Scope.getEntry, Ctx.get]
  · simp [eval, evalStep, bind_def, getEntry, Scope.getEntry, Ctx.get, pure_def, ifBranch]

example : namesIn (fun k => k == "a") (.add (.name "a") (.name "b")) = false ∧
    namesIn (fun k => k == "a") (.path (.name "a") (.name "b")) = true ∧
    namesIn (fun k => k == "a") (.qualifiedName [.qualifiedNameSegment "a", .qualifiedNameSegment "b"]) = true := by
  decide

end Dmn.Eval

/-!
## Binders: the names an expression binds itself need not be bound alike

`eval_depends_on_free_names` asks the two scopes to agree on every name that is looked up, the names the
expression binds itself included.  The theorems below are the binder rules of the sharper statement (over the
syntactically free names), one per binding construct, each for ALL bodies and ALL scopes: what is evaluated
between `push c` and `pop` may look up the keys of `c` whatever the scopes bind under them
(`bracket_binds_keys`); the body of a `for` may look up its variables and `partial`
(`for_binds_its_variables`), the satisfies-expression of a `some` / `every` its variables
(`quantified_binds_its_variables`).  (Not yet assembled into one induction over all trees: the guard on
function bodies of `evalG` would have to move with the binders as well.)
-/

namespace Dmn.Eval
open EvalM Value

/-- **Whatever is evaluated inside a pushed context may look up that context's keys**: if the tree looks up
only names in `G` or keys of `c`, two scopes that agree on `G` — and bind the keys of `c` in any way, or not at
all — give `push c; evaluate; pop` the same outcome.  (`c`: the iteration context of a `for` / `some` / `every`,
the argument context of an invocation, the item context of a filter, the entries so far of a context literal.) -/
theorem bracket_binds_keys (G : String → Bool) (env : Env) (c : Ctx)
    (hc : ∀ b, SameOnAgree (withKeys G c) (env.call b) (env.call b))
    (a : Ast) (hn : namesIn (withKeys G c) a = true) (s₁ s₂ : Scope) (h : AgreeOn G s₁ s₂) :
    (bracket c (evalStep env a) s₁).map Prod.fst = (bracket c (evalStep env a) s₂).map Prod.fst := by
  have hr := g_evalStep (freeRel (withKeys G c)) env env.call hc a hn
  rw [withCall_self] at hr
  exact (sameOnAgree_bracket_binds c hr).2.2 s₁ s₂ h

/-- non-vacuity: the body `x` under the pushed context `{x: true}`, in two scopes that bind `x` differently
and agree on nothing. -/
example (env : Env) (hc : ∀ b, SameOnAgree (withKeys (fun _ => false) [("x", .bool true)]) (env.call b) (env.call b)) :
    (bracket [("x", .bool true)] (evalStep env (.name "x")) [[("x", .null)]]).map Prod.fst =
      (bracket [("x", .bool true)] (evalStep env (.name "x")) [[("x", .bool false)], []]).map Prod.fst :=
  bracket_binds_keys (fun _ => false) env _ hc _ (by decide) _ _ (fun _ hk => by simp at hk)

/-- **A `for` binds its variables and `partial`**: the domains look up names in `G`, the body names in `G`, the
iteration variables `V` and `partial`; two scopes that agree on `G` give the same outcome, whatever they bind
under the variables' names and under `partial`.  `hiter`: every context the iteration engine hands out binds
every variable (`run_eq_product`: the contexts are the tuples of `Iter.product`). -/
theorem for_binds_its_variables (G V : String → Bool) (env : Env)
    (hc : ∀ b, SameOnAgree G (env.call b) (env.call b))
    (items : List Ast) (body : Ast)
    (hd : namesInIteration G items = true)
    (hb : namesIn (fun k => G k || V k || k == "partial") body = true)
    (hiter : ∀ sts cs, env.iter sts = .ok cs → ∀ c ∈ cs, ∀ k, V k = true → (Ctx.get c k).isSome = true)
    (s₁ s₂ : Scope) (h : AgreeOn G s₁ s₂) :
    (evalStep env (.for (.iterationContexts items) body) s₁).map Prod.fst =
      (evalStep env (.for (.iterationContexts items) body) s₂).map Prod.fst := by
  have hG' : ∀ k, G k = true → (fun k => G k || V k || k == "partial") k = true := by
    intro k hk; simp [hk]
  have hbody := g_evalStep (freeRel _) env env.call (fun b => sameOnAgree_mono hG' (hc b)) body hb
  rw [withCall_self] at hbody
  have hdom := g_evalIteration (freeRel G) env env.call hc items 0 hd
  rw [withCall_self] at hdom
  have hall : SameOnAgree G (evalStep env (.for (.iterationContexts items) body))
      (evalStep env (.for (.iterationContexts items) body)) := by
    simp only [evalStep]
    refine sameOnAgree_bind hdom (fun states => ?_)
    split
    · exact ⟨pres_pure _, pres_pure _, fun _ _ _ => rfl⟩
    · exact ⟨pres_pure _, pres_pure _, fun _ _ _ => rfl⟩
    · rename_i sts
      refine sameOnAgree_lift_bind (env.iter sts) (fun cs hi => ?_)
      exact sameOnAgree_bind (forLoop_binds V hbody cs (hiter sts cs hi) [])
        (fun _ => ⟨pres_pure _, pres_pure _, fun _ _ _ => rfl⟩)
  exact hall.2.2 s₁ s₂ h

/-- **A `some` / `every` binds its variables**: the domains look up names in `G`, the satisfies-expression
names in `G` and the quantified variables `V`; two scopes that agree on `G` give the same outcome, whatever
they bind under the variables' names. -/
theorem quantified_binds_its_variables (G V : String → Bool) (env : Env)
    (hc : ∀ b, SameOnAgree G (env.call b) (env.call b))
    (items : List Ast) (sat : Ast) (isSome : Bool)
    (hd : namesInQuantified G items = true)
    (hb : namesIn (fun k => G k || V k) sat = true)
    (hiter : ∀ sts cs, env.iter sts = .ok cs → ∀ c ∈ cs, ∀ k, V k = true → (Ctx.get c k).isSome = true)
    (s₁ s₂ : Scope) (h : AgreeOn G s₁ s₂) :
    let e : Ast := if isSome then .some (.quantifiedContexts items) (.satisfies sat)
      else .every (.quantifiedContexts items) (.satisfies sat)
    (evalStep env e s₁).map Prod.fst = (evalStep env e s₂).map Prod.fst := by
  have hG' : ∀ k, G k = true → (fun k => G k || V k) k = true := by
    intro k hk; simp [hk]
  have hsat := g_evalStep (freeRel _) env env.call (fun b => sameOnAgree_mono hG' (hc b)) sat hb
  rw [withCall_self] at hsat
  have hdom := g_evalQuantified (freeRel G) env env.call hc items 0 hd
  rw [withCall_self] at hdom
  intro e
  have hall : SameOnAgree G (evalStep env e) (evalStep env e) := by
    cases isSome
    · simp only [e, Bool.false_eq_true, if_false, evalStep]
      refine sameOnAgree_bind hdom (fun states => ?_)
      split
      · exact ⟨pres_pure _, pres_pure _, fun _ _ _ => rfl⟩
      · exact ⟨pres_pure _, pres_pure _, fun _ _ _ => rfl⟩
      · rename_i sts
        refine sameOnAgree_lift_bind (env.iter sts) (fun cs hi => ?_)
        exact sameOnAgree_bind (quantLoop_binds V hsat false cs (hiter sts cs hi) _)
          (fun _ => ⟨pres_pure _, pres_pure _, fun _ _ _ => rfl⟩)
    · simp only [e, if_true, evalStep]
      refine sameOnAgree_bind hdom (fun states => ?_)
      split
      · exact ⟨pres_pure _, pres_pure _, fun _ _ _ => rfl⟩
      · exact ⟨pres_pure _, pres_pure _, fun _ _ _ => rfl⟩
      · rename_i sts
        refine sameOnAgree_lift_bind (env.iter sts) (fun cs hi => ?_)
        exact sameOnAgree_bind (quantLoop_binds V hsat true cs (hiter sts cs hi) _)
          (fun _ => ⟨pres_pure _, pres_pure _, fun _ _ _ => rfl⟩)
  exact hall.2.2 s₁ s₂ h

/-- non-vacuity of `for_binds_its_variables` and `quantified_binds_its_variables`: `for x in d return x` and
`some x in d satisfies x` in two scopes that agree on `d` and bind `x` differently. -/
example :
    (evalStep binderWitnessEnv (.for (.iterationContexts [.iterationContextSingle (.name "x") (.name "d")]) (.name "x"))
        [[("d", .null), ("x", .null)]]).map Prod.fst =
    (evalStep binderWitnessEnv (.for (.iterationContexts [.iterationContextSingle (.name "x") (.name "d")]) (.name "x"))
        [[("x", .bool false)], [("d", .null)]]).map Prod.fst := by
  apply for_binds_its_variables (fun k => k == "d") (fun k => k == "x") binderWitnessEnv
    (fun _ => ⟨pres_diverge, pres_diverge, fun _ _ _ => rfl⟩) _ _ (by decide) (by decide) binderWitness_iter
  intro k hk
  have : k = "d" := by simpa using hk
  subst this
  simp [Scope.getEntry, Ctx.get]

example :
    (evalStep binderWitnessEnv (.some (.quantifiedContexts [.quantifiedContext (.name "x") (.name "d")]) (.satisfies (.name "x")))
        [[("d", .null), ("x", .null)]]).map Prod.fst =
    (evalStep binderWitnessEnv (.some (.quantifiedContexts [.quantifiedContext (.name "x") (.name "d")]) (.satisfies (.name "x")))
        [[("x", .bool false)], [("d", .null)]]).map Prod.fst := by
  apply quantified_binds_its_variables (fun k => k == "d") (fun k => k == "x") binderWitnessEnv
    (fun _ => ⟨pres_diverge, pres_diverge, fun _ _ _ => rfl⟩) _ _ true (by decide) (by decide) binderWitness_iter
  intro k hk
  have : k = "d" := by simpa using hk
  subst this
  simp [Scope.getEntry, Ctx.get]

end Dmn.Eval

/-!
## Round 10: the sharper free-names statement — over the *syntactically free* names

`freeIn G a` (`Model/EvalNames.lean`): every name `a` looks up outside the constructs of `a` that bind it is in `G`.
The binders are the code's: the body of a `for` sees its variables and `partial`, the satisfies-expression of a
`some` / `every` its variables, a context entry the keys of the entries before it, a function body the parameters
of the invocation that enters it.  The binder rules of the previous section are assembled into one induction over
all 75 node kinds in which the name set grows under the binders (`Lemmas/EvalFreeSyn.lean`, `b_evalStep`); what
makes an iteration a binder is proved of the iteration engine itself (`iteration_contexts_bind_every_variable`).

-- FULL STATEMENT (not provable of the current code):
--   ∀ fuel a s₁ s₂, freeIn' G a → AgreeOn G s₁ s₂ → same outcome, with `freeIn'` also treating a filter
--   as a binder of `item` and of the entries of a filtered context, and without the guard.
-- Not provable for two reasons.  (1) Dynamic scoping of function values (finding F68), as for
-- `eval_depends_on_free_names`: the guard on the function bodies entered stays (`evalB`, `guardB`: the body's free
-- names are in `G` or are parameters bound by this invocation).  (2) `build_filter` evaluates the filter
-- expression once more in the ENCLOSING scope, to see whether it is an index: `item` is looked up outside the
-- filter as well (`filter_does_not_bind_item_counterexample`, proposed finding F-C01-filter-index-probe).  What is
-- provable about filters is proved: every per-item evaluation binds `item` and the item's entries
-- (`filter_item_evaluations_bind_item`), and a filter on an operand that is not a list binds `item`
-- (`filter_binds_item_for_scalar_operand`); in `freeIn` a filter binds nothing.
-/

namespace Dmn.Eval
open EvalM Value

/-- **Every iteration context `FeelIterator::run` hands out binds every iteration variable** — for any number of
domains of any size (no `2^63` envelope as in `run_eq_product`), ranges and non-empty lists (`Iter.Writes`: the states
`build_for` / `build_some` / `build_every` create, `evalIteration_states`).  This is what makes `for`, `some` and
`every` binders: a body never sees the enclosing scope's binding of a variable it declares. -/
theorem iteration_contexts_bind_every_variable (states : List Iter.State) (cs : List Ctx)
    (hw : ∀ st ∈ states, Iter.Writes st) (h : Iter.run states = .ok cs) :
    ∀ c ∈ cs, ∀ st ∈ states, (Ctx.get c st.name).isSome = true :=
  Iter.run_binds states cs hw h

example : Iter.Writes (Iter.mkList "x" [.null]) ∧ Iter.Writes (Iter.mkRange "i" 3 1) :=
  ⟨Iter.writes_mkList _ _ (by simp), Iter.writes_mkRange _ _ _⟩

/-- **The induction over all trees, for any environment**: if the function-body evaluator, inside the bracket of
an argument context, depends only on the names in `G` (`CallOk`) and the iteration engine binds the variables
(`IterBinds`), then every syntax tree whose syntactically free names are in `G` has the same outcome in scopes
that agree on `G` — whatever the scopes bind under the names of its iteration variables, `partial`, quantified
variables and earlier context entries. -/
theorem evalStep_depends_on_syntactically_free_names (G : String → Bool) (env : Env)
    (hc : CallOk G env) (hi : IterBinds env)
    (a : Ast) (hn : freeIn G a = true) (s₁ s₂ : Scope) (h : AgreeOn G s₁ s₂) :
    (evalStep env a s₁).map Prod.fst = (evalStep env a s₂).map Prod.fst :=
  (b_evalStep G env hc hi a G (fun _ hk => hk) hn).2.2 s₁ s₂ h

/-- non-vacuity: the environments of the model satisfy `CallOk` and `IterBinds` (the guarded one at every fuel) -/
example (G : String → Bool) (num : NumOps) (bp : String → List Value → Outcome Value)
    (bn : String → List (String × Value × Nat) → Outcome Value) (n : Nat) :
    CallOk G (mkEnvB G num bp bn Variant.code n) ∧ IterBinds (mkEnvB G num bp bn Variant.code n) :=
  ⟨callB_ok G num bp bn Variant.code rfl n, iterBinds_code _ (mkEnvB_iter G num bp bn Variant.code n)⟩

/-- **The rule for context entries**: in a context literal an entry may look up the keys of the entries written
before it (`freeInEntries`: entry *k* is checked against `G` and the keys of entries *1..k−1*), whatever the two
scopes bind under those keys. -/
theorem context_binds_its_earlier_keys (G : String → Bool) (env : Env) (hc : CallOk G env) (hi : IterBinds env)
    (es : List Ast) (hn : freeInEntries G es = true) (s₁ s₂ : Scope) (h : AgreeOn G s₁ s₂) :
    (evalStep env (.context es) s₁).map Prod.fst = (evalStep env (.context es) s₂).map Prod.fst :=
  evalStep_depends_on_syntactically_free_names G env hc hi (.context es) (by simpa only [freeIn] using hn) s₁ s₂ h

/-- non-vacuity: `{a: d, b: a}` looks up only `d` from outside; a later entry may not be read by an earlier one. -/
example : freeInEntries (fun k => k == "d")
      [.contextEntry (.contextEntryKey "a") (.name "d"), .contextEntry (.contextEntryKey "b") (.name "a")] = true ∧
    freeInEntries (fun k => k == "d")
      [.contextEntry (.contextEntryKey "b") (.name "a"), .contextEntry (.contextEntryKey "a") (.name "d")] = false := by
  decide

/-- **The last clause of the property over the syntactically free names**: two scopes that bind alike every name
in `G` give the same value, the same panic or the same divergence for every expression whose *free* names are in
`G` (`freeIn`: iteration variables, `partial`, quantified variables and the keys of earlier context entries are
bound by their constructs and may be bound in any way, or not at all, by the two scopes) — at every fuel —
provided every function body *entered during the evaluation* has its free names in `G` or among the parameters
that invocation binds (`hg`: the evaluator that refuses other bodies, `evalB`, does not refuse).  Proof: under
the guard the outcome depends on `G` only (`evalB_sameOnAgree`: the induction `b_evalStep` over all node kinds with
the name set growing under the binders, induction on fuel for the bodies), and the evaluator proper refines the
guarded one (`eval_refinesB`). -/
theorem eval_depends_on_syntactically_free_names (G : String → Bool) (num : NumOps)
    (bp : String → List Value → Outcome Value) (bn : String → List (String × Value × Nat) → Outcome Value)
    (fuel : Nat) (a : Ast) (hn : freeIn G a = true) (s₁ s₂ : Scope) (h : AgreeOn G s₁ s₂)
    (hg : evalB G num bp bn fuel a s₁ ≠ .panic guardSite) :
    (eval num bp bn fuel a s₁).map Prod.fst = (eval num bp bn fuel a s₂).map Prod.fst := by
  have h0 : (evalB G num bp bn fuel a s₁).map Prod.fst = (evalB G num bp bn fuel a s₂).map Prod.fst :=
    (evalB_sameOnAgree G num bp bn fuel a hn).2.2 s₁ s₂ h
  have e1 : eval num bp bn fuel a s₁ = evalB G num bp bn fuel a s₁ := by
    rcases eval_refinesB G num bp bn fuel a s₁ with hd | he
    · exact absurd hd hg
    · exact he
  have e2 : eval num bp bn fuel a s₂ = evalB G num bp bn fuel a s₂ := by
    rcases eval_refinesB G num bp bn fuel a s₂ with hd | he
    · rw [hd] at h0
      cases h1 : evalB G num bp bn fuel a s₁ with
      | ok r => rw [h1] at h0; simp [Outcome.map] at h0
      | panic p =>
        rw [h1] at h0
        simp only [Outcome.map, Outcome.panic.injEq] at h0
        rw [h0] at h1
        exact absurd h1 hg
      | diverge => rw [h1] at h0; simp [Outcome.map] at h0
    · exact he
  rw [e1, e2, h0]

/-- non-vacuity, formal parameters: `(function(x) x)(d)` in two scopes that agree on `d` only and bind `x`
differently; the body `x` is entered and passes the guard because the invocation binds `x`. -/
example (num : NumOps) (bp : String → List Value → Outcome Value)
    (bn : String → List (String × Value × Nat) → Outcome Value) :
    let e : Ast := .functionInvocation
      (.functionDefinition (.formalParameters [.formalParameter (.parameterName "x") (.feelType .any)])
        (.functionBody (.name "x") false))
      (.positionalParameters [.name "d"])
    (eval num bp bn 1 e [[("d", .null), ("x", .bool true)]]).map Prod.fst =
    (eval num bp bn 1 e [[("x", .bool false)], [("d", .null)]]).map Prod.fst := by
  intro e
  apply eval_depends_on_syntactically_free_names (fun k => k == "d") num bp bn 1 e (by decide)
  · intro k hk
    have : k = "d" := by simpa using hk
    subst this
    simp [Scope.getEntry, Ctx.get]
  · simp [e, evalB, mkEnvB, guardB, evalStep, evalList, bind_def, getEntry, Scope.getEntry, pure_def,
      invokePositional, bindPositional, callFunction, bracket, push, pop, Scope.push, Scope.pop, freeIn,
      withKeys, Ctx.get, Ctx.set]

/-- non-vacuity, iteration variables, `partial`, quantified variables, context keys: trees that `namesIn` rejects
for `G = {d}` and `freeIn` accepts; a variable is not bound in its own domain, nor in a later domain (F69). -/
example :
    let G : String → Bool := fun k => k == "d"
    let forx : Ast := .for (.iterationContexts [.iterationContextSingle (.name "x") (.name "d")])
      (.list [.name "x", .name "partial"])
    let somey : Ast := .some (.quantifiedContexts [.quantifiedContext (.name "y") (.name "d")]) (.satisfies (.name "y"))
    let later : Ast := .for (.iterationContexts [.iterationContextSingle (.name "x") (.name "d"),
      .iterationContextSingle (.name "z") (.name "x")]) (.name "z")
    freeIn G forx = true ∧ namesIn G forx = false ∧ freeIn G somey = true ∧ namesIn G somey = false ∧
      freeIn G later = false ∧ freeIn G (.filter (.name "d") (.name "item")) = false := by
  decide

/-- **The same for every evaluation that enters no function body** (`hnd`: with no fuel for function bodies the
evaluation does not run out of fuel): no guard is needed. -/
theorem eval_depends_on_syntactically_free_names_partial (G : String → Bool) (num : NumOps)
    (bp : String → List Value → Outcome Value) (bn : String → List (String × Value × Nat) → Outcome Value)
    (fuel : Nat) (a : Ast) (hn : freeIn G a = true) (s₁ s₂ : Scope) (h : AgreeOn G s₁ s₂)
    (hnd : eval num bp bn 0 a s₁ ≠ .diverge) :
    (eval num bp bn fuel a s₁).map Prod.fst = (eval num bp bn fuel a s₂).map Prod.fst := by
  have h0 : (eval num bp bn 0 a s₁).map Prod.fst = (eval num bp bn 0 a s₂).map Prod.fst :=
    (evalB_sameOnAgree G num bp bn 0 a hn).2.2 s₁ s₂ h
  have e1 : eval num bp bn fuel a s₁ = eval num bp bn 0 a s₁ := by
    rcases eval_fuel_only_diverge num bp bn 0 fuel (Nat.zero_le _) a s₁ with hd | he
    · exact absurd hd hnd
    · exact he
  have e2 : eval num bp bn fuel a s₂ = eval num bp bn 0 a s₂ := by
    rcases eval_fuel_only_diverge num bp bn 0 fuel (Nat.zero_le _) a s₂ with hd | he
    · rw [hd] at h0
      cases h1 : eval num bp bn 0 a s₁ with
      | ok r => rw [h1] at h0; simp [Outcome.map] at h0
      | panic p => rw [h1] at h0; simp [Outcome.map] at h0
      | diverge => exact absurd h1 hnd
    · exact he
  rw [e1, e2, h0]

/-- non-vacuity: `{a: d, b: a}` in two scopes that agree on `d` and bind `a` differently, at every fuel. -/
example (num : NumOps) (bp : String → List Value → Outcome Value)
    (bn : String → List (String × Value × Nat) → Outcome Value) (fuel : Nat) :
    let e : Ast := .context [.contextEntry (.contextEntryKey "a") (.name "d"), .contextEntry (.contextEntryKey "b") (.name "a")]
    (eval num bp bn fuel e [[("a", .bool true), ("d", .null)]]).map Prod.fst =
    (eval num bp bn fuel e [[("a", .bool false)], [("d", .null)]]).map Prod.fst := by
  intro e
  apply eval_depends_on_syntactically_free_names_partial (fun k => k == "d") num bp bn fuel e (by decide)
  · intro k hk
    have : k = "d" := by simpa using hk
    subst this
    simp [Scope.getEntry, Ctx.get]
  · simp [e, eval, evalStep, evalContextEntries, bind_def, getEntry, setEntry, Scope.getEntry, Scope.setEntry, Ctx.get,
      Ctx.set, Ctx.contains, pure_def, push, pop, Scope.push, Scope.pop, contextEntryV, List.findSome?]

/-- **Every per-item evaluation of a filter binds `item` and the entries of the item**: the loop of `build_filter`
over the items `vs` has the same outcome in scopes that agree on `G`, whatever they bind under `item` and under
the entry names of a filtered context, if the filter expression's free names are in `G`, `item`, or — item by
item — the keys of that item (`itemKeys`; the keys are known only when the list has been evaluated: they are
not syntactic). -/
theorem filter_item_evaluations_bind_item (G : String → Bool) (env : Env) (hc : CallOk G env) (hi : IterBinds env)
    (b : Ast) (vs : List Value) (hn : ∀ v ∈ vs, freeIn (itemKeys G v) b = true)
    (s₁ s₂ : Scope) (h : AgreeOn G s₁ s₂) :
    (filterLoop (evalStep env b) vs s₁).map Prod.fst = (filterLoop (evalStep env b) vs s₂).map Prod.fst :=
  (filterLoop_binds vs (fun v hv => b_evalStep G env hc hi b (itemKeys G v)
    (fun k hk => by simp [itemKeys, hk]) (hn v hv))).2.2 s₁ s₂ h

/-- non-vacuity: `item > n`-like and `item.a`-like predicates over a context item `{a: …}`: `a` is bound for the
item that has the entry, not for a number. -/
example : freeIn (itemKeys (fun _ => false) (.ctx [("a", .null)])) (.and (.name "item") (.name "a")) = true ∧
    freeIn (itemKeys (fun _ => false) .null) (.and (.name "item") (.name "a")) = false := by
  decide

/-- **A filter on an operand that is not a list binds `item`** (and the operand's entries when it is a context):
`build_filter` evaluates the filter expression for that one item only — there is no index probe in the
enclosing scope.  `hl`: the operand never evaluates to a list. -/
theorem filter_binds_item_for_scalar_operand (G : String → Bool) (env : Env) (hc : CallOk G env) (hi : IterBinds env)
    (a b : Ast) (ha : freeIn G a = true) (hb : freeIn (fun k => G k || k == "item") b = true)
    (hl : ∀ s vs t, evalStep env a s ≠ .ok (.list vs, t))
    (s₁ s₂ : Scope) (h : AgreeOn G s₁ s₂) :
    (evalStep env (.filter a b) s₁).map Prod.fst = (evalStep env (.filter a b) s₂).map Prod.fst := by
  have hA := b_evalStep G env hc hi a G (fun _ hk => hk) ha
  have hB := b_evalStep G env hc hi b (fun k => G k || k == "item") (fun k hk => by simp [hk]) hb
  have hall : SameOnAgree G (evalStep env (.filter a b)) (evalStep env (.filter a b)) := by
    simp only [evalStep]
    refine sameOnAgree_bind_ret hA (fun l hret => ?_)
    split
    · rename_i values
      obtain ⟨s0, t0, h0⟩ := hret
      exact absurd h0 (hl s0 values t0)
    · split
      · refine sameOnAgree_bind (itemScoped_binds _ (sameOnAgree_mono ?_ hB)) (fun _ => sa_pure _)
        intro k hk
        simp only [itemKeys, Bool.or_eq_true] at hk ⊢
        exact Or.inl hk
      · exact sa_pure _
  exact hall.2.2 s₁ s₂ h

/-- non-vacuity: `true[item]` in two scopes that bind `item` differently and agree on nothing. -/
example (env : Env) (hc : CallOk (fun _ => false) env) (hi : IterBinds env) :
    (evalStep env (.filter (.boolean true) (.name "item")) [[("item", .null)]]).map Prod.fst =
    (evalStep env (.filter (.boolean true) (.name "item")) [[("item", .bool false)], []]).map Prod.fst :=
  filter_binds_item_for_scalar_operand (fun _ => false) env hc hi _ _ (by decide) (by decide)
    (fun s vs t => by simp [evalStep, pure_def]) _ _ (fun _ hk => by simp at hk)

/-- **A filter on a list does not bind `item`** (proposed finding F-C01-filter-index-probe): after the per-item
evaluations `build_filter` evaluates the filter expression once more in the enclosing scope, and a number there
is an index.  `[true, false][item]`: with `item` unbound outside, the items for which `item` is true — `true`
(a singleton, unwrapped); with `item` bound to 2 outside, the second item — `false`.  The two scopes agree on
every name that is free in the expression when a filter is read as a binder of `item`. -/
theorem filter_does_not_bind_item_counterexample (num : NumOps) (bp : String → List Value → Outcome Value)
    (bn : String → List (String × Value × Nat) → Outcome Value) (fuel : Nat) :
    let e : Ast := .filter (.list [.boolean true, .boolean false]) (.name "item")
    let s₁ : Scope := [[]]
    let s₂ : Scope := [[("item", .num (Dec.ofNat 2))]]
    AgreeOn (fun _ => false) s₁ s₂ ∧
      eval num bp bn fuel e s₁ = .ok (.bool true, s₁) ∧ eval num bp bn fuel e s₂ = .ok (.bool false, s₂) := by
  have hb : isBifName "item" = false := by decide
  have hidx : filterIndex [Value.bool true, Value.bool false] (Dec.ofNat 2) = .bool false := by rfl
  refine ⟨fun _ hk => by simp at hk, ?_, ?_⟩
  · cases fuel <;>
    simp [eval, mkEnv, evalStep, evalList, filterLoop, filterItem, bracket, bind_def, pure_def, getEntry, push, pop,
      Scope.push, Scope.pop, Scope.getEntry, Ctx.get, Ctx.set, Value.isTrue, filterResult, hb]
  · cases fuel <;>
    simp [eval, mkEnv, evalStep, evalList, filterLoop, filterItem, bracket, bind_def, pure_def, getEntry, push, pop,
      Scope.push, Scope.pop, Scope.getEntry, Ctx.get, Ctx.set, Value.isTrue, filterResult, hb,
      Variant.code, hidx]

end Dmn.Eval

/-!
## The text of the code the equations for `name`, `functionInvocation` and `forLoop` transcribe

`Gen/EvalSources.lean` is regenerated from `feel-evaluator/src/builders.rs` and `iterations.rs` on every run
(`translate/evalsources.py`).
-/

namespace Dmn.Eval

/-- **The sources are as modelled**: `build_name` consults the scope, then the built-in names, then
answers null (`evalStep … (.name n)`, `name_spec`); `build_function_invocation_positional` / `_named`
build the callee with `build_evaluator(lhs)`, look neither at the callee node nor at `Bif::from_str`
themselves, evaluate the callee before the arguments and dispatch on built-in function / function
definition / anything else (`evalStep … (.functionInvocation f args)`, `invokePositional`, `invokeNamed`;
`invocation_callee_resolution`); the closure `ForExpressionEvaluator::evaluate` hands to the iterator
clones the iteration context, binds `partial` to the results so far — unconditionally —, pushes, evaluates
the body, pops and appends (`forLoop`; `partial_in_iteration`). -/
theorem evaluator_sources_as_modelled :
    Gen.nameSources = ["scope", "builtin", "null"] ∧
    Gen.positionalCalleeGeneric = true ∧ Gen.positionalCalleeSpecialCased = false ∧
    Gen.positionalCalleeFirst = true ∧ Gen.positionalDispatch = ["BuiltInFunction", "FunctionDefinition", "_"] ∧
    Gen.namedCalleeGeneric = true ∧ Gen.namedCalleeSpecialCased = false ∧
    Gen.namedCalleeFirst = true ∧ Gen.namedDispatch = ["BuiltInFunction", "FunctionDefinition", "_"] ∧
    Gen.forBodySteps = ["clone", "set-partial", "push", "evaluate", "pop", "append"] ∧
    Gen.forPartialName = "partial" := by
  decide

end Dmn.Eval
