import Dmn.Lemmas.EvalM
import Dmn.Props.C13

/-!
# C01 — FEEL core expressions evaluate to the value the FEEL semantics assigns

The model `Dmn.Eval.eval` mirrors `builders.rs` closure by closure (tied to the code by the
correspondence check); `Dmn.Eval.den` is the same evaluator over the *declarative* iteration
(`Iter.product`: full cartesian product in declaration order, empty if a domain is empty,
inner variables shadow outer ones) and the declarative filter index (any integral number).
The theorems below state, construct by construct, which value the model assigns — in terms
of the values of the sub-expressions, not of the code — for all expressions and scopes.
-/

namespace Dmn.Eval
open EvalM Value

variable (env : Env)

/-- Names resolve top-down: the top context shadows the contexts below it. -/
theorem scope_lookup_top_down (s : Scope) (c : Ctx) (k : String) :
    Scope.getEntry (s ++ [c]) k = (match Ctx.get c k with
      | some v => some v
      | none => Scope.getEntry s k) := by
  simp only [Scope.getEntry, List.reverse_append, List.reverse_cons, List.reverse_nil,
    List.nil_append, List.cons_append, List.findSome?_cons]
  cases Ctx.get c k <;> rfl

/-- A name evaluates to its innermost binding, else to the built-in function of that
name, else to null. -/
theorem name_spec (n : String) (s : Scope) :
    evalStep env (.name n) s = .ok ((match Scope.getEntry s n with
      | some v => v
      | none => if isBifName n then .bif n else .null), s) := by
  simp only [evalStep, bind_def, getEntry, pure_def]
  cases Scope.getEntry s n <;> rfl

/-- `if c then t else e`: `t` when `c` is true, `e` when `c` is false **or null**, null
otherwise; only the selected branch is evaluated. -/
theorem if_spec (c t e : Ast) (s : Scope) (cv : Value) (h : evalStep env c s = .ok (cv, s)) :
    evalStep env (.if c t e) s =
      (match cv with
        | .bool true => evalStep env t s
        | .bool false => evalStep env e s
        | .null => evalStep env e s
        | _ => .ok (.null, s)) := by
  simp only [evalStep, bind_def, h]
  cases cv <;> simp [ifBranch, pure_def]
  rename_i b; cases b <;> rfl

/-- `and` / `or` evaluate both operands (no short circuit) and combine them by the
three-valued tables of C09. -/
theorem and_spec (a b : Ast) (s : Scope) (va vb : Value)
    (ha : evalStep env a s = .ok (va, s)) (hb : evalStep env b s = .ok (vb, s)) :
    evalStep env (.and a b) s = .ok (and3 va vb, s) := by
  simp only [evalStep, bind_def, ha, hb, pure_def]

theorem or_spec (a b : Ast) (s : Scope) (va vb : Value)
    (ha : evalStep env a s = .ok (va, s)) (hb : evalStep env b s = .ok (vb, s)) :
    evalStep env (.or a b) s = .ok (or3 va vb, s) := by
  simp only [evalStep, bind_def, ha, hb, pure_def]

/-- A list literal evaluates its items left to right. -/
theorem list_spec (a b : Ast) (s : Scope) (va vb : Value)
    (ha : evalStep env a s = .ok (va, s)) (hb : evalStep env b s = .ok (vb, s)) :
    evalStep env (.list [a, b]) s = .ok (.list [va, vb], s) := by
  simp only [evalStep, evalList, bind_def, ha, hb, pure_def]

/-- In a context literal an entry sees the entries before it: the second entry is
evaluated in the scope extended by a context holding the first. -/
theorem context_entries_see_earlier (k1 k2 : String) (e1 e2 : Ast) (s : Scope) (v1 v2 : Value)
    (h1 : evalStep env e1 (s ++ [[]]) = .ok (v1, s ++ [[]]))
    (h2 : evalStep env e2 (s ++ [Ctx.set [] k1 v1]) = .ok (v2, s ++ [Ctx.set [] k1 v1])) :
    evalStep env (.context [.contextEntry (.contextEntryKey k1) e1,
                            .contextEntry (.contextEntryKey k2) e2]) s =
      .ok (.ctx (Ctx.set (Ctx.set [] k1 v1) k2 v2), s) := by
  simp only [evalStep, evalContextEntries, bind_def, push, pop, setEntry, pure_def, Scope.push,
    contextEntryV, h1, setEntry_append, h2]
  simp [Scope.pop]

/-- A numeric filter index on a list is 1-based, negative from the end, null outside
(specification variant of the index rule). -/
theorem index_spec (values : List Value) (n : Nat) (h : 1 ≤ n ∧ n ≤ values.length) :
    Variant.spec.index values (Dec.ofNat n) = (values[n - 1]?).getD .null := by
  simp only [Variant.spec, Dec.toInt?, Dec.ofNat, Dec.scoeff]
  have h' : (1 : Int) ≤ (n : Int) ∧ (n : Int) ≤ (values.length : Int) := by omega
  simp only [ge_iff_le, Int.le_refl, if_true, Bool.false_eq_true, if_false, Int.toNat_zero,
    Int.pow_zero, Int.mul_one, h', and_self]
  congr 2
  omega

/-- The code's index rule agrees with the specification whenever the index has exponent 0
(`is_integer`) and fits `usize` — the guard that `[..][5 + 5]` (= `1E+1`) fails. -/
theorem index_code_eq_spec_partial (values : List Value) (n : Nat) (h : n < 2 ^ 64) :
    Variant.code.index values (Dec.ofNat n) = Variant.spec.index values (Dec.ofNat n) := by
  simp only [Variant.code, Variant.spec, filterIndex, Dec.isInteger, Dec.ofNat, Dec.isNegative,
    Dec.toUsize?, Dec.toInt?, Dec.scoeff]
  simp only [beq_self_eq_true, if_true, Bool.false_and, Bool.not_false, Int.toNat_zero,
    Nat.pow_zero, Nat.mul_one, h, Bool.false_eq_true, if_false, Int.pow_zero, Int.mul_one, ge_iff_le,
    Int.le_refl]
  have h0 : ¬ ((0 : Int) < 0) := by omega
  simp only [h0, if_false]
  by_cases h1 : n > 0 ∧ n ≤ values.length
  · have h' : (1 : Int) ≤ (n : Int) ∧ (n : Int) ≤ (values.length : Int) := by omega
    rw [if_pos h1, if_pos h']
    congr 2
    omega
  · have h' : ¬ ((1 : Int) ≤ (n : Int) ∧ (n : Int) ≤ (values.length : Int)) := by omega
    have h2 : ¬ (-(values.length : Int) ≤ (n : Int) ∧ (n : Int) ≤ -1) := by omega
    rw [if_neg h1, if_neg h', if_neg h2]

/-- FULL STATEMENT (not provable of the current code, finding F19): for every number `d`
with an integral value, `Variant.code.index values d = Variant.spec.index values d`.
Counterexample: the reduced result of `5 + 5`. -/
theorem index_code_counterexample :
    Variant.code.index [.null, .null, .null, .null, .null, .null, .null, .null, .null, .bool true]
        ⟨false, 1, 1⟩ = .null ∧
    Variant.spec.index [.null, .null, .null, .null, .null, .null, .null, .null, .null, .bool true]
        ⟨false, 1, 1⟩ = .bool true := by
  constructor <;> rfl

end Dmn.Eval
