import Dmn.Lemmas.EvalM
import Dmn.Lemmas.Ops
import Dmn.Props.C13
import Dmn.Lemmas.Iter
import Dmn.Lemmas.EvalSpec

/-!
# C01 — FEEL core expressions evaluate to the value the FEEL semantics assigns

The model `Dmn.Eval.eval` mirrors `builders.rs` closure by closure (tied to the code by the
correspondence check); `Dmn.Eval.den` is the same evaluator over the *declarative* iteration
(`Iter.product`: full cartesian product in declaration order, empty if a domain is empty,
inner variables shadow outer ones) and the declarative filter index (any integral number).
The theorems below state, construct by construct, which value the model assigns — in terms
of the values of the sub-expressions, not of the code — for all expressions and scopes.
-/

namespace Dmn.Eval
open EvalM Value

variable (env : Env)

/-- Names resolve top-down: the top context shadows the contexts below it. -/
theorem scope_lookup_top_down (s : Scope) (c : Ctx) (k : String) :
    Scope.getEntry (s ++ [c]) k = (match Ctx.get c k with
      | some v => some v
      | none => Scope.getEntry s k) := by
  simp only [Scope.getEntry, List.reverse_append, List.reverse_cons, List.reverse_nil,
    List.nil_append, List.cons_append, List.findSome?_cons]
  cases Ctx.get c k <;> rfl

/-- A name evaluates to its innermost binding, else to the built-in function of that
name, else to null. -/
theorem name_spec (n : String) (s : Scope) :
    evalStep env (.name n) s = .ok ((match Scope.getEntry s n with
      | some v => v
      | none => if isBifName n then .bif n else .null), s) := by
  simp only [evalStep, bind_def, getEntry, pure_def]
  cases Scope.getEntry s n <;> rfl

/-- `if c then t else e`: `t` when `c` is true, `e` when `c` is false **or null**, null
otherwise; only the selected branch is evaluated. -/
theorem if_spec (c t e : Ast) (s : Scope) (cv : Value) (h : evalStep env c s = .ok (cv, s)) :
    evalStep env (.if c t e) s =
      (match cv with
        | .bool true => evalStep env t s
        | .bool false => evalStep env e s
        | .null => evalStep env e s
        | _ => .ok (.null, s)) := by
  simp only [evalStep, bind_def, h]
  cases cv <;> simp [ifBranch, pure_def]
  rename_i b; cases b <;> rfl

/-- A `for` over a range whose ends do not both convert to integers (`1.5..3`, `"a"..3`) has
no value: the result is null, whatever the other iteration contexts and the body are
(repaired by 95b3835; before, the range was left out and the result was a list). -/
theorem for_range_not_integers_null (n : String) (lo hi body : Ast) (rest : List Ast) (s : Scope) (a b : Value)
    (ha : evalStep env lo s = .ok (a, s)) (hb : evalStep env hi s = .ok (b, s))
    (h : rangeState n a b = none) :
    evalStep env (.for (.iterationContexts (.iterationContextRange (.name n) lo hi :: rest)) body) s
      = .ok (.null, s) := by
  simp only [evalStep, evalIteration, bind_def, ha, hb, h, pure_def]

example : rangeState "i" (.num ⟨false, 15, -1⟩) (.num ⟨false, 3, 0⟩) = none := by decide
example : (rangeState "i" (.num ⟨false, 10, -1⟩) (.num ⟨false, 300, -2⟩)).isSome = true := by decide

/-- `and` / `or` evaluate both operands (no short circuit) and combine them by the
three-valued tables of C09. -/
theorem and_spec (a b : Ast) (s : Scope) (va vb : Value)
    (ha : evalStep env a s = .ok (va, s)) (hb : evalStep env b s = .ok (vb, s)) :
    evalStep env (.and a b) s = .ok (and3 va vb, s) := by
  simp only [evalStep, bind_def, ha, hb, pure_def]

theorem or_spec (a b : Ast) (s : Scope) (va vb : Value)
    (ha : evalStep env a s = .ok (va, s)) (hb : evalStep env b s = .ok (vb, s)) :
    evalStep env (.or a b) s = .ok (or3 va vb, s) := by
  simp only [evalStep, bind_def, ha, hb, pure_def]

/-- A list literal evaluates its items left to right. -/
theorem list_spec (a b : Ast) (s : Scope) (va vb : Value)
    (ha : evalStep env a s = .ok (va, s)) (hb : evalStep env b s = .ok (vb, s)) :
    evalStep env (.list [a, b]) s = .ok (.list [va, vb], s) := by
  simp only [evalStep, evalList, bind_def, ha, hb, pure_def]

/-- In a context literal an entry sees the entries before it: the second entry is
evaluated in the scope extended by a context holding the first. -/
theorem context_entries_see_earlier (k1 k2 : String) (e1 e2 : Ast) (s : Scope) (v1 v2 : Value)
    (h1 : evalStep env e1 (s ++ [[]]) = .ok (v1, s ++ [[]]))
    (h2 : evalStep env e2 (s ++ [Ctx.set [] k1 v1]) = .ok (v2, s ++ [Ctx.set [] k1 v1])) :
    evalStep env (.context [.contextEntry (.contextEntryKey k1) e1,
                            .contextEntry (.contextEntryKey k2) e2]) s =
      .ok (.ctx (Ctx.set (Ctx.set [] k1 v1) k2 v2), s) := by
  simp only [evalStep, evalContextEntries, bind_def, push, pop, setEntry, pure_def, Scope.push,
    contextEntryV, h1, setEntry_append, h2]
  simp [Scope.pop]

/-- A numeric filter index on a list is 1-based, negative from the end, null outside
(specification variant of the index rule). -/
theorem index_spec (values : List Value) (n : Nat) (h : 1 ≤ n ∧ n ≤ values.length) :
    Variant.spec.index values (Dec.ofNat n) = (values[n - 1]?).getD .null := by
  simp only [Variant.spec, Dec.toInt?, Dec.ofNat, Dec.scoeff]
  have h' : (1 : Int) ≤ (n : Int) ∧ (n : Int) ≤ (values.length : Int) := by omega
  simp only [ge_iff_le, Int.le_refl, if_true, Bool.false_eq_true, if_false, Int.toNat_zero,
    Int.pow_zero, Int.mul_one, h', and_self]
  congr 2
  omega

theorem Dec.cmp_self (d : Dec) : Dec.cmp d d = .eq := by
  simp only [Dec.cmp, Dec.align]
  exact Std.ReflCmp.compare_self

/-- truncation leaves the value unchanged exactly when there are no fraction digits -/
theorem Dec.trunc_cmp_eq (d : Dec) (h : d.exp < 0) :
    (Dec.cmp (Dec.trunc d) d == .eq) = (d.coeff % 10 ^ (-d.exp).toNat == 0) := by
  have hk : ¬ d.exp ≥ 0 := by omega
  simp only [Dec.trunc, hk, if_false, Dec.cmp, Dec.align, Dec.scoeff]
  have hmin : min (0 : Int) d.exp = d.exp := by omega
  simp only [hmin, Int.sub_self, Int.toNat_zero, Int.pow_zero, Int.mul_one]
  have he : (0 - d.exp).toNat = (-d.exp).toNat := by congr 1; omega
  rw [he]
  generalize (-d.exp).toNat = k
  have hp : 0 < 10 ^ k := Nat.pow_pos (by decide)
  generalize hq : 10 ^ k = p at hp
  have hdm := Nat.div_add_mod d.coeff p
  have hml : d.coeff % p < p := Nat.mod_lt _ hp
  have hcast : ((10 : Int) ^ k) = (p : Int) := by rw [← hq]; simp
  rw [hcast]
  rw [Bool.eq_iff_iff]
  simp only [beq_iff_eq, Dmn.Int.compare_eq_iff']
  generalize hqq : d.coeff / p = q at hdm
  have hmul : p * q = q * p := Nat.mul_comm _ _
  have hint : ((q : Int) * (p : Int)) = ((q * p : Nat) : Int) := by simp
  cases d.neg
  · simp only [Bool.false_eq_true, if_false]
    rw [hint]
    constructor
    · intro h1; have : q * p = d.coeff := by exact_mod_cast h1
      omega
    · intro h1; have : q * p = d.coeff := by omega
      exact_mod_cast this
  · simp only [if_true]
    rw [Int.neg_mul, hint]
    constructor
    · intro h1; have : q * p = d.coeff := by
        have := Int.neg_inj.mp h1
        exact_mod_cast this
      omega
    · intro h1; have : q * p = d.coeff := by omega
      rw [this]

/-- **The filter index rule of the code is the semantic one** — for every number and every
list (shorter than `usize::MAX`): an index is any number with an integral value, 1-based from
the front, negative from the end, null outside. -/
theorem index_code_eq_spec (values : List Value) (d : Dec) (hlen : values.length < 2 ^ 64) :
    Variant.code.index values d = Variant.spec.index values d := by
  simp only [Variant.code, Variant.spec, filterIndex]
  by_cases he : d.exp ≥ 0
  · -- no fraction digits: the number is its own truncation
    have ht : Dec.trunc d = d := by simp [Dec.trunc, he]
    rw [ht, Dec.cmp_self]
    simp only [beq_self_eq_true, if_true, Dec.toInt?, he, Dec.isNegative, Dec.toUsize?, Dec.abs, Dec.scoeff]
    have hne : ¬ d.exp < 0 := by omega
    simp only [hne, if_false]
    obtain ⟨V, hV⟩ : ∃ V, d.coeff * 10 ^ d.exp.toNat = V := ⟨_, rfl⟩
    have hcast : ((d.coeff : Int) * (10 : Int) ^ d.exp.toNat) = (V : Int) := by
      rw [← hV]; simp
    cases hneg : d.neg
    · simp only [Bool.false_and, Bool.not_false, if_true, Bool.false_eq_true, if_false, hcast, hV]
      by_cases hv : V < 2 ^ 64
      · simp only [hv, if_true]
        by_cases h1 : V > 0 ∧ V ≤ values.length
        · have h' : (1 : Int) ≤ (V : Int) ∧ (V : Int) ≤ (values.length : Int) := by omega
          rw [if_pos h1, if_pos h']; congr 2; omega
        · have h' : ¬ ((1 : Int) ≤ (V : Int) ∧ (V : Int) ≤ (values.length : Int)) := by omega
          have h2 : ¬ (-(values.length : Int) ≤ (V : Int) ∧ (V : Int) ≤ -1) := by omega
          rw [if_neg h1, if_neg h', if_neg h2]
      · simp only [hv, if_false]
        have h' : ¬ ((1 : Int) ≤ (V : Int) ∧ (V : Int) ≤ (values.length : Int)) := by omega
        have h2 : ¬ (-(values.length : Int) ≤ (V : Int) ∧ (V : Int) ≤ -1) := by omega
        rw [if_neg h', if_neg h2]
    · simp only [Bool.true_and, if_true, Int.neg_mul, hcast, hV]
      by_cases hc : d.coeff = 0
      · have hV0 : V = 0 := by rw [← hV, hc]; simp
        subst hV0
        simp [hc]
      · have hcb : (d.coeff != 0) = true := by simpa using hc
        have hVpos : V > 0 := by
          rw [← hV]; exact Nat.mul_pos (Nat.pos_of_ne_zero hc) (Nat.pow_pos (by decide))
        simp only [hcb, Bool.not_true, Bool.false_eq_true, if_false]
        by_cases hv : V < 2 ^ 64
        · simp only [hv, if_true]
          have h' : ¬ ((1 : Int) ≤ -(V : Int) ∧ -(V : Int) ≤ (values.length : Int)) := by omega
          by_cases h1 : V > 0 ∧ V ≤ values.length
          · have h2 : (-(values.length : Int) ≤ -(V : Int) ∧ -(V : Int) ≤ -1) := by omega
            rw [if_pos h1, if_neg h', if_pos h2]; congr 2; omega
          · have h2 : ¬ (-(values.length : Int) ≤ -(V : Int) ∧ -(V : Int) ≤ -1) := by omega
            rw [if_neg h1, if_neg h', if_neg h2]
        · simp only [hv, if_false]
          have h' : ¬ ((1 : Int) ≤ -(V : Int) ∧ -(V : Int) ≤ (values.length : Int)) := by omega
          have h2 : ¬ (-(values.length : Int) ≤ -(V : Int) ∧ -(V : Int) ≤ -1) := by omega
          rw [if_neg h', if_neg h2]
  · -- fraction digits: integral exactly when they are all zero
    have hlt : d.exp < 0 := by omega
    rw [Dec.trunc_cmp_eq d hlt]
    simp only [Dec.toInt?, he, if_false]
    by_cases hm : d.coeff % 10 ^ (-d.exp).toNat = 0
    · have hmb : (d.coeff % 10 ^ (-d.exp).toNat == 0) = true := by simpa using hm
      simp only [hmb, if_true, Dec.trunc, he, if_false, Dec.isNegative, Dec.toUsize?, Dec.abs]
      obtain ⟨V, hV⟩ : ∃ V, d.coeff / 10 ^ (-d.exp).toNat = V := ⟨_, rfl⟩
      simp only [hV]
      have h00 : ¬ ((0 : Int) < 0) := by omega
      simp only [h00, if_false, Int.toNat_zero, Nat.pow_zero, Nat.mul_one]
      cases hneg : d.neg
      · simp only [Bool.false_and, Bool.not_false, if_true, Bool.false_eq_true, if_false]
        by_cases hv : V < 2 ^ 64
        · simp only [hv, if_true]
          by_cases h1 : V > 0 ∧ V ≤ values.length
          · have h' : (1 : Int) ≤ (V : Int) ∧ (V : Int) ≤ (values.length : Int) := by omega
            rw [if_pos h1, if_pos h']; congr 2; omega
          · have h' : ¬ ((1 : Int) ≤ (V : Int) ∧ (V : Int) ≤ (values.length : Int)) := by omega
            have h2 : ¬ (-(values.length : Int) ≤ (V : Int) ∧ (V : Int) ≤ -1) := by omega
            rw [if_neg h1, if_neg h', if_neg h2]
        · simp only [hv, if_false]
          have h' : ¬ ((1 : Int) ≤ (V : Int) ∧ (V : Int) ≤ (values.length : Int)) := by omega
          have h2 : ¬ (-(values.length : Int) ≤ (V : Int) ∧ (V : Int) ≤ -1) := by omega
          rw [if_neg h', if_neg h2]
      · simp only [Bool.true_and, if_true]
        by_cases hc : V = 0
        · subst hc; simp
        · have hcb : (V != 0) = true := by simpa using hc
          have hVpos : V > 0 := Nat.pos_of_ne_zero hc
          simp only [hcb, Bool.not_true, Bool.false_eq_true, if_false]
          by_cases hv : V < 2 ^ 64
          · simp only [hv, if_true]
            have h' : ¬ ((1 : Int) ≤ -(V : Int) ∧ -(V : Int) ≤ (values.length : Int)) := by omega
            by_cases h1 : V > 0 ∧ V ≤ values.length
            · have h2 : (-(values.length : Int) ≤ -(V : Int) ∧ -(V : Int) ≤ -1) := by omega
              rw [if_pos h1, if_neg h', if_pos h2]; congr 2; omega
            · have h2 : ¬ (-(values.length : Int) ≤ -(V : Int) ∧ -(V : Int) ≤ -1) := by omega
              rw [if_neg h1, if_neg h', if_neg h2]
          · simp only [hv, if_false]
            have h' : ¬ ((1 : Int) ≤ -(V : Int) ∧ -(V : Int) ≤ (values.length : Int)) := by omega
            have h2 : ¬ (-(values.length : Int) ≤ -(V : Int) ∧ -(V : Int) ≤ -1) := by omega
            rw [if_neg h', if_neg h2]
    · have hmb : (d.coeff % 10 ^ (-d.exp).toNat == 0) = false := by simpa using hm
      simp [hmb]

/-- The repaired case: `5 + 5` is `1E+1`; it selects the tenth element. -/
example :
    Variant.code.index [.null, .null, .null, .null, .null, .null, .null, .null, .null, .bool true]
        ⟨false, 1, 1⟩ = .bool true := by rfl

end Dmn.Eval


/-!
## The iteration engine visits exactly the cartesian product

`Iter.run` is the literal transcription of `FeelIterator::run` (reversed state list, persistent
iteration context filled outermost variable first, increment with carry, fuel).  For states as
the evaluator creates them (`Iter.Fresh`: a non-empty list, or a range between two `isize`
values) it returns — without running out of fuel — the contexts of the declarative product
`Iter.product`: first state outermost, in order, an inner variable shadowing an outer one of
the same name.  Lemmas in `Dmn/Lemmas/Iter.lean`.
-/

namespace Dmn.Iter

/-- The empty iterator calls the handler never (while the empty product is `[[]]`). -/
theorem run_nil : run [] = .ok [] := rfl

/-- **Main theorem.** On a non-empty list of `Fresh` states the state machine visits the full
cartesian product, first state outermost, in order; `fuelFor` suffices (never `.diverge`), and
it never panics.  No assumption on the names: with the outermost-first `fill`, an inner variable
overwrites an outer one of the same name, exactly as `product` prescribes. -/
theorem run_eq_product (states : List State) (hne : states ≠ [])
    (hfresh : ∀ st ∈ states, Fresh st) : run states = .ok (product states) :=
  run_eq_product_of_good states hne (fun st h => good_of_fresh st (hfresh st h))

/-- With pairwise distinct names it does not matter which variable wins a name clash. -/
theorem productOuterWins_eq_product (states : List State)
    (hnd : (states.map (fun st => st.name)).Nodup) : productOuterWins states = product states := by
  induction states with
  | nil => rfl
  | cons st rest ih =>
    simp only [List.map_cons, List.nodup_cons] at hnd
    simp only [productOuterWins, product, ← ih hnd.2]
    apply flatMap_congr_mem
    intro v _
    apply List.map_congr_left
    intro c hc
    have : Ctx.contains c st.name = false := by
      cases h : Ctx.contains c st.name with
      | false => rfl
      | true => exact absurd (contains_productOuterWins rest c st.name hc h) hnd.1
    simp [this]

theorem run_eq_productOuterWins (states : List State) (hne : states ≠ [])
    (hfresh : ∀ st ∈ states, Fresh st) (hnd : (states.map (fun st => st.name)).Nodup) :
    run states = .ok (productOuterWins states) := by
  rw [productOuterWins_eq_product states hnd]
  exact run_eq_product states hne hfresh

/-- The number of iterations is the product of the domain sizes. -/
theorem product_length (states : List State) :
    (product states).length =
      (states.map (fun st => (domain st).length)).foldl (· * ·) 1 := by
  induction states with
  | nil => rfl
  | cons st rest ih =>
    rw [product_length_cons, ih, List.map_cons, List.foldl_cons, foldl_mul _ (1 * _), Nat.one_mul]

/-- An empty domain empties the whole product. -/
theorem product_eq_nil_of_domain_nil (states : List State)
    (h : ∃ st ∈ states, domain st = []) : product states = [] := by
  induction states with
  | nil => obtain ⟨_, hm, _⟩ := h; cases hm
  | cons st rest ih =>
    obtain ⟨t, hm, ht⟩ := h
    rcases List.mem_cons.mp hm with rfl | hm
    · simp [product, ht]
    · simp [product, ih ⟨t, hm, ht⟩]

/-- Conversely the product of non-empty domains is non-empty. -/
theorem product_eq_nil_iff (states : List State) :
    product states = [] ↔ ∃ st ∈ states, domain st = [] := by
  constructor
  · intro h
    induction states with
    | nil => simp [product] at h
    | cons st rest ih =>
      have hl := product_length_cons st rest
      rw [h, List.length_nil] at hl
      rcases Nat.mul_eq_zero.mp hl.symm with h0 | h0
      · exact ⟨st, List.mem_cons_self, List.length_eq_zero_iff.mp h0⟩
      · obtain ⟨t, hm, ht⟩ := ih (List.length_eq_zero_iff.mp h0)
        exact ⟨t, List.mem_cons_of_mem _ hm, ht⟩
  · exact product_eq_nil_of_domain_nil states

/-- The machine performs exactly `∏ |domain|` iterations. -/
theorem run_length (states : List State) (hne : states ≠ [])
    (hfresh : ∀ st ∈ states, Fresh st) :
    ∃ cs, run states = .ok cs ∧
      cs.length = (states.map (fun st => (domain st).length)).foldl (· * ·) 1 :=
  ⟨product states, run_eq_product states hne hfresh, product_length states⟩

/-- Non-vacuity: a concrete two-state list satisfies the hypotheses. -/
example :
    run [mkRange "i" 1 2, mkList "x" [.null, .bool true]] =
      .ok (product [mkRange "i" 1 2, mkList "x" [.null, .bool true]]) := by
  apply run_eq_product
  · simp
  · intro st hst
    simp only [List.mem_cons, List.not_mem_nil, or_false] at hst
    rcases hst with rfl | rfl
    · apply Fresh.range <;> simp only [i64Min, i64Max] <;> omega
    · apply Fresh.list
      · simp
      · simp only [i64Max, List.length_cons, List.length_nil]; omega

end Dmn.Iter

namespace Dmn.Eval

/-- States tagged with strictly increasing declaration positions are already in declared order. -/
theorem foldr_insertByPos_of_sorted (ts : List (Nat × Iter.State))
    (h : ts.Pairwise (fun x y => x.1 < y.1)) : ts.foldr insertByPos [] = ts :=
  Iter.insert_sorted insertByPos (fun _ => rfl) (fun _ _ _ => rfl) ts h

theorem mem_insertByPos (x y : Nat × Iter.State) (ys : List (Nat × Iter.State)) :
    y ∈ insertByPos x ys ↔ y = x ∨ y ∈ ys := by
  induction ys with
  | nil => simp [insertByPos]
  | cons z zs ih =>
    simp only [insertByPos]
    split
    · simp
    · simp only [List.mem_cons, ih]
      constructor
      · rintro (h | h | h)
        · exact Or.inr (Or.inl h)
        · exact Or.inl h
        · exact Or.inr (Or.inr h)
      · rintro (h | h | h)
        · exact Or.inr (Or.inl h)
        · exact Or.inl h
        · exact Or.inr (Or.inr h)

/-- The code's iteration (`FeelIterator::run` on the states as added) agrees with the FEEL
semantics (`Iter.product` in declaration order) on states that are added in declaration order. -/
theorem code_iter_eq_spec_iter (ts : List (Nat × Iter.State)) (hne : ts ≠ [])
    (hfresh : ∀ t ∈ ts, Iter.Fresh t.2) (hord : ts.foldr insertByPos [] = ts) :
    Variant.code.iter ts = Variant.spec.iter ts := by
  simp only [Variant.code, Variant.spec, hord]
  apply Iter.run_eq_product
  · cases ts with
    | nil => exact absurd rfl hne
    | cons _ _ => simp
  · intro st hst
    obtain ⟨t, ht, rfl⟩ := List.mem_map.mp hst
    exact hfresh t ht

theorem code_iter_eq_spec_iter_of_sorted (ts : List (Nat × Iter.State)) (hne : ts ≠ [])
    (hfresh : ∀ t ∈ ts, Iter.Fresh t.2) (hord : ts.Pairwise (fun x y => x.1 < y.1)) :
    Variant.code.iter ts = Variant.spec.iter ts :=
  code_iter_eq_spec_iter ts hne hfresh (foldr_insertByPos_of_sorted ts hord)

/-- Independently of the order in which the states were added, the machine run on the states
in declaration order is the specification. -/
theorem declaredOrder_iter_eq_spec_iter (ts : List (Nat × Iter.State)) (hne : ts ≠ [])
    (hfresh : ∀ t ∈ ts, Iter.Fresh t.2) :
    Variant.declaredOrder.iter ts = Variant.spec.iter ts := by
  have hmem : ∀ (l : List (Nat × Iter.State)) (y : Nat × Iter.State),
      y ∈ l.foldr insertByPos [] ↔ y ∈ l := by
    intro l y
    induction l with
    | nil => simp
    | cons x xs ih => rw [List.foldr_cons, mem_insertByPos, ih, List.mem_cons]
  simp only [Variant.declaredOrder, Variant.spec]
  apply Iter.run_eq_product
  · cases ts with
    | nil => exact absurd rfl hne
    | cons t rest =>
      intro h
      have : t ∈ (t :: rest).foldr insertByPos [] := (hmem _ t).mpr List.mem_cons_self
      rw [List.map_eq_nil_iff.mp h] at this
      cases this
  · intro st hst
    obtain ⟨t, ht, rfl⟩ := List.mem_map.mp hst
    exact hfresh t ((hmem ts t).mp ht)

/-! ## the model of the code *is* the FEEL semantics (inside the envelope of a real machine) -/

/-- Inside the envelope — non-empty state lists in declaration order built by `add_range` /
`add_list` from lists of at most 2⁶³ items, filter lists shorter than 2⁶⁴ — the two variation
points of the evaluator coincide. -/
theorem guard_code_eq_guard_spec : Variant.guard Variant.code = Variant.guard Variant.spec := by
  have hiter : (Variant.guard Variant.code).iter = (Variant.guard Variant.spec).iter := by
    funext ts
    simp only [Variant.guard]
    by_cases h : IterEnvelope ts
    · rw [if_pos h, if_pos h]
      exact code_iter_eq_spec_iter_of_sorted ts h.nonempty
        (fun t ht => Iter.fresh_of_shaped t.2 (h.shaped t ht) (h.small t ht))
        (pairwise_of_sortedPos ts h.sorted)
    · rw [if_neg h, if_neg h]
  have hindex : (Variant.guard Variant.code).index = (Variant.guard Variant.spec).index := by
    funext vs d
    simp only [Variant.guard]
    by_cases h : vs.length < 2 ^ 64
    · rw [if_pos h, if_pos h]; exact index_code_eq_spec vs d h
    · rw [if_neg h, if_neg h]
  cases hc : Variant.guard Variant.code with
  | mk i1 x1 =>
    cases hs : Variant.guard Variant.spec with
    | mk i2 x2 =>
      rw [hc] at hiter hindex
      rw [hs] at hiter hindex
      simp only at hiter hindex
      rw [hiter, hindex]

/-- **`eval = den`.** The model of the code and the FEEL semantics assign the same outcome —
value, scope afterwards, panic or divergence — to every syntax tree in every scope, for every
fuel, every number arithmetic and every table of built-ins, as long as no list of more than
2⁶³ items is iterated over and no list of 2⁶⁴ or more items is indexed (outside that envelope
both are replaced by the same placeholder; a `Vec` cannot be that long). The structural part of
the envelope is not an assumption: `evalIteration_shaped` / `evalQuantified_shaped` show that
the evaluator only ever hands sorted, well-shaped state lists to the iteration engine. -/
theorem evalWith_guard_code_eq_spec (num : NumOps) (bifPos : String → List Value → Outcome Value)
    (bifNamed : String → List (String × Value × Nat) → Outcome Value) (fuel : Nat) (a : Ast) :
    evalWith (Variant.guard Variant.code) num bifPos bifNamed fuel a =
      evalWith (Variant.guard Variant.spec) num bifPos bifNamed fuel a := by
  rw [guard_code_eq_guard_spec]

/-- Inside the envelope the guard is the identity: for a `for` over two short lists the guarded
code variant runs the state machine itself. -/
example : (Variant.guard Variant.code).iter
      [(0, Iter.mkList "x" [.num ⟨false, 1, 0⟩, .num ⟨false, 2, 0⟩]), (1, Iter.mkRange "i" 1 3)] =
    Variant.code.iter [(0, Iter.mkList "x" [.num ⟨false, 1, 0⟩, .num ⟨false, 2, 0⟩]), (1, Iter.mkRange "i" 1 3)] := by
  apply guard_iter_inside
  refine ⟨by simp, by decide, ?_, ?_⟩
  · intro t ht
    rcases List.mem_cons.mp ht with rfl | ht
    · exact Iter.Shaped.list _ _ (by simp)
    · rcases List.mem_cons.mp ht with rfl | ht
      · exact Iter.Shaped.range _ _ _ (by decide) (by decide) (by decide) (by decide)
      · cases ht
  · intro t ht
    rcases List.mem_cons.mp ht with rfl | ht
    · simp [Iter.mkList, Iter.i64Max]
    · rcases List.mem_cons.mp ht with rfl | ht
      · simp [Iter.mkRange, Iter.i64Max]
      · cases ht

end Dmn.Eval
