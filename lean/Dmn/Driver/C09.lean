import Dmn.Model.Sexp

/-! Driver handler for C09 — not implemented yet. -/

namespace Dmn.Driver.C09
open Dmn

def handle (_args : List Sexp) : String := "(error not-implemented)"

end Dmn.Driver.C09
