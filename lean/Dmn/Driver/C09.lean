import Dmn.Model.Sexp
import Dmn.Model.Ops
import Dmn.Driver.Codec

/-! Driver handler for C09: `(c09 op2 <op> a b)`, `(c09 between x a b)`, `(c09 inrange x a lc b rc)`. -/

namespace Dmn.Driver.C09
open Dmn Dmn.Value Dmn.Codec

def op2 (name : String) (a b : Value) : Option Value :=
  match name with
  | "and" => some (and3 a b)
  | "or" => some (or3 a b)
  | "eq" => some (eqV a b)
  | "nq" => some (nqV a b)
  | "lt" => some (ltV a b)
  | "le" => some (leV a b)
  | "gt" => some (gtV a b)
  | "ge" => some (geV a b)
  | "in" => some (inV a b)
  -- `parse_unary_tests` wraps the tests in an expression list
  | "in_eq" => some (inV a (.exprList [b]))
  | "in_lt" => some (inV a (.exprList [.unaryLt b]))
  | "in_le" => some (inV a (.exprList [.unaryLe b]))
  | "in_gt" => some (inV a (.exprList [.unaryGt b]))
  | "in_ge" => some (inV a (.exprList [.unaryGe b]))
  | "nin_eq" => some (inV a (.negList [b]))
  | "nin_lt" => some (inV a (.negList [.unaryLt b]))
  | "nin_le" => some (inV a (.negList [.unaryLe b]))
  | "nin_gt" => some (inV a (.negList [.unaryGt b]))
  | "nin_ge" => some (inV a (.negList [.unaryGe b]))
  | "nin_two" => some (inV a (.negList [.unaryLt b, .unaryGe b]))
  | "in_two" => some (inV a (.exprList [.unaryLt b, .unaryGe b]))
  | _ => none

def handle (args : List Sexp) : String :=
  match args with
  | [.atom "op2", .atom name, a, b] =>
    match valueOfSexp a, valueOfSexp b with
    | some a, some b =>
      match op2 name a b with
      | some v => toString (sexpOfValue v)
      | none => "(error bad-op)"
    | _, _ => "(error bad-value)"
  | [.atom "not", a] =>
    match valueOfSexp a with
    | some a => toString (sexpOfValue (not3 a))
    | none => "(error bad-value)"
  | [.atom "if", c, t, e] =>
    match valueOfSexp c, valueOfSexp t, valueOfSexp e with
    | some c, some t, some e => toString (sexpOfValue (if3 c t e))
    | _, _, _ => "(error bad-value)"
  | [.atom "between", x, a, b] =>
    match valueOfSexp x, valueOfSexp a, valueOfSexp b with
    | some x, some a, some b => toString (sexpOfValue (betweenV x a b))
    | _, _, _ => "(error bad-value)"
  | [.atom "inrange", x, a, lc, b, rc] =>
    match valueOfSexp x, valueOfSexp a, Sexp.bool? lc, valueOfSexp b, Sexp.bool? rc with
    | some x, some a, some lc, some b, some rc => toString (sexpOfValue (inRangeV x (.range a lc b rc)))
    | _, _, _, _, _ => "(error bad-value)"
  | _ => "(error bad-request)"

end Dmn.Driver.C09
