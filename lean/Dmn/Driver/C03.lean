import Dmn.Model.Sexp

/-! Driver handler for C03 — not implemented yet. -/

namespace Dmn.Driver.C03
open Dmn

def handle (_args : List Sexp) : String := "(error not-implemented)"

end Dmn.Driver.C03
