import Dmn.Model.Sexp
import Dmn.Model.DecisionTable

/-!
Driver handler for C03.

`(c03 eval <hitPolicy-attr> <aggregation-attr> (name…) (cell…) (cell…) (rule…))`

* attribute: `none` or `(s cp…)` (the attribute text after `trim()`),
* cell: `none` | `other` | `(el v…)`,
* rule: `((t|f|o …) (v…))`,
* value: `null` | `(b true)` | `(n 5)` | `(n 15 2)` (= 0.15: coefficient and scale, normal form) | `(s cp…)` | `(a kind (s cp…))` | `(l v…)` | `(c ((s cp…) v)…)`.

Answer: `(<model outcome> <spec value> <number of matching rules>)` with outcome
`(ok v)` | `(panic site)` | `(error)`; `(bad-hit-policy)` when the attributes do not parse.
The value codec is shared with the C11 / C12 handlers.
-/

namespace Dmn.Driver.C03
open Dmn Dmn.DT

def kindOf : String → Option AKind
  | "date" => some .date
  | "time" => some .time
  | "dateTime" => some .dateTime
  | "dtDur" => some .dtDur
  | "ymDur" => some .ymDur
  | _ => none

def kindStr : AKind → String
  | .date => "date" | .time => "time" | .dateTime => "dateTime" | .dtDur => "dtDur" | .ymDur => "ymDur"

partial def valueOf : Sexp → Option DTValue
  | .atom "null" => some .null
  | .list [.atom "b", b] => (Sexp.bool? b).map DTValue.bool
  | .list [.atom "n", n] => (Sexp.int? n).map (fun c => DTValue.num (DNum.ofInt c))
  | .list [.atom "n", n, k] => do
    let c ← Sexp.int? n
    let k ← Sexp.nat? k
    pure (.num (DNum.norm c k))
  | .list [.atom "a", .atom k, t] => do
    let k ← kindOf k
    let t ← Sexp.chars? t
    pure (.atom k t)
  | .list (.atom "s" :: cs) => (Sexp.chars? (.list (.atom "s" :: cs))).map DTValue.str
  | .list (.atom "l" :: xs) => (xs.mapM valueOf).map DTValue.list
  | .list (.atom "c" :: es) =>
    (es.mapM (fun (e : Sexp) => match e with
      | Sexp.list [k, v] => do
        let k ← Sexp.chars? k
        let v ← valueOf v
        pure (k, v)
      | _ => none)).map DTValue.ctx
  | _ => none

partial def valueStr : DTValue → String
  | .null => "null"
  | .bool b => s!"(b {b})"
  | .num n => if n.scale = 0 then s!"(n {n.coeff})" else s!"(n {n.coeff} {n.scale})"
  | .str s => toString (Sexp.ofChars s)
  | .atom k t => s!"(a {kindStr k} {Sexp.ofChars t})"
  | .list xs => "(" ++ " ".intercalate ("l" :: xs.map valueStr) ++ ")"
  | .ctx es => "(" ++ " ".intercalate ("c" :: es.map (fun (k, v) => s!"({Sexp.ofChars k} {valueStr v})")) ++ ")"

def outcomeStr : Outcome DTValue → String
  | .ok v => s!"(ok {valueStr v})"
  | .error _ => "(error)"
  | .panic s => s!"(panic {(s.splitOn " ").headD ""})"

def cellOf : Sexp → Option Cell
  | .atom "none" => some .none
  | .atom "other" => some .other
  | .list (.atom "el" :: vs) => (vs.mapM valueOf).map Cell.exprList
  | _ => none

def triOf : Sexp → Option Tri
  | .atom "t" => some .t
  | .atom "f" => some .f
  | .atom "o" => some .o
  | _ => none

def ruleOf : Sexp → Option Rule
  | .list [.list ins, .list outs] => do
    let ins ← ins.mapM triOf
    let outs ← outs.mapM valueOf
    pure ⟨ins, outs⟩
  | _ => none

def attrOf : Sexp → Option (Option String)
  | .atom "none" => some none
  | x => (Sexp.str? x).map some

def handle (args : List Sexp) : String :=
  match args with
  | [.atom "eval", hp, agg, .list names, .list ovals, .list defaults, .list rules] =>
    match attrOf hp, attrOf agg, names.mapM Sexp.chars?, ovals.mapM cellOf, defaults.mapM cellOf,
        rules.mapM ruleOf with
    | some hp, some agg, some names, some ovals, some defaults, some rules =>
      match parseHitPolicy hp agg with
      | none => "(bad-hit-policy)"
      | some p =>
        let t : Table := ⟨p, names, ovals, defaults, rules⟩
        let n := (Spec.matchingRules t).length
        s!"({outcomeStr (evaluate t)} {valueStr (Spec.evaluate t)} {n})"
    | _, _, _, _, _, _ => "(error bad-argument)"
  | _ => "(error bad-request)"

end Dmn.Driver.C03
