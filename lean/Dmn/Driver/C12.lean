import Dmn.Model.Sexp

/-! Driver handler for C12 — not implemented yet. -/

namespace Dmn.Driver.C12
open Dmn

def handle (_args : List Sexp) : String := "(error not-implemented)"

end Dmn.Driver.C12
