import Dmn.Model.Sexp
import Dmn.Model.ModelBuild
import Dmn.Driver.C03
import Dmn.Driver.C12Xml

/-!
Driver handler for C12.

* `(c12 dt <hitPolicy-attr> <aggregation-attr> <nIn> <nOut> ((<ni> <no>)…))` — a decision table
  with `nIn` input and `nOut` named output clauses whose rule *k* has `ni` input entries (all
  satisfied) and `no` output entries (all the number 1); every cell parses.
  Answer: `(<build> <eval>)` with build = `ok` | `error` | `(panic site)` and eval the outcome of
  `DT.evaluate` on the built table (`-` when the table does not build).
* `(c12 graph (items…) (inputs…) (bkms…) (decisions…) (services…))` — requirement graph;
  answer `(<build> (<decision id> <res>)… | (<bkm id> <res>)… | (<service id> <res>)…)` with
  res = `ok` | `error` | `diverge`, fuel 64.
* `(c12 parse|parse-dt|parse-graph <uri-table> <tree>)` — the XML layer, see `Driver/C12Xml.lean`.
-/

namespace Dmn.Driver.C12
open Dmn Dmn.DT Dmn.MB

def site (s : String) : String := (s.splitOn " ").headD ""

def resStr : Res → String
  | .ok => "ok" | .error => "error" | .diverge => "diverge"

partial def itemOf : Sexp → Option Item
  | .atom "simple" => some .simple
  | .atom "collSimple" => some .collSimple
  | .list [.atom "ref", n] => (Sexp.nat? n).map Item.ref
  | .list [.atom "collRef", n] => (Sexp.nat? n).map Item.collRef
  | .list (.atom "comp" :: cs) => (cs.mapM itemOf).map Item.comp
  | .list (.atom "collComp" :: cs) => (cs.mapM itemOf).map Item.collComp
  | _ => none

def typeRefOf : Sexp → Option (Option TypeRef)
  | .atom "none" => some none
  | .atom "builtin" => some (some .builtin)
  | .list [.atom "named", n] => (Sexp.nat? n).map (fun n => some (.named n))
  | _ => none

def optNat : Sexp → Option (Option Nat)
  | .atom "none" => some none
  | x => (Sexp.nat? x).map some

def nats : Sexp → Option (List Nat)
  | .list xs => xs.mapM Sexp.nat?
  | _ => none

def fuel : Nat := 64

def handle (args : List Sexp) : String :=
  match args with
  | [.atom "dt", hp, agg, nIn, nOut, .list rules] =>
    match Dmn.Driver.C03.attrOf hp, Dmn.Driver.C03.attrOf agg, Sexp.nat? nIn, Sexp.nat? nOut,
        rules.mapM (fun (r : Sexp) => match r with
          | Sexp.list [a, b] => do
            let a ← Sexp.nat? a
            let b ← Sexp.nat? b
            pure (a, b)
          | _ => none) with
    | some hp, some agg, some nIn, some nOut, some rules =>
      match parseHitPolicy hp agg with
      | none => "(bad-hit-policy)"
      | some p =>
        let ts : TableS :=
          ⟨List.replicate nIn ⟨true, none⟩, List.replicate nOut ⟨none, none, some true⟩,
           rules.map (fun (a, b) => ⟨List.replicate a true, List.replicate b true⟩)⟩
        match buildTable ts with
        | .panic s => s!"((panic {site s}) -)"
        | .error _ => "(error -)"
        | .ok ps =>
          let names := (List.range nOut).map (fun i => ("o" ++ toString (i + 1)).toList)
          let t : Table :=
            ⟨p, names, List.replicate nOut .none, List.replicate nOut .none,
             ps.map (fun (a, b) => ⟨List.replicate a .t, List.replicate b (.num 1)⟩)⟩
          s!"(ok {Dmn.Driver.C03.outcomeStr (evaluate t)})"
    | _, _, _, _, _ => "(error bad-argument)"
  | [.atom "graph", .list items, .list inputs, .list bkms, .list decisions, .list services] =>
    let items? := items.mapM (fun (e : Sexp) => match e with
      | Sexp.list [n, it] => do
        let n ← Sexp.nat? n
        let it ← itemOf it
        pure (n, it)
      | _ => none)
    let inputs? := inputs.mapM (fun (e : Sexp) => match e with
      | Sexp.list [n, t] => do
        let n ← Sexp.nat? n
        let t ← typeRefOf t
        pure (⟨n, t⟩ : Input)
      | _ => none)
    let bkms? := bkms.mapM (fun (e : Sexp) => match e with
      | Sexp.list [n, reqs, Sexp.list pts, vt] => do
        let n ← Sexp.nat? n
        let reqs ← nats reqs
        let pts ← pts.mapM (fun p => do
          let t ← typeRefOf p
          t)
        let vt ← typeRefOf vt
        pure (⟨n, reqs, pts, vt⟩ : Bkm)
      | _ => none)
    let decisions? := decisions.mapM (fun (e : Sexp) => match e with
      | Sexp.list [n, vt, kn, Sexp.list info] => do
        let n ← Sexp.nat? n
        let vt ← typeRefOf vt
        let kn ← nats kn
        let info ← info.mapM (fun (r : Sexp) => match r with
          | Sexp.list [a, b] => do
            let a ← optNat a
            let b ← optNat b
            pure (⟨a, b⟩ : InfoReq)
          | _ => none)
        pure (⟨n, vt, kn, info⟩ : Decision)
      | _ => none)
    let services? := services.mapM (fun (e : Sexp) => match e with
      | Sexp.list [n, vt, a, b, c, d] => do
        let n ← Sexp.nat? n
        let vt ← typeRefOf vt
        let a ← nats a
        let b ← nats b
        let c ← nats c
        let d ← nats d
        pure (⟨n, vt, a, b, c, d⟩ : Service)
      | _ => none)
    match items?, inputs?, bkms?, decisions?, services? with
    | some items, some inputs, some bkms, some decisions, some services =>
      let d : Defs := ⟨items, inputs, bkms, decisions, services⟩
      let b := build d fuel
      let ds := decisions.map (fun x => s!"({x.id} {resStr (evalDecision d fuel x.id)})")
      let bs := bkms.map (fun x => s!"({x.id} {resStr (evalBkm d fuel x.id)})")
      let ss := services.map (fun x => s!"({x.id} {resStr (evalService d fuel x.id)})")
      s!"({resStr b} ({" ".intercalate ds}) ({" ".intercalate bs}) ({" ".intercalate ss}))"
    | _, _, _, _, _ => "(error bad-argument)"
  | [.atom kind, table, tree] => Dmn.Driver.C12Xml.handle kind table tree
  | _ => "(error bad-request)"

end Dmn.Driver.C12
