import Dmn.Model.Sexp
import Dmn.Model.Coerce

/-! Driver handlers for C16: `(c16 rel a b)`, `(c16 coerce t v)`. -/

namespace Dmn.Driver.C16
open Dmn

partial def typeOfSexp : Sexp → Option FType
  | .atom "any" => some .any
  | .atom "boolean" => some .boolean
  | .atom "date" => some .date
  | .atom "dateTime" => some .dateTime
  | .atom "dtDur" => some .dtDur
  | .atom "null" => some .null
  | .atom "number" => some .number
  | .atom "string" => some .string
  | .atom "time" => some .time
  | .atom "ymDur" => some .ymDur
  | .list [.atom "list", t] => (typeOfSexp t).map .list
  | .list [.atom "range", t] => (typeOfSexp t).map .range
  | .list (.atom "ctx" :: es) => do
    let es ← es.mapM (fun e => match e with
      | .list [k, t] => do
        let k ← Sexp.str? k
        let t ← typeOfSexp t
        pure (k, t)
      | _ => none)
    pure (.ctx es)
  | .list [.atom "fn", .list ps, r] => do
    let ps ← ps.mapM typeOfSexp
    let r ← typeOfSexp r
    pure (.fn ps r)
  | _ => none

partial def sexpOfType : FType → Sexp
  | .any => .atom "any"
  | .boolean => .atom "boolean"
  | .date => .atom "date"
  | .dateTime => .atom "dateTime"
  | .dtDur => .atom "dtDur"
  | .null => .atom "null"
  | .number => .atom "number"
  | .string => .atom "string"
  | .time => .atom "time"
  | .ymDur => .atom "ymDur"
  | .list t => .list [.atom "list", sexpOfType t]
  | .range t => .list [.atom "range", sexpOfType t]
  | .ctx es => .list (.atom "ctx" :: es.map (fun (k, t) => .list [Sexp.ofStr k, sexpOfType t]))
  | .fn ps r => .list [.atom "fn", .list (ps.map sexpOfType), sexpOfType r]

partial def tvOfSexp : Sexp → Option TV
  | .list [.atom "atom", t] => (typeOfSexp t).map .atom
  | .list (.atom "list" :: vs) => (vs.mapM tvOfSexp).map .list
  | .list (.atom "ctx" :: es) => do
    let es ← es.mapM (fun e => match e with
      | .list [k, v] => do
        let k ← Sexp.str? k
        let v ← tvOfSexp v
        pure (k, v)
      | _ => none)
    pure (.ctx es)
  | .list [.atom "range", lo, hi] => do
    let lo ← tvOfSexp lo
    let hi ← tvOfSexp hi
    pure (.range lo hi)
  | .list [.atom "fn", .list ps, r] => do
    let ps ← ps.mapM typeOfSexp
    let r ← typeOfSexp r
    pure (.fn ps r)
  | _ => none

/-- Which branch `coerced` took, as a tag the harness turns back into a value. -/
def coerceTag (t : FType) (v : TV) : String :=
  let tv := TV.typeOf v
  if FType.conf tv t then "same"
  else if ValOps.wrapOk t tv then "wrap"
  else if ValOps.unwrapOk t tv then
    match ValOps.single TV.ops v with
    | some _ => "unwrap"
    | none => "null"
  else "null"

def handle (args : List Sexp) : String :=
  match args with
  | [.atom "rel", a, b] =>
    match typeOfSexp a, typeOfSexp b with
    | some a, some b => s!"({FType.equiv a b} {FType.conf a b})"
    | _, _ => "(error bad-type)"
  | [.atom "coerce", t, v] =>
    match typeOfSexp t, tvOfSexp v with
    | some t, some v => s!"({sexpOfType (TV.typeOf v)} {coerceTag t v})"
    | _, _ => "(error bad-args)"
  -- `(c16 bind (T1 … Tn) (v1 … vm))`: what `eval_function_positional` binds the parameters to (one tag per
  -- parameter), `(none)` for the early null
  | [.atom "bind", .list ts, .list vs] =>
    match ts.mapM typeOfSexp, vs.mapM tvOfSexp with
    | some ts, some vs =>
      let ps := ts.mapIdx (fun i t => (s!"p{i}", t))
      match ValOps.bindPositional TV.ops ps vs with
      | none => "(none)"
      | some _ => "(some " ++ " ".intercalate (List.zipWith coerceTag ts vs) ++ ")"
    | _, _ => "(error bad-args)"
  -- `(c16 bindnamed ((name T) …) ((name v) …))`: what `eval_function_named` binds the parameters to (one tag per
  -- parameter, in the order of the declaration), `(none)` for the early null
  | [.atom "bindnamed", .list ps, .list args] =>
    let ps? := ps.mapM (fun e => match e with
      | .list [k, t] => do pure ((← Sexp.str? k), (← typeOfSexp t))
      | _ => none)
    let args? := args.mapM (fun e => match e with
      | .list [k, v] => do pure ((← Sexp.str? k), (← tvOfSexp v))
      | _ => none)
    match ps?, args? with
    | some ps, some args =>
      match ValOps.bindNamed TV.ops ps args with
      | none => "(none)"
      | some _ =>
        "(some " ++ " ".intercalate (ps.map (fun p =>
          match ValOps.namedLookup args p.1 with
          | some v => coerceTag p.2 v
          | none => "missing")) ++ ")"
    | _, _ => "(error bad-args)"
  | [.atom "instanceof", v, t] =>
    match tvOfSexp v, typeOfSexp t with
    | some v, some t => s!"({TV.instanceOf v t} {FType.conf (TV.typeOf v) t})"
    | _, _ => "(error bad-args)"
  | _ => "(error bad-request)"

end Dmn.Driver.C16
