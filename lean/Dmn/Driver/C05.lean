import Dmn.Model.Sexp
import Dmn.Model.LalrDriver
import Dmn.Model.TemporalMachine

/-!
Driver handler for C05 (parser side):

* `(c05 drive (tok…) failAt fuel)` — runs the model of the LALR driver loop
  (`Dmn.Lalr.step` over the regenerated tables) on the lexer answers `tok` (a token type code,
  or the atom `err` for a lexer error); `failAt` is the index (0-based) of the reduction whose
  reduce action answers `Err`, or `-1`.  Answer: the event list
  `(S state) (T code) (R rule) (N state) … (result …)` in the order in which the traced Rust
  parser prints `NEW-STATE`, `lexer: yy_char`, `reducing_using_rule`, `new_state`.
* `(c05 tables)` — lengths and constants of the regenerated tables.
* `(c05 temporal <checked|wrapping> <op> <operand>…)` — the machine-integer model of a temporal
  operation (`Dmn.TemporalMachine.run`): `ymAdd a b`, `ymSub a b`, `ymNeg a`, `ymYears a`,
  `ymMonths a`, `ymPrint a`, `dtdAdd a b`, `dtdSub a b`, `dtdNeg a`, `dtdDays a`, `dtdHours a`,
  `dtdMinutes a`, `dtdSeconds a`, `dtdPrint a`, `time4Offset a`, `ymLit y m neg`,
  `dtLit d h m s f neg` (a component is an integer or `none`), `dateYm y1 m1 d1 y2 m2 d2`,
  `dateWeekday y m d`.  Answer: `(ok null)`, `(ok (int n))`, `(ok (s c…))` or `(panic site)`.
-/

namespace Dmn.Driver.C05
open Dmn Dmn.Lalr

def siteStr : Site → String
  | .pact => "pact" | .translate => "translate" | .arith => "arith" | .check => "check"
  | .table => "table" | .defAct => "defAct" | .r2 => "r2" | .r1 => "r1" | .r1Sub => "r1Sub"
  | .pGoto => "pGoto" | .gotoCheck => "gotoCheck" | .gotoTable => "gotoTable"
  | .defGoto => "defGoto" | .stackTop => "stackTop"

def resStr : Result → String
  | .accept => "accept" | .syntaxError => "syntaxError" | .lexerError => "lexerError"
  | .actionError => "actionError" | .panic s => "panic:" ++ siteStr s | .fuelOut => "fuelOut"

/-- `run` with an event log. -/
def trace (T : Tables) (act : Nat → Int → Bool) : Nat → P → Action → List String → List String
  | 0, _, _, acc => ("(result fuelOut)" :: acc).reverse
  | fuel + 1, p, a, acc =>
    let acc :=
      match a with
      | .newState =>
        let acc := s!"(S {p.state})" :: acc
        -- a token is fetched when the state has a non-default action and no look-ahead is held
        if p.state ≠ T.final ∧ (idx T.pact p.state).isSome ∧ idx T.pact p.state ≠ some T.pactNInf
            ∧ p.char = T.ttEmpty then
          match p.toks with
          | [] => s!"(T {T.ttEof})" :: acc
          | .tok c :: _ => s!"(T {c})" :: acc
          | .err :: _ => acc
        else acc
      | .reduce => s!"(R {p.n})" :: acc
      | .error => "(E)" :: acc
      | .error1 => "(E1)" :: acc
      | _ => acc
    match step T act p a with
    | .done r => (s!"(result {resStr r})" :: acc).reverse
    | .next p' a' =>
      let acc := if a = .reduce then s!"(N {p'.state})" :: acc else acc
      trace T act fuel p' a' acc

def tokOf : Sexp → Option LexRes
  | .atom "err" => some .err
  | x => (Sexp.int? x).map .tok

def optInt? : Sexp → Option (Option Int)
  | .atom "none" => some none
  | x => (Sexp.int? x).map some

def temporalOp (name : String) (xs : List Sexp) : Option TemporalMachine.Op :=
  let ints := xs.mapM Sexp.int?
  match name, ints with
  | "ymAdd", some [a, b] => some (.ymAdd a b)
  | "ymSub", some [a, b] => some (.ymSub a b)
  | "ymNeg", some [a] => some (.ymNeg a)
  | "ymYears", some [a] => some (.ymYears a)
  | "ymMonths", some [a] => some (.ymMonths a)
  | "ymPrint", some [a] => some (.ymPrint a)
  | "dtdAdd", some [a, b] => some (.dtdAdd a b)
  | "dtdSub", some [a, b] => some (.dtdSub a b)
  | "dtdNeg", some [a] => some (.dtdNeg a)
  | "dtdDays", some [a] => some (.dtdDays a)
  | "dtdHours", some [a] => some (.dtdHours a)
  | "dtdMinutes", some [a] => some (.dtdMinutes a)
  | "dtdSeconds", some [a] => some (.dtdSeconds a)
  | "dtdPrint", some [a] => some (.dtdPrint a)
  | "time4Offset", some [a] => some (.time4Offset a)
  | "dateYm", some [y1, m1, d1, y2, m2, d2] => some (.dateYm ⟨y1, m1.toNat, d1.toNat⟩ ⟨y2, m2.toNat, d2.toNat⟩)
  | "dateWeekday", some [y, m, d] => some (.dateWeekday ⟨y, m.toNat, d.toNat⟩)
  | "ymLit", _ =>
    match xs with
    | [y, mo, neg] =>
      match optInt? y, optInt? mo, Sexp.bool? neg with
      | some y, some mo, some neg => some (.ymLit y mo neg)
      | _, _, _ => none
    | _ => none
  | "dtLit", _ =>
    match xs with
    | [d, h, mi, s, f, neg] =>
      match optInt? d, optInt? h, optInt? mi, optInt? s, optInt? f, Sexp.bool? neg with
      | some d, some h, some mi, some s, some f, some neg => some (.dtLit d h mi s f neg)
      | _, _, _, _, _, _ => none
    | _ => none
  | _, _ => none

def temporalRes : Outcome TemporalMachine.Res → String
  | .ok .null => "(ok null)"
  | .ok (.int n) => s!"(ok (int {n}))"
  | .ok (.text cs) => "(ok " ++ Sexp.toStr (Sexp.ofChars cs) ++ ")"
  | .panic site => s!"(panic {site})"
  | .diverge => "(diverge)"

def handle (args : List Sexp) : String :=
  match args with
  | .atom "temporal" :: .atom mode :: .atom name :: xs =>
    let m : Option IntMode := if mode = "checked" then some .checked else if mode = "wrapping" then some .wrapping else none
    match m, temporalOp name xs with
    | some m, some op => temporalRes (TemporalMachine.run m op)
    | _, _ => "(error bad-args)"
  | [.atom "drive", .list toks, failAt, fuel] =>
    match toks.mapM tokOf, Sexp.int? failAt, Sexp.nat? fuel with
    | some toks, some failAt, some fuel =>
      let act : Nat → Int → Bool := fun i _ => !(decide ((i : Int) = failAt))
      "(" ++ " ".intercalate (trace gen act fuel (init gen toks) .newState []) ++ ")"
    | _, _, _ => "(error bad-args)"
  | [.atom "tables"] =>
    s!"(tables (pact {gen.pact.length}) (defAct {gen.defAct.length}) (table {gen.table.length}) (check {gen.check.length}) (pGoto {gen.pGoto.length}) (defGoto {gen.defGoto.length}) (r1 {gen.r1.length}) (r2 {gen.r2.length}) (translate {gen.translate.length}) (last {gen.last}) (final {gen.final}) (nTokens {gen.nTokens}) (ok {tablesOk gen}))"
  | _ => "(error bad-request)"

end Dmn.Driver.C05
