import Dmn.Model.Sexp
import Dmn.Model.LalrDriver
import Dmn.Model.TemporalMachine
import Dmn.Model.StringIndex
import Dmn.Model.ScopeCell
import Dmn.Model.LongestName

/-!
Driver handler for C05 (parser side):

* `(c05 drive (tok…) failAt fuel)` — runs the model of the LALR driver loop
  (`Dmn.Lalr.step` over the regenerated tables) on the lexer answers `tok` (a token type code,
  or the atom `err` for a lexer error); `failAt` is the index (0-based) of the reduction whose
  reduce action answers `Err`, or `-1`.  Answer: the event list
  `(S state) (T code) (R rule) (N state) … (result …)` in the order in which the traced Rust
  parser prints `NEW-STATE`, `lexer: yy_char`, `reducing_using_rule`, `new_state`.
* `(c05 tables)` — lengths and constants of the regenerated tables.
* `(c05 temporal <checked|wrapping> <op> <operand>…)` — the machine-integer model of a temporal
  operation (`Dmn.TemporalMachine.run`): `ymAdd a b`, `ymSub a b`, `ymNeg a`, `ymYears a`,
  `ymMonths a`, `ymPrint a`, `dtdAdd a b`, `dtdSub a b`, `dtdNeg a`, `dtdDays a`, `dtdHours a`,
  `dtdMinutes a`, `dtdSeconds a`, `dtdPrint a`, `time4Offset a`, `ymLit y m neg`,
  `dtLit d h m s f neg` (a component is an integer or `none`), `dateYm y1 m1 d1 y2 m2 d2`,
  `dateWeekday y m d`.  Answer: `(ok null)`, `(ok (int n))`, `(ok (s c…))` or `(panic site)`.
* `(c05 strindex <checked|wrapping> <op> <operand>…)` — the machine-integer / byte index model of the
  string built-ins (`Dmn.StringIndex.run`); strings are `(s cp…)`:
  `substring str start len` (`start`: an `isize` or `none`; `len`: `toEnd`, `below1`, `other`, `none`
  or a `usize`), `before str match`, `after str match`, `split str delimiter`,
  `replace str pattern replacement` (the answer is trimmed, as `core::replace` does),
  `splitAt str ((start end)…)`, `replaceAt str ((start end)…) (replacement…)`.
  Answer: `(ok null)`, `(ok (s cp…))`, `(ok (list (s cp…)…))` or `(panic site)`.
* `(c05 longestname (s cp…))` — `parse_longest_name` (`Dmn.LongestName`): `(name (s cp…))` when the tokens of the
  text are one `Name` and the end, `(other <result of the driver loop on the lexer's answers>)` otherwise.
* `(c05 scopeops <new|default> (op…))` — the model of `Scope` (`Dmn.ScopeCell.execTrace`) from `Scope::new()`
  (no context) or `Scope::default()` (one empty context).  `op`: `(push CTX)`, `(pop)`, `(peek)`, `(get NAME)`,
  `(deep NAME…)`, `(set NAME VAL)`, `(null NAME)`, `(keys)`; `NAME` = `(s cp…)`; `VAL` = `(num n)`, `(str (s cp…))`,
  `null`, `other`, `(ctx (NAME VAL)…)`, `(list VAL…)`; `CTX` = `(ctx (NAME VAL)…)`.  Answer: one item per
  operation — `unit`, `(ctx none)`, `(ctx CTX)`, `(val none)`, `(val VAL)`, `(keys NAME…)` — and `panic` where the
  model stops.
-/

namespace Dmn.Driver.C05
open Dmn Dmn.Lalr

def siteStr : Site → String
  | .pact => "pact" | .translate => "translate" | .arith => "arith" | .check => "check"
  | .table => "table" | .defAct => "defAct" | .r2 => "r2" | .r1 => "r1" | .r1Sub => "r1Sub"
  | .pGoto => "pGoto" | .gotoCheck => "gotoCheck" | .gotoTable => "gotoTable"
  | .defGoto => "defGoto" | .stackTop => "stackTop"

def resStr : Result → String
  | .accept => "accept" | .syntaxError => "syntaxError" | .lexerError => "lexerError"
  | .actionError => "actionError" | .panic s => "panic:" ++ siteStr s | .fuelOut => "fuelOut"

/-- `run` with an event log. -/
def trace (T : Tables) (act : Nat → Int → Bool) : Nat → P → Action → List String → List String
  | 0, _, _, acc => ("(result fuelOut)" :: acc).reverse
  | fuel + 1, p, a, acc =>
    let acc :=
      match a with
      | .newState =>
        let acc := s!"(S {p.state})" :: acc
        -- a token is fetched when the state has a non-default action and no look-ahead is held
        if p.state ≠ T.final ∧ (idx T.pact p.state).isSome ∧ idx T.pact p.state ≠ some T.pactNInf
            ∧ p.char = T.ttEmpty then
          match p.toks with
          | [] => s!"(T {T.ttEof})" :: acc
          | .tok c :: _ => s!"(T {c})" :: acc
          | .err :: _ => acc
        else acc
      | .reduce => s!"(R {p.n})" :: acc
      | .error => "(E)" :: acc
      | .error1 => "(E1)" :: acc
      | _ => acc
    match step T act p a with
    | .done r => (s!"(result {resStr r})" :: acc).reverse
    | .next p' a' =>
      let acc := if a = .reduce then s!"(N {p'.state})" :: acc else acc
      trace T act fuel p' a' acc

def tokOf : Sexp → Option LexRes
  | .atom "err" => some .err
  | x => (Sexp.int? x).map .tok

def optInt? : Sexp → Option (Option Int)
  | .atom "none" => some none
  | x => (Sexp.int? x).map some

def temporalOp (name : String) (xs : List Sexp) : Option TemporalMachine.Op :=
  let ints := xs.mapM Sexp.int?
  match name, ints with
  | "ymAdd", some [a, b] => some (.ymAdd a b)
  | "ymSub", some [a, b] => some (.ymSub a b)
  | "ymNeg", some [a] => some (.ymNeg a)
  | "ymYears", some [a] => some (.ymYears a)
  | "ymMonths", some [a] => some (.ymMonths a)
  | "ymPrint", some [a] => some (.ymPrint a)
  | "dtdAdd", some [a, b] => some (.dtdAdd a b)
  | "dtdSub", some [a, b] => some (.dtdSub a b)
  | "dtdNeg", some [a] => some (.dtdNeg a)
  | "dtdDays", some [a] => some (.dtdDays a)
  | "dtdHours", some [a] => some (.dtdHours a)
  | "dtdMinutes", some [a] => some (.dtdMinutes a)
  | "dtdSeconds", some [a] => some (.dtdSeconds a)
  | "dtdPrint", some [a] => some (.dtdPrint a)
  | "time4Offset", some [a] => some (.time4Offset a)
  | "dateYm", some [y1, m1, d1, y2, m2, d2] => some (.dateYm ⟨y1, m1.toNat, d1.toNat⟩ ⟨y2, m2.toNat, d2.toNat⟩)
  | "dateWeekday", some [y, m, d] => some (.dateWeekday ⟨y, m.toNat, d.toNat⟩)
  | "ymLit", _ =>
    match xs with
    | [y, mo, neg] =>
      match optInt? y, optInt? mo, Sexp.bool? neg with
      | some y, some mo, some neg => some (.ymLit y mo neg)
      | _, _, _ => none
    | _ => none
  | "dtLit", _ =>
    match xs with
    | [d, h, mi, s, f, neg] =>
      match optInt? d, optInt? h, optInt? mi, optInt? s, optInt? f, Sexp.bool? neg with
      | some d, some h, some mi, some s, some f, some neg => some (.dtLit d h mi s f neg)
      | _, _, _, _, _, _ => none
    | _ => none
  | _, _ => none

def temporalRes : Outcome TemporalMachine.Res → String
  | .ok .null => "(ok null)"
  | .ok (.int n) => s!"(ok (int {n}))"
  | .ok (.text cs) => "(ok " ++ Sexp.toStr (Sexp.ofChars cs) ++ ")"
  | .panic site => s!"(panic {site})"
  | .diverge => "(diverge)"

/-! ### strindex -/

def nats? : Sexp → Option (List Nat)
  | .list (.atom "s" :: cs) => cs.mapM Sexp.nat?
  | _ => none

def match? : Sexp → Option StringIndex.Match
  | .list [a, b] =>
    match Sexp.nat? a, Sexp.nat? b with
    | some a, some b => some (a, b)
    | _, _ => none
  | _ => none

def lenArg? : Sexp → Option StringIndex.LenArg
  | .atom "toEnd" => some .toEnd
  | .atom "below1" => some .below1
  | .atom "other" => some .other
  | .atom "none" => some (.count none)
  | x => (Sexp.int? x).map fun c => .count (some c)

def strOp (name : String) (xs : List Sexp) : Option StringIndex.Op :=
  match name, xs with
  | "substring", [s, st, len] =>
    match nats? s, optInt? st, lenArg? len with
    | some s, some st, some len => some (.substring s st len)
    | _, _, _ => none
  | "before", [s, p] => (nats? s).bind fun s => (nats? p).map fun p => .before s p
  | "after", [s, p] => (nats? s).bind fun s => (nats? p).map fun p => .after s p
  | "split", [s, p] => (nats? s).bind fun s => (nats? p).map fun p => .split s p
  | "replace", [s, p, r] =>
    (nats? s).bind fun s => (nats? p).bind fun p => (nats? r).map fun r => .replace s p r
  | "splitAt", [s, .list ms] => (nats? s).bind fun s => (ms.mapM match?).map fun ms => .splitAt s ms
  | "replaceAt", [s, .list ms, .list rs] =>
    (nats? s).bind fun s => (ms.mapM match?).bind fun ms => (rs.mapM nats?).map fun rs =>
      .replaceAt s ms (rs.map StringIndex.bytes)
  | _, _ => none

def cpStr (cs : List Nat) : String := "(s" ++ String.join (cs.map fun c => " " ++ toString c) ++ ")"

/-- `trim`: `core::replace` trims what `replace_all` returns (`core.rs:860`) -/
def strRes (trim : Bool) : Outcome StringIndex.Res → String
  | .ok .null => "(ok null)"
  | .ok (.chars cs) => "(ok " ++ cpStr cs ++ ")"
  | .ok (.utf8 bs) =>
    let cs := StringIndex.decodeAll bs
    "(ok " ++ cpStr (if trim then StringIndex.trimN cs else cs) ++ ")"
  | .ok (.pieces ps) => "(ok (list" ++ String.join (ps.map fun p => " " ++ cpStr (StringIndex.decodeAll p)) ++ "))"
  | .panic site => s!"(panic {site})"
  | .diverge => "(diverge)"

/-! ### scopeops -/

mutual
  partial def scVal? : Sexp → Option ScopeCell.Val
    | .atom "null" => some .null
    | .atom "other" => some .other
    | .list [.atom "num", n] => (Sexp.int? n).map .num
    | .list [.atom "str", t] => (Sexp.str? t).map .str
    | .list (.atom "ctx" :: es) => (es.mapM scEntry?).map .ctx
    | .list (.atom "list" :: vs) => (vs.mapM scVal?).map .list
    | _ => none
  partial def scEntry? : Sexp → Option (String × ScopeCell.Val)
    | .list [k, v] =>
      match Sexp.str? k, scVal? v with
      | some k, some v => some (k, v)
      | _, _ => none
    | _ => none
end

def scCtx? (x : Sexp) : Option ScopeCell.Ctx :=
  match scVal? x with
  | some (.ctx es) => some es
  | _ => none

def scOp? : Sexp → Option ScopeCell.Op
  | .list [.atom "push", c] => (scCtx? c).map .push
  | .list [.atom "pop"] => some .pop
  | .list [.atom "peek"] => some .peek
  | .list [.atom "get", k] => (Sexp.str? k).map .getEntry
  | .list (.atom "deep" :: ks) => (ks.mapM Sexp.str?).map .searchDeep
  | .list [.atom "set", k, v] =>
    match Sexp.str? k, scVal? v with
    | some k, some v => some (.setEntry k v)
    | _, _ => none
  | .list [.atom "null", k] => (Sexp.str? k).map .insertNull
  | .list [.atom "keys"] => some .flattenKeys
  | _ => none

def nameStr (k : String) : String := Sexp.toStr (Sexp.ofStr k)

partial def scValStr : ScopeCell.Val → String
  | .num n => s!"(num {n})"
  | .other => "other"
  | .null => "null"
  | .str t => "(str " ++ nameStr t ++ ")"
  | .ctx es => "(ctx" ++ String.join (es.map fun e => " (" ++ nameStr e.1 ++ " " ++ scValStr e.2 ++ ")") ++ ")"
  | .list vs => "(list" ++ String.join (vs.map fun v => " " ++ scValStr v) ++ ")"

def scAnsStr : Option ScopeCell.Ans → String
  | none => "panic"
  | some .unit => "unit"
  | some (.ctx none) => "(ctx none)"
  | some (.ctx (some c)) => "(ctx " ++ scValStr (.ctx c) ++ ")"
  | some (.val none) => "(val none)"
  | some (.val (some v)) => "(val " ++ scValStr v ++ ")"
  | some (.keys ks) => "(keys" ++ String.join (ks.map fun k => " " ++ nameStr k) ++ ")"

def handle (args : List Sexp) : String :=
  match args with
  | .atom "temporal" :: .atom mode :: .atom name :: xs =>
    let m : Option IntMode := if mode = "checked" then some .checked else if mode = "wrapping" then some .wrapping else none
    match m, temporalOp name xs with
    | some m, some op => temporalRes (TemporalMachine.run m op)
    | _, _ => "(error bad-args)"
  | .atom "strindex" :: .atom mode :: .atom name :: xs =>
    let m : Option IntMode := if mode = "checked" then some .checked else if mode = "wrapping" then some .wrapping else none
    match m, strOp name xs with
    | some m, some op => strRes (name == "replace" || name == "replaceAt") (StringIndex.run m op)
    | _, _ => "(error bad-args)"
  | [.atom "longestname", text] =>
    match nats? text with
    | some input =>
      match LongestName.loneName input with
      | some n => "(name " ++ cpStr n ++ ")"
      | none =>
        match LongestName.parseLongestName (fun _ _ => true) (fun _ => none) (input.length + 4) (16 * input.length + 64) input with
        | .parsed r => "(other " ++ resStr r ++ ")"
        | .lexerPanic => "(other panic:lexer)"
    | none => "(error bad-args)"
  | [.atom "scopeops", .atom init, .list ops] =>
    let start : Option ScopeCell.Cell :=
      if init = "new" then some { contexts := [] } else if init = "default" then some { contexts := [[]] } else none
    match start, ops.mapM scOp? with
    | some c, some ops => "(" ++ " ".intercalate ((ScopeCell.execTrace c ops).1.map scAnsStr) ++ ")"
    | _, _ => "(error bad-args)"
  | [.atom "drive", .list toks, failAt, fuel] =>
    match toks.mapM tokOf, Sexp.int? failAt, Sexp.nat? fuel with
    | some toks, some failAt, some fuel =>
      let act : Nat → Int → Bool := fun i _ => !(decide ((i : Int) = failAt))
      "(" ++ " ".intercalate (trace gen act fuel (init gen toks) .newState []) ++ ")"
    | _, _, _ => "(error bad-args)"
  | [.atom "tables"] =>
    s!"(tables (pact {gen.pact.length}) (defAct {gen.defAct.length}) (table {gen.table.length}) (check {gen.check.length}) (pGoto {gen.pGoto.length}) (defGoto {gen.defGoto.length}) (r1 {gen.r1.length}) (r2 {gen.r2.length}) (translate {gen.translate.length}) (last {gen.last}) (final {gen.final}) (nTokens {gen.nTokens}) (ok {tablesOk gen}))"
  | _ => "(error bad-request)"

end Dmn.Driver.C05
