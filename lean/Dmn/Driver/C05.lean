import Dmn.Model.Sexp

/-! Driver handler for C05 — not implemented yet. -/

namespace Dmn.Driver.C05
open Dmn

def handle (_args : List Sexp) : String := "(error not-implemented)"

end Dmn.Driver.C05
