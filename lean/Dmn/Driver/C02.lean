import Dmn.Model.Sexp

/-! Driver handler for C02 — not implemented yet. -/

namespace Dmn.Driver.C02
open Dmn

def handle (_args : List Sexp) : String := "(error not-implemented)"

end Dmn.Driver.C02
